(* MergeProofs.v — proofs about Tree/Merge.v (C05) by induction over arbitrary schemas and
   arbitrary field lists. *)
From Ygot Require Import Tree.Tree Tree.TreeOps Tree.Merge Tree.Prune Tree.PruneProofs Path.PathRelProofs.

(* ---------- boolean equalities decide equality ---------- *)
Lemma ikind_eqb_eq a b : ikind_eqb a b = true -> a = b.
Proof. destruct a, b; simpl; intros H; try reflexivity; discriminate. Qed.

Lemma list_eqb_eq {A} (eqb : A -> A -> bool) :
  (forall x y, eqb x y = true -> x = y) -> forall a b, list_eqb eqb a b = true -> a = b.
Proof.
  intros H. induction a as [|x a IH]; destruct b as [|y b]; simpl; intros E; try discriminate; auto.
  apply andb_prop in E. destruct E as [E1 E2]. f_equal; auto.
Qed.

Lemma list_eqb_refl {A} (eqb : A -> A -> bool) :
  (forall x, eqb x x = true) -> forall a, list_eqb eqb a a = true.
Proof. intros H. induction a; simpl; auto. rewrite H, IHa. reflexivity. Qed.

Lemma scalar_eqb_eq a b : scalar_eqb a b = true -> a = b.
Proof.
  destruct a, b; simpl; intros H; try discriminate; auto.
  - apply andb_prop in H. destruct H as [H1 H2]. apply ikind_eqb_eq in H1. apply Z.eqb_eq in H2. congruence.
  - apply str_eqb_eq in H. congruence.
  - apply Bool.eqb_prop in H. congruence.
  - apply N.eqb_eq in H. congruence.
  - f_equal. revert H. apply list_eqb_eq. intros x y. apply N.eqb_eq.
  - apply andb_prop in H. destruct H as [H1 H2]. apply str_eqb_eq in H1. apply Z.eqb_eq in H2. congruence.
Qed.

Lemma keys_eqb_eq a b : keys_eqb a b = true -> a = b.
Proof. apply list_eqb_eq. exact scalar_eqb_eq. Qed.

(* induction over the nested tree type *)
Section TreeInd.
  Variable P : tree -> Prop.
  Hypothesis Hleaf : forall v, P (TLeaf v).
  Hypothesis Hll : forall vs, P (TLeafList vs).
  Hypothesis Hcont : forall fs, Forall (fun x => P (snd x)) fs -> P (TCont fs).
  Hypothesis Hlist : forall es, Forall (fun x => P (snd x)) es -> P (TList es).
  Hypothesis Hunk : forall es, Forall P es -> P (TUnkeyed es).
  Fixpoint tree_ind2 (t : tree) : P t :=
    match t with
    | TLeaf v => Hleaf v
    | TLeafList vs => Hll vs
    | TCont fs => Hcont fs ((fix go (l : list (str * tree)) : Forall (fun x => P (snd x)) l :=
                               match l with [] => Forall_nil _ | x :: r => Forall_cons x (tree_ind2 (snd x)) (go r) end) fs)
    | TList es => Hlist es ((fix go (l : list (list scalar * tree)) : Forall (fun x => P (snd x)) l :=
                               match l with [] => Forall_nil _ | x :: r => Forall_cons x (tree_ind2 (snd x)) (go r) end) es)
    | TUnkeyed es => Hunk es ((fix go (l : list tree) : Forall P l :=
                               match l with [] => Forall_nil _ | x :: r => Forall_cons x (tree_ind2 x) (go r) end) es)
    end.
End TreeInd.

Lemma mg_tree_eqb_eq : forall a b, mg_tree_eqb a b = true -> a = b.
Proof.
  induction a using tree_ind2; destruct b; simpl; intros E; try discriminate.
  - f_equal. now apply scalar_eqb_eq.
  - f_equal. revert E. apply list_eqb_eq. exact scalar_eqb_eq.
  - f_equal. revert fs0 E. induction H as [|[n t] r Hx HF IH]; intros [|[m u] y] E; try discriminate; auto.
    apply andb_prop in E. destruct E as [E E3]. apply andb_prop in E. destruct E as [E1 E2].
    apply str_eqb_eq in E1. apply Hx in E2. simpl in E2. subst. f_equal. now apply IH.
  - f_equal. revert es0 E. induction H as [|[n t] r Hx HF IH]; intros [|[m u] y] E; try discriminate; auto.
    apply andb_prop in E. destruct E as [E E3]. apply andb_prop in E. destruct E as [E1 E2].
    apply keys_eqb_eq in E1. apply Hx in E2. simpl in E2. subst. f_equal. now apply IH.
  - f_equal. revert es0 E. induction H as [|t r Hx HF IH]; intros [|u y] E; try discriminate; auto.
    apply andb_prop in E. destruct E as [E1 E2]. apply Hx in E1. subst. f_equal. now apply IH.
Qed.

(* ---------- unfolding ---------- *)
Lemma mg_copy_struct_eq f o s d src :
  mg_copy_struct f o s d src = mg_copy_fields f o (mg_copy_struct f o) (sfields s) d src.
Proof. destruct s; reflexivity. Qed.
Lemma mg_plain_eq s : mg_plain s = mg_plain_fields mg_plain (sfields s).
Proof. destruct s; reflexivity. Qed.
Lemma mg_srcok_eq s fs : mg_srcok s fs = mg_srcok_fields mg_srcok (sfields s) fs.
Proof. destruct s; reflexivity. Qed.

(* ====================================================================== *)
(* C05: the leaves of the result are the union of the leaves of dst and src *)
(* ====================================================================== *)

Notation L := mg_leaves.

Lemma leaves_fields_nil rec l : mg_leaves_fields rec l [] = [].
Proof. induction l as [|[fi ss] rest IH]; simpl; auto. Qed.
Lemma leaves_nil s : L s [] = [].
Proof. rewrite mg_leaves_eq. apply leaves_fields_nil. Qed.

(* the three facts that make up "union" *)
Record union3 (ow : bool) (R D S : mg_leafset) : Prop := {
  u_sub : forall x, In x R -> In x D \/ In x S;     (* nothing is invented *)
  u_src : forall x, In x S -> In x R;               (* everything of the source is there *)
  u_dst : ow = false -> forall x, In x D -> In x R  (* everything of the destination is there *)
}.

Lemma union3_app ow R1 D1 S1 R2 D2 S2 :
  union3 ow R1 D1 S1 -> union3 ow R2 D2 S2 -> union3 ow (R1 ++ R2) (D1 ++ D2) (S1 ++ S2).
Proof.
  intros [a1 b1 c1] [a2 b2 c2]. constructor.
  - intros x Hx. apply in_app_or in Hx. destruct Hx as [Hx|Hx].
    + destruct (a1 x Hx); [left|right]; apply in_or_app; auto.
    + destruct (a2 x Hx); [left|right]; apply in_or_app; auto.
  - intros x Hx. apply in_app_or in Hx. apply in_or_app. destruct Hx; auto.
  - intros Ho x Hx. apply in_app_or in Hx. apply in_or_app. destruct Hx; auto.
Qed.

Lemma union3_pre ow st R D S : union3 ow R D S -> union3 ow (mg_pre st R) (mg_pre st D) (mg_pre st S).
Proof.
  intros [a b c]. unfold mg_pre. constructor.
  - intros x Hx. apply in_map_iff in Hx. destruct Hx as [y [<- Hy]].
    destruct (a y Hy); [left|right]; apply in_map_iff; eauto.
  - intros x Hx. apply in_map_iff in Hx. destruct Hx as [y [<- Hy]]. apply in_map_iff; eauto.
  - intros Ho x Hx. apply in_map_iff in Hx. destruct Hx as [y [<- Hy]]. apply in_map_iff; eauto.
Qed.

Lemma union3_same ow R : union3 ow R R [].
Proof. constructor; auto. intros x []. Qed.
Lemma union3_src ow R : union3 ow R [] R.
Proof. constructor; auto. intros _ x []. Qed.
Lemma union3_both ow R : union3 ow R R R.
Proof. constructor; auto. Qed.

Definition union_IH (f : bool) (o : mg_opts) (ss : schema) : Prop :=
  forall d src r, mg_srcok ss src = true -> mg_copy_struct f o ss d src = Ok r ->
    union3 (mo_overwrite o) (L ss r) (L ss d) (L ss src).

(* the leaves contributed by the entries of a keyed list *)
Definition entry_leaves (ss : schema) (ke : list scalar * tree) : mg_leafset :=
  ([MgK (fst ke)], MgEntry) :: mg_pre (MgK (fst ke)) (L ss (fields_of (snd ke))).
Definition EL (ss : schema) (es : list (list scalar * tree)) : mg_leafset := flat_map (entry_leaves ss) es.

Lemma EL_app ss a b : EL ss (a ++ b) = EL ss a ++ EL ss b.
Proof. unfold EL. apply flat_map_app. Qed.

Lemma union3_entry ow ss k m old e :
  union3 ow (L ss m) (L ss (fields_of old)) (L ss (fields_of e)) ->
  union3 ow (entry_leaves ss (k, TCont m)) (entry_leaves ss (k, old)) (entry_leaves ss (k, e)).
Proof.
  intros H. unfold entry_leaves. cbn [fst snd fields_of].
  apply (union3_app ow [_] [_] [_]).
  - apply union3_both.
  - now apply union3_pre.
Qed.

Lemma om_replace_leaves ow ss k m old e acc :
  tl_find k acc = Some old ->
  union3 ow (L ss m) (L ss (fields_of old)) (L ss (fields_of e)) ->
  union3 ow (EL ss (mg_om_replace k (TCont m) acc)) (EL ss acc) (entry_leaves ss (k, e)).
Proof.
  intros Hf Hu. induction acc as [|[k' e'] t IH]; simpl in Hf; [discriminate|].
  simpl. destruct (keys_eqb k k') eqn:E.
  - inversion Hf. subst. apply keys_eqb_eq in E. subst k'.
    change (union3 ow (entry_leaves ss (k, TCont m) ++ EL ss t) (entry_leaves ss (k, old) ++ EL ss t)
                   (entry_leaves ss (k, e))).
    rewrite <- (app_nil_r (entry_leaves ss (k, e))).
    apply union3_app; [now apply union3_entry | apply union3_same].
  - change (union3 ow (entry_leaves ss (k', e') ++ EL ss (mg_om_replace k (TCont m) t))
                   (entry_leaves ss (k', e') ++ EL ss t) (entry_leaves ss (k, e))).
    rewrite <- (app_nil_l (entry_leaves ss (k, e))).
    apply union3_app; [apply union3_same | now apply IH].
Qed.

(* every item of an entry starts with the key of the entry *)
Definition starts_with (k : list scalar) (x : mg_path * mg_item) : Prop :=
  match fst x with MgK k' :: _ => k' = k | _ => False end.

Lemma entry_leaves_start ss k e x : In x (entry_leaves ss (k, e)) -> starts_with k x.
Proof.
  unfold entry_leaves. cbn [fst snd]. intros [<-|H]; [reflexivity|].
  unfold mg_pre in H. apply in_map_iff in H. destruct H as [y [<- _]]. reflexivity.
Qed.

(* replacing the entry with key k keeps every item that does not start with k *)
Lemma om_replace_preserve ss k X acc x :
  In x (EL ss acc) -> ~ starts_with k x -> In x (EL ss (mg_om_replace k X acc)).
Proof.
  induction acc as [|[k' e'] t IH]; simpl; auto. intros Hin Hns.
  change (In x (entry_leaves ss (k', e') ++ EL ss t)) in Hin. apply in_app_or in Hin.
  destruct (keys_eqb k k') eqn:E.
  - apply keys_eqb_eq in E. subst k'.
    change (In x (entry_leaves ss (k, X) ++ EL ss t)). apply in_or_app.
    destruct Hin as [Hin|Hin]; auto. exfalso. apply Hns. now apply (entry_leaves_start ss k e').
  - change (In x (entry_leaves ss (k', e') ++ EL ss (mg_om_replace k X t))). apply in_or_app.
    destruct Hin; auto.
Qed.

Lemma nodup_keys_cons k r :
  mg_nodup_keys (k :: r) = true -> ~ In k r /\ mg_nodup_keys r = true.
Proof.
  simpl. intros H. apply andb_prop in H. destruct H as [H1 H2]. split; auto.
  intros Hin. apply negb_true_iff in H1.
  assert (existsb (keys_eqb k) r = true).
  { apply existsb_exists. exists k. split; auto. apply list_eqb_refl.
    intros x. destruct x; simpl; rewrite ?N.eqb_refl, ?Z.eqb_refl, ?str_eqb_refl, ?Bool.eqb_reflx; auto.
    - destruct k0; reflexivity.
    - apply list_eqb_refl. apply N.eqb_refl. }
  congruence.
Qed.

Lemma union3_append ow A R S : union3 ow R [] S -> union3 ow (A ++ R) A S.
Proof.
  intros [a b c]. constructor.
  - intros x Hx. apply in_app_or in Hx. destruct Hx as [Hx|Hx]; auto.
    destruct (a x Hx) as [[]|]; auto.
  - intros x Hx. apply in_or_app. auto.
  - intros _ x Hx. apply in_or_app. auto.
Qed.

Record union4 (ow : bool) (ks : list (list scalar)) (R A S : mg_leafset) : Prop := {
  v_sub : forall x, In x R -> In x A \/ In x S;
  v_src : forall x, In x S -> In x R;
  v_dst : ow = false -> forall x, In x A -> In x R;
  v_keep : forall x, In x A -> (forall k, In k ks -> ~ starts_with k x) -> In x R
}.

Lemma copy_omap_leaves f o ss :
  union_IH f o ss ->
  forall l acc r,
    mg_nodup_keys (map fst l) = true ->
    forallb (fun ke => mg_srcok ss (fields_of (snd ke))) l = true ->
    mg_copy_omap (mg_copy_struct f o ss) l acc = Ok r ->
    union4 (mo_overwrite o) (map fst l) (EL ss r) (EL ss acc) (EL ss l).
Proof.
  intros IHs. induction l as [|[k e] rest IH]; intros acc r Hnd Hok H.
  - simpl in H. inversion H. subst. constructor; auto. intros x [].
  - cbn [map fst] in Hnd. apply nodup_keys_cons in Hnd. destruct Hnd as [Hnotin Hnd].
    cbn [forallb snd] in Hok. apply andb_prop in Hok. destruct Hok as [Hok1 Hok2].
    cbn [mg_copy_omap] in H.
    assert (Hstep : exists acc',
      mg_copy_omap (mg_copy_struct f o ss) rest acc' = Ok r /\
      union3 (mo_overwrite o) (EL ss acc') (EL ss acc) (entry_leaves ss (k, e)) /\
      (forall x, In x (EL ss acc) -> ~ starts_with k x -> In x (EL ss acc'))).
    { destruct (tl_find k acc) as [old|] eqn:Ef.
      - apply bind_ok in H. destruct H as [m [Hm H]].
        exists (mg_om_replace k (TCont m) acc). split; [exact H|]. split.
        + apply (om_replace_leaves _ ss k m old e acc Ef). now apply IHs.
        + intros x Hx Hns. now apply om_replace_preserve.
      - apply bind_ok in H. destruct H as [m [Hm H]].
        exists (acc ++ [(k, TCont m)]). split; [exact H|]. split.
        + rewrite EL_app. apply union3_append.
          unfold EL. cbn [flat_map]. rewrite app_nil_r.
          pose proof (IHs [] (fields_of e) m Hok1 Hm) as Hu. rewrite leaves_nil in Hu.
          unfold entry_leaves. cbn [fst snd fields_of].
          apply (union3_app _ [_] [] [_]); [apply union3_src|].
          change (@nil (mg_path * mg_item)) with (mg_pre (MgK k) []). now apply union3_pre.
        + intros x Hx _. rewrite EL_app. apply in_or_app. now left. }
    destruct Hstep as [acc' [Hrest [Hu Hkeep]]].
    destruct (IH acc' r Hnd Hok2 Hrest) as [a b c d].
    destruct Hu as [ua ub uc].
    change (EL ss ((k, e) :: rest)) with (entry_leaves ss (k, e) ++ EL ss rest).
    constructor.
    + intros x Hx. destruct (a x Hx) as [Hx'|Hx'].
      * destruct (ua x Hx'); auto. right. apply in_or_app. auto.
      * right. apply in_or_app. auto.
    + intros x Hx. apply in_app_or in Hx. destruct Hx as [Hx|Hx]; auto.
      apply d; [now apply ub|].
      intros k2 Hk2 Hs. apply entry_leaves_start in Hx. unfold starts_with in *.
      destruct (fst x) as [|[n|k'] p]; try contradiction. subst. contradiction.
    + intros Ho x Hx. apply c; auto.
    + intros x Hx Hns. apply d.
      * apply Hkeep; auto. apply Hns. now left.
      * intros k2 Hk2. apply Hns. now right.
Qed.

(* ---------- slices ---------- *)
Definition olist {A} (o : option (list A)) : list A := match o with Some l => l | None => [] end.

Lemma copy_slice_union {A} (eqb : A -> A -> bool) (g : A -> mg_path * mg_item) ow d s r :
  (forall x y, eqb x y = true -> x = y) ->
  mg_copy_slice eqb d s s = Ok r ->
  union3 ow (map g (olist r)) (map g (olist d)) (map g s).
Proof.
  intros Heq H. unfold mg_copy_slice in H. fold (olist d) in H.
  destruct (nil_b (olist d) && nil_b s) eqn:E1.
  - inversion H. subst. apply andb_prop in E1. destruct E1 as [_ E1]. destruct s; [|discriminate].
    apply union3_same.
  - destruct (list_eqb eqb s (olist d)) eqn:E2.
    + inversion H. subst. apply (list_eqb_eq eqb Heq) in E2. subst. apply union3_both.
    + destruct (mg_overlap eqb (olist d) s); [discriminate|]. inversion H. subst. cbn [olist].
      rewrite map_app. constructor.
      * intros x Hx. apply in_app_or in Hx. tauto.
      * intros x Hx. apply in_or_app. tauto.
      * intros _ x Hx. apply in_or_app. tauto.
Qed.

(* ---------- one field ---------- *)
Definition plain_field (ss : schema) : bool :=
  match ss with
  | SLeaf t _ => match mg_repr_of t with REmpty | RBin => false | _ => true end
  | _ => true
  end.

Lemma leaves_field_cont_fields ss c :
  mg_leaves_field L ss c = match ss, c with SCont _, TCont _ => L ss (fields_of c) | _, _ => mg_leaves_field L ss c end.
Proof. destruct ss, c; reflexivity. Qed.

Lemma copy_field_union o ss dv sv nv :
  union_IH false o ss ->
  plain_field ss = true ->
  match sv with Some sub => mg_srcok_field mg_srcok ss sub = true | None => True end ->
  mg_copy_field false o (mg_copy_struct false o) ss dv sv = Ok nv ->
  union3 (mo_overwrite o) (leaves_of_opt ss nv) (leaves_of_opt ss dv) (leaves_of_opt ss sv).
Proof.
  intros IH Hp Hok H. destruct sv as [sub|]; cbn [mg_copy_field] in H.
  2:{ inversion H. subst. unfold mg_unset_src, mg_is_empty_leaf.
      destruct ss as [t d0| | | |]; try apply union3_same.
      simpl in Hp. destruct (mg_repr_of t); try discriminate; apply union3_same. }
  destruct ss as [t d0|t mn mx|sfs|[|] k mn mx sfs|sfs]; destruct sub as [v|vs|cfs|es|es];
    try discriminate H; cbn [mg_srcok_field] in Hok.
  - (* leaf *)
    unfold mg_copy_leaf in H. simpl in Hp.
    assert (Hmain : mg_leaf_conflict o dv v = false ->
                    union3 (mo_overwrite o) [([], MgV v)] (leaves_of_opt (SLeaf t d0) dv) [([], MgV v)]).
    { intros Hc. unfold mg_leaf_conflict in Hc. constructor; auto.
      intros Ho x Hx. rewrite Ho in Hc. destruct dv as [[d'| | | |]|]; simpl in Hx; try contradiction.
      simpl in Hc. apply negb_false_iff in Hc. apply scalar_eqb_eq in Hc. subst. exact Hx. }
    destruct (mg_repr_of t); try discriminate Hp.
    + destruct (mg_leaf_conflict o dv v) eqn:Ec; [discriminate|]. inversion H. subst. now apply Hmain.
    + destruct (mg_leaf_conflict o dv v) eqn:Ec; [discriminate|]. inversion H. subst. now apply Hmain.
    + destruct (mg_leaf_conflict o dv v) eqn:Ec; [discriminate|].
      assert (nv = Some (TLeaf v)).
      { destruct v as [| | | |[|b bs]| |]; try (inversion H; reflexivity). discriminate Hok. }
      subst. now apply Hmain.
  - (* leaf-list *)
    apply bind_ok in H. destruct H as [r [Hs H]]. inversion H. subst.
    pose proof (copy_slice_union scalar_eqb (fun v => ([], MgV v)) (mo_overwrite o) _ _ _ scalar_eqb_eq Hs) as Hu.
    destruct r as [x|]; destruct dv as [[| x'| | |]|]; exact Hu.
  - (* container *)
    apply bind_ok in H. destruct H as [r [Hr H]]. inversion H. subst.
    pose proof (IH _ _ _ Hok Hr) as Hu. cbn [leaves_of_opt mg_leaves_field].
    destruct dv as [[| |dfs| |]|]; cbn [leaves_of_opt mg_leaves_field fields_of] in *;
      try rewrite leaves_nil in Hu; exact Hu.
  - (* ordered list *)
    apply andb_prop in Hok. destruct Hok as [Hnd Hok].
    set (des := match dv with Some (TList x) => x | _ => [] end) in *.
    assert (Hdv : leaves_of_opt (SList true k mn mx sfs) dv = EL (SList true k mn mx sfs) des).
    { destruct dv as [[| | |x|]|]; reflexivity. }
    rewrite Hdv. cbn [leaves_of_opt mg_leaves_field]. fold (entry_leaves (SList true k mn mx sfs)). fold (EL (SList true k mn mx sfs) es).
    destruct (nil_b es && nil_b des && negb (mo_empty_maps o)) eqn:E1.
    + inversion H. subst. rewrite Hdv. apply andb_prop in E1. destruct E1 as [E1 _]. apply andb_prop in E1.
      destruct E1 as [E1 _]. destruct es; [|discriminate]. apply union3_same.
    + destruct (negb (mg_om_mergeable (map fst des) (map fst es))); [discriminate|].
      apply bind_ok in H. destruct H as [r [Hr H]]. inversion H. subst.
      cbn [leaves_of_opt mg_leaves_field]. fold (entry_leaves (SList true k mn mx sfs)). fold (EL (SList true k mn mx sfs) r).
      destruct (copy_omap_leaves false o _ IH es des r Hnd Hok Hr) as [a b c _]. constructor; auto.
  - (* keyed list *)
    apply andb_prop in Hok. destruct Hok as [Hnd Hok].
    set (des := match dv with Some (TList x) => x | _ => [] end) in *.
    assert (Hdv : leaves_of_opt (SList false k mn mx sfs) dv = EL (SList false k mn mx sfs) des).
    { destruct dv as [[| | |x|]|]; reflexivity. }
    rewrite Hdv. cbn [leaves_of_opt mg_leaves_field]. fold (entry_leaves (SList false k mn mx sfs)). fold (EL (SList false k mn mx sfs) es).
    destruct (nil_b es && nil_b des && negb (mo_empty_maps o)) eqn:E1.
    + inversion H. subst. rewrite Hdv. apply andb_prop in E1. destruct E1 as [E1 _]. apply andb_prop in E1.
      destruct E1 as [E1 _]. destruct es; [|discriminate]. apply union3_same.
    + apply bind_ok in H. destruct H as [r [Hr H]]. inversion H. subst.
      cbn [leaves_of_opt mg_leaves_field]. fold (entry_leaves (SList false k mn mx sfs)). fold (EL (SList false k mn mx sfs) r).
      destruct (copy_omap_leaves false o _ IH es des r Hnd Hok Hr) as [a b c _]. constructor; auto.
  - (* unkeyed list: the source entries themselves are appended *)
    apply bind_ok in H. destruct H as [cs [_ H]]. apply bind_ok in H. destruct H as [r [Hs H]]. inversion H. subst.
    pose proof (copy_slice_union mg_tree_eqb (fun e => ([], MgUEntry e)) (mo_overwrite o) _ _ _ mg_tree_eqb_eq Hs) as Hu.
    destruct r as [x|]; destruct dv as [[| | | |x']|]; exact Hu.
Qed.

(* ---------- the loop over the fields ---------- *)
Lemma copy_fields_names f o rec l d src out :
  mg_copy_fields f o rec l d src = Ok out -> forall x, In x (fnames out) -> In x (go_names l).
Proof.
  revert out. induction l as [|[fi ss] rest IH]; simpl; intros out H x Hx.
  - inversion H. subst. contradiction.
  - apply bind_ok in H. destruct H as [nv [_ H]]. apply bind_ok in H. destruct H as [r [Hr H]].
    inversion H. subst. apply fnames_opt_cons in Hx. destruct Hx as [->|Hx]; eauto.
Qed.

Lemma plain_fields_cons rec fi ss rest :
  mg_plain_fields rec ((fi, ss) :: rest) = true ->
  plain_field ss = true /\ (match ss with SLeaf _ _ | SLeafList _ _ _ => True | _ => rec ss = true end) /\
  mg_plain_fields rec rest = true.
Proof.
  simpl. intros H. apply andb_prop in H. destruct H as [H1 H2]. repeat split; auto.
  - destruct ss; auto.
  - destruct ss; auto.
Qed.

Lemma copy_fields_union o l d src out :
  mg_nodup_names (go_names l) = true ->
  Forall (fun x => mg_plain (snd x) = true -> union_IH false o (snd x)) l ->
  mg_plain_fields mg_plain l = true ->
  mg_srcok_fields mg_srcok l src = true ->
  mg_copy_fields false o (mg_copy_struct false o) l d src = Ok out ->
  union3 (mo_overwrite o) (mg_leaves_fields L l out) (mg_leaves_fields L l d) (mg_leaves_fields L l src).
Proof.
  intros Hnd HF. revert out. induction HF as [|[fi ss] rest Hx HF IH]; intros out Hp Hok H.
  - simpl. apply union3_same.
  - cbn [go_names map fst] in Hnd. apply nodup_names_cons in Hnd. destruct Hnd as [Hnotin Hnd].
    apply plain_fields_cons in Hp. destruct Hp as [Hp1 [Hp2 Hp3]].
    cbn [mg_srcok_fields] in Hok. apply andb_prop in Hok. destruct Hok as [Hok1 Hok2].
    cbn [mg_copy_fields] in H. apply bind_ok in H. destruct H as [nv [Hnv H]].
    apply bind_ok in H. destruct H as [r [Hr H]]. inversion H. subst. clear H.
    cbn [mg_leaves_fields].
    rewrite (field_get_head_out (f_go fi) nv r (go_names rest) Hnotin (copy_fields_names _ _ _ _ _ _ _ Hr)).
    rewrite (leaves_fields_congr L rest _ r (congr_tail _ _ _ _ Hnotin)).
    apply union3_app; [|now apply IH].
    assert (HIH : union_IH false o ss).
    { destruct ss; try (apply Hx; exact Hp2);
        intros d' s' r' _ Hc; simpl in Hc; inversion Hc; simpl; apply union3_same. }
    pose proof (copy_field_union o ss (field_get (f_go fi) d) (field_get (f_go fi) src) nv HIH Hp1) as Hu.
    assert (Hs : match field_get (f_go fi) src with Some sub => mg_srcok_field mg_srcok ss sub = true | None => True end).
    { destruct (field_get (f_go fi) src); auto. }
    specialize (Hu Hs Hnv). unfold leaves_of_opt in Hu.
    destruct nv, (field_get (f_go fi) d), (field_get (f_go fi) src);
      try (change (@nil (mg_path * mg_item)) with (mg_pre (MgF (f_go fi)) [])); now apply union3_pre.
Qed.

Theorem copy_struct_union o : forall s, mg_wf_schema s = true -> mg_plain s = true -> union_IH false o s.
Proof.
  apply (schema_struct_ind (fun s => mg_wf_schema s = true -> mg_plain s = true -> union_IH false o s)).
  intros s IH Hwf Hp d src r Hok H.
  rewrite mg_wf_schema_eq in Hwf. apply andb_prop in Hwf. destruct Hwf as [Hnd Hwf].
  rewrite mg_plain_eq in Hp. rewrite mg_srcok_eq in Hok. rewrite mg_copy_struct_eq in H. rewrite !mg_leaves_eq.
  apply (copy_fields_union o (sfields s) d src r); auto.
  clear -IH Hwf. induction IH as [|[fi ss] rest Hx HF IHl]; constructor.
  - simpl in Hwf. apply andb_prop in Hwf. intros Hp. apply Hx; tauto.
  - simpl in Hwf. apply andb_prop in Hwf. apply IHl. tauto.
Qed.

(* ====================================================================== *)
(* C05: copyStruct succeeds exactly on compatible structs                  *)
(* ====================================================================== *)

Lemma mg_compat_eq sp o s d src :
  mg_compat sp o s d src = mg_compat_fields sp o (mg_compat sp o) (sfields s) d src.
Proof. destruct s; reflexivity. Qed.

Definition isok {A} (r : result A) : Prop := exists x, r = Ok x.

Lemma isok_bind {A B} (r : result A) (g : A -> result B) :
  isok (bind r g) <-> exists x, r = Ok x /\ isok (g x).
Proof.
  unfold isok. split.
  - intros [y H]. apply bind_ok in H. destruct H as [x [H1 H2]]. eauto.
  - intros [x [H1 [y H2]]]. rewrite H1. simpl. eauto.
Qed.

Lemma isok_Ok {A} (x : A) : isok (Ok x).
Proof. eexists. reflexivity. Qed.
Lemma not_isok_Err {A} : ~ isok (@Err A).
Proof. intros [x H]. discriminate. Qed.

Lemma copy_slice_ok {A} (eqb : A -> A -> bool) d s app :
  isok (mg_copy_slice eqb d s app) <-> mg_slice_ok eqb (olist d) s = true.
Proof.
  unfold mg_copy_slice, mg_slice_ok. fold (olist d).
  destruct (nil_b (olist d) && nil_b s); simpl; [split; auto using isok_Ok|].
  destruct (list_eqb eqb s (olist d)); simpl; [split; auto using isok_Ok|].
  destruct (mg_overlap eqb (olist d) s); simpl; split; auto using isok_Ok; try discriminate.
  intros H. now apply not_isok_Err in H.
Qed.

Lemma keys_eqb_refl k : keys_eqb k k = true.
Proof.
  apply list_eqb_refl. intros x. destruct x; simpl; rewrite ?N.eqb_refl, ?Z.eqb_refl, ?str_eqb_refl; auto.
  - destruct k0; reflexivity.
  - destruct b; reflexivity.
  - apply list_eqb_refl. apply N.eqb_refl.
Qed.

Lemma keys_eqb_neq a b : a <> b -> keys_eqb a b = false.
Proof. intros H. destruct (keys_eqb a b) eqn:E; auto. apply keys_eqb_eq in E. contradiction. Qed.

Lemma tl_find_replace_other k2 k X acc :
  k2 <> k -> tl_find k2 (mg_om_replace k X acc) = tl_find k2 acc.
Proof.
  intros Hne. induction acc as [|[k' e'] t IH]; simpl; auto.
  destruct (keys_eqb k k') eqn:E.
  - apply keys_eqb_eq in E. subst k'. simpl. rewrite (keys_eqb_neq _ _ Hne). reflexivity.
  - simpl. destruct (keys_eqb k2 k'); auto.
Qed.

Lemma tl_find_app_other k2 k X acc :
  k2 <> k -> tl_find k2 (acc ++ [(k, X)]) = tl_find k2 acc.
Proof.
  intros Hne. induction acc as [|[k' e'] t IH]; simpl.
  - now rewrite (keys_eqb_neq _ _ Hne).
  - destruct (keys_eqb k2 k'); auto.
Qed.

Definition look (des : list (list scalar * tree)) (k : list scalar) : list (str * tree) :=
  match tl_find k des with Some old => fields_of old | None => [] end.

Lemma copy_omap_ok (F : list (str * tree) -> list (str * tree) -> result (list (str * tree)))
      (C : list (str * tree) -> list (str * tree) -> bool) des :
  forall l acc,
    (forall ke, In ke l -> forall d, isok (F d (fields_of (snd ke))) <-> C d (fields_of (snd ke)) = true) ->
    mg_nodup_keys (map fst l) = true ->
    (forall k, In k (map fst l) -> tl_find k acc = tl_find k des) ->
    (isok (mg_copy_omap F l acc) <-> forallb (fun ke => C (look des (fst ke)) (fields_of (snd ke))) l = true).
Proof.
  induction l as [|[k e] rest IH]; intros acc HF Hnd Hinv.
  - simpl. split; auto using isok_Ok.
  - cbn [map fst] in Hnd. apply nodup_keys_cons in Hnd. destruct Hnd as [Hnotin Hnd].
    cbn [mg_copy_omap forallb fst snd]. unfold look at 1.
    rewrite <- (Hinv k) by now left.
    assert (HFe := HF (k, e) (or_introl eq_refl)). cbn [snd] in HFe.
    assert (Hrest : forall acc', (forall k2, k2 <> k -> tl_find k2 acc' = tl_find k2 acc) ->
              (isok (mg_copy_omap F rest acc') <-> forallb (fun ke => C (look des (fst ke)) (fields_of (snd ke))) rest = true)).
    { intros acc' Hacc. apply IH; auto.
      - intros ke Hke. apply HF. now right.
      - intros k2 Hk2. rewrite Hacc.
        + apply Hinv. now right.
        + intros ->. contradiction. }
    destruct (tl_find k acc) as [old|] eqn:Ef.
    + rewrite isok_bind. rewrite andb_true_iff. rewrite <- HFe. split.
      * intros [m [Hm Hr]]. split; [rewrite Hm; apply isok_Ok|].
        apply (Hrest (mg_om_replace k (TCont m) acc)); auto.
        intros k2 Hne. now apply tl_find_replace_other.
      * intros [[m Hm] Hr]. exists m. split; auto.
        apply (Hrest (mg_om_replace k (TCont m) acc)); auto.
        intros k2 Hne. now apply tl_find_replace_other.
    + rewrite isok_bind. rewrite andb_true_iff. rewrite <- HFe. split.
      * intros [m [Hm Hr]]. split; [rewrite Hm; apply isok_Ok|].
        apply (Hrest (acc ++ [(k, TCont m)])); auto.
        intros k2 Hne. now apply tl_find_app_other.
      * intros [[m Hm] Hr]. exists m. split; auto.
        apply (Hrest (acc ++ [(k, TCont m)])); auto.
        intros k2 Hne. now apply tl_find_app_other.
Qed.

Lemma mapM_isok {A B} (g : A -> result B) (c : A -> bool) l :
  (forall x, In x l -> (isok (g x) <-> c x = true)) ->
  (isok (mapM g l) <-> forallb c l = true).
Proof.
  induction l as [|x r IH]; simpl; intros H.
  - split; auto using isok_Ok.
  - rewrite isok_bind. rewrite andb_true_iff. rewrite <- (H x) by now left.
    assert (IH' := IH (fun y Hy => H y (or_intror Hy))). split.
    + intros [y [Hy Hr]]. rewrite isok_bind in Hr. destruct Hr as [ys [Hys _]].
      split; [rewrite Hy; apply isok_Ok|]. apply IH'. rewrite Hys. apply isok_Ok.
    + intros [[y Hy] Hr]. exists y. split; auto. apply IH' in Hr. destruct Hr as [ys Hys].
      rewrite Hys. simpl. apply isok_Ok.
Qed.

Definition ok_IH (f : bool) (o : mg_opts) (ss : schema) : Prop :=
  forall d src, mg_srcok ss src = true ->
    (isok (mg_copy_struct f o ss d src) <-> mg_compat false o ss d src = true).

Lemma forallb_In {A} (c : A -> bool) l x : forallb c l = true -> In x l -> c x = true.
Proof. intros H Hin. rewrite forallb_forall in H. auto. Qed.

Lemma copy_field_ok f o ss dv sv :
  ok_IH f o ss ->
  match sv with Some sub => mg_srcok_field mg_srcok ss sub = true | None => True end ->
  (isok (mg_copy_field f o (mg_copy_struct f o) ss dv sv) <->
   mg_compat_field false o (mg_compat false o) ss dv sv = true).
Proof.
  intros IH Hok. destruct sv as [sub|]; cbn [mg_copy_field mg_compat_field].
  2:{ split; auto using isok_Ok. }
  destruct ss as [t d0|t mn mx|sfs|[|] k mn mx sfs|sfs]; destruct sub as [v|vs|cfs|es|es];
    cbn [mg_srcok_field] in Hok;
    try (split; [intros H; now apply not_isok_Err in H | discriminate]).
  - (* leaf *)
    unfold mg_copy_leaf. destruct (mg_repr_of t).
    + destruct (mg_leaf_conflict o dv v); simpl; split; auto using isok_Ok; try discriminate.
      intros H; now apply not_isok_Err in H.
    + rewrite isok_bind.
      assert (Hd : olist (match dv with Some (TLeaf (VBin d)) => Some d | _ => None end) =
                   match dv with Some (TLeaf (VBin d)) => d | _ => [] end).
      { destruct dv as [[[]| | | |]|]; reflexivity. }
      rewrite <- Hd. rewrite <- (copy_slice_ok N.eqb _ _ (match v with VBin s => s | _ => [] end)).
      split.
      * intros [x [Hx _]]. rewrite Hx. apply isok_Ok.
      * intros [x Hx]. exists x. split; auto. apply isok_Ok.
    + destruct (mg_leaf_conflict o dv v); simpl; split; auto using isok_Ok; try discriminate.
      intros H; now apply not_isok_Err in H.
    + split; auto using isok_Ok.
    + destruct (mg_leaf_conflict o dv v); simpl; split; auto; try discriminate.
      * intros H; now apply not_isok_Err in H.
      * intros _. destruct v as [| | | |[|b bs]| |]; apply isok_Ok.
  - (* leaf-list *)
    rewrite isok_bind.
    assert (Hd : olist (match dv with Some (TLeafList x) => Some x | _ => None end) =
                 match dv with Some (TLeafList x) => x | _ => [] end).
    { destruct dv as [[]|]; reflexivity. }
    rewrite <- Hd. rewrite <- (copy_slice_ok scalar_eqb _ _ vs). split.
    + intros [x [Hx _]]. rewrite Hx. apply isok_Ok.
    + intros [x Hx]. exists x. split; auto. apply isok_Ok.
  - (* container *)
    rewrite isok_bind. rewrite <- (IH _ cfs Hok). split.
    + intros [x [Hx _]]. rewrite Hx. apply isok_Ok.
    + intros [x Hx]. exists x. split; auto. apply isok_Ok.
  - (* ordered list *)
    apply andb_prop in Hok. destruct Hok as [Hnd Hok].
    set (des := match dv with Some (TList x) => x | _ => [] end).
    assert (Hfold : isok (mg_copy_omap (mg_copy_struct f o (SList true k mn mx sfs)) es des) <->
                    forallb (fun ke => mg_compat false o (SList true k mn mx sfs) (look des (fst ke)) (fields_of (snd ke))) es = true).
    { apply copy_omap_ok; auto. intros ke Hke d. apply IH. exact (forallb_In _ _ _ Hok Hke). }
    destruct (nil_b es && nil_b des && negb (mo_empty_maps o)); cbn [orb andb negb]; [split; auto using isok_Ok|].
    destruct (mg_om_mergeable (map fst des) (map fst es)); cbn [orb andb negb].
    + rewrite isok_bind. rewrite <- Hfold. split.
      * intros [x [Hx _]]. rewrite Hx. apply isok_Ok.
      * intros [x Hx]. exists x. split; auto. apply isok_Ok.
    + split; [intros H; now apply not_isok_Err in H | discriminate].
  - (* keyed list *)
    apply andb_prop in Hok. destruct Hok as [Hnd Hok].
    set (des := match dv with Some (TList x) => x | _ => [] end).
    assert (Hfold : isok (mg_copy_omap (mg_copy_struct f o (SList false k mn mx sfs)) es des) <->
                    forallb (fun ke => mg_compat false o (SList false k mn mx sfs) (look des (fst ke)) (fields_of (snd ke))) es = true).
    { apply copy_omap_ok; auto. intros ke Hke d. apply IH. exact (forallb_In _ _ _ Hok Hke). }
    destruct (nil_b es && nil_b des && negb (mo_empty_maps o)); cbn [orb andb negb]; [split; auto using isok_Ok|].
    rewrite isok_bind. rewrite <- Hfold. split.
    + intros [x [Hx _]]. rewrite Hx. apply isok_Ok.
    + intros [x Hx]. exists x. split; auto. apply isok_Ok.
  - (* unkeyed list *)
    rewrite isok_bind. rewrite andb_true_iff.
    assert (Hm : isok (mapM (fun e => mg_copy_struct f o (SUnkeyed sfs) [] (fields_of e)) es) <->
                 forallb (fun e => mg_compat false o (SUnkeyed sfs) [] (fields_of e)) es = true).
    { apply mapM_isok. intros e He. apply IH. exact (forallb_In _ _ _ Hok He). }
    assert (Hd : olist (match dv with Some (TUnkeyed x) => Some x | _ => None end) =
                 match dv with Some (TUnkeyed x) => x | _ => [] end).
    { destruct dv as [[]|]; reflexivity. }
    rewrite <- Hd, <- Hm. split.
    + intros [cs [Hcs Hr]]. split; [rewrite Hcs; apply isok_Ok|].
      rewrite isok_bind in Hr. destruct Hr as [x [Hx _]].
      apply (copy_slice_ok mg_tree_eqb _ _ (if f then map TCont cs else es)). rewrite Hx. apply isok_Ok.
    + intros [[cs Hcs] Hs]. exists cs. split; auto. rewrite isok_bind.
      apply (copy_slice_ok mg_tree_eqb _ _ (if f then map TCont cs else es)) in Hs. destruct Hs as [x Hx].
      exists x. split; auto. apply isok_Ok.
Qed.

Lemma copy_fields_ok f o l d src :
  Forall (fun x => ok_IH f o (snd x)) l ->
  mg_srcok_fields mg_srcok l src = true ->
  (isok (mg_copy_fields f o (mg_copy_struct f o) l d src) <->
   mg_compat_fields false o (mg_compat false o) l d src = true).
Proof.
  induction 1 as [|[fi ss] rest Hx HF IH]; intros Hok.
  - simpl. split; auto using isok_Ok.
  - cbn [mg_srcok_fields] in Hok. apply andb_prop in Hok. destruct Hok as [Hok1 Hok2].
    cbn [mg_copy_fields mg_compat_fields]. rewrite isok_bind, andb_true_iff.
    assert (Hs : match field_get (f_go fi) src with Some sub => mg_srcok_field mg_srcok ss sub = true | None => True end).
    { destruct (field_get (f_go fi) src); auto. }
    rewrite <- (copy_field_ok f o ss _ _ Hx Hs), <- (IH Hok2). split.
    + intros [nv [Hnv Hr]]. split; [rewrite Hnv; apply isok_Ok|].
      rewrite isok_bind in Hr. destruct Hr as [r [Hr _]]. rewrite Hr. apply isok_Ok.
    + intros [[nv Hnv] [r Hr]]. exists nv. split; auto. rewrite Hr. simpl. apply isok_Ok.
Qed.

(* copyStruct(dst, src) succeeds exactly when src is compatible with dst *)
Theorem copy_struct_ok f o : forall s, ok_IH f o s.
Proof.
  apply (schema_struct_ind (ok_IH f o)).
  intros s IH d src Hok. rewrite mg_copy_struct_eq, mg_compat_eq. rewrite mg_srcok_eq in Hok.
  now apply copy_fields_ok.
Qed.

(* ====================================================================== *)
(* the documented compatibility implies the implemented one                *)
(* ====================================================================== *)

Lemma scan_disjoint dst : forall src, mg_keys_disjoint dst src = true -> mg_om_scan dst src = src.
Proof.
  induction dst as [|d dst IH]; intros src H; [reflexivity|].
  destruct src as [|s src]; [reflexivity|]. simpl.
  unfold mg_keys_disjoint in H. simpl in H. apply negb_true_iff in H.
  apply orb_false_iff in H. destruct H as [H1 H2]. apply orb_false_iff in H1. destruct H1 as [H1 H3].
  rewrite H1. apply IH. unfold mg_keys_disjoint. simpl. rewrite H3. simpl.
  apply negb_true_iff. clear -H2. induction src as [|x src IHs]; simpl in *; auto.
  apply orb_false_iff in H2. destruct H2 as [Ha Hb]. apply orb_false_iff in Ha. destruct Ha as [_ Ha].
  rewrite Ha. simpl. auto.
Qed.

Lemma scan_subseq dst : forall src, mg_subseq dst src = true -> mg_om_scan dst src = [].
Proof.
  induction dst as [|d dst IH]; intros src H.
  - destruct src; [reflexivity|discriminate].
  - destruct src as [|s src]; [reflexivity|]. simpl in *.
    destruct (keys_eqb s d); now apply IH.
Qed.

Lemma spec_mergeable dst src :
  mg_keys_disjoint dst src || mg_subseq dst src = true -> mg_om_mergeable dst src = true.
Proof.
  intros H. apply orb_prop in H. unfold mg_om_mergeable. destruct H as [H|H].
  - rewrite (scan_disjoint _ _ H). rewrite Nat.eqb_refl. apply orb_true_r.
  - rewrite (scan_subseq _ _ H). reflexivity.
Qed.

Lemma slice_ok_nil_l {A} (eqb : A -> A -> bool) s : mg_slice_ok eqb [] s = true.
Proof. unfold mg_slice_ok, mg_overlap. simpl. apply orb_true_r. Qed.

Definition spec_IH (o : mg_opts) (ss : schema) : Prop :=
  forall d src, mg_compat true o ss d src = true -> mg_compat false o ss d src = true.

Lemma forallb_impl {A} (p q : A -> bool) l :
  (forall x, p x = true -> q x = true) -> forallb p l = true -> forallb q l = true.
Proof. intros H. rewrite !forallb_forall. auto. Qed.

Lemma compat_field_spec o ss dv sv :
  mo_overwrite o = false -> spec_IH o ss ->
  mg_compat_field true o (mg_compat true o) ss dv sv = true ->
  mg_compat_field false o (mg_compat false o) ss dv sv = true.
Proof.
  intros Ho IH H. destruct sv as [sub|]; [|reflexivity].
  destruct ss as [t d0|t mn mx|sfs|[|] k mn mx sfs|sfs]; destruct sub as [v|vs|cfs|es|es];
    cbn [mg_compat_field] in *; try discriminate H; auto.
  - destruct (mg_repr_of t); auto.
    unfold mg_leaf_conflict in H. rewrite Ho in H.
    destruct dv as [[d'| | | |]|]; try apply slice_ok_nil_l.
    simpl in H. apply negb_true_iff in H. apply negb_false_iff in H. apply scalar_eqb_eq in H. subst d'.
    destruct v; try apply slice_ok_nil_l. unfold mg_slice_ok.
    rewrite (list_eqb_refl N.eqb N.eqb_refl). rewrite orb_true_r. reflexivity.
  - apply orb_prop in H. destruct H as [H|H]; [rewrite H; reflexivity|].
    apply andb_prop in H. destruct H as [H1 H2]. apply orb_true_iff. right.
    rewrite (spec_mergeable _ _ H1). simpl. revert H2. apply forallb_impl. intros ke. apply IH.
  - apply orb_prop in H. destruct H as [H|H]; [rewrite H; reflexivity|].
    apply orb_true_iff. right. simpl in *. revert H. apply forallb_impl. intros ke. apply IH.
  - apply andb_prop in H. destruct H as [H1 H2]. rewrite H2, andb_true_r.
    revert H1. apply forallb_impl. intros e. apply IH.
Qed.

Theorem compat_spec_impl o : mo_overwrite o = false -> forall s, spec_IH o s.
Proof.
  intros Ho. apply (schema_struct_ind (spec_IH o)).
  intros s IH d src. rewrite !mg_compat_eq.
  induction IH as [|[fi ss] rest Hx HF IHl]; simpl; auto.
  intros H. apply andb_prop in H. destruct H as [H1 H2].
  rewrite (compat_field_spec o ss _ _ Ho Hx H1). simpl. auto.
Qed.

(* ====================================================================== *)
(* the deep copy of a behaves like a in every later merge (code as it is)  *)
(* ====================================================================== *)

Lemma compat_fields_congr sp o rec l d1 d2 src :
  (forall n, In n (go_names l) -> field_get n d1 = field_get n d2) ->
  mg_compat_fields sp o rec l d1 src = mg_compat_fields sp o rec l d2 src.
Proof.
  induction l as [|[fi ss] rest IH]; simpl; intros H; auto.
  rewrite (H (f_go fi)) by now left. rewrite IH; auto.
Qed.

Lemma forallb_ext_all {A} (p q : A -> bool) l : (forall x, p x = q x) -> forallb p l = forallb q l.
Proof. intros H. induction l; simpl; auto. rewrite H, IHl. reflexivity. Qed.

Lemma tl_find_In k (es : list (list scalar * tree)) e : tl_find k es = Some e -> exists k', In (k', e) es.
Proof.
  induction es as [|[k' e'] t IH]; simpl; [discriminate|].
  destruct (keys_eqb k k').
  - intros H. inversion H. subst. eauto.
  - intros H. destruct (IH H) as [k2 Hk]. eauto.
Qed.

(* copying a list into an empty destination: every entry is copied into a new struct, in order *)
Lemma copy_omap_fresh (F : list (str * tree) -> list (str * tree) -> result (list (str * tree))) :
  forall l acc r,
    mg_nodup_keys (map fst l) = true ->
    (forall k, In k (map fst l) -> tl_find k acc = None) ->
    mg_copy_omap F l acc = Ok r ->
    exists cs, Forall2 (fun ke c => F [] (fields_of (snd ke)) = Ok c) l cs /\
               r = acc ++ map (fun kc => (fst (fst kc), TCont (snd kc))) (combine l cs).
Proof.
  induction l as [|[k e] rest IH]; intros acc r Hnd Hfresh H.
  - simpl in H. inversion H. subst. exists []. split; [constructor|]. simpl. now rewrite app_nil_r.
  - cbn [map fst] in Hnd. apply nodup_keys_cons in Hnd. destruct Hnd as [Hnotin Hnd].
    cbn [mg_copy_omap] in H. rewrite (Hfresh k) in H by now left.
    apply bind_ok in H. destruct H as [c [Hc H]].
    destruct (IH (acc ++ [(k, TCont c)]) r Hnd) as [cs [HF Hr]]; auto.
    + intros k2 Hk2. rewrite tl_find_app_other.
      * apply Hfresh. now right.
      * intros ->. contradiction.
    + exists (c :: cs). split; [constructor; auto|]. rewrite Hr. simpl. rewrite <- app_assoc. reflexivity.
Qed.

Lemma fresh_keys (F : list (str * tree) -> list (str * tree) -> result (list (str * tree)))
      (l : list (list scalar * tree)) cs :
  Forall2 (fun ke c => F [] (fields_of (snd ke)) = Ok c) l cs ->
  map fst (map (fun kc => (fst (fst kc), TCont (snd kc))) (combine l cs)) = map fst l.
Proof. induction 1 as [|[k e] c l cs Hc HF IH]; simpl; auto. now rewrite IH. Qed.

Lemma fresh_look (F : list (str * tree) -> list (str * tree) -> result (list (str * tree)))
      (l : list (list scalar * tree)) cs k :
  Forall2 (fun ke c => F [] (fields_of (snd ke)) = Ok c) l cs ->
  match tl_find k l with
  | None => tl_find k (map (fun kc => (fst (fst kc), TCont (snd kc))) (combine l cs)) = None
  | Some e => exists c, tl_find k (map (fun kc => (fst (fst kc), TCont (snd kc))) (combine l cs)) = Some (TCont c) /\
                        F [] (fields_of e) = Ok c
  end.
Proof.
  induction 1 as [|[k' e'] c l cs Hc HF IH]; simpl; auto.
  destruct (keys_eqb k k'); eauto.
Qed.

Definition norm_IH (em : bool) (o : mg_opts) (ss : schema) : Prop :=
  forall a d, mg_srcok ss a = true ->
    mg_copy_struct false {| mo_overwrite := false; mo_empty_maps := em |} ss [] a = Ok d ->
    forall b, mg_compat false o ss d b = mg_compat false o ss a b.

Lemma copy_slice_fresh {A} (eqb : A -> A -> bool) s r :
  mg_copy_slice eqb None s s = Ok r -> olist r = s.
Proof.
  unfold mg_copy_slice. simpl. destruct (nil_b s) eqn:E.
  - intros H. inversion H. subst. destruct s; [reflexivity|discriminate].
  - destruct (list_eqb eqb s []) eqn:E2.
    + destruct s; [discriminate E|discriminate E2].
    + unfold mg_overlap. simpl. intros H. inversion H. reflexivity.
Qed.

Lemma norm_field em o ss av nv :
  norm_IH em o ss ->
  match av with Some sub => mg_srcok_field mg_srcok ss sub = true | None => True end ->
  mg_copy_field false {| mo_overwrite := false; mo_empty_maps := em |}
                (mg_copy_struct false {| mo_overwrite := false; mo_empty_maps := em |}) ss None av = Ok nv ->
  forall bv, mg_compat_field false o (mg_compat false o) ss nv bv =
             mg_compat_field false o (mg_compat false o) ss av bv.
Proof.
  intros IH Hok H bv. destruct av as [sub|]; cbn [mg_copy_field] in H.
  2:{ inversion H. unfold mg_unset_src. destruct (mg_is_empty_leaf ss); reflexivity. }
  destruct bv as [bsub|]; [|reflexivity].
  destruct ss as [t d0|t mn mx|sfs|[|] k mn mx sfs|sfs]; destruct sub as [v|vs|cfs|es|es];
    try discriminate H; cbn [mg_srcok_field] in Hok;
    destruct bsub as [bv|bvs|bcfs|bes|bes]; try reflexivity; cbn [mg_compat_field].
  - (* leaf *)
    unfold mg_copy_leaf in H. destruct (mg_repr_of t) eqn:Er.
    + simpl in H. inversion H. reflexivity.
    + apply bind_ok in H. destruct H as [r [Hs H]]. inversion H. subst.
      apply copy_slice_fresh in Hs. destruct r as [bs|]; simpl in Hs; subst.
      * destruct v; reflexivity.
      * destruct v as [| | | |bs| |]; try reflexivity. simpl in Hs. subst. reflexivity.
    + simpl in H. inversion H. reflexivity.
    + reflexivity.
    + simpl in H. destruct v as [| | | |[|b bs]| |]; try (inversion H; reflexivity). discriminate Hok.
  - (* leaf-list *)
    apply bind_ok in H. destruct H as [r [Hs H]]. inversion H. subst.
    apply copy_slice_fresh in Hs. destruct r as [x|]; simpl in Hs; subst; reflexivity.
  - (* container *)
    apply bind_ok in H. destruct H as [r [Hr H]]. inversion H. subst. cbn [fields_of].
    now apply IH.
  - (* ordered list *)
    apply andb_prop in Hok. destruct Hok as [Hnd Hok].
    cbn [mo_empty_maps nil_b map] in H. rewrite andb_true_r in H.
    destruct (nil_b es && negb em) eqn:E1.
    + inversion H. subst. apply andb_prop in E1. destruct E1 as [E1 _].
      destruct es; [reflexivity|discriminate].
    + destruct (negb (mg_om_mergeable [] (map fst es))); [discriminate|].
      apply bind_ok in H. destruct H as [r [Hr H]]. inversion H. subst.
      destruct (copy_omap_fresh _ es [] r Hnd (fun _ _ => eq_refl) Hr) as [cs [HF ->]]. simpl.
      rewrite (fresh_keys _ es cs HF).
      assert (Hn : nil_b (map (fun kc => (fst (fst kc), TCont (snd kc))) (combine es cs)) = nil_b es).
      { destruct HF; reflexivity. }
      rewrite Hn. f_equal. f_equal. apply forallb_ext_all. intros ke.
      pose proof (fresh_look _ es cs (fst ke) HF) as Hl.
      destruct (tl_find (fst ke) es) as [e|] eqn:Ef.
      * destruct Hl as [c [Hl Hc]]. rewrite Hl. cbn [fields_of].
        destruct (tl_find_In _ _ _ Ef) as [k' Hin].
        apply (IH (fields_of e) c); auto. exact (forallb_In _ _ _ Hok Hin).
      * rewrite Hl. reflexivity.
  - (* keyed list *)
    apply andb_prop in Hok. destruct Hok as [Hnd Hok].
    cbn [mo_empty_maps nil_b map] in H. rewrite andb_true_r in H.
    destruct (nil_b es && negb em) eqn:E1.
    + inversion H. subst. apply andb_prop in E1. destruct E1 as [E1 _].
      destruct es; [reflexivity|discriminate].
    + apply bind_ok in H. destruct H as [r [Hr H]]. inversion H. subst.
      destruct (copy_omap_fresh _ es [] r Hnd (fun _ _ => eq_refl) Hr) as [cs [HF ->]]. simpl.
      assert (Hn : nil_b (map (fun kc => (fst (fst kc), TCont (snd kc))) (combine es cs)) = nil_b es).
      { destruct HF; reflexivity. }
      rewrite Hn. f_equal. apply forallb_ext_all. intros ke.
      pose proof (fresh_look _ es cs (fst ke) HF) as Hl.
      destruct (tl_find (fst ke) es) as [e|] eqn:Ef.
      * destruct Hl as [c [Hl Hc]]. rewrite Hl. cbn [fields_of].
        destruct (tl_find_In _ _ _ Ef) as [k' Hin].
        apply (IH (fields_of e) c); auto. exact (forallb_In _ _ _ Hok Hin).
      * rewrite Hl. reflexivity.
  - (* unkeyed list: the source entries themselves are appended *)
    apply bind_ok in H. destruct H as [cs [_ H]]. apply bind_ok in H. destruct H as [r [Hs H]]. inversion H. subst.
    apply copy_slice_fresh in Hs. destruct r as [x|]; simpl in Hs; subst; reflexivity.
Qed.

Lemma norm_fields em o l a d :
  mg_nodup_names (go_names l) = true ->
  Forall (fun x => norm_IH em o (snd x)) l ->
  mg_srcok_fields mg_srcok l a = true ->
  mg_copy_fields false {| mo_overwrite := false; mo_empty_maps := em |}
                 (mg_copy_struct false {| mo_overwrite := false; mo_empty_maps := em |}) l [] a = Ok d ->
  forall b, mg_compat_fields false o (mg_compat false o) l d b = mg_compat_fields false o (mg_compat false o) l a b.
Proof.
  intros Hnd HF. revert d. induction HF as [|[fi ss] rest Hx HF IH]; intros d Hok H b; [reflexivity|].
  cbn [go_names map fst] in Hnd. apply nodup_names_cons in Hnd. destruct Hnd as [Hnotin Hnd].
  cbn [mg_srcok_fields] in Hok. apply andb_prop in Hok. destruct Hok as [Hok1 Hok2].
  cbn [mg_copy_fields] in H. apply bind_ok in H. destruct H as [nv [Hnv H]].
  apply bind_ok in H. destruct H as [r [Hr H]]. inversion H. subst. clear H.
  cbn [mg_compat_fields].
  rewrite (field_get_head_out (f_go fi) nv r (go_names rest) Hnotin (copy_fields_names _ _ _ _ _ _ _ Hr)).
  rewrite (compat_fields_congr false o _ rest _ r b (congr_tail _ _ _ _ Hnotin)).
  rewrite (IH Hnd r Hok2 Hr b). f_equal.
  simpl field_get in Hnv.
  apply (norm_field em o ss (field_get (f_go fi) a) nv Hx); auto.
  destruct (field_get (f_go fi) a); auto.
Qed.

Theorem copy_norm em o : forall s, mg_wf_schema s = true -> norm_IH em o s.
Proof.
  apply (schema_struct_ind (fun s => mg_wf_schema s = true -> norm_IH em o s)).
  intros s IH Hwf a d Hok H b.
  rewrite mg_wf_schema_eq in Hwf. apply andb_prop in Hwf. destruct Hwf as [Hnd Hwf].
  rewrite mg_copy_struct_eq in H. rewrite mg_srcok_eq in Hok. rewrite !mg_compat_eq.
  apply (norm_fields em o (sfields s) a d); auto.
  clear -IH Hwf. induction IH as [|[fi ss] rest Hx HF IHl]; constructor.
  - simpl in Hwf. apply andb_prop in Hwf. apply Hx; tauto.
  - simpl in Hwf. apply andb_prop in Hwf. apply IHl. tauto.
Qed.

(* a tree of the right shape can always be copied into an empty struct *)
Definition fresh_IH (o : mg_opts) (ss : schema) : Prop :=
  forall a, mg_conforms ss a = true -> mg_compat false o ss [] a = true.

Lemma compat_field_fresh o ss av :
  fresh_IH o ss ->
  match av with Some sub => mg_conf_field mg_conforms ss sub = true | None => True end ->
  mg_compat_field false o (mg_compat false o) ss None av = true.
Proof.
  intros IH Hc. destruct av as [sub|]; [|reflexivity].
  destruct ss as [t d0|t mn mx|sfs|[|] k mn mx sfs|sfs]; destruct sub as [v|vs|cfs|es|es];
    cbn [mg_conf_field] in Hc; try discriminate Hc; cbn [mg_compat_field].
  - destruct (mg_repr_of t); auto. apply slice_ok_nil_l.
  - apply slice_ok_nil_l.
  - now apply IH.
  - apply orb_true_iff. right. apply andb_true_iff. split.
    + unfold mg_om_mergeable. simpl. rewrite Nat.eqb_refl. apply orb_true_r.
    + revert Hc. apply forallb_impl. intros ke. apply IH.
  - apply orb_true_iff. right. simpl. revert Hc. apply forallb_impl. intros ke. apply IH.
  - rewrite slice_ok_nil_l, andb_true_r. revert Hc. apply forallb_impl. intros e. apply IH.
Qed.

Theorem compat_fresh o : forall s, fresh_IH o s.
Proof.
  apply (schema_struct_ind (fresh_IH o)).
  intros s IH a. rewrite mg_conforms_eq, mg_compat_eq.
  induction IH as [|[fi ss] rest Hx HF IHl]; simpl; auto.
  intros H. apply andb_prop in H. destruct H as [H1 H2]. rewrite (IHl H2), andb_true_r.
  apply compat_field_fresh; auto. destruct (field_get (f_go fi) a); auto.
Qed.

(* ====================================================================== *)
(* MergeStructs                                                            *)
(* ====================================================================== *)

(* MergeStructs(a, b, opts) succeeds exactly when b is compatible with a (code as it is) *)
Theorem merge_ok_iff o S a b :
  mg_wf_schema S = true -> mg_conforms S (fields_of a) = true ->
  mg_srcok S (fields_of a) = true -> mg_srcok S (fields_of b) = true ->
  (isok (mg_merge false o S a b) <-> mg_compat false o S (fields_of a) (fields_of b) = true).
Proof.
  intros Hwf Hc Ha Hb. unfold mg_merge, mg_deep_copy_opts.
  set (o' := {| mo_overwrite := false; mo_empty_maps := mo_empty_maps o |}).
  assert (Hcopy : isok (mg_copy_struct false o' S [] (fields_of a))).
  { apply (copy_struct_ok false o' S [] (fields_of a) Ha). now apply compat_fresh. }
  destruct Hcopy as [d Hd]. rewrite Hd. cbn [bind fields_of].
  rewrite <- (copy_norm (mo_empty_maps o) o S Hwf (fields_of a) d Ha Hd (fields_of b)).
  rewrite <- (copy_struct_ok false o S d (fields_of b) Hb).
  unfold isok. split.
  - intros [r H]. apply bind_ok in H. destruct H as [x [Hx _]]. eauto.
  - intros [x Hx]. rewrite Hx. simpl. eauto.
Qed.

(* the documented compatibility is sufficient *)
Theorem merge_ok_if_compatible S a b :
  mg_wf_schema S = true -> mg_conforms S (fields_of a) = true ->
  mg_srcok S (fields_of a) = true -> mg_srcok S (fields_of b) = true ->
  compatible S a b = true -> isok (mg_merge false mg_noopts S a b).
Proof.
  intros Hwf Hc Ha Hb H. apply merge_ok_iff; auto.
  now apply (compat_spec_impl mg_noopts eq_refl S).
Qed.

(* the leaves of the result *)
Theorem merge_union o S a b r :
  mg_wf_schema S = true -> mg_plain S = true ->
  mg_srcok S (fields_of a) = true -> mg_srcok S (fields_of b) = true ->
  mg_merge false o S a b = Ok r ->
  union3 (mo_overwrite o) (L S (fields_of r)) (L S (fields_of a)) (L S (fields_of b)).
Proof.
  intros Hwf Hp Ha Hb H. unfold mg_merge, mg_deep_copy_opts in H.
  apply bind_ok in H. destruct H as [d0 [Hd H]]. apply bind_ok in Hd. destruct Hd as [d [Hd Hd0]].
  inversion Hd0. subst d0. cbn [fields_of] in H. apply bind_ok in H. destruct H as [x [Hx H]].
  inversion H. subst r. cbn [fields_of].
  pose proof (copy_struct_union _ S Hwf Hp [] (fields_of a) d Ha Hd) as [a1 b1 c1]. rewrite leaves_nil in *.
  pose proof (copy_struct_union o S Hwf Hp d (fields_of b) x Hb Hx) as [a2 b2 c2].
  constructor.
  - intros y Hy. destruct (a2 y Hy) as [Hy'|Hy']; auto. destruct (a1 y Hy') as [[]|]; auto.
  - auto.
  - intros Ho y Hy. apply c2; auto.
Qed.

(* ---------- the statements of the property file ---------- *)
Lemma c05_union_partial_lemma : forall S a b r,
  mg_wf_schema S = true -> mg_plain S = true ->
  mg_srcok S (fields_of a) = true -> mg_srcok S (fields_of b) = true ->
  mg_merge false mg_noopts S a b = Ok r ->
  forall x, In x (mg_leaves S (fields_of r)) <->
            In x (mg_leaves S (fields_of a)) \/ In x (mg_leaves S (fields_of b)).
Proof.
  intros S a b r Hwf Hp Ha Hb H x.
  destruct (merge_union mg_noopts S a b r Hwf Hp Ha Hb H) as [u1 u2 u3]. split; auto.
  intros [Hx|Hx]; auto.
Qed.

Lemma c05_comm_partial_lemma : forall S a b r1 r2,
  mg_wf_schema S = true -> mg_plain S = true ->
  mg_srcok S (fields_of a) = true -> mg_srcok S (fields_of b) = true ->
  mg_merge false mg_noopts S a b = Ok r1 -> mg_merge false mg_noopts S b a = Ok r2 ->
  forall x, In x (mg_leaves S (fields_of r1)) <-> In x (mg_leaves S (fields_of r2)).
Proof.
  intros S a b r1 r2 Hwf Hp Ha Hb H1 H2 x.
  rewrite (c05_union_partial_lemma S a b r1 Hwf Hp Ha Hb H1 x), (c05_union_partial_lemma S b a r2 Hwf Hp Hb Ha H2 x). tauto.
Qed.

Lemma c05_overwrite_no_leaf_conflict_lemma : forall em dv v,
  mg_leaf_conflict {| mo_overwrite := true; mo_empty_maps := em |} dv v = false.
Proof. intros em dv v. destruct dv as [[]|]; reflexivity. Qed.

Lemma c05_overwrite_partial_lemma : forall em S a b r,
  mg_wf_schema S = true -> mg_plain S = true ->
  mg_srcok S (fields_of a) = true -> mg_srcok S (fields_of b) = true ->
  mg_merge false {| mo_overwrite := true; mo_empty_maps := em |} S a b = Ok r ->
  (forall x, In x (mg_leaves S (fields_of b)) -> In x (mg_leaves S (fields_of r))) /\
  (forall x, In x (mg_leaves S (fields_of r)) ->
             In x (mg_leaves S (fields_of a)) \/ In x (mg_leaves S (fields_of b))).
Proof.
  intros em S a b r Hwf Hp Ha Hb H.
  destruct (merge_union _ S a b r Hwf Hp Ha Hb H) as [u1 u2 u3]. split; auto.
Qed.
