(* RoundTripProofs.v — proof of property C01 on the model: rendering a schema-conforming tree to
   RFC 7951 JSON (Render.render) and unmarshalling the text into an empty root
   (Unmarshal.unmarshal) gives the tree back; a conforming tree always renders. *)
From Ygot Require Import Tree.Tree Scalar.Dec Scalar.Base64 Tree.Codec Tree.CodecProofs.
From Ygot Require Import Scalar.DecProofs Scalar.Base64Proofs.
From Ygot Require Import Tree.TreeOps Tree.Render Tree.Unmarshal Tree.RoundTrip Tree.RoundTripObjProofs.

(* ====================================================================================== *)

(* 2. Leaves                                                                               *)
(* ====================================================================================== *)

(* dec_kind_enc with the float-oracle guarantee only for the value at hand *)
Lemma dec_kind_enc_local env fo pmi k v j :
  has_kind k v = true -> float_okb fo v = true ->
  enc_scalar env fo pmi v = Ok j -> dec_kind fo k j = Ok v.
Proof.
  intros Hk Hf He.
  destruct k as [ik| | | | |]; destruct v; simpl in Hk; try discriminate; simpl in He.
  - apply andb_true_iff in Hk as [Hk H3]. apply andb_true_iff in Hk as [H1 H2].
    apply ikind_eqb_eq in H1. subst k. apply Z.leb_le in H2. apply Z.leb_le in H3.
    destruct (ikind_is64 ik) eqn:E64; injection He as <-; unfold dec_kind; rewrite E64.
    + destruct (ikind_signed ik) eqn:Es.
      * rewrite parse_int_range_roundtrip by lia. reflexivity.
      * rewrite (ikind_min_nonpos_unsigned ik Es) in H2.
        rewrite parse_uint_range_roundtrip by lia. reflexivity.
    + rewrite jnum_trunc_0, jnum_int_0.
      apply Z.ltb_ge in H2. apply Z.ltb_ge in H3. now rewrite H2, H3.
  - injection He as <-. simpl in *. apply andb_true_iff in Hf as [Hf Hl].
    destruct (fparse fo (ffmt fo bits)) as [b|]; [|discriminate].
    apply N.eqb_eq in Hf. subst b. now rewrite Hl.
  - injection He as <-. reflexivity.
  - injection He as <-. simpl. now rewrite b64dec_b64enc.
  - injection He as <-. reflexivity.
  - injection He as <-. reflexivity.
Qed.

(* the float-oracle guarantees make the per-value check redundant *)
Lemma float_okb_of_strconv fo :
  (forall b, fparse fo (ffmt fo b) = Some b) -> (forall b, dec64_lexb (ffmt fo b) = true) ->
  forall v, float_okb fo v = true.
Proof. intros H1 H2 [] ; simpl; auto. now rewrite H1, H2, N.eqb_refl. Qed.

Lemma assoc_In {V} k (l : list (str * V)) v : assoc k l = Some v -> In (k, v) l.
Proof.
  induction l as [|[k' v'] r IH]; simpl; [discriminate|].
  destruct (str_eqb k k') eqn:E.
  - intros [= <-]. apply cstr_eqb_eq in E. subst. auto.
  - auto.
Qed.

Lemma wf_env_tbl env ty : wf_envb env = true -> tbl_okb (enum_table env ty) = true.
Proof.
  intros H. unfold enum_table. destruct (assoc ty env) as [t|] eqn:E; [|reflexivity].
  apply assoc_In in E. unfold wf_envb in H. rewrite forallb_forall in H. apply (H _ E).
Qed.

Lemma wf_cfg_tbl env cfg ty : wf_cfgb env cfg = true -> pmi cfg = true ->
  tbl_nocolonb (enum_table env ty) = true.
Proof.
  intros H Hp. unfold wf_cfgb in H. apply andb_true_iff in H as [_ H]. rewrite Hp in H. simpl in H.
  unfold enum_table. destruct (assoc ty env) as [t|] eqn:E; [|reflexivity].
  apply assoc_In in E. rewrite forallb_forall in H. apply (H _ E).
Qed.

(* enum_cast looks only at the name with its module prefix stripped *)
Lemma enum_cast_strip t s s' : strip_mod s = strip_mod s' -> enum_cast t s = enum_cast t s'.
Proof. intros H. induction t as [|e r IH]; simpl; auto. now rewrite H, IH. Qed.

Lemma enum_cast_None_strip t s s' : strip_mod s = strip_mod s' -> enum_cast t s = None -> enum_cast t s' = None.
Proof. intros H. now rewrite (enum_cast_strip t s s' H). Qed.

(* the text of an enum value and what its stripped form is *)
Lemma enc_enum_strip env cfg ty n s :
  wf_cfgb env cfg = true ->
  enc_enum env (pmi cfg) ty n = Ok s ->
  exists e, enum_by_num (enum_table env ty) n = Some e /\ strip_mod s = strip_mod (ev_name e).
Proof.
  intros Hc H. unfold enc_enum in H.
  destruct (enum_by_num (enum_table env ty) n) as [e|] eqn:En; [|discriminate].
  exists e. split; auto. injection H as <-.
  destruct (pmi cfg) eqn:Ep; simpl; auto.
  destruct (nil_b (ev_mod e)); simpl; auto.
  pose proof (wf_cfg_tbl env cfg ty Hc Ep) as Hnc.
  apply enum_by_num_In in En as [Hin _].
  destruct (tbl_nocolonb_In _ _ Hnc Hin) as [Hn Hm].
  rewrite strip_mod_prefixed by assumption. now rewrite strip_mod_no_colon.
Qed.

Lemma cast_one_enum_canon env ets ty n e s :
  wf_envb env = true ->
  enum_by_num (enum_table env ty) n = Some e ->
  strip_mod s = strip_mod (ev_name e) ->
  enum_canonb env ets ty (ev_name e) = true ->
  cast_one_enum env ets s = Some (VEnum ty n).
Proof.
  intros He En Hs. induction ets as [|ty' r IH]; simpl; [discriminate|].
  destruct (str_eqb ty' ty) eqn:E.
  - intros _. apply cstr_eqb_eq in E. subst ty'.
    pose proof (enum_by_num_In _ _ _ En) as [Hin Hnum].
    rewrite (enum_cast_unique _ e s (wf_env_tbl env ty He) Hin Hs). now rewrite Hnum.
  - destruct (enum_cast (enum_table env ty') (ev_name e)) eqn:Ec; [discriminate|].
    intros H. rewrite (enum_cast_None_strip _ (ev_name e) s (eq_sym Hs) Ec). auto.
Qed.

Lemma dec_first_kind_canon env fo pmi ks v j :
  float_okb fo v = true -> enc_scalar env fo pmi v = Ok j ->
  kind_canonb fo ks v j = true -> dec_first_kind fo ks j = Ok v.
Proof.
  intros Hf He. induction ks as [|k r IH]; simpl; [discriminate|].
  destruct (has_kind k v) eqn:Ek.
  - intros _. now rewrite (dec_kind_enc_local env fo pmi k v j Ek Hf He).
  - destruct (dec_kind fo k j); try discriminate; auto.
Qed.

(* the text of a non-enum value does not depend on the module-prefix option *)
Lemma enc_scalar_pmi_indep env fo p q v :
  (forall ty n, v <> VEnum ty n) -> enc_scalar env fo p v = enc_scalar env fo q v.
Proof. intros H. destruct v; try reflexivity. now destruct (H ty n). Qed.

Lemma wf_type_roundtrip env fo cfg t : forall v j,
  wf_envb env = true -> wf_cfgb env cfg = true ->
  float_okb fo v = true -> wf_type env fo t v = true ->
  enc_scalar env fo (pmi cfg) v = Ok j -> dec_json env fo t j = Ok v.
Proof.
  induction t as [k rs|fr|ls np|ls| | |ty|ty|ms|t' IH]; intros v j He Hc Hf Hw Henc;
    try (cbn [wf_type kind_of_type] in Hw; cbn [dec_json kind_of_type];
         eapply dec_kind_enc_local; eauto; fail).
  - (* enum *)
    cbn [wf_type] in Hw. destruct v; try discriminate.
    apply andb_true_iff in Hw as [Hw _]. apply andb_true_iff in Hw as [Hw _].
    apply cstr_eqb_eq in Hw. subst ty0.
    destruct (dec_json_enum_roundtrip env fo (pmi cfg) ty n j (wf_env_tbl env ty He)
                (fun Hp => wf_cfg_tbl env cfg ty Hc Hp) Henc) as [H1 _]. exact H1.
  - (* identityref *)
    cbn [wf_type] in Hw. destruct v; try discriminate.
    apply andb_true_iff in Hw as [Hw _]. apply andb_true_iff in Hw as [Hw _].
    apply cstr_eqb_eq in Hw. subst ty0.
    destruct (dec_json_enum_roundtrip env fo (pmi cfg) ty n j (wf_env_tbl env ty He)
                (fun Hp => wf_cfg_tbl env cfg ty Hc Hp) Henc) as [_ H2]. exact H2.
  - (* union *)
    cbn [wf_type] in Hw. cbn [dec_json].
    set (ets := enum_types (YUnion ms)) in *. set (ks := dedup_kinds (union_kinds (YUnion ms)) []) in *.
    assert (Hgen :
      match (match j with JStr s => cast_one_enum env ets s | _ => None end) with
      | Some v' => Ok v'
      | None => dec_first_kind fo ks j
      end = Ok v).
    { destruct v as [k z|s|b|bits|bs| |ty n].
      7: { (* enum member *)
        apply andb_true_iff in Hw as [_ Hw].
        simpl in Henc. destruct (enc_enum env (pmi cfg) ty n) as [s| |] eqn:Es; try discriminate.
        injection Henc as <-.
        destruct (enc_enum_strip env cfg ty n s Hc Es) as (e & En & Hs).
        rewrite En in Hw.
        now rewrite (cast_one_enum_canon env ets ty n e s He En Hs Hw). }
      all: rewrite (enc_scalar_pmi_indep env fo false (pmi cfg)) in Hw by (intros; discriminate);
           rewrite Henc in Hw; apply andb_true_iff in Hw as [Hw1 Hw2];
           destruct j as [| | |s'| |]; try (eapply dec_first_kind_canon; eauto; fail);
           (destruct (cast_one_enum env ets s'); [discriminate|]; eapply dec_first_kind_canon; eauto). }
    destruct ets as [|e0 er] eqn:Eets.
    + destruct ks as [|k0 [|k1 kr]] eqn:Eks; try exact Hgen.
      (* single kind, no enum: decoded as that kind *)
      assert (Hd : dec_first_kind fo [k0] j = Ok v) by (destruct j; exact Hgen).
      simpl in Hd. destruct (dec_kind fo k0 j); auto; discriminate.
    + exact Hgen.
  - (* leafref *)
    cbn [wf_type] in Hw. cbn [dec_json]. eauto.
Qed.

Lemma wf_leaf_roundtrip env fo cfg t v j :
  wf_envb env = true -> wf_cfgb env cfg = true -> wf_leaf env fo t v = true ->
  enc_scalar env fo (pmi cfg) v = Ok j -> dec_json env fo t j = Ok v.
Proof.
  intros He Hc Hw. unfold wf_leaf in Hw. apply andb_true_iff in Hw as [Hf Hw].
  eapply wf_type_roundtrip; eauto.
Qed.

Lemma enc_not_null env fo p v j : enc_scalar env fo p v = Ok j -> j <> JNull.
Proof.
  destruct v; simpl; try (intros [= <-]; discriminate).
  - destruct (ikind_is64 k); intros [= <-]; discriminate.
  - destruct (enc_enum env p ty n); simpl; try discriminate. intros [= <-]; discriminate.
Qed.

Lemma enc_erase env fo p v j : enc_scalar env fo p v = Ok j -> erase_sets j = j.
Proof.
  destruct v; simpl; try (intros [= <-]; reflexivity).
  - destruct (ikind_is64 k); intros [= <-]; reflexivity.
  - destruct (enc_enum env p ty n); simpl; try discriminate. intros [= <-]; reflexivity.
Qed.

Lemma enc_jdepth env fo p v j : enc_scalar env fo p v = Ok j -> (jdepth j <= 2)%nat.
Proof.
  destruct v; simpl; try (intros [= <-]; simpl; lia).
  - destruct (ikind_is64 k); intros [= <-]; simpl; lia.
  - destruct (enc_enum env p ty n); simpl; try discriminate. intros [= <-]; simpl; lia.
Qed.

(* the reserved marker is never the text of a prefixed identity *)
Lemma enc_tag_pmi env fo p v :
  enc_scalar env fo p v = Ok (JStr JSET_TAG) -> enc_scalar env fo false v = Ok (JStr JSET_TAG).
Proof.
  destruct v; try (simpl; auto; fail).
  simpl. unfold enc_enum. destruct (enum_by_num (enum_table env ty) n) as [e|]; simpl; auto.
  destruct (p && negb (nil_b (ev_mod e))) eqn:E; auto.
  intros [= H]. apply andb_true_iff in E as [_ E]. destruct (ev_mod e) as [|m0 [|m1 mr]]; simpl in *; discriminate.
Qed.

(* ---------- leaf-lists ---------- *)

Lemma render_scalars_dec env fo cfg t : forall vs l,
  wf_envb env = true -> wf_cfgb env cfg = true ->
  forallb (wf_leaf env fo t) vs = true ->
  render_scalars env fo cfg vs = Ok l ->
  dec_leaflist env fo t l = Ok vs /\ map erase_sets l = l /\ length l = length vs
  /\ (forall x, In x l -> (jdepth x <= 2)%nat).
Proof.
  induction vs as [|v r IH]; intros l He Hc Hw Hr; simpl in Hr.
  - injection Hr as <-. simpl. repeat split; auto. intros x [].
  - simpl in Hw. apply andb_true_iff in Hw as [Hv Hw].
    destruct (enc_scalar env fo (pmi cfg) v) as [j| |] eqn:Ej; try discriminate. simpl in Hr.
    destruct (render_scalars env fo cfg r) as [l'| |] eqn:El; try discriminate. simpl in Hr.
    injection Hr as <-.
    destruct (IH l' He Hc Hw eq_refl) as (H1 & H2 & H3 & H4).
    pose proof (wf_leaf_roundtrip env fo cfg t v j He Hc Hv Ej) as Hd.
    pose proof (enc_not_null _ _ _ _ _ Ej) as Hn.
    repeat split.
    + simpl. destruct j; try contradiction; rewrite Hd; simpl; rewrite H1; reflexivity.
    + simpl. rewrite H2. f_equal. eapply enc_erase; eauto.
    + simpl. now rewrite H3.
    + intros x [<-|Hx]; [eapply enc_jdepth; eauto | auto].
Qed.

Lemma erase_leaflist env fo cfg vs l :
  first_not_tagb env fo vs = true ->
  render_scalars env fo cfg vs = Ok l -> map erase_sets l = l ->
  erase_sets (JArr l) = JArr l.
Proof.
  intros Hf Hr Hm. rewrite erase_arr_eq, Hm.
  destruct l as [|[| | |s| |] l']; auto.
  destruct (str_eqb s JSET_TAG) eqn:E; auto. exfalso.
  apply cstr_eqb_eq in E. subst s.
  destruct vs as [|v r]; simpl in Hr; [discriminate|].
  destruct (enc_scalar env fo (pmi cfg) v) as [j| |] eqn:Ej; try discriminate. simpl in Hr.
  destruct (render_scalars env fo cfg r); try discriminate. simpl in Hr. injection Hr as -> _.
  apply enc_tag_pmi in Ej. simpl in Hf. rewrite Ej in Hf. discriminate.
Qed.


(* ====================================================================================== *)
(* 3. The loops of render_node / unm_node as top-level functions                           *)
(* ====================================================================================== *)

Section Loops.
  Variable env : enum_env.
  Variable fo : float_oracle.
  Variable cfg : jcfg.
  Variable opts : uopts.

  Definition render_alts (mods : list (list str)) (v : json) :=
    fix alts (ps : list (list str)) (ms : list (list str)) (acc : jobj) {struct ps} : result jobj :=
      match ps with
      | [] => Ok acc
      | p :: ps' =>
          let m := hd [] ms in
          bind (jput (if nil_b mods then p else qualify_path m p) v acc)
               (fun acc' => alts ps' (tl ms) acc')
      end.

  Definition field_pm (parent_mod : str) (fi : finfo) : result (list (list str) * str) :=
    if c_append_mod cfg
    then (if nil_b (use_mods cfg fi) then Ok ([], []) else prepend_all cfg parent_mod (use_mods cfg fi) [])
    else Ok ([], []).

  Definition render_fields (sfs : list (finfo * schema)) (parent_mod : str) :=
    fix fields (l : list (str * tree)) (acc : jobj) {struct l} : result jobj :=
      match l with
      | [] => Ok acc
      | (name, sub) :: rest =>
          match find (fun fs => str_eqb (f_go (fst fs)) name) sfs with
          | None => Err
          | Some (fi, ss) =>
              let paths := use_paths cfg fi in
              match field_pm parent_mod fi with
              | Err => Err | Panic => Panic
              | Ok (mods, chmod) =>
                  bind (render_node env fo cfg ss sub chmod) (fun v =>
                    if is_empty_obj v && negb (f_presence fi) then fields rest acc
                    else
                      if negb (nil_b mods) && negb (Nat.eqb (length mods) (length paths)) then Err
                      else bind (render_alts mods v paths mods acc) (fun acc' => fields rest acc'))
              end
          end
      end.

  Lemma render_cont_eq s fs pm :
    render_node env fo cfg s (TCont fs) pm =
    bind (render_fields (sfields s) pm fs []) (fun o => Ok (JObj o)).
  Proof. reflexivity. Qed.

  Definition render_entries (s : schema) (pm : str) :=
    fix entries (l : list (list scalar * tree)) : result (list json) :=
      match l with
      | [] => Ok []
      | (_, e) :: rest => bind (render_node env fo cfg s e pm) (fun j => bind (entries rest) (fun r => Ok (j :: r)))
      end.

  Lemma render_list_eq s es pm :
    render_node env fo cfg s (TList es) pm =
    bind (render_entries s pm es)
         (fun l => Ok (if match s with SList o _ _ _ _ => o | _ => true end then JArr l else jset l)).
  Proof. reflexivity. Qed.

  Definition render_uentries (s : schema) (pm : str) :=
    fix entries (l : list tree) : result (list json) :=
      match l with
      | [] => Ok []
      | e :: rest => bind (render_node env fo cfg s e pm) (fun j => bind (entries rest) (fun r => Ok (j :: r)))
      end.

  Lemma render_unkeyed_eq s es pm :
    render_node env fo cfg s (TUnkeyed es) pm = bind (render_uentries s pm es) (fun l => Ok (JArr l)).
  Proof. reflexivity. Qed.

  (* ---- unmarshal ---- *)

  Definition unm_fields (f : nat) (sfs0 : list (finfo * schema)) (jm : list (str * json)) :=
    fix fields (l : list (finfo * schema)) (acc : list (str * tree)) : result (list (str * tree)) :=
      match l with
      | [] => Ok acc
      | (fi, ss) :: rest =>
          bind (jget_field (JObj jm) (upaths opts fi) None) (fun ov =>
            match ov with
            | None => fields rest acc
            | Some jv =>
                bind (unm_node env fo opts f ss (field_get (f_go fi) acc) jv) (fun nt =>
                  match nt with
                  | Some t => fields rest (field_set (go_names sfs0) (f_go fi) t acc)
                  | None => fields rest (field_remove (f_go fi) acc)
                  end)
            end)
      end.

  Definition struct_trie (sfs : list (finfo * schema)) : trie :=
    fold_left (fun t fs => fold_left (fun t p => trie_add p t) (f_paths (fst fs) ++ f_spaths (fst fs)) t)
              sfs (TrieNode []).

  Definition unm_struct (f : nat) (sfs : list (finfo * schema)) (cur : list (str * tree)) (jm : list (str * json))
    : result (list (str * tree)) :=
    bind (unm_fields f sfs jm sfs cur)
         (fun res =>
            if o_ignore_extra opts then Ok res
            else if check_tree (S (jdepth (JObj jm))) jm (struct_trie sfs) then Ok res else Err).

  Lemma unm_cont_eq f sfs cur jm :
    unm_node env fo opts (S f) (SCont sfs) cur (JObj jm) =
    bind (unm_struct f sfs (match cur with Some c => fields_of c | None => [] end) jm)
         (fun fs => Ok (Some (TCont fs))).
  Proof. reflexivity. Qed.

  Definition unm_elems (f : nat) (ordered : bool) (keys : list str) (sfs : list (finfo * schema)) :=
    fix elems (l : list json) (es : list (list scalar * tree)) : result (list (list scalar * tree)) :=
      match l with
      | [] => Ok es
      | JObj jm :: rest =>
          bind (unm_struct f sfs [] jm) (fun nfs =>
            bind (entry_key sfs keys nfs) (fun k =>
              if ordered then
                match tl_find k es with
                | Some _ => Err
                | None => elems rest (es ++ [(k, TCont nfs)])
                end
              else
                match tl_find k es with
                | Some old => bind (unm_struct f sfs (fields_of old) jm)
                                   (fun mfs => elems rest (tl_insert k (TCont mfs) es))
                | None => elems rest (tl_insert k (TCont nfs) es)
                end))
      | _ :: _ => Err
      end.

  Lemma unm_list_eq f ordered keys mn mx sfs cur l :
    unm_node env fo opts (S f) (SList ordered keys mn mx sfs) cur (JArr l) =
    bind (unm_elems f ordered keys sfs l (match cur with Some (TList es) => es | _ => [] end))
         (fun es => Ok (Some (TList es))).
  Proof. reflexivity. Qed.

  Definition unm_uelems (f : nat) (sfs : list (finfo * schema)) :=
    fix elems (l : list json) (es : list tree) : result (list tree) :=
      match l with
      | [] => Ok es
      | JObj jm :: rest => bind (unm_struct f sfs [] jm) (fun nfs => elems rest (es ++ [TCont nfs]))
      | _ :: _ => Err
      end.

  Lemma unm_unkeyed_eq f sfs cur l :
    unm_node env fo opts (S f) (SUnkeyed sfs) cur (JArr l) =
    bind (unm_uelems f sfs l (match cur with Some (TUnkeyed es) => es | _ => [] end))
         (fun es => Ok (Some (TUnkeyed es))).
  Proof. reflexivity. Qed.

  Lemma unm_leaf_eq f t d cur j : j <> JNull ->
    unm_node env fo opts (S f) (SLeaf t d) cur j = bind (dec_json env fo t j) (fun v => Ok (Some (TLeaf v))).
  Proof. intros H. destruct j; try reflexivity. contradiction. Qed.

  Lemma unm_leaflist_eq f t mn mx cur l :
    unm_node env fo opts (S f) (SLeafList t mn mx) cur (JArr l) =
    bind (dec_leaflist env fo t l) (fun vs => Ok (match vs with [] => None | _ => Some (TLeafList vs) end)).
  Proof. reflexivity. Qed.
End Loops.


(* ====================================================================================== *)
(* 4. Lists: subsequences, field_set, association lists                                    *)
(* ====================================================================================== *)

Inductive subseq {A} : list A -> list A -> Prop :=
| ss_nil l : subseq [] l
| ss_take x a l : subseq a l -> subseq (x :: a) (x :: l)
| ss_skip x a l : subseq a l -> subseq a (x :: l).

Lemma subseq_In {A} (a l : list A) x : subseq a l -> In x a -> In x l.
Proof. induction 1; simpl; intros H'; [destruct H' | destruct H'; auto | auto]. Qed.

Lemma subseq_nil_r {A} (a : list A) : subseq a [] -> a = [].
Proof. inversion 1; auto. Qed.

Lemma subseq_refl {A} (l : list A) : subseq l l.
Proof. induction l; constructor; auto. Qed.

Lemma subseq_app {A} (a l b m : list A) : subseq a l -> subseq b m -> subseq (a ++ b) (l ++ m).
Proof.
  intros H1 H2. induction H1; simpl.
  - induction l; simpl; auto. now constructor.
  - now constructor.
  - now constructor.
Qed.

Lemma subseq_NoDup {A} (a l : list A) : subseq a l -> NoDup l -> NoDup a.
Proof.
  induction 1; intros Hn.
  - constructor.
  - inversion Hn; subst. constructor; auto. intros Hin. eapply subseq_In in Hin; eauto.
  - inversion Hn; subst. auto.
Qed.

Lemma nodupb_NoDup l : nodupb l = true -> NoDup l.
Proof.
  induction l as [|x r IH]; simpl; intros H; constructor.
  - apply andb_true_iff in H as [H _]. apply negb_true_iff in H. intros Hin.
    assert (existsb (str_eqb x) r = true) by (apply existsb_exists; exists x; split; auto using cstr_eqb_refl).
    congruence.
  - apply andb_true_iff in H as [_ H]. auto.
Qed.

Lemma NoDup_app_l {A} (a b : list A) : NoDup (a ++ b) -> NoDup a.
Proof. induction a; simpl; intros H; [constructor|]. inversion H; subst. constructor; auto. intros Hin. apply H2. apply in_or_app. auto. Qed.

Lemma NoDup_app_r {A} (a b : list A) : NoDup (a ++ b) -> NoDup b.
Proof. induction a; simpl; auto. intros H. inversion H; auto. Qed.

Lemma NoDup_app_disj {A} (a b : list A) x : NoDup (a ++ b) -> In x a -> In x b -> False.
Proof.
  induction a; simpl; intros H Ha Hb; [destruct Ha|].
  inversion H; subst. destruct Ha as [->|Ha].
  - apply H2. apply in_or_app. auto.
  - eauto.
Qed.

Lemma field_get_none name (fs : list (str * tree)) : ~ In name (map fst fs) -> field_get name fs = None.
Proof.
  induction fs as [|[n t] r IH]; simpl; auto. intros H.
  destruct (str_eqb n name) eqn:E.
  - apply cstr_eqb_eq in E. subst. exfalso. auto.
  - auto.
Qed.

Lemma field_set_append post name v : forall pre fs,
  subseq (map fst fs) pre -> ~ In name pre -> NoDup pre ->
  field_set (pre ++ name :: post) name v fs = fs ++ [(name, v)].
Proof.
  induction pre as [|o pre IH]; intros fs Hs Hn Hd.
  - apply subseq_nil_r in Hs. destruct fs; [|discriminate]. simpl. now rewrite cstr_eqb_refl.
  - simpl. assert (Eo : str_eqb o name = false).
    { apply str_eqb_false_neq. intros ->. apply Hn. now left. }
    rewrite Eo. destruct fs as [|[n t] r]; [reflexivity|].
    inversion Hd; subst. simpl in Hs.
    destruct (str_eqb n o) eqn:En.
    + apply cstr_eqb_eq in En. subst n. simpl. f_equal. apply IH; auto.
      * inversion Hs; subst; auto. exfalso. apply H1. eapply subseq_In; eauto. now left.
      * intros Hin. apply Hn. now right.
    + apply IH; auto.
      * inversion Hs; subst; auto. now rewrite cstr_eqb_refl in En.
      * intros Hin. apply Hn. now right.
Qed.


(* ---------- JSON depth ---------- *)

Lemma jdepth_member k v m : In (k, v) m -> (jdepth v < jdepth (JObj m))%nat.
Proof.
  simpl. induction m as [|[k' v'] r IH]; simpl; intros [].
  - injection H as -> ->. lia.
  - apply IH in H. lia.
Qed.

Lemma jdepth_elem x l : In x l -> (jdepth x < jdepth (JArr l))%nat.
Proof.
  simpl. induction l as [|y r IH]; simpl; intros [].
  - subst. lia.
  - apply IH in H. lia.
Qed.

Lemma jdepth_pos j : (1 <= jdepth j)%nat.
Proof. destruct j; simpl; lia. Qed.


(* ====================================================================================== *)
(* 5. Module prefixes                                                                      *)
(* ====================================================================================== *)

Lemma strip_qualify m k : no_colonb m = true -> no_colonb k = true -> strip_mod (qualify m k) = k.
Proof.
  intros Hm Hk. unfold qualify. destruct (nil_b m).
  - now apply strip_mod_no_colon.
  - now apply strip_mod_prefixed.
Qed.

Lemma rewrite_mod_nocolon env cfg m :
  wf_cfgb env cfg = true -> no_colonb m = true -> no_colonb (rewrite_mod cfg m) = true.
Proof.
  intros Hc Hm. unfold rewrite_mod. destruct (assoc m (c_rewrite cfg)) as [r|] eqn:E; auto.
  destruct (nil_b r); auto. apply assoc_In in E.
  unfold wf_cfgb in Hc. apply andb_true_iff in Hc as [Hc _]. rewrite forallb_forall in Hc.
  apply (Hc _ E).
Qed.

Lemma prepend_one_nocolon env cfg : forall mods prev r last,
  wf_cfgb env cfg = true -> forallb no_colonb mods = true ->
  prepend_one cfg prev mods = (r, last) -> forallb no_colonb r = true.
Proof.
  induction mods as [|m t IH]; intros prev r last Hc Hm H; simpl in H.
  - now injection H as <- <-.
  - simpl in Hm. apply andb_true_iff in Hm as [Hm Ht].
    destruct (str_eqb (rewrite_mod cfg m) prev).
    + destruct (prepend_one cfg prev t) as [r' l'] eqn:E. injection H as <- <-.
      simpl. eapply IH; eauto.
    + destruct (prepend_one cfg (rewrite_mod cfg m) t) as [r' l'] eqn:E. injection H as <- <-.
      simpl. rewrite (rewrite_mod_nocolon env cfg m Hc Hm). simpl. eapply IH; eauto.
Qed.

Lemma prepend_all_nocolon env cfg parent : forall alts ch pm last,
  wf_cfgb env cfg = true -> forallb (forallb no_colonb) alts = true ->
  prepend_all cfg parent alts ch = Ok (pm, last) -> forallb (forallb no_colonb) pm = true.
Proof.
  induction alts as [|a t IH]; intros ch pm last Hc Ha H; simpl in H.
  - now injection H as <- <-.
  - simpl in Ha. apply andb_true_iff in Ha as [Ha Ht].
    destruct (prepend_one cfg parent a) as [r l] eqn:E.
    destruct (negb (nil_b ch) && negb (str_eqb l ch)); [discriminate|].
    destruct (prepend_all cfg parent t l) as [[pm' last']| |] eqn:E2; try discriminate.
    simpl in H. injection H as <- <-. simpl.
    rewrite (prepend_one_nocolon env cfg a parent r l Hc Ha E). simpl. eapply IH; eauto.
Qed.

Lemma mods_okb_nocolon ms ps : mods_okb ms ps = true -> forallb (forallb no_colonb) ms = true.
Proof.
  unfold mods_okb. destruct ms as [|m r]; [reflexivity|]. simpl nil_b. cbn [orb].
  intros H. apply andb_true_iff in H as [H _]. apply andb_true_iff in H as [_ H]. exact H.
Qed.

Lemma field_okb_parts f : field_okb f = true ->
  f_paths f <> [] /\ forallb alt_okb (f_paths f) = true /\ forallb alt_okb (f_spaths f) = true
  /\ forallb (forallb no_colonb) (f_mods f) = true /\ forallb (forallb no_colonb) (f_smods f) = true.
Proof.
  unfold field_okb. intros H.
  repeat (apply andb_true_iff in H as [H ?]).
  repeat split; eauto using mods_okb_nocolon.
  destruct (f_paths f); [discriminate | discriminate].
Qed.

Lemma field_pm_nocolon env cfg parent fi mods chmod :
  wf_cfgb env cfg = true -> field_okb fi = true ->
  field_pm cfg parent fi = Ok (mods, chmod) -> forallb (forallb no_colonb) mods = true.
Proof.
  intros Hc Hf. unfold field_pm.
  destruct (field_okb_parts fi Hf) as (_ & _ & _ & Hm & Hs).
  destruct (c_append_mod cfg); [|intros [= <- <-]; reflexivity].
  destruct (nil_b (use_mods cfg fi)); [intros [= <- <-]; reflexivity|].
  intros H. eapply (prepend_all_nocolon env cfg parent (use_mods cfg fi)); eauto.
  unfold use_mods. destruct (c_shadow cfg && negb (nil_b (f_smods fi))); auto.
Qed.

(* ====================================================================================== *)
(* 6. Schemas                                                                              *)
(* ====================================================================================== *)

Lemma wf_schemab_fields s : wf_schemab s = true ->
  struct_okb (sfields s) = true /\ forall fi ss, In (fi, ss) (sfields s) -> wf_schemab ss = true.
Proof.
  assert (G : forall fs,
    (fix go (l : list (finfo * schema)) : bool :=
       match l with [] => true | (_, ss) :: r => wf_schemab ss && go r end) fs = true ->
    forall fi ss, In (fi, ss) fs -> wf_schemab ss = true).
  { induction fs as [|[f0 s0] r IH]; intros H fi ss []; apply andb_true_iff in H as [H1 H2].
    - now injection H0 as -> ->.
    - eauto. }
  destruct s; simpl; intros H; try (split; [reflexivity | intros ? ? []]);
    apply andb_true_iff in H as [H1 H2]; split; eauto.
Qed.


Lemma struct_okb_parts sfs : struct_okb sfs = true ->
  NoDup (go_names sfs) /\ (forall fi ss, In (fi, ss) sfs -> field_okb fi = true)
  /\ fields_disjointb (map (fun fs => field_alts (fst fs)) sfs) = true.
Proof.
  unfold struct_okb. intros H. apply andb_true_iff in H as [H H3]. apply andb_true_iff in H as [H1 H2].
  repeat split; auto using nodupb_NoDup.
  intros fi ss Hin. rewrite forallb_forall in H2. apply (H2 _ Hin).
Qed.


(* ====================================================================================== *)
(* 7. Keys of list entries                                                                 *)
(* ====================================================================================== *)

Lemma list_eqb_eq {A} (eqb : A -> A -> bool) :
  (forall x y, eqb x y = true -> x = y) -> forall a b, list_eqb eqb a b = true -> a = b.
Proof.
  intros H. induction a as [|x a IH]; intros [|y b]; simpl; try discriminate; auto.
  intros E. apply andb_true_iff in E as [E1 E2]. f_equal; auto.
Qed.

Lemma scalar_eqb_eq a b : scalar_eqb a b = true -> a = b.
Proof.
  destruct a, b; simpl; try discriminate; intros H.
  - apply andb_true_iff in H as [H1 H2]. apply ikind_eqb_eq in H1. apply Z.eqb_eq in H2. congruence.
  - apply cstr_eqb_eq in H. congruence.
  - apply Bool.eqb_prop in H. congruence.
  - apply N.eqb_eq in H. congruence.
  - f_equal. revert H. apply list_eqb_eq. intros x y. apply N.eqb_eq.
  - reflexivity.
  - apply andb_true_iff in H as [H1 H2]. apply cstr_eqb_eq in H1. apply Z.eqb_eq in H2. congruence.
Qed.

Lemma keys_eqb_eq a b : keys_eqb a b = true -> a = b.
Proof. apply list_eqb_eq. apply scalar_eqb_eq. Qed.

Lemma tl_find_none k es :
  (forall k0 e0, In (k0, e0) es -> keys_eqb k k0 = false) -> tl_find k es = None.
Proof.
  induction es as [|[k' e'] r IH]; simpl; auto. intros H.
  rewrite (H k' e' (or_introl eq_refl)). apply IH. intros k0 e0 Hin. eapply H. right. eauto.
Qed.

Lemma tl_insert_append k e es :
  (forall k0 e0, In (k0, e0) es -> keys_eqb k k0 = false /\ keys_cmp k k0 <> Lt) ->
  tl_insert k e es = es ++ [(k, e)].
Proof.
  induction es as [|[k' e'] r IH]; simpl; auto. intros H.
  destruct (H k' e' (or_introl eq_refl)) as [H1 H2]. rewrite H1.
  rewrite IH by (intros k0 e0 Hin; eapply H; right; eauto).
  destruct (keys_cmp k k'); auto. contradiction.
Qed.

Lemma keys_okb_app o : forall a k r,
  keys_okb o (a ++ k :: r) = true ->
  forall k0, In k0 a -> keys_eqb k k0 = false /\ (o = true \/ keys_cmp k k0 <> Lt).
Proof.
  induction a as [|x a IH]; intros k r H k0 []; simpl in H; apply andb_true_iff in H as [H1 H2].
  - subst x. rewrite forallb_forall in H1. assert (Hk : In k (a ++ k :: r)) by (apply in_or_app; right; now left).
    specialize (H1 k Hk).
    apply andb_true_iff in H1 as [E1 E2]. apply negb_true_iff in E1. split; auto.
    destruct o; auto. right. simpl in E2. destruct (keys_cmp k k0); simpl in E2; discriminate.
  - eauto.
Qed.

(* ====================================================================================== *)
(* 8. Shape of rendered values                                                             *)
(* ====================================================================================== *)

Lemma enc_not_obj env fo p v j : enc_scalar env fo p v = Ok j -> is_empty_obj j = false.
Proof.
  destruct v; simpl; try (intros [= <-]; reflexivity).
  - destruct (ikind_is64 k); intros [= <-]; reflexivity.
  - destruct (enc_enum env p ty n); simpl; try discriminate. intros [= <-]; reflexivity.
Qed.

Lemma render_shape env fo cfg s t pm v :
  render_node env fo cfg s t pm = Ok v ->
  match t with
  | TCont _ => exists o, v = JObj o
  | TLeaf _ => v <> JNull /\ is_empty_obj v = false
  | _ => exists l, v = JArr l
  end.
Proof.
  destruct t.
  - simpl. intros H. split; [eapply enc_not_null | eapply enc_not_obj]; eauto.
  - simpl. destruct (render_scalars env fo cfg vs); simpl; try discriminate. intros [= <-]. eauto.
  - rewrite render_cont_eq. destruct (render_fields env fo cfg (sfields s) pm fs []); simpl; try discriminate.
    intros [= <-]. eauto.
  - rewrite render_list_eq. destruct (render_entries env fo cfg s pm es); simpl; try discriminate.
    intros [= <-]. destruct (match s with SList o _ _ _ _ => o | _ => true end); unfold jset; eauto.
  - rewrite render_unkeyed_eq. destruct (render_uentries env fo cfg s pm es); simpl; try discriminate.
    intros [= <-]. eauto.
Qed.

Lemma render_not_null env fo cfg s t pm v : render_node env fo cfg s t pm = Ok v -> v <> JNull.
Proof.
  intros H. apply render_shape in H. destruct t.
  - tauto.
  - destruct H as [l ->]. discriminate.
  - destruct H as [l ->]. discriminate.
  - destruct H as [l ->]. discriminate.
  - destruct H as [l ->]. discriminate.
Qed.


(* ====================================================================================== *)
(* 9. Tree induction                                                                       *)
(* ====================================================================================== *)

Section TreeInd.
  Variable P : tree -> Prop.
  Hypothesis HL : forall v, P (TLeaf v).
  Hypothesis HLL : forall vs, P (TLeafList vs).
  Hypothesis HC : forall fs, Forall (fun nt => P (snd nt)) fs -> P (TCont fs).
  Hypothesis HLi : forall es, Forall (fun ke => P (snd ke)) es -> P (TList es).
  Hypothesis HU : forall es, Forall P es -> P (TUnkeyed es).

  Fixpoint tree_ind2 (t : tree) : P t :=
    match t with
    | TLeaf v => HL v
    | TLeafList vs => HLL vs
    | TCont fs =>
        HC fs ((fix go (l : list (str * tree)) : Forall (fun nt => P (snd nt)) l :=
                  match l with
                  | [] => Forall_nil _
                  | x :: r => Forall_cons x (tree_ind2 (snd x)) (go r)
                  end) fs)
    | TList es =>
        HLi es ((fix go (l : list (list scalar * tree)) : Forall (fun ke => P (snd ke)) l :=
                   match l with
                   | [] => Forall_nil _
                   | x :: r => Forall_cons x (tree_ind2 (snd x)) (go r)
                   end) es)
    | TUnkeyed es =>
        HU es ((fix go (l : list tree) : Forall P l :=
                  match l with
                  | [] => Forall_nil _
                  | x :: r => Forall_cons x (tree_ind2 x) (go r)
                  end) es)
    end.
End TreeInd.


Lemma subseq_app_r {A} (a l m : list A) : subseq a l -> subseq a (l ++ m).
Proof. induction 1; simpl; constructor; auto. Qed.


(* ====================================================================================== *)
(* 10. Paths of the fields of one struct                                                   *)
(* ====================================================================================== *)

Lemma prefix_freeb_pairwise l : prefix_freeb l = true -> pairwise l.
Proof.
  induction l as [|x r IH]; simpl; intros H; [exact I|].
  apply andb_true_iff in H as [H1 H2]. rewrite forallb_forall in H1. split; auto.
Qed.

Lemma pairwise_compat l : pairwise l -> compat l.
Proof.
  induction l as [|x r IH]; intros H a b Ha Hb; [destruct Ha|].
  destruct H as [H1 H2]. destruct Ha as [<-|Ha], Hb as [<-|Hb]; auto.
  - right. apply incomp_sym. auto.
  - apply IH; auto.
Qed.

Lemma pairwise_app a b : pairwise a -> pairwise b ->
  (forall x y, In x a -> In y b -> incomp x y) -> pairwise (a ++ b).
Proof.
  induction a as [|x a IH]; simpl; intros Ha Hb H; auto.
  destruct Ha as [H1 H2]. split.
  - intros y Hy. apply in_app_or in Hy as [Hy|Hy]; auto.
  - apply IH; auto.
Qed.

Definition alts_of (fs : finfo * schema) : list (list str) := field_alts (fst fs).
Definition all_alts (sfs : list (finfo * schema)) : list (list str) := flat_map alts_of sfs.

Lemma use_paths_alts cfg f p : In p (use_paths cfg f) -> In p (field_alts f).
Proof.
  unfold use_paths, field_alts. destruct (c_shadow cfg && negb (nil_b (f_spaths f))); intros H;
    apply in_or_app; auto.
Qed.

Lemma use_paths_nonnil cfg f : field_okb f = true -> use_paths cfg f <> [].
Proof.
  intros Hf. destruct (field_okb_parts f Hf) as (Hp & _). unfold use_paths.
  destruct (c_shadow cfg && negb (nil_b (f_spaths f))) eqn:E; auto.
  apply andb_true_iff in E as [_ E]. destruct (f_spaths f); [discriminate | discriminate].
Qed.

Lemma field_okb_paths f : field_okb f = true ->
  prefix_freeb (f_paths f) = true /\ prefix_freeb (f_spaths f) = true
  /\ (forall p q, In p (f_paths f) -> In q (f_spaths f) -> p = q \/ incomp p q).
Proof.
  unfold field_okb. intros H.
  apply andb_true_iff in H as [H _]. apply andb_true_iff in H as [H _]. apply andb_true_iff in H as [H _].
  apply andb_true_iff in H as [H C6]. apply andb_true_iff in H as [H C5]. apply andb_true_iff in H as [H C4].
  repeat split; auto. intros p q Hp Hq.
  rewrite forallb_forall in C6. specialize (C6 p Hp). rewrite forallb_forall in C6. specialize (C6 q Hq).
  apply orb_true_iff in C6 as [E|E]; [left; now apply list_eqb_str_eq | now right].
Qed.

Lemma use_paths_pairwise cfg f : field_okb f = true -> pairwise (use_paths cfg f).
Proof.
  intros Hf. destruct (field_okb_paths f Hf) as (H1 & H2 & _). unfold use_paths.
  destruct (c_shadow cfg && negb (nil_b (f_spaths f))); now apply prefix_freeb_pairwise.
Qed.

Lemma field_alts_ok f p : field_okb f = true -> In p (field_alts f) -> p <> [] /\ nocolon_path p.
Proof.
  intros Hf Hp. destruct (field_okb_parts f Hf) as (_ & H1 & H2 & _).
  assert (Ha : alt_okb p = true).
  { unfold field_alts in Hp. apply in_app_or in Hp as [Hp|Hp];
      [rewrite forallb_forall in H1 | rewrite forallb_forall in H2]; auto. }
  unfold alt_okb in Ha. apply andb_true_iff in Ha as [Hn Hc]. split; auto.
  destruct p; [discriminate | discriminate].
Qed.

Lemma field_alts_compat f : field_okb f = true -> compat (field_alts f).
Proof.
  intros Hf. destruct (field_okb_paths f Hf) as (H1 & H2 & H3).
  apply prefix_freeb_pairwise, pairwise_compat in H1. apply prefix_freeb_pairwise, pairwise_compat in H2.
  intros a b Ha Hb. unfold field_alts in *.
  apply in_app_or in Ha as [Ha|Ha]; apply in_app_or in Hb as [Hb|Hb]; auto.
  destruct (H3 b a Hb Ha) as [->|E]; auto. right. now apply incomp_sym.
Qed.

(* an earlier field against a later one *)
Lemma disjoint_later : forall (sfs : list (finfo * schema)) pre x r,
  fields_disjointb (map alts_of sfs) = true -> sfs = pre ++ x :: r ->
  forall y p q, In y r -> In p (alts_of x) -> In q (alts_of y) -> incomp p q.
Proof.
  intros sfs pre. revert sfs. induction pre as [|z pre IH]; intros sfs x r Hd -> y p q Hy Hp Hq.
  - simpl in Hd. apply andb_true_iff in Hd as [Hd _]. rewrite forallb_forall in Hd.
    specialize (Hd (alts_of y) (in_map alts_of _ _ Hy)). rewrite forallb_forall in Hd.
    specialize (Hd p Hp). rewrite forallb_forall in Hd. apply (Hd q Hq).
  - simpl in Hd. apply andb_true_iff in Hd as [_ Hd]. eapply IH; eauto.
Qed.

Lemma all_alts_compat : forall sfs,
  (forall fi ss, In (fi, ss) sfs -> field_okb fi = true) ->
  fields_disjointb (map alts_of sfs) = true -> compat (all_alts sfs).
Proof.
  induction sfs as [|[f s] r IH]; intros Hok Hd a b Ha Hb; [destruct Ha|].
  unfold all_alts in *. simpl in Ha, Hb.
  assert (Hr : forall fi ss, In (fi, ss) r -> field_okb fi = true) by (intros; eapply Hok; right; eauto).
  assert (Hcross : forall p q, In p (alts_of (f, s)) -> In q (flat_map alts_of r) -> incomp p q).
  { intros p q Hp Hq. apply in_flat_map in Hq as (y & Hy & Hq).
    eapply (disjoint_later ((f, s) :: r) [] (f, s) r Hd eq_refl); eauto. }
  apply in_app_or in Ha as [Ha|Ha]; apply in_app_or in Hb as [Hb|Hb].
  - apply (field_alts_compat f (Hok f s (or_introl eq_refl))); auto.
  - right. auto.
  - right. apply incomp_sym. auto.
  - simpl in Hd. apply andb_true_iff in Hd as [_ Hd]. apply IH; auto.
Qed.

Lemma struct_facts sfs : struct_okb sfs = true ->
  NoDup (go_names sfs) /\ (forall fi ss, In (fi, ss) sfs -> field_okb fi = true)
  /\ fields_disjointb (map alts_of sfs) = true /\ compat (all_alts sfs).
Proof.
  intros H. destruct (struct_okb_parts sfs H) as (H1 & H2 & H3).
  repeat split; auto. now apply all_alts_compat.
Qed.

Lemma all_alts_In sfs fi ss p : In (fi, ss) sfs -> In p (field_alts fi) -> In p (all_alts sfs).
Proof. intros H1 H2. unfold all_alts. apply in_flat_map. exists (fi, ss). auto. Qed.

(* ---------- module-qualified paths ---------- *)

Lemma spath_nocolon p : forallb no_colonb p = true -> spath p = p.
Proof.
  induction p as [|k p IH]; [reflexivity|]. intros H. simpl in H. apply andb_true_iff in H as [H1 H2].
  rewrite spath_cons, IH by assumption. now rewrite strip_mod_no_colon.
Qed.

Lemma spath_qualify : forall m p,
  forallb no_colonb m = true -> forallb no_colonb p = true -> spath (qualify_path m p) = p.
Proof.
  induction m as [|x m IH]; intros p Hm Hp.
  - destruct p; [reflexivity | now apply spath_nocolon].
  - destruct p as [|k p]; [reflexivity|]. simpl in Hm, Hp.
    apply andb_true_iff in Hm as [Hx Hm]. apply andb_true_iff in Hp as [Hk Hp].
    cbn [qualify_path]. rewrite spath_cons, strip_qualify, IH by assumption. reflexivity.
Qed.

Lemma render_alts_put mods v : forall ps ms acc acc',
  forallb (forallb no_colonb) ms = true -> (forall p, In p ps -> forallb no_colonb p = true) ->
  render_alts mods v ps ms acc = Ok acc' ->
  exists qs, put_paths (map (fun q => (q, v)) qs) acc = Ok acc' /\ map spath qs = ps.
Proof.
  induction ps as [|p ps IH]; intros ms acc acc' Hms Hps H.
  - simpl in H. injection H as <-. exists []. auto.
  - cbn [render_alts] in H. cbv zeta in H.
    set (q := if nil_b mods then p else qualify_path (hd [] ms) p) in *.
    destruct (jput q v acc) as [acc1| |] eqn:Ej; try discriminate. cbn [bind] in H.
    destruct (IH (tl ms) acc1 acc') as (qs & Hq & Hs); auto.
    { destruct ms; simpl in *; auto. now apply andb_true_iff in Hms as [_ ?]. }
    { intros p' Hp'. apply Hps. now right. }
    exists (q :: qs). split.
    + simpl. rewrite Ej. exact Hq.
    + simpl. rewrite Hs. f_equal. unfold q. destruct (nil_b mods).
      * apply spath_nocolon. apply Hps. now left.
      * apply spath_qualify; [|apply Hps; now left].
        destruct ms; simpl in *; auto. now apply andb_true_iff in Hms as [? _].
Qed.

(* ---------- rendered objects are sorted by member name ---------- *)

Lemma render_alts_sorted mods v : forall ps ms acc acc',
  jsorted v -> jsorted (JObj acc) -> render_alts mods v ps ms acc = Ok acc' -> jsorted (JObj acc').
Proof.
  induction ps as [|p ps IH]; intros ms acc acc' Hv Ha H.
  - simpl in H. now injection H as <-.
  - cbn [render_alts] in H. cbv zeta in H.
    destruct (jput (if nil_b mods then p else qualify_path (hd [] ms) p) v acc) as [acc1| |] eqn:Ej;
      try discriminate.
    cbn [bind] in H. apply (IH (tl ms) acc1 acc' Hv); auto.
    apply (jput_sorted _ v acc acc1 Hv Ha Ej).
Qed.

Lemma render_sorted env fo cfg : forall t s pm v, render_node env fo cfg s t pm = Ok v -> jsorted v.
Proof.
  induction t using tree_ind2; intros s pm j Hr.
  - simpl in Hr. destruct v; simpl in Hr; try (injection Hr as <-; exact I).
    + destruct (ikind_is64 k); injection Hr as <-; exact I.
    + destruct (enc_enum env (pmi cfg) ty n); simpl in Hr; try discriminate. injection Hr as <-. exact I.
  - apply render_shape in Hr. destruct Hr as [l ->]. exact I.
  - rewrite render_cont_eq in Hr.
    destruct (render_fields env fo cfg (sfields s) pm fs []) as [o| |] eqn:Er; try discriminate.
    cbn [bind] in Hr. injection Hr as <-.
    assert (G : forall acc o, jsorted (JObj acc) -> render_fields env fo cfg (sfields s) pm fs acc = Ok o ->
                  jsorted (JObj o)).
    { clear Er o. induction H as [|[name sub] rest Hsub HP IH]; intros acc o Ha Hr.
      - simpl in Hr. now injection Hr as <-.
      - cbn [render_fields] in Hr.
        destruct (find (fun fs => str_eqb (f_go (fst fs)) name) (sfields s)) as [[fi ss]|]; [|discriminate].
        destruct (field_pm cfg pm fi) as [[mods chmod]| |]; try discriminate.
        destruct (render_node env fo cfg ss sub chmod) as [v| |] eqn:Ev; try discriminate.
        cbn [bind] in Hr.
        destruct (is_empty_obj v && negb (f_presence fi)); [eauto|].
        destruct (negb (nil_b mods) && negb (Nat.eqb (length mods) (length (use_paths cfg fi)))); [discriminate|].
        destruct (render_alts mods v (use_paths cfg fi) mods acc) as [acc1| |] eqn:Ea; try discriminate.
        cbn [bind] in Hr. apply (IH acc1 o); auto.
        apply (render_alts_sorted mods v (use_paths cfg fi) mods acc acc1); auto.
        simpl in Hsub. eapply Hsub; eauto. }
    eapply G; eauto. apply jsorted_nil.
  - apply render_shape in Hr. destruct Hr as [l ->]. exact I.
  - apply render_shape in Hr. destruct Hr as [l ->]. exact I.
Qed.

(* ====================================================================================== *)
(* 11. The round trip                                                                      *)
(* ====================================================================================== *)

Section Main.
  Variable env : enum_env.
  Variable fo : float_oracle.
  Variable cfg : jcfg.
  Hypothesis Henv : wf_envb env = true.
  Hypothesis Hcfg : wf_cfgb env cfg = true.

  Definition c01_opts : uopts := {| o_ignore_extra := false; o_prefer_shadow := c_shadow cfg |}.

  Lemma upaths_use f : upaths c01_opts f = use_paths cfg f.
  Proof. reflexivity. Qed.

  Definition cur_ok (cur : option tree) : Prop :=
    match cur with None => True | Some c => c = TCont [] end.

  Definition wf_fields :=
    fix fields (l : list (str * tree)) (sfs : list (finfo * schema)) {struct l} : bool :=
      match l with
      | [] => true
      | (name, sub) :: rest =>
          match drop_to name sfs with
          | None => false
          | Some (fi, ss, sfs') =>
              kind_matchb ss sub && wf_node env fo ss sub
              && (f_presence fi || negb (is_empty_cont sub))
              && fields rest sfs'
          end
      end.

  Lemma wf_node_cont_eq s fs : wf_node env fo s (TCont fs) = wf_fields fs (sfields s).
  Proof. reflexivity. Qed.

  (* decoding the rendered value v of the subtree t (schema s) gives t back, whatever the fuel
     above the depth of the text *)
  Definition unm_ok (s : schema) (t : tree) (v : json) : Prop :=
    forall fuel cur, (jdepth (erase_sets v) <= fuel)%nat -> cur_ok cur ->
      unm_node env fo c01_opts fuel s cur (erase_sets v) = Ok (Some t).

  Definition P (t : tree) : Prop :=
    forall s pm v, wf_schemab s = true -> wf_node env fo s t = true -> render_node env fo cfg s t pm = Ok v ->
      (kind_matchb s t = true -> unm_ok s t v)
      /\ (forall fs, t = TCont fs ->
            exists o, v = JObj o /\ (fs <> [] -> o <> [])
              /\ forall f, (jdepth (JObj (erase_obj o)) <= S f)%nat ->
                   unm_struct env fo c01_opts f (sfields s) [] (erase_obj o) = Ok fs).

  (* the writes of one field: the same value at every (qualified) path alternative *)
  Definition Q (fi : finfo) (ss : schema) (sub : tree) (grp : list (list str * json)) : Prop :=
    exists v qs, grp = map (fun q => (q, v)) qs /\ map spath qs = use_paths cfg fi
                 /\ v <> JNull /\ jsorted v /\ unm_ok ss sub v.

  (* schema fields / tree fields / member writes in step *)
  Inductive sync : list (finfo * schema) -> list (str * tree) -> list (list str * json) -> Prop :=
  | sync_nil : sync [] [] []
  | sync_take fi ss r sub fs grp ws :
      Q fi ss sub grp -> sync r fs ws -> sync ((fi, ss) :: r) ((f_go fi, sub) :: fs) (grp ++ ws)
  | sync_skip fi ss r fs ws : sync r fs ws -> sync ((fi, ss) :: r) fs ws.

  Lemma sync_skip_many pre r fs ws : sync r fs ws -> sync (pre ++ r) fs ws.
  Proof. intros H. induction pre as [|[f s] p IH]; simpl; auto. now constructor. Qed.

  Lemma sync_all_skip sfs : sync sfs [] [].
  Proof. rewrite <- (app_nil_r sfs). apply sync_skip_many. constructor. Qed.

  Lemma Q_In fi ss sub grp q v : Q fi ss sub grp -> In (q, v) grp ->
    In (spath q) (use_paths cfg fi) /\ jsorted v.
  Proof.
    intros (v0 & qs & -> & Hs & _ & Hj & _) Hin. apply in_map_iff in Hin as (q0 & [= <- <-] & Hin).
    split; auto. rewrite <- Hs. now apply in_map.
  Qed.

  (* every write belongs to a field of the schema list *)
  Lemma sync_ws sfs fs ws : sync sfs fs ws ->
    forall q v, In (q, v) ws ->
      exists fi ss, In (fi, ss) sfs /\ In (spath q) (use_paths cfg fi) /\ jsorted v.
  Proof.
    induction 1; intros q v Hin.
    - destruct Hin.
    - apply in_app_or in Hin as [Hin|Hin].
      + destruct (Q_In _ _ _ _ _ _ H Hin). exists fi, ss. repeat split; auto. now left.
      + destruct (IHsync q v Hin) as (fj & sj & H1 & H2). exists fj, sj. split; auto. now right.
    - destruct (IHsync q v Hin) as (fj & sj & H1 & H2). exists fj, sj. split; auto. now right.
  Qed.

  Lemma sync_nonempty sfs fs ws :
    (forall fi ss, In (fi, ss) sfs -> field_okb fi = true) ->
    sync sfs fs ws -> fs <> [] -> ws <> [].
  Proof.
    intros Hok H. induction H; intros Hne; auto.
    - destruct H as (v & qs & -> & Hs & _).
      pose proof (use_paths_nonnil cfg fi (Hok fi ss (or_introl eq_refl))) as Hn.
      destruct qs; [simpl in Hs; congruence | discriminate].
    - apply IHsync; auto. intros fj sj Hin. apply (Hok fj sj). now right.
  Qed.

  (* the written paths are pairwise incomparable *)
  Lemma sync_pairwise sfs fs ws :
    (forall fi ss, In (fi, ss) sfs -> field_okb fi = true) ->
    fields_disjointb (map alts_of sfs) = true ->
    sync sfs fs ws -> pairwise (wpaths ws).
  Proof.
    intros Hok Hd H. induction H.
    - exact I.
    - assert (Hok' : forall fj sj, In (fj, sj) r -> field_okb fj = true) by (intros; eapply Hok; right; eauto).
      assert (Hd' : fields_disjointb (map alts_of r) = true).
      { simpl in Hd. now apply andb_true_iff in Hd as [_ ?]. }
      unfold wpaths. rewrite map_app. apply pairwise_app.
      + destruct H as (v & qs & -> & Hs & _). rewrite map_map. simpl.
        change (map (fun x => spath x) qs) with (map spath qs). rewrite Hs.
        apply use_paths_pairwise. apply (Hok fi ss). now left.
      + apply IHsync; auto.
      + intros x y Hx Hy.
        apply in_map_iff in Hx as ([q v] & <- & Hx). apply in_map_iff in Hy as ([q' v'] & <- & Hy).
        destruct (Q_In _ _ _ _ _ _ H Hx) as [Hx' _].
        destruct (sync_ws _ _ _ H0 q' v' Hy) as (fj & sj & Hj & Hy' & _).
        eapply (disjoint_later ((fi, ss) :: r) [] (fi, ss) r Hd eq_refl (fj, sj)); eauto;
          unfold alts_of; simpl; eauto using use_paths_alts.
    - apply IHsync.
      + intros fj sj Hin. apply (Hok fj sj). now right.
      + simpl in Hd. now apply andb_true_iff in Hd as [_ ?].
  Qed.

  (* ---------- the field loop of unmarshalStruct ---------- *)

  Lemma unm_fields_sync f sfs eo :
    NoDup (go_names sfs) -> (forall fi ss, In (fi, ss) sfs -> field_okb fi = true) ->
    fields_disjointb (map alts_of sfs) = true ->
    forall sfs' fs ws, sync sfs' fs ws ->
    forall pre acc, sfs = pre ++ sfs' -> subseq (map fst acc) (go_names pre) ->
      (forall q v, In (q, v) ws ->
         jget (JObj eo) (spath q) = Some (erase_sets v) /\ (jdepth (erase_sets v) <= f)%nat) ->
      (forall fi ss, In (fi, ss) sfs' ->
         (forall p q v, In p (use_paths cfg fi) -> In (q, v) ws -> incomp p (spath q)) ->
         forall p, In p (use_paths cfg fi) -> jget (JObj eo) p = None) ->
      unm_fields env fo c01_opts f sfs eo sfs' acc = Ok (acc ++ fs).
  Proof.
    intros Hgo Hok Hdisj sfs' fs ws Hs.
    induction Hs as [|fi ss r sub fs grp ws HQ Hs IH|fi ss r fs ws Hs IH]; intros pre acc E Hacc Hsome Hnone.
    - simpl. now rewrite app_nil_r.
    - (* the field is set *)
      pose proof HQ as (v & qs & Eg & Hq & Hnn & Hjs & Hunm).
      assert (Hfi : In (fi, ss) sfs) by (rewrite E; apply in_or_app; right; now left).
      pose proof (use_paths_nonnil cfg fi (Hok fi ss Hfi)) as Hpn.
      cbn [unm_fields]. rewrite upaths_use.
      assert (Hall : forall p, In p (use_paths cfg fi) ->
                jget (JObj eo) p = Some (erase_sets v) /\ (jdepth (erase_sets v) <= f)%nat).
      { intros p Hp. rewrite <- Hq in Hp. apply in_map_iff in Hp as (q & <- & Hqin).
        apply Hsome. apply in_or_app. left. rewrite Eg. apply in_map_iff. eauto. }
      rewrite (jget_field_some (JObj eo) (erase_sets v) (erase_not_null v Hnn) (use_paths cfg fi) None);
        auto; [|intros p Hp; now destruct (Hall p Hp)].
      cbn [bind].
      assert (Hd : (jdepth (erase_sets v) <= f)%nat).
      { destruct (use_paths cfg fi) as [|p0 ?]; [congruence|]. now destruct (Hall p0 (or_introl eq_refl)). }
      assert (Hnames : go_names sfs = go_names pre ++ f_go fi :: go_names r).
      { rewrite E. unfold go_names. now rewrite map_app. }
      assert (Hnotin : ~ In (f_go fi) (go_names pre)).
      { rewrite Hnames in Hgo. intros Hin. eapply NoDup_app_disj; eauto. now left. }
      rewrite field_get_none by (intros Hin; apply Hnotin; eapply subseq_In; eauto).
      rewrite (Hunm f None Hd I). cbn [bind].
      rewrite Hnames, field_set_append; auto.
      2:{ rewrite Hnames in Hgo. eapply NoDup_app_l; eauto. }
      rewrite (IH (pre ++ [(fi, ss)]) (acc ++ [(f_go fi, sub)])).
      + now rewrite <- app_assoc.
      + rewrite E. now rewrite <- app_assoc.
      + rewrite map_app. unfold go_names. rewrite map_app. apply subseq_app; auto. simpl. repeat constructor.
      + intros q' v' Hin. apply Hsome. apply in_or_app. now right.
      + intros fj sj Hin Hinc. apply (Hnone fj sj); [now right|].
        intros p q' v' Hp Hin'. apply in_app_or in Hin' as [Hin'|Hin']; [|eauto].
        destruct (Q_In _ _ _ _ _ _ HQ Hin') as [Hq' _].
        apply incomp_sym.
        eapply (disjoint_later sfs pre (fi, ss) r Hdisj E (fj, sj)); eauto;
          unfold alts_of; simpl; eauto using use_paths_alts.
    - (* the field is not set *)
      assert (Hfi : In (fi, ss) sfs) by (rewrite E; apply in_or_app; right; now left).
      cbn [unm_fields]. rewrite upaths_use.
      rewrite jget_field_none.
      2:{ apply (Hnone fi ss (or_introl eq_refl)). intros p q v Hp Hin.
          destruct (sync_ws _ _ _ Hs q v Hin) as (fj & sj & Hj & Hq & _).
          eapply (disjoint_later sfs pre (fi, ss) r Hdisj E (fj, sj)); eauto;
            unfold alts_of; simpl; eauto using use_paths_alts. }
      cbn [bind].
      rewrite (IH (pre ++ [(fi, ss)]) acc); auto.
      + rewrite E. now rewrite <- app_assoc.
      + unfold go_names. rewrite map_app. now apply subseq_app_r.
      + intros fj sj Hin. apply (Hnone fj sj). now right.
  Qed.

  (* ---------- the field loop of structJSON ---------- *)

  Lemma drop_to_spec name : forall sfs fi ss r,
    drop_to name sfs = Some (fi, ss, r) -> exists pre, sfs = pre ++ (fi, ss) :: r /\ f_go fi = name.
  Proof.
    induction sfs as [|[f0 s0] t IH]; simpl; intros fi ss r H; [discriminate|].
    destruct (str_eqb (f_go f0) name) eqn:E.
    - injection H as <- <- <-. exists []. split; auto. now apply cstr_eqb_eq.
    - destruct (IH _ _ _ H) as (pre & -> & Hn). exists ((f0, s0) :: pre). auto.
  Qed.

  Lemma find_go_unique : forall sfs fi ss,
    NoDup (go_names sfs) -> In (fi, ss) sfs ->
    find (fun fs => str_eqb (f_go (fst fs)) (f_go fi)) sfs = Some (fi, ss).
  Proof.
    induction sfs as [|[f0 s0] t IH]; intros fi ss Hd []; simpl in *; inversion Hd; subst.
    - injection H as -> ->. now rewrite cstr_eqb_refl.
    - destruct (str_eqb (f_go f0) (f_go fi)) eqn:E.
      + apply cstr_eqb_eq in E. exfalso. apply H2. rewrite E.
        apply (in_map (fun fs => f_go (fst fs)) _ _ H).
      + auto.
  Qed.

  Lemma render_fields_sync sfs pm :
    NoDup (go_names sfs) ->
    (forall fi ss, In (fi, ss) sfs -> field_okb fi = true /\ wf_schemab ss = true) ->
    forall fs, Forall (fun nt => P (snd nt)) fs ->
    forall sfs' acc o, incl sfs' sfs -> wf_fields fs sfs' = true ->
      render_fields env fo cfg sfs pm fs acc = Ok o ->
      exists ws, put_paths ws acc = Ok o /\ sync sfs' fs ws.
  Proof.
    intros Hgo Hall fs HP. induction HP as [|[name sub] rest Hsub HP IH]; intros sfs' acc o Hincl Hwf Hr.
    - simpl in Hr. injection Hr as <-. exists []. split; auto. apply sync_all_skip.
    - cbn [wf_fields] in Hwf.
      destruct (drop_to name sfs') as [[[fi ss] sfs'']|] eqn:Ed; [|discriminate].
      apply andb_true_iff in Hwf as [Hwf Hrest]. apply andb_true_iff in Hwf as [Hwf Hpres].
      apply andb_true_iff in Hwf as [Hkm Hwn].
      destruct (drop_to_spec _ _ _ _ _ Ed) as (pre & -> & <-).
      assert (Hin : In (fi, ss) sfs) by (apply Hincl; apply in_or_app; right; now left).
      destruct (Hall fi ss Hin) as (Hfok & HokS).
      cbn [render_fields] in Hr. rewrite (find_go_unique sfs fi ss Hgo Hin) in Hr.
      destruct (field_pm cfg pm fi) as [[mods chmod]| |] eqn:Epm; try discriminate.
      destruct (render_node env fo cfg ss sub chmod) as [v| |] eqn:Ev; try discriminate.
      cbn [bind] in Hr. simpl in Hsub.
      destruct (Hsub ss chmod v HokS Hwn Ev) as [Hunm Hcont].
      assert (Hne : is_empty_obj v && negb (f_presence fi) = false).
      { destruct (f_presence fi); [apply andb_false_r|]. simpl in Hpres. rewrite andb_true_r.
        pose proof (render_shape _ _ _ _ _ _ _ Ev) as Hsh.
        destruct sub as [x|vs|fs0|es|es].
        - tauto.
        - destruct Hsh as [l ->]. reflexivity.
        - destruct (Hcont fs0 eq_refl) as (o0 & -> & Hnz & _).
          destruct fs0; [discriminate|]. destruct o0; [|reflexivity]. exfalso. now apply Hnz.
        - destruct Hsh as [l ->]. reflexivity.
        - destruct Hsh as [l ->]. reflexivity. }
      rewrite Hne in Hr.
      destruct (negb (nil_b mods) && negb (Nat.eqb (length mods) (length (use_paths cfg fi)))); [discriminate|].
      destruct (render_alts mods v (use_paths cfg fi) mods acc) as [acc1| |] eqn:Ea; try discriminate.
      cbn [bind] in Hr.
      destruct (render_alts_put mods v _ _ _ _ (field_pm_nocolon env cfg pm fi mods chmod Hcfg Hfok Epm)
                  (fun p Hp => proj2 (field_alts_ok fi p Hfok (use_paths_alts cfg fi p Hp))) Ea)
        as (qs & Hput & Hqs).
      assert (Hincl' : incl sfs'' sfs).
      { intros x Hx. apply Hincl. apply in_or_app. right. now right. }
      destruct (IH sfs'' _ _ Hincl' Hrest Hr) as (ws & Hws & Hsync).
      exists (map (fun q => (q, v)) qs ++ ws). split.
      + rewrite put_paths_app, Hput. exact Hws.
      + apply sync_skip_many. constructor; auto.
        exists v, qs. repeat split; auto.
        * eapply render_not_null; eauto.
        * eapply render_sorted; eauto.
  Qed.

  (* ---------- one struct: render its fields, decode the object ---------- *)

  Lemma wf_fields_facts s : wf_schemab s = true ->
    NoDup (go_names (sfields s))
    /\ (forall fi ss, In (fi, ss) (sfields s) -> field_okb fi = true /\ wf_schemab ss = true)
    /\ fields_disjointb (map alts_of (sfields s)) = true /\ compat (all_alts (sfields s)).
  Proof.
    intros Hw. destruct (wf_schemab_fields s Hw) as [Hst Hsub].
    destruct (struct_facts _ Hst) as (Hgo & Hfok & Hdisj & Hcomp).
    repeat split; eauto.
  Qed.

  Lemma struct_trie_eq sfs : struct_trie sfs = fold_left (fun t p => trie_add p t) (all_alts sfs) (TrieNode []).
  Proof. unfold struct_trie, all_alts. apply (fold_left_flat_map (fun t p => trie_add p t) alts_of). Qed.

  Lemma cont_struct s fs pm v :
    wf_schemab s = true -> Forall (fun nt => P (snd nt)) fs ->
    wf_fields fs (sfields s) = true -> render_node env fo cfg s (TCont fs) pm = Ok v ->
    exists o, v = JObj o /\ (fs <> [] -> o <> [])
      /\ forall f, (jdepth (JObj (erase_obj o)) <= S f)%nat ->
           unm_struct env fo c01_opts f (sfields s) [] (erase_obj o) = Ok fs.
  Proof.
    intros HokS HP Hwf Hr. destruct (wf_fields_facts s HokS) as (Hgo & Hall & Hdisj & Hcomp).
    set (sfs := sfields s) in *. set (A := all_alts sfs) in *.
    assert (Hfok : forall fi ss, In (fi, ss) sfs -> field_okb fi = true) by (intros fi ss H; now destruct (Hall fi ss H)).
    rewrite render_cont_eq in Hr. fold sfs in Hr.
    destruct (render_fields env fo cfg sfs pm fs []) as [o| |] eqn:Er; try discriminate.
    cbn [bind] in Hr. injection Hr as <-.
    destruct (render_fields_sync sfs pm Hgo Hall fs HP sfs [] o (incl_refl _) Hwf Er) as (ws & Hput & Hsync).
    assert (Hwsok : forall q v, In (q, v) ws -> q <> [] /\ jsorted v /\ In (spath q) A).
    { intros q v Hin. destruct (sync_ws _ _ _ Hsync q v Hin) as (fi & ss & Hfi & Hq & Hj).
      pose proof (use_paths_alts cfg fi _ Hq) as Hqa.
      destruct (field_alts_ok fi _ (Hfok fi ss Hfi) Hqa) as [Hne _].
      repeat split; auto.
      - intros ->. now apply Hne.
      - eapply all_alts_In; eauto. }
    pose proof (put_paths_inv A ws [] [] o (obj_inv_nil A)
                  (sync_pairwise sfs fs ws Hfok Hdisj Hsync) Hwsok Hput) as [I1 I2 I3 I4].
    simpl in I2, I3.
    exists o. split; [reflexivity|]. split.
    { intros Hne. eapply put_paths_nonempty; eauto.
      - intros q v Hin. now destruct (Hwsok q v Hin).
      - eapply sync_nonempty; eauto. }
    intros f Hd. set (eo := erase_obj o) in *.
    assert (Ejall : forall p, jall (JObj eo) p = map erase_sets (jall (JObj o) p)).
    { intros p. unfold eo. rewrite <- erase_obj_eq. apply jall_erase. }
    assert (Hsome : forall q v, In (q, v) ws ->
              jget (JObj eo) (spath q) = Some (erase_sets v) /\ (jdepth (erase_sets v) <= f)%nat).
    { intros q v Hin.
      assert (E : jall (JObj eo) (spath q) = [erase_sets v]) by (rewrite Ejall, (I2 q v Hin); reflexivity).
      split; [rewrite jget_jall, E; reflexivity|].
      assert (Hlt : (jdepth (erase_sets v) < jdepth (JObj eo))%nat).
      { apply (jall_depth (spath q)); [|rewrite E; now left].
        destruct (Hwsok q v Hin) as [Hne _]. destruct q; [congruence | discriminate]. }
      lia. }
    assert (Hnone : forall fi ss, In (fi, ss) sfs ->
              (forall p q v, In p (use_paths cfg fi) -> In (q, v) ws -> incomp p (spath q)) ->
              forall p, In p (use_paths cfg fi) -> jget (JObj eo) p = None).
    { intros fi ss Hfi Hinc p Hp. rewrite jget_jall, Ejall, I3; [reflexivity| |eauto].
      now destruct (field_alts_ok fi p (Hfok fi ss Hfi) (use_paths_alts cfg fi p Hp)). }
    unfold unm_struct.
    rewrite (unm_fields_sync f sfs eo Hgo Hfok Hdisj sfs fs ws Hsync [] [] eq_refl (ss_nil _) Hsome Hnone).
    cbn [bind app]. simpl o_ignore_extra. cbv iota.
    rewrite struct_trie_eq. fold A.
    destruct (trie_fold_spec A [] []) as (m & Em & Hspec).
    { split; [intros p []|intros p r t []]. }
    { exact Hcomp. }
    { intros p Hp. unfold A, all_alts in Hp. apply in_flat_map in Hp as ([fi ss] & Hfi & Hp).
      eapply field_alts_ok; eauto. }
    rewrite Em. simpl app in Hspec.
    rewrite (check_tree_cov A (TrieNode m) Hspec _ o [] m); [reflexivity | fold eo; lia | exact I4 | reflexivity].
  Qed.

  (* ---------- list entries ---------- *)

  Definition wf_entries (s : schema) (sfs : list (finfo * schema)) (keys : list str) :=
    fix entries (l : list (list scalar * tree)) : bool :=
      match l with
      | [] => true
      | (k, e) :: rest =>
          match e with
          | TCont fs => wf_node env fo s e && key_matchb sfs keys fs k
          | _ => false
          end && entries rest
      end.

  Lemma wf_node_list_eq ordered keys mn mx sfs es :
    wf_node env fo (SList ordered keys mn mx sfs) (TList es) =
    wf_entries (SList ordered keys mn mx sfs) sfs keys es && keys_okb ordered (map fst es).
  Proof. reflexivity. Qed.

  Definition wf_uentries (s : schema) :=
    fix entries (l : list tree) : bool :=
      match l with
      | [] => true
      | e :: rest => match e with TCont _ => wf_node env fo s e | _ => false end && entries rest
      end.

  Lemma wf_node_unkeyed_eq sfs es :
    wf_node env fo (SUnkeyed sfs) (TUnkeyed es) = wf_uentries (SUnkeyed sfs) es.
  Proof. reflexivity. Qed.

  Lemma list_elems ordered keys mn mx sfs pm f :
    let s := SList ordered keys mn mx sfs in
    wf_schemab s = true ->
    forall es, Forall (fun ke => P (snd ke)) es ->
    forall l acc, wf_entries s sfs keys es = true -> render_entries env fo cfg s pm es = Ok l ->
      keys_okb ordered (map fst (acc ++ es)) = true ->
      (forall x, In x l -> (jdepth (erase_sets x) <= S f)%nat) ->
      (forall x, In x l -> exists o, x = JObj o)
      /\ unm_elems env fo c01_opts f ordered keys sfs (map erase_sets l) acc = Ok (acc ++ es).
  Proof.
    intros s HokS es HP. induction HP as [|[k e] rest He HP IH]; intros l acc Hwf Hr Hk Hd.
    - simpl in Hr. injection Hr as <-. simpl. rewrite app_nil_r. split; auto. intros x [].
    - cbn [wf_entries] in Hwf. apply andb_true_iff in Hwf as [Hwe Hwr].
      destruct e as [?|?|fs|?|?]; try discriminate.
      apply andb_true_iff in Hwe as [Hwn Hkey].
      cbn [render_entries] in Hr.
      destruct (render_node env fo cfg s (TCont fs) pm) as [j| |] eqn:Ej; try discriminate. cbn [bind] in Hr.
      destruct (render_entries env fo cfg s pm rest) as [l'| |] eqn:El; try discriminate. cbn [bind] in Hr.
      injection Hr as <-.
      simpl in He. destruct (He s pm j HokS Hwn Ej) as [_ Hc].
      destruct (Hc fs eq_refl) as (o & -> & _ & Hunm).
      assert (Hk' : keys_okb ordered (map fst ((acc ++ [(k, TCont fs)]) ++ rest)) = true).
      { now rewrite <- app_assoc. }
      destruct (IH l' (acc ++ [(k, TCont fs)]) Hwr eq_refl Hk') as [Hobj Hel].
      { intros x Hx. apply Hd. now right. }
      split.
      { intros x [<-|Hx]; eauto. }
      cbn [map]. rewrite erase_obj_eq. cbn [unm_elems].
      rewrite Hunm.
      2:{ rewrite <- erase_obj_eq. apply Hd. now left. }
      cbn [bind].
      unfold key_matchb in Hkey. simpl sfields.
      destruct (entry_key sfs keys fs) as [k'| |]; try discriminate.
      apply keys_eqb_eq in Hkey. subst k'. cbn [bind].
      assert (Hcond : forall k0 e0, In (k0, e0) acc ->
                keys_eqb k k0 = false /\ (ordered = true \/ keys_cmp k k0 <> Lt)).
      { intros k0 e0 Hin. rewrite map_app in Hk. simpl in Hk.
        eapply keys_okb_app; eauto. apply (in_map fst _ _ Hin). }
      rewrite tl_find_none by (intros k0 e0 Hin; now destruct (Hcond k0 e0 Hin)).
      destruct ordered.
      + rewrite Hel. now rewrite <- app_assoc.
      + rewrite tl_insert_append.
        * rewrite Hel. now rewrite <- app_assoc.
        * intros k0 e0 Hin. destruct (Hcond k0 e0 Hin) as [H1 [H2|H2]]; [discriminate|auto].
  Qed.

  Lemma unkeyed_elems sfs pm f :
    let s := SUnkeyed sfs in
    wf_schemab s = true ->
    forall es, Forall P es ->
    forall l acc, wf_uentries s es = true -> render_uentries env fo cfg s pm es = Ok l ->
      (forall x, In x l -> (jdepth (erase_sets x) <= S f)%nat) ->
      (forall x, In x l -> exists o, x = JObj o)
      /\ unm_uelems env fo c01_opts f sfs (map erase_sets l) acc = Ok (acc ++ es).
  Proof.
    intros s HokS es HP. induction HP as [|e rest He HP IH]; intros l acc Hwf Hr Hd.
    - simpl in Hr. injection Hr as <-. simpl. rewrite app_nil_r. split; auto. intros x [].
    - cbn [wf_uentries] in Hwf. apply andb_true_iff in Hwf as [Hwn Hwr].
      destruct e as [?|?|fs|?|?]; try discriminate.
      cbn [render_uentries] in Hr.
      destruct (render_node env fo cfg s (TCont fs) pm) as [j| |] eqn:Ej; try discriminate. cbn [bind] in Hr.
      destruct (render_uentries env fo cfg s pm rest) as [l'| |] eqn:El; try discriminate. cbn [bind] in Hr.
      injection Hr as <-.
      destruct (He s pm j HokS Hwn Ej) as [_ Hc].
      destruct (Hc fs eq_refl) as (o & -> & _ & Hunm).
      destruct (IH l' (acc ++ [TCont fs]) Hwr eq_refl) as [Hobj Hel].
      { intros x Hx. apply Hd. now right. }
      split.
      { intros x [<-|Hx]; eauto. }
      cbn [map]. rewrite erase_obj_eq. cbn [unm_uelems].
      rewrite Hunm.
      2:{ rewrite <- erase_obj_eq. apply Hd. now left. }
      cbn [bind]. rewrite Hel. now rewrite <- app_assoc.
  Qed.

  Lemma entries_objs s sfs keys pm : forall es l,
    wf_entries s sfs keys es = true -> render_entries env fo cfg s pm es = Ok l ->
    forall x, In x l -> exists o, x = JObj o.
  Proof.
    induction es as [|[k e] r IH]; intros l Hwf El; simpl in El.
    - injection El as <-. intros x [].
    - cbn [wf_entries] in Hwf. apply andb_true_iff in Hwf as [Hwe Hwr].
      destruct (render_node env fo cfg s e pm) as [j| |] eqn:Ej; try discriminate. cbn [bind] in El.
      destruct (render_entries env fo cfg s pm r) as [l'| |] eqn:El'; try discriminate.
      cbn [bind] in El. injection El as <-.
      intros x [<-|Hx]; eauto.
      destruct e; try discriminate. apply render_shape in Ej. exact Ej.
  Qed.

  Lemma uentries_objs s pm : forall es l,
    wf_uentries s es = true -> render_uentries env fo cfg s pm es = Ok l ->
    forall x, In x l -> exists o, x = JObj o.
  Proof.
    induction es as [|e r IH]; intros l Hwf El; simpl in El.
    - injection El as <-. intros x [].
    - cbn [wf_uentries] in Hwf. apply andb_true_iff in Hwf as [Hwe Hwr].
      destruct (render_node env fo cfg s e pm) as [j| |] eqn:Ej; try discriminate. cbn [bind] in El.
      destruct (render_uentries env fo cfg s pm r) as [l'| |] eqn:El'; try discriminate.
      cbn [bind] in El. injection El as <-.
      intros x [<-|Hx]; eauto.
      destruct e; try discriminate. apply render_shape in Ej. exact Ej.
  Qed.

  Lemma jdepth_arr_bound l f : (jdepth (JArr l) <= S f)%nat -> forall x, In x l -> (jdepth x <= S f)%nat.
  Proof. intros H x Hx. apply jdepth_elem in Hx. lia. Qed.

  (* ---------- every tree ---------- *)

  Theorem P_all : forall t, P t.
  Proof.
    induction t using tree_ind2; intros s pm j HokS Hwf Hr.
    - (* leaf *)
      split; [|intros fs [=]].
      intros Hkm fuel cur Hd Hc. destruct s; try discriminate. simpl in Hwf, Hr.
      rewrite (enc_erase _ _ _ _ _ Hr) in *.
      destruct fuel; [pose proof (jdepth_pos j); lia|].
      rewrite unm_leaf_eq by (eapply enc_not_null; eauto).
      now rewrite (wf_leaf_roundtrip env fo cfg t v j Henv Hcfg Hwf Hr).
    - (* leaf-list *)
      split; [|intros fs [=]].
      intros Hkm fuel cur Hd Hc. destruct s; try discriminate. simpl in Hwf, Hr.
      apply andb_true_iff in Hwf as [Hwf Htag]. apply andb_true_iff in Hwf as [Hne Hwf].
      destruct (render_scalars env fo cfg vs) as [l| |] eqn:El; try discriminate. cbn [bind] in Hr.
      injection Hr as <-.
      destruct (render_scalars_dec env fo cfg t vs l Henv Hcfg Hwf El) as (Hdec & Hmap & _ & _).
      rewrite (erase_leaflist env fo cfg vs l Htag El Hmap) in *.
      destruct fuel; [simpl in Hd; lia|].
      rewrite unm_leaflist_eq, Hdec. cbn [bind]. destruct vs; [discriminate | reflexivity].
    - (* container / list entry *)
      rewrite wf_node_cont_eq in Hwf.
      destruct (cont_struct s fs pm j HokS H Hwf Hr) as (o & -> & Hnz & Hunm).
      split.
      + intros Hkm fuel cur Hd Hc. destruct s; try discriminate.
        rewrite erase_obj_eq in *. destruct fuel; [simpl in Hd; lia|].
        rewrite unm_cont_eq.
        assert (Ecur : match cur with Some c => fields_of c | None => [] end = []).
        { destruct cur as [c|]; auto. simpl in Hc. now subst c. }
        rewrite Ecur. simpl sfields in Hunm. rewrite (Hunm fuel Hd). reflexivity.
      + intros fs' [= <-]. eauto.
    - (* keyed list *)
      split; [|intros fs [=]].
      intros Hkm fuel cur Hd Hc. destruct s as [| | |ordered keys mn mx sfs|]; try discriminate.
      rewrite wf_node_list_eq in Hwf. apply andb_true_iff in Hwf as [Hwe Hk].
      rewrite render_list_eq in Hr.
      destruct (render_entries env fo cfg (SList ordered keys mn mx sfs) pm es) as [l| |] eqn:El; try discriminate.
      cbn [bind] in Hr. injection Hr as <-.
      pose proof (entries_objs _ _ _ _ _ _ Hwe El) as Hobj.
      assert (Ee : erase_sets (if ordered then JArr l else jset l) = JArr (map erase_sets l)).
      { destruct ordered; [now apply erase_arr_objs | now apply erase_jset]. }
      rewrite Ee in *. destruct fuel; [simpl in Hd; lia|].
      rewrite unm_list_eq.
      assert (Ecur : match cur with Some (TList es0) => es0 | _ => [] end = []).
      { destruct cur as [c|]; auto. simpl in Hc. now subst c. }
      rewrite Ecur.
      destruct (list_elems ordered keys mn mx sfs pm fuel HokS es H l [] Hwe El Hk) as [_ Hel].
      { intros x Hx. apply (jdepth_arr_bound _ _ Hd). now apply in_map. }
      rewrite Hel. reflexivity.
    - (* unkeyed list *)
      split; [|intros fs [=]].
      intros Hkm fuel cur Hd Hc. destruct s as [| | | |sfs]; try discriminate.
      rewrite wf_node_unkeyed_eq in Hwf.
      rewrite render_unkeyed_eq in Hr.
      destruct (render_uentries env fo cfg (SUnkeyed sfs) pm es) as [l| |] eqn:El; try discriminate.
      cbn [bind] in Hr. injection Hr as <-.
      pose proof (uentries_objs _ _ _ _ Hwf El) as Hobj.
      rewrite (erase_arr_objs l Hobj) in *. destruct fuel; [simpl in Hd; lia|].
      rewrite unm_unkeyed_eq.
      assert (Ecur : match cur with Some (TUnkeyed es0) => es0 | _ => [] end = []).
      { destruct cur as [c|]; auto. simpl in Hc. now subst c. }
      rewrite Ecur.
      destruct (unkeyed_elems sfs pm fuel HokS es H l [] Hwf El) as [_ Hel].
      { intros x Hx. apply (jdepth_arr_bound _ _ Hd). now apply in_map. }
      rewrite Hel. reflexivity.
  Qed.
End Main.

(* ====================================================================================== *)
(* 12. Theorems                                                                            *)
(* ====================================================================================== *)

Theorem roundtrip : forall env fo cfg S t j,
  wf_envb env = true -> wf_cfgb env cfg = true ->
  wf_schemab S = true -> wf_treeb env fo S t = true ->
  render env fo cfg S t = Ok j ->
  unmarshal env fo {| o_ignore_extra := false; o_prefer_shadow := c_shadow cfg |} S (TCont []) (erase_sets j) = Ok t.
Proof.
  intros env fo cfg S t j He Hc Hs Hw Hr.
  unfold wf_treeb in Hw. apply andb_true_iff in Hw as [Hkm Hw].
  destruct (P_all env fo cfg He Hc t S [] j Hs Hw Hr) as [H _].
  unfold unmarshal. fold (c01_opts cfg).
  rewrite (H Hkm (jdepth (erase_sets j) + 2)%nat (Some (TCont []))); [reflexivity | lia | reflexivity].
Qed.

(* ---------- a conforming tree always renders ---------- *)

Lemma wf_type_enc env fo p t : forall v, wf_type env fo t v = true -> exists j, enc_scalar env fo p v = Ok j.
Proof.
  induction t as [k rs|fr|ls np|ls| | |ty|ty|ms|t' IH]; intros v Hw; cbn [wf_type kind_of_type] in Hw;
    try (destruct v; try discriminate; apply enc_scalar_total; intros; discriminate).
  - destruct v; try discriminate. apply andb_true_iff in Hw as [Hw Hn]. apply andb_true_iff in Hw as [Hw _].
    apply cstr_eqb_eq in Hw. subst ty0. simpl. unfold enc_enum.
    destruct (enum_by_num (enum_table env ty) n); [simpl; eauto | discriminate].
  - destruct v; try discriminate. apply andb_true_iff in Hw as [Hw Hn]. apply andb_true_iff in Hw as [Hw _].
    apply cstr_eqb_eq in Hw. subst ty0. simpl. unfold enc_enum.
    destruct (enum_by_num (enum_table env ty) n); [simpl; eauto | discriminate].
  - destruct v; try (apply enc_scalar_total; intros; discriminate).
    apply andb_true_iff in Hw as [_ Hw]. simpl. unfold enc_enum.
    destruct (enum_by_num (enum_table env ty) n); [simpl; eauto | discriminate].
  - eauto.
Qed.

Lemma render_scalars_total env fo cfg t : forall vs,
  forallb (wf_leaf env fo t) vs = true -> exists l, render_scalars env fo cfg vs = Ok l.
Proof.
  induction vs as [|v r IH]; simpl; intros H; [eauto|].
  apply andb_true_iff in H as [Hv Hr]. unfold wf_leaf in Hv. apply andb_true_iff in Hv as [_ Hv].
  destruct (wf_type_enc env fo (pmi cfg) t v Hv) as [j ->]. destruct (IH Hr) as [l ->]. simpl. eauto.
Qed.

Lemma prepend_one_cons cfg prev m t :
  prepend_one cfg prev (m :: t) =
  if str_eqb (rewrite_mod cfg m) prev
  then let '(r, last) := prepend_one cfg prev t in ([] :: r, last)
  else let '(r, last) := prepend_one cfg (rewrite_mod cfg m) t in (rewrite_mod cfg m :: r, last).
Proof. reflexivity. Qed.

Lemma prepend_one_last cfg : forall a prev, a <> [] ->
  snd (prepend_one cfg prev a) = rewrite_mod cfg (last a []).
Proof.
  induction a as [|m t IH]; intros prev Hne; [congruence|].
  destruct t as [|m2 t'].
  - simpl. destruct (str_eqb (rewrite_mod cfg m) prev) eqn:E; simpl; auto.
    apply cstr_eqb_eq in E. auto.
  - assert (Hne' : m2 :: t' <> []) by discriminate.
    rewrite prepend_one_cons. change (last (m :: m2 :: t') []) with (last (m2 :: t') []).
    destruct (str_eqb (rewrite_mod cfg m) prev).
    + specialize (IH prev Hne'). destruct (prepend_one cfg prev (m2 :: t')). exact IH.
    + specialize (IH (rewrite_mod cfg m) Hne'). destruct (prepend_one cfg (rewrite_mod cfg m) (m2 :: t')).
      exact IH.
Qed.

Lemma prepend_all_total cfg parent L : forall alts ch,
  (forall a, In a alts -> a <> [] /\ rewrite_mod cfg (last a []) = L) ->
  ch = [] \/ ch = L ->
  exists pm lst, prepend_all cfg parent alts ch = Ok (pm, lst) /\ length pm = length alts.
Proof.
  induction alts as [|a t IH]; intros ch Hall Hch.
  - simpl. eauto.
  - destruct (Hall a (or_introl eq_refl)) as [Hne HL].
    cbn [prepend_all]. pose proof (prepend_one_last cfg a parent Hne) as Hl.
    destruct (prepend_one cfg parent a) as [r l]. cbn [snd] in Hl.
    assert (El : l = L) by (rewrite <- HL; exact Hl). clear Hl. subst l.
    assert (Echk : negb (nil_b ch) && negb (str_eqb L ch) = false).
    { destruct Hch as [->| ->]; [reflexivity|]. rewrite cstr_eqb_refl. apply andb_false_r. }
    rewrite Echk.
    destruct (IH L) as (pm & lst & -> & Hlen); auto.
    { intros a' Ha'. apply Hall. now right. }
    simpl. eexists _, _. split; [reflexivity|]. simpl. now rewrite Hlen.
Qed.

Lemma same_shapeb_facts : forall ms ps, same_shapeb ms ps = true ->
  (forall p, In p ps -> p <> []) ->
  length ms = length ps /\ forall m, In m ms -> m <> [].
Proof.
  induction ms as [|m ms IH]; intros [|p ps] H Hps; simpl in H; try discriminate.
  - split; [reflexivity | intros m []].
  - apply andb_true_iff in H as [H1 H2]. apply Nat.eqb_eq in H1.
    destruct (IH ps H2) as [Hl Hm]; [intros q Hq; apply Hps; now right|].
    split; [simpl; now rewrite Hl|]. intros m' [<-|Hin]; auto.
    intros ->. simpl in H1. symmetry in H1. apply length_zero_iff_nil in H1.
    apply (Hps p); auto. now left.
Qed.

Lemma use_mods_okb cfg f : field_okb f = true -> mods_okb (use_mods cfg f) (use_paths cfg f) = true.
Proof.
  unfold field_okb. intros H.
  apply andb_true_iff in H as [H C9]. apply andb_true_iff in H as [H C8]. apply andb_true_iff in H as [H C7].
  unfold use_mods, use_paths. destruct (c_shadow cfg); simpl; auto.
  destruct (f_spaths f) as [|sp spr] eqn:Esp; simpl.
  - assert (Esm : f_smods f = []).
    { unfold mods_okb in C8. destruct (f_smods f); auto. simpl in C8. discriminate. }
    rewrite Esm. simpl. exact C7.
  - destruct (f_smods f) as [|sm smr] eqn:Esm; simpl; auto.
Qed.

Lemma field_pm_total cfg pm fi :
  field_okb fi = true ->
  exists mods chmod, field_pm cfg pm fi = Ok (mods, chmod)
    /\ (negb (nil_b mods) && negb (Nat.eqb (length mods) (length (use_paths cfg fi))) = false).
Proof.
  intros Hf. pose proof (use_mods_okb cfg fi Hf) as Hm.
  unfold field_pm. destruct (c_append_mod cfg); [|exists [], []; auto].
  destruct (use_mods cfg fi) as [|m0 mr] eqn:Em; [exists [], []; auto|].
  unfold mods_okb in Hm. cbn [nil_b orb] in Hm.
  apply andb_true_iff in Hm as [Hm Hlast]. apply andb_true_iff in Hm as [Hshape _].
  destruct (same_shapeb_facts _ _ Hshape) as [Hlen Hne].
  { intros p Hp. now destruct (field_alts_ok fi p Hf (use_paths_alts cfg fi p Hp)). }
  cbn [nil_b].
  destruct (prepend_all_total cfg pm (rewrite_mod cfg (last_str m0)) (m0 :: mr) []) as (mods & lst & E & Hl); auto.
  { intros a [<-|Ha]; [split; [apply Hne; now left | reflexivity]|].
    split; [apply Hne; now right|]. rewrite forallb_forall in Hlast. specialize (Hlast a Ha).
    apply cstr_eqb_eq in Hlast. unfold last_str in *. f_equal. exact Hlast. }
  exists mods, lst. split; auto.
  assert (Hlm : length mods = length (use_paths cfg fi)) by (etransitivity; [exact Hl | exact Hlen]).
  rewrite Hlm, Nat.eqb_refl. apply andb_false_r.
Qed.

Lemma render_alts_total A mods v : forall ps ms acc,
  compat A -> covp A [] acc ->
  forallb (forallb no_colonb) ms = true ->
  (forall p, In p ps -> In p A /\ p <> [] /\ forallb no_colonb p = true) ->
  exists acc', render_alts mods v ps ms acc = Ok acc' /\ covp A [] acc'.
Proof.
  induction ps as [|p ps IH]; intros ms acc HC Hcov Hms Hps.
  - simpl. eauto.
  - cbn [render_alts]. cbv zeta.
    set (q := if nil_b mods then p else qualify_path (hd [] ms) p).
    destruct (Hps p (or_introl eq_refl)) as (HA & Hne & Hnc).
    assert (Hq : spath q = p).
    { unfold q. destruct (nil_b mods); [now apply spath_nocolon|].
      apply spath_qualify; auto. destruct ms; simpl in *; auto. now apply andb_true_iff in Hms as [? _]. }
    assert (Hqne : q <> []) by (intros E; rewrite E in Hq; simpl in Hq; congruence).
    assert (HA' : In ([] ++ spath q) A) by (simpl; now rewrite Hq).
    destruct (jput_total A q v acc [] HC Hcov HA' Hqne) as [acc1 Ej]. rewrite Ej. cbn [bind].
    apply IH; auto.
    + eapply (jput_cov A q v acc acc1 []); eauto.
    + destruct ms; simpl in *; auto. now apply andb_true_iff in Hms as [_ ?].
    + intros p' Hp'. apply Hps. now right.
Qed.

Definition Rtot env fo cfg (t : tree) : Prop :=
  forall s pm, wf_schemab s = true -> wf_node env fo s t = true ->
    exists v, render_node env fo cfg s t pm = Ok v.

Lemma render_total_node env fo cfg : wf_cfgb env cfg = true -> forall t, Rtot env fo cfg t.
Proof.
  intros Hcfg. induction t using tree_ind2; intros s pm HokS Hwf.
  - destruct s; try discriminate. simpl in *. unfold wf_leaf in Hwf. apply andb_true_iff in Hwf as [_ Hwf].
    eapply wf_type_enc; eauto.
  - destruct s; try discriminate. simpl in *.
    apply andb_true_iff in Hwf as [Hwf _]. apply andb_true_iff in Hwf as [_ Hwf].
    destruct (render_scalars_total env fo cfg t vs Hwf) as [l ->]. simpl. eauto.
  - rewrite render_cont_eq. rewrite wf_node_cont_eq in Hwf.
    destruct (wf_fields_facts s HokS) as (Hgo & Hall & Hdisj & Hcomp).
    set (sfs := sfields s) in *. set (A := all_alts sfs) in *.
    assert (G : forall sfs' acc, incl sfs' sfs -> wf_fields env fo fs sfs' = true -> covp A [] acc ->
                exists o, render_fields env fo cfg sfs pm fs acc = Ok o).
    { clear Hwf. induction H as [|[name sub] rest Hsub HP IH]; intros sfs' acc Hincl Hwf Hcov.
      - simpl. eauto.
      - cbn [wf_fields] in Hwf.
        destruct (drop_to name sfs') as [[[fi ss] sfs'']|] eqn:Ed; [|discriminate].
        apply andb_true_iff in Hwf as [Hwf Hrest]. apply andb_true_iff in Hwf as [Hwf Hpres].
        apply andb_true_iff in Hwf as [Hkm Hwn].
        destruct (drop_to_spec _ _ _ _ _ Ed) as (pre & -> & <-).
        assert (Hin : In (fi, ss) sfs) by (apply Hincl; apply in_or_app; right; now left).
        destruct (Hall fi ss Hin) as (Hfok & HokS').
        cbn [render_fields]. rewrite (find_go_unique sfs fi ss Hgo Hin).
        destruct (field_pm_total cfg pm fi Hfok) as (mods & chmod & Epm & Hlen). rewrite Epm.
        simpl in Hsub. destruct (Hsub ss chmod HokS' Hwn) as [v ->]. cbn [bind].
        assert (Hincl' : incl sfs'' sfs).
        { intros x Hx. apply Hincl. apply in_or_app. right. now right. }
        destruct (is_empty_obj v && negb (f_presence fi)); [eapply IH; eauto|].
        rewrite Hlen.
        destruct (render_alts_total A mods v (use_paths cfg fi) mods acc Hcomp Hcov) as (acc1 & -> & Hcov1).
        { eapply field_pm_nocolon; eauto. }
        { intros p Hp. pose proof (use_paths_alts cfg fi p Hp) as Hpa.
          destruct (field_alts_ok fi p Hfok Hpa). repeat split; auto. eapply all_alts_In; eauto. }
        cbn [bind]. eapply IH; eauto. }
    destruct (G sfs [] (incl_refl _) Hwf (covp_nil A [])) as [o ->]. simpl. eauto.
  - destruct s as [| | |ordered keys mn mx sfs|]; try discriminate.
    rewrite wf_node_list_eq in Hwf. apply andb_true_iff in Hwf as [Hwe _].
    rewrite render_list_eq.
    assert (G : exists l, render_entries env fo cfg (SList ordered keys mn mx sfs) pm es = Ok l).
    { induction H as [|[k e] rest He HP IH]; [simpl; eauto|].
      cbn [wf_entries] in Hwe. apply andb_true_iff in Hwe as [Hwe Hwr].
      destruct e; try discriminate. apply andb_true_iff in Hwe as [Hwn _].
      cbn [snd] in He. destruct (He _ pm HokS Hwn) as [v Hv]. cbn [render_entries]. rewrite Hv.
      destruct (IH Hwr) as [l ->]. simpl. eauto. }
    destruct G as [l ->]. simpl. eauto.
  - destruct s as [| | | |sfs]; try discriminate.
    rewrite wf_node_unkeyed_eq in Hwf. rewrite render_unkeyed_eq.
    assert (G : exists l, render_uentries env fo cfg (SUnkeyed sfs) pm es = Ok l).
    { induction H as [|e rest He HP IH]; [simpl; eauto|].
      cbn [wf_uentries] in Hwf. apply andb_true_iff in Hwf as [Hwn Hwr].
      destruct e; try discriminate.
      destruct (He _ pm HokS Hwn) as [v Hv]. cbn [render_uentries]. rewrite Hv.
      destruct (IH Hwr) as [l ->]. simpl. eauto. }
    destruct G as [l ->]. simpl. eauto.
Qed.

Theorem render_total : forall env fo cfg S t,
  wf_cfgb env cfg = true -> wf_schemab S = true -> wf_treeb env fo S t = true ->
  exists j, render env fo cfg S t = Ok j.
Proof.
  intros env fo cfg S t Hc Hs Hw. unfold wf_treeb in Hw. apply andb_true_iff in Hw as [_ Hw].
  apply render_total_node; auto.
Qed.

Corollary rerender : forall env fo cfg S t j t',
  wf_envb env = true -> wf_cfgb env cfg = true ->
  wf_schemab S = true -> wf_treeb env fo S t = true ->
  render env fo cfg S t = Ok j ->
  unmarshal env fo {| o_ignore_extra := false; o_prefer_shadow := c_shadow cfg |} S (TCont []) (erase_sets j) = Ok t' ->
  render env fo cfg S t' = render env fo cfg S t.
Proof.
  intros env fo cfg S t j t' He Hc Hs Hw Hr Hu.
  rewrite (roundtrip env fo cfg S t j He Hc Hs Hw Hr) in Hu. now injection Hu as <-.
Qed.
