(* Merge.v — ygot.MergeStructs / MergeStructInto / DeepCopy at the tree level
   (ygot/struct_validation_map.go: copyStruct, copyPtrField, copyInterfaceField, copyMapField,
   copyOrderedMap + orderedMapKeysMergeable, copySliceField, uniqueSlices; options
   MergeOverwriteExistingFields and MergeEmptyMaps).

   copyStruct walks the fields of the Go struct type, i.e. the fields of the schema node, and
   dispatches on the reflect.Kind of the field.  The model therefore recurses over the SCHEMA and
   looks the field up in the destination and in the source.  The Go kind of a leaf field is
   determined by its YANG type (mg_repr_of; checked against the generated packages by the
   harness on every run):
     RPtr   *T          copyPtrField        (scalar pointer)
     RBin   Binary      copySliceField (!)  (a []byte is a slice: bytes are treated as list members)
     REnum  int64       the reflect.Int64 arm
     REmpty YANGEmpty   the default arm: dst = src, also when src is unset (!)
     RUnion interface   copyInterfaceField
   Definitions only; proofs are in MergeProofs.v. *)
From Ygot Require Import Tree.Tree Tree.TreeOps.

(* ---------- Go representation of a leaf type ---------- *)

Inductive mg_gotag := GInt (k : ikind) | GDec | GStr | GBin | GBool | GEmpty | GEnum (ty : str).

Definition mg_gotag_eqb (a b : mg_gotag) : bool :=
  match a, b with
  | GInt k, GInt k' => ikind_eqb k k'
  | GDec, GDec | GStr, GStr | GBin, GBin | GBool, GBool | GEmpty, GEmpty => true
  | GEnum t, GEnum t' => str_eqb t t'
  | _, _ => false
  end.

(* the Go types of the (flattened) members of a YANG type: ygen maps a union whose members all
   have the same Go type to that type *)
Fixpoint mg_tags (t : ytype) : list mg_gotag :=
  match t with
  | YInt k _ => [GInt k]
  | YDec _ => [GDec]
  | YStr _ _ => [GStr]
  | YBin _ => [GBin]
  | YBool => [GBool]
  | YEmpty => [GEmpty]
  | YEnum ty | YIdref ty => [GEnum ty]
  | YUnion ms => (fix go (l : list ytype) : list mg_gotag :=
                    match l with [] => [] | m :: r => mg_tags m ++ go r end) ms
  | YLeafref t' => mg_tags t'
  end.

Fixpoint mg_dedup (l : list mg_gotag) : list mg_gotag :=
  match l with
  | [] => []
  | x :: r => if existsb (mg_gotag_eqb x) r then mg_dedup r else x :: mg_dedup r
  end.

Inductive mg_repr := RPtr | RBin | REnum | REmpty | RUnion.

Definition mg_repr_of (t : ytype) : mg_repr :=
  match mg_dedup (mg_tags t) with
  | [GInt _] | [GDec] | [GStr] | [GBool] => RPtr
  | [GBin] => RBin
  | [GEmpty] => REmpty
  | [GEnum _] => REnum
  | _ => RUnion
  end.

Definition mg_is_empty_leaf (s : schema) : bool :=
  match s with
  | SLeaf t _ => match mg_repr_of t with REmpty => true | _ => false end
  | _ => false
  end.

(* ---------- reflect.DeepEqual on subtrees ---------- *)

Fixpoint mg_tree_eqb (a b : tree) {struct a} : bool :=
  match a, b with
  | TLeaf v, TLeaf w => scalar_eqb v w
  | TLeafList vs, TLeafList ws => list_eqb scalar_eqb vs ws
  | TCont fs, TCont gs =>
      (fix go (x y : list (str * tree)) : bool :=
         match x, y with
         | [], [] => true
         | (n, t) :: x', (m, u) :: y' => str_eqb n m && mg_tree_eqb t u && go x' y'
         | _, _ => false
         end) fs gs
  | TList es, TList fs =>
      (fix go (x y : list (list scalar * tree)) : bool :=
         match x, y with
         | [], [] => true
         | (k, t) :: x', (l, u) :: y' => keys_eqb k l && mg_tree_eqb t u && go x' y'
         | _, _ => false
         end) es fs
  | TUnkeyed es, TUnkeyed fs =>
      (fix go (x y : list tree) : bool :=
         match x, y with
         | [], [] => true
         | t :: x', u :: y' => mg_tree_eqb t u && go x' y'
         | _, _ => false
         end) es fs
  | _, _ => false
  end.

(* ---------- options ---------- *)

Record mg_opts := { mo_overwrite : bool;      (* MergeOverwriteExistingFields *)
                    mo_empty_maps : bool }.   (* MergeEmptyMaps *)
Definition mg_noopts : mg_opts := {| mo_overwrite := false; mo_empty_maps := false |}.

(* ---------- copySliceField / uniqueSlices, generic in the element type ----------
   d = destination slice (None = nil), s = source slice (present, possibly empty),
   app = what is appended for the source elements.
     both empty                       -> destination unchanged (a nil destination stays nil)
     reflect.DeepEqual(src, dst)      -> unchanged
     some member of dst equals some member of src (uniqueSlices) -> error
     otherwise                        -> dst ++ app *)
Definition mg_overlap {A} (eqb : A -> A -> bool) (d s : list A) : bool :=
  existsb (fun x => existsb (eqb x) s) d.

Definition mg_copy_slice {A} (eqb : A -> A -> bool) (d : option (list A)) (s app : list A)
  : result (option (list A)) :=
  let dl := match d with Some l => l | None => [] end in
  if nil_b dl && nil_b s then Ok d
  else if list_eqb eqb s dl then Ok d
  else if mg_overlap eqb dl s then Err
  else Ok (Some (dl ++ app)).

(* ---------- orderedMapKeysMergeable ----------
   si counts the source keys matched, in order, while scanning the destination keys once;
   mg_om_scan returns the source keys left unmatched.  Accepted: si = len(src) or si = 0.
   (si = 0 only says that the FIRST source key does not occur in dst.) *)
Fixpoint mg_om_scan (dst src : list (list scalar)) : list (list scalar) :=
  match dst with
  | [] => src
  | d :: dst' =>
      match src with
      | [] => []
      | s :: src' => if keys_eqb s d then mg_om_scan dst' src' else mg_om_scan dst' src
      end
  end.
Definition mg_om_mergeable (dst src : list (list scalar)) : bool :=
  let rest := mg_om_scan dst src in
  nil_b rest || Nat.eqb (length rest) (length src).

(* replace the entry with key k in place (ordered map: the pointer in valueMap is updated, the
   position in keys is kept) *)
Fixpoint mg_om_replace (k : list scalar) (e : tree) (es : list (list scalar * tree)) : list (list scalar * tree) :=
  match es with
  | [] => []
  | (k', e') :: t => if keys_eqb k k' then (k, e) :: t else (k', e') :: mg_om_replace k e t
  end.

Definition mg_opt_cons {A} (n : str) (o : option A) (r : list (str * A)) : list (str * A) :=
  match o with Some t => (n, t) :: r | None => r end.

Section Merge.
  (* false: the code as it is (copySliceField appends the source pointer `v`);
     true: the proposed fix (appends the fresh copy `d`).  At the tree level the two differ
     because the copy of an entry drops its empty slices and maps. *)
  Variable fixed_slice_copy : bool.
  Variable o : mg_opts.

  (* scalar pointer / enum / union: both set and different is an error unless overwriting *)
  Definition mg_leaf_conflict (dv : option tree) (v : scalar) : bool :=
    match dv with
    | Some (TLeaf d) => negb (mo_overwrite o) && negb (scalar_eqb v d)
    | _ => false
    end.

  Definition mg_copy_leaf (t : ytype) (dv : option tree) (v : scalar) : result (option tree) :=
    match mg_repr_of t with
    | RPtr | REnum => if mg_leaf_conflict dv v then Err else Ok (Some (TLeaf v))
    | REmpty => Ok (Some (TLeaf v))
    | RUnion =>
        if mg_leaf_conflict dv v then Err
        else match v with
             | VBin [] => Ok None        (* the copy holds a nil Binary: reads as unset *)
             | _ => Ok (Some (TLeaf v))
             end
    | RBin =>
        let s := match v with VBin s => s | _ => [] end in
        let d := match dv with Some (TLeaf (VBin d)) => Some d | _ => None end in
        bind (mg_copy_slice N.eqb d s s)
             (fun r => Ok (match r with Some bs => Some (TLeaf (VBin bs)) | None => None end))
    end.

  (* a field that is unset in the source: nothing happens, except for YANGEmpty (default arm of
     copyStruct: dstField.Set(srcField) with src = false) *)
  Definition mg_unset_src (ss : schema) (dv : option tree) : option tree :=
    if mg_is_empty_leaf ss then None else dv.

  (* The entry loop of copyOrderedMap and copyMapField: the source entry is merged into the
     destination entry with the same key, in place, or into a new struct that is appended
     (ordered map: Get on the live destination, AppendIntoOrderedMap).  copyMapField looks the
     key up in the key set taken before the loop and stores with SetMapIndex; the keys of a Go map
     are pairwise distinct, so this is the same loop, and the position of an entry of an unordered
     list carries no meaning (the checker compares those as sets). *)
  Fixpoint mg_copy_omap (f : list (str * tree) -> list (str * tree) -> result (list (str * tree)))
                        (l acc : list (list scalar * tree)) : result (list (list scalar * tree)) :=
    match l with
    | [] => Ok acc
    | (k, e) :: rest =>
        match tl_find k acc with
        | Some old => bind (f (fields_of old) (fields_of e))
                           (fun r => mg_copy_omap f rest (mg_om_replace k (TCont r) acc))
        | None => bind (f [] (fields_of e))
                       (fun r => mg_copy_omap f rest (acc ++ [(k, TCont r)]))
        end
    end.

  Section Fields.
    (* copyStruct on the struct of a child schema node (the recursive call) *)
    Variable rec : schema -> list (str * tree) -> list (str * tree) -> result (list (str * tree)).

    (* one field: the new value of the destination field *)
    Definition mg_copy_field (ss : schema) (dv : option tree) (sv : option tree) : result (option tree) :=
      match sv with
      | None => Ok (mg_unset_src ss dv)
      | Some sub =>
          match ss, sub with
          | SLeaf t _, TLeaf v => mg_copy_leaf t dv v
          | SLeafList _ _ _, TLeafList vs =>
              (* copySliceField, non-struct elements *)
              bind (mg_copy_slice scalar_eqb (match dv with Some (TLeafList x) => Some x | _ => None end) vs vs)
                   (fun r => Ok (match r with Some x => Some (TLeafList x) | None => None end))
          | SCont _, TCont fs =>
              (* copyPtrField, struct pointer: merge into the existing struct or a new one *)
              bind (rec ss (match dv with Some c => fields_of c | None => [] end) fs)
                   (fun r => Ok (Some (TCont r)))
          | SList false _ _ _ _, TList es =>
              (* copyMapField *)
              let des := match dv with Some (TList x) => x | _ => [] end in
              if nil_b es && nil_b des && negb (mo_empty_maps o) then Ok dv
              else bind (mg_copy_omap (rec ss) es des) (fun r => Ok (Some (TList r)))
          | SList true _ _ _ _, TList es =>
              (* copyOrderedMap *)
              let des := match dv with Some (TList x) => x | _ => [] end in
              if nil_b es && nil_b des && negb (mo_empty_maps o) then Ok dv
              else if negb (mg_om_mergeable (map fst des) (map fst es)) then Err
              else bind (mg_copy_omap (rec ss) es des) (fun r => Ok (Some (TList r)))
          | SUnkeyed _, TUnkeyed es =>
              (* copySliceField, struct-pointer elements: every entry is copied into a new struct d,
                 and then the SOURCE pointer v is appended *)
              bind (mapM (fun e => rec ss [] (fields_of e)) es)
                   (fun cs =>
                      bind (mg_copy_slice mg_tree_eqb (match dv with Some (TUnkeyed x) => Some x | _ => None end) es
                                          (if fixed_slice_copy then map TCont cs else es))
                           (fun r => Ok (match r with Some x => Some (TUnkeyed x) | None => None end)))
          | _, _ => Err    (* value does not fit the field: not produced by the harness *)
          end
      end.

    (* the loop of copyStruct over the struct fields.  Go accumulates errors and goes on; no arm
       can panic, so stopping at the first error gives the same Ok/Err outcome. *)
    Fixpoint mg_copy_fields (l : list (finfo * schema)) (d src : list (str * tree)) : result (list (str * tree)) :=
      match l with
      | [] => Ok []
      | (fi, ss) :: rest =>
          bind (mg_copy_field ss (field_get (f_go fi) d) (field_get (f_go fi) src))
               (fun nv => bind (mg_copy_fields rest d src) (fun r => Ok (mg_opt_cons (f_go fi) nv r)))
      end.
  End Fields.

  (* copyStruct(dst, src) for the struct described by s (SCont / SList / SUnkeyed: its fields) *)
  Fixpoint mg_copy_struct (s : schema) (d src : list (str * tree)) {struct s} : result (list (str * tree)) :=
    match s with
    | SCont sfs | SList _ _ _ _ sfs | SUnkeyed sfs => mg_copy_fields mg_copy_struct sfs d src
    | _ => Ok []
    end.
End Merge.

(* deepCopy(s, keepEmptyMaps): copyStruct into a new struct *)
Definition mg_deep_copy_opts (fixed keep_empty : bool) (S : schema) (t : tree) : result tree :=
  bind (mg_copy_struct fixed {| mo_overwrite := false; mo_empty_maps := keep_empty |} S [] (fields_of t))
       (fun r => Ok (TCont r)).

(* ygot.DeepCopy *)
Definition mg_deep_copy (fixed : bool) (S : schema) (t : tree) : result tree :=
  mg_deep_copy_opts fixed false S t.

(* ygot.MergeStructs(a, b, opts...) *)
Definition mg_merge (fixed : bool) (o : mg_opts) (S : schema) (a b : tree) : result tree :=
  bind (mg_deep_copy_opts fixed (mo_empty_maps o) S a)
       (fun d => bind (mg_copy_struct fixed o S (fields_of d) (fields_of b)) (fun r => Ok (TCont r))).

(* ---------- the code under test ----------
   false = /repo as it is (copySliceField appends the source pointer of a list entry);
   set to true when the fix (append the fresh copy d) is applied to /repo: the correspondence
   checker (Corr/MergeCorr.v) and the headline definitions below follow this switch. *)
Definition mg_fixed_slice_copy : bool := true.

(* the names used in the task description *)
Definition merge := mg_merge mg_fixed_slice_copy.
Definition deep_copy := mg_deep_copy mg_fixed_slice_copy.
