(* MergeJsonProofs.v — proofs for property C31 on the model Tree/Unmarshal.v: the effect of
   IgnoreExtraFields, rejection / skipping of unknown members, the frame and overwrite laws of
   one struct level, merge-by-key of list entries, and preservation of untouched leaves. *)
From Ygot Require Import Tree.Tree Tree.Codec Tree.CodecProofs Tree.TreeOps Tree.Unmarshal Tree.UnmarshalProofs.
From Ygot Require Import Tree.RoundTrip Tree.RoundTripObjProofs Tree.RoundTripProofs Tree.MergeJson.

Definition uo (ign sh : bool) : uopts := {| o_ignore_extra := ign; o_prefer_shadow := sh |}.

(* ====================================================================================== *)
(* 1. IgnoreExtraFields only removes a test                                                *)
(* ====================================================================================== *)

Section Mono.
  Variable env : enum_env.
  Variable fo : float_oracle.
  Variable b : bool.

  Section Level.
    Variable f : nat.
    Hypothesis IH : forall s cur j r,
      unm_node env fo (uo false b) f s cur j = Ok r -> unm_node env fo (uo true b) f s cur j = Ok r.

    Lemma mono_fields sfs jm : forall l acc res,
      unm_fields env fo (uo false b) f sfs jm l acc = Ok res ->
      unm_fields env fo (uo true b) f sfs jm l acc = Ok res.
    Proof.
      induction l as [|[fi ss] rest IHl]; intros acc res H; [exact H|].
      cbn [unm_fields] in *. change (upaths (uo true b) fi) with (upaths (uo false b) fi).
      destruct (jget_field (JObj jm) (upaths (uo false b) fi) None) as [[jv|]| |]; try discriminate;
        cbn [bind] in *; auto.
      destruct (unm_node env fo (uo false b) f ss (field_get (f_go fi) acc) jv) as [nt| |] eqn:E;
        try discriminate.
      rewrite (IH _ _ _ _ E). cbn [bind] in *. destruct nt; auto.
    Qed.

    Lemma mono_struct sfs cur jm r :
      unm_struct env fo (uo false b) f sfs cur jm = Ok r ->
      unm_struct env fo (uo true b) f sfs cur jm = Ok r.
    Proof.
      unfold unm_struct. intros H.
      destruct (unm_fields env fo (uo false b) f sfs jm sfs cur) as [res| |] eqn:E; try discriminate.
      rewrite (mono_fields _ _ _ _ _ E). cbn [bind] in *. simpl in *.
      destruct (forallb _ jm); [exact H | discriminate].
    Qed.

    Lemma mono_elems ordered keys sfs : forall l es r,
      unm_elems env fo (uo false b) f ordered keys sfs l es = Ok r ->
      unm_elems env fo (uo true b) f ordered keys sfs l es = Ok r.
    Proof.
      induction l as [|j rest IHl]; intros es r H; [exact H|].
      destruct j; try discriminate. cbn [unm_elems] in *.
      destruct (unm_struct env fo (uo false b) f sfs [] m) as [nfs| |] eqn:E; try discriminate.
      rewrite (mono_struct _ _ _ _ E). cbn [bind] in *.
      destruct (entry_key sfs keys nfs) as [k| |]; try discriminate. cbn [bind] in *.
      destruct ordered.
      - destruct (tl_find k es); [discriminate | auto].
      - destruct (tl_find k es) as [old|]; auto.
        destruct (unm_struct env fo (uo false b) f sfs (fields_of old) m) as [mfs| |] eqn:E2; try discriminate.
        rewrite (mono_struct _ _ _ _ E2). cbn [bind] in *. auto.
    Qed.

    Lemma mono_uelems sfs : forall l es r,
      unm_uelems env fo (uo false b) f sfs l es = Ok r ->
      unm_uelems env fo (uo true b) f sfs l es = Ok r.
    Proof.
      induction l as [|j rest IHl]; intros es r H; [exact H|].
      destruct j; try discriminate. cbn [unm_uelems] in *.
      destruct (unm_struct env fo (uo false b) f sfs [] m) as [nfs| |] eqn:E; try discriminate.
      rewrite (mono_struct _ _ _ _ E). cbn [bind] in *. auto.
    Qed.
  End Level.

  Lemma mono_node : forall fuel s cur j r,
    unm_node env fo (uo false b) fuel s cur j = Ok r -> unm_node env fo (uo true b) fuel s cur j = Ok r.
  Proof.
    induction fuel as [|f IH]; intros s cur j r H; [discriminate|].
    destruct s as [t d|t mn mx|sfs|ordered keys mn mx sfs|sfs].
    - exact H.
    - exact H.
    - destruct j; try exact H. rewrite unm_cont_eq in *.
      destruct (unm_struct env fo (uo false b) f sfs _ m) as [fs| |] eqn:E; try discriminate.
      now rewrite (mono_struct f IH _ _ _ _ E).
    - destruct j; try exact H. rewrite unm_list_eq in *.
      destruct (unm_elems env fo (uo false b) f ordered keys sfs l _) as [es| |] eqn:E; try discriminate.
      now rewrite (mono_elems f IH _ _ _ _ _ _ E).
    - destruct j; try exact H. rewrite unm_unkeyed_eq in *.
      destruct (unm_uelems env fo (uo false b) f sfs l _) as [es| |] eqn:E; try discriminate.
      now rewrite (mono_uelems f IH _ _ _ _ E).
  Qed.

  Theorem ignore_extra_mono S cur j t :
    unmarshal env fo (uo false b) S cur j = Ok t -> unmarshal env fo (uo true b) S cur j = Ok t.
  Proof.
    unfold unmarshal. intros H.
    destruct (unm_node env fo (uo false b) (jdepth j + 2) S (Some cur) j) as [o| |] eqn:E; try discriminate.
    now rewrite (mono_node _ _ _ _ _ E).
  Qed.
End Mono.

(* ====================================================================================== *)
(* 2. Unknown members                                                                      *)
(* ====================================================================================== *)

(* ---------- the top level of the trie: first elements of the alternatives ---------- *)

Definition firsts (L : list (list str)) : list str :=
  flat_map (fun p => match p with k :: _ => [strip_mod k] | [] => [] end) L.

Lemma trie_add_top p m : exists m',
  trie_add p (TrieNode m) = TrieNode m'
  /\ forall x, al_find x m' <> None -> In x (firsts [p]) \/ al_find x m <> None.
Proof.
  destruct p as [|k [|k2 r2]].
  - exists m. simpl. auto.
  - exists (al_insert (strip_mod k) TrieLeaf m). split; [reflexivity|]. intros x Hx.
    destruct (str_eqb x (strip_mod k)) eqn:E.
    + apply cstr_eqb_eq in E. subst. left. simpl. auto.
    + apply str_eqb_false_neq in E. rewrite al_find_insert_other in Hx by assumption. auto.
  - rewrite trie_add_cons2. cbv zeta. eexists. split; [reflexivity|]. intros x Hx.
    destruct (str_eqb x (strip_mod k)) eqn:E.
    + apply cstr_eqb_eq in E. subst. left. simpl. auto.
    + apply str_eqb_false_neq in E. rewrite al_find_insert_other in Hx by assumption. auto.
Qed.

Lemma trie_fold_top : forall L m, exists m',
  fold_left (fun t p => trie_add p t) L (TrieNode m) = TrieNode m'
  /\ forall x, al_find x m' <> None -> In x (firsts L) \/ al_find x m <> None.
Proof.
  induction L as [|p L IH]; intros m.
  - exists m. simpl. auto.
  - destruct (trie_add_top p m) as (m1 & E1 & H1). destruct (IH m1) as (m' & E' & H').
    exists m'. simpl. rewrite E1. split; auto. intros x Hx.
    destruct (H' x Hx) as [Hin|Hm1].
    + left. unfold firsts in *. simpl. apply in_or_app. now right.
    + destruct (H1 x Hm1) as [Hin|Hm]; auto. left. unfold firsts in *. simpl in *.
      rewrite app_nil_r in Hin. apply in_or_app. now left.
Qed.

Lemma struct_trie_top sfs : exists m,
  struct_trie sfs = TrieNode m
  /\ forall n, al_find (strip_mod n) m <> None -> known_memberb sfs n = true.
Proof.
  unfold struct_trie.
  rewrite (fold_left_flat_map (fun t p => trie_add p t) (fun fs : finfo * schema => f_paths (fst fs) ++ f_spaths (fst fs))).
  destruct (trie_fold_top (flat_map (fun fs : finfo * schema => f_paths (fst fs) ++ f_spaths (fst fs)) sfs) [])
    as (m & E & H).
  exists m. split; auto. intros n Hn. destruct (H _ Hn) as [Hin|Hm]; [|simpl in Hm; congruence].
  unfold firsts in Hin. apply in_flat_map in Hin as (p & Hp & Hin).
  apply in_flat_map in Hp as (fs & Hfs & Hp).
  unfold known_memberb. apply existsb_exists. exists fs. split; auto.
  apply existsb_exists. exists p. split; auto.
  destruct p as [|k r]; [destruct Hin|]. destruct Hin as [E'|[]]. simpl. rewrite E', cstr_eqb_refl. reflexivity.
Qed.

(* without IgnoreExtraFields a member that no path of the struct starts with is an error *)
Theorem unknown_member_rejected env fo b fuel sfs cur jm n v :
  In (n, v) jm -> known_memberb sfs n = false ->
  unm_node env fo (uo false b) fuel (SCont sfs) cur (JObj jm) = Err.
Proof.
  intros Hin Hk. destruct fuel as [|f]; [reflexivity|]. rewrite unm_cont_eq.
  assert (Hs : forall c, unm_struct env fo (uo false b) f sfs c jm <> Panic -> unm_struct env fo (uo false b) f sfs c jm = Err).
  { intros c Hnp. unfold unm_struct in *.
    destruct (unm_fields env fo (uo false b) f sfs jm sfs c) as [res| |]; auto; [|now elim Hnp].
    cbn [bind]. simpl o_ignore_extra. cbv iota.
    destruct (struct_trie_top sfs) as (m & -> & Hm).
    assert (Hc : check_tree (S (jdepth (JObj jm))) jm (TrieNode m) = false).
    { cbn [check_tree]. apply not_true_is_false. intros Hall. rewrite forallb_forall in Hall.
      specialize (Hall _ Hin). cbn [fst snd] in Hall.
      destruct (al_find (strip_mod n) m) eqn:Ef; [|discriminate].
      assert (known_memberb sfs n = true) by (apply Hm; congruence). congruence. }
    now rewrite Hc. }
  pose proof (unm_node_no_panic env fo (uo false b) (S f) (SCont sfs) cur (JObj jm)) as Hnp.
  rewrite unm_cont_eq in Hnp.
  destruct (unm_struct env fo (uo false b) f sfs _ jm) as [fs| |] eqn:E.
  - rewrite Hs in E; [discriminate | congruence].
  - reflexivity.
  - now elim Hnp.
Qed.

Corollary unmarshal_unknown_member_rejected env fo b sfs cur jm n v :
  In (n, v) jm -> known_memberb sfs n = false ->
  unmarshal env fo (uo false b) (SCont sfs) cur (JObj jm) = Err.
Proof.
  intros Hin Hk. unfold unmarshal. now rewrite (unknown_member_rejected env fo b _ sfs _ jm n v Hin Hk).
Qed.

(* ---------- with IgnoreExtraFields the unknown members are not looked at ---------- *)

Lemma jget_field_ext j j' : forall ps out,
  (forall p, In p ps -> jget j' p = jget j p) -> jget_field j' ps out = jget_field j ps out.
Proof.
  induction ps as [|p ps IH]; intros out H; [reflexivity|].
  simpl. rewrite (H p (or_introl eq_refl)).
  assert (IH' : forall o, jget_field j' ps o = jget_field j ps o) by (intros; apply IH; intros; apply H; now right).
  destruct (jget j p); [|apply IH']. destruct out; [destruct (json_eqb j1 j0)|]; auto.
Qed.

Lemma unm_fields_ext env fo opts f sfs jm jm' : forall l acc,
  (forall fi ss, In (fi, ss) l ->
     jget_field (JObj jm') (upaths opts fi) None = jget_field (JObj jm) (upaths opts fi) None) ->
  unm_fields env fo opts f sfs jm' l acc = unm_fields env fo opts f sfs jm l acc.
Proof.
  induction l as [|[fi ss] rest IH]; intros acc H; [reflexivity|].
  cbn [unm_fields]. rewrite (H fi ss (or_introl eq_refl)).
  assert (IH' : forall a, unm_fields env fo opts f sfs jm' rest a = unm_fields env fo opts f sfs jm rest a).
  { intros a. apply IH. intros fj sj Hin. apply (H fj sj). now right. }
  destruct (jget_field (JObj jm) (upaths opts fi) None) as [[jv|]| |]; cbn [bind]; auto.
  destruct (unm_node env fo opts f ss (field_get (f_go fi) acc) jv) as [[t|]| |]; cbn [bind]; auto.
Qed.

Lemma upaths_alts opts f p : In p (upaths opts f) -> In p (f_paths f ++ f_spaths f).
Proof.
  unfold upaths. destruct (o_prefer_shadow opts && negb (nil_b (f_spaths f))); intros H; apply in_or_app; auto.
Qed.

(* a filter that keeps every member that can start the path does not change the lookup *)
Lemma jget_filter keep jm k rest :
  (forall n v, In (n, v) jm -> str_eqb k (strip_mod n) = true -> keep (n, v) = true) ->
  jget (JObj (filter keep jm)) (k :: rest) = jget (JObj jm) (k :: rest).
Proof.
  intros H. rewrite !jget_jall, !jall_obj. f_equal.
  induction jm as [|[n v] t IH]; [reflexivity|].
  assert (IH' : jcontrib k rest (filter keep t) = jcontrib k rest t).
  { apply IH. intros n' v' Hin. apply H. now right. }
  simpl filter. destruct (keep (n, v)) eqn:Ek.
  - rewrite !jcontrib_cons. now rewrite IH'.
  - rewrite jcontrib_cons. destruct (str_eqb k (strip_mod n)) eqn:E.
    + rewrite (H n v (or_introl eq_refl) E) in Ek. discriminate.
    + exact IH'.
Qed.

Lemma unm_struct_filter env fo b f sfs cur jm keep :
  (forall n v, In (n, v) jm -> known_memberb sfs n = true -> keep (n, v) = true) ->
  unm_struct env fo (uo true b) f sfs cur (filter keep jm) = unm_struct env fo (uo true b) f sfs cur jm.
Proof.
  intros Hkeep. unfold unm_struct. simpl o_ignore_extra. cbv iota.
  rewrite (unm_fields_ext env fo (uo true b) f sfs jm (filter keep jm)); [reflexivity|].
  intros fi ss Hfi. apply jget_field_ext. intros p Hp. apply upaths_alts in Hp.
  destruct p as [|k rest].
  - (* an empty alternative: every member is known, nothing is removed *)
    assert (Hall : forall n v, In (n, v) jm -> keep (n, v) = true).
    { intros n v Hin. apply (Hkeep n v Hin). unfold known_memberb. apply existsb_exists.
      exists (fi, ss). split; auto. apply existsb_exists. exists []. auto. }
    assert (E : filter keep jm = jm).
    { clear - Hall. induction jm as [|[n v] t IH]; [reflexivity|]. simpl.
      rewrite (Hall n v (or_introl eq_refl)). f_equal. apply IH. intros; apply Hall; now right. }
    now rewrite E.
  - apply jget_filter. intros n v Hin Ek. apply (Hkeep n v Hin).
    unfold known_memberb. apply existsb_exists. exists (fi, ss). split; auto.
    apply existsb_exists. exists (k :: rest). split; auto. simpl. rewrite Ek. apply orb_true_r.
Qed.

(* an unknown member is skipped: the result is that of the JSON without it *)
Theorem ignore_extra_skips_member env fo b fuel sfs cur jm n :
  known_memberb sfs n = false ->
  unm_node env fo (uo true b) fuel (SCont sfs) cur (JObj (remove_member n jm))
  = unm_node env fo (uo true b) fuel (SCont sfs) cur (JObj jm).
Proof.
  intros Hk. destruct fuel as [|f]; [reflexivity|]. rewrite !unm_cont_eq. unfold remove_member.
  rewrite unm_struct_filter; [reflexivity|].
  intros n' v Hin Hkn. cbn [fst]. apply negb_true_iff. apply str_eqb_false_neq. intros ->. congruence.
Qed.

(* all unknown top-level members at once; and then the strict decoder agrees at this level *)
Theorem ignore_extra_skips_top env fo b fuel sfs cur jm :
  unm_node env fo (uo true b) fuel (SCont sfs) cur (JObj (strip_unknown_top sfs jm))
  = unm_node env fo (uo true b) fuel (SCont sfs) cur (JObj jm).
Proof.
  destruct fuel as [|f]; [reflexivity|]. rewrite !unm_cont_eq. unfold strip_unknown_top.
  rewrite unm_struct_filter; [reflexivity|]. intros n v _ H. exact H.
Qed.

(* ====================================================================================== *)
(* 3. Enough fuel is enough: the result does not depend on the fuel above the JSON depth   *)
(* ====================================================================================== *)

Lemma jget_field_from j : forall ps out x,
  jget_field j ps out = Ok (Some x) -> out = Some x \/ exists p, In p ps /\ jget j p = Some x.
Proof.
  induction ps as [|p ps IH]; intros out x H; simpl in H.
  - injection H as ->. auto.
  - destruct (jget j p) as [jr|] eqn:Ej.
    + assert (Hstep : jget_field j ps (match jr with JNull => None | _ => Some jr end) = Ok (Some x) ->
                      out = Some x \/ exists p0, In p0 (p :: ps) /\ jget j p0 = Some x).
      { intros H'. apply IH in H' as [H'|(p0 & Hp0 & Hj)].
        - right. exists p. split; [now left|]. destruct jr; try discriminate; now injection H' as <-.
        - right. exists p0. split; [now right | auto]. }
      destruct out as [o|]; auto. destruct (json_eqb o jr); [auto | discriminate].
    + apply IH in H as [H|(p0 & Hp0 & Hj)]; auto. right. exists p0. split; [now right | auto].
Qed.

Lemma jget_depth j p x : p <> [] -> jget j p = Some x -> (jdepth x < jdepth j)%nat.
Proof.
  intros Hp H. rewrite jget_jall in H. apply (jall_depth p j x Hp).
  destruct (jall j p); [discriminate|]. injection H as ->. now left.
Qed.

Lemma wf_field_paths_nonempty opts sfs fi ss p :
  struct_okb sfs = true -> In (fi, ss) sfs -> In p (upaths opts fi) -> p <> [].
Proof.
  intros Hs Hin Hp. destruct (struct_okb_parts sfs Hs) as (_ & Hok & _).
  apply upaths_alts in Hp. now destruct (field_alts_ok fi p (Hok fi ss Hin) Hp).
Qed.

Section Fuel.
  Variable env : enum_env.
  Variable fo : float_oracle.
  Variable opts : uopts.

  Section Level.
    Variables f1 f2 : nat.
    Hypothesis IH : forall s, wf_schemab s = true -> forall cur j,
      (jdepth j <= f1)%nat -> (jdepth j <= f2)%nat ->
      unm_node env fo opts f1 s cur j = unm_node env fo opts f2 s cur j.

    Lemma fuel_fields sfs jm : forall l acc,
      (forall fi ss, In (fi, ss) l -> wf_schemab ss = true /\ forall p, In p (upaths opts fi) -> p <> []) ->
      (forall jv, (jdepth jv < jdepth (JObj jm))%nat -> (jdepth jv <= f1)%nat /\ (jdepth jv <= f2)%nat) ->
      unm_fields env fo opts f1 sfs jm l acc = unm_fields env fo opts f2 sfs jm l acc.
    Proof.
      induction l as [|[fi ss] rest IHl]; intros acc Hl Hd; [reflexivity|].
      cbn [unm_fields].
      assert (IH' : forall a, unm_fields env fo opts f1 sfs jm rest a = unm_fields env fo opts f2 sfs jm rest a).
      { intros a. apply IHl; auto. intros fj sj Hin. apply (Hl fj sj). now right. }
      destruct (jget_field (JObj jm) (upaths opts fi) None) as [[jv|]| |] eqn:Eg; cbn [bind]; auto.
      destruct (Hl fi ss (or_introl eq_refl)) as [Hw Hne].
      apply jget_field_from in Eg as [Eg|(p & Hp & Hj)]; [discriminate|].
      destruct (Hd jv (jget_depth _ _ _ (Hne p Hp) Hj)) as [D1 D2].
      rewrite (IH ss Hw _ jv D1 D2).
      destruct (unm_node env fo opts f2 ss (field_get (f_go fi) acc) jv) as [[t|]| |]; cbn [bind]; auto.
    Qed.

    Lemma fuel_struct sfs cur jm :
      struct_okb sfs = true -> (forall fi ss, In (fi, ss) sfs -> wf_schemab ss = true) ->
      (forall jv, (jdepth jv < jdepth (JObj jm))%nat -> (jdepth jv <= f1)%nat /\ (jdepth jv <= f2)%nat) ->
      unm_struct env fo opts f1 sfs cur jm = unm_struct env fo opts f2 sfs cur jm.
    Proof.
      intros Hs Hsub Hd. unfold unm_struct. rewrite fuel_fields; auto.
      intros fi ss Hin. split; [eauto|]. intros p Hp. eapply wf_field_paths_nonempty; eauto.
    Qed.
  End Level.

  Lemma jdepth_obj_elem m l : In (JObj m) l -> forall jv, (jdepth jv < jdepth (JObj m))%nat -> (S (jdepth jv) < jdepth (JArr l))%nat.
  Proof. intros Hin jv H. apply jdepth_elem in Hin. lia. Qed.

  Theorem fuel_enough : forall f1 f2 s, wf_schemab s = true -> forall cur j,
    (jdepth j <= f1)%nat -> (jdepth j <= f2)%nat ->
    unm_node env fo opts f1 s cur j = unm_node env fo opts f2 s cur j.
  Proof.
    induction f1 as [|a IH]; intros f2 s Hw cur j D1 D2; [pose proof (jdepth_pos j); lia|].
    destruct f2 as [|b]; [pose proof (jdepth_pos j); lia|].
    destruct (wf_schemab_fields s Hw) as [Hst Hsub].
    destruct s as [t d|t mn mx|sfs|ordered keys mn mx sfs|sfs]; simpl sfields in *.
    - reflexivity.
    - reflexivity.
    - destruct j; try reflexivity. rewrite !unm_cont_eq.
      rewrite (fuel_struct a b (fun s Hs => IH b s Hs)); auto.
      intros jv Hjv. lia.
    - destruct j; try reflexivity. rewrite !unm_list_eq.
      assert (G : forall l' es, (forall x, In x l' -> In x l) ->
                unm_elems env fo opts a ordered keys sfs l' es = unm_elems env fo opts b ordered keys sfs l' es).
      { induction l' as [|x l' IHl]; intros es Hsubl; [reflexivity|].
        assert (IHl' : forall e, unm_elems env fo opts a ordered keys sfs l' e = unm_elems env fo opts b ordered keys sfs l' e).
        { intros e. apply IHl. intros y Hy. apply Hsubl. now right. }
        destruct x; try reflexivity. cbn [unm_elems].
        assert (Hd : forall jv, (jdepth jv < jdepth (JObj m))%nat -> (jdepth jv <= a)%nat /\ (jdepth jv <= b)%nat).
        { intros jv Hjv. pose proof (jdepth_obj_elem m l (Hsubl _ (or_introl eq_refl)) jv Hjv). lia. }
        assert (Es : forall c, unm_struct env fo opts a sfs c m = unm_struct env fo opts b sfs c m).
        { intros c. apply (fuel_struct a b (fun s Hs => IH b s Hs)); auto. }
        rewrite Es. destruct (unm_struct env fo opts b sfs [] m) as [nfs| |]; cbn [bind]; auto.
        destruct (entry_key sfs keys nfs) as [k| |]; cbn [bind]; auto.
        destruct ordered; destruct (tl_find k es) as [old|]; auto.
        rewrite Es. destruct (unm_struct env fo opts b sfs (fields_of old) m); cbn [bind]; auto. }
      rewrite G; auto.
    - destruct j; try reflexivity. rewrite !unm_unkeyed_eq.
      assert (G : forall l' es, (forall x, In x l' -> In x l) ->
                unm_uelems env fo opts a sfs l' es = unm_uelems env fo opts b sfs l' es).
      { induction l' as [|x l' IHl]; intros es Hsubl; [reflexivity|].
        assert (IHl' : forall e, unm_uelems env fo opts a sfs l' e = unm_uelems env fo opts b sfs l' e).
        { intros e. apply IHl. intros y Hy. apply Hsubl. now right. }
        destruct x; try reflexivity. cbn [unm_uelems].
        assert (Hd : forall jv, (jdepth jv < jdepth (JObj m))%nat -> (jdepth jv <= a)%nat /\ (jdepth jv <= b)%nat).
        { intros jv Hjv. pose proof (jdepth_obj_elem m l (Hsubl _ (or_introl eq_refl)) jv Hjv). lia. }
        rewrite (fuel_struct a b (fun s Hs => IH b s Hs)); auto.
        destruct (unm_struct env fo opts b sfs [] m); cbn [bind]; auto. }
      rewrite G; auto.
  Qed.

  (* unmarshal computed with any sufficient fuel *)
  Corollary unmarshal_fuel S cur j fuel : wf_schemab S = true -> (jdepth j <= fuel)%nat ->
    unmarshal env fo opts S cur j
    = bind (unm_node env fo opts fuel S (Some cur) j) (fun o => match o with Some t => Ok t | None => Err end).
  Proof.
    intros Hw Hd. unfold unmarshal. rewrite (fuel_enough (jdepth j + 2) fuel S Hw); auto. lia.
  Qed.
End Fuel.

Lemma jdepth_filter keep jm : (jdepth (JObj (filter keep jm)) <= jdepth (JObj jm))%nat.
Proof.
  simpl. apply le_n_S. induction jm as [|kv t IH]; simpl; [lia|].
  destruct (keep kv); simpl; lia.
Qed.

Theorem unmarshal_skips_member env fo b sfs cur jm n :
  wf_schemab (SCont sfs) = true -> known_memberb sfs n = false ->
  unmarshal env fo (uo true b) (SCont sfs) cur (JObj (remove_member n jm))
  = unmarshal env fo (uo true b) (SCont sfs) cur (JObj jm).
Proof.
  intros Hw Hk.
  rewrite (unmarshal_fuel env fo (uo true b) (SCont sfs) cur (JObj (remove_member n jm)) (jdepth (JObj jm)) Hw)
    by apply jdepth_filter.
  rewrite (unmarshal_fuel env fo (uo true b) (SCont sfs) cur (JObj jm) (jdepth (JObj jm)) Hw) by lia.
  now rewrite ignore_extra_skips_member.
Qed.

Theorem unmarshal_skips_top env fo b sfs cur jm :
  wf_schemab (SCont sfs) = true ->
  unmarshal env fo (uo true b) (SCont sfs) cur (JObj (strip_unknown_top sfs jm))
  = unmarshal env fo (uo true b) (SCont sfs) cur (JObj jm).
Proof.
  intros Hw.
  rewrite (unmarshal_fuel env fo (uo true b) (SCont sfs) cur (JObj (strip_unknown_top sfs jm)) (jdepth (JObj jm)) Hw)
    by apply jdepth_filter.
  rewrite (unmarshal_fuel env fo (uo true b) (SCont sfs) cur (JObj jm) (jdepth (JObj jm)) Hw) by lia.
  now rewrite ignore_extra_skips_top.
Qed.

(* ====================================================================================== *)
(* 4. Field lists: field_set / field_remove / field_get                                    *)
(* ====================================================================================== *)

Lemma subseqb_sound : forall a l, subseqb a l = true -> subseq a l.
Proof.
  intros a l. revert a. induction l as [|y l IH]; intros a H; destruct a as [|x a];
    try (apply ss_nil); simpl in H; try discriminate.
  destruct (str_eqb x y) eqn:E.
  - apply cstr_eqb_eq in E. subst. apply ss_take. auto.
  - apply ss_skip. auto.
Qed.

Lemma subseq_trans {A} (a b c : list A) : subseq a b -> subseq b c -> subseq a c.
Proof.
  intros H1 H2. revert a H1. induction H2; intros a0 H1.
  - apply subseq_nil_r in H1. subst. constructor.
  - inversion H1; subst; constructor; auto.
  - constructor. auto.
Qed.

Lemma subseq_cons_inv {A} (n o : A) a l : subseq (n :: a) (o :: l) -> NoDup (o :: l) ->
  (n = o /\ subseq a l) \/ (n <> o /\ subseq (n :: a) l).
Proof.
  intros H Hd. inversion H; subst; [left; auto|]. right. split; auto.
  intros ->. inversion Hd; subst. apply H3. eapply subseq_In; eauto. now left.
Qed.

Lemma subseq_single {A} (x : A) l : In x l -> subseq [x] l.
Proof. induction l; intros []; subst; constructor; auto. constructor. Qed.

Lemma named_get name fs : field_get name fs = option_map snd (hd_error (named name fs)).
Proof.
  induction fs as [|[n t] r IH]; [reflexivity|]. simpl. destruct (str_eqb n name); simpl; auto.
Qed.

Lemma named_In name fs t : In (name, t) fs <-> In (name, t) (named name fs).
Proof.
  unfold named. rewrite filter_In. simpl. rewrite cstr_eqb_refl. tauto.
Qed.

Lemma named_set_other order name' v : forall fs name, name' <> name ->
  named name (field_set order name' v fs) = named name fs.
Proof.
  intros fs name Hne. assert (E : str_eqb name' name = false) by now apply str_eqb_false_neq.
  revert fs. induction order as [|o order IH]; intros fs; simpl.
  - unfold named. rewrite filter_app. simpl. rewrite E. apply app_nil_r.
  - destruct (str_eqb o name') eqn:Eo.
    + destruct fs as [|[n t] r]; simpl; [now rewrite E|].
      destruct (str_eqb n name') eqn:En; simpl; rewrite E; auto.
      apply cstr_eqb_eq in En. subst n. now rewrite E.
    + destruct fs as [|[n t] r]; simpl; [now rewrite E|].
      destruct (str_eqb n o); simpl; [|apply IH]. now rewrite IH.
Qed.

Lemma named_remove_other name' : forall fs name, name' <> name ->
  named name (field_remove name' fs) = named name fs.
Proof.
  intros fs name Hne. induction fs as [|[n t] r IH]; simpl; auto.
  destruct (str_eqb n name') eqn:En; simpl.
  - apply cstr_eqb_eq in En. subst n.
    assert (E : str_eqb name' name = false) by now apply str_eqb_false_neq. now rewrite E.
  - now rewrite IH.
Qed.

Lemma field_get_set_same name v : forall order fs,
  subseq (map fst fs) order -> In name order -> NoDup order ->
  field_get name (field_set order name v fs) = Some v.
Proof.
  induction order as [|o order IH]; intros fs Hs Hin Hd; [destruct Hin|].
  simpl. destruct (str_eqb o name) eqn:Eo.
  - destruct fs as [|[n t] r]; simpl; [now rewrite cstr_eqb_refl|].
    destruct (str_eqb n name); simpl; now rewrite cstr_eqb_refl.
  - assert (Hin' : In name order).
    { destruct Hin as [->|]; auto. now rewrite cstr_eqb_refl in Eo. }
    inversion Hd; subst.
    destruct fs as [|[n t] r]; simpl; [now rewrite cstr_eqb_refl|].
    simpl in Hs. destruct (subseq_cons_inv _ _ _ _ Hs Hd) as [[-> Hs']|[Hne Hs']].
    + rewrite cstr_eqb_refl. simpl. rewrite Eo. auto.
    + assert (E : str_eqb n o = false) by now apply str_eqb_false_neq. rewrite E. apply IH; auto.
Qed.

Lemma field_set_subseq name v : forall order fs,
  subseq (map fst fs) order -> In name order -> NoDup order ->
  subseq (map fst (field_set order name v fs)) order.
Proof.
  induction order as [|o order IH]; intros fs Hs Hin Hd; [destruct Hin|].
  inversion Hd; subst. simpl. destruct (str_eqb o name) eqn:Eo.
  - apply cstr_eqb_eq in Eo. subst o.
    destruct fs as [|[n t] r]; simpl; [repeat constructor|].
    simpl in Hs. destruct (str_eqb n name) eqn:En.
    + apply cstr_eqb_eq in En. subst n. exact Hs.
    + apply str_eqb_false_neq in En.
      destruct (subseq_cons_inv _ _ _ _ Hs Hd) as [[E _]|[_ Hs']]; [congruence|].
      simpl. constructor. exact Hs'.
  - assert (Hin' : In name order).
    { destruct Hin as [->|]; auto. now rewrite cstr_eqb_refl in Eo. }
    destruct fs as [|[n t] r]; simpl.
    + constructor. now apply subseq_single.
    + simpl in Hs. destruct (subseq_cons_inv _ _ _ _ Hs Hd) as [[-> Hs']|[Hne Hs']].
      * rewrite cstr_eqb_refl. simpl. constructor. apply IH; auto.
      * assert (E : str_eqb n o = false) by now apply str_eqb_false_neq. rewrite E.
        constructor. apply IH; auto.
Qed.

Lemma field_remove_subseq name fs : subseq (map fst (field_remove name fs)) (map fst fs).
Proof.
  induction fs as [|[n t] r IH]; simpl; [constructor|].
  destruct (str_eqb n name); simpl; constructor; auto. apply subseq_refl.
Qed.

Lemma field_get_remove_same name fs : NoDup (map fst fs) -> field_get name (field_remove name fs) = None.
Proof.
  induction fs as [|[n t] r IH]; simpl; auto. intros Hd. inversion Hd; subst.
  destruct (str_eqb n name) eqn:E.
  - apply cstr_eqb_eq in E. subst n. now apply field_get_none.
  - simpl. rewrite E. auto.
Qed.

(* ====================================================================================== *)
(* 5. One struct level: frame and overwrite                                                *)
(* ====================================================================================== *)

Section Struct.
  Variable env : enum_env.
  Variable fo : float_oracle.
  Variable opts : uopts.
  Variable f : nat.
  Variable sfs : list (finfo * schema).
  Variable jm : list (str * json).

  Lemma unm_fields_app l1 l2 acc :
    unm_fields env fo opts f sfs jm (l1 ++ l2) acc
    = bind (unm_fields env fo opts f sfs jm l1 acc) (unm_fields env fo opts f sfs jm l2).
  Proof.
    revert acc. induction l1 as [|[fi ss] l1 IH]; intros acc; [reflexivity|].
    simpl app. cbn [unm_fields].
    destruct (jget_field (JObj jm) (upaths opts fi) None) as [[jv|]| |]; cbn [bind]; auto.
    destruct (unm_node env fo opts f ss (field_get (f_go fi) acc) jv) as [[t|]| |]; cbn [bind]; auto.
  Qed.

  (* fields that the JSON does not mention are not touched *)
  Lemma unm_fields_frame name : forall l acc res,
    unm_fields env fo opts f sfs jm l acc = Ok res ->
    (forall fi ss, In (fi, ss) l -> f_go fi = name -> jget_field (JObj jm) (upaths opts fi) None = Ok None) ->
    named name res = named name acc.
  Proof.
    induction l as [|[fi ss] rest IH]; intros acc res H Hun.
    - simpl in H. now injection H as <-.
    - cbn [unm_fields] in H.
      assert (Hun' : forall fj sj, In (fj, sj) rest -> f_go fj = name ->
                 jget_field (JObj jm) (upaths opts fj) None = Ok None).
      { intros fj sj Hin. apply (Hun fj sj). now right. }
      destruct (jget_field (JObj jm) (upaths opts fi) None) as [[jv|]| |] eqn:Eg; try discriminate;
        cbn [bind] in H; [|eauto].
      assert (Hne : f_go fi <> name).
      { intros E. rewrite (Hun fi ss (or_introl eq_refl) E) in Eg. discriminate. }
      destruct (unm_node env fo opts f ss (field_get (f_go fi) acc) jv) as [[t|]| |]; try discriminate;
        cbn [bind] in H.
      + rewrite (IH _ _ H Hun'). now apply named_set_other.
      + rewrite (IH _ _ H Hun'). now apply named_remove_other.
  Qed.

  Hypothesis Hnd : NoDup (go_names sfs).

  Lemma unm_fields_subseq : forall l acc res,
    (forall x, In x l -> In x sfs) -> subseq (map fst acc) (go_names sfs) ->
    unm_fields env fo opts f sfs jm l acc = Ok res -> subseq (map fst res) (go_names sfs).
  Proof.
    induction l as [|[fi ss] rest IH]; intros acc res Hl Hs H.
    - simpl in H. now injection H as <-.
    - cbn [unm_fields] in H.
      assert (Hl' : forall x, In x rest -> In x sfs) by (intros; apply Hl; now right).
      destruct (jget_field (JObj jm) (upaths opts fi) None) as [[jv|]| |]; try discriminate;
        cbn [bind] in H; [|eauto].
      destruct (unm_node env fo opts f ss (field_get (f_go fi) acc) jv) as [[t|]| |]; try discriminate;
        cbn [bind] in H.
      + apply (IH _ _ Hl' ) in H; auto. apply field_set_subseq; auto.
        apply (in_map (fun fs => f_go (fst fs)) _ _ (Hl _ (or_introl eq_refl))).
      + apply (IH _ _ Hl') in H; auto. eapply subseq_trans; [apply field_remove_subseq | exact Hs].
  Qed.

  Lemma go_name_unique fi ss fj sj : In (fi, ss) sfs -> In (fj, sj) sfs -> f_go fi = f_go fj -> (fi, ss) = (fj, sj).
  Proof.
    intros H1 H2 E. clear - Hnd H1 H2 E. induction sfs as [|[f0 s0] r IH]; [destruct H1|].
    unfold go_names in Hnd. simpl in Hnd. inversion Hnd; subst.
    destruct H1 as [H1|H1], H2 as [H2|H2].
    - congruence.
    - injection H1 as -> ->. exfalso. apply H3. rewrite E. apply (in_map (fun fs => f_go (fst fs)) _ _ H2).
    - injection H2 as -> ->. exfalso. apply H3. rewrite <- E. apply (in_map (fun fs => f_go (fst fs)) _ _ H1).
    - apply IH; auto.
  Qed.

  (* the complete description of one struct level: every field is either not mentioned and
     keeps its entries, or mentioned and holds the result of unmarshalling the value found in
     the JSON INTO its previous value *)
  Theorem struct_merge_spec cur res :
    subseq (map fst cur) (go_names sfs) ->
    unm_fields env fo opts f sfs jm sfs cur = Ok res ->
    subseq (map fst res) (go_names sfs)
    /\ forall g sg, In (g, sg) sfs ->
         exists ov, jget_field (JObj jm) (upaths opts g) None = Ok ov
           /\ match ov with
              | None => named (f_go g) res = named (f_go g) cur
              | Some jv => exists nt, unm_node env fo opts f sg (field_get (f_go g) cur) jv = Ok nt
                                      /\ field_get (f_go g) res = nt
              end.
  Proof.
    intros Hs H. split; [eapply unm_fields_subseq; eauto|].
    intros g sg Hin. destruct (in_split _ _ Hin) as (pre & post & E).
    assert (Hpre : forall fi ss, In (fi, ss) pre -> f_go fi <> f_go g).
    { intros fi ss Hi Eq. assert (In (fi, ss) sfs) by (rewrite E; apply in_or_app; now left).
      pose proof (go_name_unique _ _ _ _ H0 Hin Eq) as [= -> ->].
      rewrite E in Hnd. unfold go_names in Hnd. rewrite map_app in Hnd. simpl in Hnd.
      eapply NoDup_app_disj; eauto.
      - apply (in_map (fun fs => f_go (fst fs)) _ _ Hi).
      - now left. }
    assert (Hpost : forall fi ss, In (fi, ss) post -> f_go fi <> f_go g).
    { intros fi ss Hi Eq. assert (In (fi, ss) sfs) by (rewrite E; apply in_or_app; right; now right).
      pose proof (go_name_unique _ _ _ _ H0 Hin Eq) as [= -> ->].
      rewrite E in Hnd. unfold go_names in Hnd. rewrite map_app in Hnd. simpl in Hnd.
      apply NoDup_app_r in Hnd. inversion Hnd; subst. apply H3.
      apply (in_map (fun fs => f_go (fst fs)) _ _ Hi). }
    rewrite E in H at 2. rewrite unm_fields_app in H.
    destruct (unm_fields env fo opts f sfs jm pre cur) as [acc1| |] eqn:E1; try discriminate. cbn [bind] in H.
    assert (F1 : named (f_go g) acc1 = named (f_go g) cur).
    { eapply unm_fields_frame; eauto. intros fi ss Hi Eq. now destruct (Hpre fi ss Hi). }
    assert (S1 : subseq (map fst acc1) (go_names sfs)).
    { eapply (unm_fields_subseq pre); eauto. intros x Hx. rewrite E. apply in_or_app. now left. }
    assert (G1 : field_get (f_go g) acc1 = field_get (f_go g) cur) by now rewrite !named_get, F1.
    cbn [unm_fields] in H.
    destruct (jget_field (JObj jm) (upaths opts g) None) as [ov| |] eqn:Eg; try discriminate.
    exists ov. split; [reflexivity|]. cbn [bind] in H.
    assert (Fpost : forall acc2, unm_fields env fo opts f sfs jm post acc2 = Ok res ->
                      named (f_go g) res = named (f_go g) acc2).
    { intros acc2 H2. eapply unm_fields_frame; eauto. intros fi ss Hi Eq. now destruct (Hpost fi ss Hi). }
    destruct ov as [jv|].
    - rewrite G1 in H.
      destruct (unm_node env fo opts f sg (field_get (f_go g) cur) jv) as [nt| |] eqn:En; try discriminate.
      exists nt. split; [reflexivity|]. cbn [bind] in H.
      destruct nt as [t|].
      + rewrite named_get, (Fpost _ H), <- named_get. apply field_get_set_same; auto.
        apply (in_map (fun fs => f_go (fst fs)) _ _ Hin).
      + rewrite named_get, (Fpost _ H), <- named_get. apply field_get_remove_same.
        eapply subseq_NoDup; eauto.
    - now rewrite (Fpost _ H).
  Qed.
End Struct.

(* ---------- the same at the level of unm_node ---------- *)

Lemma unm_cont_inv env fo opts f sfs cur jm res :
  unm_node env fo opts (S f) (SCont sfs) (Some (TCont cur)) (JObj jm) = Ok (Some (TCont res)) ->
  unm_fields env fo opts f sfs jm sfs cur = Ok res.
Proof.
  rewrite unm_cont_eq. simpl fields_of. unfold unm_struct.
  destruct (unm_fields env fo opts f sfs jm sfs cur) as [r| |]; try discriminate. cbn [bind].
  destruct (o_ignore_extra opts); [|destruct (check_tree _ jm _)]; cbn [bind]; try discriminate;
    intros [= <-]; reflexivity.
Qed.

Lemma jget_field_nonnull j : forall ps out x,
  (forall o, out = Some o -> o <> JNull) -> jget_field j ps out = Ok (Some x) -> x <> JNull.
Proof.
  induction ps as [|p ps IH]; intros out x Ho H; simpl in H.
  - injection H as ->. now apply Ho.
  - assert (Hn : forall jr o, match jr with JNull => None | _ => Some jr end = Some o -> o <> JNull).
    { intros jr o E. destruct jr; try discriminate; injection E as <-; discriminate. }
    destruct (jget j p) as [jr|]; [|eauto].
    destruct out as [o|]; [destruct (json_eqb o jr); [|discriminate]|];
      apply (IH _ x (Hn jr) H).
Qed.

Section NodeLevel.
  Variable env : enum_env.
  Variable fo : float_oracle.
  Variable opts : uopts.

  (* 3a. a field the JSON does not mention keeps its value *)
  Theorem unmentioned_unchanged f sfs cur jm res g sg :
    NoDup (go_names sfs) ->
    unm_node env fo opts (S f) (SCont sfs) (Some (TCont cur)) (JObj jm) = Ok (Some (TCont res)) ->
    In (g, sg) sfs -> jget_field (JObj jm) (upaths opts g) None = Ok None ->
    named (f_go g) res = named (f_go g) cur /\ field_get (f_go g) res = field_get (f_go g) cur.
  Proof.
    intros Hnd H Hin Hg. apply unm_cont_inv in H.
    assert (E : named (f_go g) res = named (f_go g) cur).
    { eapply unm_fields_frame; eauto. intros fi ss Hi Eq.
      now pose proof (go_name_unique sfs Hnd _ _ _ _ Hi Hin Eq) as [= -> ->]. }
    split; auto. now rewrite !named_get, E.
  Qed.

  (* names that are not fields of the struct at all are not touched either *)
  Theorem foreign_name_unchanged f sfs cur jm res name :
    unm_node env fo opts (S f) (SCont sfs) (Some (TCont cur)) (JObj jm) = Ok (Some (TCont res)) ->
    ~ In name (go_names sfs) -> named name res = named name cur.
  Proof.
    intros H Hn. apply unm_cont_inv in H. eapply unm_fields_frame; eauto.
    intros fi ss Hi Eq. exfalso. apply Hn. rewrite <- Eq. apply (in_map (fun fs => f_go (fst fs)) _ _ Hi).
  Qed.

  (* 3b. a mentioned field holds the result of unmarshalling the JSON value into its old value *)
  Theorem mentioned_merged f sfs cur jm res g sg jv :
    NoDup (go_names sfs) -> fields_orderedb sfs cur = true ->
    unm_node env fo opts (S f) (SCont sfs) (Some (TCont cur)) (JObj jm) = Ok (Some (TCont res)) ->
    In (g, sg) sfs -> jget_field (JObj jm) (upaths opts g) None = Ok (Some jv) ->
    exists nt, unm_node env fo opts f sg (field_get (f_go g) cur) jv = Ok nt /\ field_get (f_go g) res = nt.
  Proof.
    intros Hnd Ho H Hin Hg. apply unm_cont_inv in H. apply subseqb_sound in Ho.
    destruct (struct_merge_spec env fo opts f sfs jm Hnd cur res Ho H) as [_ Hall].
    destruct (Hall g sg Hin) as (ov & Eov & Hov). rewrite Hg in Eov. injection Eov as <-. exact Hov.
  Qed.

  Theorem result_ordered f sfs cur jm res :
    NoDup (go_names sfs) -> fields_orderedb sfs cur = true ->
    unm_node env fo opts (S f) (SCont sfs) (Some (TCont cur)) (JObj jm) = Ok (Some (TCont res)) ->
    subseq (map fst res) (go_names sfs).
  Proof.
    intros Hnd Ho H. apply unm_cont_inv in H. apply subseqb_sound in Ho.
    now destruct (struct_merge_spec env fo opts f sfs jm Hnd cur res Ho H).
  Qed.

  (* a mentioned leaf is overwritten with the decoded value *)
  Theorem leaf_overwritten f sfs cur jm res g ty d jv :
    NoDup (go_names sfs) -> fields_orderedb sfs cur = true ->
    unm_node env fo opts (S f) (SCont sfs) (Some (TCont cur)) (JObj jm) = Ok (Some (TCont res)) ->
    In (g, SLeaf ty d) sfs -> jget_field (JObj jm) (upaths opts g) None = Ok (Some jv) ->
    exists v, dec_json env fo ty jv = Ok v /\ field_get (f_go g) res = Some (TLeaf v).
  Proof.
    intros Hnd Ho H Hin Hg.
    destruct (mentioned_merged f sfs cur jm res g _ jv Hnd Ho H Hin Hg) as (nt & Hn & Hr).
    assert (Hnn : jv <> JNull) by (eapply jget_field_nonnull; eauto; discriminate).
    destruct f as [|f']; [discriminate|]. rewrite unm_leaf_eq in Hn by assumption.
    destruct (dec_json env fo ty jv) as [v| |] eqn:Ed; try discriminate. injection Hn as <-. eauto.
  Qed.

  (* a mentioned leaf-list is replaced wholesale by the decoded list (removed if that is empty),
     whatever it held before *)
  Theorem leaflist_replaced f sfs cur jm res g ty mn mx jv :
    NoDup (go_names sfs) -> fields_orderedb sfs cur = true ->
    unm_node env fo opts (S f) (SCont sfs) (Some (TCont cur)) (JObj jm) = Ok (Some (TCont res)) ->
    In (g, SLeafList ty mn mx) sfs -> jget_field (JObj jm) (upaths opts g) None = Ok (Some jv) ->
    exists l vs, jv = JArr l /\ dec_leaflist env fo ty l = Ok vs
      /\ field_get (f_go g) res = match vs with [] => None | _ => Some (TLeafList vs) end.
  Proof.
    intros Hnd Ho H Hin Hg.
    destruct (mentioned_merged f sfs cur jm res g _ jv Hnd Ho H Hin Hg) as (nt & Hn & Hr).
    assert (Hnn : jv <> JNull) by (eapply jget_field_nonnull; eauto; discriminate).
    destruct f as [|f']; [discriminate|].
    destruct jv as [| | | |l|]; try discriminate; [contradiction|].
    rewrite unm_leaflist_eq in Hn.
    destruct (dec_leaflist env fo ty l) as [vs| |] eqn:Ed; try discriminate. injection Hn as <-.
    exists l, vs. auto.
  Qed.
End NodeLevel.

(* ====================================================================================== *)
(* 6. Lists                                                                                *)
(* ====================================================================================== *)

Lemma scalar_eqb_refl v : scalar_eqb v v = true.
Proof.
  destruct v; simpl; auto.
  - now rewrite ikind_eqb_refl, Z.eqb_refl.
  - apply cstr_eqb_refl.
  - now destruct b.
  - apply N.eqb_refl.
  - induction bs as [|x bs IH]; simpl; auto. now rewrite N.eqb_refl.
  - now rewrite cstr_eqb_refl, Z.eqb_refl.
Qed.

Lemma keys_eqb_refl k : keys_eqb k k = true.
Proof. induction k as [|v k IH]; simpl; auto. unfold keys_eqb in *. simpl. now rewrite scalar_eqb_refl. Qed.

Lemma keys_eqb_false k k' : keys_eqb k k' = false <-> k <> k'.
Proof.
  split.
  - intros H ->. now rewrite keys_eqb_refl in H.
  - intros H. destruct (keys_eqb k k') eqn:E; auto. apply keys_eqb_eq in E. contradiction.
Qed.

Lemma tl_find_insert_same k e es : tl_find k (tl_insert k e es) = Some e.
Proof.
  induction es as [|[k' e'] t IH]; simpl.
  - now rewrite keys_eqb_refl.
  - destruct (keys_eqb k k') eqn:E; simpl.
    + now rewrite keys_eqb_refl.
    + destruct (keys_cmp k k'); simpl; rewrite ?keys_eqb_refl, ?E; auto.
Qed.

Lemma tl_find_insert_other k k0 e es : k0 <> k -> tl_find k0 (tl_insert k e es) = tl_find k0 es.
Proof.
  intros Hne. apply keys_eqb_false in Hne.
  induction es as [|[k' e'] t IH]; simpl.
  - now rewrite Hne.
  - destruct (keys_eqb k k') eqn:E; simpl.
    + apply keys_eqb_eq in E. subst k'. now rewrite Hne.
    + destruct (keys_cmp k k'); simpl; rewrite ?Hne; auto; now rewrite IH.
Qed.

Lemma tl_find_app_some k a b : tl_find k a <> None -> tl_find k (a ++ b) <> None.
Proof.
  induction a as [|[k' e'] t IH]; simpl; [congruence|]. destruct (keys_eqb k k'); [discriminate | exact IH].
Qed.

Section Lists.
  Variable env : enum_env.
  Variable fo : float_oracle.
  Variable opts : uopts.
  Variable f : nat.
  Variable keys : list str.
  Variable sfs : list (finfo * schema).

  Let ue := unm_struct env fo opts f sfs.
  Let ko := entry_key sfs keys.

  (* 4a. unmarshalling an array into a Go-map list is merge by key, exactly *)
  Theorem list_merge_iff : forall l es res,
    unm_elems env fo opts f false keys sfs l es = Ok res <-> list_merge ue ko es l res.
  Proof.
    induction l as [|j rest IH]; intros es res.
    - simpl. split; [intros [= <-]; constructor | inversion 1; reflexivity].
    - split.
      + intros H. destruct j; try discriminate. cbn [unm_elems] in H.
        destruct (unm_struct env fo opts f sfs [] m) as [nfs| |] eqn:E1; try discriminate. cbn [bind] in H.
        destruct (entry_key sfs keys nfs) as [k| |] eqn:E2; try discriminate. cbn [bind] in H.
        destruct (tl_find k es) as [old|] eqn:E3.
        * destruct (unm_struct env fo opts f sfs (fields_of old) m) as [mfs| |] eqn:E4; try discriminate.
          cbn [bind] in H. apply IH in H. eapply lm_cons; eauto. unfold ue. now rewrite E3.
        * apply IH in H. eapply lm_cons; eauto. unfold ue. now rewrite E3.
      + intros H. inversion H as [|es0 jm rest0 nfs k mfs res0 H1 H2 H3 H4]; subst.
        unfold ue, ko in *. cbn [unm_elems]. rewrite H1. cbn [bind]. rewrite H2. cbn [bind].
        destruct (tl_find k es) as [old|] eqn:E3; simpl in H3.
        * rewrite H3. cbn [bind]. now apply IH.
        * rewrite H1 in H3. injection H3 as <-. now apply IH.
  Qed.

  Lemma list_merge_app l1 : forall l2 es res,
    list_merge ue ko es (l1 ++ l2) res <-> exists mid, list_merge ue ko es l1 mid /\ list_merge ue ko mid l2 res.
  Proof.
    induction l1 as [|j l1 IH]; intros l2 es res; simpl.
    - split; [intros H; exists es; split; [constructor | exact H]|]. intros (mid & H1 & H2). inversion H1; subst. exact H2.
    - split.
      + intros H. inversion H; subst. apply IH in H7 as (mid & Ha & Hb). exists mid. split; auto.
        eapply lm_cons; eauto.
      + intros (mid & H1 & H2). inversion H1; subst. eapply lm_cons; eauto. apply IH. eauto.
  Qed.

  (* entries whose key is not the key of any element are preserved *)
  Theorem list_merge_frame : forall l es res k,
    list_merge ue ko es l res -> ~ key_mentioned ue ko l k -> tl_find k res = tl_find k es.
  Proof.
    intros l es res k H. induction H as [|es jm rest nfs k0 mfs res H1 H2 H3 H4 IH]; intros Hk; [reflexivity|].
    rewrite IH.
    - apply tl_find_insert_other. intros ->. apply Hk. exists jm, nfs. repeat split; auto. now left.
    - intros (jm' & nfs' & Hin & Ha & Hb). apply Hk. exists jm', nfs'. repeat split; auto. now right.
  Qed.

  (* an entry whose key is the key of exactly one element is that element unmarshalled into the
     previous entry (an existing entry is updated, not replaced; a new key is inserted) *)
  Theorem list_merge_entry l1 jm l2 es res nfs k :
    list_merge ue ko es (l1 ++ JObj jm :: l2) res ->
    ue [] jm = Ok nfs -> ko nfs = Ok k ->
    ~ key_mentioned ue ko l1 k -> ~ key_mentioned ue ko l2 k ->
    exists mfs, ue (entry_fields (tl_find k es)) jm = Ok mfs /\ tl_find k res = Some (TCont mfs).
  Proof.
    intros H Hn Hk H1 H2. apply list_merge_app in H as (mid & Ha & Hb).
    inversion Hb as [|es0 jm0 rest0 nfs0 k0 mfs res0 E1 E2 E3 E4]; subst.
    rewrite Hn in E1. injection E1 as <-. rewrite Hk in E2. injection E2 as <-.
    exists mfs. rewrite <- (list_merge_frame _ _ _ k Ha H1). split; auto.
    rewrite (list_merge_frame _ _ _ k E4 H2). apply tl_find_insert_same.
  Qed.

  (* 4b. ordered-by-user list: an element whose key already exists is an error *)
  Lemma ordered_existing_not_ok jm nfs k :
    ue [] jm = Ok nfs -> ko nfs = Ok k ->
    forall l es, In (JObj jm) l -> tl_find k es <> None ->
      forall res, unm_elems env fo opts f true keys sfs l es <> Ok res.
  Proof.
    intros Hn Hk. induction l as [|j rest IH]; intros es Hin Hf res H; [destruct Hin|].
    destruct j; try discriminate. cbn [unm_elems] in H.
    destruct (unm_struct env fo opts f sfs [] m) as [nfs0| |] eqn:E1; try discriminate. cbn [bind] in H.
    destruct (entry_key sfs keys nfs0) as [k0| |] eqn:E2; try discriminate. cbn [bind] in H.
    destruct (tl_find k0 es) eqn:E3; [discriminate|].
    destruct Hin as [[= ->]|Hin].
    - unfold ue, ko in *. rewrite Hn in E1. injection E1 as <-. rewrite Hk in E2. injection E2 as <-. congruence.
    - apply (IH (es ++ [(k0, TCont nfs0)]) Hin (tl_find_app_some _ _ _ Hf) res H).
  Qed.

  Theorem ordered_existing_key_err mn mx es l jm nfs k :
    In (JObj jm) l -> ue [] jm = Ok nfs -> ko nfs = Ok k -> tl_find k es <> None ->
    unm_node env fo opts (S f) (SList true keys mn mx sfs) (Some (TList es)) (JArr l) = Err.
  Proof.
    intros Hin Hn Hk Hf.
    pose proof (unm_node_no_panic env fo opts (S f) (SList true keys mn mx sfs) (Some (TList es)) (JArr l)) as Hnp.
    rewrite unm_list_eq in *.
    destruct (unm_elems env fo opts f true keys sfs l es) as [res| |] eqn:E; auto.
    - exfalso. eapply ordered_existing_not_ok; eauto.
    - now elim Hnp.
  Qed.

  (* ordered list, new keys only: entries are appended in document order *)
  Lemma ordered_appends : forall l es res,
    unm_elems env fo opts f true keys sfs l es = Ok res ->
    exists new, res = es ++ new /\ length new = length l.
  Proof.
    induction l as [|j rest IH]; intros es res H.
    - simpl in H. injection H as <-. exists []. now rewrite app_nil_r.
    - destruct j; try discriminate. cbn [unm_elems] in H.
      destruct (unm_struct env fo opts f sfs [] m) as [nfs0| |]; try discriminate. cbn [bind] in H.
      destruct (entry_key sfs keys nfs0) as [k0| |]; try discriminate. cbn [bind] in H.
      destruct (tl_find k0 es); [discriminate|].
      apply IH in H as (new & -> & Hl). exists ((k0, TCont nfs0) :: new). rewrite <- app_assoc. simpl. auto.
  Qed.

  (* 4c. unkeyed lists: existing entries stay, one entry per element is appended *)
  Theorem unkeyed_appends : forall l es res,
    unm_uelems env fo opts f sfs l es = Ok res <-> exists new, res = es ++ new /\ appended ue l new.
  Proof.
    induction l as [|j rest IH]; intros es res.
    - simpl. split.
      + intros [= <-]. exists []. rewrite app_nil_r. split; auto. constructor.
      + intros (new & -> & Ha). inversion Ha. now rewrite app_nil_r.
    - split.
      + intros H. destruct j; try discriminate. cbn [unm_uelems] in H.
        destruct (unm_struct env fo opts f sfs [] m) as [nfs| |] eqn:E1; try discriminate. cbn [bind] in H.
        apply IH in H as (new & -> & Ha). exists (TCont nfs :: new). rewrite <- app_assoc. split; auto.
        constructor; auto. exists m, nfs. auto.
      + intros (new & -> & Ha). inversion Ha as [|j0 e l0 new0 (jm & nfs & -> & Hn & ->) Hrest]; subst.
        cbn [unm_uelems]. unfold ue in Hn. rewrite Hn. cbn [bind]. apply IH. exists new0.
        rewrite <- app_assoc. auto.
  Qed.
End Lists.

(* ====================================================================================== *)
(* 7. Ordered trees; untouched leaves survive                                              *)
(* ====================================================================================== *)

Fixpoint otree (s : schema) (t : tree) {struct t} : Prop :=
  match t with
  | TCont fs =>
      subseq (map fst fs) (go_names (sfields s)) /\
      (fix go (l : list (str * tree)) : Prop :=
         match l with
         | [] => True
         | (n, sub) :: r => (forall g sg, In (g, sg) (sfields s) -> f_go g = n -> otree sg sub) /\ go r
         end) fs
  | TList es =>
      (fix go (l : list (list scalar * tree)) : Prop :=
         match l with [] => True | (_, e) :: r => otree s e /\ go r end) es
  | TUnkeyed es =>
      (fix go (l : list tree) : Prop := match l with [] => True | e :: r => otree s e /\ go r end) es
  | _ => True
  end.

Definition ofields (sfs : list (finfo * schema)) (fs : list (str * tree)) : Prop :=
  subseq (map fst fs) (go_names sfs)
  /\ forall n sub, In (n, sub) fs -> forall g sg, In (g, sg) sfs -> f_go g = n -> otree sg sub.

Lemma otree_cont s fs : otree s (TCont fs) <-> ofields (sfields s) fs.
Proof.
  unfold ofields. cbn [otree]. split; intros [H1 H2]; split; auto.
  - induction fs as [|[n0 s0] r IH]; intros n sub []; destruct H2 as [Ha Hb].
    + injection H as -> ->. exact Ha.
    + apply IH; auto. simpl in H1. clear - H1. (* ordering of the tail is irrelevant here *)
      apply subseq_trans with (b := n0 :: map fst r); auto. constructor. apply subseq_refl.
  - clear H1. induction fs as [|[n0 s0] r IH]; [exact I|]. split.
    + apply (H2 n0 s0). now left.
    + apply IH. intros n sub Hin. apply (H2 n sub). now right.
Qed.

Lemma otree_list s es : otree s (TList es) <-> forall k e, In (k, e) es -> otree s e.
Proof.
  cbn [otree]. split.
  - induction es as [|[k0 e0] r IH]; intros H k e []; destruct H as [Ha Hb].
    + now injection H0 as -> ->.
    + eauto.
  - induction es as [|[k0 e0] r IH]; intros H; [exact I|]. split.
    + apply (H k0 e0). now left.
    + apply IH. intros k e Hin. apply (H k e). now right.
Qed.

Lemma otree_unkeyed s es : otree s (TUnkeyed es) <-> forall e, In e es -> otree s e.
Proof.
  cbn [otree]. split.
  - induction es as [|e0 r IH]; intros H e []; destruct H as [Ha Hb]; subst; eauto.
  - induction es as [|e0 r IH]; intros H; [exact I|]. split.
    + apply H. now left.
    + apply IH. intros e Hin. apply H. now right.
Qed.

Lemma ofields_nil sfs : ofields sfs [].
Proof. split; [constructor | intros n sub []]. Qed.

Lemma ofields_of s t : otree s t -> ofields (sfields s) (fields_of t).
Proof. destruct t; simpl; try (intros; apply ofields_nil). apply otree_cont. Qed.

Lemma otreeb_sound : forall t s, wf_schemab s = true -> otreeb s t = true -> otree s t.
Proof.
  induction t using tree_ind2; intros s Hw Hb; try exact I.
  - apply otree_cont. destruct (wf_schemab_fields s Hw) as [Hst Hsub].
    destruct (struct_okb_parts _ Hst) as (Hnd & _).
    cbn [otreeb] in Hb. apply andb_true_iff in Hb as [Ho Hh]. split; [now apply subseqb_sound|].
    clear Ho. induction H as [|[n0 s0] r Hx HP IH]; intros n sub []; apply andb_true_iff in Hh as [Ha Hb].
    + injection H as -> ->. intros g sg Hg <-.
      rewrite (find_go_unique _ _ _ Hnd Hg) in Ha. simpl in Hx. apply Hx; eauto.
    + eauto.
  - apply otree_list. cbn [otreeb] in Hb.
    induction H as [|[k0 e0] r Hx HP IH]; intros k e []; apply andb_true_iff in Hb as [Ha Hb'].
    + injection H as -> ->. simpl in Hx. auto.
    + eauto.
  - apply otree_unkeyed. cbn [otreeb] in Hb.
    induction H as [|e0 r Hx HP IH]; intros e []; apply andb_true_iff in Hb as [Ha Hb']; subst; eauto.
Qed.

Lemma field_get_In name fs t : field_get name fs = Some t -> In (name, t) fs.
Proof.
  induction fs as [|[n x] r IH]; simpl; [discriminate|]. destruct (str_eqb n name) eqn:E.
  - intros [= <-]. apply cstr_eqb_eq in E. subst. now left.
  - auto.
Qed.

Lemma field_set_In name v x : forall order fs, In x (field_set order name v fs) -> x = (name, v) \/ In x fs.
Proof.
  induction order as [|o order IH]; intros fs H; simpl in H.
  - apply in_app_or in H as [H|[<-|[]]]; auto.
  - destruct (str_eqb o name).
    + destruct fs as [|[n t] r]; [destruct H as [<-|[]]; auto|].
      destruct (str_eqb n name); destruct H as [<-|H]; auto. right. now right.
    + destruct fs as [|[n t] r]; [destruct H as [<-|[]]; auto|].
      destruct (str_eqb n o).
      * destruct H as [<-|H]; [right; now left|]. apply IH in H as [H|H]; auto. right. now right.
      * apply IH in H; auto.
Qed.

Lemma field_remove_In name x fs : In x (field_remove name fs) -> In x fs.
Proof.
  induction fs as [|[n t] r IH]; simpl; auto. destruct (str_eqb n name); [now right|].
  intros [<-|H]; [now left | right; auto].
Qed.

Lemma tl_insert_In k e x es : In x (tl_insert k e es) -> x = (k, e) \/ In x es.
Proof.
  induction es as [|[k' e'] t IH]; simpl.
  - intros [<-|[]]; auto.
  - destruct (keys_eqb k k'); [intros [<-|H]; auto; right; now right|].
    destruct (keys_cmp k k'); simpl; intros [<-|H]; auto; try (right; now left);
      try (apply IH in H as [H|H]; auto; right; now right).
Qed.

Lemma tl_find_In k es e : tl_find k es = Some e -> In (k, e) es.
Proof.
  induction es as [|[k' e'] t IH]; simpl; [discriminate|]. destruct (keys_eqb k k') eqn:E.
  - intros [= <-]. apply keys_eqb_eq in E. subst. now left.
  - auto.
Qed.

Lemma tl_find_app_l k a b e : tl_find k a = Some e -> tl_find k (a ++ b) = Some e.
Proof. induction a as [|[k' e'] t IH]; simpl; [discriminate|]. destruct (keys_eqb k k'); auto. Qed.

Lemma unm_struct_inv env fo opts f sfs cur jm res :
  unm_struct env fo opts f sfs cur jm = Ok res -> unm_fields env fo opts f sfs jm sfs cur = Ok res.
Proof.
  unfold unm_struct. destruct (unm_fields env fo opts f sfs jm sfs cur) as [r| |]; try discriminate. cbn [bind].
  destruct (o_ignore_extra opts); [|destruct (check_tree _ jm _)]; try discriminate; intros [= <-]; reflexivity.
Qed.

Definition otree_opt (s : schema) (o : option tree) : Prop :=
  match o with Some t => otree s t | None => True end.

Section Leaves.
  Variable env : enum_env.
  Variable fo : float_oracle.
  Variable opts : uopts.

  Let UT := untouched (unm_struct env fo opts) (upaths opts).
  Let UTF := untouched_fields (unm_struct env fo opts) (upaths opts).

  (* what is proved at each fuel level, for nodes *)
  Definition node_ok (fuel : nat) : Prop :=
    forall s cur j nt, wf_schemab s = true -> otree_opt s cur ->
      unm_node env fo opts fuel s cur j = Ok nt ->
      otree_opt s nt
      /\ forall c p lv, cur = Some c -> leaf_at c p = Some lv -> UT fuel s j p ->
           exists r, nt = Some r /\ leaf_at r p = Some lv.

  Section Level.
    Variable f : nat.
    Hypothesis IH : node_ok f.

    (* one struct *)
    Lemma fields_ok sfs fs jm res :
      struct_okb sfs = true -> (forall fi ss, In (fi, ss) sfs -> wf_schemab ss = true) ->
      ofields sfs fs -> unm_fields env fo opts f sfs jm sfs fs = Ok res ->
      ofields sfs res
      /\ forall p lv, leaf_at (TCont fs) p = Some lv -> UTF f sfs jm p -> leaf_at (TCont res) p = Some lv.
    Proof.
      intros Hst Hsub [Hord Hher] H.
      destruct (struct_okb_parts _ Hst) as (Hnd & _).
      destruct (struct_merge_spec env fo opts f sfs jm Hnd fs res Hord H) as [Hord' Hall].
      split; [split; auto|].
      - (* hereditary ordering of the result *)
        assert (G : forall l acc r, (forall x, In x l -> In x sfs) ->
                  (forall n sub, In (n, sub) acc -> forall g sg, In (g, sg) sfs -> f_go g = n -> otree sg sub) ->
                  unm_fields env fo opts f sfs jm l acc = Ok r ->
                  forall n sub, In (n, sub) r -> forall g sg, In (g, sg) sfs -> f_go g = n -> otree sg sub).
        { induction l as [|[fi ss] rest IHl]; intros acc r Hl Hacc Hr.
          - simpl in Hr. now injection Hr as <-.
          - cbn [unm_fields] in Hr.
            assert (Hl' : forall x, In x rest -> In x sfs) by (intros; apply Hl; now right).
            assert (Hfi : In (fi, ss) sfs) by (apply Hl; now left).
            destruct (jget_field (JObj jm) (upaths opts fi) None) as [[jv|]| |]; try discriminate;
              cbn [bind] in Hr; [|eauto].
            destruct (unm_node env fo opts f ss (field_get (f_go fi) acc) jv) as [nt| |] eqn:En; try discriminate.
            cbn [bind] in Hr.
            assert (Hcur : otree_opt ss (field_get (f_go fi) acc)).
            { destruct (field_get (f_go fi) acc) as [sub|] eqn:Eg; [|exact I]. simpl.
              apply field_get_In in Eg. eapply Hacc; eauto. }
            destruct (IH ss _ jv nt (Hsub fi ss Hfi) Hcur En) as [Hnt _].
            destruct nt as [t|].
            + eapply (IHl _ _ Hl'); [|exact Hr]. intros n sub Hin g sg Hg Hn.
              apply field_set_In in Hin as [[= -> ->]|Hin]; [|eauto].
              pose proof (go_name_unique sfs Hnd _ _ _ _ Hg Hfi Hn) as [= -> ->]. exact Hnt.
            + eapply (IHl _ _ Hl'); [|exact Hr]. intros n sub Hin. apply field_remove_In in Hin. eauto. }
        eapply G; eauto.
      - (* leaves *)
        intros p lv Hleaf Hut. inversion Hut as [f0 sfs0 jm0 n p' Habs|f0 sfs0 jm0 g sg jv p' Hg Hjv Hsubut]; subst.
        + cbn [leaf_at] in *.
          assert (E : named n res = named n fs).
          { eapply unm_fields_frame; eauto. }
          now rewrite named_get, E, <- named_get.
        + cbn [leaf_at] in *.
          destruct (field_get (f_go g) fs) as [sub|] eqn:Eg; [|discriminate].
          destruct (Hall g sg Hg) as (ov & Eov & Hov). rewrite Hjv in Eov. injection Eov as <-.
          destruct Hov as (nt & Hn & Hr). rewrite Eg in Hn.
          assert (Hcur : otree_opt sg (Some sub)).
          { simpl. apply field_get_In in Eg. eapply Hher; eauto. }
          destruct (IH sg _ jv nt (Hsub g sg Hg) Hcur Hn) as [_ Hl].
          destruct (Hl sub p' lv eq_refl Hleaf Hsubut) as (r & -> & Hr').
          now rewrite Hr.
    Qed.

    Lemma struct_ok sfs fs jm res :
      struct_okb sfs = true -> (forall fi ss, In (fi, ss) sfs -> wf_schemab ss = true) ->
      ofields sfs fs -> unm_struct env fo opts f sfs fs jm = Ok res ->
      ofields sfs res
      /\ forall p lv, leaf_at (TCont fs) p = Some lv -> UTF f sfs jm p -> leaf_at (TCont res) p = Some lv.
    Proof. intros Hst Hsub Ho H. apply unm_struct_inv in H. now apply fields_ok. Qed.
  End Level.

  (* keyed Go-map list *)
  Lemma list_ok f keys mn mx sfs :
    node_ok f -> struct_okb sfs = true -> (forall fi ss, In (fi, ss) sfs -> wf_schemab ss = true) ->
    let s := SList false keys mn mx sfs in
    forall es l res, list_merge (unm_struct env fo opts f sfs) (entry_key sfs keys) es l res ->
      (forall k e, In (k, e) es -> otree s e) ->
      (forall k e, In (k, e) res -> otree s e)
      /\ forall k p lv e0, tl_find k es = Some e0 -> leaf_at e0 p = Some lv ->
           (forall jm nfs, In (JObj jm) l -> unm_struct env fo opts f sfs [] jm = Ok nfs ->
                           entry_key sfs keys nfs = Ok k -> UTF f sfs jm p) ->
           exists e, tl_find k res = Some e /\ leaf_at e p = Some lv.
  Proof.
    intros IH Hst Hsub s es l res H.
    induction H as [es|es jm rest nfs k0 mfs res H1 H2 H3 H4 IHm]; intros Hes.
    - split; auto. intros k p lv e0 Hf Hl _. eauto.
    - assert (Hof : ofields sfs (entry_fields (tl_find k0 es))).
      { destruct (tl_find k0 es) as [old|] eqn:Ef; simpl; [|apply ofields_nil].
        apply tl_find_In in Ef. apply (ofields_of s old). eauto. }
      destruct (struct_ok f IH sfs _ jm mfs Hst Hsub Hof H3) as [Hom Hleaf].
      assert (Hes' : forall k e, In (k, e) (tl_insert k0 (TCont mfs) es) -> otree s e).
      { intros k e Hin. apply tl_insert_In in Hin as [[= -> ->]|Hin]; [|eauto]. now apply otree_cont. }
      destruct (IHm Hes') as [Hres Hl]. split; auto.
      intros k p lv e0 Hf Hlv Hut.
      assert (Hut' : forall jm' nfs', In (JObj jm') rest -> unm_struct env fo opts f sfs [] jm' = Ok nfs' ->
                       entry_key sfs keys nfs' = Ok k -> UTF f sfs jm' p).
      { intros jm' nfs' Hin. apply Hut. now right. }
      destruct (list_eqb scalar_eqb k k0) eqn:Ek.
      + apply keys_eqb_eq in Ek. subst k0.
        pose proof (Hut jm nfs (or_introl eq_refl) H1 H2) as Hu.
        assert (He0 : leaf_at (TCont (entry_fields (tl_find k es))) p = Some lv).
        { rewrite Hf. simpl. inversion Hu; subst; destruct e0; simpl in *; try discriminate; exact Hlv. }
        apply (Hl k p lv (TCont mfs)); auto using tl_find_insert_same.
      + apply (Hl k p lv e0); auto. rewrite tl_find_insert_other; auto.
        intros ->. fold (keys_eqb k0 k0) in Ek. now rewrite keys_eqb_refl in Ek.
  Qed.

  Lemma ordered_appends_spec f keys sfs : forall l es res,
    unm_elems env fo opts f true keys sfs l es = Ok res ->
    exists new, res = es ++ new
      /\ forall k e, In (k, e) new -> exists jm nfs, unm_struct env fo opts f sfs [] jm = Ok nfs /\ e = TCont nfs.
  Proof.
    induction l as [|j rest IHl]; intros es res H.
    - simpl in H. injection H as <-. exists []. rewrite app_nil_r. split; auto. intros k e [].
    - destruct j; try discriminate. cbn [unm_elems] in H.
      destruct (unm_struct env fo opts f sfs [] m) as [nfs0| |] eqn:E1; try discriminate. cbn [bind] in H.
      destruct (entry_key sfs keys nfs0) as [k0| |]; try discriminate. cbn [bind] in H.
      destruct (tl_find k0 es); [discriminate|].
      apply IHl in H as (new & -> & Hn). exists ((k0, TCont nfs0) :: new). rewrite <- app_assoc. split; auto.
      intros k e [[= <- <-]|Hin]; eauto.
  Qed.

  Lemma leaf_at_cont_inv c n p lv : leaf_at c (StF n :: p) = Some lv -> exists fs, c = TCont fs.
  Proof. destruct c; simpl; try discriminate. eauto. Qed.

  Theorem node_ok_all : forall fuel, node_ok fuel.
  Proof.
    induction fuel as [|f IH]; intros s cur j nt Hw Hcur H; [discriminate|].
    destruct (wf_schemab_fields s Hw) as [Hst Hsub].
    assert (Hnull : j = JNull -> nt = cur ->
              otree_opt s nt /\ forall c p lv, cur = Some c -> leaf_at c p = Some lv -> UT (S f) s j p ->
                                exists r, nt = Some r /\ leaf_at r p = Some lv).
    { intros -> ->. split; auto. intros c p lv -> Hl _. eauto. }
    destruct s as [t d|t mn mx|sfs|ordered keys mn mx sfs|sfs]; simpl sfields in *.
    - (* leaf *)
      destruct j; try (apply Hnull; [reflexivity | simpl in H; congruence]);
        (simpl in H; destruct (dec_json env fo t _) as [v| |]; try discriminate; injection H as <-;
         split; [exact I|]; intros c p lv _ _ Hu; inversion Hu).
    - (* leaf-list *)
      destruct j; try discriminate; try (apply Hnull; [reflexivity | simpl in H; congruence]).
      rewrite unm_leaflist_eq in H. destruct (dec_leaflist env fo t l) as [vs| |]; try discriminate.
      injection H as <-. split; [destruct vs; exact I|]. intros c p lv _ _ Hu; inversion Hu.
    - (* container *)
      destruct j; try discriminate; try (apply Hnull; [reflexivity | simpl in H; congruence]).
      rewrite unm_cont_eq in H.
      destruct (unm_struct env fo opts f sfs _ m) as [fs'| |] eqn:E; try discriminate. injection H as <-.
      assert (Hof : ofields sfs (match cur with Some c => fields_of c | None => [] end)).
      { destruct cur as [c|]; [apply (ofields_of (SCont sfs) c Hcur) | apply ofields_nil]. }
      destruct (struct_ok f IH sfs _ m fs' Hst Hsub Hof E) as [Ho Hl]. split.
      + unfold otree_opt. apply (proj2 (otree_cont (SCont sfs) fs')). exact Ho.
      + intros c p lv -> Hleaf Hu. exists (TCont fs'). split; auto.
        unfold UT in Hu. inversion Hu as [| f0 sfs0 jm0 p0 Huf | | |]; subst.
        apply Hl; auto. inversion Huf; subst; destruct (leaf_at_cont_inv _ _ _ _ Hleaf) as [fs ->]; exact Hleaf.
    - (* keyed list *)
      destruct j; try discriminate; try (apply Hnull; [reflexivity | simpl in H; congruence]).
      rewrite unm_list_eq in H.
      set (es0 := match cur with Some (TList es) => es | _ => [] end) in *.
      assert (Hes0 : forall k e, In (k, e) es0 -> otree (SList ordered keys mn mx sfs) e).
      { unfold es0. destruct cur as [[]|]; try (intros k e []). unfold otree_opt in Hcur.
        now apply otree_list. }
      destruct (unm_elems env fo opts f ordered keys sfs l es0) as [res| |] eqn:E; try discriminate.
      injection H as <-.
      destruct ordered.
      + (* ordered by user: appended *)
        destruct (ordered_appends_spec f keys sfs l es0 res E) as (new & -> & Hnew). split.
        * unfold otree_opt. apply otree_list. intros k e Hin. apply in_app_or in Hin as [Hin|Hin]; [eauto|].
          destruct (Hnew k e Hin) as (jm & nfs & Hn & ->). apply otree_cont. simpl sfields.
          now destruct (struct_ok f IH sfs [] jm nfs Hst Hsub (ofields_nil sfs) Hn).
        * intros c p lv -> Hleaf Hu. exists (TList (es0 ++ new)). split; auto.
          unfold UT in Hu. inversion Hu; subst. destruct c; simpl in Hleaf; try discriminate.
          simpl in es0. subst es0. cbn [leaf_at].
          destruct (tl_find k es) as [e|] eqn:Ef; [|discriminate]. now rewrite (tl_find_app_l _ _ new _ Ef).
      + (* Go map: merge by key *)
        apply list_merge_iff in E.
        destruct (list_ok f keys mn mx sfs IH Hst Hsub es0 l res E Hes0) as [Hres Hl]. split.
        * unfold otree_opt. now apply otree_list.
        * intros c p lv -> Hleaf Hu. exists (TList res). split; auto.
          unfold UT in Hu. inversion Hu as [| |f0 keys0 mn0 mx0 sfs0 l0 k p0 Hk| |]; subst.
          destruct c; simpl in Hleaf; try discriminate. simpl in es0. subst es0. cbn [leaf_at].
          destruct (tl_find k es) as [e0|] eqn:Ef; [|discriminate].
          destruct (Hl k p0 lv e0 Ef Hleaf Hk) as (e & -> & He). exact He.
    - (* unkeyed list *)
      destruct j; try discriminate; try (apply Hnull; [reflexivity | simpl in H; congruence]).
      rewrite unm_unkeyed_eq in H.
      set (es0 := match cur with Some (TUnkeyed es) => es | _ => [] end) in *.
      assert (Hes0 : forall e, In e es0 -> otree (SUnkeyed sfs) e).
      { unfold es0. destruct cur as [[]|]; try (intros e []). unfold otree_opt in Hcur. now apply otree_unkeyed. }
      destruct (unm_uelems env fo opts f sfs l es0) as [res| |] eqn:E; try discriminate.
      injection H as <-.
      apply unkeyed_appends in E as (new & -> & Hnew). split.
      + unfold otree_opt. apply otree_unkeyed. intros e Hin. apply in_app_or in Hin as [Hin|Hin]; [eauto|].
        clear Hnull. induction Hnew as [|j e0 l new (jm & nfs & -> & Hn & ->) Hrest IHn]; [destruct Hin|].
        destruct Hin as [<-|Hin]; [|auto]. apply otree_cont. simpl sfields.
        now destruct (struct_ok f IH sfs [] jm nfs Hst Hsub (ofields_nil sfs) Hn).
      + intros c p lv -> Hleaf Hu. exists (TUnkeyed (es0 ++ new)). split; auto.
        unfold UT in Hu. inversion Hu; subst. destruct c; simpl in Hleaf; try discriminate.
        simpl in es0. subst es0. cbn [leaf_at].
        destruct (nth_error es i) as [e|] eqn:En; [|discriminate].
        rewrite nth_error_app1; [now rewrite En|]. apply nth_error_Some. congruence.
  Qed.

  (* 5. every leaf of the existing tree that the document does not touch is a leaf of the result *)
  Theorem untouched_leaves_kept S cur j res p lv :
    wf_schemab S = true -> otree S cur ->
    unmarshal env fo opts S cur j = Ok res ->
    leaf_at cur p = Some lv -> UT (jdepth j + 2) S j p ->
    leaf_at res p = Some lv /\ otree S res.
  Proof.
    intros Hw Ho H Hl Hu. unfold unmarshal in H.
    destruct (unm_node env fo opts (jdepth j + 2) S (Some cur) j) as [nt| |] eqn:E; try discriminate.
    destruct (node_ok_all _ S (Some cur) j nt Hw Ho E) as [Hnt Hleaf].
    destruct (Hleaf cur p lv eq_refl Hl Hu) as (r & -> & Hr). simpl in H. injection H as <-. auto.
  Qed.
End Leaves.

(* ---------- node-level forms of the list theorems ---------- *)

Theorem list_merge_node env fo opts f keys mn mx sfs es l res :
  unm_node env fo opts (S f) (SList false keys mn mx sfs) (Some (TList es)) (JArr l) = Ok (Some (TList res))
  <-> list_merge (unm_struct env fo opts f sfs) (entry_key sfs keys) es l res.
Proof.
  rewrite unm_list_eq. rewrite <- list_merge_iff.
  destruct (unm_elems env fo opts f false keys sfs l es) as [r| |]; simpl; split; intros H; try discriminate;
    congruence.
Qed.

Theorem unkeyed_appends_node env fo opts f sfs es l res :
  unm_node env fo opts (S f) (SUnkeyed sfs) (Some (TUnkeyed es)) (JArr l) = Ok (Some (TUnkeyed res))
  <-> exists new, res = es ++ new /\ appended (unm_struct env fo opts f sfs) l new.
Proof.
  rewrite unm_unkeyed_eq. rewrite <- unkeyed_appends.
  destruct (unm_uelems env fo opts f sfs l es) as [r| |]; simpl; split; intros H; try discriminate; congruence.
Qed.

(* ---------- leaf_at and the enumeration of leaves ---------- *)

Lemma leaf_at_tleaves : forall t p lv, leaf_at t p = Some lv -> In (p, lv) (tleaves t).
Proof.
  induction t using tree_ind2; intros p lv Hl.
  - destruct p as [|[] ?]; simpl in Hl; try discriminate. injection Hl as <-. now left.
  - destruct p as [|[] ?]; simpl in Hl; try discriminate. injection Hl as <-. now left.
  - destruct p as [|[n|k|i] rest]; try (simpl in Hl; discriminate).
    + destruct fs; simpl in Hl; [|discriminate]. injection Hl as <-. now left.
    + cbn [leaf_at] in Hl. destruct (field_get n fs) as [sub|] eqn:Eg; [|discriminate].
      assert (G : In (StF n :: rest, lv)
                ((fix go (l : list (str * tree)) : list (list step * lvalue) :=
                    match l with
                    | [] => []
                    | (n, sub) :: r => map (fun pl => (StF n :: fst pl, snd pl)) (tleaves sub) ++ go r
                    end) fs)).
      { induction H as [|[n0 s0] r Hx HP IH]; [discriminate|]. simpl in Eg.
        apply in_or_app. destruct (str_eqb n0 n) eqn:E.
        * injection Eg as ->. apply cstr_eqb_eq in E. subst n0. left.
          apply in_map_iff. exists (rest, lv). split; [reflexivity|]. apply Hx. exact Hl.
        * right. apply IH. exact Eg. }
      destruct fs as [|f0 fs0]; [discriminate|]. exact G.
  - destruct p as [|[n|k|i] rest]; try (simpl in Hl; discriminate).
    cbn [leaf_at] in Hl. destruct (tl_find k es) as [e|] eqn:Ef; [|discriminate]. cbn [tleaves].
    induction H as [|[k0 e0] r Hx HP IH]; [discriminate|]. simpl in Ef.
    apply in_or_app. destruct (keys_eqb k k0) eqn:E.
    + injection Ef as ->. apply keys_eqb_eq in E. subst k0. left.
      apply in_map_iff. exists (rest, lv). split; [reflexivity|]. apply Hx. exact Hl.
    + right. apply IH. exact Ef.
  - destruct p as [|[n|k|i] rest]; try (simpl in Hl; discriminate).
    cbn [leaf_at] in Hl. destruct (nth_error es i) as [e|] eqn:En; [|discriminate]. cbn [tleaves].
    assert (G : forall l base j, Forall (fun t => forall p lv, leaf_at t p = Some lv -> In (p, lv) (tleaves t)) l ->
              nth_error l j = Some e ->
              In (StI (base + j) :: rest, lv)
                 ((fix go (l : list tree) (i : nat) : list (list step * lvalue) :=
                     match l with
                     | [] => []
                     | e :: r => map (fun pl => (StI i :: fst pl, snd pl)) (tleaves e) ++ go r (S i)
                     end) l base)).
    { induction l as [|x l IHl]; intros base j HF Hn; [destruct j; discriminate|].
      inversion HF; subst. apply in_or_app. destruct j as [|j]; simpl in Hn.
      - injection Hn as ->. left. rewrite Nat.add_0_r. apply in_map_iff. exists (rest, lv). split; auto.
      - right. replace (base + S j)%nat with (S base + j)%nat by lia. apply IHl; auto. }
    apply (G es O i H En).
Qed.

(* ====================================================================================== *)
(* 8. Unknown members at any depth: strip_unknown                                          *)
(* ====================================================================================== *)

Definition strip_members (sfs : list (finfo * schema)) (r : list str) :=
  fix go (l : list (str * json)) : list (str * json) :=
    match l with
    | [] => []
    | (n, v) :: t =>
        match field_at sfs (r ++ [strip_mod n]) with
        | Some ss => (n, strip (MNode ss) v) :: go t
        | None =>
            if is_extb sfs (r ++ [strip_mod n]) then
              match v with
              | JObj _ => (n, strip (MStruct sfs (r ++ [strip_mod n])) v) :: go t
              | _ => go t
              end
            else go t
        end
    end.

Lemma strip_struct_eq sfs r jm : strip (MStruct sfs r) (JObj jm) = JObj (strip_members sfs r jm).
Proof. reflexivity. Qed.

Lemma strip_cont_eq sfs jm : strip (MNode (SCont sfs)) (JObj jm) = JObj (strip_members sfs [] jm).
Proof. reflexivity. Qed.

Lemma strip_list_eq o k mn mx sfs l :
  strip (MNode (SList o k mn mx sfs)) (JArr l) = JArr (map (strip (MStruct sfs [])) l).
Proof. reflexivity. Qed.

Lemma strip_unkeyed_eq sfs l :
  strip (MNode (SUnkeyed sfs)) (JArr l) = JArr (map (strip (MStruct sfs [])) l).
Proof. reflexivity. Qed.

Definition leaf_kind (s : schema) : Prop := match s with SLeaf _ _ | SLeafList _ _ _ => True | _ => False end.

Lemma strip_leaf_id s j : leaf_kind s -> strip (MNode s) j = j.
Proof. destruct s; simpl; try contradiction; intros _; destruct j; reflexivity. Qed.

Lemma strip_struct_nonobj sfs r x : (forall jm, x <> JObj jm) -> strip (MStruct sfs r) x = x.
Proof. destruct x; try reflexivity. intros H. now elim (H m). Qed.

Lemma strip_null_iff m x : strip m x = JNull <-> x = JNull.
Proof.
  destruct x; simpl; try tauto; try (split; discriminate).
  - destruct m as [[]|]; split; discriminate.
  - destruct m as [[]|]; split; discriminate.
Qed.

Lemma In_strip_members sfs r : forall jm n x, In (n, x) (strip_members sfs r jm) ->
  exists v, In (n, v) jm /\
    ((exists ss, field_at sfs (r ++ [strip_mod n]) = Some ss /\ x = strip (MNode ss) v)
     \/ (field_at sfs (r ++ [strip_mod n]) = None /\ is_extb sfs (r ++ [strip_mod n]) = true
         /\ exists jm', v = JObj jm' /\ x = JObj (strip_members sfs (r ++ [strip_mod n]) jm'))).
Proof.
  induction jm as [|[n0 v0] t IH]; intros n x Hin; [destruct Hin|].
  cbn [strip_members] in Hin.
  assert (Ht : forall (Q : json -> Prop), (exists v, In (n, v) t /\ Q v) -> exists v, In (n, v) ((n0, v0) :: t) /\ Q v).
  { intros Q (v & Hv & Hq). exists v. split; [now right | exact Hq]. }
  destruct (field_at sfs (r ++ [strip_mod n0])) as [ss|] eqn:Ef.
  - destruct Hin as [[= <- <-]|Hin]; [|apply Ht; auto]. exists v0. split; [now left|]. left. eauto.
  - destruct (is_extb sfs (r ++ [strip_mod n0])) eqn:Ee; [|apply Ht; auto].
    destruct v0; try (apply Ht; auto; fail). destruct Hin as [[= <- <-]|Hin]; [|apply Ht; auto].
    exists (JObj m). split; [now left|]. right. repeat split; auto. eauto.
Qed.

(* ---------- which paths belong to which field ---------- *)

Section Owner.
  Variable sfs : list (finfo * schema).
  Hypothesis Hst : struct_okb sfs = true.

  Lemma alts_owner_unique fi ss fj sj p :
    In (fi, ss) sfs -> In (fj, sj) sfs -> In p (field_alts fi) -> In p (field_alts fj) -> (fi, ss) = (fj, sj).
  Proof.
    destruct (struct_facts sfs Hst) as (Hnd & Hok & Hdisj & _).
    clear Hst. revert Hnd Hok Hdisj. induction sfs as [|x r IH]; intros Hnd Hok Hdisj H1 H2 P1 P2; [destruct H1|].
    assert (Hno : forall y q, In y r -> In q (alts_of x) -> In q (alts_of y) -> False).
    { intros y q Hy Q1 Q2.
      pose proof (disjoint_later (x :: r) [] x r Hdisj eq_refl y q q Hy Q1 Q2) as Hi. now apply incomp_irrefl in Hi. }
    destruct H1 as [->|H1], H2 as [->|H2]; auto.
    - exfalso. apply (Hno (fj, sj) p H2); auto.
    - exfalso. apply (Hno (fi, ss) p H1); auto.
    - apply IH; auto.
      + unfold go_names in *. simpl in Hnd. now inversion Hnd.
      + intros f s Hin. apply (Hok f s). now right.
      + simpl in Hdisj. now apply andb_true_iff in Hdisj as [_ ?].
  Qed.

  Lemma field_at_In r ss : field_at sfs r = Some ss -> exists fi, In (fi, ss) sfs /\ In r (field_alts fi).
  Proof.
    unfold field_at. destruct (find _ sfs) as [[fi s0]|] eqn:E; [|discriminate]. intros [= <-].
    apply find_some in E as [Hin He]. apply existsb_exists in He as (q & Hq & Eq).
    apply list_eqb_str_eq in Eq. subst q. eauto.
  Qed.

  Lemma list_eqb_str_refl (a : list str) : list_eqb str_eqb a a = true.
  Proof. induction a; simpl; auto. now rewrite cstr_eqb_refl. Qed.

  Lemma field_at_full fi ss p : In (fi, ss) sfs -> In p (field_alts fi) -> field_at sfs p = Some ss.
  Proof.
    intros Hin Hp. unfold field_at.
    destruct (find (fun fs => existsb (list_eqb str_eqb p) (f_paths (fst fs) ++ f_spaths (fst fs))) sfs)
      as [[fj sj]|] eqn:E.
    - apply find_some in E as [Hj He]. apply existsb_exists in He as (q & Hq & Eq).
      apply list_eqb_str_eq in Eq. subst q.
      now pose proof (alts_owner_unique _ _ _ _ _ Hin Hj Hp Hq) as [= -> ->].
    - exfalso. pose proof (find_none _ _ E _ Hin) as Hn. simpl in Hn.
      assert (existsb (list_eqb str_eqb p) (f_paths fi ++ f_spaths fi) = true).
      { apply existsb_exists. exists p. split; auto. apply list_eqb_str_refl. }
      congruence.
  Qed.

  Lemma field_at_prefix_none fi ss r t : In (fi, ss) sfs -> In (r ++ t) (field_alts fi) -> t <> [] ->
    field_at sfs r = None.
  Proof.
    intros Hin Hp Ht. destruct (field_at sfs r) as [s0|] eqn:E; auto. exfalso.
    apply field_at_In in E as (fj & Hj & Hr).
    destruct (struct_facts sfs Hst) as (_ & _ & _ & Hcomp).
    destruct (Hcomp r (r ++ t) (all_alts_In _ _ _ _ Hj Hr) (all_alts_In _ _ _ _ Hin Hp)) as [E|E].
    - rewrite <- (app_nil_r r) in E at 1. apply app_inv_head in E. congruence.
    - now apply incomp_prefix in E.
  Qed.

  Lemma is_extb_prefix fi ss r t : In (fi, ss) sfs -> In (r ++ t) (field_alts fi) -> t <> [] ->
    is_extb sfs r = true.
  Proof.
    intros Hin Hp Ht. unfold is_extb. apply existsb_exists. exists (fi, ss). split; auto.
    apply existsb_exists. exists (r ++ t). split; auto. rewrite is_prefixb_app. simpl.
    apply negb_true_iff. destruct (list_eqb str_eqb r (r ++ t)) eqn:E; auto.
    apply list_eqb_str_eq in E. rewrite <- (app_nil_r r) in E at 1. apply app_inv_head in E. congruence.
  Qed.

  Lemma is_extb_ext r : is_extb sfs r = true -> ext (all_alts sfs) r.
  Proof.
    unfold is_extb. intros H. apply existsb_exists in H as ([fi ss] & Hin & H).
    apply existsb_exists in H as (p & Hp & H). apply andb_true_iff in H as [H1 H2].
    apply is_prefixb_app_inv in H1 as [t ->]. exists (r ++ t), t. repeat split.
    - eapply all_alts_In; eauto.
    - intros ->. rewrite app_nil_r, list_eqb_str_refl in H2. discriminate.
  Qed.
End Owner.

(* ---------- lookups in the stripped object ---------- *)

Lemma jall_nonobj x q : q <> [] -> (forall m, x <> JObj m) -> jall x q = [].
Proof. destruct q; [congruence|]. destruct x; try reflexivity. intros _ H. now elim (H m). Qed.

Lemma jall_strip sfs (Hst : struct_okb sfs = true) fi ss (Hin : In (fi, ss) sfs) :
  forall q r jm, In (r ++ q) (field_alts fi) -> q <> [] ->
    jall (JObj (strip_members sfs r jm)) q = map (strip (MNode ss)) (jall (JObj jm) q).
Proof.
  induction q as [|k q' IH]; intros r jm Hp Hne; [congruence|].
  rewrite !jall_obj.
  induction jm as [|[n v] t IHm]; [reflexivity|].
  rewrite jcontrib_cons, map_app, <- IHm. clear IHm.
  cbn [strip_members].
  destruct (str_eqb k (strip_mod n)) eqn:Ek.
  - apply cstr_eqb_eq in Ek. subst k.
    destruct q' as [|k2 q2].
    + rewrite (field_at_full sfs Hst fi ss _ Hin Hp). rewrite jcontrib_cons, cstr_eqb_refl. reflexivity.
    + assert (Hp' : In ((r ++ [strip_mod n]) ++ k2 :: q2) (field_alts fi)) by now rewrite <- app_assoc.
      rewrite (field_at_prefix_none sfs Hst fi ss _ (k2 :: q2) Hin Hp') by discriminate.
      rewrite (is_extb_prefix sfs fi ss _ (k2 :: q2) Hin Hp') by discriminate.
      destruct v; try (rewrite jall_nonobj by (try discriminate; intros; discriminate); reflexivity).
      rewrite jcontrib_cons, cstr_eqb_refl, strip_struct_eq. f_equal.
      apply IH; auto. discriminate.
  - simpl map.
    destruct (field_at sfs (r ++ [strip_mod n])) as [s0|].
    + rewrite jcontrib_cons, Ek. reflexivity.
    + destruct (is_extb sfs (r ++ [strip_mod n])); [|reflexivity].
      destruct v; try reflexivity. rewrite jcontrib_cons, Ek. reflexivity.
Qed.

Lemma hd_error_map {A B} (g : A -> B) l : hd_error (map g l) = option_map g (hd_error l).
Proof. destruct l; reflexivity. Qed.

Lemma jget_strip sfs (Hst : struct_okb sfs = true) fi ss p jm :
  In (fi, ss) sfs -> In p (field_alts fi) ->
  jget (JObj (strip_members sfs [] jm)) p = option_map (strip (MNode ss)) (jget (JObj jm) p).
Proof.
  intros Hin Hp. rewrite !jget_jall.
  destruct (struct_facts sfs Hst) as (_ & Hok & _).
  destruct (field_alts_ok fi p (Hok fi ss Hin) Hp) as [Hne _].
  rewrite (jall_strip sfs Hst fi ss Hin p [] jm Hp Hne). apply hd_error_map.
Qed.

(* getJSONTreeValForField on the stripped object: the stripped value *)
Definition map_res {A B} (g : A -> B) (r : result (option A)) : result (option B) :=
  match r with Ok o => Ok (option_map g o) | Err => Err | Panic => Panic end.

Lemma jget_field_map_id j j' g : (forall x, g x = x) ->
  forall ps out, (forall p, In p ps -> jget j' p = option_map g (jget j p)) ->
    jget_field j' ps out = jget_field j ps out.
Proof.
  intros Hid ps out H. apply jget_field_ext. intros p Hp. rewrite (H p Hp).
  destruct (jget j p); simpl; [now rewrite Hid | reflexivity].
Qed.

Lemma jget_field_map_single j j' g p : (forall x, g x = JNull <-> x = JNull) ->
  jget j' p = option_map g (jget j p) ->
  jget_field j' [p] None = map_res g (jget_field j [p] None).
Proof.
  intros Hn H. simpl. rewrite H. destruct (jget j p) as [x|]; simpl; [|reflexivity].
  assert (G : forall y, y <> JNull -> match g y with JNull => None | _ => Some (g y) end = Some (g y)).
  { intros y Hy. destruct (g y) eqn:E; try reflexivity. apply (proj1 (Hn y)) in E. contradiction. }
  destruct x; simpl; [rewrite (proj2 (Hn JNull) eq_refl); reflexivity|..]; rewrite G; (reflexivity || discriminate).
Qed.

Lemma ml_fields s : multi_alt_leafb s = true ->
  forall fi ss, In (fi, ss) (sfields s) ->
    (single_altb fi = true \/ leaf_kind ss) /\ multi_alt_leafb ss = true.
Proof.
  assert (G : forall fs,
    (fix go (l : list (finfo * schema)) : bool :=
       match l with
       | [] => true
       | (f, ss) :: r =>
           (single_altb f || match ss with SLeaf _ _ | SLeafList _ _ _ => true | _ => false end)
           && multi_alt_leafb ss && go r
       end) fs = true ->
    forall fi ss, In (fi, ss) fs -> (single_altb fi = true \/ leaf_kind ss) /\ multi_alt_leafb ss = true).
  { induction fs as [|[f0 s0] r IH]; intros H fi ss Hin; [destruct Hin|].
    apply andb_true_iff in H as [H1 H2]. apply andb_true_iff in H1 as [H0' H1].
    destruct Hin as [Hin|Hin].
    - injection Hin as -> ->. split; auto. apply orb_true_iff in H0' as [?|H0']; auto.
      right. destruct ss; simpl; auto; discriminate.
    - eauto. }
  destruct s; simpl; intros H; try (intros ? ? []); eauto.
Qed.

Lemma map_res_id (r : result (option json)) g : (forall x, g x = x) -> map_res g r = r.
Proof. intros H. destruct r as [[x|]| |]; simpl; auto. now rewrite H. Qed.

Section StripLenient.
  Variable env : enum_env.
  Variable fo : float_oracle.
  Variable b : bool.
  Let L := uo true b.

  Lemma upaths_single fi : field_okb fi = true -> single_altb fi = true -> exists p, upaths L fi = [p].
  Proof.
    intros Hok Hs. unfold single_altb in Hs. apply andb_true_iff in Hs as [H1 H2].
    apply Nat.leb_le in H1. apply Nat.leb_le in H2.
    destruct (field_okb_parts fi Hok) as (Hne & _).
    unfold upaths. destruct (o_prefer_shadow L && negb (nil_b (f_spaths fi))) eqn:E.
    - apply andb_true_iff in E as [_ E]. destruct (f_spaths fi) as [|p [|q r]]; simpl in *; try discriminate; eauto; lia.
    - destruct (f_paths fi) as [|p [|q r]]; simpl in *; try congruence; eauto; lia.
  Qed.

  Lemma jget_field_strip sfs jm fi ss :
    struct_okb sfs = true -> In (fi, ss) sfs -> (single_altb fi = true \/ leaf_kind ss) ->
    jget_field (JObj (strip_members sfs [] jm)) (upaths L fi) None
    = map_res (strip (MNode ss)) (jget_field (JObj jm) (upaths L fi) None).
  Proof.
    intros Hst Hin Hml.
    assert (Hg : forall p, In p (upaths L fi) ->
              jget (JObj (strip_members sfs [] jm)) p = option_map (strip (MNode ss)) (jget (JObj jm) p)).
    { intros p Hp. apply upaths_alts in Hp. apply (jget_strip sfs Hst fi ss p jm Hin Hp). }
    destruct Hml as [Hs|Hl].
    - destruct (struct_facts sfs Hst) as (_ & Hok & _).
      destruct (upaths_single fi (Hok fi ss Hin) Hs) as [p Ep]. rewrite Ep in *.
      apply jget_field_map_single; [intros x; apply strip_null_iff | apply Hg; now left].
    - rewrite map_res_id by (intros; now apply strip_leaf_id).
      apply (jget_field_map_id _ _ (strip (MNode ss))); auto. intros; now apply strip_leaf_id.
  Qed.

  Section Level.
    Variable f : nat.
    Hypothesis IH : forall s cur j, wf_schemab s = true -> multi_alt_leafb s = true ->
      unm_node env fo L f s cur (strip (MNode s) j) = unm_node env fo L f s cur j.

    Lemma strip_fields sfs jm :
      struct_okb sfs = true ->
      (forall fi ss, In (fi, ss) sfs ->
         wf_schemab ss = true /\ (single_altb fi = true \/ leaf_kind ss) /\ multi_alt_leafb ss = true) ->
      forall l acc, (forall x, In x l -> In x sfs) ->
        unm_fields env fo L f sfs (strip_members sfs [] jm) l acc = unm_fields env fo L f sfs jm l acc.
    Proof.
      intros Hst Hall. induction l as [|[fi ss] rest IHl]; intros acc Hl; [reflexivity|].
      cbn [unm_fields].
      assert (Hfi : In (fi, ss) sfs) by (apply Hl; now left).
      destruct (Hall fi ss Hfi) as (Hw & Hml & Hm).
      rewrite (jget_field_strip sfs jm fi ss Hst Hfi Hml).
      assert (IHl' : forall a, unm_fields env fo L f sfs (strip_members sfs [] jm) rest a
                             = unm_fields env fo L f sfs jm rest a).
      { intros a. apply IHl. intros x Hx. apply Hl. now right. }
      destruct (jget_field (JObj jm) (upaths L fi) None) as [[jv|]| |]; cbn [map_res option_map bind]; auto.
      rewrite (IH ss _ jv Hw Hm).
      destruct (unm_node env fo L f ss (field_get (f_go fi) acc) jv) as [[t|]| |]; cbn [bind]; auto.
    Qed.

    Lemma strip_struct sfs cur jm :
      struct_okb sfs = true ->
      (forall fi ss, In (fi, ss) sfs ->
         wf_schemab ss = true /\ (single_altb fi = true \/ leaf_kind ss) /\ multi_alt_leafb ss = true) ->
      unm_struct env fo L f sfs cur (strip_members sfs [] jm) = unm_struct env fo L f sfs cur jm.
    Proof.
      intros Hst Hall. unfold unm_struct. rewrite strip_fields; auto.
    Qed.
  End Level.

  Lemma struct_hyps s : wf_schemab s = true -> multi_alt_leafb s = true ->
    struct_okb (sfields s) = true
    /\ forall fi ss, In (fi, ss) (sfields s) ->
         wf_schemab ss = true /\ (single_altb fi = true \/ leaf_kind ss) /\ multi_alt_leafb ss = true.
  Proof.
    intros Hw Hm. destruct (wf_schemab_fields s Hw) as [Hst Hsub]. split; auto.
    intros fi ss Hin. destruct (ml_fields s Hm fi ss Hin). eauto.
  Qed.

  Theorem strip_lenient_node : forall fuel s cur j, wf_schemab s = true -> multi_alt_leafb s = true ->
    unm_node env fo L fuel s cur (strip (MNode s) j) = unm_node env fo L fuel s cur j.
  Proof.
    induction fuel as [|f IH]; intros s cur j Hw Hm; [reflexivity|].
    destruct (struct_hyps s Hw Hm) as [Hst Hall].
    destruct s as [t d|t mn mx|sfs|ordered keys mn mx sfs|sfs]; simpl sfields in *.
    - now rewrite strip_leaf_id.
    - now rewrite strip_leaf_id.
    - destruct j; try reflexivity. rewrite strip_cont_eq, !unm_cont_eq.
      now rewrite (strip_struct f IH sfs _ m Hst Hall).
    - destruct j; try reflexivity. rewrite strip_list_eq, !unm_list_eq. f_equal.
      generalize (match cur with Some (TList es) => es | _ => [] end).
      induction l as [|x l IHl]; intros es; [reflexivity|]. cbn [map].
      destruct x; try (rewrite strip_struct_nonobj by (intros; discriminate); reflexivity).
      rewrite strip_struct_eq. cbn [unm_elems].
      rewrite !(strip_struct f IH sfs _ m Hst Hall).
      destruct (unm_struct env fo L f sfs [] m) as [nfs| |]; cbn [bind]; auto.
      destruct (entry_key sfs keys nfs) as [k| |]; cbn [bind]; auto.
      destruct ordered; destruct (tl_find k es) as [old|]; auto.
      rewrite !(strip_struct f IH sfs _ m Hst Hall).
      destruct (unm_struct env fo L f sfs (fields_of old) m); cbn [bind]; auto.
    - destruct j; try reflexivity. rewrite strip_unkeyed_eq, !unm_unkeyed_eq. f_equal.
      generalize (match cur with Some (TUnkeyed es) => es | _ => [] end).
      induction l as [|x l IHl]; intros es; [reflexivity|]. cbn [map].
      destruct x; try (rewrite strip_struct_nonobj by (intros; discriminate); reflexivity).
      rewrite strip_struct_eq. cbn [unm_uelems].
      rewrite !(strip_struct f IH sfs _ m Hst Hall).
      destruct (unm_struct env fo L f sfs [] m) as [nfs| |]; cbn [bind]; auto.
  Qed.
End StripLenient.

(* ---------- the strict decoder accepts the stripped document ---------- *)

Lemma strip_members_cov sfs (Hst : struct_okb sfs = true) : forall n jm r,
  (jdepth (JObj jm) <= n)%nat -> covp (all_alts sfs) r (strip_members sfs r jm).
Proof.
  induction n as [|n IH]; intros jm r Hd; [simpl in Hd; lia|].
  constructor. intros n0 x Hin.
  apply In_strip_members in Hin as (v & Hv & [(ss & Hf & ->)|(Hf & He & jm' & -> & ->)]).
  - left. apply (field_at_In sfs) in Hf as (fi & Hfi & Hr). eapply all_alts_In; eauto.
  - right. exists (strip_members sfs (r ++ [strip_mod n0]) jm'). split; [reflexivity|].
    split; [now apply is_extb_ext|]. apply IH. apply jdepth_member in Hv. lia.
Qed.

Lemma check_tree_cov_plain A T : tspec T A ->
  forall fuel o r s,
    (jdepth (JObj o) <= fuel)%nat -> covp A r o -> tget T r = Some (TrieNode s) ->
    check_tree fuel o (TrieNode s) = true.
Proof.
  intros [T1 T2]. induction fuel as [|f IH]; intros o r s Hd Hc Hr.
  - simpl in Hd. lia.
  - cbn [check_tree]. apply forallb_forall. intros [n x] Hin. cbn [fst snd].
    pose proof (tget_app T r (strip_mod n)) as Hta. rewrite Hr in Hta.
    destruct (covp_inv _ _ _ _ _ Hc Hin) as [Hl|(sub & -> & (p & t & Hp & -> & Ht) & Hsub)].
    + rewrite <- Hta, (T1 _ Hl). reflexivity.
    + destruct (T2 _ (r ++ [strip_mod n]) t Hp eq_refl) as [s' Hs']; auto.
      { destruct r; discriminate. }
      rewrite <- Hta, Hs'. eapply IH; eauto. apply jdepth_member in Hin. lia.
Qed.

Lemma strip_check sfs jm : struct_okb sfs = true ->
  check_tree (S (jdepth (JObj (strip_members sfs [] jm)))) (strip_members sfs [] jm) (struct_trie sfs) = true.
Proof.
  intros Hst. destruct (struct_facts sfs Hst) as (_ & Hok & _ & Hcomp).
  rewrite struct_trie_eq.
  destruct (trie_fold_spec (all_alts sfs) [] []) as (m & Em & Hspec).
  { split; [intros p []|intros p r t []]. }
  { exact Hcomp. }
  { intros p Hp. unfold all_alts in Hp. apply in_flat_map in Hp as ([fi ss] & Hfi & Hp).
    eapply field_alts_ok; eauto. }
  rewrite Em. simpl app in Hspec.
  apply (check_tree_cov_plain (all_alts sfs) (TrieNode m) Hspec _ _ [] m); auto.
  eapply strip_members_cov; eauto.
Qed.

Section StripStrict.
  Variable env : enum_env.
  Variable fo : float_oracle.
  Variable b : bool.

  Section Level.
    Variable f : nat.
    Hypothesis IH : forall s cur j, wf_schemab s = true ->
      unm_node env fo (uo false b) f s cur (strip (MNode s) j) = unm_node env fo (uo true b) f s cur (strip (MNode s) j).

    Lemma strict_fields sfs jm :
      struct_okb sfs = true -> (forall fi ss, In (fi, ss) sfs -> wf_schemab ss = true) ->
      forall l acc, (forall x, In x l -> In x sfs) ->
        unm_fields env fo (uo false b) f sfs (strip_members sfs [] jm) l acc
        = unm_fields env fo (uo true b) f sfs (strip_members sfs [] jm) l acc.
    Proof.
      intros Hst Hsub. induction l as [|[fi ss] rest IHl]; intros acc Hl; [reflexivity|].
      cbn [unm_fields]. change (upaths (uo true b) fi) with (upaths (uo false b) fi).
      assert (Hfi : In (fi, ss) sfs) by (apply Hl; now left).
      assert (IHl' : forall a, unm_fields env fo (uo false b) f sfs (strip_members sfs [] jm) rest a
                             = unm_fields env fo (uo true b) f sfs (strip_members sfs [] jm) rest a).
      { intros a. apply IHl. intros x Hx. apply Hl. now right. }
      destruct (jget_field (JObj (strip_members sfs [] jm)) (upaths (uo false b) fi) None) as [[jv|]| |] eqn:Eg;
        cbn [bind]; auto.
      apply jget_field_from in Eg as [Eg|(p & Hp & Hj)]; [discriminate|].
      apply upaths_alts in Hp. rewrite (jget_strip sfs Hst fi ss p jm Hfi Hp) in Hj.
      destruct (jget (JObj jm) p) as [v|]; [|discriminate]. injection Hj as <-.
      rewrite (IH ss _ v (Hsub fi ss Hfi)).
      destruct (unm_node env fo (uo true b) f ss (field_get (f_go fi) acc) (strip (MNode ss) v)) as [[t|]| |];
        cbn [bind]; auto.
    Qed.

    Lemma strict_struct sfs cur jm :
      struct_okb sfs = true -> (forall fi ss, In (fi, ss) sfs -> wf_schemab ss = true) ->
      unm_struct env fo (uo false b) f sfs cur (strip_members sfs [] jm)
      = unm_struct env fo (uo true b) f sfs cur (strip_members sfs [] jm).
    Proof.
      intros Hst Hsub. unfold unm_struct. rewrite strict_fields; auto.
      destruct (unm_fields env fo (uo true b) f sfs (strip_members sfs [] jm) sfs cur); auto.
      cbn [bind]. simpl o_ignore_extra. cbv iota. now rewrite strip_check.
    Qed.
  End Level.

  Theorem strip_strict_node : forall fuel s cur j, wf_schemab s = true ->
    unm_node env fo (uo false b) fuel s cur (strip (MNode s) j)
    = unm_node env fo (uo true b) fuel s cur (strip (MNode s) j).
  Proof.
    induction fuel as [|f IH]; intros s cur j Hw; [reflexivity|].
    destruct (wf_schemab_fields s Hw) as [Hst Hsub].
    destruct s as [t d|t mn mx|sfs|ordered keys mn mx sfs|sfs]; simpl sfields in *.
    - reflexivity.
    - reflexivity.
    - destruct j; try reflexivity. rewrite strip_cont_eq, !unm_cont_eq.
      now rewrite (strict_struct f IH sfs _ m Hst Hsub).
    - destruct j; try reflexivity. rewrite strip_list_eq, !unm_list_eq. f_equal.
      generalize (match cur with Some (TList es) => es | _ => [] end).
      induction l as [|x l IHl]; intros es; [reflexivity|]. cbn [map].
      destruct x; try (rewrite strip_struct_nonobj by (intros; discriminate); reflexivity).
      rewrite strip_struct_eq. cbn [unm_elems].
      rewrite !(strict_struct f IH sfs _ m Hst Hsub).
      destruct (unm_struct env fo (uo true b) f sfs [] (strip_members sfs [] m)) as [nfs| |]; cbn [bind]; auto.
      destruct (entry_key sfs keys nfs) as [k| |]; cbn [bind]; auto.
      destruct ordered; destruct (tl_find k es) as [old|]; auto.
      rewrite !(strict_struct f IH sfs _ m Hst Hsub).
      destruct (unm_struct env fo (uo true b) f sfs (fields_of old) (strip_members sfs [] m)); cbn [bind]; auto.
    - destruct j; try reflexivity. rewrite strip_unkeyed_eq, !unm_unkeyed_eq. f_equal.
      generalize (match cur with Some (TUnkeyed es) => es | _ => [] end).
      induction l as [|x l IHl]; intros es; [reflexivity|]. cbn [map].
      destruct x; try (rewrite strip_struct_nonobj by (intros; discriminate); reflexivity).
      rewrite strip_struct_eq. cbn [unm_uelems].
      rewrite !(strict_struct f IH sfs _ m Hst Hsub).
      destruct (unm_struct env fo (uo true b) f sfs [] (strip_members sfs [] m)) as [nfs| |]; cbn [bind]; auto.
  Qed.
End StripStrict.

(* ---------- depth of the stripped document; the statements for unmarshal ---------- *)

Lemma fold_max_le {A} (g h : A -> nat) (l l' : list A) :
  (forall x, In x l' -> exists y, In y l /\ (h x <= g y)%nat) ->
  (fold_right (fun x acc => Nat.max (h x) acc) O l' <= fold_right (fun x acc => Nat.max (g x) acc) O l)%nat.
Proof.
  induction l' as [|x l' IH]; intros H; simpl; [lia|].
  assert (H1 : (h x <= fold_right (fun x acc => Nat.max (g x) acc) O l)%nat).
  { destruct (H x (or_introl eq_refl)) as (y & Hy & Hle). clear - Hy Hle.
    induction l as [|z l IHl]; [destruct Hy|]. simpl. destruct Hy as [->|Hy]; [lia|]. apply IHl in Hy. lia. }
  assert (H2 := IH (fun x0 Hx0 => H x0 (or_intror Hx0))). lia.
Qed.

Lemma jdepth_strip : forall n j m, (jdepth j <= n)%nat -> (jdepth (strip m j) <= jdepth j)%nat.
Proof.
  induction n as [|n IH]; intros j m Hd; [pose proof (jdepth_pos j); lia|].
  destruct j as [| | | |l|jm]; try (simpl; lia).
  - (* array *)
    destruct m as [[]|]; try (simpl; lia).
    + rewrite strip_list_eq. simpl. apply le_n_S.
      apply (fold_max_le jdepth jdepth l). intros x Hx. apply in_map_iff in Hx as (y & <- & Hy).
      exists y. split; auto. apply IH. apply jdepth_elem in Hy. lia.
    + rewrite strip_unkeyed_eq. simpl. apply le_n_S.
      apply (fold_max_le jdepth jdepth l). intros x Hx. apply in_map_iff in Hx as (y & <- & Hy).
      exists y. split; auto. apply IH. apply jdepth_elem in Hy. lia.
  - (* object *)
    assert (G : forall sfs r, (jdepth (JObj (strip_members sfs r jm)) <= jdepth (JObj jm))%nat).
    { intros sfs r. simpl. apply le_n_S.
      apply (fold_max_le (fun kv => jdepth (snd kv)) (fun kv => jdepth (snd kv)) jm).
      intros [n0 x] Hx. apply In_strip_members in Hx as (v & Hv & [(ss & _ & ->)|(_ & _ & jm' & -> & ->)]).
      - exists (n0, v). split; auto. simpl. apply IH. apply jdepth_member in Hv. lia.
      - exists (n0, JObj jm'). split; auto. simpl snd. rewrite <- strip_struct_eq. apply IH.
        apply jdepth_member in Hv. lia. }
    destruct m as [[]|]; try (simpl; lia).
    + rewrite strip_cont_eq. apply G.
    + rewrite strip_struct_eq. apply G.
Qed.

Theorem unmarshal_strip_lenient env fo b S cur j :
  wf_schemab S = true -> multi_alt_leafb S = true ->
  unmarshal env fo (uo true b) S cur (strip_unknown S j) = unmarshal env fo (uo true b) S cur j.
Proof.
  intros Hw Hm. unfold strip_unknown.
  rewrite (unmarshal_fuel env fo (uo true b) S cur (strip (MNode S) j) (jdepth j) Hw)
    by (eapply jdepth_strip; eauto).
  rewrite (unmarshal_fuel env fo (uo true b) S cur j (jdepth j) Hw) by lia.
  now rewrite strip_lenient_node.
Qed.

Theorem unmarshal_strip_strict env fo b S cur j :
  wf_schemab S = true -> multi_alt_leafb S = true ->
  unmarshal env fo (uo false b) S cur (strip_unknown S j) = unmarshal env fo (uo true b) S cur j.
Proof.
  intros Hw Hm. rewrite <- (unmarshal_strip_lenient env fo b S cur j Hw Hm). unfold strip_unknown, unmarshal.
  now rewrite strip_strict_node.
Qed.
