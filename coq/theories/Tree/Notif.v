(* Notif.v — ygot.TogNMINotifications with a PathElem prefix: render.go EncodeTypedValue (+
   github.com/openconfig/gnmi/value FromScalar, leaflistToSlice, sliceToScalarArray),
   gnmiPath.StripPrefix / ToProto, addToNotification, leavesToNotifications,
   diff.go createAtomicNotif.  Definitions only. *)
From Ygot Require Import Tree.Tree Tree.Codec Tree.TreeOps Tree.KeyCodec Tree.Leaves Path.PathRel.

Record notif := {
  n_prefix : dpath;                      (* [] = nil Prefix (ToProto of an empty path is nil) *)
  n_atomic : bool;
  n_updates : list (dpath * tval);
  n_deletes : list dpath
}.

(* EncodeTypedValue on a leaf value, by the Go type that holds it:
   intN -> int_val, uintN -> uint_val, string -> string_val, bool -> bool_val,
   float64 (decimal64) -> double_val, Binary -> bytes_val, YANGEmpty -> bool_val(true),
   enum / identityref -> string_val with the YANG name (no module); unions are transparent *)
Definition encode_tv (env : enum_env) (v : scalar) : result tval :=
  match v with
  | VInt k z => Ok (if ikind_signed k then TVInt z else TVUint z)
  | VStr s => Ok (TVString s)
  | VBool b => Ok (TVBool b)
  | VDec bits => Ok (TVDouble bits)
  | VBin bs => Ok (TVBytes bs)
  | VEmpty => Ok (TVBool true)
  | VEnum ty n =>
      match enum_by_num (enum_table env ty) n with
      | Some e => Ok (TVString (ev_name e))
      | None => Err
      end
  end.

(* a leaf-list is one leaflist_val (possibly with zero elements) *)
Definition encode_lval (env : enum_env) (v : lval) : result tval :=
  match v with
  | LV x => encode_tv env x
  | LVs xs => bind (mapM (encode_tv env) xs) (fun l => Ok (TVLeafList l))
  end.

(* gnmiPath.StripPrefix (PathElem form): indexes g by the positions of pfx without a length
   check (index out of range when g is shorter), elements compared with util.PathElemsEqual *)
Fixpoint strip_prefix (pfx g : dpath) : result dpath :=
  match pfx, g with
  | [], _ => Ok g
  | _ :: _, [] => Panic
  | e :: pfx', x :: g' => if elems_equal x e then strip_prefix pfx' g' else Err
  end.

Section Notif.
  Variable env : enum_env.
  Variable ko : key_oracle.

  (* addToNotification *)
  Definition mk_update (pfx : dpath) (pv : dpath * lval) : result (dpath * tval) :=
    bind (strip_prefix pfx (fst pv)) (fun p =>
    bind (encode_lval env (snd pv)) (fun tv => Ok (p, tv))).

  (* createAtomicNotif *)
  Definition atomic_notif (sub : dpath) (ls : list (dpath * lval)) : result notif :=
    bind (mapM (mk_update sub) ls) (fun us =>
      Ok {| n_prefix := sub; n_atomic := true; n_updates := us; n_deletes := [] |}).

  (* leavesToNotifications: one notification with all plain leaves, then one atomic
     notification per ordered list (Go: in map iteration order) *)
  Definition to_notifs (pfx : dpath) (s : schema) (t : tree) : result (list notif) :=
    bind (find_leaves env ko false false s t pfx) (fun items =>
    bind (mapM (mk_update pfx) (flat_map plain_of items)) (fun us =>
    bind (mapM (fun g => bind (strip_prefix pfx (fst g)) (fun _ => atomic_notif (fst g) (snd g)))
               (flat_map atomic_of items)) (fun ats =>
      let n := {| n_prefix := pfx; n_atomic := false; n_updates := us; n_deletes := [] |} in
      match us, ats with
      | [], [] => Ok [n]
      | [], _ => Ok ats
      | _, _ => Ok (n :: ats)
      end))).
End Notif.
