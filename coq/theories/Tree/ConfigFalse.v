(* ConfigFalse.v — ygot.PruneConfigFalse at tree level (definitions only).

   Transcribed Go: ygot/gostruct.go PruneConfigFalse (the iterator function), util/reflect.go
   ForEachField -> util/walk.go Walk / walkFieldInternal (every struct field is visited once per
   alternative of its `path` tag with the schema util.FirstChild(parent schema, alternative);
   map / slice / ordered-map fields are visited as a whole and then element by element),
   util.IsConfig (= not yang.Entry.ReadOnly()), the annotation ygot.GoCompressedLeafAnnotation
   set by genutil/common.go on the preferred leaf of a compressed config/state pair.

   A field is zeroed when SOME alternative of its path tag leads to a schema node that is
   config false and does not carry the compressed-leaf annotation; zeroed fields are not
   descended into.  The per-alternative facts (config flag, annotation) are not part of Tree.v's
   schema: they come in a side table printed by the harness (vd_prunecf.go) from the embedded
   yang schema, shaped like the struct type: Go field name -> alternatives, side of the children. *)
From Ygot Require Import Tree.Tree Tree.TreeOps.

Inductive cside := CSide (fs : list (str * (list (bool * bool) * cside))).   (* (config, annotated) per alternative *)

Definition alt_keep (a : bool * bool) : bool := fst a || snd a.
Definition side_find (name : str) (c : cside) : option (list (bool * bool) * cside) :=
  match c with CSide l => assoc name l end.

(* c: the side table of the struct type that t (a TCont) or its entries (TList / TUnkeyed) have *)
Fixpoint prune_node (c : cside) (t : tree) {struct t} : tree :=
  match t with
  | TCont fs =>
      TCont (flat_map (fun nt => match side_find (fst nt) c with
                                 | Some (alts, c') =>
                                     if forallb alt_keep alts then [(fst nt, prune_node c' (snd nt))] else []
                                 | None => [nt]      (* "could not find child schema": logged, not visited *)
                                 end) fs)
  | TList es => TList (map (fun ke => (fst ke, prune_node c (snd ke))) es)
  | TUnkeyed es => TUnkeyed (map (prune_node c) es)
  | TLeaf _ | TLeafList _ => t
  end.

(* ygot.PruneConfigFalse(SchemaTree["Device"], root): the root itself is never written *)
Definition prune_config_false (c : cside) (t : tree) : tree := prune_node c t.

(* ---------- the leaf abstraction of the C32 statement ---------- *)

Inductive pstep := PF (name : str) | PK (k : list scalar) | PI (i : nat).

(* one leaf or leaf-list of a tree: where it is, whether every field on the way to it (itself
   included) is kept by the side table, and its value *)
Record vleaf := { vl_path : list pstep; vl_kept : bool; vl_val : tree }.

Definition push (st : pstep) (keep : bool) (l : vleaf) : vleaf :=
  {| vl_path := st :: vl_path l; vl_kept := keep && vl_kept l; vl_val := vl_val l |}.

Fixpoint vd_leaves (c : cside) (t : tree) {struct t} : list vleaf :=
  match t with
  | TLeaf _ | TLeafList _ => [ {| vl_path := []; vl_kept := true; vl_val := t |} ]
  | TCont fs =>
      flat_map (fun nt => match side_find (fst nt) c with
                          | Some (alts, c') => map (push (PF (fst nt)) (forallb alt_keep alts)) (vd_leaves c' (snd nt))
                          | None => map (push (PF (fst nt)) true) (vd_leaves (CSide []) (snd nt))
                          end) fs
  | TList es => flat_map (fun ke => map (push (PK (fst ke)) true) (vd_leaves c (snd ke))) es
  | TUnkeyed es =>
      (fix go (i : nat) (l : list tree) : list vleaf :=
         match l with
         | [] => []
         | e :: r => map (push (PI i) true) (vd_leaves c e) ++ go (S i) r
         end) O es
  end.
