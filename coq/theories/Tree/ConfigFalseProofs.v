(* ConfigFalseProofs.v — PruneConfigFalse (Tree/ConfigFalse.v) on the leaf abstraction:
     prune_spec : vd_leaves c (prune_node c t) = filter vl_kept (vd_leaves c t)
   i.e. the leaves (and leaf-lists) after the call are exactly those all of whose enclosing fields
   are kept by the side table, in the same order, at the same paths, with the same values. *)
From Ygot Require Import Tree.Tree Tree.TreeOps Tree.ValidateProofs Tree.ConfigFalse.

Lemma filter_flat_map {A B} (p : B -> bool) (f : A -> list B) l :
  filter p (flat_map f l) = flat_map (fun x => filter p (f x)) l.
Proof.
  induction l as [|a l IH]; simpl; [reflexivity|].
  rewrite <- IH. generalize (f a) (flat_map f l). intros u v.
  induction u as [|x u IHu]; simpl; [reflexivity|]. destruct (p x); simpl; now rewrite IHu.
Qed.

Lemma flat_map_flat_map {A B C} (f : A -> list B) (g : B -> list C) l :
  flat_map g (flat_map f l) = flat_map (fun x => flat_map g (f x)) l.
Proof. induction l as [|a l IH]; simpl; [reflexivity|]. now rewrite flat_map_app, IH. Qed.

Lemma flat_map_ext_in {A B} (f g : A -> list B) l : (forall x, In x l -> f x = g x) -> flat_map f l = flat_map g l.
Proof.
  induction l as [|a l IH]; intros H; simpl; [reflexivity|].
  rewrite (H a (or_introl eq_refl)), IH; [reflexivity|]. intros x Hx. apply H. now right.
Qed.

Lemma filter_push_true st l : filter vl_kept (map (push st true) l) = map (push st true) (filter vl_kept l).
Proof.
  induction l as [|x l IH]; simpl; [reflexivity|]. destruct (vl_kept x); simpl; now rewrite IH.
Qed.

Lemma filter_push_false st l : filter vl_kept (map (push st false) l) = [].
Proof. induction l as [|x l IH]; simpl; [reflexivity|]. exact IH. Qed.

(* without a side table every field is kept *)
Lemma vd_leaves_nil_kept : forall t, filter vl_kept (vd_leaves (CSide []) t) = vd_leaves (CSide []) t.
Proof.
  induction t as [v|vs|fs IH|es IH|es IH] using tree_ind2; try reflexivity.
  - cbn [vd_leaves]. rewrite filter_flat_map. apply flat_map_ext_in. intros nt Hin.
    rewrite Forall_forall in IH. simpl. rewrite filter_push_true. now rewrite (IH nt Hin).
  - cbn [vd_leaves]. rewrite filter_flat_map. apply flat_map_ext_in. intros ke Hin.
    rewrite Forall_forall in IH. rewrite filter_push_true. now rewrite (IH ke Hin).
  - cbn [vd_leaves]. generalize O. induction es as [|e es IHes]; intros i; [reflexivity|].
    inversion IH as [|? ? He Hes]; subst. rewrite filter_app, filter_push_true, He. now rewrite (IHes Hes).
Qed.

Theorem prune_spec : forall t c, vd_leaves c (prune_node c t) = filter vl_kept (vd_leaves c t).
Proof.
  induction t as [v|vs|fs IH|es IH|es IH] using tree_ind2; intros c; try reflexivity.
  - (* struct *)
    cbn [prune_node vd_leaves]. rewrite filter_flat_map, flat_map_flat_map.
    apply flat_map_ext_in. intros nt Hin. rewrite Forall_forall in IH.
    destruct (side_find (fst nt) c) as [[alts c']|] eqn:Es.
    + destruct (forallb alt_keep alts) eqn:Ek; simpl.
      * rewrite Es, Ek, app_nil_r, filter_push_true. now rewrite (IH nt Hin).
      * now rewrite filter_push_false.
    + simpl. rewrite Es, app_nil_r, filter_push_true. now rewrite vd_leaves_nil_kept.
  - (* keyed list *)
    cbn [prune_node vd_leaves]. rewrite filter_flat_map, flat_map_map.
    apply flat_map_ext_in. intros ke Hin. rewrite Forall_forall in IH. cbn [fst snd].
    rewrite filter_push_true. now rewrite (IH ke Hin).
  - (* unkeyed list *)
    cbn [prune_node vd_leaves]. generalize O. induction es as [|e es IHes]; intros i; [reflexivity|].
    inversion IH as [|? ? He Hes]; subst. cbn [map]. rewrite filter_app, filter_push_true, He. now rewrite (IHes Hes).
Qed.

(* consequences *)
Corollary prune_all_kept c t : forallb vl_kept (vd_leaves c (prune_node c t)) = true.
Proof. rewrite prune_spec. apply forallb_forall. intros x Hx. now apply filter_In in Hx. Qed.

Corollary prune_keeps c t l : In l (vd_leaves c t) -> vl_kept l = true -> In l (vd_leaves c (prune_node c t)).
Proof. intros Hin Hk. rewrite prune_spec. apply filter_In. auto. Qed.

Corollary prune_only_removes c t l : In l (vd_leaves c (prune_node c t)) -> In l (vd_leaves c t) /\ vl_kept l = true.
Proof. rewrite prune_spec. apply filter_In. Qed.

Corollary prune_idempotent_leaves c t :
  vd_leaves c (prune_node c (prune_node c t)) = vd_leaves c (prune_node c t).
Proof.
  rewrite (prune_spec (prune_node c t)). rewrite prune_spec.
  generalize (vd_leaves c t). intros l. induction l as [|x l IH]; simpl; [reflexivity|].
  destruct (vl_kept x) eqn:E; simpl; [rewrite E|]; now rewrite IH.
Qed.

Print Assumptions prune_spec.
