(* Codec.v — RFC 7951 scalar encoding (ygot/render.go: jsonValue scalar arms,
   writeIETFScalarJSON, enumFieldToString, binaryBase64) and decoding (ytypes/leaf.go:
   sanitizeJSON, unmarshalUnion; util_types.go: yangFloatIntToGoType, checkJSONFloat64Range,
   castToEnumValue). *)
From Ygot Require Import Tree.Tree Scalar.Dec Scalar.Base64.

Definition COLON : rune := 58.

(* util.StripModulePrefix: "a:b" -> "b"; anything else (no colon, two or more colons) unchanged *)
Fixpoint split_colon (s : str) (cur : str) : list str :=
  match s with
  | [] => [cur]
  | c :: t => if c =? COLON then cur :: split_colon t [] else split_colon t (cur ++ [c])
  end.
Definition strip_mod (s : str) : str :=
  match split_colon s [] with
  | [_; b] => b
  | _ => s
  end.

Definition mk_float_oracle (fm : list (N * str)) (ps : list (str * N)) : float_oracle :=
  {| ffmt := fun b => match find (fun p => fst p =? b) fm with Some p => snd p | None => [] end;
     fparse := fun s => assoc s ps |}.

(* ---------- encoding ---------- *)

(* enumFieldToString: name, with "module:" for identities when requested *)
Definition enc_enum (env : enum_env) (pmi : bool) (ty : str) (n : Z) : result str :=
  match enum_by_num (enum_table env ty) n with
  | Some e => Ok (if pmi && negb (nil_b (ev_mod e)) then ev_mod e ++ COLON :: ev_name e else ev_name e)
  | None => Err
  end.

Definition enc_scalar (env : enum_env) (fo : float_oracle) (pmi : bool) (v : scalar) : result json :=
  match v with
  | VInt k z => if ikind_is64 k then Ok (JStr (dec_of_Z z)) else Ok (JNum z 0)
  | VStr s => Ok (JStr s)
  | VBool b => Ok (JBool b)
  | VDec bits => Ok (JStr (ffmt fo bits))
  | VBin bs => Ok (JStr (b64enc bs))
  | VEmpty => Ok (JArr [JNull])
  | VEnum ty n => bind (enc_enum env pmi ty n) (fun s => Ok (JStr s))
  end.

(* ---------- decoding ---------- *)

(* value of m * 10^e when it is an integer *)
Definition jnum_int (m e : Z) : option Z :=
  if (0 <=? e)%Z then Some (m * 10 ^ e)%Z
  else let d := (10 ^ (- e))%Z in if (m mod d =? 0)%Z then Some (m / d)%Z else None.
(* int64(f) for range checking: truncation toward zero *)
Definition jnum_trunc (m e : Z) : Z :=
  if (0 <=? e)%Z then (m * 10 ^ e)%Z else Z.quot m (10 ^ (- e))%Z.

(* castToEnumValue: compare names with module prefixes stripped on both sides *)
Fixpoint enum_cast (t : list enumval) (s : str) : option enumval :=
  match t with
  | [] => None
  | e :: r => if str_eqb (strip_mod (ev_name e)) (strip_mod s) then Some e else enum_cast r s
  end.

(* the Go enum types registered for a leaf: every YEnum/YIdref member of its type *)
Fixpoint enum_types (t : ytype) : list str :=
  match t with
  | YEnum ty | YIdref ty => [ty]
  | YUnion ms => flat_map enum_types ms
  | YLeafref t' => enum_types t'
  | _ => []
  end.

(* non-enum member kinds of a union, flattened, leafrefs resolved, deduplicated by kind
   (getUnionKindsNotEnums); the kind is all that unmarshalUnion looks at: restrictions of the
   member types are not consulted when decoding *)
Inductive ukind := KInt (k : ikind) | KDec | KStr | KBin | KBool | KEmpty.
Definition ukind_eqb (a b : ukind) : bool :=
  match a, b with
  | KInt x, KInt y => ikind_eqb x y
  | KDec, KDec | KStr, KStr | KBin, KBin | KBool, KBool | KEmpty, KEmpty => true
  | _, _ => false
  end.
Fixpoint union_kinds (t : ytype) : list ukind :=
  match t with
  | YInt k _ => [KInt k] | YDec _ => [KDec] | YStr _ _ => [KStr] | YBin _ => [KBin]
  | YBool => [KBool] | YEmpty => [KEmpty]
  | YEnum _ | YIdref _ => []
  | YUnion ms => flat_map union_kinds ms
  | YLeafref t' => union_kinds t'
  end.
Fixpoint dedup_kinds (l : list ukind) (seen : list ukind) : list ukind :=
  match l with
  | [] => []
  | k :: t => if existsb (ukind_eqb k) seen then dedup_kinds t seen else k :: dedup_kinds t (k :: seen)
  end.

(* the lexical space of decimal64 (RFC 7950 9.3.1): [+-]? digits ( "." digits )? *)
Definition is_digit (c : rune) : bool := (48 <=? c) && (c <=? 57).
Fixpoint all_digits1 (s : str) : bool :=       (* one or more digits *)
  match s with
  | [] => false
  | [c] => is_digit c
  | c :: t => is_digit c && all_digits1 t
  end.
Fixpoint split_dot (s : str) (cur : str) : list str :=
  match s with
  | [] => [cur]
  | c :: t => if c =? 46 then cur :: split_dot t [] else split_dot t (cur ++ [c])
  end.
Definition dec64_lexb (s : str) : bool :=
  let body := match s with c :: t => if (c =? PLUS) || (c =? MINUS) then t else s | [] => [] end in
  match split_dot body [] with
  | [i] => all_digits1 i
  | [i; f] => all_digits1 i && all_digits1 f
  | _ => false
  end.

(* sanitizeJSON for one non-union, non-enum kind *)
Definition dec_kind (fo : float_oracle) (k : ukind) (j : json) : result scalar :=
  match k, j with
  | KInt ik, JStr s =>
      if ikind_is64 ik then
        match (if ikind_signed ik then parse_int_range (ikind_min ik) (ikind_max ik) s
               else parse_uint_range (ikind_max ik) s) with
        | Some z => Ok (VInt ik z) | None => Err end
      else Err
  | KInt ik, JNum m e =>
      if ikind_is64 ik then Err
      else let t := jnum_trunc m e in
           if (t <? ikind_min ik)%Z || (ikind_max ik <? t)%Z then Err
           else match jnum_int m e with Some z => Ok (VInt ik z) | None => Err end
  | KDec, JStr s => match fparse fo s with
                     | Some b => if dec64_lexb s then Ok (VDec b) else Err
                     | None => Err end
  | KStr, JStr s => Ok (VStr s)
  | KBin, JStr s => match b64dec s with Some bs => Ok (VBin bs) | None => Err end
  | KBool, JBool b => Ok (VBool b)
  | KEmpty, JArr [JNull] => Ok VEmpty
  | _, _ => Err
  end.

Fixpoint dec_first_kind (fo : float_oracle) (ks : list ukind) (j : json) : result scalar :=
  match ks with
  | [] => Err
  | k :: t => match dec_kind fo k j with Ok v => Ok v | _ => dec_first_kind fo t j end
  end.

Fixpoint cast_one_enum (env : enum_env) (tys : list str) (s : str) : option scalar :=
  match tys with
  | [] => None
  | ty :: t => match enum_cast (enum_table env ty) s with
               | Some e => Some (VEnum ty (ev_num e))
               | None => cast_one_enum env t s
               end
  end.

Definition kind_of_type (t : ytype) : option ukind :=
  match t with
  | YInt k _ => Some (KInt k) | YDec _ => Some KDec | YStr _ _ => Some KStr | YBin _ => Some KBin
  | YBool => Some KBool | YEmpty => Some KEmpty | _ => None
  end.

(* unmarshalLeaf on a non-null JSON value.  Leafrefs are resolved to their target type. *)
Fixpoint dec_json (env : enum_env) (fo : float_oracle) (t : ytype) (j : json) : result scalar :=
  match t with
  | YLeafref t' => dec_json env fo t' j
  | YEnum ty | YIdref ty =>
      match j with
      | JStr s => match enum_cast (enum_table env ty) s with
                  | Some e => Ok (VEnum ty (ev_num e)) | None => Err end
      | _ => Err
      end
  | YUnion ms =>
      let ets := enum_types t in
      let ks := dedup_kinds (union_kinds t) [] in
      (* a union whose members all map to one Go type is not an interface: decoded as that kind *)
      match ets, ks with
      | [], [k] => dec_kind fo k j
      | _, _ =>
        match (match j with JStr s => cast_one_enum env ets s | _ => None end) with
        | Some v => Ok v
        | None => dec_first_kind fo ks j
        end
      end
  | _ => match kind_of_type t with Some k => dec_kind fo k j | None => Err end
  end.
