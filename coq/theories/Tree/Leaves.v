(* Leaves.v — the leaves of a GoStruct with their gNMI PathElem paths: ygot/render.go
   findUpdatedLeaves, findUpdatedOrderedListLeaves, ygot/diff.go orderedMapLeaves,
   struct_validation_map.go structTagToLibPaths, render.go mapValuePath /
   appendgNMIPathElemKey / PathKeyFromStruct / keyMapAsStrings (PathElem form only).
   Go collects the leaves in a map (unordered); the model lists them in schema field order,
   list entries in tree order.  Definitions only. *)
From Ygot Require Import Tree.Tree Tree.Codec Tree.TreeOps Tree.KeyCodec.

Definition dpath := list pelem.
Definition mk_elem (n : str) : pelem := {| ename := n; ekeys := [] |}.
Definition path_of_names (l : list str) : dpath := map mk_elem l.

(* a leaf value (LV) or a whole leaf-list (LVs) *)
Inductive lval := LV (v : scalar) | LVs (vs : list scalar).

(* one entry of Go's leaves map: a leaf, or the ordered bundle of an `ordered-by user` list
   keyed by the path of the node that contains the list (orderedMapLeaves' subtreePath) *)
Inductive litem :=
| LLeaf (p : dpath) (v : lval)
| LAtomic (pfx : dpath) (ls : list (dpath * lval)).

(* structTagToLibPaths: one path per '|' alternative, appended to the parent path *)
Definition tag_paths (shadow : bool) (fi : finfo) : list (list str) :=
  if shadow && negb (nil_b (f_spaths fi)) then f_spaths fi else f_paths fi.
Definition lib_paths (shadow : bool) (fi : finfo) (parent : dpath) : list dpath :=
  map (fun alt => parent ++ path_of_names alt) (tag_paths shadow fi).

(* appendgNMIPathElemKey: the keys replace the Key map of the last element *)
Fixpoint set_last_keys (p : dpath) (ks : list (str * str)) : result dpath :=
  match p with
  | [] => Err                                            (* can't append keys to 0 length path *)
  | [e] => Ok [{| ename := ename e; ekeys := ks |}]
  | e :: t => bind (set_last_keys t ks) (fun r => Ok (e :: r))
  end.

Section Leaves.
  Variable env : enum_env.
  Variable ko : key_oracle.
  Variable shadow : bool.                                (* preferShadowPath *)

  (* PathKeyFromStruct on a list entry: ΛListKeyMap (key leaves of the entry, an unset pointer
     key is an error, an unset enum key is the zero value) then KeyValueAsString per key;
     the Go map is the association list sorted by key name *)
  Fixpoint entry_key_strs (sfs : list (finfo * schema)) (keys : list str) (fs : list (str * tree))
    : result (list (str * str)) :=
    match keys with
    | [] => Ok []
    | k :: rest =>
        match key_field sfs k with
        | None => Err
        | Some (fi, ks) =>
            bind (match field_get (f_go fi) fs with
                  | Some (TLeaf v) => key_to_string env ko v
                  | Some _ => Err
                  | None => match ks with
                            | SLeaf t _ => if is_enum_type t then Ok [] else Err
                            | _ => Err
                            end
                  end)
                 (fun s => bind (entry_key_strs sfs rest fs) (fun r => Ok (al_insert k s r)))
        end
    end.

  (* an enum-typed leaf field is resolved to its name while walking (enumFieldToString) *)
  Definition leaf_walk_ok (ss : schema) (v : scalar) : bool :=
    match ss, v with
    | SLeaf t _, VEnum ty n =>
        if is_enum_type t
        then match enum_by_num (enum_table env ty) n with Some _ => true | None => false end
        else true
    | _, _ => true
    end.

  Definition plain_of (i : litem) : list (dpath * lval) :=
    match i with LLeaf p v => [(p, v)] | LAtomic _ _ => [] end.

  (* findUpdatedLeaves.  atomic = inside an ordered list (leaves is a *[]*pathval): a nested
     ordered list is an error there.  Go accumulates errors and fails at the end: any error
     makes the whole call fail. *)
  Fixpoint find_leaves (atomic : bool) (s : schema) (t : tree) (parent : dpath) {struct t}
    : result (list litem) :=
    match t with
    | TCont fs =>
        let sfs := sfields s in
        (fix fields (l : list (str * tree)) {struct l} : result (list litem) :=
           match l with
           | [] => Ok []
           | (name, sub) :: rest =>
               match find (fun fs => str_eqb (f_go (fst fs)) name) sfs with
               | None => Err
               | Some (fi, ss) =>
                   let ps := lib_paths shadow fi parent in
                   let p0 := hd [] ps in
                   bind (match sub with
                         | TLeaf v =>
                             if leaf_walk_ok ss v then Ok (map (fun p => LLeaf p (LV v)) ps) else Err
                         | TLeafList [] => Ok []                     (* an empty non-nil leaf-list is not reported *)
                         | TLeafList vs => Ok (map (fun p => LLeaf p (LVs vs)) ps)
                         | TCont _ => find_leaves atomic ss sub p0
                         | TUnkeyed _ => Err                       (* keyless list cannot be output *)
                         | TList es =>
                             match ss with
                             | SList ordered keys _ _ esfs =>
                                 let entries :=
                                   (fix entries (at_ : bool) (l : list (list scalar * tree)) {struct l} : result (list litem) :=
                                      match l with
                                      | [] => Ok []
                                      | (_, e) :: more =>
                                          bind (entry_key_strs esfs keys (fields_of e)) (fun kstrs =>
                                          bind (set_last_keys p0 kstrs) (fun child =>
                                          bind (find_leaves at_ ss e child) (fun here =>
                                          bind (entries at_ more) (fun r => Ok (here ++ r)))))
                                      end) in
                                 if ordered then
                                   if atomic then Err               (* nested ordered-by user list *)
                                   else bind (entries true es) (fun items =>
                                          match flat_map plain_of items with
                                          | [] => Ok []
                                          | lv => match p0 with
                                                  | [] => Err       (* cannot pop from empty path *)
                                                  | _ => Ok [LAtomic (removelast p0) lv]
                                                  end
                                          end)
                                 else entries atomic es
                             | _ => Err
                             end
                         end)
                        (fun here => bind (fields rest) (fun r => Ok (here ++ r)))
               end
           end) fs
    | _ => Err                                                     (* not a struct pointer *)
    end.

  (* the non-atomic leaves of a tree rooted at `parent` *)
  Definition leaves (s : schema) (t : tree) (parent : dpath) : result (list (dpath * lval)) :=
    bind (find_leaves false s t parent) (fun items => Ok (flat_map plain_of items)).

  (* the ordered groups: (path of the containing node, leaves in list order) *)
  Definition atomic_of (i : litem) : list (dpath * list (dpath * lval)) :=
    match i with LAtomic p l => [(p, l)] | LLeaf _ _ => [] end.
  Definition ordered_groups (s : schema) (t : tree) (parent : dpath)
    : result (list (dpath * list (dpath * lval))) :=
    bind (find_leaves false s t parent) (fun items => Ok (flat_map atomic_of items)).
End Leaves.
