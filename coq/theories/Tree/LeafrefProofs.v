(* LeafrefProofs.v — leafref validation (Tree/Leafref.v): the walk of dataNodesAtPath up the
   NodeInfo chain reaches the struct XPath's ".." reaches (go_up_skipn, go_targets_select), the
   traversal reports an error exactly for the leafref leaves whose value is not among the
   selected values (validate_leafrefs_iff), and nothing is reported with IgnoreMissingData. *)
From Ygot Require Import Tree.Tree Tree.TreeOps Tree.Validate Tree.ValidateProofs Tree.Defaults Tree.Leafref.


Lemma flat_map_flat_map' {A B C} (f : A -> list B) (g : B -> list C) l :
  flat_map g (flat_map f l) = flat_map (fun x => flat_map g (f x)) l.
Proof. induction l as [|a l IH]; simpl; [reflexivity|]. now rewrite flat_map_app, IH. Qed.

Lemma flat_map_ext_in' {A B} (f g : A -> list B) l : (forall x, In x l -> f x = g x) -> flat_map f l = flat_map g l.
Proof.
  induction l as [|a l IH]; intros H; simpl; [reflexivity|].
  rewrite (H a (or_introl eq_refl)), IH; [reflexivity|]. intros x Hx. apply H. now right.
Qed.

Lemma go_up_skipn : forall k l, loc_keyed l = true ->
  go_up k l = if Nat.leb k (length l) then Some (skipn k l) else None.
Proof.
  induction k as [|k IH]; intros l Hl; [reflexivity|].
  destruct l as [|st l]; [reflexivity|]. simpl in Hl.
  destruct st; try discriminate Hl; simpl; now apply IH.
Qed.

Lemma loc_keyed_rev l : loc_keyed (rev l) = loc_keyed l.
Proof.
  unfold loc_keyed. induction l as [|x l IH]; [reflexivity|]. simpl.
  rewrite forallb_app, IH. simpl. rewrite andb_true_r. apply andb_comm.
Qed.

Section LR.
  Variable lrfix : bool.
  Variable tab : lrtab.
  Variable sfs0 : list (finfo * schema).
  Variable fs0 : list (str * tree).

  (* step two of the Go algorithm selects what the path denotes *)
  Theorem go_targets_select loc lp :
    loc_keyed loc = true -> go_targets sfs0 fs0 loc lp = select sfs0 fs0 loc lp.
  Proof.
    intros Hk. unfold go_targets, select. destruct (lr_abs lp); [reflexivity|].
    destruct (lr_up lp) as [|k]; [reflexivity|]. cbn [Nat.eqb]. replace (S k - 1)%nat with k by lia.
    rewrite go_up_skipn by now rewrite loc_keyed_rev. rewrite rev_length.
    destruct (Nat.leb k (length loc)) eqn:E.
    - apply Nat.leb_le in E. assert (Nat.ltb (length loc) k = false) as -> by (apply Nat.ltb_ge; lia).
      now rewrite skipn_rev, rev_involutive.
    - apply Nat.leb_gt in E. assert (Nat.ltb (length loc) k = true) as -> by (apply Nat.ltb_lt; lia). reflexivity.
  Qed.

  Lemma lr_eq_scalar_eqb v ts : not_bin v = true -> existsb (lr_eq v) ts = existsb (scalar_eqb v) ts.
  Proof.
    intros Hv. apply existsb_ext_in. intros w _. unfold lr_eq. destruct w; try reflexivity. now destruct v.
  Qed.

  Lemma check_leaf_iff mode loc lp v :
    reports lrfix mode = true -> loc_keyed loc = true -> not_bin v = true ->
    (check_leaf lrfix sfs0 fs0 mode loc lp v = [] <-> satisfied sfs0 fs0 loc lp v = true).
  Proof.
    intros Hrep Hk Hv. unfold check_leaf, satisfied. rewrite Hrep. rewrite go_targets_select by assumption.
    destruct (select sfs0 fs0 loc lp) as [ts|]; [|split; discriminate].
    assert (Hc : match ts, v with
                 | _ :: _, VBin _ => [ELrPanic]
                 | _, _ => if existsb (lr_eq v) ts then [] else [ELrDangling]
                 end = if existsb (lr_eq v) ts then [] else [ELrDangling]).
    { destruct ts; [reflexivity|]. destruct v; try reflexivity. discriminate Hv. }
    rewrite Hc. rewrite lr_eq_scalar_eqb by assumption. destruct (existsb (scalar_eqb v) ts); split; congruence.
  Qed.

  (* the traversal visits exactly the set leafref leaves *)
  Definition walk_eq (mode : lrmode) (t : tree) : Prop :=
    forall gp loc, walk lrfix tab sfs0 fs0 mode gp loc t =
                   flat_map (fun x => check_leaf lrfix sfs0 fs0 mode (fst (fst x)) (snd (fst x)) (snd x)) (lr_leaves tab gp loc t).

  Lemma walk_lr_leaves mode : forall t,
    walk_eq mode t /\
    (forall es, t = TList es -> Forall (fun ke => walk_eq mode (snd ke)) es) /\
    (forall es, t = TUnkeyed es -> Forall (walk_eq mode) es).
  Proof.
    induction t as [v|vs|fs IH|es IH|es IH] using tree_ind2.
    - repeat split; try discriminate; intros gp loc; reflexivity.
    - repeat split; try discriminate; intros gp loc; reflexivity.
    - split; [|split; discriminate]. intros gp loc. cbn [walk lr_leaves].
      rewrite flat_map_flat_map'. apply flat_map_ext_in'. intros nt Hin.
      rewrite Forall_forall in IH. specialize (IH nt Hin). destruct IH as (Hw & Hl & Hu).
      destruct (snd nt) as [v|vs|fs'|es|es] eqn:Et.
      + destruct (tab_find (gp ++ [fst nt]) tab); simpl; [now rewrite app_nil_r|reflexivity].
      + reflexivity.
      + apply Hw.
      + specialize (Hl es eq_refl). rewrite Forall_forall in Hl.
        rewrite flat_map_flat_map'. apply flat_map_ext_in'. intros ke Hke. apply (Hl ke Hke).
      + specialize (Hu es eq_refl). clear Et Hw Hl. revert Hu. generalize 0%nat.
        induction es as [|e es IHes]; intros i Hu; [reflexivity|].
        inversion Hu as [|? ? He Hes]; subst. rewrite flat_map_app. rewrite He. f_equal. now apply IHes.
    - split; [intros gp loc; reflexivity|]. split; [|discriminate]. intros es' [= <-].
      apply Forall_forall. intros ke Hke. rewrite Forall_forall in IH. exact (proj1 (IH ke Hke)).
    - split; [intros gp loc; reflexivity|]. split; [discriminate|]. intros es' [= <-].
      apply Forall_forall. intros e He. rewrite Forall_forall in IH. exact (proj1 (IH e He)).
  Qed.

  Theorem validate_leafrefs_iff mode :
    reports lrfix mode = true ->
    (forall x, In x (all_lr_leaves tab fs0) -> loc_keyed (fst (fst x)) = true /\ not_bin (snd x) = true) ->
    (validate_leafrefs lrfix tab sfs0 fs0 mode = [] <->
     forall x, In x (all_lr_leaves tab fs0) -> satisfied sfs0 fs0 (fst (fst x)) (snd (fst x)) (snd x) = true).
  Proof.
    intros Hrep Hg. unfold validate_leafrefs, all_lr_leaves in *.
    assert (Hw : (match mode with LrIgnore => [] | _ => walk lrfix tab sfs0 fs0 mode [] [] (TCont fs0) end)
                 = walk lrfix tab sfs0 fs0 mode [] [] (TCont fs0)).
    { destruct mode; try reflexivity. discriminate Hrep. }
    rewrite Hw. rewrite (proj1 (walk_lr_leaves mode (TCont fs0)) [] []). rewrite flat_map_nil_iff.
    split; intros H x Hx; specialize (H x Hx); destruct (Hg x Hx) as [Hk Hv]; now apply (check_leaf_iff mode).
  Qed.

  Theorem validate_leafrefs_ignore : validate_leafrefs lrfix tab sfs0 fs0 LrIgnore = [].
  Proof. reflexivity. Qed.
End LR.

Print Assumptions go_targets_select.
Print Assumptions validate_leafrefs_iff.
