(* Node.v — ytypes/node.go on the abstract tree: retrieveNode, retrieveNodeContainer (with its
   checkPath closure), retrieveNodeList, retrieveNodeOrderedList, getKeyFields, GetNode,
   SetNode, DeleteNode; ytypes/list.go insertAndGetKey / makeValForInsert / makeKeyForInsert /
   getKeyValue / schemaNameToFieldName; util.InitializeStructField; util/gnmi.go
   PathMatchesPrefix, PathPartiallyMatchesPrefix, TrimGNMIPathPrefix, PopGNMIPath; the gNMI
   branches of ytypes/leaf.go (sanitizeGNMI, gNMIToYANGTypeMatches, unmarshalUnion) and
   leaf_list.go (unmarshalLeafList).

   Go's retrieveNode is one function steered by retrieveNodeArgs; the model has one function
   per public operation (get_rec / set_rec / del_rec) sharing the field- and key-matching
   helpers.  retrieveNode mutates the tree while it descends and does not roll back, so
   set_rec and del_rec return the tree *as it is after the call* together with the outcome.
   Recursion is on explicit fuel (2 * path length + 2 suffices: every two steps consume a
   path element); out of fuel is Err.  Definitions only. *)
From Ygot Require Import Tree.Tree Tree.Codec Tree.TreeOps Tree.Unmarshal Tree.KeyCodec Tree.Leaves Path.PathRel.

(* ---------- path helpers (util/gnmi.go) ---------- *)

(* PathMatchesPrefix: the length test precedes the trimming of trailing "" *)
Definition path_matches_prefix (path : dpath) (pre : list str) : bool :=
  if Nat.ltb (length path) (length pre) then false
  else names_prefix (trim_trailing_empty pre) path.

(* PathPartiallyMatchesPrefix: names agree on the common length; keys are not compared *)
Fixpoint names_agree (pre : list str) (path : dpath) : bool :=
  match pre, path with
  | n :: pre', e :: path' => str_eqb n (ename e) && names_agree pre' path'
  | _, _ => true
  end.
Definition path_partially_matches (path : dpath) (pre : list str) : bool :=
  names_agree (trim_trailing_empty pre) path.

Definition is_keyed_list (s : schema) : bool := match s with SList _ _ _ _ _ => true | _ => false end.
Definition is_ordered_list (s : schema) : bool := match s with SList true _ _ _ _ => true | _ => false end.
Definition is_leafish (s : schema) : bool := match s with SLeaf _ _ | SLeafList _ _ _ => true | _ => false end.

(* ---------- options ---------- *)

Record get_opts := { g_partial : bool;        (* GetPartialKeyMatch *)
                     g_wild : bool;           (* GetHandleWildcards *)
                     g_tolerate_nil : bool;   (* GetTolerateNil *)
                     g_shadow : bool }.       (* PreferShadowPath *)
Record set_opts := { s_init : bool;           (* InitMissingElements *)
                     s_tol_json : bool;       (* TolerateJSONInconsistencies *)
                     s_shadow : bool;         (* PreferShadowPath *)
                     s_ignore_extra : bool }. (* IgnoreExtraFields *)

(* TreeNode: Path and Data (None = nil pointer / map / interface, unset enum or empty) *)
Record gnode := { gn_path : dpath; gn_data : option tree }.

(* ---------- which field of a struct a path continues in ---------- *)

Inductive fmatch :=
| FMPath (fi : finfo) (ss : schema) (p : list str) (shadow_leaf : bool)   (* checkPath(p, args, shadowLeaf) *)
| FMOrdPartial (fi : finfo)      (* ordered-map deletion at the container level (compressed structs) *)
| FMNone.

Section FindField.
  Variable shadow : bool.       (* args.preferShadowPath *)
  Variable del : bool.          (* args.delete *)
  Variable path : dpath.

  (* one list of alternatives; None = keep looking *)
  Fixpoint try_paths (fi : finfo) (ss : schema) (ps : list (list str)) (shadow_leaf ord_ok : bool) : option fmatch :=
    match ps with
    | [] => None
    | p :: rest =>
        if path_matches_prefix path p then Some (FMPath fi ss p shadow_leaf)
        else if ord_ok && path_partially_matches path p && is_ordered_list ss && del then Some (FMOrdPartial fi)
        else try_paths fi ss rest shadow_leaf ord_ok
    end.

  (* the loop over the struct fields of retrieveNodeContainer (all fields, in struct order) *)
  Fixpoint find_field (sfs : list (finfo * schema)) : fmatch :=
    match sfs with
    | [] => FMNone
    | (fi, ss) :: rest =>
        let first := if shadow then try_paths fi ss (f_spaths fi) false true else None in
        match first with
        | Some m => m
        | None =>
            let shadow_leaf := shadow && negb (nil_b (f_spaths fi)) in
            match try_paths fi ss (f_paths fi) shadow_leaf (negb shadow_leaf) with
            | Some m => m
            | None =>
                match (if shadow then None else try_paths fi ss (f_spaths fi) true false) with
                | Some m => m
                | None => find_field rest
                end
            end
        end
    end.
End FindField.

(* number of path elements consumed by checkPath before descending: a map / ordered map takes
   two steps, the list's own element is left for the list step *)
Definition consumed (ss : schema) (p : list str) : nat :=
  if is_keyed_list ss then Nat.pred (length p) else length p.

(* ---------- list keys ---------- *)

(* util.RelativeSchemaPath on the `path` tag *)
Definition rel_schema_path (fi : finfo) : list str :=
  match f_paths fi with
  | [p] => p
  | ps => match find (fun p => Nat.ltb 1 (length p)) ps with Some p => p | None => [] end
  end.

(* getKeyValue: the first field whose relative schema path ends in the key name *)
Definition key_value_field (sfs : list (finfo * schema)) (k : str) : option (finfo * schema) :=
  find (fun fs => str_eqb (last (rel_schema_path (fst fs)) []) k) sfs.

(* schemaNameToFieldName: the first field whose relative path (one or two elements) ends in
   the key name; a longer relative path met on the way is an error *)
Fixpoint key_name_field (sfs : list (finfo * schema)) (k : str) : result (finfo * schema) :=
  match sfs with
  | [] => Err
  | (fi, ss) :: rest =>
      match rel_schema_path fi with
      | [a] => if str_eqb a k then Ok (fi, ss) else key_name_field rest k
      | [_; b] => if str_eqb b k then Ok (fi, ss) else key_name_field rest k
      | _ => Err
      end
  end.

Definition is_iface_union (t : ytype) : bool :=
  match resolve_lref t with
  | YUnion ms => match enum_types (YUnion ms), dedup_kinds (union_kinds (YUnion ms)) [] with
                 | [], [_] => false | _, _ => true end
  | _ => false
  end.
Definition is_bin_type (t : ytype) : bool := match resolve_lref t with YBin _ => true | _ => false end.

Section Keys.
  Variable env : enum_env.
  Variable fo : float_oracle.
  Variable ko : key_oracle.

  (* retrieveNodeList, single key: the string the path key is compared with.  Taken from the
     entry's key leaf; when that is a nil pointer the Go map key is used instead *)
  Definition single_key_str (sfs : list (finfo * schema)) (k : str) (mapkey : list scalar) (fs : list (str * tree)) : result str :=
    let from_map := match mapkey with [v] => key_to_string env ko v | _ => Err end in
    match key_value_field sfs k with
    | None => from_map
    | Some (fi, ks) =>
        match field_get (f_go fi) fs with
        | Some (TLeaf v) => key_to_string env ko v
        | Some _ => from_map
        | None =>
            match ks with
            | SLeaf t _ =>
                if is_enum_type t || is_bin_type t then Ok []     (* zero enum / nil Binary: "" *)
                else if is_iface_union t then Err                 (* KeyValueAsString(nil) *)
                else from_map
            | _ => from_map
            end
        end
    end.

  (* key strings of a Go map key / ordered-map key (getKeyFields, PathKeyFromStruct(k)) *)
  Fixpoint mapkey_strs (keys : list str) (mapkey : list scalar) : result (list (str * str)) :=
    match keys, mapkey with
    | [], _ => Ok []
    | k :: ks, v :: vs =>
        bind (key_to_string env ko v) (fun s => bind (mapkey_strs ks vs) (fun r => Ok (al_insert k s r)))
    | _ :: _, [] => Err
    end.

  (* the key comparison loops: Ok true = entry matches *)
  Fixpoint keys_match (partial wild : bool) (ek : list (str * str)) (keys : list str) (mapkey : list scalar) : result bool :=
    match keys, mapkey with
    | [], _ => Ok true
    | k :: ks, v :: vs =>
        match al_find k ek with
        | None => if partial then keys_match partial wild ek ks vs else Err
        | Some pk =>
            bind (key_to_string env ko v) (fun s =>
              if (wild && is_star pk) || str_eqb pk s then keys_match partial wild ek ks vs else Ok false)
        end
    | _ :: _, [] => Err
    end.

  (* the Path element recorded for a matched entry of a multi-key map: PathKeyFromStruct on the
     entry, falling back to the map key *)
  Definition entry_elem_keys (sfs : list (finfo * schema)) (keys : list str) (mapkey : list scalar) (fs : list (str * tree))
    : result (list (str * str)) :=
    match entry_key_strs env ko sfs keys fs with
    | Ok r => Ok r
    | _ => mapkey_strs keys mapkey
    end.

  (* makeValForInsert + makeKeyForInsert: a new entry holding only its key leaves, and its map key *)
  Fixpoint make_entry (sfs : list (finfo * schema)) (keys : list str) (ek : list (str * str))
    : result (list scalar * list (str * tree)) :=
    match keys with
    | [] => Ok ([], [])
    | k :: rest =>
        match al_find k ek with
        | None => Err                                                (* missing key *)
        | Some s =>
            bind (key_name_field sfs k) (fun fs =>
            match snd fs with
            | SLeaf t _ =>
                bind (string_to_key env fo ko t s) (fun v =>
                bind (make_entry sfs rest ek) (fun r =>
                  Ok (v :: fst r, field_set (go_names sfs) (f_go (fst fs)) (TLeaf v) (snd r))))
            | _ => Err
            end)
        end
    end.

  (* AppendNew of an ordered map: keys converted by the schema of the key leaf (stringToKeyType), as
     for Go maps, since fix 7d0d94c2; before it they went through StringToType on the Go key type
     (KeyCodec.string_to_gotype: no unions of several kinds, no decimal64), which the guards of the
     ordered-list theorems still use: string_to_gotype agrees with string_to_key where it succeeds
     (NodeFrameProofs.gotype_key_agree) *)
  Fixpoint make_ordered_entry (sfs : list (finfo * schema)) (keys : list str) (ek : list (str * str))
    : result (list scalar * list (str * tree)) :=
    match keys with
    | [] => Ok ([], [])
    | k :: rest =>
        match al_find k ek, key_field sfs k with
        | Some s, Some (fi, SLeaf t _) =>
            bind (string_to_key env fo ko t s) (fun v =>
            bind (make_ordered_entry sfs rest ek) (fun r =>
              Ok (v :: fst r, field_set (go_names sfs) (f_go fi) (TLeaf v) (snd r))))
        | _, _ => Err
        end
    end.

  (* retrieveNodeOrderedList converts every key present in the path before looking at the map *)
  Fixpoint ordered_keys_parse (sfs : list (finfo * schema)) (keys : list str) (ek : list (str * str)) : result nat :=
    match keys with
    | [] => Ok O
    | k :: rest =>
        match al_find k ek with
        | None => ordered_keys_parse sfs rest ek
        | Some s =>
            match key_field sfs k with
            | Some (_, SLeaf t _) =>
                bind (string_to_key env fo ko t s) (fun _ => bind (ordered_keys_parse sfs rest ek) (fun n => Ok (S n)))
            | _ => Err
            end
        end
    end.
End Keys.

(* a float64 NaN (decimal64 key parsed from "NaN"): never equal to itself as a Go map key *)
Definition nan_bits (b : N) : bool :=
  (N.land (N.shiftr b 52) 2047 =? 2047) && negb (N.land b 4503599627370495 =? 0).
Definition nan_key (v : scalar) : bool := match v with VDec b => nan_bits b | _ => false end.

Fixpoint ol_update (k : list scalar) (e : tree) (es : list (list scalar * tree)) : list (list scalar * tree) :=
  match es with
  | [] => []
  | (k', e') :: t => if keys_eqb k k' then (k, e) :: t else (k', e') :: ol_update k e t
  end.

(* ---------- decoding a TypedValue (gNMI encoding) ---------- *)

Definition int_in_range (ik : ikind) (z : Z) : bool := (ikind_min ik <=? z)%Z && (z <=? ikind_max ik)%Z.

(* gNMIToYANGTypeMatches with jsonTolerance turns a non-negative int_val offered to an unsigned
   kind into a uint_val; since the fix "SetNode with TolerateJSONInconsistencies does not rewrite
   the caller's TypedValue" this happens on a copy made per sanitizeGNMI call, so every attempt of
   a union sees the original value *)
Definition tol_rewrite (tol : bool) (k : ukind) (tv : tval) : tval :=
  match k, tv with
  | KInt ik, TVInt z => if tol && negb (ikind_signed ik) && (0 <=? z)%Z then TVUint z else tv
  | _, _ => tv
  end.

(* sanitizeGNMI for one kind: the TypedValue arm must be the one of the kind; integers are
   range-checked through StringToType; `empty` takes a bool_val (what EncodeTypedValue emits) *)
Definition dec_tv_kind (ko : key_oracle) (k : ukind) (tv : tval) : result scalar :=
  match k, tv with
  | KBool, TVBool b => Ok (VBool b)
  | KEmpty, TVBool true => Ok VEmpty
  | KStr, TVString s => Ok (VStr s)
  | KInt ik, TVInt z => if ikind_signed ik && int_in_range ik z then Ok (VInt ik z) else Err
  | KInt ik, TVUint z => if negb (ikind_signed ik) && int_in_range ik z then Ok (VInt ik z) else Err
  | KBin, TVBytes bs => Ok (VBin bs)
  | KDec, TVDouble b => Ok (VDec b)
  | KDec, TVFloat b => Ok (VDec b)                   (* bits of float64(float32 value) *)
  | KDec, TVDecimal d p => match dec_f64 ko d p with Some b => Ok (VDec b) | None => Err end
  | _, _ => Err
  end.

Fixpoint dec_tv_first (ko : key_oracle) (tol : bool) (ks : list ukind) (tv : tval) : result scalar :=
  match ks with
  | [] => Err
  | k :: t =>
      match dec_tv_kind ko k (tol_rewrite tol k tv) with
      | Ok v => union_val ko v                    (* setUnionFieldWithTypedValue / getUnionVal *)
      | _ => dec_tv_first ko tol t tv
      end
  end.

(* unmarshalLeaf with GNMIEncoding / gNMIEncodingWithJSONTolerance *)
Fixpoint decode_tv (env : enum_env) (ko : key_oracle) (tol : bool) (t : ytype) (tv : tval) : result scalar :=
  match t with
  | YLeafref t' => decode_tv env ko tol t' tv
  | YEnum ty | YIdref ty =>
      match tv with
      | TVString s => match enum_cast (enum_table env ty) s with
                      | Some e => Ok (VEnum ty (ev_num e)) | None => Err end
      | _ => Err
      end
  | YUnion ms =>
      let ets := enum_types t in
      let ks := dedup_kinds (union_kinds t) [] in
      match ets, ks with
      | [], [k] => dec_tv_kind ko k (tol_rewrite tol k tv)
      | _, _ =>
          match (match tv with TVString s => cast_one_enum env ets s | _ => None end) with
          | Some v => Ok v
          | None => dec_tv_first ko tol ks tv
          end
      end
  | _ => match kind_of_type t with
         | Some k => dec_tv_kind ko k (tol_rewrite tol k tv)
         | None => Err
         end
  end.

Definition tv_is_nil (tv : tval) : bool := match tv with TVNil => true | _ => false end.

(* the elements of a leaflist_val, appended one by one after the field was cleared: on a failing
   element the field keeps the elements decoded so far *)
Fixpoint decode_leaflist (env : enum_env) (ko : key_oracle) (tol : bool) (t : ytype) (l : list tval) (acc : list scalar)
  : list scalar * result unit :=
  match l with
  | [] => (acc, Ok tt)
  | x :: rest =>
      match decode_tv env ko tol t x with
      | Ok v => decode_leaflist env ko tol t rest (acc ++ [v])
      | Err => (acc, Err)
      | Panic => (acc, Panic)
      end
  end.

Definition some_leaflist (vs : list scalar) : option tree :=
  match vs with [] => None | _ => Some (TLeafList vs) end.

Section Node.
  Variable env : enum_env.
  Variable fo : float_oracle.
  Variable ko : key_oracle.

  (* ======================= GetNode ======================= *)
  Section Get.
    Variable o : get_opts.

    Fixpoint get_rec (fuel : nat) (s : schema) (cur : option tree) (path trav : dpath) {struct fuel}
      : result (list gnode) :=
      match fuel with
      | O => Err
      | S f =>
        match path with
        | [] => Ok [{| gn_path := trav; gn_data := cur |}]
        | e0 :: prest =>
          match cur with
          | None =>
              (* IsValueNil(root); a zero enum / YANGEmpty is not nil and is "not a container or list" *)
              match s with
              | SLeaf t _ => if nonptr_leaf t then Err else if g_tolerate_nil o then Ok [] else Err
              | _ => if g_tolerate_nil o then Ok [] else Err
              end
          | Some t =>
            match s, t with
            | SCont sfs, TCont fs | SList _ _ _ _ sfs, TCont fs =>
                (* retrieveNodeContainer *)
                match find_field (g_shadow o) false path sfs with
                | FMPath fi ss p shadow_leaf =>
                    let to := consumed ss p in
                    let np := trav ++ firstn to path in
                    if shadow_leaf then
                      (if is_leafish ss then Ok [{| gn_path := np; gn_data := None |}] else Err)
                    else get_rec f ss (field_get (f_go fi) fs) (skipn to path) np
                | _ => Err
                end
            | SList false keys _ _ sfs, TList es =>
                (* retrieveNodeList *)
                let ek := ekeys e0 in
                match keys with
                | [k] =>
                    if (nil_b ek && g_partial o) || (g_wild o && is_star (get_key k ek)) then
                      (fix all (l : list (list scalar * tree)) : result (list gnode) :=
                         match l with
                         | [] => Ok []
                         | (_, e) :: more =>
                             bind (entry_key_strs env ko sfs keys (fields_of e)) (fun kk =>
                             bind (get_rec f s (Some e) prest (trav ++ [{| ename := ename e0; ekeys := kk |}])) (fun here =>
                             bind (all more) (fun r => Ok (here ++ r))))
                         end) es
                    else
                      match al_find k ek with
                      | None => if nil_b es then Ok [] else Err
                      | Some pk =>
                          (fix first (l : list (list scalar * tree)) : result (list gnode) :=
                             match l with
                             | [] => Ok []
                             | (mk, e) :: more =>
                                 bind (single_key_str env ko sfs k mk (fields_of e)) (fun ks =>
                                   if str_eqb ks pk then get_rec f s (Some e) prest (trav ++ [e0])
                                   else first more)
                             end) es
                      end
                | _ =>
                    (fix all (l : list (list scalar * tree)) : result (list gnode) :=
                       match l with
                       | [] => Ok []
                       | (mk, e) :: more =>
                           bind (keys_match env ko (g_partial o) (g_wild o) ek keys mk) (fun m =>
                             if m then
                               bind (entry_elem_keys env ko sfs keys mk (fields_of e)) (fun kk =>
                               bind (get_rec f s (Some e) prest (trav ++ [{| ename := ename e0; ekeys := kk |}])) (fun here =>
                               bind (all more) (fun r => Ok (here ++ r))))
                             else all more)
                       end) es
                end
            | SList true keys _ _ sfs, TList es =>
                (* retrieveNodeOrderedList: the path keys are converted first, the map key is compared *)
                let ek := ekeys e0 in
                bind (ordered_keys_parse env fo ko sfs keys ek) (fun _ =>
                  (fix all (l : list (list scalar * tree)) : result (list gnode) :=
                     match l with
                     | [] => Ok []
                     | (mk, e) :: more =>
                         bind (mapkey_strs env ko keys mk) (fun kk =>
                         bind (keys_match env ko (g_partial o) (g_wild o) ek keys mk) (fun m =>
                           if m then
                             bind (get_rec f s (Some e) prest (trav ++ [{| ename := ename e0; ekeys := kk |}])) (fun here =>
                             bind (all more) (fun r => Ok (here ++ r)))
                           else all more))
                     end) es)
            | _, _ => Err        (* unkeyed list can't be traversed / parent is not a container or list *)
            end
          end
        end
      end.

    Definition get_node (s : schema) (root : tree) (path : dpath) : result (list gnode) :=
      get_rec (2 * length path + 2) s (Some root) path [].
  End Get.

  (* ======================= SetNode ======================= *)
  Section Set_.
    Variable o : set_opts.
    Variable tv : tval.

    Definition uo : uopts := {| o_ignore_extra := s_ignore_extra o; o_prefer_shadow := s_shadow o |}.

    (* util.InitializeStructField(parent, field, initializeLeafs = false) *)
    Definition init_field (ss : schema) (c : option tree) : option tree :=
      match c with
      | Some _ => c
      | None => match ss with
                | SCont _ => Some (TCont [])
                | SList _ _ _ _ _ => Some (TList [])
                | _ => None
                end
      end.

    (* the leaf / leaf-list update done in checkPath when the path ends at this field.
       JSON_IETF payloads go through Unmarshal (Codec.dec_json); the state after a *failing*
       JSON unmarshal is not modelled (the field is reported unchanged). *)
    Definition set_leaf (ss : schema) (c : option tree) : option tree * result unit :=
      match tv with
      | TVJsonIetf j =>
          match unm_node env fo uo (jdepth j + 2) ss c j with
          | Ok nt => (nt, Ok tt)
          | Err => (c, Err)
          | Panic => (c, Panic)
          end
      | TVJson _ => (c, Err)                                (* json_val format is deprecated *)
      | _ =>
          match ss with
          | SLeaf t _ =>
              match decode_tv env ko (s_tol_json o) t tv with
              | Ok v => (Some (TLeaf v), Ok tt)
              | Err => (c, Err)
              | Panic => (c, Panic)
              end
          | SLeafList t _ _ =>
              match tv with
              | TVLeafList l =>
                  if nil_b l then (c, Err)                  (* got empty leaf list *)
                  else let '(vs, r) := decode_leaflist env ko (s_tol_json o) t l [] in (some_leaflist vs, r)
              | _ => (c, Err)
              end
          | _ => (c, Err)
          end
      end.

    (* retrieveNode with an exhausted path on a non-leaf node: only JSON can be unmarshalled *)
    Definition set_terminal (s : schema) (cur : option tree) : option tree * result nat :=
      if tv_is_nil tv || is_leafish s then (cur, Ok 1%nat)
      else
        match tv with
        | TVJsonIetf j =>
            match j, cur with
            | JNull, _ => (cur, Ok 1%nat)
            | _, Some (TCont _) =>
                match unm_node env fo uo (jdepth j + 2) (SCont (sfields s)) cur j with
                | Ok nt => (nt, Ok 1%nat)
                | Err => (cur, Err)
                | Panic => (cur, Panic)
                end
            | _, _ => (cur, Err)                            (* nil struct pointer, slice, ... *)
            end
        | _ => (cur, Err)                                   (* points to a node with non-leaf schema *)
        end.

    Definition put_field (order : list str) (name : str) (c : option tree) (fs : list (str * tree)) : list (str * tree) :=
      match c with
      | Some t => field_set order name t fs
      | None => field_remove name fs
      end.

    Fixpoint set_rec (fuel : nat) (s : schema) (cur : option tree) (path : dpath) {struct fuel}
      : option tree * result nat :=
      match fuel with
      | O => (cur, Err)
      | S f =>
        match path with
        | [] => set_terminal s cur
        | e0 :: prest =>
          match cur with
          | None => (cur, Err)                              (* could not find children *)
          | Some t =>
            match s, t with
            | SCont sfs, TCont fs | SList _ _ _ _ sfs, TCont fs =>
                match find_field (s_shadow o) false path sfs with
                | FMPath fi ss p shadow_leaf =>
                    let to := consumed ss p in
                    if shadow_leaf then
                      (cur, if is_leafish ss then Ok 1%nat else Err)
                    else
                      let c0 := field_get (f_go fi) fs in
                      let c1 := if s_init o then init_field ss c0 else c0 in
                      let rebuild (c : option tree) := Some (TCont (put_field (go_names sfs) (f_go fi) c fs)) in
                      let '(c2, r2) :=
                        if negb (tv_is_nil tv) && Nat.eqb (length path) to && is_leafish ss
                        then set_leaf ss c1 else (c1, Ok tt) in
                      match r2 with
                      | Ok _ =>
                          let '(c3, r3) := set_rec f ss c2 (skipn to path) in
                          (rebuild c3, r3)
                      | Err => (rebuild c2, Err)
                      | Panic => (rebuild c2, Panic)
                      end
                | FMOrdPartial _ => (cur, Err)
                | FMNone => (cur, if s_ignore_extra o then Ok O else Err)
                end
            | SList false keys _ _ sfs, TList es =>
                let ek := ekeys e0 in
                (* no matching entry: insertAndGetKey when modifyRoot.  The new value and its map key are
                   built first (makeValForInsert / makeKeyForInsert, whose errors come first); when the
                   map holds that key already (the path spelled the key differently from the form that
                   entries are matched by, e.g. "01" for the uint8 1) the existing entry is kept and the
                   descent continues in it; otherwise the new entry is inserted *)
                let insert_new (es : list (list scalar * tree)) : option tree * result nat :=
                  if s_init o then
                    match make_entry env fo ko sfs keys ek with
                    | Ok (mk, nfs) =>
                        (* rv.MapIndex(key).Interface() on the key just inserted: a NaN key is never found
                           (neither by the check for an existing entry nor afterwards) and Interface() of
                           the zero Value panics *)
                        if existsb nan_key mk then (Some (TList (tl_insert mk (TCont nfs) es)), Panic) else
                        match tl_find mk es with
                        | Some e_old =>
                            let '(e', r) := set_rec f s (Some e_old) prest in
                            (Some (TList (match e' with Some e'' => tl_insert mk e'' es | None => es end)), r)
                        | None =>
                            let '(e', r) := set_rec f s (Some (TCont nfs)) prest in
                            (Some (TList (match e' with Some e'' => tl_insert mk e'' es | None => es end)), r)
                        end
                    | Err => (Some (TList es), Err)
                    | Panic => (Some (TList es), Panic)
                    end
                  else (Some (TList es), Ok O) in
                match keys with
                | [k] =>
                    match al_find k ek with
                    | None => if nil_b es then insert_new es else (cur, Err)
                    | Some pk =>
                        (fix first (l : list (list scalar * tree)) : option tree * result nat :=
                           match l with
                           | [] => insert_new es
                           | (mk, e) :: more =>
                               match single_key_str env ko sfs k mk (fields_of e) with
                               | Ok ks =>
                                   if str_eqb ks pk then
                                     let '(e', r) := set_rec f s (Some e) prest in
                                     (Some (TList (match e' with Some e'' => tl_insert mk e'' es | None => es end)), r)
                                   else first more
                               | Err => (cur, Err)
                               | Panic => (cur, Panic)
                               end
                           end) es
                    end
                | _ =>
                    (fix all (l : list (list scalar * tree)) (acc : list (list scalar * tree)) (n : nat) : option tree * result nat :=
                       match l with
                       | [] => if Nat.eqb n O then insert_new acc else (Some (TList acc), Ok n)
                       | (mk, e) :: more =>
                           match keys_match env ko false false ek keys mk with
                           | Ok true =>
                               let '(e', r) := set_rec f s (Some e) prest in
                               let acc' := match e' with Some e'' => tl_insert mk e'' acc | None => acc end in
                               match r with
                               | Ok m => all more acc' (n + m)%nat
                               | _ => (Some (TList acc'), r)
                               end
                           | Ok false => all more acc n
                           | Err => (Some (TList acc), Err)
                           | Panic => (Some (TList acc), Panic)
                           end
                       end) es es O
                end
            | SList true keys _ _ sfs, TList es =>
                let ek := ekeys e0 in
                match ordered_keys_parse env fo ko sfs keys ek with
                | Ok nparsed =>
                    (fix all (l : list (list scalar * tree)) (acc : list (list scalar * tree)) (n : nat) : option tree * result nat :=
                       match l with
                       | [] =>
                           if Nat.eqb n O && s_init o then
                             if negb (Nat.eqb nparsed (length keys)) then (Some (TList acc), Err)
                             else
                               match make_ordered_entry env fo ko sfs keys ek with
                               | Ok (mk, nfs) =>
                                   match tl_find mk acc with
                                   | Some _ => (Some (TList acc), Err)          (* AppendNew: duplicate key *)
                                   | None =>
                                       let '(e', r) := set_rec f s (Some (TCont nfs)) prest in
                                       (Some (TList (acc ++ [(mk, match e' with Some e'' => e'' | None => TCont nfs end)])), r)
                                   end
                               | Err => (Some (TList acc), Err)
                               | Panic => (Some (TList acc), Panic)
                               end
                           else (Some (TList acc), Ok n)
                       | (mk, e) :: more =>
                           match bind (mapkey_strs env ko keys mk) (fun _ => keys_match env ko false false ek keys mk) with
                           | Ok true =>
                               let '(e', r) := set_rec f s (Some e) prest in
                               let acc' := match e' with Some e'' => ol_update mk e'' acc | None => acc end in
                               match r with
                               | Ok m => all more acc' (n + m)%nat
                               | _ => (Some (TList acc'), r)
                               end
                           | Ok false => all more acc n
                           | Err => (Some (TList acc), Err)
                           | Panic => (Some (TList acc), Panic)
                           end
                       end) es es O
                | Err => (cur, Err)
                | Panic => (cur, Panic)
                end
            | _, _ => (cur, Err)
            end
          end
        end
      end.

    (* SetNode: (tree after the call, outcome) *)
    Definition set_node_st (s : schema) (root : tree) (path : dpath) : tree * result unit :=
      let '(t', r) := set_rec (2 * length path + 2) s (Some root) path in
      let t'' := match t' with Some x => x | None => root end in
      match r with
      | Ok n => if Nat.eqb n O && negb (s_ignore_extra o) then (t'', Err) else (t'', Ok tt)
      | Err => (t'', Err)
      | Panic => (t'', Panic)
      end.

    Definition set_node (s : schema) (root : tree) (path : dpath) : result tree :=
      let '(t', r) := set_node_st s root path in bind r (fun _ => Ok t').
  End Set_.

  (* ======================= DeleteNode ======================= *)
  Section Del.
    Variable shadow : bool.

    Definition is_empty_cont (t : tree) : bool := match t with TCont [] => true | _ => false end.

    (* after a successful descent: an emptied container / list entry / map is set to nil.  An
       ordered map is a pointer to a struct that is zero only when it was never written to;
       the model's TList [] of an ordered list stands for a used, emptied map and stays *)
    Definition prune_child (ss : schema) (c : option tree) : option tree :=
      match ss, c with
      | SCont _, Some (TCont []) => None
      | SList false _ _ _ _, Some (TList []) => None
      | _, _ => c
      end.

    Fixpoint del_rec (fuel : nat) (s : schema) (cur : option tree) (path : dpath) {struct fuel}
      : option tree * result unit :=
      match fuel with
      | O => (cur, Err)
      | S f =>
        match path with
        | [] =>
            match cur with
            | None => (None, Ok tt)
            | Some (TCont _) => (Some (TCont []), Ok tt)        (* the pointee is zeroed *)
            | Some _ => (cur, Err)                              (* cannot delete on unsettable element *)
            end
        | e0 :: prest =>
          match cur with
          | None =>
              match s with
              | SLeaf t _ => if nonptr_leaf t then (cur, Err) else (cur, Ok tt)
              | _ => (cur, Ok tt)
              end
          | Some t =>
            match s, t with
            | SCont sfs, TCont fs | SList _ _ _ _ sfs, TCont fs =>
                match find_field shadow true path sfs with
                | FMPath fi ss p shadow_leaf =>
                    let to := consumed ss p in
                    if shadow_leaf then (cur, if is_leafish ss then Ok tt else Err)
                    else if Nat.eqb (length path) to then
                      (Some (TCont (field_remove (f_go fi) fs)), Ok tt)
                    else
                      let '(c', r) := del_rec f ss (field_get (f_go fi) fs) (skipn to path) in
                      let c'' := match r with Ok _ => prune_child ss c' | _ => c' end in
                      (Some (TCont (match c'' with
                                    | Some x => field_set (go_names sfs) (f_go fi) x fs
                                    | None => field_remove (f_go fi) fs end)), r)
                | FMOrdPartial fi => (Some (TCont (field_remove (f_go fi) fs)), Ok tt)
                | FMNone => (cur, Err)
                end
            | SList false keys _ _ sfs, TList es =>
                let ek := ekeys e0 in
                match keys with
                | [k] =>
                    match al_find k ek with
                    | None => if nil_b es then (cur, Ok tt) else (cur, Err)
                    | Some pk =>
                        (fix first (l : list (list scalar * tree)) : option tree * result unit :=
                           match l with
                           | [] => (cur, Ok tt)
                           | (mk, e) :: more =>
                               match single_key_str env ko sfs k mk (fields_of e) with
                               | Ok ks =>
                                   if str_eqb ks pk then
                                     if nil_b prest then (Some (TList (tl_remove mk es)), Ok tt)
                                     else
                                       let '(e', r) := del_rec f s (Some e) prest in
                                       match r, e' with
                                       | Ok _, Some e'' =>
                                           (Some (TList (if is_empty_cont e'' then tl_remove mk es else tl_insert mk e'' es)), r)
                                       | _, Some e'' => (Some (TList (tl_insert mk e'' es)), r)
                                       | _, None => (cur, r)
                                       end
                                   else first more
                               | Err => (cur, Err)
                               | Panic => (cur, Panic)
                               end
                           end) es
                    end
                | _ =>
                    (fix all (l : list (list scalar * tree)) (acc : list (list scalar * tree)) : option tree * result unit :=
                       match l with
                       | [] => (Some (TList acc), Ok tt)
                       | (mk, e) :: more =>
                           match keys_match env ko false false ek keys mk with
                           | Ok true =>
                               match entry_elem_keys env ko sfs keys mk (fields_of e) with
                               | Ok _ =>
                                   if nil_b prest then (Some (TList (tl_remove mk acc)), Ok tt)     (* return nil, nil *)
                                   else
                                     let '(e', r) := del_rec f s (Some e) prest in
                                     match r, e' with
                                     | Ok _, Some e'' =>
                                         all more (if is_empty_cont e'' then tl_remove mk acc else tl_insert mk e'' acc)
                                     | _, Some e'' => (Some (TList (tl_insert mk e'' acc)), r)
                                     | _, None => (Some (TList acc), r)
                                     end
                               | Err => (Some (TList acc), Err)
                               | Panic => (Some (TList acc), Panic)
                               end
                           | Ok false => all more acc
                           | Err => (Some (TList acc), Err)
                           | Panic => (Some (TList acc), Panic)
                           end
                       end) es es
                end
            | SList true keys _ _ sfs, TList es =>
                let ek := ekeys e0 in
                match ordered_keys_parse env fo ko sfs keys ek with
                | Ok _ =>
                    (fix all (l : list (list scalar * tree)) (acc : list (list scalar * tree)) : option tree * result unit :=
                       match l with
                       | [] => (Some (TList acc), Ok tt)
                       | (mk, e) :: more =>
                           match bind (mapkey_strs env ko keys mk) (fun _ => keys_match env ko false false ek keys mk) with
                           | Ok true =>
                               if nil_b prest then all more (tl_remove mk acc)
                               else
                                 let '(e', r) := del_rec f s (Some e) prest in
                                 match r, e' with
                                 | Ok _, Some e'' =>
                                     all more (if is_empty_cont e'' then tl_remove mk acc else ol_update mk e'' acc)
                                 | _, Some e'' => (Some (TList (ol_update mk e'' acc)), r)
                                 | _, None => (Some (TList acc), r)
                                 end
                           | Ok false => all more acc
                           | Err => (Some (TList acc), Err)
                           | Panic => (Some (TList acc), Panic)
                           end
                       end) es es
                | Err => (cur, Err)
                | Panic => (cur, Panic)
                end
            | _, _ => (cur, Err)
            end
          end
        end
      end.

    Definition delete_node_st (s : schema) (root : tree) (path : dpath) : tree * result unit :=
      let '(t', r) := del_rec (2 * length path + 2) s (Some root) path in
      (match t' with Some x => x | None => root end, r).

    Definition delete_node (s : schema) (root : tree) (path : dpath) : result tree :=
      let '(t', r) := delete_node_st s root path in bind r (fun _ => Ok t').
  End Del.
End Node.
