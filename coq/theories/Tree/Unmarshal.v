(* Unmarshal.v — ytypes.Unmarshal of RFC 7951 JSON into a (possibly populated) GoStruct:
   unmarshalGeneric, unmarshalContainer/unmarshalStruct, unmarshalList (+ makeKeyForInsert),
   unmarshalLeafList, unmarshalLeaf (via Codec.dec_json), getJSONTreeValForField,
   checkDataTreeAgainstPaths, options IgnoreExtraFields and PreferShadowPath. *)
From Ygot Require Import Tree.Tree Tree.Codec Tree.TreeOps.

Record uopts := { o_ignore_extra : bool; o_prefer_shadow : bool }.

(* JSON equality (reflect.DeepEqual on decoded JSON) *)
Fixpoint json_eqb (a b : json) {struct a} : bool :=
  match a, b with
  | JNull, JNull => true
  | JBool x, JBool y => Bool.eqb x y
  | JNum m e, JNum m' e' => (m =? m')%Z && (e =? e')%Z
  | JStr s, JStr s' => str_eqb s s'
  | JArr l, JArr l' =>
      (fix go (x y : list json) : bool :=
         match x, y with
         | [], [] => true
         | p :: x', q :: y' => json_eqb p q && go x' y'
         | _, _ => false
         end) l l'
  | JObj m, JObj m' =>
      (fix go (x y : list (str * json)) : bool :=
         match x, y with
         | [], [] => true
         | (k, p) :: x', (k', q) :: y' => str_eqb k k' && json_eqb p q && go x' y'
         | _, _ => false
         end) m m'
  | _, _ => false
  end.

(* getJSONTreeValForPath: member names are compared with their module prefix stripped; the
   first matching member (in sorted member order) that leads to a value wins *)
Fixpoint jget (j : json) (path : list str) {struct path} : option json :=
  match path with
  | [] => Some j
  | p :: rest =>
      match j with
      | JObj m =>
          (fix try (l : list (str * json)) : option json :=
             match l with
             | [] => None
             | (k, v) :: t => if str_eqb p (strip_mod k)
                              then match jget v rest with Some r => Some r | None => try t end
                              else try t
             end) m
      | _ => None
      end
  end.

(* getJSONTreeValForField: value found under any of the field's paths; different non-null values
   at two paths are an error.  Ok None = not present (or null). *)
Fixpoint jget_field (j : json) (paths : list (list str)) (out : option json) : result (option json) :=
  match paths with
  | [] => Ok out
  | p :: rest =>
      match jget j p with
      | Some jr =>
          match out with
          | Some o => if json_eqb o jr then jget_field j rest (match jr with JNull => None | _ => Some jr end)
                      else Err
          | None => jget_field j rest (match jr with JNull => None | _ => Some jr end)
          end
      | None => jget_field j rest out
      end
  end.

(* checkDataTreeAgainstPaths: a trie of the allowed paths; every JSON member must be in it, and
   below a non-leaf trie node the JSON value must be an object *)
Inductive trie := TrieLeaf | TrieNode (m : list (str * trie)).
Fixpoint trie_add (p : list str) (t : trie) : trie :=
  match p with
  | [] => t
  | [k] => match t with
           | TrieNode m => TrieNode (al_insert (strip_mod k) TrieLeaf m)
           | TrieLeaf => TrieNode [(strip_mod k, TrieLeaf)]
           end
  | k :: rest =>
      let m := match t with TrieNode m => m | TrieLeaf => [] end in
      let sub := match al_find (strip_mod k) m with Some (TrieNode s) => TrieNode s | _ => TrieNode [] end in
      TrieNode (al_insert (strip_mod k) (trie_add rest sub) m)
  end.
Fixpoint check_tree (fuel : nat) (jm : list (str * json)) (t : trie) : bool :=
  match fuel with
  | O => false
  | S f =>
      let m := match t with TrieNode m => m | TrieLeaf => [] end in
      forallb (fun kv =>
        match al_find (strip_mod (fst kv)) m with
        | None => false
        | Some (TrieNode s) => match snd kv with JObj jm' => check_tree f jm' (TrieNode s) | _ => false end
        | Some TrieLeaf => true
        end) jm
  end.

Definition json_obj (j : json) : option (list (str * json)) := match j with JObj m => Some m | _ => None end.

(* size measure used as fuel: bounded by the JSON nesting depth *)
Fixpoint jdepth (j : json) : nat :=
  match j with
  | JArr l => S (fold_right (fun x acc => Nat.max (jdepth x) acc) O l)
  | JObj m => S (fold_right (fun kv acc => Nat.max (jdepth (snd kv)) acc) O m)
  | _ => 1%nat
  end.

Section Unmarshal.
  Variable env : enum_env.
  Variable fo : float_oracle.
  Variable opts : uopts.

  Definition upaths (f : finfo) : list (list str) :=
    if o_prefer_shadow opts && negb (nil_b (f_spaths f)) then f_spaths f else f_paths f.

  (* the Go enum type of a key leaf whose (leafref-resolved) type is an enumeration/identityref *)
  Fixpoint enum_key_type (t : ytype) : option str :=
    match t with
    | YEnum ty | YIdref ty => Some ty
    | YLeafref t' => enum_key_type t'
    | _ => None
    end.

  (* key tuple of an entry from its key leaves (makeKeyForInsert / getKeyValue) *)
  Fixpoint entry_key (sfs : list (finfo * schema)) (keys : list str) (fs : list (str * tree)) : result (list scalar) :=
    match keys with
    | [] => Ok []
    | k :: rest =>
        match key_field sfs k with
        | None => Err
        | Some (fi, ks) =>
            match field_get (f_go fi) fs with
            | Some (TLeaf v) => bind (entry_key sfs rest fs) (fun r => Ok (v :: r))
            | _ =>
                (* an enum-typed key field is an int64, not a pointer: unset reads as 0 *)
                match ks with
                | SLeaf kt _ =>
                    match enum_key_type kt with
                    | Some ty => bind (entry_key sfs rest fs) (fun r => Ok (VEnum ty 0 :: r))
                    | None => Err
                    end
                | _ => Err
                end
            end
        end
    end.

  (* decode the elements of a JSON leaf-list; null elements are skipped *)
  Fixpoint dec_leaflist (t : ytype) (l : list json) : result (list scalar) :=
    match l with
    | [] => Ok []
    | JNull :: r => dec_leaflist t r
    | j :: r => bind (dec_json env fo t j) (fun v => bind (dec_leaflist t r) (fun vs => Ok (v :: vs)))
    end.

  (* fuel = nesting depth of the JSON document (+2); out of fuel is Err and is excluded in theorems *)
  Fixpoint unm_node (fuel : nat) (s : schema) (cur : option tree) (j : json) {struct fuel} : result (option tree) :=
    match fuel with
    | O => Err
    | S f =>
      let unm_struct (sfs : list (finfo * schema)) (cur : list (str * tree)) (jm : list (str * json)) : result (list (str * tree)) :=
        bind ((fix fields (l : list (finfo * schema)) (acc : list (str * tree)) : result (list (str * tree)) :=
                 match l with
                 | [] => Ok acc
                 | (fi, ss) :: rest =>
                     bind (jget_field (JObj jm) (upaths fi) None) (fun ov =>
                       match ov with
                       | None => fields rest acc
                       | Some jv =>
                           bind (unm_node f ss (field_get (f_go fi) acc) jv) (fun nt =>
                             match nt with
                             | Some t => fields rest (field_set (go_names sfs) (f_go fi) t acc)
                             | None => fields rest (field_remove (f_go fi) acc)
                             end)
                       end)
                 end) sfs cur)
             (fun res =>
                if o_ignore_extra opts then Ok res
                else
                  let tr := fold_left (fun t fs => fold_left (fun t p => trie_add p t) (f_paths (fst fs) ++ f_spaths (fst fs)) t)
                                      sfs (TrieNode []) in
                  if check_tree (S (jdepth (JObj jm))) jm tr then Ok res else Err) in
      match s with
      | SLeaf t _ =>
          match j with
          | JNull => Ok cur
          | _ => bind (dec_json env fo t j) (fun v => Ok (Some (TLeaf v)))
          end
      | SLeafList t _ _ =>
          match j with
          | JNull => Ok cur
          | JArr l => bind (dec_leaflist t l) (fun vs => Ok (match vs with [] => None | _ => Some (TLeafList vs) end))
          | _ => Err
          end
      | SCont sfs =>
          match j with
          | JNull => Ok cur
          | JObj jm => bind (unm_struct sfs (match cur with Some c => fields_of c | None => [] end) jm)
                            (fun fs => Ok (Some (TCont fs)))
          | _ => Err
          end
      | SList ordered keys _ _ sfs =>
          match j with
          | JNull => Ok cur
          | JArr l =>
              bind ((fix elems (l : list json) (es : list (list scalar * tree)) : result (list (list scalar * tree)) :=
                       match l with
                       | [] => Ok es
                       | JObj jm :: rest =>
                           bind (unm_struct sfs [] jm) (fun nfs =>
                             bind (entry_key sfs keys nfs) (fun k =>
                               if ordered then
                                 (* AppendIntoOrderedMap: duplicate key is an error *)
                                 match tl_find k es with
                                 | Some _ => Err
                                 | None => elems rest (es ++ [(k, TCont nfs)])
                                 end
                               else
                                 match tl_find k es with
                                 | Some old => bind (unm_struct sfs (fields_of old) jm)
                                                    (fun mfs => elems rest (tl_insert k (TCont mfs) es))
                                 | None => elems rest (tl_insert k (TCont nfs) es)
                                 end))
                       | _ :: _ => Err
                       end) l (match cur with Some (TList es) => es | _ => [] end))
                   (fun es => Ok (Some (TList es)))
          | _ => Err
          end
      | SUnkeyed sfs =>
          match j with
          | JNull => Ok cur
          | JArr l =>
              bind ((fix elems (l : list json) (es : list tree) : result (list tree) :=
                       match l with
                       | [] => Ok es
                       | JObj jm :: rest => bind (unm_struct sfs [] jm) (fun nfs => elems rest (es ++ [TCont nfs]))
                       | _ :: _ => Err
                       end) l (match cur with Some (TUnkeyed es) => es | _ => [] end))
                   (fun es => Ok (Some (TUnkeyed es)))
          | _ => Err
          end
      end
    end.

  (* generated Unmarshal(data, root): the root schema is a container *)
  Definition unmarshal (s : schema) (cur : tree) (j : json) : result tree :=
    bind (unm_node (jdepth j + 2) s (Some cur) j) (fun o => match o with Some t => Ok t | None => Err end).
End Unmarshal.
