(* LeavesSetProofs.v — SetNode (ytypes/node.go, Tree/Node.v set_rec) seen through the leaves of
   ygot/render.go findUpdatedLeaves (Tree/Leaves.v): after a successful SetNode of a scalar payload
   on a leaf / leaf-list path that the schema walk of SetReqSpec accepts, the leaves are those of
   the spec (SetReqSpec.spec_update): the target holds the payload at every one of its paths, the
   key leaves of the list entries created on the way appear, every other leaf is as before.
   Proved by induction along the descent of set_rec, one struct (and the list step below it) at
   a time; the tree guard (NodeFrameProofs.nwf) is preserved. *)
From Ygot Require Import Tree.Tree Scalar.Dec Scalar.Base64 Tree.Codec Tree.CodecProofs.
From Ygot Require Import Tree.TreeOps Tree.Render Tree.Unmarshal Tree.RoundTrip Tree.RoundTripObjProofs Tree.RoundTripProofs.
From Ygot Require Import Tree.KeyCodec Tree.Leaves Tree.Notif Tree.Node Tree.SetReq Path.PathRel.
From Ygot Require Import Tree.KeyCodecProofs Tree.NodeStepProofs Tree.GnmiRt Tree.GnmiRtProofs.
From Ygot Require Import Tree.MergeJson Tree.MergeJsonProofs Tree.NodeFrameProofs Tree.NodeProofs.
From Ygot Require Import Tree.GnmiStatements Tree.SetReqSpec Tree.SetReqProofs Tree.LeavesBridgeProofs Tree.LeavesPartsProofs.

(* ====================================================================================== *)
(* 1. The payload                                                                         *)
(* ====================================================================================== *)

(* SetReqSpec.sch_value on the schema of the target *)
Definition payload_of (env : enum_env) (ko : key_oracle) (ss : schema) (x : tval) : option lval :=
  match ss, x with
  | _, TVNil | _, TVJsonIetf _ | _, TVJson _ => None
  | SLeaf ty _, _ => match decode_tv env ko false ty x with Ok v => Some (LV v) | _ => None end
  | SLeafList ty _ _, TVLeafList l =>
      match mapM (decode_tv env ko false ty) l with
      | Ok (v :: vs) => Some (LVs (v :: vs))
      | _ => None
      end
  | _, _ => None
  end.

Lemma sch_value_payload env ko sch p x :
  sch_value env ko sch p x =
  match node_at sch p with Some ni => payload_of env ko (ni_schema ni) x | None => None end.
Proof. reflexivity. Qed.

Lemma decode_leaflist_mapM env ko tol t : forall l acc ws,
  mapM (decode_tv env ko tol t) l = Ok ws -> decode_leaflist env ko tol t l acc = (acc ++ ws, Ok tt).
Proof.
  induction l as [|x l IH]; intros acc ws H; simpl in H.
  - injection H as <-. now rewrite app_nil_r.
  - cbn [decode_leaflist]. destruct (decode_tv env ko tol t x) as [v| |]; try discriminate. simpl in H.
    destruct (mapM (decode_tv env ko tol t) l) as [ws'| |] eqn:E; try discriminate. simpl in H. injection H as <-.
    rewrite (IH (acc ++ [v]) ws' eq_refl). now rewrite <- app_assoc.
Qed.

Lemma payload_set_leaf env fo ko o tv ss v : s_tol_json o = false -> is_leafish ss = true ->
  payload_of env ko ss tv = Some v ->
  tv_is_nil tv = false /\
  exists x3, (forall c, set_leaf env fo ko o tv ss c = (Some x3, Ok tt)) /\ kind2 ss x3 = true /\
    ((exists v0, x3 = TLeaf v0 /\ v = LV v0 /\ leaf_walk_ok env ss v0 = true) \/
     (exists v1 vs, x3 = TLeafList (v1 :: vs) /\ v = LVs (v1 :: vs))).
Proof.
  intros Htol Hl H. destruct ss as [ty d|ty mn mx| | |]; try discriminate.
  - destruct tv; try discriminate H;
      (cbn in H; match type of H with match decode_tv _ _ _ _ ?X with _ => _ end = _ =>
         destruct (decode_tv env ko false ty X) as [v0| |] eqn:E; try discriminate end;
       injection H as <-; split; [reflexivity|]; exists (TLeaf v0);
       split; [intros c; unfold set_leaf; rewrite Htol, E; reflexivity|]; split; [reflexivity|];
       left; exists v0; repeat split; eapply decode_tv_walk; eauto).
  - destruct tv; try discriminate H. cbn in H.
    destruct (mapM (decode_tv env ko false ty) l) as [[|v1 vs]| |] eqn:E; try discriminate. injection H as <-.
    split; [reflexivity|]. exists (TLeafList (v1 :: vs)). split; [|split; [reflexivity|right; eauto]].
    intros c. unfold set_leaf. rewrite Htol. destruct l as [|x l']; [discriminate|]. cbn [nil_b].
    rewrite (decode_leaflist_mapM env ko false ty (x :: l') [] (v1 :: vs) E). reflexivity.
Qed.

(* ====================================================================================== *)
(* 2. Key fields                                                                          *)
(* ====================================================================================== *)

Lemma key_field_target s sfs fi ss : swfb s = true -> struct_schema s sfs -> In (fi, ss) sfs ->
  is_key_field s (f_go fi) = true ->
  exists ord keys mn mx k t d, s = SList ord keys mn mx sfs /\ In k keys
    /\ key_field sfs k = Some (fi, SLeaf t d) /\ ss = SLeaf t d.
Proof.
  intros Hw Hs Hin Hk. destruct s as [| | |ord keys mn mx sfs0|]; try discriminate.
  assert (sfs0 = sfs) by (destruct Hs as [|(o1 & k1 & a1 & b1 & [= -> -> -> -> ->])]; [discriminate|reflexivity]).
  subst sfs0. destruct (swfb_fields _ Hw) as [Hnd _]. simpl in Hnd.
  destruct (list_keys_ok_inv _ _ (swfb_list_keys _ _ _ _ _ Hw)) as (_ & Hkl & _).
  simpl in Hk. apply existsb_exists in Hk as (k & Hkin & Hk).
  destruct (key_leaf_ok_inv _ _ Hnd (Hkl k Hkin)) as (fk & t & d & E1 & _ & _ & Hink & _).
  rewrite E1 in Hk. apply cstr_eqb_eq in Hk.
  pose proof (go_name_unique sfs Hnd _ _ _ _ Hin Hink Hk) as [= -> ->].
  exists ord, keys, mn, mx, k, t, d. auto.
Qed.

Lemma nonleaf_not_key s sfs fi ss : swfb s = true -> struct_schema s sfs -> In (fi, ss) sfs ->
  (forall t d, ss <> SLeaf t d) -> is_key_field s (f_go fi) = false.
Proof.
  intros Hw Hs Hin Hnl. destruct (is_key_field s (f_go fi)) eqn:E; [|reflexivity]. exfalso.
  destruct (key_field_target s sfs fi ss Hw Hs Hin E) as (? & ? & ? & ? & ? & t & d & _ & _ & _ & ->).
  now apply (Hnl t d).
Qed.

Lemma final_not_key s sfs fi ss p par : swfb s = true -> struct_schema s sfs -> In (fi, ss) sfs ->
  is_leafish ss = true -> ni_key_leaf (final_info s fi ss p par) = false -> is_key_field s (f_go fi) = false.
Proof.
  intros Hw Hs Hin Hl Hk. destruct (is_key_field s (f_go fi)) eqn:E; [|reflexivity]. exfalso.
  destruct (key_field_target s sfs fi ss Hw Hs Hin E) as (ord & keys & mn & mx & k & t & d & -> & Hkin & E1 & ->).
  cbn [ni_key_leaf final_info] in Hk. rewrite Hl in Hk. cbn [andb] in Hk.
  apply not_true_iff_false in Hk. apply Hk. apply existsb_exists. exists k. split; [exact Hkin|].
  unfold key_field in E1. apply find_some in E1 as [_ E1]. exact E1.
Qed.

Lemma key_fields_kept s sfs fs fi c3 : is_key_field s (f_go fi) = false ->
  forall g0, is_key_field s g0 = true ->
  field_get g0 (put_field (go_names sfs) (f_go fi) c3 fs) = field_get g0 fs.
Proof. intros Hn g0 Hg0. apply put_field_get_other. intros ->. congruence. Qed.

(* the keys of a list entry are untouched when no key field is *)
Lemma keys_ok_kept env fo ko ord keys mn mx esfs mk fsin efs' :
  keys_ok env fo ko esfs keys mk fsin = true ->
  (forall g0, is_key_field (SList ord keys mn mx esfs) g0 = true -> field_get g0 efs' = field_get g0 fsin) ->
  keys_ok env fo ko esfs keys mk efs' = true.
Proof.
  intros Hk Hkeep. eapply keys_ok_ext; [|exact Hk]. intros k fi ks Hkin E. apply Hkeep.
  simpl. apply existsb_exists. exists k. split; [exact Hkin|]. rewrite E. apply cstr_eqb_refl.
Qed.

(* ====================================================================================== *)
(* 3. The schema walk at a list element                                                   *)
(* ====================================================================================== *)

Lemma walk_here_list env fo ko keys mn mx esfs ek plen n done' l :
  walk_here env fo ko (SList false keys mn mx esfs) ek plen n done' = Some l -> plen <> n ->
  NoDup (go_names esfs) -> (forall k, In k keys -> key_leaf_okb esfs k = true) ->
  exists mk, nil_b ek = false /\ keys_sortedb ek = true /\ length ek = length keys
    /\ path_key env fo ko false esfs keys ek = Some mk /\ existsb nan_key mk = false
    /\ l = kleaves esfs keys mk done'.
Proof.
  intros H Hne Hnd Hkl. unfold walk_here in H. destruct (nil_b ek) eqn:En.
  - apply Nat.eqb_neq in Hne. rewrite Hne in H. discriminate.
  - destruct (keys_sortedb ek && Nat.eqb (length ek) (length keys)) eqn:Es; [|discriminate].
    apply andb_true_iff in Es as [Es El]. apply Nat.eqb_eq in El.
    destruct (entry_keyleaves_path env fo ko esfs ek done' Hnd keys l Hkl H) as (mk & Hp & Hnan & ->).
    exists mk. auto 10.
Qed.

Lemma pnames_firstn_prefix : forall alt p, is_prefixb alt (pnames p) = true -> pnames (firstn (length alt) p) = alt.
Proof.
  induction alt as [|x alt IH]; intros p H; [reflexivity|]. destruct p as [|e p']; [discriminate|].
  simpl in H. apply andb_true_iff in H as [Hx H]. apply cstr_eqb_eq in Hx. simpl. rewrite Hx. f_equal. auto.
Qed.

(* ====================================================================================== *)
(* 4. SetNode along the descent                                                           *)
(* ====================================================================================== *)

Section SetLeaves.
  Variable env : enum_env.
  Variable fo : float_oracle.
  Variable ko : key_oracle.
  Variable o : set_opts.
  Variable tv : tval.
  Hypothesis Hinit : s_init o = true.
  Hypothesis Hsh : s_shadow o = false.
  Hypothesis Htol : s_tol_json o = false.
  Notation nwf := (nwf env fo ko).
  Notation keys_ok := (keys_ok env fo ko).
  Notation FLv := (find_leaves env ko false false).
  Notation L := (flat_map plain_of).
  Notation SR := (set_rec env fo ko o tv).

  Definition set_concl (s : schema) (fs : list (str * tree)) (par : dpath) (ni : node_info) (kl : lmap) (v : lval)
      (items : list litem) (c' : option tree) (n : nat) : Prop :=
    n <> O /\ exists fs' items', c' = Some (TCont fs') /\ nwf s (TCont fs')
      /\ (forall g0, is_key_field s g0 = true -> field_get g0 fs' = field_get g0 fs)
      /\ FLv s (TCont fs') par = Ok items'
      /\ forall q w, In (q, w) (L items') <-> upd_in (ni_alts ni) v kl (L items) q w.

  Lemma set_struct_leaves : forall f s sfs fs p par c' n g1 g2 ni kl v items,
    c13_schemab s = true -> struct_schema s sfs -> nwf s (TCont fs) -> prefix_okb par = true -> p <> [] ->
    SR f s (Some (TCont fs)) p = (c', Ok n) ->
    schema_at g1 s p par = Some ni -> is_leafish (ni_schema ni) = true -> ni_key_leaf ni = false ->
    sch_walk env fo ko g2 s p par = Some kl ->
    payload_of env ko (ni_schema ni) tv = Some v ->
    FLv s (TCont fs) par = Ok items ->
    set_concl s fs par ni kl v items c' n.
  Proof.
    induction f as [f IH] using lt_wf_ind.
    intros s sfs fs p par c' n g1 g2 ni kl v items Hc Hs Hn Hpar Hp Hset Hsa Hleaf Hnk Hwalk Hpay Hfl.
    destruct f as [|f']; [discriminate|]. destruct p as [|e0 prest]; [congruence|]. clear Hp.
    set (p := e0 :: prest) in *.
    pose proof (struct_schema_fields _ _ Hs) as Hsf.
    destruct (c13_schemab_parts s Hc) as (Hgn & Hsw & Hsp).
    destruct (gn_schemab_fields s Hgn) as [Hok Hchs]. rewrite Hsf in Hok, Hchs.
    destruct (swfb_fields s Hsw) as [Hnd Hsub]. rewrite Hsf in Hnd, Hsub.
    assert (Hunf : SR (S f') s (Some (TCont fs)) p = set_struct env fo ko o tv f' sfs fs p).
    { destruct Hs as [->|(o1 & k1 & a1 & b1 & ->)]; [apply set_rec_cont | apply set_rec_entry]. }
    rewrite Hunf in Hset. clear Hunf.
    (* the field the path continues in *)
    destruct g1 as [|g1]; [discriminate|]. destruct g2 as [|g2]; [discriminate|].
    destruct (find_field false false p sfs) as [fi ss alt [|]| |] eqn:E;
      try (rewrite schema_at_none in Hsa; [discriminate | discriminate | rewrite Hsf; intros ? ? ?; congruence]).
    destruct (find_field_facts p sfs fi ss alt Hok E) as (Hin & Halt & Haltne & Hpre & Hlen & _).
    rewrite (schema_at_step g1 s p par fi ss alt) in Hsa by (discriminate || (rewrite Hsf; exact E)).
    rewrite (sch_walk_step env fo ko g2 s p par fi ss alt) in Hwalk by (discriminate || (rewrite Hsf; exact E)).
    cbv zeta in Hwalk.
    set (na := length alt) in *. set (ch := firstn na p) in *. set (ek := ekeys (last ch (mk_elem []))) in *.
    destruct (forallb (fun e => nil_b (ekeys e)) (removelast ch)) eqn:Hinner; [|discriminate]. cbn [negb] in Hwalk.
    destruct (walk_here env fo ko ss ek (length p) na (par ++ ch)) as [l|] eqn:Ehere; [|discriminate].
    destruct (c13_schemab_fields s Hc fi ss ltac:(rewrite Hsf; exact Hin)) as [Hcs Hone].
    assert (Hino : In (f_go fi) (go_names sfs)) by apply (in_map (fun fs => f_go (fst fs)) _ _ Hin).
    pose proof Hn as Hn0. apply nwf_cont in Hn0. rewrite Hsf in Hn0.
    pose proof (cur_ok_field env fo ko sfs fs fi ss Hn0 Hin) as Hc0.
    assert (Hchn : pnames ch = alt) by (apply pnames_firstn_prefix; exact Hpre).
    unfold set_struct in Hset. rewrite Hsh, E, Hinit in Hset. cbv zeta in Hset.
    set (c0 := field_get (f_go fi) fs) in *.
    destruct (Nat.eqb (length p) na) eqn:Elen.
    - (* ---------------- the target: a leaf or leaf-list field ---------------- *)
      apply Nat.eqb_eq in Elen. injection Hsa as <-. cbn [ni_schema final_info] in Hleaf, Hpay.
      injection Hwalk as <-.
      assert (Hek : nil_b ek = true /\ l = []).
      { unfold walk_here in Ehere. destruct ss; try discriminate; destruct (nil_b ek); try discriminate; now injection Ehere as <-. }
      destruct Hek as [Hek ->].
      assert (Hch : ch = p) by (unfold ch; apply firstn_all2; lia).
      assert (Hpp : p = path_of_names alt).
      { rewrite <- Hch. apply chunk_plain; auto. }
      assert (Halts : ni_alts (final_info s fi ss p par) = lib_paths false fi par).
      { cbn [ni_alts final_info]. unfold lib_paths, tag_paths. cbn [andb]. apply map_ext. intros a.
        assert (Hl : ekeys (last p (mk_elem [])) = []).
        { unfold ek in Hek. rewrite Hch in Hek. destruct (ekeys (last p (mk_elem []))); [reflexivity|discriminate]. }
        now rewrite Hl, keys_on_last_nil. }
      destruct (payload_set_leaf env fo ko o tv ss v Htol Hleaf Hpay) as (Hnil & x3 & Hsl & Hk3 & Hx3).
      assert (Hto : consumed ss alt = na) by (unfold consumed; destruct ss; try discriminate; reflexivity).
      rewrite Hto, Hnil, Elen, Nat.eqb_refl, Hleaf in Hset. cbn [negb andb] in Hset.
      rewrite (init_field_leaf ss c0 Hleaf), Hsl in Hset.
      assert (Hskip : skipn na p = []) by (apply skipn_all2; lia). rewrite Hskip in Hset.
      destruct f' as [|f'']; [discriminate|]. cbn [set_rec] in Hset. unfold set_terminal in Hset.
      rewrite Hleaf, orb_true_r in Hset. injection Hset as <- <-.
      assert (Hnkf : is_key_field s (f_go fi) = false) by (eapply final_not_key; eauto).
      assert (Hfl3 : exists h3, fl_field env ko false sfs par (f_go fi, x3) = Ok h3 /\
                       forall q w, In (q, w) (L h3) <-> In q (lib_paths false fi par) /\ w = v).
      { unfold fl_field. rewrite (find_go sfs fi ss Hnd Hin). cbv zeta.
        destruct Hx3 as [(v0 & -> & -> & Hw)|(v1 & vs & -> & ->)].
        - rewrite Hw. eexists. split; [reflexivity|]. intros q w. apply leaf_items_In.
        - eexists. split; [reflexivity|]. intros q w. apply leaf_items_In. }
      destruct Hfl3 as (h3 & Hh3 & HL3).
      destruct (struct_replace env fo ko false s sfs fs par fi ss (Some x3) items Hgn Hs Hnd Hn Hin Hfl)
        as (O & items' & Hit' & HL & HL' & Hout); try (fold c0 in HL).
      { intros x [= <-]. eauto. }
      split; [discriminate|]. exists (put_field (go_names sfs) (f_go fi) (Some x3) fs), items'.
      split; [reflexivity|]. split; [|split; [|split; [exact Hit'|]]].
      + apply (nwf_put_field env fo ko s sfs fs fi ss (Some x3) Hs Hnd Hn Hin). intros x [= <-]. split; [exact Hk3|].
        destruct Hx3 as [(v0 & -> & _)|(v1 & vs & -> & _)]; exact I.
      + apply key_fields_kept. exact Hnkf.
      + (* the leaves *)
        assert (Hund : forall q w, In (q, w) O -> under (lib_paths false fi par) q = false).
        { intros q w Hq. unfold under. destruct (existsb (fun a => is_prefix a q) (lib_paths false fi par)) eqn:Eu; [|reflexivity].
          apply existsb_exists in Eu as (a & Ha & Hpa). unfold lib_paths in Ha. apply in_map_iff in Ha as (a0 & <- & Ha0).
          unfold is_prefix in Hpa.
          pose proof (Hout a0 (path_of_names a0) Ha0 (pnames_of_names a0) q w Hq []) as Ho. rewrite app_nil_r in Ho. congruence. }
        assert (Hold : forall q w, In (q, w) (Lo_field env ko false sfs par (f_go fi) c0) -> under (lib_paths false fi par) q = true).
        { intros q w Hq. unfold Lo_field in Hq. destruct c0 as [x0|] eqn:Ec0; [|destruct Hq].
          assert (Hq' : In q (lib_paths false fi par)).
          { destruct Hc0 as [_ Hsh0]. apply shape_kind2 in Hsh0.
            unfold fl_field in Hq. rewrite (find_go sfs fi ss Hnd Hin) in Hq. cbv zeta in Hq.
            destruct ss; try discriminate; destruct x0; try discriminate.
            - destruct (leaf_walk_ok env _ v0); [|destruct Hq]. now apply leaf_items_In in Hq as [Hq _].
            - destruct vs as [|v1 vs']; [destruct Hq|]. now apply leaf_items_In in Hq as [Hq _]. }
          unfold under. apply existsb_exists. exists q. split; [exact Hq'|]. unfold is_prefix. apply elems_prefix_refl.
          unfold lib_paths in Hq'. apply in_map_iff in Hq' as (a0 & <- & _).
          now rewrite prefix_okb_app, Hpar, prefix_okb_names. }
        intros q w. rewrite Halts, (HL' (q, w)).
        rewrite (upd_in_ext _ v [] _ _ q w (fun p0 x => HL (p0, x))).
        unfold Lo_field at 1. rewrite Hh3. rewrite in_app_iff, HL3. unfold upd_in. rewrite in_app_iff. split.
        * intros [Ha|Ho]; [left; exact Ha|]. right. split; [eapply Hund; eauto|]. left. now right.
        * intros [Ha|[Hu [[Ho|Ho]|[[] _]]]]; [left; exact Ha| |right; exact Ho].
          apply Hold in Ho. congruence.
    - (* ---------------- on the way: a container or a list ---------------- *)
      apply Nat.eqb_neq in Elen.
      assert (Hskipne : skipn na p <> []).
      { intros Hk. apply skipn_nil_len in Hk. lia. }
      destruct (sch_walk env fo ko g2 ss (skipn na p) (par ++ ch)) as [r|] eqn:Er; [|discriminate].
      injection Hwalk as <-.
      assert (Hnotleaf : is_leafish ss = false).
      { destruct ss as [t d|t mn mx| | |]; try reflexivity; exfalso;
          (destruct g1; [discriminate|]); (rewrite schema_at_none in Hsa; [discriminate | exact Hskipne | intros ? ? ? H; destruct (skipn na p); [congruence|discriminate H]]). }
      destruct Hone as [Hone|(a1 & Hone)]; [congruence|].
      assert (a1 = alt) by (rewrite Hone in Halt; destruct Halt as [<-|[]]; reflexivity). subst a1.
      assert (Hnkf : is_key_field s (f_go fi) = false).
      { eapply nonleaf_not_key; eauto. intros t d ->. discriminate. }
      assert (Hdone : prefix_okb (par ++ ch) = true -> paths_inside (par ++ ch) (ni_alts ni) /\ inside (par ++ ch) r).
      { intros _. split; [eapply schema_at_inside; eauto | eapply sch_walk_inside; eauto]. }
      assert (Hp0 : hd [] (lib_paths false fi par) = par ++ path_of_names alt).
      { unfold lib_paths, tag_paths. cbn [andb]. now rewrite Hone. }
      destruct ss as [| |csfs|ord keys mn mx esfs|]; try discriminate.
      + (* ---- a container ---- *)
        assert (Hek : nil_b ek = true /\ l = []).
        { unfold walk_here in Ehere. destruct (nil_b ek); try discriminate; now injection Ehere as <-. }
        destruct Hek as [Hek ->]. cbn [app].
        assert (Hch : ch = path_of_names alt) by (apply chunk_plain; auto).
        rewrite Hch in *.
        assert (Hpar' : prefix_okb (par ++ path_of_names alt) = true) by now rewrite prefix_okb_app, Hpar, prefix_okb_names.
        destruct (Hdone Hpar') as [Hai Hri].
        assert (Hto : consumed (SCont csfs) alt = na) by reflexivity.
        rewrite Hto in Hset. cbn [is_leafish] in Hset. rewrite andb_false_r in Hset.
        (* the child *)
        assert (Hc1 : exists cfs1, init_field (SCont csfs) c0 = Some (TCont cfs1) /\ nwf (SCont csfs) (TCont cfs1)
                        /\ (c0 = Some (TCont cfs1) \/ (c0 = None /\ cfs1 = []))).
        { destruct c0 as [x0|] eqn:Ec0.
          - destruct Hc0 as [Hn1 Hsh1]. destruct Hsh1 as [cfs1 ->]. exists cfs1. auto.
          - exists []. split; [reflexivity|]. split; [|now right]. apply nwf_cont. split; [apply ss_nil | intros ? ? []]. }
        destruct Hc1 as (cfs1 & Ec1 & Hn1 & Hc01). rewrite Ec1 in Hset.
        destruct (SR f' (SCont csfs) (Some (TCont cfs1)) (skipn na p)) as [c3 r3] eqn:Erec.
        injection Hset as <- ->.
        assert (Hfl1 : exists citems, FLv (SCont csfs) (TCont cfs1) (par ++ path_of_names alt) = Ok citems
                         /\ forall e, In e (Lo_field env ko false sfs par (f_go fi) c0) <-> In e (L citems)).
        { destruct Hc01 as [E0|[E0 ->]].
          - rewrite FL_struct, Hsf in Hfl. unfold c0 in E0. apply field_get_In in E0.
            destruct (concatM_inv _ _ _ Hfl _ E0) as (h0 & Hh0). exists h0.
            fold c0. unfold Lo_field. assert (Ec : c0 = Some (TCont cfs1)) by (unfold c0; now apply In_field_get; [eapply subseq_NoDup; [apply Hn0|exact Hnd]|]).
            rewrite Ec, Hh0. unfold fl_field in Hh0. rewrite (find_go sfs fi _ Hnd Hin) in Hh0. cbv zeta in Hh0.
            rewrite Hp0 in Hh0. split; [exact Hh0|tauto].
          - exists []. rewrite E0. split; [reflexivity|]. simpl. tauto. }
        destruct Hfl1 as (citems & Hfl1 & HLc).
        destruct (IH f' ltac:(lia) (SCont csfs) csfs cfs1 (skipn na p) (par ++ path_of_names alt) c3 n g1 g2 ni r v citems
                    Hcs (or_introl eq_refl) Hn1 Hpar' Hskipne Erec Hsa Hleaf Hnk Er Hpay Hfl1)
          as (Hn0' & cfs' & citems' & -> & Hn3 & _ & Hfl3 & HL3).
        destruct (struct_replace env fo ko false s sfs fs par fi (SCont csfs) (Some (TCont cfs')) items Hgn Hs Hnd Hn Hin Hfl)
          as (O & items' & Hit' & HL & HL' & Hout); try (fold c0 in HL).
        { intros x [= <-]. exists citems'. unfold fl_field. rewrite (find_go sfs fi _ Hnd Hin). cbv zeta. now rewrite Hp0. }
        split; [exact Hn0'|]. exists (put_field (go_names sfs) (f_go fi) (Some (TCont cfs')) fs), items'.
        split; [reflexivity|]. split; [|split; [|split; [exact Hit'|]]].
        * apply (nwf_put_field env fo ko s sfs fs fi (SCont csfs) (Some (TCont cfs')) Hs Hnd Hn Hin). intros x [= <-]. auto.
        * apply key_fields_kept. exact Hnkf.
        * intros q w. rewrite (HL' (q, w)).
          rewrite (upd_in_ext _ v r _ _ q w (fun p0 x => HL (p0, x))).
          assert (E3 : Lo_field env ko false sfs par (f_go fi) (Some (TCont cfs')) = L citems').
          { unfold Lo_field, fl_field. rewrite (find_go sfs fi _ Hnd Hin). cbv zeta. now rewrite Hp0, Hfl3. }
          rewrite E3.
          rewrite (upd_in_ext _ v r (Lo_field env ko false sfs par (f_go fi) c0 ++ O) (L citems ++ O) q w).
          2:{ intros p0 x. rewrite !in_app_iff, (HLc (p0, x)). tauto. }
          apply (upd_frame (par ++ path_of_names alt) (ni_alts ni) v r (L citems) (L citems') O Hai Hri); auto.
          apply (Hout alt (path_of_names alt) Halt (pnames_of_names alt)).
      + (* ---- a list ---- *)
        destruct ord; [unfold walk_here in Ehere; discriminate|].
        destruct (c13_schemab_parts (SList false keys mn mx esfs) Hcs) as (Hgns & Hsws & _).
        destruct (swfb_fields (SList false keys mn mx esfs) Hsws) as [Hnde _]. cbn [sfields] in Hnde.
        destruct (list_keys_ok_inv _ _ (swfb_list_keys _ _ _ _ _ Hsws)) as (Hkne & Hkl & Hkd).
        destruct (gn_schemab_list _ _ _ _ _ Hgns) as (_ & Hdk & _ & _).
        destruct (walk_here_list env fo ko keys mn mx esfs ek (length p) na (par ++ ch) l Ehere Elen Hnde Hkl)
          as (mk & Hekn & Hsorted & Heklen & Hpk & Hnan & ->).
        pose proof (canonical_keys env fo ko esfs ek keys mk Hdk Hpk Hsorted Heklen) as Hcanon.
        set (nm := last alt []) in *. set (front := par ++ path_of_names (removelast alt)) in *.
        assert (Hch : ch = path_of_names (removelast alt) ++ [{| ename := nm; ekeys := ek |}]) by (apply chunk_shape; auto).
        assert (Hdone' : par ++ ch = front ++ [{| ename := nm; ekeys := ek |}]) by (rewrite Hch; unfold front; now rewrite app_assoc).
        assert (Hp0' : par ++ path_of_names alt = front ++ [mk_elem nm]).
        { unfold front, nm. rewrite (removelast_last_names alt Haltne) at 1. now rewrite app_assoc. }
        assert (Hpar' : prefix_okb (par ++ ch) = true).
        { rewrite Hdone'. unfold front. rewrite !prefix_okb_app, Hpar, prefix_okb_names. cbn [prefix_okb forallb ekeys andb].
          rewrite andb_true_r. apply ssorted_nodup. now apply keys_sorted_ssorted. }
        destruct (Hdone Hpar') as [Hai Hri].
        assert (Hto : consumed (SList false keys mn mx esfs) alt = Nat.pred na) by reflexivity.
        rewrite Hto in Hset. cbn [is_leafish] in Hset. rewrite andb_false_r in Hset.
        assert (Hsk : skipn (Nat.pred na) p = {| ename := nm; ekeys := ek |} :: skipn na p).
        { apply (skipn_pred_chunk (path_of_names (removelast alt))); [unfold na; exact Hlen | exact Hch]. }
        rewrite Hsk in Hset.
        (* the list *)
        assert (Hc1 : exists es1, init_field (SList false keys mn mx esfs) c0 = Some (TList es1) /\ nwf (SList false keys mn mx esfs) (TList es1)
                        /\ (c0 = Some (TList es1) \/ (c0 = None /\ es1 = []))).
        { destruct c0 as [x0|] eqn:Ec0.
          - destruct Hc0 as [Hn1 Hsh1]. destruct Hsh1 as [es1 ->]. exists es1. auto.
          - exists []. split; [reflexivity|]. split; [|now right]. apply nwf_list. split; [reflexivity | intros ? ? []]. }
        destruct Hc1 as (es1 & Ec1 & Hn1 & Hc01). rewrite Ec1 in Hset.
        destruct (SR f' (SList false keys mn mx esfs) (Some (TList es1)) ({| ename := nm; ekeys := ek |} :: skipn na p)) as [c3 r3] eqn:Erec.
        injection Hset as <- ->.
        destruct f' as [|f0]; [discriminate|].
        pose proof Hn1 as Hn1'. apply nwf_list in Hn1' as [Hokb Hent].
        assert (Heok : entries_ok env fo ko esfs keys es1) by (intros k e Hi; now destruct (Hent _ _ Hi)).
        pose proof (keys_okb_NoDup _ _ Hokb) as Hdist.
        (* the leaves of the list before *)
        assert (Hfl1 : exists litems, fl_entries env ko false (SList false keys mn mx esfs) esfs keys (front ++ [mk_elem nm]) es1 = Ok litems
                         /\ forall e, In e (Lo_field env ko false sfs par (f_go fi) c0) <-> In e (L litems)).
        { destruct Hc01 as [E0|[E0 ->]].
          - rewrite FL_struct, Hsf in Hfl. pose proof E0 as E0'. unfold c0 in E0'. apply field_get_In in E0'.
            destruct (concatM_inv _ _ _ Hfl _ E0') as (h0 & Hh0). exists h0.
            unfold Lo_field. rewrite E0, Hh0. unfold fl_field in Hh0. rewrite (find_go sfs fi _ Hnd Hin) in Hh0. cbv zeta in Hh0.
            rewrite Hp0, Hp0' in Hh0. split; [exact Hh0|tauto].
          - exists []. rewrite E0. split; [reflexivity|]. simpl. tauto. }
        destruct Hfl1 as (litems & Hfl1 & HLc).
        (* the entry the path selects, and what the recursive call does with it *)
        assert (Hentry : forall fsin eitems e' m,
                  keys_ok esfs keys mk fsin = true -> nwf (SList false keys mn mx esfs) (TCont fsin) ->
                  FLv (SList false keys mn mx esfs) (TCont fsin) (par ++ ch) = Ok eitems ->
                  SR f0 (SList false keys mn mx esfs) (Some (TCont fsin)) (skipn na p) = (e', Ok m) ->
                  m <> O /\ exists efs' eitems', e' = Some (TCont efs') /\ nwf (SList false keys mn mx esfs) (TCont efs')
                    /\ keys_ok esfs keys mk efs' = true
                    /\ fl_entry env ko false (SList false keys mn mx esfs) esfs keys (front ++ [mk_elem nm]) (mk, TCont efs') = Ok eitems'
                    /\ forall q w, In (q, w) (L eitems') <-> upd_in (ni_alts ni) v r (L eitems) q w).
        { intros fsin eitems e' m Hkin Hnin Hflin Hr.
          destruct (IH f0 ltac:(lia) (SList false keys mn mx esfs) esfs fsin (skipn na p) (par ++ ch) e' m g1 g2 ni r v eitems
                      Hcs (or_intror (ex_intro _ false (ex_intro _ keys (ex_intro _ mn (ex_intro _ mx eq_refl)))))
                      Hnin Hpar' Hskipne Hr Hsa Hleaf Hnk Er Hpay Hflin)
            as (Hm & efs' & eitems' & -> & Hn3 & Hkeep & Hfl3 & HL3).
          split; [exact Hm|]. exists efs', eitems'. split; [reflexivity|]. split; [exact Hn3|].
          assert (Hk3 : keys_ok esfs keys mk efs' = true) by (eapply keys_ok_kept; eauto).
          split; [exact Hk3|]. split; [|exact HL3].
          unfold fl_entry. cbn [snd fields_of]. rewrite (entry_key_strs_ok env fo ko esfs keys mk efs' Hk3), Hcanon. cbn [bind].
          rewrite set_last_keys_snoc. cbn [bind ename mk_elem]. rewrite <- Hdone'. exact Hfl3. }
        (* the list after *)
        assert (Hlist : forall es' efs' eitems',
                  keys_okb false (map fst es') = true -> tl_find mk es' = Some (TCont efs') ->
                  (forall k, k <> mk -> tl_find k es' = tl_find k es1) ->
                  (forall x, In x es' -> x = (mk, TCont efs') \/ In x es1) ->
                  nwf (SList false keys mn mx esfs) (TCont efs') -> keys_ok esfs keys mk efs' = true ->
                  fl_entry env ko false (SList false keys mn mx esfs) esfs keys (front ++ [mk_elem nm]) (mk, TCont efs') = Ok eitems' ->
                  (forall q w, In (q, w) (L eitems' ++ (fun O => O) []) <-> In (q, w) (L eitems')) ->
                  n <> O ->
                  (forall O, outside (par ++ ch) O ->
                     (forall e, In e (L litems) <-> In e (Lo_entry env ko false (SList false keys mn mx esfs) esfs keys (front ++ [mk_elem nm]) mk (tl_find mk es1) ++ O)) ->
                     forall q w, In (q, w) (L eitems' ++ O) <-> upd_in (ni_alts ni) v (kleaves esfs keys mk (par ++ ch) ++ r) (L litems) q w) ->
                  set_concl s fs par ni (kleaves esfs keys mk (par ++ ch) ++ r) v items
                    (Some (TCont (put_field (go_names sfs) (f_go fi) (Some (TList es')) fs))) n).
        { intros es' efs' eitems' Hokb' Hf3 Hoth Hin' Hn3 Hk3 Hfe3 _ Hn0' Hcore.
          destruct (list_replace env fo ko false false keys mn mx esfs front nm es1 es' mk (Some (TCont efs')) litems ek efs'
                      Hgns Hn1 Hokb' Hf3 Hoth Hfl1 Hk3 Hcanon) as (O1 & litems' & Hlit' & HLl & HLl' & Hout1).
          { intros e3 [= <-]. eauto. }
          rewrite <- Hdone' in Hout1.
          assert (Hn3l : nwf (SList false keys mn mx esfs) (TList es')).
          { apply nwf_list. split; [exact Hokb'|]. intros k e Hi. destruct (Hin' _ Hi) as [[= -> ->]|Hi']; [|now apply Hent].
            split; [eauto|exact Hn3]. }
          destruct (struct_replace env fo ko false s sfs fs par fi (SList false keys mn mx esfs) (Some (TList es')) items Hgn Hs Hnd Hn Hin Hfl)
            as (O & items' & Hit' & HL & HL' & Hout); try (fold c0 in HL).
          { intros x [= <-]. exists litems'. unfold fl_field. rewrite (find_go sfs fi _ Hnd Hin). cbv zeta.
            now rewrite Hp0, Hp0'. }
          split; [exact Hn0'|]. exists (put_field (go_names sfs) (f_go fi) (Some (TList es')) fs), items'.
          split; [reflexivity|]. split; [|split; [|split; [exact Hit'|]]].
          - apply (nwf_put_field env fo ko s sfs fs fi (SList false keys mn mx esfs) (Some (TList es')) Hs Hnd Hn Hin). intros x [= <-]. auto.
          - apply key_fields_kept. exact Hnkf.
          - intros q w. rewrite (HL' (q, w)).
            rewrite (upd_in_ext _ v _ _ _ q w (fun p0 x => HL (p0, x))).
            assert (E3 : Lo_field env ko false sfs par (f_go fi) (Some (TList es')) = L litems').
            { unfold Lo_field, fl_field. rewrite (find_go sfs fi _ Hnd Hin). cbv zeta. now rewrite Hp0, Hp0', Hlit'. }
            rewrite E3.
            rewrite (upd_in_ext _ v _ (Lo_field env ko false sfs par (f_go fi) c0 ++ O) (L litems ++ O) q w).
            2:{ intros p0 x. rewrite !in_app_iff, (HLc (p0, x)). tauto. }
            apply (upd_frame (par ++ ch) (ni_alts ni) v _ (L litems) (L litems') O Hai); auto.
            + apply inside_app; [apply kleaves_inside | exact Hri].
            + apply (Hout alt ch Halt Hchn).
            + intros q0 w0. rewrite (HLl' (q0, w0)). unfold Lo_entry. rewrite Hfe3. apply (Hcore O1 Hout1).
              intros e. apply HLl. }
        (* the two ways to the entry *)
        assert (Hexist : forall fsin e' m, tl_find mk es1 = Some (TCont fsin) ->
                  SR f0 (SList false keys mn mx esfs) (Some (TCont fsin)) (skipn na p) = (e', Ok m) ->
                  (m <> O -> n = m /\ forall e'', e' = Some e'' -> c3 = Some (TList (tl_insert mk e'' es1))) ->
                  set_concl s fs par ni (kleaves esfs keys mk (par ++ ch) ++ r) v items
                    (Some (TCont (put_field (go_names sfs) (f_go fi) c3 fs))) n).
        { intros fsin e' m Ef Hr Hc3. pose proof (tl_find_In _ _ _ Ef) as Hi.
          destruct (Hent _ _ Hi) as [(fs0 & [= <-] & Hkin) Hnin].
          assert (Hflin : exists eitems, FLv (SList false keys mn mx esfs) (TCont fsin) (par ++ ch) = Ok eitems
                            /\ fl_entry env ko false (SList false keys mn mx esfs) esfs keys (front ++ [mk_elem nm]) (mk, TCont fsin) = Ok eitems).
          { rewrite fl_entries_concat in Hfl1. destruct (concatM_inv _ _ _ Hfl1 _ Hi) as (h & Hh). exists h. split; [|exact Hh].
            unfold fl_entry in Hh. cbn [snd fields_of] in Hh.
            rewrite (entry_key_strs_ok env fo ko esfs keys mk fsin Hkin), Hcanon in Hh. cbn [bind] in Hh.
            rewrite set_last_keys_snoc in Hh. cbn [bind ename mk_elem] in Hh. now rewrite Hdone'. }
          destruct Hflin as (eitems & Hflin & Hfein).
          destruct (Hentry fsin eitems e' m Hkin Hnin Hflin Hr) as (Hm & efs' & eitems' & -> & Hn3 & Hk3 & Hfe3 & HL3).
          destruct (Hc3 Hm) as [-> Hc3']. rewrite (Hc3' _ eq_refl).
          apply (Hlist (tl_insert mk (TCont efs') es1) efs' eitems'); auto.
          - now apply tl_insert_okb.
          - apply tl_find_insert_same.
          - intros k Hk. now apply tl_find_insert_other.
          - intros x Hx. now apply tl_insert_In in Hx.
          - intros q w. simpl. rewrite app_nil_r. tauto.
          - intros O Hout HLl q w. rewrite Ef in HLl. unfold Lo_entry in HLl. rewrite Hfein in HLl.
            rewrite (upd_in_ext _ v _ _ _ q w (fun p0 x => HLl (p0, x))).
            rewrite upd_in_present.
            + apply (upd_frame (par ++ ch) (ni_alts ni) v r (L eitems) (L eitems') O Hai Hri Hout HL3).
            + intros p0 x Hp0x. rewrite has_path_app. apply orb_true_iff. left.
              apply has_path_In. exists (p0, x). split.
              * eapply (kleaves_reported env fo ko false (SList false keys mn mx esfs) esfs keys mk fsin (par ++ ch) eitems); eauto.
              * cbn [fst]. apply same_path_refl. destruct (kleaves_plain esfs (par ++ ch) keys mk p0 x Hp0x) as (a & ->).
                now rewrite prefix_okb_app, Hpar', prefix_okb_names. }
        assert (Hnew : forall c3', tl_find mk es1 = None ->
                  set_insert_new env fo ko o (SR f0) (SList false keys mn mx esfs) esfs keys ek (skipn na p) es1 = (c3', Ok n) -> c3 = c3' ->
                  set_concl s fs par ni (kleaves esfs keys mk (par ++ ch) ++ r) v items
                    (Some (TCont (put_field (go_names sfs) (f_go fi) c3 fs))) n).
        { intros c3' Ef Hi ->. unfold set_insert_new in Hi. rewrite Hinit in Hi.
          destruct (make_entry_ok env fo ko esfs ek Hnde keys mk Hkl Hkd Hpk) as (nfs & Hm & Hks).
          rewrite Hm, Hnan, Ef in Hi.
          destruct (SR f0 (SList false keys mn mx esfs) (Some (TCont nfs)) (skipn na p)) as [e' r'] eqn:Er'. injection Hi as <- ->.
          assert (Hnin : nwf (SList false keys mn mx esfs) (TCont nfs)) by (apply nwf_cont; eapply key_struct_nfields; eauto).
          destruct (key_struct_leaves env fo ko false (SList false keys mn mx esfs) esfs keys mk nfs (par ++ ch) Hnde eq_refl Hkl Hks) as (eitems & Hflin & HLin).
          pose proof Hks as (_ & Hkin & _).
          destruct (Hentry nfs eitems e' n Hkin Hnin Hflin Er') as (Hm0 & efs' & eitems' & -> & Hn3 & Hk3 & Hfe3 & HL3).
          apply (Hlist (tl_insert mk (TCont efs') es1) efs' eitems'); auto.
          - now apply tl_insert_okb.
          - apply tl_find_insert_same.
          - intros k Hk. now apply tl_find_insert_other.
          - intros x Hx. now apply tl_insert_In in Hx.
          - intros q w. simpl. rewrite app_nil_r. tauto.
          - intros O Hout HLl q w. rewrite Ef in HLl. unfold Lo_entry in HLl. cbn [app] in HLl.
            rewrite (upd_in_ext _ v _ _ _ q w (fun p0 x => HLl (p0, x))).
            rewrite in_app_iff, (HL3 q w). unfold upd_in.
            assert (Hpl : forall q0 w0, In (q0, w0) (L eitems) -> exists a, q0 = (par ++ ch) ++ path_of_names a).
            { intros q0 w0 H0. apply HLin in H0. eapply kleaves_plain; eauto. }
            split.
            + intros [[Ha|[Hu [Hl|[Hr Hh]]]]|Ho].
              * left. exact Ha.
              * right. split; [exact Hu|]. right. split; [apply in_or_app; left; now apply HLin|].
                apply HLin in Hl. destruct (kleaves_inside esfs (par ++ ch) keys mk q w Hl) as (x & ->). now apply outside_has_path.
              * right. split; [exact Hu|]. right. split; [apply in_or_app; now right|].
                destruct (Hri q w Hr) as (x & ->). now apply outside_has_path.
              * right. split; [eapply outside_under; eauto | now left].
            + intros [Ha|[Hu [Ho|[Hlr Hh]]]].
              * left. left. exact Ha.
              * right. exact Ho.
              * left. right. split; [exact Hu|]. apply in_app_or in Hlr as [Hl|Hr]; [left; now apply HLin|].
                right. split; [exact Hr|].
                destruct (sch_walk_keyed env fo ko g2 (SList false keys mn mx esfs) (skipn na p) (par ++ ch) r Er q w Hr) as (x & -> & Hx).
                apply keyed_not_kleaf; auto. }
        (* the loops of the list step *)
        rewrite set_rec_list in Erec. unfold set_list in Erec. cbn [ekeys] in Erec.
        destruct keys as [|k [|k2 ks]]; [congruence| |].
        * assert (Hs0 : exists s0, al_find k ek = Some s0).
          { cbn [path_key] in Hpk. destruct (al_find k ek); [eauto|discriminate]. }
          destruct Hs0 as (s0 & Hs0). rewrite Hs0 in Erec.
          rewrite (set_first_spec env fo ko o _ _ esfs ek (skipn na p) false mk _ es1 k s0 Hnde Hpk
                     (Hkl k (or_introl eq_refl)) Hs0 es1 Heok) in Erec.
          destruct (tl_find mk es1) as [e|] eqn:Ef; [|exact (Hnew c3 eq_refl Erec eq_refl)].
          destruct (SR f0 (SList false [k] mn mx esfs) (Some e) (skipn na p)) as [e' r'] eqn:Er'.
          injection Erec as Ec3 Er3. subst r'.
          pose proof (tl_find_In _ _ _ Ef) as Hi. destruct (Hent _ _ Hi) as [(fsin & -> & _) _].
          apply (Hexist fsin e' n eq_refl Er'). intros _. split; [reflexivity|]. intros e'' ->. now rewrite <- Ec3.
        * rewrite (set_all_spec env fo ko o _ _ esfs (k :: k2 :: ks) ek (skipn na p) false mk Hpk es1 es1 Heok Hdist) in Erec.
          destruct (tl_find mk es1) as [e|] eqn:Ef; [|exact (Hnew c3 eq_refl Erec eq_refl)].
          destruct (SR f0 (SList false (k :: k2 :: ks) mn mx esfs) (Some e) (skipn na p)) as [e' r'] eqn:Er'.
          destruct r' as [m| |]; try discriminate.
          pose proof (tl_find_In _ _ _ Ef) as Hi. destruct (Hent _ _ Hi) as [(fsin & -> & _) _].
          apply (Hexist fsin e' m eq_refl Er'). intros Hm.
          destruct (Nat.eqb m O) eqn:Em; [apply Nat.eqb_eq in Em; congruence|].
          injection Erec as Ec3 Er3. split; [congruence|]. intros e'' ->. now rewrite <- Ec3.
  Qed.
End SetLeaves.
