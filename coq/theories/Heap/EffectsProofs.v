(* EffectsProofs.v — proofs about the effect model of Heap/Effects.v (C11). *)
From Ygot Require Import Base.Base Heap.Effects.

(* ------------------------------------------------------------------ cell equality *)

Lemma optfield_code_inj : forall f g, optfield_code f = optfield_code g -> f = g.
Proof. destruct f, g; simpl; intros H; try reflexivity; discriminate H. Qed.

Lemma cell_eqb_eq : forall a b, cell_eqb a b = true <-> a = b.
Proof.
  intros a b; split.
  - destruct a, b; simpl; intros H; try discriminate H; try reflexivity.
    + apply Nat.eqb_eq in H; subst; reflexivity.
    + apply Nat.eqb_eq in H. apply optfield_code_inj in H. subst; reflexivity.
    + apply Nat.eqb_eq in H; subst; reflexivity.
  - intros ->. destruct b; simpl; try reflexivity; apply Nat.eqb_refl.
Qed.

Lemma mem_cell_In : forall c l, mem_cell c l = true <-> In c l.
Proof.
  intros c l. unfold mem_cell. rewrite existsb_exists. split.
  - intros [x [Hin Heq]]. apply cell_eqb_eq in Heq. subst. exact Hin.
  - intros Hin. exists c. split; [exact Hin | apply cell_eqb_eq; reflexivity].
Qed.

Lemma mem_cell_false : forall c l, mem_cell c l = false <-> ~ In c l.
Proof.
  intros c l. rewrite <- mem_cell_In. destruct (mem_cell c l); split; intros H; try reflexivity;
    try discriminate H; try (intros H'; discriminate H'). exfalso; apply H; reflexivity.
Qed.

Lemma minus_cells_In : forall c a b, In c (minus_cells a b) <-> In c a /\ ~ In c b.
Proof.
  intros c a b. unfold minus_cells. rewrite filter_In. rewrite negb_true_iff, mem_cell_false. reflexivity.
Qed.

Lemma subset_cells_spec : forall a b, subset_cells a b = true <-> incl a b.
Proof.
  intros a b. unfold subset_cells. rewrite forallb_forall. split.
  - intros H x Hx. apply mem_cell_In. apply H. exact Hx.
  - intros H x Hx. apply mem_cell_In. apply H. exact Hx.
Qed.

(* the checker's comparison is set equality *)
Lemma same_cells_spec : forall a b, same_cells a b = true <-> (forall c, In c a <-> In c b).
Proof.
  intros a b. unfold same_cells. rewrite andb_true_iff, !subset_cells_spec. split.
  - intros [H1 H2] c; split; [apply H1 | apply H2].
  - intros H; split; intros c Hc; apply H; exact Hc.
Qed.

(* ------------------------------------------------------------------ changes ⊆ writes *)

Lemma changes_incl_writes : forall v c x, In x (changes v c) -> In x (writes v c).
Proof.
  intros v c x H. unfold changes in H.
  destruct c; try (apply minus_cells_In in H; exact (proj1 H)).
  destruct cfg as [[|]|]; try (apply minus_cells_In in H; exact (proj1 H)).
  destruct H.
Qed.

(* ------------------------------------------------------------------ the gNMI scalar decoder and the TypedValue *)

(* Without TolerateJSONInconsistencies the decoder never touches the message (any variant). *)
Lemma sanitize_strict_id : forall v k tv, fst (sanitize_gnmi v false k tv) = tv.
Proof. intros v k tv. destruct k, tv; reflexivity. Qed.

Lemma sanitize_fixed_id : forall v tol k tv, v_tolerance_copies_tv v = true -> fst (sanitize_gnmi v tol k tv) = tv.
Proof.
  intros v tol k tv Hv. destruct k, tv; try reflexivity. simpl.
  destruct (tol && (0 <=? z)%Z); [rewrite Hv|]; reflexivity.
Qed.

Definition tv_preserving (v : variant) (tol : bool) : Prop :=
  forall k tv, fst (sanitize_gnmi v tol k tv) = tv.

Lemma try_kinds_id : forall v tol, tv_preserving v tol -> forall ks tv, fst (try_kinds v tol ks tv) = tv.
Proof.
  intros v tol Hp ks. induction ks as [|k r IH]; intros tv; simpl; [reflexivity|].
  specialize (Hp k tv). destruct (sanitize_gnmi v tol k tv) as [tv' ok]. simpl in Hp. subst tv'.
  destruct ok; [reflexivity | apply IH].
Qed.

Lemma ll_elems_id : forall v tol, tv_preserving v tol -> forall ks es, ll_elems v tol ks es = es.
Proof.
  intros v tol Hp ks es. induction es as [|e r IH]; simpl; [reflexivity|].
  pose proof (try_kinds_id v tol Hp ks e) as H.
  destruct (try_kinds v tol ks e) as [e' ok]. simpl in H. subst e'.
  destruct ok; [rewrite IH|]; reflexivity.
Qed.

Lemma setnode_tv_id : forall v tol, tv_preserving v tol ->
  forall reached ll ks tv, setnode_tv v reached tol ll ks tv = tv.
Proof.
  intros v tol Hp reached ll ks tv. unfold setnode_tv.
  destruct reached; simpl; [|reflexivity].
  destruct tv as [s|es|[|]|[|]]; try reflexivity.
  - destruct ll; [reflexivity|]. rewrite (try_kinds_id v tol Hp). reflexivity.
  - destruct ll; [|reflexivity]. rewrite (ll_elems_id v tol Hp). reflexivity.
Qed.

(* SetNode without the tolerance option, whatever the target, path and payload: the TypedValue is
   left as it was.  (UnmarshalSetRequest never passes the option: gnmi.go setNode.) *)
Theorem setnode_strict_tv_unchanged : forall v reached ll ks tv,
  setnode_tv v reached false ll ks tv = tv.
Proof. intros. apply setnode_tv_id. intros k t. apply sanitize_strict_id. Qed.

Theorem setnode_fixed_tv_unchanged : forall v reached tol ll ks tv,
  v_tolerance_copies_tv v = true -> setnode_tv v reached tol ll ks tv = tv.
Proof. intros. apply setnode_tv_id. intros k t. apply sanitize_fixed_id. assumption. Qed.

Lemma tvscalar_eqb_refl : forall a, tvscalar_eqb a a = true.
Proof. destruct a; simpl; try reflexivity; try apply Z.eqb_refl; apply eqb_reflx. Qed.
Lemma tvscalars_eqb_refl : forall a, tvscalars_eqb a a = true.
Proof. induction a as [|x a IH]; simpl; [reflexivity|]. rewrite tvscalar_eqb_refl, IH. reflexivity. Qed.
Lemma tvalue_eqb_refl : forall a, tvalue_eqb a a = true.
Proof. destruct a; simpl; try apply tvscalar_eqb_refl; try apply tvscalars_eqb_refl; apply eqb_reflx. Qed.

Lemma tvscalar_eqb_eq : forall a b, tvscalar_eqb a b = true -> a = b.
Proof.
  destruct a, b; simpl; intros H; try discriminate H; try reflexivity;
    try (apply Z.eqb_eq in H; subst; reflexivity); apply eqb_prop in H; subst; reflexivity.
Qed.
Lemma tvscalars_eqb_eq : forall a b, tvscalars_eqb a b = true -> a = b.
Proof.
  induction a as [|x a IH]; destruct b as [|y b]; simpl; intros H; try discriminate H; [reflexivity|].
  apply andb_true_iff in H. destruct H as [H1 H2]. apply tvscalar_eqb_eq in H1. apply IH in H2. subst. reflexivity.
Qed.
Lemma tvalue_eqb_eq : forall a b, tvalue_eqb a b = true <-> a = b.
Proof.
  intros a b; split; [|intros ->; apply tvalue_eqb_refl].
  destruct a, b; simpl; intros H; try discriminate H.
  - apply tvscalar_eqb_eq in H; subst; reflexivity.
  - apply tvscalars_eqb_eq in H; subst; reflexivity.
  - apply eqb_prop in H; subst; reflexivity.
  - apply eqb_prop in H; subst; reflexivity.
Qed.

(* the write-set entry for the TypedValue is exactly "the message differs afterwards" *)
Lemma setnode_writes_tv_spec : forall v reached tol ll ks tv,
  setnode_writes_tv v reached tol ll ks tv = true <-> setnode_tv v reached tol ll ks tv <> tv.
Proof.
  intros. unfold setnode_writes_tv. rewrite negb_true_iff. split.
  - intros H E. rewrite E, tvalue_eqb_refl in H. discriminate H.
  - intros H. destruct (tvalue_eqb _ tv) eqn:E; [|reflexivity]. apply tvalue_eqb_eq in E. contradiction.
Qed.

(* ------------------------------------------------------------------ per-API purity *)

(* the situations in which the code as it is now stores into an argument *)
Definition stores_into_argument_now (c : call) : bool :=
  match c with
  | KEncodeTypedValue EncJSONIETF (VkStruct | VkOrderedMap) (Some _) => true
  | KSetNode reached true ll ks tv => setnode_writes_tv impl_now reached true ll ks tv
  | KDiffSetRequest true ups | KDiffSetRequestToNotifications true ups => gd_creates ups
  | KUnmarshalNotifications true => true
  | _ => false
  end.

Theorem writes_in_dest_now : forall c x,
  stores_into_argument_now c = false -> In x (writes impl_now c) -> In x (dest c).
Proof.
  intros c x Hg Hin. destruct c; simpl in *; try contradiction; try exact Hin.
  - (* EncodeTypedValue *)
    destruct e, vk, cfg; simpl in *; try contradiction; discriminate Hg.
  - (* DiffSetRequest *)
    destruct with_schema; simpl in *; [rewrite Hg in Hin|]; contradiction.
  - destruct with_schema; simpl in *; [rewrite Hg in Hin|]; contradiction.
  - (* SetNode *)
    destruct Hin as [<-|Hin]; [left; reflexivity|].
    destruct tol.
    + rewrite Hg in Hin. contradiction.
    + unfold setnode_writes_tv in Hin. rewrite setnode_strict_tv_unchanged, tvalue_eqb_refl in Hin. contradiction.
  - (* UnmarshalNotifications *)
    destruct Hin as [<-|Hin]; [left; reflexivity|].
    destruct atomic_with_spare; [discriminate Hg | contradiction].
Qed.

Theorem writes_in_dest_fixed : forall c x, In x (writes impl_fixed c) -> In x (dest c).
Proof.
  intros c x Hin. destruct c; simpl in *; try contradiction; try exact Hin.
  - destruct e, vk, cfg; simpl in *; contradiction.
  - rewrite andb_false_r in Hin. contradiction.
  - rewrite andb_false_r in Hin. contradiction.
  - destruct Hin as [<-|Hin]; [left; reflexivity|].
    unfold setnode_writes_tv in Hin. rewrite setnode_fixed_tv_unchanged, tvalue_eqb_refl in Hin by reflexivity. contradiction.
  - destruct Hin as [<-|Hin]; [left; reflexivity|]. rewrite andb_false_r in Hin. contradiction.
Qed.

Theorem readonly_pure_fixed : forall c, read_only_api c = true -> writes impl_fixed c = [].
Proof.
  intros c H. destruct c; simpl in *; try reflexivity; try discriminate H.
  - destruct e, vk, cfg; reflexivity.
  - rewrite andb_false_r. reflexivity.
  - rewrite andb_false_r. reflexivity.
Qed.

Theorem readonly_pure_now : forall c, read_only_api c = true -> stores_into_argument_now c = false ->
  writes impl_now c = [].
Proof.
  intros c H Hg. destruct c; simpl in *; try reflexivity; try discriminate H.
  - destruct e, vk, cfg; simpl in *; try reflexivity; discriminate Hg.
  - destruct with_schema; simpl in *; [rewrite Hg|]; reflexivity.
  - destruct with_schema; simpl in *; [rewrite Hg|]; reflexivity.
Qed.

(* case analysis on a membership hypothesis over a write set built from matches and ifs *)
Ltac crush_in H :=
  repeat match goal with
         | H : In _ (match ?e with _ => _ end) |- _ => destruct e; simpl in H
         | H : _ \/ _ |- _ => destruct H as [H|H]
         | H : _ = _ |- _ => discriminate H
         | H : False |- _ => contradiction
         | H : In _ [] |- _ => contradiction
         end.

(* the schema's entry graph is in nobody's write set: it can be shared by any number of users *)
Theorem schema_entries_never_written : forall v c, ~ In CSchemaEntries (writes v c).
Proof. intros v c H. destruct c; simpl in H; crush_in H. Qed.

(* the decoded JSON document and the path are in nobody's write set either *)
Theorem json_and_path_never_written : forall v c, ~ In CJSON (writes v c) /\ ~ In CPath (writes v c).
Proof. intros v c. split; intros H; destruct c; simpl in H; crush_in H. Qed.

(* no API stores into a tree it is given to read (CTree 1 is the second tree of Diff / MergeStructs;
   CTree 0 is written only by the decoders, whose destination it is) *)
Theorem source_trees_never_written : forall v c i, In (CTree i) (writes v c) -> i = 0%nat /\ In (CTree i) (dest c).
Proof.
  intros v c i H. destruct c; simpl in H; crush_in H;
    try (injection H as <-; split; [reflexivity | left; reflexivity]).
Qed.

(* ------------------------------------------------------------------ sequences of operations *)

Section Sequences.
  Variable value : Type.

  (* If no step of a composite operation has cell c in its write set, the whole sequence leaves
     c as it was. *)
  Theorem run_ops_frame : forall (ops : list (op value)) (s : store value) (c : cell),
    (forall o, In o ops -> mem_cell c (op_writes value o) = false) ->
    run_ops value ops s c = s c.
  Proof.
    induction ops as [|o r IH]; intros s c H; simpl; [reflexivity|].
    rewrite IH.
    - apply (op_frame value o). apply H. left; reflexivity.
    - intros o' Ho'. apply H. right; exact Ho'.
  Qed.

  Corollary run_ops_pure : forall (ops : list (op value)) (s : store value),
    (forall o, In o ops -> op_writes value o = []) -> forall c, run_ops value ops s c = s c.
  Proof.
    intros ops s H c. apply run_ops_frame. intros o Ho. rewrite (H o Ho). reflexivity.
  Qed.

  (* every API call is such an operation: whatever it does (f) to the cells of its write set *)
  Lemma havoc_frame : forall ws f (s : store value) c, mem_cell c ws = false -> havoc value ws f s c = s c.
  Proof. intros ws f s c H. unfold havoc. rewrite H. reflexivity. Qed.

  Definition call_op (v : variant) (f : call -> store value -> store value) (k : call) : op value :=
    {| op_writes := writes v k;
       op_exec := havoc value (writes v k) (f k);
       op_frame := havoc_frame (writes v k) (f k) |}.

  (* Any sequence of calls whose write sets avoid a cell leaves that cell unchanged; in
     particular any sequence of read-only APIs of the repaired code leaves EVERY argument cell
     unchanged, whatever the calls compute. *)
  Theorem calls_frame : forall v f (ks : list call) (s : store value) (c : cell),
    (forall k, In k ks -> ~ In c (writes v k)) ->
    run_ops value (map (call_op v f) ks) s c = s c.
  Proof.
    intros v f ks s c H. apply run_ops_frame. intros o Ho.
    apply in_map_iff in Ho. destruct Ho as [k [<- Hk]]. simpl.
    apply mem_cell_false. apply H. exact Hk.
  Qed.

  Corollary readonly_calls_leave_everything_fixed : forall f (ks : list call) (s : store value),
    (forall k, In k ks -> read_only_api k = true) ->
    forall c, run_ops value (map (call_op impl_fixed f) ks) s c = s c.
  Proof.
    intros f ks s H c. apply calls_frame. intros k Hk. rewrite (readonly_pure_fixed k (H k Hk)). intros [].
  Qed.

  Corollary schema_entries_survive_any_calls : forall v f (ks : list call) (s : store value),
    run_ops value (map (call_op v f) ks) s CSchemaEntries = s CSchemaEntries.
  Proof. intros. apply calls_frame. intros k _. apply schema_entries_never_written. Qed.
End Sequences.
