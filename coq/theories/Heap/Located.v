(* Located.v — GoStruct values with the memory cells they own (C04).

   A located tree records, next to the data, the location of every mutable cell of the Go value:
     struct pointer            LCont p     (containers, list entries)
     scalar pointer *T         LPtr p
     slice backing array       LBin p (Binary, also inside unions), LLeafList p, LUnk p,
                               and pk of LOMap (the keys slice of an ordered map)
     map                       LMap p, and pm of LOMap (valueMap)
     ordered-map struct ptr    p of LOMap
     union wrapper pointer     LWrap p
   Values held inline (enum int64, YANGEmpty bool, members of simple unions, plain leaf-list
   members, map keys of scalar type) own no cell: LVal.
   The harness prints these terms from real GoStructs with reflect + unsafe (mg_copy.go).
   Definitions only; proofs in Heap/CopyProofs.v. *)
From Ygot Require Import Tree.Tree Tree.TreeOps Tree.Merge.

Definition loc := N.

Inductive ltree :=
| LVal (v : scalar)
| LPtr (p : loc) (v : scalar)
| LBin (iface : bool) (p : loc) (bs : list N)      (* iface: the Binary sits in a union interface *)
| LWrap (p : loc) (inner : ltree)                   (* inner: LVal or LBin false *)
| LLeafList (p : loc) (es : list ltree)             (* members: LVal, LBin, LWrap *)
| LCont (p : loc) (fs : list (str * ltree))
| LMap (p : loc) (es : list (list ltree * ltree))   (* key members: LVal or LWrap (pointer keys) *)
| LOMap (p pk pm : loc) (es : list (list scalar * ltree))
| LUnk (p : loc) (es : list ltree).

(* the scalar a leaf-like node holds (VEmpty for nodes that are not leaves) *)
Fixpoint lscalar (l : ltree) : scalar :=
  match l with
  | LVal v | LPtr _ v => v
  | LBin _ _ bs => VBin bs
  | LWrap _ i => lscalar i
  | _ => VEmpty
  end.

(* forgetting the locations *)
Fixpoint erase (l : ltree) : tree :=
  match l with
  | LVal v | LPtr _ v => TLeaf v
  | LBin _ _ bs => TLeaf (VBin bs)
  | LWrap _ i => TLeaf (lscalar i)
  | LLeafList _ es => TLeafList (map lscalar es)
  | LCont _ fs => TCont (map (fun nf => (fst nf, erase (snd nf))) fs)
  | LMap _ es => TList (map (fun ke => (map lscalar (fst ke), erase (snd ke))) es)
  | LOMap _ _ _ es => TList (map (fun ke => (fst ke, erase (snd ke))) es)
  | LUnk _ es => TUnkeyed (map erase es)
  end.

(* every cell reachable from the value *)
Fixpoint locs (l : ltree) : list loc :=
  match l with
  | LVal _ => []
  | LPtr p _ => [p]
  | LBin _ p _ => [p]
  | LWrap p i => p :: locs i
  | LLeafList p es => p :: flat_map locs es
  | LCont p fs => p :: flat_map (fun nf => locs (snd nf)) fs
  | LMap p es => p :: flat_map (fun ke => flat_map locs (fst ke) ++ locs (snd ke)) es
  | LOMap p pk pm es => p :: pk :: pm :: flat_map (fun ke => locs (snd ke)) es
  | LUnk p es => p :: flat_map locs es
  end.

Definition locs_opt (o : option ltree) : list loc := match o with Some l => locs l | None => [] end.

(* the cells of the node itself *)
Definition lroot (l : ltree) : list loc :=
  match l with
  | LVal _ => []
  | LPtr p _ | LBin _ p _ | LWrap p _ | LLeafList p _ | LCont p _ | LMap p _ | LUnk p _ => [p]
  | LOMap p pk pm _ => [p; pk; pm]
  end.

Definition loc_mem (p : loc) (l : list loc) : bool := existsb (N.eqb p) l.

(* An in-place mutation: the content of the cell p is overwritten.  Whatever hangs below the
   cell may change arbitrarily: the node owning p is replaced by c.  The heap is shared, so the
   same write is seen by every value that reaches p: lmutate is applied to each of them. *)
Fixpoint lmutate (p : loc) (c : ltree) (l : ltree) : ltree :=
  if loc_mem p (lroot l) then c
  else
    match l with
    | LWrap q i => LWrap q (lmutate p c i)
    | LLeafList q es => LLeafList q (map (lmutate p c) es)
    | LCont q fs => LCont q (map (fun nf => (fst nf, lmutate p c (snd nf))) fs)
    | LMap q es => LMap q (map (fun ke => (map (lmutate p c) (fst ke), lmutate p c (snd ke))) es)
    | LOMap q qk qm es => LOMap q qk qm (map (fun ke => (fst ke, lmutate p c (snd ke))) es)
    | LUnk q es => LUnk q (map (lmutate p c) es)
    | _ => l
    end.

(* a sequence of writes *)
Fixpoint lmutate_all (ms : list (loc * ltree)) (l : ltree) : ltree :=
  match ms with
  | [] => l
  | (p, c) :: r => lmutate_all r (lmutate p c l)
  end.

Definition ldisjoint (a b : list loc) : Prop := forall p, In p a -> In p b -> False.
Definition ldisjointb (a b : list loc) : bool := negb (existsb (fun p => loc_mem p b) a).

(* a location above every location of the value: the allocator of a copy starts here *)
Definition lmax (l : list loc) : loc := fold_right N.max 0 l.
Definition lfresh (l : list loc) : loc := N.succ (lmax l).
