(* Copy.v — copyStruct and the copy*Field functions of ygot/struct_validation_map.go on located
   trees (C04): which cells the result of DeepCopy / MergeStructs is made of.

   Every reflect.New / MakeMap / append-into-nil in the Go code takes the next location from a
   supply n (a positive counter, threaded through); where the Go code stores a value of the SOURCE
   (reflect.Append(dstField, v), dstField.SetMapIndex(k, d)) the model stores the source node with
   its source locations.  A destination that already exists keeps its own cells (the struct is
   merged in place, append may or may not reallocate: either way the cell is the destination's).
   The dispatch on reflect.Kind is the constructor of the located node, so no schema is needed.
   Definitions only; proofs in CopyProofs.v. *)
From Ygot Require Import Tree.Tree Tree.TreeOps Tree.Merge Heap.Located.

Section MapM.
  Context {A B : Type}.
  Variable f : A -> loc -> result (B * loc).
  Fixpoint lmapM (l : list A) (n : loc) : result (list B * loc) :=
    match l with
    | [] => Ok ([], n)
    | x :: r => bind (f x n) (fun yn => bind (lmapM r (snd yn)) (fun rn => Ok (fst yn :: fst rn, snd rn)))
    end.
End MapM.

Section FoldM.
  Context {A Acc : Type}.
  Variable f : Acc -> A -> loc -> result (Acc * loc).
  Fixpoint lfoldM (l : list A) (acc : Acc) (n : loc) : result (Acc * loc) :=
    match l with
    | [] => Ok (acc, n)
    | x :: r => bind (f acc x n) (fun an => lfoldM r (fst an) (snd an))
    end.
End FoldM.

(* a deep copy of a leaf-list member (the proposed fix of copySliceField) *)
Fixpoint lfresh_leaf (e : ltree) (n : loc) : ltree * loc :=
  match e with
  | LVal v => (LVal v, n)
  | LPtr _ v => (LPtr n v, N.succ n)
  | LBin u _ bs => (LBin u n bs, N.succ n)
  | LWrap _ i => let r := lfresh_leaf i (N.succ n) in (LWrap n (fst r), snd r)
  | _ => (LVal VEmpty, n)     (* not a leaf-list member *)
  end.
Fixpoint lfresh_list (es : list ltree) (n : loc) : list ltree * loc :=
  match es with
  | [] => ([], n)
  | e :: r => let a := lfresh_leaf e n in let b := lfresh_list r (snd a) in (fst a :: fst b, snd b)
  end.

Fixpoint lfind {V} (name : str) (fs : list (str * V)) : option V :=
  match fs with
  | [] => None
  | (n, t) :: r => if str_eqb n name then Some t else lfind name r
  end.
Definition str_mem (s : str) (l : list str) : bool := existsb (str_eqb s) l.

Fixpoint lsomes {K V} (l : list (K * option V)) : list (K * V) :=
  match l with
  | [] => []
  | (k, Some v) :: r => (k, v) :: lsomes r
  | (_, None) :: r => lsomes r
  end.
Fixpoint lsomes1 {V} (l : list (option V)) : list V :=
  match l with
  | [] => []
  | Some v :: r => v :: lsomes1 r
  | None :: r => lsomes1 r
  end.

(* Go map key identity: values compare by value, wrapper-union keys are POINTERS *)
Definition lkey1_eqb (a b : ltree) : bool :=
  match a, b with
  | LVal v, LVal w => scalar_eqb v w
  | LWrap p _, LWrap q _ => N.eqb p q
  | _, _ => false
  end.
Definition lkey_eqb (a b : list ltree) : bool := list_eqb lkey1_eqb a b.
Fixpoint lm_find (k : list ltree) (es : list (list ltree * ltree)) : option ltree :=
  match es with
  | [] => None
  | (k', e) :: r => if lkey_eqb k k' then Some e else lm_find k r
  end.
(* SetMapIndex(k, d) *)
Fixpoint lm_put (k : list ltree) (e : ltree) (es : list (list ltree * ltree)) : list (list ltree * ltree) :=
  match es with
  | [] => [(k, e)]
  | (k', e') :: r => if lkey_eqb k k' then (k, e) :: r else (k', e') :: lm_put k e r
  end.
Fixpoint lo_find (k : list scalar) (es : list (list scalar * ltree)) : option ltree :=
  match es with
  | [] => None
  | (k', e) :: r => if keys_eqb k k' then Some e else lo_find k r
  end.
(* in place for an existing key, Append otherwise *)
Fixpoint lo_put (k : list scalar) (e : ltree) (es : list (list scalar * ltree)) : list (list scalar * ltree) :=
  match es with
  | [] => [(k, e)]
  | (k', e') :: r => if keys_eqb k k' then (k', e) :: r else (k', e') :: lo_put k e r
  end.

Definition lis_empty_val (l : ltree) : bool := match l with LVal VEmpty => true | _ => false end.

Section LCopy.
  Variable fixed_unkeyed : bool.  (* copySliceField appends the fresh copy d of a list entry, not v *)
  Variable fixed_elems : bool.    (* copySliceField copies Binary / union members of a leaf-list *)
  Variable o : mg_opts.

  Definition lconflict (dv : option ltree) (v : scalar) : bool :=
    match dv with
    | Some d => negb (mo_overwrite o) && negb (scalar_eqb v (lscalar d))
    | None => false
    end.

  (* the destination fields that the source does not set stay, except YANGEmpty (dst = src) *)
  Definition lrest (names : list str) (dfs : list (str * ltree)) : list (str * ltree) :=
    filter (fun nf => negb (str_mem (fst nf) names) && negb (lis_empty_val (snd nf))) dfs.

  (* the new value of a destination field dv when the source field holds sv *)
  Fixpoint lcopy_node (dv : option ltree) (sv : ltree) (n : loc) {struct sv} : result (option ltree * loc) :=
    match sv with
    | LVal v =>
        (* enum / YANGEmpty / member of a simple union: copied by value *)
        if lconflict dv v then Err else Ok (Some (LVal v), n)
    | LPtr _ v =>
        (* copyPtrField: p := reflect.New(..) *)
        if lconflict dv v then Err else Ok (Some (LPtr n v), N.succ n)
    | LBin true _ bs =>
        (* copyInterfaceField, Binary arm: a new slice is built by appending the bytes *)
        if lconflict dv (VBin bs) then Err
        else if nil_b bs then Ok (None, n)
        else Ok (Some (LBin true n bs), N.succ n)
    | LBin false _ bs =>
        (* copySliceField on the bytes *)
        let q := match dv with Some (LBin _ q _) => Some q | _ => None end in
        let ds := match dv with Some (LBin _ _ ds) => ds | _ => [] end in
        if nil_b ds && nil_b bs then Ok (dv, n)
        else if list_eqb N.eqb bs ds then Ok (dv, n)
        else if mg_overlap N.eqb ds bs then Err
        else match q with
             | Some q => Ok (Some (LBin false q (ds ++ bs)), n)
             | None => Ok (Some (LBin false n (ds ++ bs)), N.succ n)
             end
    | LWrap _ i =>
        (* copyInterfaceField, struct pointer arm: d := reflect.New; copyStruct(d, s) *)
        if lconflict dv (lscalar i) then Err
        else bind (lcopy_node None i (N.succ n))
                  (fun r => Ok (match fst r with Some i' => Some (LWrap n i') | None => None end, snd r))
    | LLeafList _ es =>
        (* copySliceField, non-struct members: reflect.Append(dstField, v) *)
        let q := match dv with Some (LLeafList q _) => Some q | _ => None end in
        let ds := match dv with Some (LLeafList _ ds) => ds | _ => [] end in
        if nil_b ds && nil_b es then Ok (dv, n)
        else if list_eqb scalar_eqb (map lscalar es) (map lscalar ds) then Ok (dv, n)
        else if mg_overlap scalar_eqb (map lscalar ds) (map lscalar es) then Err
        else
          let r := if fixed_elems then lfresh_list es n else (es, n) in
          match q with
          | Some q => Ok (Some (LLeafList q (ds ++ fst r)), snd r)
          | None => Ok (Some (LLeafList (snd r) (ds ++ fst r)), N.succ (snd r))
          end
    | LCont _ fs =>
        (* copyPtrField, struct pointer: the existing destination struct or a new one *)
        let dfs := match dv with Some (LCont _ x) => x | _ => [] end in
        let pq := match dv with Some (LCont q _) => (q, n) | _ => (n, N.succ n) end in
        bind (lmapM (fun nf m => bind (lcopy_node (lfind (fst nf) dfs) (snd nf) m)
                                      (fun r => Ok ((fst nf, fst r), snd r))) fs (snd pq))
             (fun r => Ok (Some (LCont (fst pq) (lsomes (fst r) ++ lrest (map fst fs) dfs)), snd r))
    | LMap _ es =>
        (* copyMapField: a new map when the destination is empty; entries by key; the key object of
           the source is stored *)
        let des := match dv with Some (LMap _ x) => x | _ => [] end in
        if nil_b es && nil_b des && negb (mo_empty_maps o) then Ok (dv, n)
        else
          let pq := match dv with
                    | Some (LMap q _) => if nil_b des then (n, N.succ n) else (q, n)
                    | _ => (n, N.succ n)
                    end in
          bind (lfoldM (fun acc ke m =>
                          bind (lcopy_node (lm_find (fst ke) des) (snd ke) m)
                               (fun r => Ok (match fst r with Some e' => lm_put (fst ke) e' acc | None => acc end, snd r)))
                       es des (snd pq))
               (fun r => Ok (Some (LMap (fst pq) (fst r)), snd r))
    | LOMap _ _ _ es =>
        (* copyOrderedMap: a new ordered map (struct, keys slice, valueMap) when the destination is
           empty; Get on the live destination; new entries are appended *)
        let des := match dv with Some (LOMap _ _ _ x) => x | _ => [] end in
        if nil_b es && nil_b des && negb (mo_empty_maps o) then Ok (dv, n)
        else
          let fresh3 := (n, N.succ n, N.succ (N.succ n), N.succ (N.succ (N.succ n))) in
          let hdr := match dv with
                     | Some (LOMap q qk qm _) => if nil_b des then fresh3 else (q, qk, qm, n)
                     | _ => fresh3
                     end in
          if negb (mg_om_mergeable (map fst des) (map fst es)) then Err
          else
            bind (lfoldM (fun acc ke m =>
                            bind (lcopy_node (lo_find (fst ke) acc) (snd ke) m)
                                 (fun r => Ok (match fst r with Some e' => lo_put (fst ke) e' acc | None => acc end, snd r)))
                         es des (snd hdr))
                 (fun r => Ok (Some (LOMap (fst (fst (fst hdr))) (snd (fst (fst hdr))) (snd (fst hdr)) (fst r)), snd r))
    | LUnk _ es =>
        (* copySliceField, struct-pointer members: d := reflect.New; copyStruct(d, v); then
           reflect.Append(dstField, v) — the source pointer *)
        let q := match dv with Some (LUnk q _) => Some q | _ => None end in
        let ds := match dv with Some (LUnk _ ds) => ds | _ => [] end in
        if nil_b ds && nil_b es then Ok (dv, n)
        else if list_eqb mg_tree_eqb (map erase es) (map erase ds) then Ok (dv, n)
        else if mg_overlap mg_tree_eqb (map erase ds) (map erase es) then Err
        else
          bind (lmapM (fun e m => lcopy_node None e m) es n)
               (fun r =>
                  let app := if fixed_unkeyed then lsomes1 (fst r) else es in
                  match q with
                  | Some q => Ok (Some (LUnk q (ds ++ app)), snd r)
                  | None => Ok (Some (LUnk (snd r) (ds ++ app)), N.succ (snd r))
                  end)
    end.

  (* the source cells that the result may hold on to *)
  Fixpoint lshared (sv : ltree) : list loc :=
    match sv with
    | LLeafList _ es => if fixed_elems then [] else flat_map locs es
    | LUnk _ es => if fixed_unkeyed then flat_map lshared es else flat_map locs es
    | LCont _ fs => flat_map (fun nf => lshared (snd nf)) fs
    | LMap _ es => flat_map (fun ke => flat_map locs (fst ke) ++ lshared (snd ke)) es
    | LOMap _ _ _ es => flat_map (fun ke => lshared (snd ke)) es
    | LWrap _ i => lshared i
    | _ => []
    end.
End LCopy.

Definition lsome {A} (r : result (option A * loc)) : result A :=
  bind r (fun x => match fst x with Some c => Ok c | None => Err end).

(* ygot.DeepCopy: copyStruct into a new struct; the supply starts above every cell of s *)
Definition ldeep_copy (fu fe : bool) (l : ltree) : result ltree :=
  lsome (lcopy_node fu fe mg_noopts None l (lfresh (locs l))).

(* ygot.MergeStructs: dst := deepCopy(a, MergeEmptyMaps?); MergeStructInto(dst, b, opts) *)
Definition lmerge (fu fe : bool) (o : mg_opts) (a b : ltree) : result ltree :=
  bind (lcopy_node fu fe {| mo_overwrite := false; mo_empty_maps := mo_empty_maps o |} None a (lfresh (locs a ++ locs b)))
       (fun r => lsome (lcopy_node fu fe o (fst r) b (snd r))).

(* the code under test: false = /repo as it is (leaf-list members are appended as they are) *)
Definition mg_fixed_elems : bool := true.
Definition deep_copy_l := ldeep_copy mg_fixed_slice_copy mg_fixed_elems.
Definition merge_l := lmerge mg_fixed_slice_copy mg_fixed_elems.

(* what DeepCopy does not reproduce: empty slices and maps (copySliceField / copyMapField /
   copyOrderedMap return early when both sides are empty) *)
Fixpoint lno_empty (l : ltree) : bool :=
  match l with
  | LVal _ | LPtr _ _ => true
  | LBin _ _ bs => negb (nil_b bs)
  | LWrap _ i => lno_empty i
  | LLeafList _ es => negb (nil_b es) && forallb lno_empty es
  | LCont _ fs => forallb (fun nf => lno_empty (snd nf)) fs
  | LMap _ es => negb (nil_b es) && forallb (fun ke => forallb lno_empty (fst ke) && lno_empty (snd ke)) es
  | LOMap _ _ _ es => negb (nil_b es) && forallb (fun ke => lno_empty (snd ke)) es
  | LUnk _ es => negb (nil_b es) && forallb lno_empty es
  end.

(* the keys of every map are pairwise different Go map keys, the keys of every ordered map are
   pairwise distinct *)
Fixpoint lnodup_mkeys (l : list (list ltree)) : bool :=
  match l with
  | [] => true
  | k :: r => negb (existsb (lkey_eqb k) r) && lnodup_mkeys r
  end.
Fixpoint lnodup_okeys (l : list (list scalar)) : bool :=
  match l with
  | [] => true
  | k :: r => negb (existsb (keys_eqb k) r) && lnodup_okeys r
  end.
Fixpoint lkeys_ok (l : ltree) : bool :=
  match l with
  | LWrap _ i => lkeys_ok i
  | LLeafList _ es => forallb lkeys_ok es
  | LCont _ fs => forallb (fun nf => lkeys_ok (snd nf)) fs
  | LMap _ es => lnodup_mkeys (map fst es) && forallb (fun ke => lkeys_ok (snd ke)) es
  | LOMap _ _ _ es => lnodup_okeys (map fst es) && forallb (fun ke => lkeys_ok (snd ke)) es
  | LUnk _ es => forallb lkeys_ok es
  | _ => true
  end.

(* no map key is a pointer (wrapper-union keys): copyMapField stores the key object of the source *)
Fixpoint lno_ptr_keys (l : ltree) : bool :=
  match l with
  | LWrap _ i => lno_ptr_keys i
  | LLeafList _ es => forallb lno_ptr_keys es
  | LCont _ fs => forallb (fun nf => lno_ptr_keys (snd nf)) fs
  | LMap _ es => forallb (fun ke => nil_b (flat_map locs (fst ke)) && lno_ptr_keys (snd ke)) es
  | LOMap _ _ _ es => forallb (fun ke => lno_ptr_keys (snd ke)) es
  | LUnk _ es => forallb lno_ptr_keys es
  | _ => true
  end.
