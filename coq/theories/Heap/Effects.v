(* Effects.v — C11: an EFFECT model of the read-only / encoding / decoding entry points of ygot.

   The arguments of an API call are a list of named CELLS (a GoStruct tree below its root
   pointer, one field of an option struct, a TypedValue, a SetRequest, a decoded JSON value, the
   data root and the yang.Entry graph of a ytypes.Schema ...).  Every API is modelled by the set
   of argument cells into which it STORES (`writes`), transcribed from reading the Go code; the
   comment next to every non-empty entry names the Go statement that performs the store.  `dest`
   is the set of cells an API is documented to produce its result in (the tree handed to
   Unmarshal/SetNode, schema.Root for UnmarshalSetRequest); purity is `writes ⊆ dest`.

   `changes` refines `writes` to the stores that alter the value of the cell (what a deep
   snapshot taken before and after the call can see); it is what the correspondence stream
   `purity` compares with the real code, for EQUALITY, on every run (Corr/EffectsCorr.v).

   The code is modelled AS IT IS; each of the four places where it stores into a caller's
   argument has a flag in `variant` that switches the model to the proposed repair.
   Definitions only; proofs are in EffectsProofs.v. *)
From Ygot Require Import Base.Base.

(* ------------------------------------------------------------------ cells *)

(* one field of an option struct that is passed by pointer (or, for GNMINotificationsConfig, by
   value but holding slices whose backing arrays are shared with the caller) *)
Inductive optfield :=
| RFC7951_AppendModuleName | RFC7951_PrependModuleNameIdentityref
| RFC7951_RewriteModuleNames | RFC7951_PreferShadowPath            (* ygot.RFC7951JSONConfig *)
| Emit_Format | Emit_RFC7951Config | Emit_Indent | Emit_EscapeHTML
| Emit_SkipValidation | Emit_ValidationOpts                          (* ygot.EmitJSONConfig *)
| Notif_UsePathElem | Notif_StringSlicePrefix | Notif_PathElemPrefix (* ygot.GNMINotificationsConfig *)
| DiffPath_MapToSinglePath | DiffPath_PreferShadowPath               (* ygot.DiffPathOpt *)
| Leafref_IgnoreMissingData | Leafref_Log.                           (* ytypes.LeafrefOptions *)

Inductive cell :=
| CTree (i : nat)        (* the i-th GoStruct argument: everything reachable from its root pointer *)
| CVal                   (* the `any` value handed to EncodeTypedValue *)
| COpt (f : optfield)
| CPath                  (* *gnmi.Path argument *)
| CTypedValue            (* *gnmi.TypedValue argument (incl. the elements of a leaflist_val) *)
| CSetRequest (i : nat)  (* i-th *gnmi.SetRequest argument *)
| CNotifications         (* []*gnmi.Notification argument, incl. the spare capacity of its slices *)
| CJSON                  (* decoded JSON value (map[string]interface{} / []interface{}) *)
| CSchemaRoot            (* ytypes.Schema.Root: the GoStruct held by the schema argument *)
| CSchemaEntries.        (* the *yang.Entry graph of the schema argument (shared by every user) *)

(* state outside the arguments that the code base shares between calls *)
Inductive gcell :=
| GRegexpCache.          (* ytypes.reCache: the two pattern -> *regexp.Regexp maps *)

Definition optfield_code (f : optfield) : nat :=
  match f with
  | RFC7951_AppendModuleName => 0 | RFC7951_PrependModuleNameIdentityref => 1
  | RFC7951_RewriteModuleNames => 2 | RFC7951_PreferShadowPath => 3
  | Emit_Format => 4 | Emit_RFC7951Config => 5 | Emit_Indent => 6 | Emit_EscapeHTML => 7
  | Emit_SkipValidation => 8 | Emit_ValidationOpts => 9
  | Notif_UsePathElem => 10 | Notif_StringSlicePrefix => 11 | Notif_PathElemPrefix => 12
  | DiffPath_MapToSinglePath => 13 | DiffPath_PreferShadowPath => 14
  | Leafref_IgnoreMissingData => 15 | Leafref_Log => 16
  end%nat.

Definition cell_eqb (a b : cell) : bool :=
  match a, b with
  | CTree i, CTree j => Nat.eqb i j
  | CVal, CVal => true
  | COpt f, COpt g => Nat.eqb (optfield_code f) (optfield_code g)
  | CPath, CPath => true
  | CTypedValue, CTypedValue => true
  | CSetRequest i, CSetRequest j => Nat.eqb i j
  | CNotifications, CNotifications => true
  | CJSON, CJSON => true
  | CSchemaRoot, CSchemaRoot => true
  | CSchemaEntries, CSchemaEntries => true
  | _, _ => false
  end.

Definition mem_cell (c : cell) (l : list cell) : bool := existsb (cell_eqb c) l.
Definition subset_cells (a b : list cell) : bool := forallb (fun c => mem_cell c b) a.
Definition same_cells (a b : list cell) : bool := subset_cells a b && subset_cells b a.
Definition minus_cells (a b : list cell) : list cell := filter (fun c => negb (mem_cell c b)) a.

(* ------------------------------------------------------------------ variants of the code *)

Record variant := {
  v_encode_copies_cfg : bool;      (* marshalStructOrOrderedList works on a copy of *cfg *)
  v_tolerance_copies_tv : bool;    (* sanitizeGNMI matches on a shallow copy of the TypedValue *)
  v_gnmidiff_scratch_root : bool;  (* populateUpdate calls GetOrCreateNode on a scratch root *)
  v_notifs_copy_delete : bool      (* UnmarshalNotifications appends to a copy of n.Delete *)
}.
(* the tree under verification (flip a field when the corresponding fix is committed) *)
Definition impl_now : variant :=
  {| v_encode_copies_cfg := false; v_tolerance_copies_tv := false;
     v_gnmidiff_scratch_root := false; v_notifs_copy_delete := false |}.
Definition impl_fixed : variant :=
  {| v_encode_copies_cfg := true; v_tolerance_copies_tv := true;
     v_gnmidiff_scratch_root := true; v_notifs_copy_delete := true |}.

(* ------------------------------------------------------------------ TypedValue and the gNMI scalar decoder *)

(* yang.TypeKind of the schema the scalar decoder is called with *)
Inductive ykind :=
| KInt (bits : N) | KUint (bits : N) | KString | KBool | KDecimal | KBinary
| KEnum            (* Yenum / Yidentityref *)
| KOther.          (* Yempty, Ybits, ...: no arm in gNMIToYANGTypeMatches *)

(* the oneof arm of a scalar TypedValue with the part of its payload that decides acceptance.
   TvString stands for a string that is not the name of an enum/identity value of the target
   (the harness only generates such strings). *)
Inductive tvscalar :=
| TvInt (z : Z) | TvUint (z : Z) | TvString | TvBool
| TvBytes (is_nil : bool) | TvFloat | TvDouble | TvDecimal (is_nil : bool)
| TvOtherArm.      (* ascii_val, proto_bytes, any_val, json arms inside a leaf-list, unset *)

Inductive tvalue :=
| TvScalar (s : tvscalar)
| TvLeaflist (es : list tvscalar)
| TvJSONIETF (is_nil : bool)   (* json_ietf_val; is_nil: GetJsonIetfVal() == nil *)
| TvJSON (is_nil : bool).

Definition tvscalar_eqb (a b : tvscalar) : bool :=
  match a, b with
  | TvInt x, TvInt y => Z.eqb x y
  | TvUint x, TvUint y => Z.eqb x y
  | TvString, TvString => true
  | TvBool, TvBool => true
  | TvBytes x, TvBytes y => Bool.eqb x y
  | TvFloat, TvFloat => true
  | TvDouble, TvDouble => true
  | TvDecimal x, TvDecimal y => Bool.eqb x y
  | TvOtherArm, TvOtherArm => true
  | _, _ => false
  end.
Fixpoint tvscalars_eqb (a b : list tvscalar) : bool :=
  match a, b with
  | [], [] => true
  | x :: a', y :: b' => tvscalar_eqb x y && tvscalars_eqb a' b'
  | _, _ => false
  end.
Definition tvalue_eqb (a b : tvalue) : bool :=
  match a, b with
  | TvScalar x, TvScalar y => tvscalar_eqb x y
  | TvLeaflist x, TvLeaflist y => tvscalars_eqb x y
  | TvJSONIETF x, TvJSONIETF y => Bool.eqb x y
  | TvJSON x, TvJSON y => Bool.eqb x y
  | _, _ => false
  end.

(* strconv.ParseInt(s, 10, bits) / ParseUint succeed (StringToType in sanitizeGNMI) *)
Definition in_int_range (bits : N) (z : Z) : bool :=
  (Z.leb (- 2 ^ (Z.of_N bits - 1)) z && Z.ltb z (2 ^ (Z.of_N bits - 1)))%Z.
Definition in_uint_range (bits : N) (z : Z) : bool :=
  (Z.leb 0 z && Z.ltb z (2 ^ Z.of_N bits))%Z.

(* ytypes/leaf.go sanitizeGNMI = gNMIToYANGTypeMatches ; decode.  Returns the TypedValue as it
   is AFTER the call and whether a Go value was produced (false = error returned).
   leaf.go:885-889: with jsonTolerance a non-negative int_val offered to an unsigned kind is
   accepted by OVERWRITING tv.Value with a uint_val — in the caller's message. *)
Definition sanitize_gnmi (v : variant) (tol : bool) (k : ykind) (tv : tvscalar) : tvscalar * bool :=
  match k, tv with
  | KBool, TvBool => (tv, true)
  | KString, TvString => (tv, true)
  | KEnum, TvString => (tv, false)                  (* enumStringToValue: not a defined name *)
  | KInt b, TvInt z => (tv, in_int_range b z)
  | KUint b, TvUint z => (tv, in_uint_range b z)
  | KUint b, TvInt z =>
      if tol && Z.leb 0 z
      then (if v_tolerance_copies_tv v then tv else TvUint z, in_uint_range b z)
      else (tv, false)
  | KBinary, TvBytes is_nil => (tv, negb is_nil)
  | KDecimal, TvDouble => (tv, true)
  | KDecimal, TvFloat => (tv, true)
  | KDecimal, TvDecimal is_nil => (tv, negb is_nil)
  | _, _ => (tv, false)
  end.

(* unmarshalLeaf / unmarshalUnion: the scalar kinds of the target are tried in order (a plain
   leaf has one kind; for a union: the de-duplicated non-enum member kinds, leaf.go:536-544)
   until one produces a value.  Every attempt sees the TypedValue as the previous one left it. *)
Fixpoint try_kinds (v : variant) (tol : bool) (ks : list ykind) (tv : tvscalar) : tvscalar * bool :=
  match ks with
  | [] => (tv, false)
  | k :: r =>
      let '(tv', ok) := sanitize_gnmi v tol k tv in
      if ok then (tv', true) else try_kinds v tol r tv'
  end.

(* unmarshalLeafList, gNMI arm (leaf_list.go:126-131): the elements are decoded in order and the
   loop returns at the first error. *)
Fixpoint ll_elems (v : variant) (tol : bool) (ks : list ykind) (es : list tvscalar) : list tvscalar :=
  match es with
  | [] => []
  | e :: r =>
      let '(e', ok) := try_kinds v tol ks e in
      if ok then e' :: ll_elems v tol ks r else e' :: r
  end.

(* SetNode (node.go:247-268): the TypedValue after the call.
   reached: the path resolves to a leaf / leaf-list field whose ancestors exist or are created. *)
Definition setnode_tv (v : variant) (reached tol leaflist : bool) (ks : list ykind) (tv : tvalue) : tvalue :=
  if negb reached then tv else
  match tv with
  | TvJSONIETF false => tv                      (* json.Unmarshal of the bytes: JSON decoder *)
  | TvJSON false => tv                          (* "json_val format is deprecated" *)
  | TvJSONIETF true | TvJSON true => tv         (* treated as a gNMI scalar: no arm matches *)
  | TvLeaflist es => if leaflist then TvLeaflist (ll_elems v tol ks es) else tv
  | TvScalar s => if leaflist then tv else TvScalar (fst (try_kinds v tol ks s))
  end.

(* ------------------------------------------------------------------ API calls *)

Inductive enc := EncJSON | EncJSONIETF | EncOther.
(* dynamic type of EncodeTypedValue's value *)
Inductive valkind := VkStruct | VkOrderedMap | VkNilStruct | VkLeafValue.

(* gnmidiff: one Replace/Update of a SetRequest (or Update of a Notification) in the order
   minimalSetRequestIntent / DiffSetRequestToNotifications process them *)
Inductive uoutcome :=
| UOk
| UFailEarly   (* populateUpdate returns before GetOrCreateNode: unparsable / unknown path *)
| UFailLate.   (* ... after it: SetNode / Marshal7951 / writeUpdate fails *)
Record upd := {
  u_nonleaf : bool;   (* the target schema is neither a leaf nor a leaf-list *)
  u_absent : bool;    (* GetOrCreateNode(path) on schema.Root, as it is at that moment, adds a node *)
  u_out : uoutcome
}.

Inductive call :=
| KGetNode | KValidate
| KEmitJSON (skip_validation : bool)
| KConstructIETFJSON | KMarshal7951 | KTogNMINotifications
| KEncodeTypedValue (e : enc) (vk : valkind) (cfg : option bool) (* Some b: cfg passed, AppendModuleName = b before *)
| KDiff | KDiffWithAtomic | KDeepCopy | KMergeStructs
| KDiffSetRequest (with_schema : bool) (ups : list upd)
| KDiffSetRequestToNotifications (with_schema : bool) (ups : list upd)
| KUnmarshal
| KSetNode (reached tol leaflist : bool) (ks : list ykind) (tv : tvalue)
| KUnmarshalSetRequest
| KUnmarshalNotifications (atomic_with_spare : bool). (* some n.Atomic with cap(n.Delete) > len(n.Delete) *)

(* intent.go populateUpdate:126 is reached for a non-leaf target and adds nodes to schema.Root;
   processing stops at the first update that fails *)
Fixpoint gd_creates (ups : list upd) : bool :=
  match ups with
  | [] => false
  | u :: r =>
      match u_out u with
      | UFailEarly => false
      | UFailLate => u_nonleaf u && u_absent u
      | UOk => (u_nonleaf u && u_absent u) || gd_creates r
      end
  end.

Definition setnode_writes_tv (v : variant) (reached tol leaflist : bool) (ks : list ykind) (tv : tvalue) : bool :=
  negb (tvalue_eqb (setnode_tv v reached tol leaflist ks tv) tv).

(* The table.  Stores into argument cells. *)
Definition writes (v : variant) (c : call) : list cell :=
  match c with
  | KGetNode => []                 (* retrieveNode with modifyRoot=false; paths are cloned (appendElem) *)
  | KValidate => []
  | KEmitJSON _ => []
  | KConstructIETFJSON => []
  | KMarshal7951 => []
  | KTogNMINotifications => []     (* the prefix slices are copied by gnmiPath.Copy before AppendName *)
  | KEncodeTypedValue e vk cfg =>
      (* render.go:937 `cfg.AppendModuleName = true` on the pointer taken from opts (render.go:851) *)
      match e, vk, cfg with
      | EncJSONIETF, (VkStruct | VkOrderedMap), Some _ =>
          if v_encode_copies_cfg v then [] else [COpt RFC7951_AppendModuleName]
      | _, _, _ => []
      end
  | KDiff => [] | KDiffWithAtomic => []
  | KDeepCopy => []
  | KMergeStructs => []            (* merges into deepCopy(a) *)
  | KDiffSetRequest s ups | KDiffSetRequestToNotifications s ups =>
      (* intent.go:126 ytypes.GetOrCreateNode(rootSchema, schema.Root, setNodePath) *)
      if s && negb (v_gnmidiff_scratch_root v) && gd_creates ups then [CSchemaRoot] else []
  | KUnmarshal => [CTree 0]
  | KSetNode reached tol leaflist ks tv =>
      CTree 0 :: (if setnode_writes_tv v reached tol leaflist ks tv then [CTypedValue] else [])
  | KUnmarshalSetRequest => [CSchemaRoot]
  | KUnmarshalNotifications spare =>
      (* gnmi.go:41 `deletePaths = append(n.Delete, &gpb.Path{})` writes n.Delete's spare slot *)
      CSchemaRoot :: (if spare && negb (v_notifs_copy_delete v) then [CNotifications] else [])
  end.

(* cells an API is documented to produce its result in *)
Definition dest (c : call) : list cell :=
  match c with
  | KUnmarshal | KSetNode _ _ _ _ _ => [CTree 0]
  | KUnmarshalSetRequest | KUnmarshalNotifications _ => [CSchemaRoot]
  | _ => []
  end.

(* stores that alter the value of an argument cell outside `dest` (visible to a deep snapshot) *)
Definition changes (v : variant) (c : call) : list cell :=
  match c with
  | KEncodeTypedValue _ _ (Some true) => []      (* stores `true` over `true` *)
  | _ => minus_cells (writes v c) (dest c)
  end.

(* global state a call may store into (through the lock protocol of Conc/Cache.v) *)
Definition global_writes (c : call) : list gcell :=
  match c with
  | KValidate => [GRegexpCache]                  (* ValidateStringRestrictions -> reCache.compilePattern *)
  | KEmitJSON false => [GRegexpCache]            (* ValidateGoStruct first *)
  | _ => []
  end.

Definition read_only_api (c : call) : bool :=
  match c with
  | KUnmarshal | KSetNode _ _ _ _ _ | KUnmarshalSetRequest | KUnmarshalNotifications _ => false
  | _ => true
  end.

(* ------------------------------------------------------------------ semantics of a write set *)

(* A store assigns a value to every cell.  An operation is any state transformer that leaves
   the cells outside its write set alone (the frame condition is part of the record). *)
Section Frames.
  Variable value : Type.
  Definition store := cell -> value.
  Record op := {
    op_writes : list cell;
    op_exec : store -> store;
    op_frame : forall s c, mem_cell c op_writes = false -> op_exec s c = s c
  }.
  Fixpoint run_ops (ops : list op) (s : store) : store :=
    match ops with
    | [] => s
    | o :: r => run_ops r (op_exec o s)
    end.
  (* the most general behaviour of a call with a given write set: it may put anything (f) into
     the cells it writes *)
  Definition havoc (ws : list cell) (f : store -> store) : store -> store :=
    fun s c => if mem_cell c ws then f s c else s c.
End Frames.
