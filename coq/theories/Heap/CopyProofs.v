(* CopyProofs.v — proofs about Heap/Located.v and Heap/Copy.v (C04). *)
From Ygot Require Import Tree.Tree Tree.TreeOps Tree.Merge Heap.Located Heap.Copy Tree.PruneProofs Tree.MergeProofs.

(* ---------- induction over the nested located-tree type ---------- *)
Section LtreeInd.
  Variable P : ltree -> Prop.
  Hypothesis Hval : forall v, P (LVal v).
  Hypothesis Hptr : forall p v, P (LPtr p v).
  Hypothesis Hbin : forall u p bs, P (LBin u p bs).
  Hypothesis Hwrap : forall p i, P i -> P (LWrap p i).
  Hypothesis Hll : forall p es, Forall P es -> P (LLeafList p es).
  Hypothesis Hcont : forall p fs, Forall (fun x => P (snd x)) fs -> P (LCont p fs).
  Hypothesis Hmap : forall p es, Forall (fun x => Forall P (fst x) /\ P (snd x)) es -> P (LMap p es).
  Hypothesis Homap : forall p pk pm es, Forall (fun x => P (snd x)) es -> P (LOMap p pk pm es).
  Hypothesis Hunk : forall p es, Forall P es -> P (LUnk p es).
  Fixpoint ltree_ind2 (t : ltree) : P t :=
    let fix all (l : list ltree) : Forall P l :=
      match l with [] => Forall_nil _ | x :: r => Forall_cons x (ltree_ind2 x) (all r) end in
    match t with
    | LVal v => Hval v
    | LPtr p v => Hptr p v
    | LBin u p bs => Hbin u p bs
    | LWrap p i => Hwrap p i (ltree_ind2 i)
    | LLeafList p es => Hll p es (all es)
    | LCont p fs => Hcont p fs ((fix go (l : list (str * ltree)) : Forall (fun x => P (snd x)) l :=
                       match l with [] => Forall_nil _ | x :: r => Forall_cons x (ltree_ind2 (snd x)) (go r) end) fs)
    | LMap p es => Hmap p es ((fix go (l : list (list ltree * ltree)) : Forall (fun x => Forall P (fst x) /\ P (snd x)) l :=
                       match l with [] => Forall_nil _ | x :: r => Forall_cons x (conj (all (fst x)) (ltree_ind2 (snd x))) (go r) end) es)
    | LOMap p pk pm es => Homap p pk pm es ((fix go (l : list (list scalar * ltree)) : Forall (fun x => P (snd x)) l :=
                       match l with [] => Forall_nil _ | x :: r => Forall_cons x (ltree_ind2 (snd x)) (go r) end) es)
    | LUnk p es => Hunk p es (all es)
    end.
End LtreeInd.

(* ====================================================================== *)
(* in-place mutation: the frame property                                   *)
(* ====================================================================== *)

Lemma loc_mem_In p l : loc_mem p l = true <-> In p l.
Proof.
  unfold loc_mem. rewrite existsb_exists. split.
  - intros [x [Hx E]]. apply N.eqb_eq in E. now subst.
  - intros H. exists p. split; auto. apply N.eqb_refl.
Qed.

Lemma lroot_locs l p : In p (lroot l) -> In p (locs l).
Proof. destruct l; simpl; intuition. Qed.

Lemma map_id_in {A} (f : A -> A) l : (forall x, In x l -> f x = x) -> map f l = l.
Proof. induction l; simpl; intros H; auto. rewrite H by auto. rewrite IHl; auto. Qed.

(* a write to a cell that the value does not reach does not change the value *)
Lemma lmutate_notin p c : forall l, ~ In p (locs l) -> lmutate p c l = l.
Proof.
  induction l using ltree_ind2; intros Hn;
    unfold lmutate; fold lmutate;
    (destruct (loc_mem p (lroot _)) eqn:E;
     [apply loc_mem_In in E; exfalso; apply Hn; now apply lroot_locs|]); auto.
  - f_equal. apply IHl. intros Hi. apply Hn. simpl. auto.
  - f_equal. apply map_id_in. intros x Hx. rewrite Forall_forall in H. apply H; auto.
    intros Hi. apply Hn. simpl. right. apply in_flat_map. eauto.
  - f_equal. apply map_id_in. intros [n t] Hx. rewrite Forall_forall in H. simpl. f_equal.
    apply (H (n, t)); auto. intros Hi. apply Hn. simpl. right. apply in_flat_map. exists (n, t). auto.
  - f_equal. apply map_id_in. intros [ks e] Hx. rewrite Forall_forall in H. destruct (H (ks, e) Hx) as [Hk He].
    simpl in *. f_equal.
    + apply map_id_in. intros k Hk'. rewrite Forall_forall in Hk. apply Hk; auto.
      intros Hi. apply Hn. right. apply in_flat_map. exists (ks, e). split; auto. simpl.
      apply in_or_app. left. apply in_flat_map. eauto.
    + apply He. intros Hi. apply Hn. right. apply in_flat_map. exists (ks, e). split; auto. simpl.
      apply in_or_app. now right.
  - f_equal. apply map_id_in. intros [k e] Hx. rewrite Forall_forall in H. simpl. f_equal.
    apply (H (k, e)); auto. intros Hi. apply Hn. simpl. right. right. right. apply in_flat_map. exists (k, e). auto.
  - f_equal. apply map_id_in. intros x Hx. rewrite Forall_forall in H. apply H; auto.
    intros Hi. apply Hn. simpl. right. apply in_flat_map. eauto.
Qed.

(* the cells of the value after a write: old cells or cells of what was written *)
Lemma locs_lmutate p c : forall l q, In q (locs (lmutate p c l)) -> In q (locs l) \/ In q (locs c).
Proof.
  induction l using ltree_ind2; intros q;
    unfold lmutate; fold lmutate; destruct (loc_mem p (lroot _)); auto; simpl.
  - intros [->|Hq]; auto. destruct (IHl q Hq); auto.
  - intros [->|Hq]; auto. apply in_flat_map in Hq. destruct Hq as [x [Hx Hq]].
    apply in_map_iff in Hx. destruct Hx as [y [<- Hy]]. rewrite Forall_forall in H.
    destruct (H y Hy q Hq); auto. left. right. apply in_flat_map. eauto.
  - intros [->|Hq]; auto. apply in_flat_map in Hq. destruct Hq as [x [Hx Hq]].
    apply in_map_iff in Hx. destruct Hx as [y [<- Hy]]. rewrite Forall_forall in H. simpl in Hq.
    destruct (H y Hy q Hq); auto. left. right. apply in_flat_map. eauto.
  - intros [->|Hq]; auto. apply in_flat_map in Hq. destruct Hq as [x [Hx Hq]].
    apply in_map_iff in Hx. destruct Hx as [y [<- Hy]]. rewrite Forall_forall in H. destruct (H y Hy) as [Hk He].
    simpl in Hq. apply in_app_or in Hq. destruct Hq as [Hq|Hq].
    + apply in_flat_map in Hq. destruct Hq as [k [Hk' Hq]]. apply in_map_iff in Hk'. destruct Hk' as [k0 [<- Hk0]].
      rewrite Forall_forall in Hk. destruct (Hk k0 Hk0 q Hq); auto.
      left. right. apply in_flat_map. exists y. split; auto. apply in_or_app. left. apply in_flat_map. eauto.
    + destruct (He q Hq); auto. left. right. apply in_flat_map. exists y. split; auto. apply in_or_app. now right.
  - intros [->|[->|[->|Hq]]]; auto. apply in_flat_map in Hq. destruct Hq as [x [Hx Hq]].
    apply in_map_iff in Hx. destruct Hx as [y [<- Hy]]. rewrite Forall_forall in H. simpl in Hq.
    destruct (H y Hy q Hq); auto. left. right. right. right. apply in_flat_map. eauto.
  - intros [->|Hq]; auto. apply in_flat_map in Hq. destruct Hq as [x [Hx Hq]].
    apply in_map_iff in Hx. destruct Hx as [y [<- Hy]]. rewrite Forall_forall in H.
    destruct (H y Hy q Hq); auto. left. right. apply in_flat_map. eauto.
Qed.

(* a sequence of writes, each to a cell of the (current) value cp, writing values built from
   cells that are not cells of the other value *)
Fixpoint lwrites_on (cp : ltree) (other : list loc) (ms : list (loc * ltree)) : Prop :=
  match ms with
  | [] => True
  | (p, c) :: r => In p (locs cp) /\ ldisjoint (locs c) other /\ lwrites_on (lmutate p c cp) other r
  end.

Theorem frame : forall ms cp other,
  ldisjoint (locs cp) (locs other) -> lwrites_on cp (locs other) ms ->
  lmutate_all ms other = other.
Proof.
  induction ms as [|[p c] r IH]; intros cp other Hd Hw; [reflexivity|].
  simpl in *. destruct Hw as [Hp [Hc Hw]].
  rewrite (lmutate_notin p c other) by (intros Hi; exact (Hd p Hp Hi)).
  apply (IH (lmutate p c cp)); auto.
  intros q Hq Hqo. destruct (locs_lmutate p c cp q Hq) as [H|H]; [exact (Hd q H Hqo)|exact (Hc q H Hqo)].
Qed.

(* ====================================================================== *)
(* the cells of a copy                                                     *)
(* ====================================================================== *)

Definition inrange (n n' p : loc) : Prop := n <= p /\ p < n'.

Lemma lmapM_locs {A B} (f : A -> loc -> result (B * loc)) (LOC : B -> list loc) (Q : A -> loc -> Prop) :
  forall l n ys n',
    (forall x, In x l -> forall m y m', f x m = Ok (y, m') ->
        m <= m' /\ forall p, In p (LOC y) -> Q x p \/ inrange m m' p) ->
    lmapM f l n = Ok (ys, n') ->
    n <= n' /\ forall p, In p (flat_map LOC ys) -> (exists x, In x l /\ Q x p) \/ inrange n n' p.
Proof.
  induction l as [|x r IH]; intros n ys n' Hf H.
  - simpl in H. inversion H. subst. split; [lia|]. intros p [].
  - simpl in H. apply bind_ok in H. destruct H as [[y m] [Hy H]]. apply bind_ok in H.
    destruct H as [[ys' m'] [Hr H]]. inversion H. subst. clear H. simpl in *.
    destruct (Hf x (or_introl eq_refl) n y m Hy) as [Hle Hy'].
    destruct (IH m ys' n' (fun z Hz => Hf z (or_intror Hz)) Hr) as [Hle' Hr'].
    split; [lia|]. intros p Hp. apply in_app_or in Hp. destruct Hp as [Hp|Hp].
    + destruct (Hy' p Hp) as [Hq|[H1 H2]]; [left; eauto|right; unfold inrange; lia].
    + destruct (Hr' p Hp) as [[z [Hz Hq]]|[H1 H2]]; [left; eauto|right; unfold inrange; lia].
Qed.

Lemma lfoldM_inv {A Acc} (f : Acc -> A -> loc -> result (Acc * loc)) (I : Acc -> loc -> Prop) :
  forall l acc n r n',
    (forall x, In x l -> forall a m a' m', I a m -> f a x m = Ok (a', m') -> I a' m') ->
    I acc n -> lfoldM f l acc n = Ok (r, n') -> I r n'.
Proof.
  induction l as [|x t IH]; intros acc n r n' Hf Hi H.
  - simpl in H. inversion H. now subst.
  - simpl in H. apply bind_ok in H. destruct H as [[a m] [Ha H]]. simpl in H.
    apply (IH a m r n').
    + intros z Hz. apply Hf. now right.
    + apply (Hf x (or_introl eq_refl) acc n a m Hi Ha).
    + exact H.
Qed.

Lemma lfresh_leaf_locs : forall e n, n <= snd (lfresh_leaf e n) /\
  forall p, In p (locs (fst (lfresh_leaf e n))) -> inrange n (snd (lfresh_leaf e n)) p.
Proof.
  induction e using ltree_ind2; intros n; simpl;
    try (split; [lia | intros p0 Hp; contradiction]);
    try (split; [lia | intros p0 Hp; destruct Hp as [Hp|Hp]; [subst; unfold inrange; lia | contradiction]]).
  destruct (IHe (N.succ n)) as [Hle Hp]. split; [lia|].
  intros q [<-|Hq]; [unfold inrange; lia|]. destruct (Hp q Hq). unfold inrange. lia.
Qed.

Lemma lfresh_list_locs : forall es n, n <= snd (lfresh_list es n) /\
  forall p, In p (flat_map locs (fst (lfresh_list es n))) -> inrange n (snd (lfresh_list es n)) p.
Proof.
  induction es as [|e r IH]; intros n; simpl.
  - split; [lia|intros p []].
  - destruct (lfresh_leaf_locs e n) as [H1 H2]. destruct (IH (snd (lfresh_leaf e n))) as [H3 H4].
    split; [lia|]. intros p Hp. apply in_app_or in Hp. destruct Hp as [Hp|Hp].
    + destruct (H2 p Hp). unfold inrange. lia.
    + destruct (H4 p Hp). unfold inrange. lia.
Qed.

Lemma lfind_locs {name} {fs : list (str * ltree)} {t} : lfind name fs = Some t ->
  forall p, In p (locs t) -> In p (flat_map (fun nf => locs (snd nf)) fs).
Proof.
  induction fs as [|[n x] r IH]; simpl; [discriminate|].
  destruct (str_eqb n name).
  - intros H. inversion H. subst. intros p Hp. apply in_or_app. now left.
  - intros H p Hp. apply in_or_app. right. now apply IH.
Qed.

Lemma lsomes_locs (l : list (str * option ltree)) p :
  In p (flat_map (fun nf => locs (snd nf)) (lsomes l)) -> In p (flat_map (fun nf => locs_opt (snd nf)) l).
Proof.
  induction l as [|[n [t|]] r IH]; simpl; auto. intros H. apply in_app_or in H. apply in_or_app.
  destruct H; auto.
Qed.

Lemma lsomes1_locs (l : list (option ltree)) p :
  In p (flat_map locs (lsomes1 l)) -> In p (flat_map locs_opt l).
Proof.
  induction l as [|[t|] r IH]; simpl; auto. intros H. apply in_app_or in H. apply in_or_app.
  destruct H; auto.
Qed.

Lemma lm_find_locs {k} {es : list (list ltree * ltree)} {t} : lm_find k es = Some t ->
  forall p, In p (locs t) -> In p (flat_map (fun ke => flat_map locs (fst ke) ++ locs (snd ke)) es).
Proof.
  induction es as [|[k' x] r IH]; simpl; [discriminate|].
  destruct (lkey_eqb k k').
  - intros H. inversion H. subst. intros p Hp. apply in_or_app. left. apply in_or_app. now right.
  - intros H p Hp. apply in_or_app. right. now apply IH.
Qed.

Lemma lo_find_locs {k} {es : list (list scalar * ltree)} {t} : lo_find k es = Some t ->
  forall p, In p (locs t) -> In p (flat_map (fun ke => locs (snd ke)) es).
Proof.
  induction es as [|[k' x] r IH]; simpl; [discriminate|].
  destruct (keys_eqb k k').
  - intros H. inversion H. subst. intros p Hp. apply in_or_app. now left.
  - intros H p Hp. apply in_or_app. right. now apply IH.
Qed.

Lemma lm_put_locs k e es p :
  In p (flat_map (fun ke => flat_map locs (fst ke) ++ locs (snd ke)) (lm_put k e es)) ->
  In p (flat_map locs k) \/ In p (locs e) \/ In p (flat_map (fun ke => flat_map locs (fst ke) ++ locs (snd ke)) es).
Proof.
  induction es as [|[k' x] r IH]; simpl.
  - rewrite app_nil_r. intros H. apply in_app_or in H. tauto.
  - destruct (lkey_eqb k k'); simpl; intros H; apply in_app_or in H; destruct H as [H|H].
    + apply in_app_or in H. tauto.
    + right. right. apply in_or_app. now right.
    + right. right. apply in_or_app. now left.
    + destruct (IH H) as [H'|[H'|H']]; auto. right. right. apply in_or_app. now right.
Qed.

Lemma lo_put_locs k e es p :
  In p (flat_map (fun ke => locs (snd ke)) (lo_put k e es)) ->
  In p (locs e) \/ In p (flat_map (fun ke => locs (snd ke)) es).
Proof.
  induction es as [|[k' x] r IH]; simpl.
  - rewrite app_nil_r. tauto.
  - destruct (keys_eqb k k'); simpl; intros H; apply in_app_or in H; destruct H as [H|H]; auto.
    + right. apply in_or_app. now right.
    + right. apply in_or_app. now left.
    + destruct (IH H) as [H'|H']; auto. right. apply in_or_app. now right.
Qed.

Lemma lrest_locs names dfs p :
  In p (flat_map (fun nf => locs (snd nf)) (lrest names dfs)) -> In p (flat_map (fun nf => locs (snd nf)) dfs).
Proof.
  unfold lrest. induction dfs as [|[n t] r IH]; simpl; auto.
  destruct (negb (str_mem n names) && negb (lis_empty_val t)); simpl; intros H.
  - apply in_app_or in H. apply in_or_app. destruct H; auto.
  - apply in_or_app. right. auto.
Qed.

Definition cpost (fu fe : bool) (dv : option ltree) (sv : ltree) (n : loc) (r : option ltree) (n' : loc) : Prop :=
  n <= n' /\ forall p, In p (locs_opt r) -> In p (locs_opt dv) \/ inrange n n' p \/ In p (lshared fu fe sv).

Ltac inr := unfold inrange in *; lia.

Theorem lcopy_locs fu fe o : forall sv dv n r n',
  lcopy_node fu fe o dv sv n = Ok (r, n') -> cpost fu fe dv sv n r n'.
Proof.
  induction sv as [v|p v|u p bs|p sv IHsv|p es IHes|p fs IHfs|p es IHes|p pk pm es IHes|p es IHes] using ltree_ind2;
    intros dv n r n' H; unfold cpost; cbn [lcopy_node] in H.
  - (* LVal *)
    destruct (lconflict o dv v); [discriminate|]. inversion H. subst. split; [lia|]. intros q [].
  - (* LPtr *)
    destruct (lconflict o dv v); [discriminate|]. inversion H. subst. split; [lia|].
    intros q [<-|[]]. right. left. inr.
  - (* LBin *)
    destruct u.
    + destruct (lconflict o dv (VBin bs)); [discriminate|].
      destruct (nil_b bs); inversion H; subst; (split; [lia|]).
      * intros q [].
      * intros q [<-|[]]. right. left. inr.
    + destruct (nil_b _ && nil_b bs); [inversion H; subst; split; [lia|auto]|].
      destruct (list_eqb N.eqb bs _); [inversion H; subst; split; [lia|auto]|].
      destruct (mg_overlap N.eqb _ bs); [discriminate|].
      destruct dv as [[| |u' q ds| | | | | |]|]; inversion H; subst; (split; [lia|]);
        intros x [<-|[]]; try (right; left; inr). left. simpl. auto.
  - (* LWrap *)
    destruct (lconflict o dv (lscalar sv)); [discriminate|].
    apply bind_ok in H. destruct H as [[ri m] [Hi H]]. inversion H. subst. clear H.
    destruct (IHsv None (N.succ n) ri n' Hi) as [Hle Hp]. split; [lia|].
    destruct ri as [i'|]; simpl; [|intros q []].
    intros q [<-|Hq]; [right; left; inr|].
    destruct (Hp q Hq) as [[]|[Hr|Hs]]; [right; left; inr|right; right; exact Hs].
  - (* LLeafList *)
    destruct (nil_b _ && nil_b es); [inversion H; subst; split; [lia|auto]|].
    destruct (list_eqb scalar_eqb _ _); [inversion H; subst; split; [lia|auto]|].
    destruct (mg_overlap scalar_eqb _ _); [discriminate|].
    set (rr := if fe then lfresh_list es n else (es, n)) in *.
    assert (Hrr : n <= snd rr /\ forall q, In q (flat_map locs (fst rr)) ->
                    inrange n (snd rr) q \/ In q (lshared fu fe (LLeafList p es))).
    { unfold rr. simpl. destruct fe.
      - destruct (lfresh_list_locs es n) as [A B]. split; auto.
      - simpl. split; [lia|auto]. }
    destruct Hrr as [Hle Hq].
    destruct dv as [[| | | |q ds| | | |]|]; inversion H; subst; (split; [lia|]); simpl;
      try (intros x [<-|Hx]; [right; left; inr|];
           destruct (Hq x Hx) as [Hr|Hs]; [right; left; inr|right; right; exact Hs]).
    intros x [<-|Hx]; [left; simpl; auto|]. rewrite flat_map_app in Hx. apply in_app_or in Hx.
    destruct Hx as [Hx|Hx]; [left; simpl; auto|].
    destruct (Hq x Hx) as [Hr|Hs]; [right; left; inr|right; right; exact Hs].
  - (* LCont *)
    set (dfs := match dv with Some (LCont _ x) => x | _ => [] end) in *.
    set (pq := match dv with Some (LCont q _) => (q, n) | _ => (n, N.succ n) end) in *.
    apply bind_ok in H. destruct H as [[rs m] [Hm H]]. inversion H. subst. clear H.
    assert (Hdfs : forall q, In q (flat_map (fun nf => locs (snd nf)) dfs) -> In q (locs_opt dv)).
    { unfold dfs. destruct dv as [[| | | | |q0 x| | |]|]; simpl; auto; intros q []. }
    assert (Hpq : n <= snd pq /\ (In (fst pq) (locs_opt dv) \/ inrange n (snd pq) (fst pq))).
    { unfold pq. destruct dv as [[| | | | |q0 x| | |]|]; simpl; (split; [lia|]); try (right; inr). left. auto. }
    destruct Hpq as [Hle0 Hpq].
    pose proof (fun Hf => lmapM_locs _ (fun y : str * option ltree => locs_opt (snd y))
                  (fun (nf : str * ltree) q => In q (locs_opt dv) \/ In q (lshared fu fe (snd nf)))
                  fs (snd pq) rs n' Hf Hm) as Hmap.
    destruct Hmap as [Hle Hin].
    { intros nf Hnf m y m' Hy. apply bind_ok in Hy. destruct Hy as [[ri mi] [Hi Hy]]. inversion Hy. subst. clear Hy.
      rewrite Forall_forall in IHfs. destruct (IHfs nf Hnf _ _ _ _ Hi) as [A B]. split; [exact A|].
      simpl. intros q Hq. destruct (B q Hq) as [Hd|[Hr|Hs]]; auto.
      left. left. apply Hdfs. destruct (lfind (fst nf) dfs) as [t|] eqn:Ef; [|contradiction].
      exact (lfind_locs Ef q Hd). }
    split; [lia|]. simpl. intros q [<-|Hq].
    + destruct Hpq as [Hpq|Hpq]; [left; exact Hpq|right; left; inr].
    + rewrite flat_map_app in Hq. apply in_app_or in Hq. destruct Hq as [Hq|Hq].
      * apply lsomes_locs in Hq. destruct (Hin q Hq) as [[nf [Hnf [Hd|Hs]]]|Hr]; auto.
        -- right. right. apply in_flat_map. eauto.
        -- right. left. inr.
      * left. apply Hdfs. now apply (lrest_locs (map fst fs)).
  - (* LMap *)
    set (des := match dv with Some (LMap _ x) => x | _ => [] end) in *.
    destruct (nil_b es && nil_b des && negb (mo_empty_maps o)); [inversion H; subst; split; [lia|auto]|].
    set (pq := match dv with
               | Some (LMap q _) => if nil_b des then (n, N.succ n) else (q, n)
               | _ => (n, N.succ n)
               end) in *.
    apply bind_ok in H. destruct H as [[racc m] [Hm H]]. inversion H. subst. clear H.
    set (EL := fun (l : list (list ltree * ltree)) => flat_map (fun ke => flat_map locs (fst ke) ++ locs (snd ke)) l).
    assert (Hdes : forall q, In q (EL des) -> In q (locs_opt dv)).
    { unfold des, EL. destruct dv as [[| | | | | |q0 x| |]|]; simpl; auto; intros q []. }
    assert (Hpq : n <= snd pq /\ (In (fst pq) (locs_opt dv) \/ inrange n (snd pq) (fst pq))).
    { unfold pq. destruct dv as [[| | | | | |q0 x| |]|]; simpl; try (split; [lia|right; inr]).
      destruct (nil_b des); simpl; (split; [lia|]); [right; inr|left; auto]. }
    destruct Hpq as [Hle0 Hpq].
    pose proof (fun Hf Hi => lfoldM_inv _ (fun acc m => snd pq <= m /\ forall q, In q (EL acc) ->
                   In q (locs_opt dv) \/ inrange (snd pq) m q \/ In q (lshared fu fe (LMap p es)))
                  es des (snd pq) racc n' Hf Hi Hm) as Hfold.
    destruct Hfold as [Hle Hin].
    { intros ke Hke a m a' m' [Ha1 Ha2] Hstep.
      apply bind_ok in Hstep. destruct Hstep as [[ri mi] [Hi Hstep]]. inversion Hstep. subst. clear Hstep.
      rewrite Forall_forall in IHes. destruct (IHes ke Hke) as [_ IHe].
      destruct (IHe _ _ _ _ Hi) as [A B]. split; [lia|]. simpl.
      assert (Hsh : forall q, In q (flat_map locs (fst ke)) \/ In q (lshared fu fe (snd ke)) -> In q (lshared fu fe (LMap p es))).
      { intros q Hq. simpl. apply in_flat_map. exists ke. split; auto. apply in_or_app. tauto. }
      intros q Hq. destruct ri as [e'|].
      - apply lm_put_locs in Hq. destruct Hq as [Hq|[Hq|Hq]].
        + right. right. apply Hsh. auto.
        + destruct (B q Hq) as [Hd|[Hr|Hs]].
          * left. apply Hdes. destruct (lm_find (fst ke) des) as [t|] eqn:Ef; [|contradiction].
            exact (lm_find_locs Ef q Hd).
          * right. left. inr.
          * right. right. apply Hsh. auto.
        + destruct (Ha2 q Hq) as [Hd|[Hr|Hs]]; auto. right. left. inr.
      - destruct (Ha2 q Hq) as [Hd|[Hr|Hs]]; auto. right. left. inr. }
    { split; [lia|]. intros q Hq. left. now apply Hdes. }
    split; [lia|]. simpl. intros q [<-|Hq].
    + destruct Hpq as [Hpq|Hpq]; [left; exact Hpq|right; left; inr].
    + destruct (Hin q Hq) as [Hd|[Hr|Hs]]; auto. right. left. inr.
  - (* LOMap *)
    set (des := match dv with Some (LOMap _ _ _ x) => x | _ => [] end) in *.
    destruct (nil_b es && nil_b des && negb (mo_empty_maps o)); [inversion H; subst; split; [lia|auto]|].
    set (fresh3 := (n, N.succ n, N.succ (N.succ n), N.succ (N.succ (N.succ n)))) in *.
    set (hdr := match dv with
                | Some (LOMap q qk qm _) => if nil_b des then fresh3 else (q, qk, qm, n)
                | _ => fresh3
                end) in *.
    destruct (negb (mg_om_mergeable (map fst des) (map fst es))); [discriminate|].
    apply bind_ok in H. destruct H as [[racc m] [Hm H]]. inversion H. subst. clear H.
    set (EL := fun (l : list (list scalar * ltree)) => flat_map (fun ke => locs (snd ke)) l).
    assert (Hdes : forall q, In q (EL des) -> In q (locs_opt dv)).
    { unfold des, EL. destruct dv as [[| | | | | | |q0 qk qm x|]|]; simpl; auto; intros q []. }
    assert (Hhdr : n <= snd hdr /\
              forall q, In q [fst (fst (fst hdr)); snd (fst (fst hdr)); snd (fst hdr)] ->
                        In q (locs_opt dv) \/ inrange n (snd hdr) q).
    { unfold hdr, fresh3. destruct dv as [[| | | | | | |q0 qk qm x|]|]; simpl;
        try (split; [lia|intros q [<-|[<-|[<-|[]]]]; right; inr]).
      destruct (nil_b des); simpl; (split; [lia|]).
      - intros q [<-|[<-|[<-|[]]]]; right; inr.
      - intros q [<-|[<-|[<-|[]]]]; left; auto. }
    destruct Hhdr as [Hle0 Hhdr].
    pose proof (fun Hf Hi => lfoldM_inv _ (fun acc m => snd hdr <= m /\ forall q, In q (EL acc) ->
                   In q (locs_opt dv) \/ inrange (snd hdr) m q \/ In q (lshared fu fe (LOMap p pk pm es)))
                  es des (snd hdr) racc n' Hf Hi Hm) as Hfold.
    destruct Hfold as [Hle Hin].
    { intros ke Hke a m a' m' [Ha1 Ha2] Hstep.
      apply bind_ok in Hstep. destruct Hstep as [[ri mi] [Hi Hstep]]. inversion Hstep. subst. clear Hstep.
      rewrite Forall_forall in IHes. destruct (IHes ke Hke _ _ _ _ Hi) as [A B]. split; [lia|]. simpl.
      assert (Hsh : forall q, In q (lshared fu fe (snd ke)) -> In q (lshared fu fe (LOMap p pk pm es))).
      { intros q Hq. simpl. apply in_flat_map. exists ke. split; auto. }
      intros q Hq. destruct ri as [e'|].
      - apply lo_put_locs in Hq. destruct Hq as [Hq|Hq].
        + destruct (B q Hq) as [Hd|[Hr|Hs]].
          * destruct (lo_find (fst ke) a) as [t|] eqn:Ef; [|contradiction].
            destruct (Ha2 q (lo_find_locs Ef q Hd)) as [Hd'|[Hr|Hs]]; auto. right. left. inr.
          * right. left. inr.
          * right. right. apply Hsh. auto.
        + destruct (Ha2 q Hq) as [Hd|[Hr|Hs]]; auto. right. left. inr.
      - destruct (Ha2 q Hq) as [Hd|[Hr|Hs]]; auto. right. left. inr. }
    { split; [lia|]. intros q Hq. left. now apply Hdes. }
    split; [lia|]. simpl. intros q Hq.
    assert (Hq' : In q [fst (fst (fst hdr)); snd (fst (fst hdr)); snd (fst hdr)] \/ In q (EL racc)).
    { simpl. simpl in Hq. tauto. }
    destruct Hq' as [Hq'|Hq'].
    + destruct (Hhdr q Hq') as [Hd|Hr]; auto. right. left. inr.
    + destruct (Hin q Hq') as [Hd|[Hr|Hs]]; auto. right. left. inr.
  - (* LUnk *)
    destruct (nil_b _ && nil_b es); [inversion H; subst; split; [lia|auto]|].
    destruct (list_eqb mg_tree_eqb _ _); [inversion H; subst; split; [lia|auto]|].
    destruct (mg_overlap mg_tree_eqb _ _); [discriminate|].
    apply bind_ok in H. destruct H as [[cs m] [Hm H]].
    pose proof (fun Hf => lmapM_locs _ locs_opt (fun (e : ltree) q => In q (lshared fu fe e)) es n cs m Hf Hm) as Hmap.
    destruct Hmap as [Hle Hin].
    { intros e He m0 y m' Hy. rewrite Forall_forall in IHes. destruct (IHes e He _ _ _ _ Hy) as [A B].
      split; [exact A|]. intros q Hq. destruct (B q Hq) as [[]|[Hr|Hs]]; auto. }
    set (app := if fu then lsomes1 cs else es) in *.
    assert (Happ : forall q, In q (flat_map locs app) -> inrange n m q \/ In q (lshared fu fe (LUnk p es))).
    { unfold app. simpl. intros q Hq. destruct fu.
      - apply lsomes1_locs in Hq. destruct (Hin q Hq) as [[e [He Hs]]|Hr]; auto.
        right. apply in_flat_map. eauto.
      - auto. }
    simpl in H.
    destruct dv as [[| | | | | | | |q ds]|]; inversion H; subst; (split; [lia|]); simpl;
      try (intros x [<-|Hx]; [right; left; inr|];
           destruct (Happ x Hx) as [Hr|Hs]; [right; left; inr|right; right; exact Hs]).
    intros x [<-|Hx]; [left; simpl; auto|]. rewrite flat_map_app in Hx. apply in_app_or in Hx.
    destruct Hx as [Hx|Hx]; [left; simpl; auto|].
    destruct (Happ x Hx) as [Hr|Hs]; [right; left; inr|right; right; exact Hs].
Qed.

(* ====================================================================== *)
(* C04: separation                                                         *)
(* ====================================================================== *)

Lemma lmax_ge l p : In p l -> p <= lmax l.
Proof. induction l as [|x r IH]; simpl; [contradiction|]. intros [<-|H]; [lia|]. specialize (IH H). lia. Qed.
Lemma lfresh_gt l p : In p l -> p < lfresh l.
Proof. intros H. apply lmax_ge in H. unfold lfresh. lia. Qed.

Lemma lsome_inv {A} (x : result (option A * loc)) c :
  lsome x = Ok c -> exists n', x = Ok (Some c, n').
Proof.
  unfold lsome. intros H. apply bind_ok in H. destruct H as [[o n'] [Hx H]]. simpl in H.
  destruct o; inversion H. subst. eauto.
Qed.

(* every cell that the copy has in common with the original is one the code stores from the source *)
Theorem deep_copy_sharing fu fe l c :
  ldeep_copy fu fe l = Ok c ->
  forall p, In p (locs c) -> In p (locs l) -> In p (lshared fu fe l).
Proof.
  unfold ldeep_copy. intros H. apply lsome_inv in H. destruct H as [n' H].
  destruct (lcopy_locs _ _ _ _ _ _ _ _ H) as [_ Hp]. intros p Hc Hl.
  destruct (Hp p Hc) as [[]|[[Hr _]|Hs]]; auto.
  apply lfresh_gt in Hl. lia.
Qed.

Theorem deep_copy_separate fu fe l c :
  ldeep_copy fu fe l = Ok c -> lshared fu fe l = [] -> ldisjoint (locs c) (locs l).
Proof.
  intros H Hs p Hc Hl. pose proof (deep_copy_sharing fu fe l c H p Hc Hl) as Hi. rewrite Hs in Hi. exact Hi.
Qed.

Theorem merge_sharing fu fe o a b c :
  lmerge fu fe o a b = Ok c ->
  forall p, In p (locs c) -> In p (locs a) \/ In p (locs b) ->
            In p (lshared fu fe a) \/ In p (lshared fu fe b).
Proof.
  unfold lmerge. intros H. apply bind_ok in H. destruct H as [[d n1] [Hd H]]. simpl in H.
  apply lsome_inv in H. destruct H as [n2 H].
  destruct (lcopy_locs _ _ _ _ _ _ _ _ Hd) as [Hle1 Hp1].
  destruct (lcopy_locs _ _ _ _ _ _ _ _ H) as [Hle2 Hp2].
  intros p Hc Hab.
  assert (Hlt : p < lfresh (locs a ++ locs b)).
  { apply lfresh_gt. apply in_or_app. exact Hab. }
  destruct (Hp2 p Hc) as [Hd'|[[Hr _]|Hs]]; auto; [|lia].
  destruct (Hp1 p Hd') as [[]|[[Hr _]|Hs]]; auto. lia.
Qed.

Theorem merge_separate fu fe o a b c :
  lmerge fu fe o a b = Ok c -> lshared fu fe a = [] -> lshared fu fe b = [] ->
  ldisjoint (locs c) (locs a) /\ ldisjoint (locs c) (locs b).
Proof.
  intros H Ha Hb. split; intros p Hc Hl.
  - destruct (merge_sharing fu fe o a b c H p Hc (or_introl Hl)) as [Hi|Hi]; [rewrite Ha in Hi|rewrite Hb in Hi]; exact Hi.
  - destruct (merge_sharing fu fe o a b c H p Hc (or_intror Hl)) as [Hi|Hi]; [rewrite Ha in Hi|rewrite Hb in Hi]; exact Hi.
Qed.

(* with both fixes nothing is shared but pointer keys of maps *)
Lemma flat_map_nil {A B} (f : A -> list B) l : (forall x, In x l -> f x = []) -> flat_map f l = [].
Proof. induction l; simpl; intros H; auto. rewrite H by auto. rewrite IHl; auto. Qed.

Theorem lshared_fixed_nil : forall l, lno_ptr_keys l = true -> lshared true true l = [].
Proof.
  induction l using ltree_ind2; simpl; intros Hk; auto.
  - apply flat_map_nil. intros x Hx. rewrite Forall_forall in H. apply H; auto.
    rewrite forallb_forall in Hk. auto.
  - apply flat_map_nil. intros x Hx. rewrite Forall_forall in H. rewrite forallb_forall in Hk.
    specialize (Hk x Hx). apply andb_prop in Hk. destruct Hk as [Hk1 Hk2].
    destruct (H x Hx) as [_ He]. rewrite (He Hk2), app_nil_r.
    destruct (flat_map locs (fst x)); [reflexivity|discriminate].
  - apply flat_map_nil. intros x Hx. rewrite Forall_forall in H. apply H; auto.
    rewrite forallb_forall in Hk. auto.
  - apply flat_map_nil. intros x Hx. rewrite Forall_forall in H. apply H; auto.
    rewrite forallb_forall in Hk. auto.
Qed.

(* ====================================================================== *)
(* C04: the copy is equal to the original                                  *)
(* ====================================================================== *)

Lemma lscalar_erase x : lscalar x = match erase x with TLeaf v => v | _ => VEmpty end.
Proof. destruct x; reflexivity. Qed.

Lemma lfresh_leaf_scalar : forall e n, lscalar (fst (lfresh_leaf e n)) = lscalar e.
Proof. induction e using ltree_ind2; intros n; simpl; auto. Qed.
Lemma lfresh_list_scalar : forall es n, map lscalar (fst (lfresh_list es n)) = map lscalar es.
Proof. induction es as [|e r IH]; intros n; simpl; auto. now rewrite lfresh_leaf_scalar, IH. Qed.

Definition eq_IH (fu fe : bool) (sv : ltree) : Prop :=
  forall n r n', lno_empty sv = true -> lkeys_ok sv = true ->
    lcopy_node fu fe mg_noopts None sv n = Ok (r, n') -> exists c, r = Some c /\ erase c = erase sv.

Lemma lmapM_forall2 {A B} (f : A -> loc -> result (B * loc)) (R : A -> B -> Prop) :
  forall l n ys n',
    (forall x, In x l -> forall m y m', f x m = Ok (y, m') -> R x y) ->
    lmapM f l n = Ok (ys, n') -> Forall2 R l ys.
Proof.
  induction l as [|x r IH]; intros n ys n' Hf H.
  - simpl in H. inversion H. constructor.
  - simpl in H. apply bind_ok in H. destruct H as [[y m] [Hy H]]. apply bind_ok in H.
    destruct H as [[ys' m'] [Hr H]]. inversion H. subst. constructor.
    + exact (Hf x (or_introl eq_refl) n y m Hy).
    + apply (IH m ys' n'); auto. intros z Hz. apply Hf. now right.
Qed.

Lemma forallb_In' {A} (c : A -> bool) l x : forallb c l = true -> In x l -> c x = true.
Proof. intros H Hin. rewrite forallb_forall in H. auto. Qed.

Lemma lm_find_none k acc : existsb (lkey_eqb k) (map fst acc) = false -> lm_put k (LVal VEmpty) acc = acc ++ [(k, LVal VEmpty)] -> True.
Proof. auto. Qed.

Lemma lm_put_fresh k e (acc : list (list ltree * ltree)) :
  existsb (fun k' => lkey_eqb k k') (map fst acc) = false -> lm_put k e acc = acc ++ [(k, e)].
Proof.
  induction acc as [|[k' e'] t IH]; simpl; auto. intros H. apply orb_false_iff in H. destruct H as [H1 H2].
  rewrite H1. now rewrite IH.
Qed.
Lemma lo_put_fresh k e (acc : list (list scalar * ltree)) :
  existsb (fun k' => keys_eqb k k') (map fst acc) = false -> lo_put k e acc = acc ++ [(k, e)].
Proof.
  induction acc as [|[k' e'] t IH]; simpl; auto. intros H. apply orb_false_iff in H. destruct H as [H1 H2].
  rewrite H1. now rewrite IH.
Qed.
Lemma lo_find_fresh k (acc : list (list scalar * ltree)) :
  existsb (fun k' => keys_eqb k k') (map fst acc) = false -> lo_find k acc = None.
Proof.
  induction acc as [|[k' e'] t IH]; simpl; auto. intros H. apply orb_false_iff in H. destruct H as [H1 H2].
  rewrite H1. now apply IH.
Qed.

(* copying the entries of a map into an empty map *)
Lemma lfold_map_fresh fu fe : forall (l : list (list ltree * ltree)) acc n r n',
  Forall (fun ke => eq_IH fu fe (snd ke)) l ->
  forallb (fun ke => forallb lno_empty (fst ke) && lno_empty (snd ke)) l = true ->
  forallb (fun ke => lkeys_ok (snd ke)) l = true ->
  lnodup_mkeys (map fst l) = true ->
  (forall k, In k (map fst l) -> existsb (fun k' => lkey_eqb k k') (map fst acc) = false) ->
  lfoldM (fun acc ke m =>
            bind (lcopy_node fu fe mg_noopts (lm_find (fst ke) []) (snd ke) m)
                 (fun r => Ok (match fst r with Some e' => lm_put (fst ke) e' acc | None => acc end, snd r)))
         l acc n = Ok (r, n') ->
  exists cs, Forall2 (fun ke c => erase c = erase (snd ke)) l cs /\
             r = acc ++ map (fun kc => (fst (fst kc), snd kc)) (combine l cs).
Proof.
  induction l as [|[k e] rest IH]; intros acc n r n' HF Hne Hko Hnd Hfresh H.
  - simpl in H. inversion H. subst. exists []. split; [constructor|]. simpl. now rewrite app_nil_r.
  - inversion HF as [|? ? Hx HF']. subst. simpl in Hne, Hko, Hnd.
    apply andb_prop in Hne. destruct Hne as [Hne1 Hne2]. apply andb_prop in Hne1. destruct Hne1 as [_ Hne1].
    apply andb_prop in Hko. destruct Hko as [Hko1 Hko2].
    apply andb_prop in Hnd. destruct Hnd as [Hnd1 Hnd2]. apply negb_true_iff in Hnd1.
    cbn [lfoldM] in H. apply bind_ok in H. destruct H as [[acc' m] [Hstep H]]. cbn [fst snd] in H.
    apply bind_ok in Hstep. destruct Hstep as [[ri mi] [Hi Hstep]]. inversion Hstep. subst. clear Hstep.
    cbn [fst snd lm_find] in *.
    destruct (Hx _ _ _ Hne1 Hko1 Hi) as [c [-> Hc]].
    rewrite lm_put_fresh in H by (apply Hfresh; now left).
    destruct (IH (acc ++ [(k, c)]) m r n' HF' Hne2 Hko2 Hnd2) as [cs [HF2 Hr]]; auto.
    + intros k2 Hk2. rewrite map_app, existsb_app. rewrite (Hfresh k2) by now right. simpl.
      rewrite orb_false_r.
      (* k2 is a later key: different from k *)
      destruct (lkey_eqb k2 k) eqn:E; auto.
      exfalso. clear -Hnd1 Hk2 E.
      assert (Hs : lkey_eqb k k2 = true).
      { clear -E. unfold lkey_eqb in *. revert k E. induction k2 as [|x k2 IHk]; intros [|y k] E; try discriminate; auto.
        simpl in *. apply andb_prop in E. destruct E as [E1 E2]. rewrite (IHk _ E2), andb_true_r.
        destruct x, y; simpl in *; try discriminate; auto.
        - destruct v, v0; simpl in *; try discriminate; auto.
          + apply andb_prop in E1. destruct E1 as [A B]. apply ikind_eqb_eq in A. apply Z.eqb_eq in B. subst.
            rewrite Z.eqb_refl. destruct k1; reflexivity.
          + apply PathRelProofs.str_eqb_eq in E1. subst. apply PathRelProofs.str_eqb_refl.
          + apply Bool.eqb_prop in E1. subst. destruct b0; reflexivity.
          + apply N.eqb_eq in E1. subst. apply N.eqb_refl.
          + apply (list_eqb_eq N.eqb) in E1; [|intros a b; apply N.eqb_eq]. subst.
            apply list_eqb_refl. apply N.eqb_refl.
          + apply andb_prop in E1. destruct E1 as [A B]. apply PathRelProofs.str_eqb_eq in A. apply Z.eqb_eq in B. subst.
            rewrite Z.eqb_refl, PathRelProofs.str_eqb_refl. reflexivity.
        - apply N.eqb_eq in E1. subst. apply N.eqb_refl. }
      assert (existsb (lkey_eqb k) (map fst rest) = true).
      { apply existsb_exists. exists k2. auto. }
      congruence.
    + exists (c :: cs). split; [constructor; auto|]. rewrite Hr. simpl. rewrite <- app_assoc. reflexivity.
Qed.

Lemma keys_eqb_sym' a b : keys_eqb a b = keys_eqb b a.
Proof.
  destruct (keys_eqb a b) eqn:E1; destruct (keys_eqb b a) eqn:E2; auto.
  - apply keys_eqb_eq in E1. subst. rewrite keys_eqb_refl in E2. discriminate.
  - apply keys_eqb_eq in E2. subst. rewrite keys_eqb_refl in E1. discriminate.
Qed.

(* copying the entries of an ordered map into an empty ordered map *)
Lemma lfold_omap_fresh fu fe : forall (l : list (list scalar * ltree)) acc n r n',
  Forall (fun ke => eq_IH fu fe (snd ke)) l ->
  forallb (fun ke => lno_empty (snd ke)) l = true ->
  forallb (fun ke => lkeys_ok (snd ke)) l = true ->
  lnodup_okeys (map fst l) = true ->
  (forall k, In k (map fst l) -> existsb (fun k' => keys_eqb k k') (map fst acc) = false) ->
  lfoldM (fun acc ke m =>
            bind (lcopy_node fu fe mg_noopts (lo_find (fst ke) acc) (snd ke) m)
                 (fun r => Ok (match fst r with Some e' => lo_put (fst ke) e' acc | None => acc end, snd r)))
         l acc n = Ok (r, n') ->
  exists cs, Forall2 (fun ke c => erase c = erase (snd ke)) l cs /\
             r = acc ++ map (fun kc => (fst (fst kc), snd kc)) (combine l cs).
Proof.
  induction l as [|[k e] rest IH]; intros acc n r n' HF Hne Hko Hnd Hfresh H.
  - simpl in H. inversion H. subst. exists []. split; [constructor|]. simpl. now rewrite app_nil_r.
  - inversion HF as [|? ? Hx HF']. subst. simpl in Hne, Hko, Hnd.
    apply andb_prop in Hne. destruct Hne as [Hne1 Hne2].
    apply andb_prop in Hko. destruct Hko as [Hko1 Hko2].
    apply andb_prop in Hnd. destruct Hnd as [Hnd1 Hnd2]. apply negb_true_iff in Hnd1.
    cbn [lfoldM] in H. apply bind_ok in H. destruct H as [[acc' m] [Hstep H]]. cbn [fst snd] in H.
    apply bind_ok in Hstep. destruct Hstep as [[ri mi] [Hi Hstep]]. inversion Hstep. subst. clear Hstep.
    cbn [fst snd] in *.
    rewrite lo_find_fresh in Hi by (apply Hfresh; now left).
    destruct (Hx _ _ _ Hne1 Hko1 Hi) as [c [-> Hc]].
    rewrite lo_put_fresh in H by (apply Hfresh; now left).
    destruct (IH (acc ++ [(k, c)]) m r n' HF' Hne2 Hko2 Hnd2) as [cs [HF2 Hr]]; auto.
    + intros k2 Hk2. rewrite map_app, existsb_app. rewrite (Hfresh k2) by now right. simpl.
      rewrite orb_false_r. destruct (keys_eqb k2 k) eqn:E; auto.
      exfalso. rewrite keys_eqb_sym' in E.
      assert (existsb (keys_eqb k) (map fst rest) = true).
      { apply existsb_exists. exists k2. auto. }
      congruence.
    + exists (c :: cs). split; [constructor; auto|]. rewrite Hr. simpl. rewrite <- app_assoc. reflexivity.
Qed.

Lemma erase_combine_fields (fs : list (str * ltree)) (rs : list (str * option ltree)) :
  Forall2 (fun nf y => fst y = fst nf /\ exists c, snd y = Some c /\ erase c = erase (snd nf)) fs rs ->
  map (fun nf => (fst nf, erase (snd nf))) (lsomes rs) = map (fun nf => (fst nf, erase (snd nf))) fs.
Proof.
  induction 1 as [|[n t] [n' o'] fs rs [Hn [c [Ho Hc]]] HF IH]; simpl in *; auto.
  subst. simpl. rewrite Hc, IH. reflexivity.
Qed.

Lemma nil_b_false_ne {A} (l : list A) : negb (nil_b l) = true -> l <> [].
Proof. destruct l; simpl; [discriminate|congruence]. Qed.

Theorem lcopy_erase fu fe : forall sv, eq_IH fu fe sv.
Proof.
  induction sv as [v|p v|u p bs|p sv IHsv|p es IHes|p fs IHfs|p es IHes|p pk pm es IHes|p es IHes] using ltree_ind2;
    intros n r n' Hne Hko H; cbn [lcopy_node] in H; cbn [lno_empty lkeys_ok] in Hne, Hko.
  - inversion H. eauto.
  - inversion H. eauto.
  - destruct u.
    + simpl in H. apply nil_b_false_ne in Hne. destruct bs; [congruence|]. inversion H. eauto.
    + apply nil_b_false_ne in Hne. destruct bs as [|b bs]; [congruence|]. simpl in H. inversion H. eauto.
  - simpl in H. apply bind_ok in H. destruct H as [[ri m] [Hi H]]. inversion H. subst. clear H.
    destruct (IHsv _ _ _ Hne Hko Hi) as [c [-> Hc]]. simpl. eexists. split; [reflexivity|].
    simpl. rewrite !lscalar_erase, Hc. reflexivity.
  - apply andb_prop in Hne. destruct Hne as [Hne _]. apply nil_b_false_ne in Hne.
    destruct es as [|e es]; [congruence|]. cbn [nil_b andb map list_eqb mg_overlap existsb] in H.
    destruct fe; simpl in H; inversion H; subst; eexists; (split; [reflexivity|]); simpl; auto.
    f_equal. f_equal.
    + apply lfresh_leaf_scalar.
    + apply lfresh_list_scalar.
  - apply bind_ok in H. destruct H as [[rs m] [Hm H]]. inversion H. subst. clear H.
    eexists. split; [reflexivity|]. simpl. unfold lrest. simpl. rewrite app_nil_r. f_equal.
    apply erase_combine_fields.
    apply (fun Hf => lmapM_forall2 _ _ fs _ rs n' Hf Hm).
    intros nf Hnf m y m' Hy. cbv beta in Hy.
    apply bind_ok in Hy. destruct Hy as [[ri mi] [Hi Hy]]. inversion Hy. subst. simpl. split; auto.
    rewrite Forall_forall in IHfs. simpl in Hi.
    destruct (IHfs nf Hnf _ _ _ (forallb_In' _ _ _ Hne Hnf) (forallb_In' _ _ _ Hko Hnf) Hi) as [c [-> Hc]]. eauto.
  - apply andb_prop in Hne. destruct Hne as [Hne0 Hne]. apply nil_b_false_ne in Hne0.
    apply andb_prop in Hko. destruct Hko as [Hnd Hko].
    destruct es as [|ke0 es0] eqn:Ees; [congruence|]. rewrite <- Ees in *. 
    assert (Hnil : nil_b es = false) by (rewrite Ees; reflexivity).
    rewrite Hnil in H. cbn [andb] in H.
    apply bind_ok in H. destruct H as [[racc m] [Hm H]]. inversion H. subst r n'. clear H.
    cbn [fst snd] in Hm.
    destruct (lfold_map_fresh fu fe es [] (N.succ n) racc m) as [cs [HF Hr]]; auto.
    + rewrite Forall_forall in IHes. apply Forall_forall. intros ke Hke. exact (proj2 (IHes ke Hke)).
    + eexists. split; [reflexivity|]. simpl. f_equal. rewrite Hr. simpl.
      clear -HF. induction HF as [|[k e] c l cs Hc HF IH]; simpl; auto. rewrite Hc, IH. reflexivity.
  - apply andb_prop in Hne. destruct Hne as [Hne0 Hne]. apply nil_b_false_ne in Hne0.
    apply andb_prop in Hko. destruct Hko as [Hnd Hko].
    destruct es as [|ke0 es0] eqn:Ees; [congruence|]. rewrite <- Ees in *.
    assert (Hnil : nil_b es = false) by (rewrite Ees; reflexivity).
    rewrite Hnil in H. cbn [andb map] in H.
    assert (Hmg : mg_om_mergeable [] (map fst es) = true).
    { unfold mg_om_mergeable. simpl. rewrite Nat.eqb_refl. apply orb_true_r. }
    rewrite Hmg in H. cbn [negb] in H.
    apply bind_ok in H. destruct H as [[racc m] [Hm H]]. inversion H. subst r n'. clear H.
    cbn [fst snd] in Hm.
    destruct (lfold_omap_fresh fu fe es [] (N.succ (N.succ (N.succ n))) racc m) as [cs [HF Hr]]; auto.
    eexists. split; [reflexivity|]. simpl. f_equal. rewrite Hr. simpl.
    clear -HF. induction HF as [|[k e] c l cs Hc HF IH]; simpl; auto. rewrite Hc, IH. reflexivity.
  - apply andb_prop in Hne. destruct Hne as [Hne0 Hne]. apply nil_b_false_ne in Hne0.
    destruct es as [|e0 es0] eqn:Ees; [congruence|]. rewrite <- Ees in *.
    assert (Hnil : nil_b es = false) by (rewrite Ees; reflexivity).
    rewrite Hnil in H. cbn [nil_b andb map] in H.
    assert (Hl : list_eqb mg_tree_eqb (map erase es) [] = false) by (rewrite Ees; reflexivity).
    rewrite Hl in H. cbn [mg_overlap existsb] in H.
    apply bind_ok in H. destruct H as [[cs m] [Hm H]]. cbn [fst snd] in H.
    assert (HF : Forall2 (fun e y => exists c, y = Some c /\ erase c = erase e) es cs).
    { apply (fun Hf => lmapM_forall2 _ _ es n cs m Hf Hm).
      intros e He m0 y m' Hy. rewrite Forall_forall in IHes.
      exact (IHes e He _ _ _ (forallb_In' _ _ _ Hne He) (forallb_In' _ _ _ Hko He) Hy). }
    inversion H. subst r n'. eexists. split; [reflexivity|]. simpl. f_equal.
    destruct fu; auto.
    clear -HF. induction HF as [|e y l cs Hy HF IH]; simpl; auto.
    destruct Hy as [c [Hy Hc]]. subst y. simpl. rewrite Hc, IH. reflexivity.
Qed.

(* ---------- the statements of the property file ---------- *)
Lemma c04_copy_equal_partial_lemma : forall fu fe l c,
  lno_empty l = true -> lkeys_ok l = true ->
  ldeep_copy fu fe l = Ok c -> erase c = erase l.
Proof.
  intros fu fe l c Hne Hko H. unfold ldeep_copy in H. apply lsome_inv in H. destruct H as [n' H].
  destruct (lcopy_erase fu fe l _ _ _ Hne Hko H) as [c' [Hc He]]. inversion Hc. now subst.
Qed.

Lemma c04_copy_separate_fixed_lemma : forall l c,
  lno_ptr_keys l = true -> ldeep_copy true true l = Ok c -> ldisjoint (locs c) (locs l).
Proof.
  intros l c Hk H. apply (deep_copy_separate true true l c H). now apply lshared_fixed_nil.
Qed.

Lemma c04_copy_separate_partial_lemma : forall l c,
  lshared false false l = [] -> ldeep_copy false false l = Ok c -> ldisjoint (locs c) (locs l).
Proof. intros l c Hs H. exact (deep_copy_separate false false l c H Hs). Qed.

Lemma c04_frame_copy_fixed_lemma : forall l c ms,
  lno_ptr_keys l = true -> ldeep_copy true true l = Ok c ->
  (lwrites_on c (locs l) ms -> erase (lmutate_all ms l) = erase l) /\
  (lwrites_on l (locs c) ms -> erase (lmutate_all ms c) = erase c).
Proof.
  intros l c ms Hk H. pose proof (c04_copy_separate_fixed_lemma l c Hk H) as Hd. split; intros Hw.
  - now rewrite (frame ms c l Hd Hw).
  - rewrite (frame ms l c); auto. intros p Hl Hc. exact (Hd p Hc Hl).
Qed.

Lemma c04_merge_separate_fixed_lemma : forall o a b c,
  lno_ptr_keys a = true -> lno_ptr_keys b = true -> lmerge true true o a b = Ok c ->
  ldisjoint (locs c) (locs a) /\ ldisjoint (locs c) (locs b).
Proof.
  intros o a b c Ha Hb H. apply (merge_separate true true o a b c H); now apply lshared_fixed_nil.
Qed.

Lemma c04_merge_separate_partial_lemma : forall o a b c,
  lshared false false a = [] -> lshared false false b = [] -> lmerge false false o a b = Ok c ->
  ldisjoint (locs c) (locs a) /\ ldisjoint (locs c) (locs b).
Proof. intros o a b c Ha Hb H. exact (merge_separate false false o a b c H Ha Hb). Qed.
