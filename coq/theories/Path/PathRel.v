(* PathRel.v — transcription of util/gnmi.go: comparePathElem, ComparePaths, PathElemsEqual,
   PathMatchesQuery, PathMatchesPrefix, PathMatchesPathElemPrefix, TrimGNMIPathElemPrefix,
   JoinPaths, FindPathElemPrefix.
   The keys of a PathElem are a Go map; here they are an association list *in iteration order*
   (any order, keys without duplicates): Go's map iteration order is arbitrary, and
   PathRelProofs.compare_elem_perm shows the result does not depend on it. *)
From Ygot Require Import Base.Base Path.PathString.

Record gp := { origin : str; target : str; elems : list pelem }.

Inductive rel := REqual | RDisjoint | RSubset | RSuperset | RPartial.
Definition rel_eqb (a b : rel) : bool :=
  match a, b with
  | REqual, REqual | RDisjoint, RDisjoint | RSubset, RSubset | RSuperset, RSuperset | RPartial, RPartial => true
  | _, _ => false
  end.

Definition STAR : str := [42].
Definition is_star (v : str) : bool := str_eqb v STAR.
Definition OC : str := [111;112;101;110;99;111;110;102;105;103].   (* "openconfig" *)

Definition has_key (k : str) (l : list (str * str)) : bool :=
  match al_find k l with Some _ => true | None => false end.
Definition get_key (k : str) (l : list (str * str)) : str :=
  match al_find k l with Some v => v | None => [] end.         (* Go: zero value "" when absent *)

(* first loop of comparePathElem: over a's keys; None = "return Disjoint" *)
Fixpoint cmp_loop1 (ka kb : list (str * str)) (r : rel) (partial : bool) : option (rel * bool) :=
  match ka with
  | [] => Some (r, partial)
  | (k, av) :: t =>
      let bv := get_key k kb in
      let ok := has_key k kb in
      if (ok && str_eqb av bv) || (is_star av && negb ok) then cmp_loop1 t kb r partial
      else if is_star av then
        (if rel_eqb r RSubset then cmp_loop1 t kb r true else cmp_loop1 t kb RSuperset partial)
      else if is_star bv || negb ok then
        (if rel_eqb r RSuperset then cmp_loop1 t kb r true else cmp_loop1 t kb RSubset partial)
      else None
  end.

(* second loop: over b's keys *)
Fixpoint cmp_loop2 (kb ka : list (str * str)) (r : rel) (partial : bool) : rel * bool :=
  match kb with
  | [] => (r, partial)
  | (k, bv) :: t =>
      if has_key k ka || is_star bv then cmp_loop2 t ka r partial
      else if rel_eqb r RSubset then cmp_loop2 t ka r true
      else cmp_loop2 t ka RSuperset partial
  end.

Definition compare_elem (a b : pelem) : rel :=
  if negb (str_eqb (ename a) (ename b)) then RDisjoint
  else match cmp_loop1 (ekeys a) (ekeys b) REqual false with
       | None => RDisjoint
       | Some (r, p) =>
           let '(r', p') := cmp_loop2 (ekeys b) (ekeys a) r p in
           if p' then RPartial else r'
       end.

Definition origin_equiv (a b : str) : bool :=
  str_eqb a b || (nil_b a && str_eqb b OC) || (str_eqb a OC && nil_b b).

(* the element loop of ComparePaths, up to the shorter length; None = "return Disjoint" *)
Fixpoint cmp_elems (a b : list pelem) (r : rel) (partial : bool) : option (rel * bool) :=
  match a, b with
  | ea :: ta, eb :: tb =>
      match compare_elem ea eb with
      | RDisjoint => None
      | RPartial => cmp_elems ta tb r true
      | REqual => cmp_elems ta tb r partial
      | er => if rel_eqb r REqual then cmp_elems ta tb er partial
              else if negb (rel_eqb er r) then cmp_elems ta tb r true
              else cmp_elems ta tb r partial
      end
  | _, _ => Some (r, partial)
  end.

Definition compare_paths (a b : gp) : rel :=
  if negb (origin_equiv (origin a) (origin b)) then RDisjoint
  else
    let la := length (elems a) in
    let lb := length (elems b) in
    let r0 := if Nat.ltb lb la then RSubset else if Nat.ltb la lb then RSuperset else REqual in
    match cmp_elems (elems a) (elems b) r0 false with
    | None => RDisjoint
    | Some (r, p) => if p then RPartial else r
    end.

(* PathElemsEqual (non-nil arguments) *)
Definition elems_equal (a b : pelem) : bool :=
  str_eqb (ename a) (ename b) &&
  Nat.eqb (length (ekeys a)) (length (ekeys b)) &&
  forallb (fun kv => match al_find (fst kv) (ekeys b) with
                     | Some vo => str_eqb (snd kv) vo | None => false end) (ekeys a).

(* PathMatchesPathElemPrefix *)
Fixpoint elems_prefix (pre path : list pelem) : bool :=
  match pre, path with
  | [], _ => true
  | e :: pre', x :: path' => elems_equal e x && elems_prefix pre' path'
  | _ :: _, [] => false
  end.
Definition matches_elem_prefix (path pre : gp) : bool :=
  if Nat.ltb (length (elems path)) (length (elems pre)) || negb (str_eqb (origin path) (origin pre))
  then false else elems_prefix (elems pre) (elems path).

(* PathMatchesQuery *)
Definition elem_matches_query (pe qe : pelem) : bool :=
  (str_eqb (ename qe) STAR || str_eqb (ename qe) (ename pe)) &&
  forallb (fun kv => match al_find (fst kv) (ekeys pe) with
                     | Some pv => is_star (snd kv) || str_eqb (snd kv) pv
                     | None => false end) (ekeys qe).
Fixpoint elems_match_query (path query : list pelem) : bool :=
  match query, path with
  | [], _ => true
  | qe :: q', pe :: p' => elem_matches_query pe qe && elems_match_query p' q'
  | _ :: _, [] => false
  end.
Definition matches_query (path query : gp) : bool :=
  if Nat.ltb (length (elems path)) (length (elems query)) then false
  else if negb (origin_equiv (origin path) (origin query)) then false
  else elems_match_query (elems path) (elems query).

(* PathMatchesPrefix (string prefix): the length test precedes the trimming of trailing "" *)
Fixpoint trim_trailing_empty (l : list str) : list str :=
  match l with
  | [] => []
  | x :: t => match trim_trailing_empty t with
              | [] => if nil_b x then [] else [x]
              | t' => x :: t'
              end
  end.
Fixpoint names_prefix (pre : list str) (path : list pelem) : bool :=
  match pre, path with
  | [], _ => true
  | n :: pre', e :: path' => str_eqb n (ename e) && names_prefix pre' path'
  | _ :: _, [] => false
  end.
Definition matches_prefix (path : gp) (pre : list str) : bool :=
  if Nat.ltb (length (elems path)) (length pre) then false
  else names_prefix (trim_trailing_empty pre) (elems path).

(* TrimGNMIPathElemPrefix (non-nil prefix) *)
Definition trim_elem_prefix (path pre : gp) : gp :=
  if matches_elem_prefix path pre
  then {| origin := origin path; target := target path; elems := skipn (length (elems pre)) (elems path) |}
  else path.

(* JoinPaths *)
Definition join_paths (pre suf : gp) : result gp :=
  if negb (nil_b (origin suf)) && negb (nil_b (origin pre)) && negb (str_eqb (origin pre) (origin suf)) then Err
  else if negb (nil_b (target suf)) && negb (nil_b (target pre)) && negb (str_eqb (target pre) (target suf)) then Err
  else Ok {| origin := if negb (nil_b (origin suf)) then origin suf else origin pre;
             target := if negb (nil_b (target suf)) then target suf else target pre;
             elems := elems pre ++ elems suf |}.

(* FindPathElemPrefix on a non-empty list of paths (the Go loop does not terminate on an
   empty list; that input is excluded).  Longest common prefix w.r.t. elems_equal, taking the
   elements from the first path. *)
Fixpoint common_prefix2 (a b : list pelem) : list pelem :=
  match a, b with
  | x :: a', y :: b' => if elems_equal y x then x :: common_prefix2 a' b' else []
  | _, _ => []
  end.
Definition find_prefix (ps : list (list pelem)) : list pelem :=
  match ps with
  | [] => []
  | p :: rest => fold_left common_prefix2 rest p
  end.

(* ---------- the denotation: sets of concrete data paths ---------- *)

(* The constraint an element puts on key k: None = wildcard ("*" or absent). *)
Definition cons_of (e : pelem) (k : str) : option str :=
  match al_find k (ekeys e) with
  | Some v => if is_star v then None else Some v
  | None => None
  end.

(* a concrete element: a name and a total assignment of key values *)
Definition celem := (str * (str -> str))%type.
Definition cpath := (str * list celem)%type.    (* normalised origin, elements *)

Definition norm_origin (o : str) : str := if str_eqb o OC then [] else o.

Definition in_elem (q : celem) (e : pelem) : Prop :=
  fst q = ename e /\ forall k v, cons_of e k = Some v -> snd q k = v.

(* p denotes every concrete path below it: its own length or longer (a path covers its subtree) *)
Definition D (p : gp) (q : cpath) : Prop :=
  norm_origin (origin p) = fst q /\
  (length (elems p) <= length (snd q))%nat /\
  Forall2 in_elem (firstn (length (elems p)) (snd q)) (elems p).

Definition rel_holds (r : rel) (A B : cpath -> Prop) : Prop :=
  match r with
  | REqual => forall q, A q <-> B q
  | RDisjoint => forall q, ~ (A q /\ B q)
  | RSubset => (forall q, A q -> B q) /\ exists q, B q /\ ~ A q
  | RSuperset => (forall q, B q -> A q) /\ exists q, A q /\ ~ B q
  | RPartial => (exists q, A q /\ B q) /\ (exists q, A q /\ ~ B q) /\ (exists q, B q /\ ~ A q)
  end.

(* well-formed for the relation theorems: key names distinct inside an element, key values
   non-empty (gNMI forbids empty key values; Go's zero value "" for an absent key would
   otherwise be confused with a present empty one) *)
Fixpoint nodup_keysb (l : list (str * str)) : bool :=
  match l with
  | [] => true
  | (k, _) :: t => negb (has_key k t) && nodup_keysb t
  end.
Definition wf_relemb (e : pelem) : bool :=
  nodup_keysb (ekeys e) && forallb (fun kv => negb (nil_b (snd kv))) (ekeys e).
Definition wf_gpb (p : gp) : bool := forallb wf_relemb (elems p).
