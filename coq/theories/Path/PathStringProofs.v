(* PathStringProofs.v — proofs about the PathString model (C08). *)
From Ygot Require Import Base.Base Path.PathString.

(* ---------- generic list / string facts ---------- *)

Lemma str_cmp_antisym a b : str_cmp a b = Lt -> str_cmp b a = Gt.
Proof.
  revert b; induction a as [|x a IH]; intros [|y b]; simpl; try discriminate; auto.
  intros H. rewrite (N.compare_antisym x y).
  destruct (x ?= y) eqn:E; simpl; try discriminate; auto.
Qed.

Lemma str_ltb_antisym a b : str_ltb a b = true -> str_cmp b a = Gt.
Proof.
  unfold str_ltb. destruct (str_cmp a b) eqn:E; try discriminate. intros _.
  now apply str_cmp_antisym.
Qed.

Lemma al_insert_last {V} k (v : V) l :
  Forall (fun kv => str_ltb (fst kv) k = true) l -> al_insert k v l = l ++ [(k, v)].
Proof.
  induction l as [|[k' v'] l IH]; simpl; intros H; auto.
  inversion H as [|? ? H1 H2]; subst. simpl in H1.
  rewrite (str_ltb_antisym _ _ H1). now rewrite IH.
Qed.

Lemma ssorted_prefix {V} (l1 : list (str * V)) x l2 :
  ssorted_keysb (l1 ++ x :: l2) = true ->
  Forall (fun kv => str_ltb (fst kv) (fst x) = true) l1.
Proof.
  induction l1 as [|[k v] l1 IH]; simpl; intros H; constructor.
  - apply andb_prop in H as [H _]. rewrite forallb_app in H.
    apply andb_prop in H as [_ H]. simpl in H. apply andb_prop in H as [H _]. exact H.
  - apply andb_prop in H as [_ H]. auto.
Qed.

Lemma last_app_ne {A} (l1 l2 : list A) d : l2 <> [] -> last (l1 ++ l2) d = last l2 d.
Proof.
  induction l1 as [|a l1 IH]; simpl; intros H; auto.
  destruct (l1 ++ l2) eqn:E.
  - destruct l1; simpl in E; [contradiction | discriminate].
  - auto.
Qed.

Lemma mapM_map_ok {A B} (f : A -> result B) (g : A -> B) l :
  (forall x, In x l -> f x = Ok (g x)) -> mapM f l = Ok (map g l).
Proof.
  induction l as [|x l IH]; simpl; intros H; auto.
  rewrite H by auto. simpl. rewrite IH by auto. reflexivity.
Qed.

Lemma mapM_id_ok {A} (f : A -> result A) l :
  (forall x, In x l -> f x = Ok x) -> mapM f l = Ok l.
Proof.
  intros H. rewrite (mapM_map_ok f (fun x => x)) by exact H. now rewrite map_id.
Qed.

(* ---------- character classes ---------- *)

Lemma name_char_spec c : name_char c = true ->
  (c =? SLASH) = false /\ (c =? LBR) = false /\ (c =? RBR) = false /\
  (c =? EQC) = false /\ (c =? BSL) = false /\ (c =? SP) = false.
Proof.
  unfold name_char.
  destruct (c =? SLASH), (c =? LBR), (c =? RBR), (c =? EQC), (c =? BSL), (c =? SP);
    simpl; intros H; try discriminate; repeat split; reflexivity.
Qed.

Lemma has_space_name s : forallb name_char s = true -> has_space s = false.
Proof.
  induction s as [|c s IH]; simpl; auto. intros H. apply andb_prop in H as [H1 H2].
  apply name_char_spec in H1. destruct H1 as (_ & _ & _ & _ & _ & H1). rewrite H1. simpl. auto.
Qed.

(* ---------- extractKV on a printed element ---------- *)

Lemma kv_run_app s l1 l2 : kv_run s (l1 ++ l2) = bind (kv_run s l1) (fun s' => kv_run s' l2).
Proof.
  revert s; induction l1 as [|c l1 IH]; simpl; intros s; auto.
  destruct (kv_step s c); simpl; auto.
Qed.

Definition kset_buf (s : kst) (b : str) : kst :=
  {| k_esc := false; k_key := k_key s; k_val := k_val s; k_name := k_name s;
     k_cur := k_cur s; k_buf := b; k_keys := k_keys s |}.

(* name characters are copied to the buffer, in any non-escaped state *)
Lemma kv_run_name l : forall s, forallb name_char l = true -> k_esc s = false ->
  kv_run s l = Ok (kset_buf s (k_buf s ++ l)).
Proof.
  induction l as [|c l IH]; intros s Hl He; simpl.
  - rewrite app_nil_r. destruct s; simpl in *; subst; reflexivity.
  - simpl in Hl. apply andb_prop in Hl as [Hc Hl].
    apply name_char_spec in Hc. destruct Hc as (_ & H1 & H2 & H3 & H4 & _).
    unfold kv_step. rewrite H1, H2, H3, H4. simpl.
    rewrite IH; auto. unfold kset_buf; simpl. now rewrite <- app_assoc.
Qed.

Definition kdefault (s : kst) (c : rune) : kst :=
  {| k_esc := false; k_key := k_key s; k_val := k_val s; k_name := k_name s;
     k_cur := k_cur s; k_buf := k_buf s ++ [c]; k_keys := k_keys s |}.

Lemma kv_step_escaped s c : k_esc s = true -> kv_step s c = Ok (kdefault s c).
Proof.
  destruct s as [e k v n cu b ks]; simpl; intros ->. unfold kv_step, kdefault; simpl.
  destruct (c =? LBR), (c =? RBR), (c =? BSL), (c =? EQC), k, v; reflexivity.
Qed.

Lemma kv_step_inval s c : k_esc s = false -> k_key s = true -> k_val s = true ->
  (c =? RBR) = false -> (c =? BSL) = false -> kv_step s c = Ok (kdefault s c).
Proof.
  destruct s as [e k v n cu b ks]; simpl; intros -> -> -> H1 H2. unfold kv_step, kdefault; simpl.
  rewrite H1, H2. destruct (c =? LBR), (c =? EQC); reflexivity.
Qed.

Lemma kv_step_bsl s : k_esc s = false ->
  kv_step s BSL = Ok {| k_esc := true; k_key := k_key s; k_val := k_val s; k_name := k_name s;
                        k_cur := k_cur s; k_buf := k_buf s; k_keys := k_keys s |}.
Proof.
  destruct s as [e k v n cu b ks]; simpl; intros ->. unfold kv_step; simpl.
  destruct k, v; reflexivity.
Qed.

(* an escaped value is copied, unescaped, to the buffer while inside a value *)
Lemma kv_run_escval v : forall s, no_bsl v = true ->
  k_esc s = false -> k_key s = true -> k_val s = true ->
  kv_run s (esc_val v) = Ok (kset_buf s (k_buf s ++ v)).
Proof.
  induction v as [|c v IH]; intros s Hv He Hk Hvv.
  - simpl. rewrite app_nil_r. destruct s; simpl in *; subst; reflexivity.
  - simpl in Hv. apply andb_prop in Hv as [Hc Hv].
    assert (Hb : (c =? BSL) = false) by (destruct (c =? BSL); auto; discriminate).
    cbn [esc_val flat_map]. fold (esc_val v).
    destruct (special c) eqn:Hs.
    + (* backslash, then the character itself *)
      cbn [app kv_run]. rewrite kv_step_bsl by exact He. cbn [bind].
      rewrite kv_step_escaped by reflexivity. cbn [bind].
      rewrite IH; auto. unfold kset_buf, kdefault; simpl. now rewrite <- app_assoc.
    + unfold special in Hs. apply orb_false_elim in Hs as [Hq Hr].
      cbn [app kv_run]. rewrite kv_step_inval by auto. cbn [bind].
      rewrite IH; auto. unfold kset_buf, kdefault; simpl. now rewrite <- app_assoc.
Qed.

(* the state between key predicates *)
Definition st_pre (nm : str) (done : list (str * str)) : kst :=
  {| k_esc := false; k_key := false; k_val := false;
     k_name := if nil_b done then [] else nm; k_cur := [];
     k_buf := if nil_b done then nm else []; k_keys := done |}.

Definition kv_okb (kv : str * str) : bool :=
  identb (fst kv) && negb (nil_b (snd kv)) && no_bsl (snd kv).

Lemma kv_run_one nm done k v :
  identb nm = true -> kv_okb (k, v) = true ->
  Forall (fun kv => str_ltb (fst kv) k = true) done ->
  kv_run (st_pre nm done) (kv_str (k, v)) = Ok (st_pre nm (done ++ [(k, v)])).
Proof.
  intros Hnm Hkv Hdone.
  unfold kv_okb in Hkv. simpl in Hkv.
  apply andb_prop in Hkv as [Hkv Hnb]. apply andb_prop in Hkv as [Hk Hv].
  unfold identb in Hk, Hnm. apply andb_prop in Hk as [Hk0 Hk]. apply andb_prop in Hnm as [Hn0 Hnm].
  unfold kv_str. simpl fst. simpl snd.
  (* "[" *)
  change ([LBR] ++ k ++ [EQC] ++ esc_val v ++ [RBR]) with (LBR :: (k ++ [EQC] ++ esc_val v ++ [RBR])).
  cbn [kv_run].
  assert (H1 : kv_step (st_pre nm done) LBR =
               Ok {| k_esc := false; k_key := true; k_val := false; k_name := nm;
                     k_cur := []; k_buf := []; k_keys := done |}).
  { unfold kv_step, st_pre. simpl. destruct done; simpl.
    - destruct nm; [discriminate|reflexivity].
    - reflexivity. }
  rewrite H1. cbn [bind].
  (* key name *)
  rewrite kv_run_app. rewrite kv_run_name by auto. cbn [bind kset_buf k_buf k_key k_val k_name k_cur k_keys app].
  (* "=" *)
  change ([EQC] ++ esc_val v ++ [RBR]) with (EQC :: (esc_val v ++ [RBR])).
  cbn [kv_run]. unfold kv_step at 1. cbn.
  (* value *)
  rewrite kv_run_app. rewrite kv_run_escval by auto.
  cbn [bind kset_buf k_buf k_key k_val k_name k_cur k_keys app].
  (* "]" *)
  cbn [kv_run]. unfold kv_step at 1. cbn.
  unfold add_key. rewrite (has_space_name k Hk).
  destruct nm as [|n0 nm']; [discriminate|]. cbn [nil_b].
  destruct k as [|k0 k']; [discriminate|]. cbn [nil_b].
  destruct v as [|v0 v']; [discriminate|]. cbn [nil_b].
  rewrite al_insert_last by exact Hdone. cbn [bind].
  unfold st_pre. destruct done; reflexivity.
Qed.

Lemma kv_run_keys nm rest : forall done,
  identb nm = true -> forallb kv_okb rest = true ->
  ssorted_keysb (done ++ rest) = true ->
  kv_run (st_pre nm done) (flat_map kv_str rest) = Ok (st_pre nm (done ++ rest)).
Proof.
  induction rest as [|[k v] rest IH]; intros done Hnm Hok Hs.
  - simpl. now rewrite app_nil_r.
  - cbn [flat_map]. rewrite kv_run_app.
    simpl in Hok. apply andb_prop in Hok as [Hkv Hok].
    rewrite kv_run_one; auto.
    + cbn [bind]. rewrite IH; auto.
      * now rewrite <- app_assoc.
      * now rewrite <- app_assoc.
    + apply (ssorted_prefix done (k, v) rest Hs).
Qed.

Lemma wf_elemb_parts e : wf_elemb e = true ->
  identb (ename e) = true /\ ssorted_keysb (ekeys e) = true /\ forallb kv_okb (ekeys e) = true.
Proof.
  unfold wf_elemb, wf_elem_fullb. intros H.
  apply andb_prop in H as [H Hb]. apply andb_prop in H as [H Hk]. apply andb_prop in H as [Hn Hs].
  repeat split; auto.
  rewrite forallb_forall in *. intros kv Hin. unfold kv_okb.
  pose proof (Hk kv Hin) as A. pose proof (Hb kv Hin) as B. cbv beta in A, B.
  apply andb_true_intro; split; [exact A | exact B].
Qed.

Lemma elem_str_ok e : wf_elemb e = true ->
  elem_str e = Ok (ename e ++ flat_map kv_str (ekeys e)).
Proof.
  intros H. apply wf_elemb_parts in H as (Hn & _ & Hk).
  unfold elem_str. unfold identb in Hn. apply andb_prop in Hn as [Hn _].
  destruct (ename e); [discriminate|]. cbn [nil_b].
  destruct (existsb (fun kv => nil_b (fst kv)) (ekeys e)) eqn:Hex; auto.
  apply existsb_exists in Hex as (kv & Hin & Hnil).
  rewrite forallb_forall in Hk. specialize (Hk kv Hin). unfold kv_okb, identb in Hk.
  destruct kv as [k v]; simpl in *. destruct k; simpl in *; congruence.
Qed.

Theorem extract_elem e : wf_elemb e = true ->
  extract_kv (ename e ++ flat_map kv_str (ekeys e)) = Ok e.
Proof.
  intros H. apply wf_elemb_parts in H as (Hn & Hs & Hk).
  unfold extract_kv. rewrite kv_run_app.
  pose proof Hn as Hn'. unfold identb in Hn'. apply andb_prop in Hn' as [Hn0 Hnc].
  rewrite kv_run_name by auto. cbn [bind].
  change (kset_buf kst0 (k_buf kst0 ++ ename e)) with (st_pre (ename e) []).
  rewrite kv_run_keys; auto. cbn [bind app].
  unfold kv_finish, st_pre. cbn.
  destruct e as [nm ks]; simpl in *. pose proof (has_space_name nm Hnc) as Hsp. unfold has_space in Hsp.
  destruct ks as [|kv ks]; cbn; rewrite Hsp; reflexivity.
Qed.

(* ---------- SplitPath on a printed path ---------- *)

Definition sclean (s : sst) : Prop := s_key s = false /\ s_esc s = false.

Definition split_run (s : sst) (l : str) : sst := fold_left split_step l s.

Lemma split_run_app s l1 l2 : split_run s (l1 ++ l2) = split_run (split_run s l1) l2.
Proof. apply fold_left_app. Qed.

Definition sdefault (s : sst) (c : rune) : sst :=
  {| s_parts := s_parts s; s_buf := s_buf s ++ [c]; s_key := s_key s; s_esc := false; s_last := c |}.

Lemma split_step_name s c : s_esc s = false -> name_char c = true -> split_step s c = sdefault s c.
Proof.
  destruct s as [p b k e l]; simpl; intros -> Hc. apply name_char_spec in Hc.
  destruct Hc as (H0 & H1 & H2 & _ & H4 & _).
  unfold split_step, sdefault; simpl. rewrite H0, H1, H2, H4. reflexivity.
Qed.

Lemma split_step_escaped s c : s_esc s = true -> split_step s c = sdefault s c.
Proof.
  destruct s as [p b k e l]; simpl; intros ->. unfold split_step, sdefault; simpl.
  destruct (c =? LBR), (c =? RBR), (c =? BSL), (c =? SLASH), k; reflexivity.
Qed.

Lemma split_step_bsl_key s : s_esc s = false -> s_key s = true ->
  split_step s BSL = {| s_parts := s_parts s; s_buf := s_buf s ++ [BSL]; s_key := true;
                        s_esc := true; s_last := BSL |}.
Proof. destruct s as [p b k e l]; simpl; intros -> ->. reflexivity. Qed.

Lemma split_step_inkey s c : s_esc s = false -> s_key s = true ->
  (c =? RBR) = false -> (c =? BSL) = false ->
  split_step s c = {| s_parts := s_parts s; s_buf := s_buf s ++ [c]; s_key := true;
                      s_esc := false; s_last := c |}.
Proof.
  destruct s as [p b k e l]; simpl; intros -> -> H1 H2. unfold split_step; simpl.
  rewrite H1, H2. destruct (c =? LBR), (c =? SLASH); reflexivity.
Qed.

(* name characters are copied whatever the key flag *)
Lemma split_run_name l : forall s, forallb name_char l = true -> s_esc s = false ->
  let s' := split_run s l in
  s_parts s' = s_parts s /\ s_buf s' = s_buf s ++ l /\ s_key s' = s_key s /\ s_esc s' = false.
Proof.
  induction l as [|c l IH]; intros s Hl He; cbn zeta.
  - simpl. rewrite app_nil_r. auto.
  - simpl in Hl. apply andb_prop in Hl as [Hc Hl].
    unfold split_run. cbn [fold_left]. rewrite split_step_name by auto.
    destruct (IH (sdefault s c) Hl eq_refl) as (A & B & C & D).
    unfold split_run in *. rewrite A, B, C, D. simpl. rewrite <- app_assoc. auto.
Qed.

Lemma split_run_escval v : forall s, no_bsl v = true -> s_esc s = false -> s_key s = true ->
  let s' := split_run s (esc_val v) in
  s_parts s' = s_parts s /\ s_buf s' = s_buf s ++ esc_val v /\ s_key s' = true /\ s_esc s' = false.
Proof.
  induction v as [|c v IH]; intros s Hv He Hk; cbn zeta.
  - simpl. rewrite app_nil_r. auto.
  - simpl in Hv. apply andb_prop in Hv as [Hc Hv].
    assert (Hb : (c =? BSL) = false) by (destruct (c =? BSL); auto; discriminate).
    cbn [esc_val flat_map]. fold (esc_val v).
    destruct (special c) eqn:Hs.
    + unfold split_run. cbn [app fold_left].
      rewrite split_step_bsl_key by auto. rewrite split_step_escaped by reflexivity.
      match goal with |- context[fold_left split_step (esc_val v) ?s1] =>
        destruct (IH s1 Hv eq_refl eq_refl) as (A & B & C & D) end.
      unfold split_run in *. rewrite A, B, C, D. simpl. rewrite <- !app_assoc. auto.
    + unfold special in Hs. apply orb_false_elim in Hs as [Hq Hr].
      unfold split_run. cbn [app fold_left].
      rewrite split_step_inkey by auto.
      match goal with |- context[fold_left split_step (esc_val v) ?s1] =>
        destruct (IH s1 Hv eq_refl eq_refl) as (A & B & C & D) end.
      unfold split_run in *. rewrite A, B, C, D. simpl. rewrite <- !app_assoc. auto.
Qed.

Lemma split_run_cons s c l : split_run s (c :: l) = split_run (split_step s c) l.
Proof. reflexivity. Qed.

Lemma split_step_lbr s : s_esc s = false ->
  split_step s LBR = {| s_parts := s_parts s; s_buf := s_buf s ++ [LBR]; s_key := true;
                        s_esc := false; s_last := LBR |}.
Proof. destruct s as [p b k e l]; simpl; intros ->. reflexivity. Qed.

Lemma split_step_rbr s : s_esc s = false ->
  split_step s RBR = {| s_parts := s_parts s; s_buf := s_buf s ++ [RBR]; s_key := false;
                        s_esc := false; s_last := RBR |}.
Proof. destruct s as [p b k e l]; simpl; intros ->. reflexivity. Qed.

Lemma split_run_kv k v : forall s, kv_okb (k, v) = true -> sclean s ->
  let s' := split_run s (kv_str (k, v)) in
  s_parts s' = s_parts s /\ s_buf s' = s_buf s ++ kv_str (k, v) /\ sclean s'.
Proof.
  intros s Hkv [Hk He]. unfold kv_okb in Hkv. simpl in Hkv.
  apply andb_prop in Hkv as [Hkv Hnb]. apply andb_prop in Hkv as [Hid Hv].
  unfold identb in Hid. apply andb_prop in Hid as [_ Hkc].
  unfold kv_str. simpl fst; simpl snd.
  change ([LBR] ++ k ++ [EQC] ++ esc_val v ++ [RBR]) with (LBR :: (k ++ EQC :: (esc_val v ++ [RBR]))).
  cbn zeta. rewrite split_run_cons. rewrite split_step_lbr by exact He.
  match goal with |- context[split_run ?x (k ++ _)] => set (s1 := x) end.
  rewrite split_run_app.
  destruct (split_run_name k s1 Hkc eq_refl) as (A2 & B2 & C2 & D2).
  set (s2 := split_run s1 k) in *.
  rewrite split_run_cons. rewrite split_step_inkey by auto.
  match goal with |- context[split_run ?x (esc_val v ++ _)] => set (s3 := x) end.
  rewrite split_run_app.
  destruct (split_run_escval v s3 Hnb eq_refl eq_refl) as (A4 & B4 & C4 & D4).
  set (s4 := split_run s3 (esc_val v)) in *.
  rewrite split_run_cons. rewrite split_step_rbr by exact D4.
  clearbody s4. clearbody s2.
  unfold split_run; cbn [fold_left]. unfold sclean. cbn [s_parts s_buf s_key s_esc].
  split; [|split; [|split; reflexivity]].
  - rewrite A4. unfold s3. cbn [s_parts]. rewrite A2. reflexivity.
  - rewrite B4. unfold s3; cbn [s_buf]. rewrite B2. unfold s1; cbn [s_buf].
    rewrite <- !app_assoc. reflexivity.
Qed.

Lemma split_run_kvs ks : forall s, forallb kv_okb ks = true -> sclean s ->
  let s' := split_run s (flat_map kv_str ks) in
  s_parts s' = s_parts s /\ s_buf s' = s_buf s ++ flat_map kv_str ks /\ sclean s'.
Proof.
  induction ks as [|[k v] ks IH]; intros s Hok Hc; cbn zeta.
  - simpl. rewrite app_nil_r. auto.
  - simpl in Hok. apply andb_prop in Hok as [Hkv Hok].
    cbn [flat_map]. rewrite split_run_app.
    destruct (split_run_kv k v s Hkv Hc) as (A & B & C).
    destruct (IH _ Hok C) as (A' & B' & C').
    split; [|split]; [ | | exact C'].
    + rewrite A'. exact A.
    + rewrite B', B. now rewrite <- app_assoc.
Qed.

Definition elem_text (e : pelem) : str := ename e ++ flat_map kv_str (ekeys e).

Lemma split_run_elem e : forall s, wf_elemb e = true -> sclean s ->
  let s' := split_run s (elem_text e) in
  s_parts s' = s_parts s /\ s_buf s' = s_buf s ++ elem_text e /\ sclean s'.
Proof.
  intros s H [Hk He]. apply wf_elemb_parts in H as (Hn & _ & Hks).
  unfold identb in Hn. apply andb_prop in Hn as [_ Hn].
  cbn zeta. unfold elem_text. rewrite split_run_app.
  destruct (split_run_name (ename e) s Hn He) as (A & B & C & D).
  assert (Hc : sclean (split_run s (ename e))) by (split; congruence).
  destruct (split_run_kvs (ekeys e) _ Hks Hc) as (A' & B' & C').
  split; [|split]; [ | | exact C'].
  - rewrite A'. exact A.
  - rewrite B', B. now rewrite <- app_assoc.
Qed.

Definition flush (s : sst) : list str := s_parts s ++ [s_buf s].

Lemma elem_text_ne e : wf_elemb e = true -> elem_text e <> [].
Proof.
  intros H. apply wf_elemb_parts in H as (Hn & _ & _).
  unfold identb in Hn. apply andb_prop in Hn as [Hn _].
  unfold elem_text. destruct (ename e); [discriminate|]. simpl. discriminate.
Qed.

Lemma split_run_path p : forall s, forallb wf_elemb p = true -> sclean s ->
  let s' := split_run s (flat_map (fun e => SLASH :: elem_text e) p) in
  sclean s' /\ flush s' = flush s ++ map elem_text p /\ (p <> [] -> s_buf s' <> []).
Proof.
  induction p as [|e p IH] using rev_ind; intros s Hp Hc; simpl.
  - unfold flush. rewrite app_nil_r. repeat split; try apply Hc. congruence.
  - rewrite forallb_app in Hp. apply andb_prop in Hp as [Hp He]. simpl in He.
    apply andb_prop in He as [He _].
    rewrite flat_map_app. rewrite split_run_app.
    destruct (IH s Hp Hc) as (C1 & F1 & _).
    set (s1 := split_run s (flat_map (fun e => SLASH :: elem_text e) p)) in *.
    simpl. rewrite app_nil_r.
    set (s2 := split_step s1 SLASH).
    assert (S2 : s_parts s2 = flush s1 /\ s_buf s2 = [] /\ sclean s2).
    { unfold s2, split_step. destruct C1 as [K E]. rewrite K, E. simpl. unfold sclean. auto. }
    destruct S2 as (A2 & B2 & C2).
    fold (split_run s2 (elem_text e)).
    destruct (split_run_elem e s2 He C2) as (A3 & B3 & C3).
    repeat split; try apply C3.
    + unfold flush at 1. rewrite A3, B3, A2, B2, F1. rewrite map_app. simpl.
      now rewrite <- app_assoc.
    + intros _. rewrite B3, B2. simpl. now apply elem_text_ne.
Qed.

Lemma join_flat (es : list str) : es <> [] ->
  SLASH :: join_with SLASH es = flat_map (fun e => SLASH :: e) es.
Proof.
  induction es as [|e es IH]; [congruence|]. intros _.
  destruct es as [|e' es].
  - simpl. now rewrite app_nil_r.
  - change (join_with SLASH (e :: e' :: es)) with (e ++ SLASH :: join_with SLASH (e' :: es)).
    rewrite IH by discriminate. reflexivity.
Qed.

Lemma flat_map_map {A B C} (f : A -> B) (g : B -> list C) l :
  flat_map g (map f l) = flat_map (fun x => g (f x)) l.
Proof. induction l; simpl; congruence. Qed.

Definition path_text (p : gpath) : str := SLASH :: join_with SLASH (map elem_text p).

Lemma path_str_ok p : wf_pathb p = true -> path_str p = Ok (path_text p).
Proof.
  intros H. unfold path_str, path_strs.
  rewrite (mapM_map_ok elem_str elem_text).
  - reflexivity.
  - intros e Hin. unfold wf_pathb in H. rewrite forallb_forall in H.
    apply elem_str_ok. auto.
Qed.

Lemma last_kvs ks : ks <> [] -> exists pre, flat_map kv_str ks = pre ++ [RBR].
Proof.
  induction ks as [|kv ks IH]; [congruence|]. intros _.
  destruct ks as [|kv' ks].
  - simpl. rewrite app_nil_r. unfold kv_str.
    exists ([LBR] ++ fst kv ++ [EQC] ++ esc_val (snd kv)). now rewrite <- !app_assoc.
  - destruct IH as [pre Hpre]; [discriminate|].
    exists (kv_str kv ++ pre). cbn [flat_map] in *. rewrite Hpre. now rewrite <- app_assoc.
Qed.

Lemma last_elem_text e : wf_elemb e = true -> (last (elem_text e) 0 =? SLASH) = false.
Proof.
  intros H. apply wf_elemb_parts in H as (Hn & _ & _).
  unfold identb in Hn. apply andb_prop in Hn as [Hn0 Hn].
  unfold elem_text. destruct (ekeys e) as [|kv ks] eqn:Ek.
  - simpl. rewrite app_nil_r.
    destruct (exists_last (l := ename e)) as (pre & c & Hpc).
    { destruct (ename e); [discriminate | discriminate]. }
    rewrite Hpc in *. rewrite last_last.
    rewrite forallb_app in Hn. apply andb_prop in Hn as [_ Hn]. simpl in Hn.
    apply andb_prop in Hn as [Hn _]. apply name_char_spec in Hn. tauto.
  - destruct (last_kvs (kv :: ks)) as [pre Hpre]; [discriminate|].
    rewrite Hpre. rewrite app_assoc. rewrite last_last. reflexivity.
Qed.

Lemma last_path_text p : p <> [] -> wf_pathb p = true -> (last_rune (path_text p) =? SLASH) = false.
Proof.
  intros Hne H. unfold path_text, last_rune.
  rewrite join_flat by (destruct p; [congruence | discriminate]).
  rewrite flat_map_map.
  destruct (exists_last Hne) as (p' & e & Hp). subst p.
  rewrite flat_map_app. simpl. rewrite app_nil_r.
  unfold wf_pathb in H. rewrite forallb_app in H. apply andb_prop in H as [_ H].
  simpl in H. apply andb_prop in H as [H _].
  rewrite last_app_ne by discriminate.
  change (SLASH :: elem_text e) with ([SLASH] ++ elem_text e).
  rewrite last_app_ne by (now apply elem_text_ne).
  now apply last_elem_text.
Qed.

Theorem path_elems_print p : wf_pathb p = true -> path_elems (path_text p) = map elem_text p.
Proof.
  intros H. destruct p as [|e0 p0] eqn:Ep.
  - reflexivity.
  - rewrite <- Ep in *. assert (Hne : p <> []) by (subst; discriminate).
    unfold path_elems.
    assert (Hsplit : split_path (path_text p) = [] :: map elem_text p).
    { unfold split_path. unfold path_text at 2.
      rewrite join_flat by (subst; discriminate).
      rewrite flat_map_map.
      assert (Hc0 : sclean sst0) by (split; reflexivity).
      destruct (split_run_path p sst0 H Hc0) as (C & F & NB).
      fold (split_run sst0 (flat_map (fun e => SLASH :: elem_text e) p)).
      set (s' := split_run sst0 (flat_map (fun e => SLASH :: elem_text e) p)) in *.
      unfold split_finish.
      specialize (NB Hne). destruct (s_buf s') eqn:Eb; [congruence|].
      cbn [nil_b negb orb]. rewrite <- Eb. exact F. }
    rewrite Hsplit.
    rewrite (last_path_text p Hne H).
    rewrite andb_false_r. reflexivity.
Qed.

(* ---------- the round trip ---------- *)

Theorem parse_print p : wf_pathb p = true -> parse_path (path_text p) = Ok p.
Proof.
  intros H. unfold parse_path. rewrite path_elems_print by exact H.
  clear - H. unfold wf_pathb in H.
  induction p as [|e p IH]; simpl; auto.
  simpl in H. apply andb_prop in H as [He Hp].
  unfold elem_text at 1. rewrite extract_elem by exact He. cbn [bind].
  rewrite IH by exact Hp. reflexivity.
Qed.

Theorem roundtrip p : wf_pathb p = true ->
  bind (path_str p) parse_path = Ok p.
Proof.
  intros H. rewrite path_str_ok by exact H. cbn [bind]. now apply parse_print.
Qed.

Theorem print_injective p q : wf_pathb p = true -> wf_pathb q = true ->
  path_str p = path_str q -> p = q.
Proof.
  intros Hp Hq E.
  pose proof (roundtrip p Hp) as R1. pose proof (roundtrip q Hq) as R2.
  rewrite E in R1. rewrite R1 in R2. now inversion R2.
Qed.

Theorem slice_roundtrip p : wf_pathb p = true ->
  bind (path_str p) parse_slice = path_strs p.
Proof.
  intros H. rewrite path_str_ok by exact H. cbn [bind].
  unfold parse_slice. rewrite path_elems_print by exact H.
  unfold path_strs. unfold wf_pathb in H.
  induction p as [|e p IH]; simpl; auto.
  simpl in H. apply andb_prop in H as [He Hp].
  unfold elem_text at 1. rewrite extract_elem by exact He. cbn [bind].
  rewrite IH by exact Hp. reflexivity.
Qed.

(* ---------- totality: no panic on any rune list ---------- *)

Lemma kv_step_no_panic s c : kv_step s c <> Panic.
Proof.
  unfold kv_step, add_key.
  repeat match goal with |- context[if ?b then _ else _] => destruct b end;
    cbn; discriminate.
Qed.

Lemma kv_run_no_panic l : forall s, kv_run s l <> Panic.
Proof.
  induction l as [|c l IH]; intros s; simpl; [discriminate|].
  pose proof (kv_step_no_panic s c). destruct (kv_step s c); simpl; auto.
Qed.

Lemma extract_kv_no_panic e : extract_kv e <> Panic.
Proof.
  unfold extract_kv. pose proof (kv_run_no_panic e kst0).
  destruct (kv_run kst0 e) as [s| |]; simpl; try discriminate; try congruence.
  unfold kv_finish.
  repeat match goal with |- context[if ?b then _ else _] => destruct b end; discriminate.
Qed.

Lemma mapM_no_panic {A B} (f : A -> result B) l :
  (forall x, f x <> Panic) -> mapM f l <> Panic.
Proof.
  intros Hf. induction l as [|x l IH]; simpl; [discriminate|].
  pose proof (Hf x). destruct (f x); simpl; auto; try discriminate.
  destruct (mapM f l); simpl; auto; discriminate.
Qed.

Theorem parse_total s : parse_path s <> Panic.
Proof. apply mapM_no_panic, extract_kv_no_panic. Qed.

Theorem parse_slice_total s : parse_slice s <> Panic.
Proof.
  apply mapM_no_panic. intros x. pose proof (extract_kv_no_panic x).
  destruct (extract_kv x) as [e| |]; simpl; try discriminate; try congruence.
  unfold elem_str. repeat match goal with |- context[if ?b then _ else _] => destruct b end; discriminate.
Qed.
