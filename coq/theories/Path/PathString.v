(* PathString.v — transcription of ygot/pathstrings.go (elemToString, PathToStrings,
   PathToString, extractKV, addKey, StringToStructuredPath, StringToStringSlicePath) and
   util/path.go (SplitPath, PathStringToElements), on rune lists.
   A Go map[string]string of keys is modelled by its sorted association list. *)
From Ygot Require Import Base.Base.

Definition SLASH : rune := 47.  Definition LBR : rune := 91.  Definition RBR : rune := 93.
Definition EQC : rune := 61.    Definition BSL : rune := 92.  Definition SP : rune := 32.

Record pelem := { ename : str; ekeys : list (str * str) }.
Definition gpath := list pelem.

(* ---------- printer ---------- *)

(* strings.Replace(`=`,`\=`) ; Replace(`]`,`\]`).  A backslash in the value is NOT escaped
   (pinned by TestStringToPath), which is what c08_refuted_backslash exhibits. *)
Definition special (c : rune) : bool := (c =? EQC) || (c =? RBR).
Definition esc_val (v : str) : str :=
  flat_map (fun c => if special c then [BSL; c] else [c]) v.

Definition kv_str (kv : str * str) : str :=
  [LBR] ++ fst kv ++ [EQC] ++ esc_val (snd kv) ++ [RBR].

(* elemToString *)
Definition elem_str (e : pelem) : result str :=
  if nil_b (ename e) then Err
  else if existsb (fun kv => nil_b (fst kv)) (ekeys e) then Err
  else Ok (ename e ++ flat_map kv_str (ekeys e)).

(* PathToStrings on the Elem form *)
Definition path_strs (p : gpath) : result (list str) := mapM elem_str p.

(* PathToString: "/" + strings.Join(s, "/") *)
Definition path_str (p : gpath) : result str :=
  bind (path_strs p) (fun es => Ok (SLASH :: join_with SLASH es)).

(* ---------- util.SplitPath ---------- *)

Record sst := { s_parts : list str; s_buf : str; s_key : bool; s_esc : bool; s_last : rune }.

Definition split_step (s : sst) (c : rune) : sst :=
  if (c =? LBR) && negb (s_esc s) then
    {| s_parts := s_parts s; s_buf := s_buf s ++ [c]; s_key := true; s_esc := false; s_last := c |}
  else if (c =? RBR) && negb (s_esc s) then
    {| s_parts := s_parts s; s_buf := s_buf s ++ [c]; s_key := false; s_esc := false; s_last := c |}
  else if (c =? BSL) && negb (s_esc s) && s_key s then
    (* inside a key the escape is kept for extractKV *)
    {| s_parts := s_parts s; s_buf := s_buf s ++ [c]; s_key := s_key s; s_esc := true; s_last := c |}
  else if (c =? BSL) && negb (s_esc s) && negb (s_key s) then
    {| s_parts := s_parts s; s_buf := s_buf s; s_key := s_key s; s_esc := true; s_last := c |}
  else if (c =? SLASH) && negb (s_esc s) && negb (s_key s) then
    {| s_parts := s_parts s ++ [s_buf s]; s_buf := []; s_key := s_key s; s_esc := s_esc s; s_last := c |}
  else
    {| s_parts := s_parts s; s_buf := s_buf s ++ [c]; s_key := s_key s; s_esc := false; s_last := c |}.

Definition sst0 : sst := {| s_parts := []; s_buf := []; s_key := false; s_esc := false; s_last := 0 |}.

Definition split_finish (path : str) (s : sst) : list str :=
  if negb (nil_b (s_buf s)) || (negb (str_eqb path [SLASH]) && negb (nil_b path) && (s_last s =? SLASH))
  then s_parts s ++ [s_buf s] else s_parts s.

Definition split_path (path : str) : list str :=
  split_finish path (fold_left split_step path sst0).

(* util.PathStringToElements *)
Definition path_elems (path : str) : list str :=
  let parts := split_path path in
  let parts1 := match parts with [] :: t => t | _ => parts end in
  if negb (nil_b parts1) && (last_rune path =? SLASH) && negb (nil_b path)
  then removelast parts1 else parts1.

(* ---------- extractKV / addKey ---------- *)

Record kst := { k_esc : bool; k_key : bool; k_val : bool;
                k_name : str; k_cur : str; k_buf : str; k_keys : list (str * str) }.

Definition has_space (s : str) : bool := existsb (fun c => c =? SP) s.

Definition add_key (keys : list (str * str)) (e k v : str) : result (list (str * str)) :=
  if has_space k then Err
  else if nil_b e then Err
  else if nil_b k then Err
  else if nil_b v then Err
  else Ok (al_insert k v keys).

Definition kv_step (s : kst) (c : rune) : result kst :=
  if (c =? LBR) && negb (k_esc s) && negb (k_val s) && k_key s then Err
  else if (c =? LBR) && negb (k_esc s) && negb (k_key s) then
    if nil_b (k_keys s) then
      if nil_b (k_buf s) then Err
      else Ok {| k_esc := k_esc s; k_key := true; k_val := k_val s;
                 k_name := k_buf s; k_cur := k_cur s; k_buf := []; k_keys := k_keys s |}
    else Ok {| k_esc := k_esc s; k_key := true; k_val := k_val s;
               k_name := k_name s; k_cur := k_cur s; k_buf := k_buf s; k_keys := k_keys s |}
  else if (c =? RBR) && negb (k_esc s) && negb (k_key s) then Err
  else if (c =? RBR) && negb (k_esc s) then
    bind (add_key (k_keys s) (k_name s) (k_cur s) (k_buf s)) (fun keys' =>
      Ok {| k_esc := k_esc s; k_key := false; k_val := false;
            k_name := k_name s; k_cur := []; k_buf := []; k_keys := keys' |})
  else if (c =? BSL) && negb (k_esc s) then
    Ok {| k_esc := true; k_key := k_key s; k_val := k_val s;
          k_name := k_name s; k_cur := k_cur s; k_buf := k_buf s; k_keys := k_keys s |}
  else if (c =? EQC) && k_key s && negb (k_esc s) && negb (k_val s) then
    Ok {| k_esc := k_esc s; k_key := k_key s; k_val := true;
          k_name := k_name s; k_cur := k_buf s; k_buf := []; k_keys := k_keys s |}
  else
    Ok {| k_esc := false; k_key := k_key s; k_val := k_val s;
          k_name := k_name s; k_cur := k_cur s; k_buf := k_buf s ++ [c]; k_keys := k_keys s |}.

Definition kst0 : kst := {| k_esc := false; k_key := false; k_val := false;
                            k_name := []; k_cur := []; k_buf := []; k_keys := [] |}.

Fixpoint kv_run (s : kst) (l : str) : result kst :=
  match l with
  | [] => Ok s
  | c :: t => bind (kv_step s c) (fun s' => kv_run s' t)
  end.

Definition kv_finish (s : kst) : result pelem :=
  let name := if nil_b (k_keys s) then k_buf s else k_name s in
  if negb (nil_b (k_keys s)) && negb (nil_b (k_buf s)) then Err
  else if has_space name then Err
  else Ok {| ename := name; ekeys := k_keys s |}.

Definition extract_kv (e : str) : result pelem := bind (kv_run kst0 e) kv_finish.

(* StringToStructuredPath *)
Definition parse_path (path : str) : result gpath := mapM extract_kv (path_elems path).

(* StringToStringSlicePath: the Element list *)
Definition parse_slice (path : str) : result (list str) :=
  mapM (fun p => bind (extract_kv p) elem_str) (path_elems path).

(* ---------- well-formed paths (the domain of the round-trip law) ---------- *)

(* A rune that may appear in an element name or key name: anything but / [ ] = \ space.
   YANG identifiers with an optional "prefix:" are a subset. *)
Definition name_char (c : rune) : bool :=
  negb ((c =? SLASH) || (c =? LBR) || (c =? RBR) || (c =? EQC) || (c =? BSL) || (c =? SP)).
Definition identb (s : str) : bool := negb (nil_b s) && forallb name_char s.
(* The property's domain: arbitrary non-empty key values. *)
Definition wf_elem_fullb (e : pelem) : bool :=
  identb (ename e) && ssorted_keysb (ekeys e) &&
  forallb (fun kv => identb (fst kv) && negb (nil_b (snd kv))) (ekeys e).
Definition wf_path_fullb (p : gpath) : bool := forallb wf_elem_fullb p.
(* The guard under which the law is proved for the current code: no backslash in values. *)
Definition no_bsl (v : str) : bool := forallb (fun c => negb (c =? BSL)) v.
Definition wf_elemb (e : pelem) : bool :=
  wf_elem_fullb e && forallb (fun kv => no_bsl (snd kv)) (ekeys e).
Definition wf_pathb (p : gpath) : bool := forallb wf_elemb p.
