(* PathRelProofs.v — proofs about the PathRel model (C09).
   Main result: compare_paths returns the true set relation between the denotations of two
   well-formed gNMI path patterns (compare_paths_sound).  Corollaries: swapping the arguments
   swaps Subset/Superset; the result does not depend on map iteration order.  Further:
   trim/join, common prefix and query-match characterisations. *)
From Coq Require Import Permutation.
From Ygot Require Import Base.Base Path.PathString Path.PathRel.

(* ---------- strings ---------- *)

Lemma str_eqb_spec a b : reflect (a = b) (str_eqb a b).
Proof.
  revert b; induction a as [|x a IH]; intros [|y b]; simpl; try (constructor; congruence).
  destruct (N.eqb_spec x y); simpl.
  - destruct (IH b); constructor; congruence.
  - constructor; congruence.
Qed.

Lemma str_eqb_eq a b : str_eqb a b = true <-> a = b.
Proof. destruct (str_eqb_spec a b); split; congruence. Qed.

Lemma str_eqb_neq a b : str_eqb a b = false <-> a <> b.
Proof. destruct (str_eqb_spec a b); split; congruence. Qed.

Lemma str_eqb_refl a : str_eqb a a = true.
Proof. now apply str_eqb_eq. Qed.

Lemma str_eqb_sym a b : str_eqb a b = str_eqb b a.
Proof. destruct (str_eqb_spec a b), (str_eqb_spec b a); congruence. Qed.

Definition differ (v : str) : str := if str_eqb v [48] then [49] else [48].

Lemma differ_neq v : differ v <> v.
Proof.
  unfold differ. destruct (str_eqb_spec v [48]) as [->|H]; [discriminate | congruence].
Qed.

(* ---------- association lists ---------- *)

Lemma al_find_in {V} k (v : V) l : al_find k l = Some v -> In (k, v) l.
Proof.
  induction l as [|[k' v'] l IH]; simpl; [discriminate|].
  destruct (str_eqb_spec k k') as [->|]; intros H.
  - injection H as ->. now left.
  - right; auto.
Qed.

Lemma al_find_none {V} k (l : list (str * V)) : al_find k l = None <-> ~ In k (map fst l).
Proof.
  induction l as [|[k' v'] l IH]; simpl; [tauto|].
  destruct (str_eqb_spec k k') as [->|Hn].
  - split; [discriminate | intros H; exfalso; apply H; now left].
  - rewrite IH. split; intros H; [intros [E|E]; [congruence | auto] | auto].
Qed.

Lemma nodup_find {V} k (v : V) l : NoDup (map fst l) -> In (k, v) l -> al_find k l = Some v.
Proof.
  induction l as [|[k' v'] l IH]; simpl; [contradiction|].
  intros Hnd [E|Hin].
  - injection E as -> ->. now rewrite str_eqb_refl.
  - inversion Hnd as [|? ? Hni Hnd']; subst.
    destruct (str_eqb_spec k k') as [->|].
    + exfalso. apply Hni. change k' with (fst (k', v)). now apply in_map.
    + auto.
Qed.

Lemma has_key_false k l : has_key k l = false <-> ~ In k (map fst l).
Proof.
  unfold has_key. rewrite <- al_find_none. destruct (al_find k l); split; congruence.
Qed.

Lemma nodup_keysb_NoDup l : nodup_keysb l = true <-> NoDup (map fst l).
Proof.
  induction l as [|[k v] l IH]; simpl.
  - split; [constructor | reflexivity].
  - rewrite andb_true_iff, negb_true_iff, has_key_false, IH. split.
    + intros [H1 H2]. now constructor.
    + intros H. inversion H; subst. tauto.
Qed.

Lemma al_find_perm {V} k (l l' : list (str * V)) :
  NoDup (map fst l) -> Permutation l l' -> al_find k l = al_find k l'.
Proof.
  intros Hnd Hp.
  assert (Hnd' : NoDup (map fst l')).
  { eapply Permutation_NoDup; [apply Permutation_map; exact Hp | exact Hnd]. }
  destruct (al_find k l) as [v|] eqn:E.
  - symmetry. apply nodup_find; auto. eapply Permutation_in; [exact Hp|]. now apply al_find_in.
  - destruct (al_find k l') as [v'|] eqn:E'; auto.
    apply al_find_in in E'. apply Permutation_sym in Hp.
    eapply Permutation_in in E'; [|exact Hp]. apply nodup_find in E'; auto. congruence.
Qed.

Lemma existsb_false_in {A} (f : A -> bool) l x : existsb f l = false -> In x l -> f x = false.
Proof.
  intros H Hin. destruct (f x) eqn:E; auto.
  assert (existsb f l = true) by (apply existsb_exists; eauto). congruence.
Qed.

Lemma existsb_orb {A} (f g : A -> bool) l :
  existsb (fun x => f x || g x) l = existsb f l || existsb g l.
Proof.
  induction l as [|x l IH]; simpl; auto. rewrite IH.
  destruct (f x), (g x), (existsb f l), (existsb g l); reflexivity.
Qed.

(* ---------- the (relation, partial) state machine shared by both Go loops ---------- *)

Definition swap_rel (r : rel) : rel :=
  match r with RSubset => RSuperset | RSuperset => RSubset | r => r end.

Definition okr (r : rel) : Prop := match r with RDisjoint | RPartial => False | _ => True end.

Definition add_sub (st : rel * bool) : rel * bool :=
  if rel_eqb (fst st) RSuperset then (fst st, true) else (RSubset, snd st).
Definition add_sup (st : rel * bool) : rel * bool :=
  if rel_eqb (fst st) RSubset then (fst st, true) else (RSuperset, snd st).

(* one loop iteration, given the relation c found at the current key / element *)
Definition step (c : rel) (st : rel * bool) : option (rel * bool) :=
  match c with
  | REqual => Some st
  | RSubset => Some (add_sub st)
  | RSuperset => Some (add_sup st)
  | RPartial => Some (fst st, true)
  | RDisjoint => None
  end.

Fixpoint run (cs : list rel) (st : rel * bool) : option (rel * bool) :=
  match cs with
  | [] => Some st
  | c :: t => match step c st with None => None | Some st' => run t st' end
  end.

Definition fin (st : rel * bool) : rel := if snd st then RPartial else fst st.
Definition fsub (st : rel * bool) : bool := snd st || rel_eqb (fst st) RSubset.
Definition fsup (st : rel * bool) : bool := snd st || rel_eqb (fst st) RSuperset.
Definition final (cs : list rel) (st : rel * bool) : rel :=
  match run cs st with None => RDisjoint | Some st' => fin st' end.

Definition is_disjr (r : rel) : bool := match r with RDisjoint => true | _ => false end.
Definition is_subr (r : rel) : bool := match r with RSubset | RPartial => true | _ => false end.
Definition is_supr (r : rel) : bool := match r with RSuperset | RPartial => true | _ => false end.

Definition classify (d s1 s2 : bool) : rel :=
  if d then RDisjoint
  else match s1, s2 with
       | false, false => REqual
       | true, false => RSubset
       | false, true => RSuperset
       | true, true => RPartial
       end.

Lemma run_app cs1 cs2 st :
  run (cs1 ++ cs2) st = match run cs1 st with None => None | Some st' => run cs2 st' end.
Proof.
  revert st; induction cs1 as [|c cs1 IH]; intros st; simpl; auto.
  destruct (step c st); auto.
Qed.

Lemma step_okr c st st' : okr (fst st) -> step c st = Some st' -> okr (fst st').
Proof.
  destruct st as [r p]. destruct c, r; simpl; try contradiction; intros _ H;
    try discriminate; injection H as <-; exact I.
Qed.

Lemma final_classify cs st : okr (fst st) ->
  final cs st = classify (existsb is_disjr cs)
                         (fsub st || existsb is_subr cs) (fsup st || existsb is_supr cs).
Proof.
  revert st; induction cs as [|c cs IH]; intros [r p] Hok.
  - unfold final; simpl. rewrite !orb_false_r.
    destruct r, p; simpl in *; try contradiction; reflexivity.
  - unfold final in *. simpl run. simpl existsb.
    destruct (step c (r, p)) as [st'|] eqn:E.
    + rewrite IH by (eapply step_okr; eauto).
      generalize (existsb is_disjr cs) (existsb is_subr cs) (existsb is_supr cs).
      intros d s1 s2.
      destruct c, r, p; simpl in *; try contradiction; try discriminate;
        injection E as <-; simpl; destruct d, s1, s2; reflexivity.
    + destruct c; simpl in E; try discriminate. reflexivity.
Qed.

(* ---------- generic facts about rel_holds ---------- *)

Definition rel_holds_g {T} (r : rel) (A B : T -> Prop) : Prop :=
  match r with
  | REqual => forall q, A q <-> B q
  | RDisjoint => forall q, ~ (A q /\ B q)
  | RSubset => (forall q, A q -> B q) /\ exists q, B q /\ ~ A q
  | RSuperset => (forall q, B q -> A q) /\ exists q, A q /\ ~ B q
  | RPartial => (exists q, A q /\ B q) /\ (exists q, A q /\ ~ B q) /\ (exists q, B q /\ ~ A q)
  end.

Lemma rel_holds_is_g r A B : rel_holds r A B <-> rel_holds_g r A B.
Proof. destruct r; simpl; tauto. Qed.

Lemma classify_holds {T} (A B : T -> Prop) d s1 s2 :
  (d = true -> forall q, ~ (A q /\ B q)) ->
  (d = false -> exists q, A q /\ B q) ->
  (d = false -> s1 = false -> forall q, B q -> A q) ->
  (s1 = true -> exists q, B q /\ ~ A q) ->
  (d = false -> s2 = false -> forall q, A q -> B q) ->
  (s2 = true -> exists q, A q /\ ~ B q) ->
  rel_holds_g (classify d s1 s2) A B.
Proof.
  intros H1 H2 H3 H4 H5 H6. destruct d; simpl; [auto|].
  destruct s1, s2; simpl.
  - auto.
  - split; auto.
  - split; auto.
  - intros q; split; auto.
Qed.

Lemma rel_holds_swap {T} (A B : T -> Prop) r :
  rel_holds_g r A B -> rel_holds_g (swap_rel r) B A.
Proof.
  destruct r; simpl.
  - intros H q. symmetry. apply H.
  - intros H q [H1 H2]. apply (H q). tauto.
  - auto.
  - auto.
  - intros (H1 & H2 & H3). split; [|tauto]. destruct H1 as [q Hq]. exists q; tauto.
Qed.

Lemma rel_holds_ext {T} (A B A' B' : T -> Prop) r :
  (forall q, A q <-> A' q) -> (forall q, B q <-> B' q) ->
  rel_holds_g r A B -> rel_holds_g r A' B'.
Proof.
  intros HA HB. destruct r; simpl.
  - intros H q. rewrite <- HA, <- HB. apply H.
  - intros H q. rewrite <- HA, <- HB. apply H.
  - intros [H1 [q Hq]]. split.
    + intros q'. rewrite <- HA, <- HB. apply H1.
    + exists q. rewrite <- HA, <- HB. exact Hq.
  - intros [H1 [q Hq]]. split.
    + intros q'. rewrite <- HA, <- HB. apply H1.
    + exists q. rewrite <- HA, <- HB. exact Hq.
  - intros ([q1 H1] & [q2 H2] & [q3 H3]). split; [|split].
    + exists q1. rewrite <- HA, <- HB. exact H1.
    + exists q2. rewrite <- HA, <- HB. exact H2.
    + exists q3. rewrite <- HA, <- HB. exact H3.
Qed.

(* the relation between two inhabited sets is unique *)
Lemma rel_holds_unique {T} (A B : T -> Prop) r r' :
  (exists q, A q) -> (exists q, B q) ->
  rel_holds_g r A B -> rel_holds_g r' A B -> r = r'.
Proof.
  intros [qa Ha] [qb Hb].
  destruct r, r'; simpl; intros H H'; try reflexivity; exfalso;
    repeat match goal with
           | H : _ /\ _ |- _ => destruct H
           | H : exists _, _ |- _ => destruct H
           end;
    firstorder.
Qed.

(* ---------- element level: the two key loops as runs of the state machine ---------- *)

Definition cv (v : str) : option str := if is_star v then None else Some v.
Definition cons_l (l : list (str * str)) (k : str) : option str :=
  match al_find k l with Some v => cv v | None => None end.

Lemma cons_of_l e k : cons_of e k = cons_l (ekeys e) k.
Proof. reflexivity. Qed.

(* what the first loop sees at an entry (k, av) of a *)
Definition ecls1 (kb : list (str * str)) (kv : str * str) : rel :=
  match cv (snd kv), cons_l kb (fst kv) with
  | None, None => REqual
  | None, Some _ => RSuperset
  | Some _, None => RSubset
  | Some x, Some y => if str_eqb x y then REqual else RDisjoint
  end.
(* what the second loop sees at an entry (k, bv) of b *)
Definition ecls2 (ka : list (str * str)) (kv : str * str) : rel :=
  if has_key (fst kv) ka || is_star (snd kv) then REqual else RSuperset.

Definition nonempty_vals (l : list (str * str)) : Prop := Forall (fun kv => snd kv <> []) l.

Lemma is_star_eq v : is_star v = true <-> v = STAR.
Proof. apply str_eqb_eq. Qed.

Lemma loop1_run kb ka r p : nonempty_vals ka ->
  cmp_loop1 ka kb r p = run (map (ecls1 kb) ka) (r, p).
Proof.
  revert r p; induction ka as [|[k av] ka IH]; intros r p Hne; simpl; auto.
  inversion Hne as [|? ? Hav Hne']; subst. simpl in Hav.
  assert (IH' : forall r p, cmp_loop1 ka kb r p = run (map (ecls1 kb) ka) (r, p)) by auto.
  clear IH. rename IH' into IH. remember (map (ecls1 kb) ka) as cs eqn:Ecs. clear Ecs.
  unfold ecls1, cons_l, get_key, has_key, cv. simpl fst; simpl snd.
  destruct (al_find k kb) as [bv|] eqn:Ef.
  - destruct (str_eqb_spec av bv) as [->|Hneq]; simpl.
    + destruct (is_star bv); simpl; [|rewrite str_eqb_refl]; apply IH; auto.
    + destruct (is_star av) eqn:Ea; simpl.
      * destruct (is_star bv) eqn:Eb.
        { apply is_star_eq in Ea, Eb. congruence. }
        simpl; unfold add_sup; simpl. destruct (rel_eqb r RSubset); apply IH; auto.
      * destruct (is_star bv) eqn:Eb; simpl.
        { unfold add_sub; simpl. destruct (rel_eqb r RSuperset); apply IH; auto. }
        destruct (str_eqb_spec av bv); [contradiction|]. reflexivity.
  - assert (E0 : str_eqb av [] = false) by (destruct av; [contradiction | reflexivity]).
    rewrite E0. simpl. destruct (is_star av) eqn:Ea; simpl.
    + apply IH; auto.
    + unfold add_sub; simpl. destruct (rel_eqb r RSuperset); apply IH; auto.
Qed.

Lemma loop2_run ka kb r p : run (map (ecls2 ka) kb) (r, p) = Some (cmp_loop2 kb ka r p).
Proof.
  revert r p; induction kb as [|[k bv] kb IH]; intros r p; simpl; auto.
  unfold ecls2; simpl fst; simpl snd.
  destruct (has_key k ka || is_star bv); simpl; auto.
  unfold add_sup; simpl. destruct (rel_eqb r RSubset); apply IH.
Qed.

Definition elem_cs (a b : pelem) : list rel :=
  map (ecls1 (ekeys b)) (ekeys a) ++ map (ecls2 (ekeys a)) (ekeys b).

Lemma compare_elem_final a b : nonempty_vals (ekeys a) ->
  compare_elem a b =
  if negb (str_eqb (ename a) (ename b)) then RDisjoint else final (elem_cs a b) (REqual, false).
Proof.
  intros Hne. unfold compare_elem, final, elem_cs.
  destruct (negb (str_eqb (ename a) (ename b))); auto.
  rewrite run_app, loop1_run by auto.
  destruct (run (map (ecls1 (ekeys b)) (ekeys a)) (REqual, false)) as [[r p]|]; auto.
  rewrite loop2_run. destruct (cmp_loop2 (ekeys b) (ekeys a) r p) as [r' p']. reflexivity.
Qed.

(* ---------- element level: meaning of the three flags ---------- *)

Definition wfP (e : pelem) : Prop := NoDup (map fst (ekeys e)) /\ nonempty_vals (ekeys e).

Lemma wf_relemb_wfP e : wf_relemb e = true -> wfP e.
Proof.
  unfold wf_relemb, wfP. rewrite andb_true_iff, nodup_keysb_NoDup. intros [H1 H2]. split; auto.
  apply Forall_forall. intros kv Hin. rewrite forallb_forall in H2. specialize (H2 kv Hin).
  destruct (snd kv); [discriminate | congruence].
Qed.

Definition Conf (a b : pelem) : Prop :=
  exists k va vb, cons_of a k = Some va /\ cons_of b k = Some vb /\ va <> vb.
Definition NoConf (a b : pelem) : Prop :=
  forall k va vb, cons_of a k = Some va -> cons_of b k = Some vb -> va = vb.
(* a constrains a key that b leaves free *)
Definition Strict (a b : pelem) : Prop :=
  exists k va, cons_of a k = Some va /\ cons_of b k = None.
Definition NStrict (a b : pelem) : Prop :=
  forall k va, cons_of a k = Some va -> cons_of b k <> None.

Lemma cons_entry e k v : NoDup (map fst (ekeys e)) -> In (k, v) (ekeys e) -> cons_of e k = cv v.
Proof. intros Hnd Hin. rewrite cons_of_l. unfold cons_l. now rewrite (nodup_find k v). Qed.

Lemma cons_some_entry e k v : cons_of e k = Some v -> In (k, v) (ekeys e) /\ cv v = Some v.
Proof.
  rewrite cons_of_l. unfold cons_l. destruct (al_find k (ekeys e)) as [w|] eqn:E; [|discriminate].
  intros H. assert (w = v) as -> by (unfold cv in H; destruct (is_star w); congruence).
  split; auto. now apply al_find_in.
Qed.

Lemma ecls2_not_disj ka kb : existsb is_disjr (map (ecls2 ka) kb) = false.
Proof.
  induction kb as [|kv kb IH]; simpl; auto. rewrite IH. unfold ecls2.
  destruct (has_key (fst kv) ka || is_star (snd kv)); reflexivity.
Qed.

Lemma ecls2_not_sub ka kb : existsb is_subr (map (ecls2 ka) kb) = false.
Proof.
  induction kb as [|kv kb IH]; simpl; auto. rewrite IH. unfold ecls2.
  destruct (has_key (fst kv) ka || is_star (snd kv)); reflexivity.
Qed.

Lemma existsb_map_true {A} (g : rel -> bool) (f : A -> rel) l :
  existsb g (map f l) = true -> exists x, In x l /\ g (f x) = true.
Proof.
  rewrite existsb_exists. intros (c & Hin & Hg). apply in_map_iff in Hin as (x & <- & Hx). eauto.
Qed.

Lemma existsb_map_false {A} (g : rel -> bool) (f : A -> rel) l x :
  existsb g (map f l) = false -> In x l -> g (f x) = false.
Proof. intros H Hin. eapply existsb_false_in; [exact H | now apply in_map]. Qed.

Lemma flag_disj_true a b : wfP a ->
  existsb is_disjr (elem_cs a b) = true -> Conf a b.
Proof.
  intros [Hnd _]. unfold elem_cs. rewrite existsb_app, ecls2_not_disj, orb_false_r.
  intros H. apply existsb_map_true in H as ([k av] & Hin & Hg).
  unfold ecls1 in Hg. simpl in Hg.
  destruct (cv av) as [x|] eqn:Ex; destruct (cons_l (ekeys b) k) as [y|] eqn:Ey;
    try discriminate.
  destruct (str_eqb_spec x y); [discriminate|].
  exists k, x, y. rewrite (cons_entry a k av) by auto. auto.
Qed.

Lemma flag_disj_false a b :
  existsb is_disjr (elem_cs a b) = false -> NoConf a b.
Proof.
  unfold elem_cs. rewrite existsb_app, orb_false_iff. intros [H _] k va vb Ha Hb.
  apply cons_some_entry in Ha as [Hin Hcv].
  apply (existsb_map_false _ _ _ (k, va)) in H; auto.
  unfold ecls1 in H. simpl in H. rewrite Hcv in H. rewrite cons_of_l in Hb. rewrite Hb in H.
  destruct (str_eqb_spec va vb); [auto | discriminate].
Qed.

Lemma flag_sub_true a b : wfP a ->
  existsb is_subr (elem_cs a b) = true -> Strict a b.
Proof.
  intros [Hnd _]. unfold elem_cs. rewrite existsb_app, ecls2_not_sub, orb_false_r.
  intros H. apply existsb_map_true in H as ([k av] & Hin & Hg).
  unfold ecls1 in Hg. simpl in Hg.
  destruct (cv av) as [x|] eqn:Ex; destruct (cons_l (ekeys b) k) as [y|] eqn:Ey;
    try discriminate.
  - destruct (str_eqb x y); discriminate.
  - exists k, x. rewrite (cons_entry a k av) by auto. auto.
Qed.

Lemma flag_sub_false a b :
  existsb is_subr (elem_cs a b) = false -> NStrict a b.
Proof.
  unfold elem_cs. rewrite existsb_app, orb_false_iff. intros [H _] k va Ha Hb.
  apply cons_some_entry in Ha as [Hin Hcv].
  apply (existsb_map_false _ _ _ (k, va)) in H; auto.
  unfold ecls1 in H. simpl in H. rewrite Hcv in H. rewrite cons_of_l in Hb. rewrite Hb in H.
  discriminate.
Qed.

Lemma flag_sup_true a b : wfP a -> wfP b ->
  existsb is_supr (elem_cs a b) = true -> Strict b a.
Proof.
  intros [Hnda _] [Hndb _]. unfold elem_cs. rewrite existsb_app, orb_true_iff.
  intros [H|H]; apply existsb_map_true in H as ([k v] & Hin & Hg).
  - unfold ecls1 in Hg. simpl in Hg.
    destruct (cv v) as [x|] eqn:Ex; destruct (cons_l (ekeys b) k) as [y|] eqn:Ey;
      try discriminate.
    + destruct (str_eqb x y); discriminate.
    + exists k, y. rewrite (cons_entry a k v) by auto. auto.
  - unfold ecls2 in Hg. simpl in Hg.
    destruct (has_key k (ekeys a)) eqn:Eh; [discriminate|].
    destruct (is_star v) eqn:Es; [discriminate|].
    exists k, v. rewrite (cons_entry b k v) by auto. unfold cv. rewrite Es. split; auto.
    rewrite cons_of_l. unfold cons_l. unfold has_key in Eh.
    destruct (al_find k (ekeys a)); [discriminate | reflexivity].
Qed.

Lemma flag_sup_false a b :
  existsb is_supr (elem_cs a b) = false -> NStrict b a.
Proof.
  unfold elem_cs. rewrite existsb_app, orb_false_iff. intros [H1 H2] k vb Hb Ha.
  pose proof (cons_some_entry _ _ _ Hb) as [Hin Hcv].
  apply (existsb_map_false _ _ _ (k, vb)) in H2; auto.
  unfold ecls2 in H2. simpl in H2.
  assert (Es : is_star vb = false) by (unfold cv in Hcv; destruct (is_star vb); congruence).
  rewrite Es, orb_false_r in H2.
  unfold has_key in H2. destruct (al_find k (ekeys a)) as [av|] eqn:Ef; [|discriminate].
  pose proof (al_find_in _ _ _ Ef) as Hina.
  apply (existsb_map_false _ _ _ (k, av)) in H1; auto.
  unfold ecls1 in H1. simpl in H1.
  rewrite cons_of_l in Ha, Hb. unfold cons_l in Ha. rewrite Ef in Ha. rewrite Ha, Hb in H1.
  discriminate.
Qed.

(* ---------- element level: semantics ---------- *)

Definition wit (d : str -> str) (x y : pelem) : celem :=
  (ename x, fun k => match cons_of x k with
                     | Some v => v
                     | None => match cons_of y k with Some v => v | None => d k end
                     end).

Lemma wit_in_l d x y : in_elem (wit d x y) x.
Proof. split; [reflexivity|]. intros k v H. simpl. now rewrite H. Qed.

Lemma wit_in_r d x y : ename x = ename y -> NoConf x y -> in_elem (wit d x y) y.
Proof.
  intros Hn Hc. split; [exact Hn|]. intros k v H. simpl. rewrite H.
  destruct (cons_of x k) as [w|] eqn:E; auto. eapply Hc; eauto.
Qed.

Lemma in_elem_inhab e : exists q, in_elem q e.
Proof. exists (wit (fun _ => []) e e). apply wit_in_l. Qed.

Lemma NoConf_sym a b : NoConf a b -> NoConf b a.
Proof. intros H k va vb Ha Hb. symmetry. eapply H; eauto. Qed.

Lemma conf_disjoint a b : Conf a b -> forall q, ~ (in_elem q a /\ in_elem q b).
Proof.
  intros (k & va & vb & Ha & Hb & Hne) q [[_ H1] [_ H2]].
  apply Hne. rewrite <- (H1 _ _ Ha), <- (H2 _ _ Hb). reflexivity.
Qed.

Lemma nstrict_covers a b : ename a = ename b -> NoConf a b -> NStrict a b ->
  forall q, in_elem q b -> in_elem q a.
Proof.
  intros Hn Hc Hs q [Hq1 Hq2]. split; [congruence|].
  intros k va Ha. destruct (cons_of b k) as [vb|] eqn:Eb.
  - rewrite (Hc _ _ _ Ha Eb). auto.
  - exfalso. eapply Hs; eauto.
Qed.

Lemma strict_wit a b : Strict a b -> exists q, in_elem q b /\ ~ in_elem q a.
Proof.
  intros (k & va & Ha & Hb). exists (wit (fun _ => differ va) b b). split; [apply wit_in_l|].
  intros [_ H]. specialize (H _ _ Ha). simpl in H. rewrite Hb in H.
  now apply (differ_neq va).
Qed.

Theorem compare_elem_sound a b : wfP a -> wfP b ->
  rel_holds_g (compare_elem a b) (fun q => in_elem q a) (fun q => in_elem q b).
Proof.
  intros Ha Hb. rewrite compare_elem_final by apply Ha.
  destruct (str_eqb_spec (ename a) (ename b)) as [Hn|Hn]; simpl.
  - rewrite final_classify by exact I. simpl. apply classify_holds.
    + intros H. apply conf_disjoint. now apply flag_disj_true.
    + intros H. apply flag_disj_false in H. exists (wit (fun _ => []) a b).
      split; [apply wit_in_l | now apply wit_in_r].
    + intros H1 H2. apply flag_disj_false in H1. apply flag_sub_false in H2.
      now apply nstrict_covers.
    + intros H. apply strict_wit. now apply flag_sub_true.
    + intros H1 H2. apply flag_disj_false in H1. apply flag_sup_false in H2.
      apply nstrict_covers; auto. now apply NoConf_sym.
    + intros H. apply strict_wit. now apply flag_sup_true.
  - intros q [[H1 _] [H2 _]]. congruence.
Qed.

Lemma compare_elem_swap a b : wfP a -> wfP b ->
  compare_elem b a = swap_rel (compare_elem a b).
Proof.
  intros Ha Hb.
  apply (rel_holds_unique (fun q => in_elem q b) (fun q => in_elem q a)).
  - apply in_elem_inhab.
  - apply in_elem_inhab.
  - now apply compare_elem_sound.
  - apply rel_holds_swap. now apply compare_elem_sound.
Qed.

(* the result does not depend on the iteration order of the key maps *)
Lemma wfP_perm n ka ka' : Permutation ka ka' ->
  wfP {| ename := n; ekeys := ka |} -> wfP {| ename := n; ekeys := ka' |}.
Proof.
  intros Hp [H1 H2]; simpl in *. split; simpl.
  - eapply Permutation_NoDup; [apply Permutation_map; exact Hp | exact H1].
  - unfold nonempty_vals in *. eapply Permutation_Forall; eauto.
Qed.

Lemma in_elem_perm n ka ka' q : Permutation ka ka' -> NoDup (map fst ka) ->
  in_elem q {| ename := n; ekeys := ka |} <-> in_elem q {| ename := n; ekeys := ka' |}.
Proof.
  intros Hp Hnd. unfold in_elem, cons_of; simpl.
  split; intros [H1 H2]; split; auto; intros k v; specialize (H2 k v);
    rewrite (al_find_perm k ka ka') in *; auto.
Qed.

Theorem compare_elem_perm n m ka ka' kb kb' :
  Permutation ka ka' -> Permutation kb kb' ->
  wf_relemb {| ename := n; ekeys := ka |} = true ->
  wf_relemb {| ename := m; ekeys := kb |} = true ->
  compare_elem {| ename := n; ekeys := ka |} {| ename := m; ekeys := kb |} =
  compare_elem {| ename := n; ekeys := ka' |} {| ename := m; ekeys := kb' |}.
Proof.
  intros Hpa Hpb Ha Hb. apply wf_relemb_wfP in Ha, Hb.
  pose proof (wfP_perm _ _ _ Hpa Ha) as Ha'. pose proof (wfP_perm _ _ _ Hpb Hb) as Hb'.
  eapply rel_holds_unique; [| | apply compare_elem_sound; eauto |].
  - apply in_elem_inhab.
  - apply in_elem_inhab.
  - eapply rel_holds_ext; [| | apply (compare_elem_sound _ _ Ha' Hb')].
    + intros q. symmetry. apply in_elem_perm; auto. apply Ha.
    + intros q. symmetry. apply in_elem_perm; auto. apply Hb.
Qed.

(* ---------- path level: the element loop as a run of the state machine ---------- *)

Fixpoint zipw {A B C} (f : A -> B -> C) (a : list A) (b : list B) : list C :=
  match a, b with
  | x :: a', y :: b' => f x y :: zipw f a' b'
  | _, _ => []
  end.

Lemma cmp_elems_run a b r p : okr r ->
  cmp_elems a b r p = run (zipw compare_elem a b) (r, p).
Proof.
  revert b r p; induction a as [|x a IH]; intros [|y b] r p Hok; simpl; auto.
  destruct (compare_elem x y); simpl.
  - apply IH; auto.
  - reflexivity.
  - unfold add_sub; simpl. destruct r; simpl in *; try contradiction; apply IH; exact I.
  - unfold add_sup; simpl. destruct r; simpl in *; try contradiction; apply IH; exact I.
  - apply IH; auto.
Qed.

Definition path_r0 (la lb : nat) : rel :=
  if Nat.ltb lb la then RSubset else if Nat.ltb la lb then RSuperset else REqual.

Lemma compare_paths_classify a b :
  compare_paths a b =
  classify (negb (origin_equiv (origin a) (origin b))
            || existsb is_disjr (zipw compare_elem (elems a) (elems b)))
           (Nat.ltb (length (elems b)) (length (elems a))
            || existsb is_subr (zipw compare_elem (elems a) (elems b)))
           (Nat.ltb (length (elems a)) (length (elems b))
            || existsb is_supr (zipw compare_elem (elems a) (elems b))).
Proof.
  unfold compare_paths. destruct (negb (origin_equiv (origin a) (origin b))); [reflexivity|].
  simpl orb.
  set (la := length (elems a)). set (lb := length (elems b)).
  assert (Hok : okr (path_r0 la lb)).
  { unfold path_r0. destruct (Nat.ltb lb la), (Nat.ltb la lb); exact I. }
  change (if Nat.ltb lb la then RSubset else if Nat.ltb la lb then RSuperset else REqual)
    with (path_r0 la lb).
  rewrite cmp_elems_run by exact Hok.
  pose proof (final_classify (zipw compare_elem (elems a) (elems b)) (path_r0 la lb, false) Hok)
    as H.
  unfold final in H.
  assert (E1 : fsub (path_r0 la lb, false) = Nat.ltb lb la).
  { unfold fsub, path_r0; simpl. destruct (Nat.ltb lb la), (Nat.ltb la lb); reflexivity. }
  assert (E2 : fsup (path_r0 la lb, false) = Nat.ltb la lb).
  { unfold fsup, path_r0; simpl. destruct (Nat.ltb_spec lb la), (Nat.ltb_spec la lb);
      try reflexivity; lia. }
  rewrite E1, E2 in H. rewrite <- H.
  destruct (run (zipw compare_elem (elems a) (elems b)) (path_r0 la lb, false)) as [[r p]|];
    reflexivity.
Qed.

(* ---------- path level: semantics ---------- *)

Fixpoint below (es : list pelem) (qs : list celem) : Prop :=
  match es, qs with
  | [], _ => True
  | e :: es', q :: qs' => in_elem q e /\ below es' qs'
  | _ :: _, [] => False
  end.

Lemma below_iff es qs :
  (length es <= length qs)%nat /\ Forall2 in_elem (firstn (length es) qs) es <-> below es qs.
Proof.
  revert qs; induction es as [|e es IH]; intros [|q qs]; simpl.
  - split; auto.
  - split; auto. intros _; split; [lia | constructor].
  - split; [intros [H _]; lia | contradiction].
  - rewrite <- IH. split.
    + intros [H1 H2]. inversion H2; subst. split; [assumption|]. split; [lia | assumption].
    + intros [H1 [H2 H3]]. split; [lia | now constructor].
Qed.

Lemma D_below p q : D p q <-> norm_origin (origin p) = fst q /\ below (elems p) (snd q).
Proof. unfold D. rewrite <- below_iff. tauto. Qed.

Lemma below_len es qs : below es qs -> (length es <= length qs)%nat.
Proof. intros H. now apply below_iff in H. Qed.

Lemma below_inhab es : exists qs, below es qs /\ length qs = length es.
Proof.
  induction es as [|e es (qs & H1 & H2)]; [exists []; simpl; auto|].
  destruct (in_elem_inhab e) as [q Hq]. exists (q :: qs); simpl; auto.
Qed.

Fixpoint ex2 (P : pelem -> pelem -> Prop) (a b : list pelem) : Prop :=
  match a, b with
  | x :: a', y :: b' => P x y \/ ex2 P a' b'
  | _, _ => False
  end.
Fixpoint all2 (P : pelem -> pelem -> Prop) (a b : list pelem) : Prop :=
  match a, b with
  | x :: a', y :: b' => P x y /\ all2 P a' b'
  | _, _ => True
  end.

Lemma ex2_flip P a b : ex2 P a b -> ex2 (fun x y => P y x) b a.
Proof. revert b; induction a as [|x a IH]; intros [|y b]; simpl; auto. intros [H|H]; auto. Qed.

Lemma all2_flip P a b : all2 P a b -> all2 (fun x y => P y x) b a.
Proof. revert b; induction a as [|x a IH]; intros [|y b]; simpl; auto. intros [H1 H2]; auto. Qed.

Lemma zipw_exists (g : rel -> bool) (P : pelem -> pelem -> Prop) a b :
  Forall wfP a -> Forall wfP b ->
  (forall x y, wfP x -> wfP y -> g (compare_elem x y) = true -> P x y) ->
  existsb g (zipw compare_elem a b) = true -> ex2 P a b.
Proof.
  intros Ha Hb HP. revert b Hb; induction Ha as [|x a Hx Ha IH]; intros [|y b] Hb; simpl;
    try discriminate.
  inversion Hb; subst. rewrite orb_true_iff. intros [H|H]; auto.
Qed.

Lemma zipw_forall (g : rel -> bool) (P : pelem -> pelem -> Prop) a b :
  Forall wfP a -> Forall wfP b ->
  (forall x y, wfP x -> wfP y -> g (compare_elem x y) = false -> P x y) ->
  existsb g (zipw compare_elem a b) = false -> all2 P a b.
Proof.
  intros Ha Hb HP. revert b Hb; induction Ha as [|x a Hx Ha IH]; intros [|y b] Hb; simpl; auto.
  inversion Hb; subst. rewrite orb_false_iff. intros [H3 H4]; auto.
Qed.

Lemma below_disj a b :
  ex2 (fun x y => forall q, ~ (in_elem q x /\ in_elem q y)) a b ->
  forall qs, ~ (below a qs /\ below b qs).
Proof.
  revert b; induction a as [|x a IH]; intros [|y b]; simpl; try contradiction.
  intros [H|H] [|q qs]; simpl; try tauto.
  - intros [[H1 _] [H2 _]]. apply (H q); auto.
  - intros [[_ H1] [_ H2]]. apply (IH _ H qs); auto.
Qed.

Lemma below_compat a b :
  all2 (fun x y => exists q, in_elem q x /\ in_elem q y) a b ->
  exists qs, below a qs /\ below b qs.
Proof.
  revert b; induction a as [|x a IH]; intros b.
  - intros _. destruct (below_inhab b) as (qs & H & _). exists qs; simpl; auto.
  - destruct b as [|y b].
    + intros _. destruct (below_inhab (x :: a)) as (qs & H & _). exists qs; simpl; auto.
    + simpl. intros [(q & H1 & H2) H]. destruct (IH _ H) as (qs & H3 & H4).
      exists (q :: qs); simpl; auto.
Qed.

Lemma below_cov a b : (length a <= length b)%nat ->
  all2 (fun x y => forall q, in_elem q y -> in_elem q x) a b ->
  forall qs, below b qs -> below a qs.
Proof.
  revert b; induction a as [|x a IH]; intros [|y b]; simpl; auto; try lia.
  intros Hl [H1 H2] [|q qs]; simpl; [tauto|]. intros [H3 H4]. split; auto.
  apply (IH b); auto. lia.
Qed.

Lemma below_strict a b :
  (length b < length a)%nat \/
  ex2 (fun x y => exists q, in_elem q y /\ ~ in_elem q x) a b ->
  exists qs, below b qs /\ ~ below a qs.
Proof.
  intros [Hl|H].
  - destruct (below_inhab b) as (qs & H1 & H2). exists qs; split; auto.
    intros H. apply below_len in H. lia.
  - revert b H; induction a as [|x a IH]; intros [|y b]; simpl; try contradiction.
    intros [(q & H1 & H2)|H].
    + destruct (below_inhab b) as (qs & H3 & _). exists (q :: qs); simpl. tauto.
    + destruct (IH _ H) as (qs & H3 & H4). destruct (in_elem_inhab y) as [q Hq].
      exists (q :: qs); simpl. tauto.
Qed.

(* per-pair consequences of compare_elem_sound *)
Lemma pair_disj x y (Hx : wfP x) (Hy : wfP y) : is_disjr (compare_elem x y) = true ->
  forall q, ~ (in_elem q x /\ in_elem q y).
Proof.
  pose proof (compare_elem_sound x y Hx Hy) as H.
  destruct (compare_elem x y); simpl in *; try discriminate. auto.
Qed.

Lemma pair_compat x y (Hx : wfP x) (Hy : wfP y) : is_disjr (compare_elem x y) = false ->
  exists q, in_elem q x /\ in_elem q y.
Proof.
  pose proof (compare_elem_sound x y Hx Hy) as H.
  destruct (in_elem_inhab x) as [qx Hqx]. destruct (in_elem_inhab y) as [qy Hqy].
  destruct (compare_elem x y); simpl in *; try discriminate; intros _.
  - exists qx. split; auto. now apply H.
  - exists qx. split; auto. now apply H.
  - exists qy. split; auto. now apply H.
  - apply H.
Qed.

Lemma pair_cov_l x y (Hx : wfP x) (Hy : wfP y) : is_disjr (compare_elem x y) || is_subr (compare_elem x y) = false ->
  forall q, in_elem q y -> in_elem q x.
Proof.
  pose proof (compare_elem_sound x y Hx Hy) as H.
  destruct (compare_elem x y); simpl in *; try discriminate; intros _ q; apply H.
Qed.

Lemma pair_cov_r x y (Hx : wfP x) (Hy : wfP y) : is_disjr (compare_elem x y) || is_supr (compare_elem x y) = false ->
  forall q, in_elem q x -> in_elem q y.
Proof.
  pose proof (compare_elem_sound x y Hx Hy) as H.
  destruct (compare_elem x y); simpl in *; try discriminate; intros _ q; apply H.
Qed.

Lemma pair_strict_l x y (Hx : wfP x) (Hy : wfP y) : is_subr (compare_elem x y) = true ->
  exists q, in_elem q y /\ ~ in_elem q x.
Proof.
  pose proof (compare_elem_sound x y Hx Hy) as H.
  destruct (compare_elem x y); simpl in *; try discriminate; intros _; apply H.
Qed.

Lemma pair_strict_r x y (Hx : wfP x) (Hy : wfP y) : is_supr (compare_elem x y) = true ->
  exists q, in_elem q x /\ ~ in_elem q y.
Proof.
  pose proof (compare_elem_sound x y Hx Hy) as H.
  destruct (compare_elem x y); simpl in *; try discriminate; intros _; apply H.
Qed.


Lemma origin_equiv_norm o1 o2 : origin_equiv o1 o2 = true <-> norm_origin o1 = norm_origin o2.
Proof.
  unfold origin_equiv, norm_origin.
  destruct (str_eqb_spec o1 OC) as [->|H1]; destruct (str_eqb_spec o2 OC) as [->|H2];
    try destruct (str_eqb_spec OC o2); try destruct (str_eqb_spec o1 OC);
    try destruct (str_eqb_spec o1 o2); try destruct o1; try destruct o2; simpl;
    split; intros; try reflexivity; try congruence; try discriminate.
Qed.

Lemma wf_gpb_Forall p : wf_gpb p = true -> Forall wfP (elems p).
Proof.
  unfold wf_gpb. rewrite forallb_forall, Forall_forall. intros H e Hin.
  apply wf_relemb_wfP; auto.
Qed.

Lemma D_inhab p : exists q, D p q.
Proof.
  destruct (below_inhab (elems p)) as (qs & H & _).
  exists (norm_origin (origin p), qs). apply D_below; simpl; auto.
Qed.

Theorem compare_paths_sound a b : wf_gpb a = true -> wf_gpb b = true ->
  rel_holds (compare_paths a b) (D a) (D b).
Proof.
  intros Ha Hb. apply wf_gpb_Forall in Ha, Hb. apply rel_holds_is_g.
  rewrite compare_paths_classify.
  set (cs := zipw compare_elem (elems a) (elems b)).
  apply classify_holds.
  - (* disjoint *)
    intros H q [H1 H2]. apply D_below in H1 as [O1 B1], H2 as [O2 B2].
    apply orb_true_iff in H as [H|H].
    + apply negb_true_iff in H. assert (origin_equiv (origin a) (origin b) = true); [|congruence].
      apply origin_equiv_norm. congruence.
    + eapply below_disj; [|split; [exact B1 | exact B2]].
      eapply zipw_exists; [exact Ha | exact Hb | | exact H].
      intros x y Hx Hy. apply pair_disj; auto.
  - (* common point *)
    intros H. apply orb_false_iff in H as [H0 H]. apply negb_false_iff, origin_equiv_norm in H0.
    destruct (below_compat (elems a) (elems b)) as (qs & B1 & B2).
    { eapply zipw_forall; [exact Ha | exact Hb | | exact H].
      intros x y Hx Hy. apply pair_compat; auto. }
    exists (norm_origin (origin a), qs). split; apply D_below; simpl; auto.
  - (* b included in a *)
    intros H H'. apply orb_false_iff in H as [H0 H]. apply negb_false_iff, origin_equiv_norm in H0.
    apply orb_false_iff in H' as [Hl H'].
    intros q Hq. apply D_below in Hq as [O B]. apply D_below. split; [congruence|].
    eapply below_cov; [| |exact B].
    + apply Nat.ltb_ge in Hl. exact Hl.
    + eapply zipw_forall with (g := fun r => is_disjr r || is_subr r);
        [exact Ha | exact Hb | |].
      * intros x y Hx Hy. apply pair_cov_l; auto.
      * rewrite existsb_orb. fold cs. now rewrite H, H'.
  - (* a point of b outside a *)
    intros H.
    destruct (below_strict (elems a) (elems b)) as (qs & B1 & B2).
    { apply orb_true_iff in H as [H|H]; [left; now apply Nat.ltb_lt in H | right].
      eapply zipw_exists; [exact Ha | exact Hb | | exact H].
      intros x y Hx Hy. apply pair_strict_l; auto. }
    exists (norm_origin (origin b), qs). split; [apply D_below; simpl; auto|].
    intros Hq. apply D_below in Hq as [_ Hq]. auto.
  - (* a included in b *)
    intros H H'. apply orb_false_iff in H as [H0 H]. apply negb_false_iff, origin_equiv_norm in H0.
    apply orb_false_iff in H' as [Hl H'].
    intros q Hq. apply D_below in Hq as [O B]. apply D_below. split; [congruence|].
    eapply below_cov; [| |exact B].
    + apply Nat.ltb_ge in Hl. exact Hl.
    + apply all2_flip.
      eapply zipw_forall with (g := fun r => is_disjr r || is_supr r);
        [exact Ha | exact Hb | |].
      * intros x y Hx Hy. apply pair_cov_r; auto.
      * rewrite existsb_orb. fold cs. now rewrite H, H'.
  - (* a point of a outside b *)
    intros H.
    destruct (below_strict (elems b) (elems a)) as (qs & B1 & B2).
    { apply orb_true_iff in H as [H|H]; [left; now apply Nat.ltb_lt in H | right].
      apply ex2_flip.
      eapply zipw_exists; [exact Ha | exact Hb | | exact H].
      intros x y Hx Hy. apply pair_strict_r; auto. }
    exists (norm_origin (origin a), qs). split; [apply D_below; simpl; auto|].
    intros Hq. apply D_below in Hq as [_ Hq]. auto.
Qed.

Theorem compare_paths_swap a b : wf_gpb a = true -> wf_gpb b = true ->
  compare_paths b a = swap_rel (compare_paths a b).
Proof.
  intros Ha Hb. apply (rel_holds_unique (D b) (D a)).
  - apply D_inhab.
  - apply D_inhab.
  - apply rel_holds_is_g. now apply compare_paths_sound.
  - apply rel_holds_swap, rel_holds_is_g. now apply compare_paths_sound.
Qed.

(* ---------- PathMatchesQuery ---------- *)

Definition qmatch (pe qe : pelem) : Prop :=
  (ename qe = STAR \/ ename qe = ename pe) /\
  forall k v, In (k, v) (ekeys qe) ->
    exists pv, al_find k (ekeys pe) = Some pv /\ (v = STAR \/ v = pv).

Lemma elem_matches_query_iff pe qe : elem_matches_query pe qe = true <-> qmatch pe qe.
Proof.
  unfold elem_matches_query, qmatch.
  rewrite andb_true_iff, orb_true_iff, !str_eqb_eq, forallb_forall.
  split; intros [H1 H2]; split; auto.
  - intros k v Hin. specialize (H2 _ Hin). simpl in H2.
    destruct (al_find k (ekeys pe)) as [pv|]; [|discriminate]. exists pv; split; auto.
    apply orb_true_iff in H2. rewrite is_star_eq, str_eqb_eq in H2. exact H2.
  - intros [k v] Hin. simpl. destruct (H2 _ _ Hin) as (pv & -> & H).
    apply orb_true_iff. rewrite is_star_eq, str_eqb_eq. exact H.
Qed.

Lemma elems_match_query_iff path query :
  elems_match_query path query = true <->
  (length query <= length path)%nat /\ Forall2 qmatch (firstn (length query) path) query.
Proof.
  revert path; induction query as [|qe query IH]; intros [|pe path]; simpl.
  - split; auto.
  - split; auto. intros _. split; [lia | constructor].
  - split; [discriminate | intros [H _]; lia].
  - rewrite andb_true_iff, IH, elem_matches_query_iff. split.
    + intros [H1 [H2 H3]]. split; [lia | now constructor].
    + intros [H1 H2]. inversion H2; subst. split; [assumption|]. split; [lia | assumption].
Qed.

Theorem matches_query_iff p q :
  matches_query p q = true <->
  (length (elems q) <= length (elems p))%nat /\
  origin_equiv (origin p) (origin q) = true /\
  Forall2 qmatch (firstn (length (elems q)) (elems p)) (elems q).
Proof.
  unfold matches_query.
  destruct (Nat.ltb_spec (length (elems p)) (length (elems q))) as [Hl|Hl].
  - split; [discriminate | intros [H _]; lia].
  - destruct (origin_equiv (origin p) (origin q)); simpl.
    + rewrite elems_match_query_iff. tauto.
    + split; [discriminate | intros [_ [H _]]; discriminate].
Qed.

(* ---------- PathElemsEqual: an equivalence on elements with distinct key names ---------- *)

Definition nd (e : pelem) : Prop := NoDup (map fst (ekeys e)).
Definition nodup_pathb (x : list pelem) : bool := forallb (fun e => nodup_keysb (ekeys e)) x.

Lemma nodup_pathb_Forall x : nodup_pathb x = true -> Forall nd x.
Proof.
  unfold nodup_pathb. rewrite forallb_forall, Forall_forall. intros H e Hin.
  apply nodup_keysb_NoDup; auto.
Qed.

Lemma wf_gpb_nodup p : wf_gpb p = true -> nodup_pathb (elems p) = true.
Proof.
  unfold wf_gpb, nodup_pathb. rewrite !forallb_forall. intros H e Hin.
  specialize (H e Hin). unfold wf_relemb in H. now apply andb_prop in H as [H _].
Qed.

Lemma elems_equal_iff a b :
  elems_equal a b = true <->
  ename a = ename b /\ length (ekeys a) = length (ekeys b) /\
  forall k v, In (k, v) (ekeys a) -> al_find k (ekeys b) = Some v.
Proof.
  unfold elems_equal. rewrite !andb_true_iff, str_eqb_eq, Nat.eqb_eq, forallb_forall.
  split.
  - intros [[H1 H2] H3]. repeat split; auto.
    intros k v Hin. specialize (H3 _ Hin). simpl in H3.
    destruct (al_find k (ekeys b)) as [w|]; [|discriminate]. apply str_eqb_eq in H3. congruence.
  - intros [H1 [H2 H3]]. repeat split; auto.
    intros [k v] Hin. simpl. rewrite (H3 _ _ Hin). apply str_eqb_refl.
Qed.

Lemma elems_equal_refl e : nd e -> elems_equal e e = true.
Proof.
  intros H. apply elems_equal_iff. repeat split; auto. intros k v Hin. now apply nodup_find.
Qed.

Lemma elems_equal_sym a b : nd a -> nd b -> elems_equal a b = true -> elems_equal b a = true.
Proof.
  intros Ha Hb H. apply elems_equal_iff in H as (H1 & H2 & H3). apply elems_equal_iff.
  repeat split; auto.
  assert (Hincl : incl (map fst (ekeys b)) (map fst (ekeys a))).
  { apply NoDup_length_incl; auto.
    - rewrite !map_length. lia.
    - intros k Hin. apply in_map_iff in Hin as ([k' v] & <- & Hin). simpl.
      apply H3, al_find_in in Hin. change k' with (fst (k', v)). now apply in_map. }
  intros k w Hin.
  assert (Hk : In k (map fst (ekeys a))).
  { apply Hincl. change k with (fst (k, w)). now apply in_map. }
  apply in_map_iff in Hk as ([k' v] & Hk & Hina). simpl in Hk. subst k'.
  pose proof (H3 _ _ Hina) as Hb'. rewrite (nodup_find k w) in Hb' by auto.
  injection Hb' as ->. now apply nodup_find.
Qed.

Lemma elems_equal_trans a b c :
  elems_equal a b = true -> elems_equal b c = true -> elems_equal a c = true.
Proof.
  intros H1 H2. apply elems_equal_iff in H1 as (A1 & A2 & A3), H2 as (B1 & B2 & B3).
  apply elems_equal_iff. repeat split; try congruence.
  intros k v Hin. apply B3. apply al_find_in. auto.
Qed.

(* ---------- PathMatchesPathElemPrefix / Trim / Join ---------- *)

Lemma elems_prefix_spec pre path : elems_prefix pre path = true ->
  (length pre <= length path)%nat /\
  Forall2 (fun x y => elems_equal x y = true) pre (firstn (length pre) path).
Proof.
  revert path; induction pre as [|e pre IH]; intros [|x path]; simpl; try discriminate.
  - split; [lia | constructor].
  - split; [lia | constructor].
  - rewrite andb_true_iff. intros [H1 H2]. destruct (IH _ H2). split; [lia | now constructor].
Qed.

Lemma Forall2_refl_on {A} (R : A -> A -> Prop) (P : A -> Prop) l :
  Forall P l -> (forall x, P x -> R x x) -> Forall2 R l l.
Proof. induction 1; constructor; auto. Qed.

Lemma Forall_skipn {A} (P : A -> Prop) n l : Forall P l -> Forall P (skipn n l).
Proof.
  revert l; induction n as [|n IH]; intros [|x l] H; simpl; auto. inversion H; auto.
Qed.

(* structural form, no side condition on the keys *)
Theorem trim_join_struct p pre :
  matches_elem_prefix p pre = true ->
  target pre = [] \/ target p = [] \/ target pre = target p ->
  exists j, join_paths pre (trim_elem_prefix p pre) = Ok j /\
            origin j = origin p /\
            elems j = elems pre ++ skipn (length (elems pre)) (elems p) /\
            length (elems j) = length (elems p) /\
            Forall2 (fun x y => elems_equal x y = true)
                    (elems pre) (firstn (length (elems pre)) (elems p)).
Proof.
  intros H Ht. pose proof H as H0. unfold matches_elem_prefix in H0.
  destruct (Nat.ltb_spec (length (elems p)) (length (elems pre))) as [Hl|Hl];
    simpl in H0; [discriminate|].
  destruct (str_eqb_spec (origin p) (origin pre)) as [Ho|Ho]; simpl in H0; [|discriminate].
  apply elems_prefix_spec in H0 as [_ H0].
  unfold trim_elem_prefix. rewrite H. unfold join_paths; simpl. rewrite Ho.
  rewrite str_eqb_refl, andb_false_r.
  assert (E : negb (nil_b (target p)) && negb (nil_b (target pre))
              && negb (str_eqb (target pre) (target p)) = false).
  { destruct Ht as [E|[E|E]]; rewrite E.
    - simpl. now rewrite andb_false_r.
    - reflexivity.
    - now rewrite str_eqb_refl, andb_false_r. }
  rewrite E. eexists; split; [reflexivity|]. simpl. repeat split; auto.
  - destruct (nil_b (origin pre)); reflexivity.
  - rewrite app_length, skipn_length. lia.
Qed.

(* TrimGNMIPathElemPrefix then JoinPaths gives back the path, up to PathElemsEqual.
   Statement adjusted: PathElemsEqual is reflexive only on elements whose key names are
   distinct (always so for a Go map), hence the hypothesis nodup_pathb (elems p). *)
Theorem trim_join p pre :
  matches_elem_prefix p pre = true ->
  nodup_pathb (elems p) = true ->
  target pre = [] \/ target p = [] \/ target pre = target p ->
  exists j, join_paths pre (trim_elem_prefix p pre) = Ok j /\
            length (elems j) = length (elems p) /\
            Forall2 (fun x y => elems_equal x y = true) (elems j) (elems p).
Proof.
  intros H Hnd Ht. destruct (trim_join_struct p pre H Ht) as (j & H1 & _ & H2 & H3 & H4).
  exists j. repeat split; auto. rewrite H2.
  rewrite <- (firstn_skipn (length (elems pre)) (elems p)) at 2.
  apply Forall2_app; auto.
  apply Forall2_refl_on with (P := nd).
  - apply Forall_skipn. now apply nodup_pathb_Forall.
  - apply elems_equal_refl.
Qed.

(* ---------- FindPathElemPrefix ---------- *)

(* r is a prefix of x w.r.t. PathElemsEqual, in the argument order the Go code uses *)
Fixpoint pre_rev (r x : list pelem) : Prop :=
  match r, x with
  | [], _ => True
  | e :: r', y :: x' => elems_equal y e = true /\ pre_rev r' x'
  | _ :: _, [] => False
  end.
Definition is_pre (r p : list pelem) : Prop := exists s, p = r ++ s.

Lemma is_pre_refl p : is_pre p p.
Proof. exists []. now rewrite app_nil_r. Qed.

Lemma is_pre_trans a b c : is_pre a b -> is_pre b c -> is_pre a c.
Proof. intros [s ->] [t ->]. exists (s ++ t). now rewrite app_assoc. Qed.

Lemma cp2_pre a b : is_pre (common_prefix2 a b) a.
Proof.
  revert b; induction a as [|x a IH]; intros [|y b]; simpl; try (eexists; reflexivity).
  destruct (elems_equal y x); [|eexists; reflexivity].
  destruct (IH b) as [s Hs]. exists s. simpl. now rewrite <- Hs.
Qed.

Lemma cp2_pre_rev a b : pre_rev (common_prefix2 a b) b.
Proof.
  revert b; induction a as [|x a IH]; intros [|y b]; simpl; auto.
  destruct (elems_equal y x) eqn:E; simpl; auto.
Qed.

Lemma pre_rev_pre r r' x : is_pre r r' -> pre_rev r' x -> pre_rev r x.
Proof.
  intros [s ->]. revert x; induction r as [|e r IH]; intros [|y x]; simpl; auto.
  intros [H1 H2]; auto.
Qed.

Lemma fold_pre rest p :
  is_pre (fold_left common_prefix2 rest p) p /\
  forall x, In x rest -> pre_rev (fold_left common_prefix2 rest p) x.
Proof.
  revert p; induction rest as [|y rest IH]; intros p; simpl.
  - split; [apply is_pre_refl | contradiction].
  - destruct (IH (common_prefix2 p y)) as [H1 H2]. split.
    + eapply is_pre_trans; [exact H1 | apply cp2_pre].
    + intros x [<-|Hin]; auto. eapply pre_rev_pre; [exact H1 | apply cp2_pre_rev].
Qed.

Lemma pre_rev_prefix r x : Forall nd r -> Forall nd x -> pre_rev r x -> elems_prefix r x = true.
Proof.
  intros Hr. revert x; induction Hr as [|e r He Hr IH]; intros x Hx; simpl; auto.
  destruct x as [|y x]; [contradiction|].
  inversion Hx as [|? ? Hy Hx']; subst. intros [E1 E2]. rewrite IH by auto.
  rewrite elems_equal_sym; auto.
Qed.

Lemma is_pre_prefix r p : Forall nd p -> is_pre r p -> elems_prefix r p = true.
Proof.
  intros Hp [s ->]. induction r as [|e r IH]; simpl in *; auto.
  inversion Hp; subst. rewrite elems_equal_refl, IH; auto.
Qed.

Lemma is_pre_Forall {P : pelem -> Prop} r p : is_pre r p -> Forall P p -> Forall P r.
Proof. intros [s ->] H. apply Forall_app in H. tauto. Qed.

(* the result is a common prefix (w.r.t. PathElemsEqual) of every input path.
   PathElemsEqual is reflexive/symmetric only for elements with distinct key names (always so
   for Go maps), hence the hypothesis. *)
Theorem find_prefix_common p rest :
  forallb nodup_pathb (p :: rest) = true ->
  forall x, In x (p :: rest) -> elems_prefix (find_prefix (p :: rest)) x = true.
Proof.
  intros Hnd x Hin. simpl find_prefix. destruct (fold_pre rest p) as [H1 H2].
  assert (Hall : forall y, In y (p :: rest) -> Forall nd y).
  { intros y Hy. apply nodup_pathb_Forall. rewrite forallb_forall in Hnd. auto. }
  destruct Hin as [<-|Hin].
  - apply is_pre_prefix; auto. apply Hall. now left.
  - apply pre_rev_prefix; auto.
    + eapply is_pre_Forall; [exact H1 | apply Hall; now left].
    + apply Hall. now right.
Qed.

(* it is literally an initial segment of the first path *)
Theorem find_prefix_initial p rest :
  find_prefix (p :: rest) = firstn (length (find_prefix (p :: rest))) p.
Proof.
  simpl find_prefix. destruct (fold_pre rest p) as [[s Hs] _].
  remember (fold_left common_prefix2 rest p) as r eqn:Er. clear Er. subst p.
  now rewrite firstn_app, Nat.sub_diag, firstn_all, app_nil_r.
Qed.

Lemma is_pre_nth c p n (e : pelem) : is_pre c p -> nth_error c n = Some e -> nth_error p n = Some e.
Proof.
  intros [s ->] H. rewrite nth_error_app1; auto. apply nth_error_Some. congruence.
Qed.

Lemma cp2_max a b :
  length (common_prefix2 a b) = length a \/ length (common_prefix2 a b) = length b \/
  exists ea eb, nth_error a (length (common_prefix2 a b)) = Some ea /\
                nth_error b (length (common_prefix2 a b)) = Some eb /\
                elems_equal eb ea = false.
Proof.
  revert b; induction a as [|x a IH]; intros [|y b]; simpl; auto.
  destruct (elems_equal y x) eqn:E; simpl.
  - destruct (IH b) as [H|[H|H]]; auto.
  - right; right. exists x, y. auto.
Qed.

Lemma fold_max rest p :
  let r := fold_left common_prefix2 rest p in
  length r = length p \/
  (exists x, In x rest /\ length x = length r) \/
  (exists x ex ep, In x rest /\ nth_error x (length r) = Some ex /\
                   nth_error p (length r) = Some ep /\ elems_equal ex ep = false).
Proof.
  revert p; induction rest as [|y rest IH]; intros p; simpl; auto.
  destruct (IH (common_prefix2 p y)) as [H|[H|H]].
  - rewrite H. destruct (cp2_max p y) as [H'|[H'|H']]; auto.
    + right; left. exists y; auto.
    + right; right. destruct H' as (ea & eb & H1 & H2 & H3). exists y, eb, ea. auto.
  - right; left. destruct H as (x & H1 & H2). exists x; auto.
  - right; right. destruct H as (x & ex & ep & H1 & H2 & H3 & H4). exists x, ex, ep.
    repeat split; auto.
    eapply is_pre_nth; [apply cp2_pre | exact H3].
Qed.

(* maximality: some input path ends where the result ends, or some path differs from the
   first one (w.r.t. PathElemsEqual) at the index just after the result *)
Theorem find_prefix_maximal p rest :
  let r := find_prefix (p :: rest) in
  (exists x, In x (p :: rest) /\ length x = length r) \/
  (exists x ex ep, In x rest /\ nth_error x (length r) = Some ex /\
                   nth_error p (length r) = Some ep /\ elems_equal ex ep = false).
Proof.
  simpl. destruct (fold_max rest p) as [H|[H|H]]; auto.
  - left. exists p; auto.
  - left. destruct H as (x & H1 & H2). exists x; auto.
Qed.

Lemma elems_prefix_nth c x n ec : elems_prefix c x = true -> nth_error c n = Some ec ->
  exists ex, nth_error x n = Some ex /\ elems_equal ec ex = true.
Proof.
  revert x n; induction c as [|e c IH]; intros [|y x] [|n]; simpl; try discriminate.
  - rewrite andb_true_iff. intros [H _] E. injection E as <-. eauto.
  - rewrite andb_true_iff. intros [_ H] E. eauto.
Qed.

Lemma elems_prefix_len c x : elems_prefix c x = true -> (length c <= length x)%nat.
Proof. intros H. now apply elems_prefix_spec in H. Qed.

(* hence no common prefix (with distinct key names) is longer than the result *)
Theorem find_prefix_longest p rest c :
  forallb nodup_pathb (p :: rest) = true -> nodup_pathb c = true ->
  (forall x, In x (p :: rest) -> elems_prefix c x = true) ->
  (length c <= length (find_prefix (p :: rest)))%nat.
Proof.
  intros Hnd Hc Hall.
  destruct (le_lt_dec (length c) (length (find_prefix (p :: rest)))) as [|Hlt]; auto.
  exfalso. destruct (find_prefix_maximal p rest) as [(x & Hin & Hl)|(x & ex & ep & Hin & Hx & Hp & Hne)].
  - apply Hall, elems_prefix_len in Hin. lia.
  - destruct (nth_error c (length (find_prefix (p :: rest)))) as [ec|] eqn:Ec;
      [|apply nth_error_None in Ec; lia].
    destruct (elems_prefix_nth _ _ _ _ (Hall x (or_intror Hin)) Ec) as (ex' & Hx' & E1).
    destruct (elems_prefix_nth _ _ _ _ (Hall p (or_introl eq_refl)) Ec) as (ep' & Hp' & E2).
    assert (ex' = ex) by congruence. assert (ep' = ep) by congruence. subst.
    assert (Hndc : nd ec).
    { apply nodup_pathb_Forall in Hc. rewrite Forall_forall in Hc.
      eapply Hc, nth_error_In; eauto. }
    assert (Hndx : nd ex).
    { rewrite forallb_forall in Hnd. specialize (Hnd x (or_intror Hin)).
      apply nodup_pathb_Forall in Hnd. rewrite Forall_forall in Hnd.
      eapply Hnd, nth_error_In; eauto. }
    apply elems_equal_sym in E1; auto.
    rewrite (elems_equal_trans _ _ _ E1 E2) in Hne. discriminate.
Qed.

Theorem find_prefix_spec p rest :
  forallb nodup_pathb (p :: rest) = true ->
  let r := find_prefix (p :: rest) in
  (forall x, In x (p :: rest) -> elems_prefix r x = true) /\
  r = firstn (length r) p /\
  ((exists x, In x (p :: rest) /\ length x = length r) \/
   (exists x ex ep, In x rest /\ nth_error x (length r) = Some ex /\
                    nth_error p (length r) = Some ep /\ elems_equal ex ep = false)).
Proof.
  intros H. split; [|split].
  - now apply find_prefix_common.
  - apply find_prefix_initial.
  - apply find_prefix_maximal.
Qed.
