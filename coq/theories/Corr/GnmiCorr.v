(* Correspondence checker for the gNMI-layer streams (gnmirt, nodeops, setreq).  The case file
   header defines sch, env, fo (as for TreeCorr) and ko (the key oracle tables). *)
From Ygot Require Import Tree.Tree Tree.Codec Tree.TreeOps Tree.Unmarshal Tree.KeyCodec Tree.Leaves
  Tree.Notif Tree.Node Tree.SetReq Path.PathRel Corr.TreeCorr.

(* ---------- equality of observations ---------- *)

Definition kv_eqb (a b : str * str) : bool := str_eqb (fst a) (fst b) && str_eqb (snd a) (snd b).
(* the harness prints key maps sorted by key name, the model builds them sorted *)
Definition pelem_eqb (a b : pelem) : bool := str_eqb (ename a) (ename b) && list_eqb kv_eqb (ekeys a) (ekeys b).
Definition dpath_eqb (a b : dpath) : bool := list_eqb pelem_eqb a b.

Fixpoint tval_eqb (a b : tval) {struct a} : bool :=
  match a, b with
  | TVString x, TVString y => str_eqb x y
  | TVInt x, TVInt y => (x =? y)%Z
  | TVUint x, TVUint y => (x =? y)%Z
  | TVBool x, TVBool y => Bool.eqb x y
  | TVBytes x, TVBytes y => list_eqb N.eqb x y
  | TVDouble x, TVDouble y => x =? y
  | TVFloat x, TVFloat y => x =? y
  | TVDecimal d p, TVDecimal d' p' => (d =? d')%Z && (p =? p')
  | TVLeafList l, TVLeafList l' =>
      (fix go (x y : list tval) : bool :=
         match x, y with
         | [], [] => true
         | p :: x', q :: y' => tval_eqb p q && go x' y'
         | _, _ => false
         end) l l'
  | TVJsonIetf x, TVJsonIetf y => json_eqb x y
  | TVJson x, TVJson y => json_eqb x y
  | TVAscii x, TVAscii y => str_eqb x y
  | TVNil, TVNil => true
  | _, _ => false
  end.

Definition update_eqb (a b : dpath * tval) : bool := dpath_eqb (fst a) (fst b) && tval_eqb (snd a) (snd b).

(* multiset-style comparison for outputs that Go produces in map iteration order *)
Definition same_elems {A} (eqb : A -> A -> bool) (a b : list A) : bool :=
  Nat.eqb (length a) (length b) &&
  forallb (fun x => existsb (eqb x) b) a && forallb (fun y => existsb (fun x => eqb x y) a) b.

(* a notification: the updates of an atomic one are ordered, the others are a set *)
Definition notif_eqb (a b : notif) : bool :=
  dpath_eqb (n_prefix a) (n_prefix b) && Bool.eqb (n_atomic a) (n_atomic b) &&
  (if n_atomic a then list_eqb update_eqb (n_updates a) (n_updates b)
   else same_elems update_eqb (n_updates a) (n_updates b)) &&
  same_elems dpath_eqb (n_deletes a) (n_deletes b).

(* the non-atomic notification comes first, the atomic ones follow in map iteration order *)
Definition notifs_eqb (a b : list notif) : bool := same_elems notif_eqb a b &&
  match a, b with
  | x :: _, y :: _ => Bool.eqb (n_atomic x) (n_atomic y)
  | _, _ => true
  end.

Definition otree_eqb (a b : option tree) : bool :=
  match a, b with
  | Some x, Some y => tree_eqb x y
  | None, None => true
  | _, _ => false
  end.
Definition gnode_eqb (a b : gnode) : bool := dpath_eqb (gn_path a) (gn_path b) && otree_eqb (gn_data a) (gn_data b).

Definition unit_eqb (_ _ : unit) : bool := true.

(* post-state: None = the harness does not ask for the comparison (see the stream) *)
Definition post_ok (model : tree) (obs : option tree) : bool :=
  match obs with Some t => tree_eqb model t | None => true end.

Definition out_of_sr (r : sr_out) : result unit :=
  match r with SROk => Ok tt | SRPanic => Panic | _ => Err end.

(* ---------- cases (ids are N: thorough runs have tens of thousands of cases) ---------- *)

Inductive gcase :=
(* TogNMINotifications(t, PathElemPrefix = pfx) *)
| GNotifs (id : N) (pfx : dpath) (t : tree) (out : result (list notif))
(* UnmarshalNotifications(ns) on root cur: outcome, tree afterwards *)
| GUnmarshalNotifs (id : N) (o : sr_opts) (cur : tree) (ns : list notif) (out : sr_out) (post : option tree)
(* GetNode *)
| GGet (id : N) (o : get_opts) (t : tree) (p : dpath) (out : result (list gnode))
(* SetNode *)
| GSet (id : N) (o : set_opts) (t : tree) (p : dpath) (v : tval) (out : result unit) (post : option tree)
(* DeleteNode *)
| GDel (id : N) (shadow : bool) (t : tree) (p : dpath) (out : result unit) (post : option tree)
(* ygot.KeyValueAsString *)
| GKeyStr (id : N) (v : scalar) (out : result str)
(* the key leaf of the entry created by SetNode(InitMissingElements) for key string s of a list
   whose (single) key has type ty: stringToKeyType *)
| GStrKey (id : N) (ty : ytype) (s : str) (out : result scalar)
(* ytypes.StringToType on the Go type of a key of YANG type ty *)
| GStrGoType (id : N) (ty : ytype) (s : str) (out : result scalar)
(* UnmarshalSetRequest *)
| GSetReq (id : N) (o : sr_opts) (cur : tree) (r : sreq) (out : sr_out) (post : option tree).

Section Check.
  Variable sch : schema.
  Variable env : enum_env.
  Variable fo : float_oracle.
  Variable ko : key_oracle.

  Definition gcase_ok (c : gcase) : bool :=
    match c with
    | GNotifs _ pfx t out => result_eqb notifs_eqb (to_notifs env ko pfx sch t) out
    | GUnmarshalNotifs _ o cur ns out post =>
        let '(t', r) := unmarshal_notifs env fo ko sch o cur ns in
        sr_out_eqb r out && post_ok t' post
    | GGet _ o t p out => result_eqb (same_elems gnode_eqb) (get_node env fo ko o sch t p) out
    | GSet _ o t p v out post =>
        let '(t', r) := set_node_st env fo ko o v sch t p in
        result_eqb unit_eqb r out && post_ok t' post
    | GDel _ sh t p out post =>
        let '(t', r) := delete_node_st env fo ko sh sch t p in
        result_eqb unit_eqb r out && post_ok t' post
    | GKeyStr _ v out => result_eqb str_eqb (key_to_string env ko v) out
    | GStrKey _ ty s out =>
        (* observed through SetNode: a NaN key is inserted but not found again (Node.nan_key) *)
        result_eqb scalar_eqb
          (match string_to_key env fo ko ty s with
           | Ok v => if nan_key v then Panic else Ok v
           | r => r
           end) out
    | GStrGoType _ ty s out => result_eqb scalar_eqb (string_to_gotype env ty s) out
    | GSetReq _ o cur r out post =>
        let '(t', ro) := unmarshal_setrequest env fo ko sch o cur r in
        sr_out_eqb ro out && post_ok t' post
    end.

  Definition gcase_id (c : gcase) : N :=
    match c with
    | GNotifs i _ _ _ | GUnmarshalNotifs i _ _ _ _ _ | GGet i _ _ _ _ | GSet i _ _ _ _ _ _
    | GDel i _ _ _ _ _ | GKeyStr i _ _ | GStrKey i _ _ _ | GStrGoType i _ _ _ | GSetReq i _ _ _ _ _ => i
    end.

  Definition gmismatches (cs : list gcase) : list N :=
    map gcase_id (filter (fun c => negb (gcase_ok c)) cs).
End Check.
