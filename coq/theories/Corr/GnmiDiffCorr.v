(* Correspondence checker for the gdiff and gdiffnotifs streams: the harness writes SetRequests
   (and notifications) in the model's AST together with what gnmidiff.DiffSetRequest(a, b, nil)
   and gnmidiff.DiffSetRequestToNotifications(r, ns, nil) returned (error / panic / the diff as
   lists sorted by path string, values as decoded JSON); `gd_mismatches` re-computes them.
   When one JSON update contains both an entry that makes writeUpdate return an error and one
   that makes it panic, Go's map iteration order decides which happens first; the model's two
   schedules (prio = true / false) are exactly the two possible outcomes, and the observation
   has to equal one of them (for every other input the two coincide). *)
From Ygot Require Import Base.Base Path.PathString Tree.Tree Diffs.GnmiDiff.

Fixpoint gd_list_eqb {A} (eqb : A -> A -> bool) (a b : list A) : bool :=
  match a, b with
  | [], [] => true
  | x :: a', y :: b' => eqb x y && gd_list_eqb eqb a' b'
  | _, _ => false
  end.
Definition gd_result_eqb {A} (eqb : A -> A -> bool) (a b : result A) : bool :=
  match a, b with
  | Ok x, Ok y => eqb x y
  | Err, Err => true
  | Panic, Panic => true
  | _, _ => false
  end.

Definition gd_kv_eqb (a b : str * json) : bool := str_eqb (fst a) (fst b) && gd_json_eqb (snd a) (snd b).
Definition gd_mm_eqb (a b : str * (json * json)) : bool :=
  str_eqb (fst a) (fst b) && gd_json_eqb (fst (snd a)) (fst (snd b)) && gd_json_eqb (snd (snd a)) (snd (snd b)).

Definition gd_diff_eqb (x y : gd_diff) : bool :=
  gd_list_eqb str_eqb (d_mdel x) (d_mdel y) && gd_list_eqb str_eqb (d_edel x) (d_edel y) &&
  gd_list_eqb str_eqb (d_cdel x) (d_cdel y) &&
  gd_list_eqb gd_kv_eqb (d_mupd x) (d_mupd y) && gd_list_eqb gd_kv_eqb (d_eupd x) (d_eupd y) &&
  gd_list_eqb gd_kv_eqb (d_cupd x) (d_cupd y) && gd_list_eqb gd_mm_eqb (d_mism x) (d_mism y).

Definition gd_sdiff_eqb (x y : gd_sdiff) : bool :=
  gd_list_eqb gd_kv_eqb (sd_missing x) (sd_missing y) && gd_list_eqb gd_kv_eqb (sd_extra x) (sd_extra y) &&
  gd_list_eqb gd_kv_eqb (sd_common x) (sd_common y) && gd_list_eqb gd_mm_eqb (sd_mism x) (sd_mism y).

Inductive gcase :=
| GDiff (id : nat) (a b : setreq) (obs : result gd_diff)
| GNotifs (id : nat) (r : setreq) (ns : list notif) (obs : result gd_sdiff).

Definition gcase_ok (cfg : gd_cfg) (fo : gd_oracle) (c : gcase) : bool :=
  match c with
  | GDiff _ a b obs =>
      gd_result_eqb gd_diff_eqb (gd_diff_set_request_p cfg fo true a b) obs ||
      gd_result_eqb gd_diff_eqb (gd_diff_set_request_p cfg fo false a b) obs
  | GNotifs _ r ns obs =>
      gd_result_eqb gd_sdiff_eqb (gd_diff_set_to_notifs_p cfg fo true r ns) obs ||
      gd_result_eqb gd_sdiff_eqb (gd_diff_set_to_notifs_p cfg fo false r ns) obs
  end.
Definition gcase_id (c : gcase) : nat := match c with GDiff i _ _ _ | GNotifs i _ _ _ => i end.

Definition gd_mismatches_cfg (cfg : gd_cfg) (fo : gd_oracle) (cs : list gcase) : list nat :=
  map gcase_id (filter (fun c => negb (gcase_ok cfg fo c)) cs).

(* the case files are checked against the configuration that describes /repo (GnmiDiff.gd_cfg_repo) *)
Definition gd_mismatches := gd_mismatches_cfg gd_cfg_repo.
