(* Correspondence checker for the stream leafrefp (C30, leafref paths with key predicates).
   The harness (vd_leafrefp.go) defines `sch`, `env`, `fo`, the side table `lrt : lrptab`, the key
   oracle `ko` and `lrfix` (is the repair of leafrefErrOrLog present in the code under test) in the
   header of every case file. *)
From Ygot Require Import Tree.Tree Tree.Codec Tree.TreeOps Tree.KeyCodec Tree.Validate Tree.Defaults Tree.Leafref Tree.LeafrefPred.

Definition lpcls_eqb (a b : lpcls) : bool :=
  match a, b with
  | PDangling, PDangling | PNoParent, PNoParent | PPanic, PPanic | PMalformed, PMalformed
  | POperandMulti, POperandMulti | PGetNode, PGetNode => true
  | _, _ => false
  end.
Definition lperr_eqb (a b : lperr) : bool := str_eqb (fst a) (fst b) && lpcls_eqb (snd a) (snd b).

(* multisets *)
Definition count_by {A} (eqb : A -> A -> bool) (x : A) (l : list A) : nat := length (filter (eqb x) l).
Definition ms_incl {A} (eqb : A -> A -> bool) (a b : list A) : bool :=
  forallb (fun x => Nat.leb (count_by eqb x a) (count_by eqb x b)) a.
Definition ms_eq {A} (eqb : A -> A -> bool) (a b : list A) : bool := ms_incl eqb a b && ms_incl eqb b a.

(* only the messages of the dangling class name the field ("field name F value ..." / "from field F value ...") *)
Definition norm_err (e : lperr) : lperr := match snd e with PDangling => e | c => ([], c) end.

(* obs: the leafref errors Validate (called as `mode` says) returned, classified, in any order *)
Inductive lpcase :=
| LPCheck (id : nat) (mode : lrmode) (t : tree) (obs : list lperr).

Section LPCheck.
  Variable lrfix : bool.
  Variable env : enum_env.
  Variable ko : key_oracle.
  Variable sch : schema.
  Variable lrt : lrptab.

  Definition lpcase_ok (c : lpcase) : bool :=
    match c with
    | LPCheck _ mode t obs =>
        let sfs0 := sfields sch in
        let fs0 := fields_of t in
        let leaves := all_lrp_leaves lrt fs0 in
        let regular := fun x => leaf_regular env ko sfs0 fs0 (ll_loc x) (ll_path x) && not_bin (ll_val x) in
        (* the model returns the same errors *)
        ms_eq lperr_eqb (map norm_err (validate_leafrefs_p env ko lrfix lrt sfs0 fs0 mode)) obs &&
        (* the denotation agrees with the real code on the leaves the exactness theorem covers: every
           regular leaf that is not satisfied is reported as dangling, and every dangling report is
           such a leaf or a leaf outside the guards *)
        (if reports lrfix mode then
           let obs_d := map fst (filter (fun e => lpcls_eqb (snd e) PDangling) obs) in
           let den_d := map ll_name (filter (fun x => regular x && negb (satisfied_p env ko sfs0 fs0 (ll_loc x) (ll_path x) (ll_val x))) leaves) in
           let irr := map ll_name (filter (fun x => negb (regular x)) leaves) in
           ms_incl str_eqb den_d obs_d && ms_incl str_eqb obs_d (den_d ++ irr)
         else true)
    end.
  Definition lpcase_id (c : lpcase) : nat := match c with LPCheck i _ _ _ => i end.
  Definition lpmismatches (l : list lpcase) : list nat := map lpcase_id (filter (fun c => negb (lpcase_ok c)) l).
End LPCheck.
