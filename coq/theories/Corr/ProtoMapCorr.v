(* Correspondence checker for the protomap stream (property C24).  The harness writes, for
   every case, the abstract message (descriptor + values, translated from the protobuf
   descriptor and the dynamic message) together with what the real PathsFromProto /
   ProtoFromPaths returned; `c24_mismatches` re-computes both with the model.
   Path maps are compared as multisets (Go map iteration order is arbitrary), paths with
   order-insensitive key comparison, rebuilt messages up to the order of keyed-list entries
   (createListField appends the entries in map iteration order). *)
From Ygot Require Import Base.Base Path.PathString Path.PathRel Diffs.ProtoMap.

Fixpoint leqb {A} (eqb : A -> A -> bool) (a b : list A) : bool :=
  match a, b with
  | [], [] => true
  | x :: a', y :: b' => eqb x y && leqb eqb a' b'
  | _, _ => false
  end.
Definition reseqb {A} (eqb : A -> A -> bool) (a b : result A) : bool :=
  match a, b with
  | Ok x, Ok y => eqb x y
  | Err, Err => true
  | Panic, Panic => true
  | _, _ => false
  end.

Fixpoint pv_eqb (a b : pval) {struct a} : bool :=
  match a, b with
  | PVString x, PVString y => str_eqb x y
  | PVUint64 x, PVUint64 y | PVUint x, PVUint y | PVUint32 x, PVUint32 y | PVEnumNum x, PVEnumNum y => x =? y
  | PVBytes x, PVBytes y => leqb N.eqb x y
  | PVBool x, PVBool y => Bool.eqb x y
  | PVInt64 x, PVInt64 y => Z.eqb x y
  | PVFloat, PVFloat | PVNil, PVNil => true
  | PVSlice x, PVSlice y =>
      (fix go (x y : list pval) {struct x} : bool :=
         match x, y with
         | [], [] => true
         | p :: x', q :: y' => pv_eqb p q && go x' y'
         | _, _ => false
         end) x y
  | PVStrings x, PVStrings y => leqb str_eqb x y
  | PVUint64s x, PVUint64s y => leqb N.eqb x y
  | PVBools x, PVBools y => leqb Bool.eqb x y
  | PVInt64s x, PVInt64s y => leqb Z.eqb x y
  | PVBytess x, PVBytess y => leqb (leqb N.eqb) x y
  | _, _ => false
  end.

Definition binding_eqb (a b : gpath * pval) : bool := path_eqb (fst a) (fst b) && pv_eqb (snd a) (snd b).

(* multiset equality *)
Fixpoint remove1 {A} (eqb : A -> A -> bool) (x : A) (l : list A) : option (list A) :=
  match l with
  | [] => None
  | y :: t => if eqb x y then Some t else option_map (cons y) (remove1 eqb x t)
  end.
Fixpoint mseteqb {A} (eqb : A -> A -> bool) (a b : list A) : bool :=
  match a with
  | [] => nil_b b
  | x :: a' => match remove1 eqb x b with Some b' => mseteqb eqb a' b' | None => false end
  end.

Definition wv_eqb (a b : wval) : bool :=
  match a, b with
  | WVString x, WVString y => str_eqb x y
  | WVUint x, WVUint y => x =? y
  | WVBytes x, WVBytes y => leqb N.eqb x y
  | WVBool x, WVBool y => Bool.eqb x y
  | WVInt x, WVInt y => Z.eqb x y
  | WVDecimal, WVDecimal => true
  | _, _ => false
  end.
Definition sv_eqb (a b : sval) : bool :=
  match a, b with
  | SVString x, SVString y => str_eqb x y
  | SVUint64 x, SVUint64 y | SVUint32 x, SVUint32 y | SVEnum x, SVEnum y => x =? y
  | SVBool x, SVBool y => Bool.eqb x y
  | SVFloat, SVFloat => true
  | _, _ => false
  end.
Definition osv_eqb (a b : option sval) : bool :=
  match a, b with
  | Some x, Some y => sv_eqb x y
  | None, None => true
  | _, _ => false
  end.

(* equality of messages up to the order of the entries of keyed lists: every entry of a has
   an entry of b with the same keys and an equivalent member, and the lengths agree (the
   rebuilt lists have pairwise distinct keys) *)
Fixpoint fv_eqv (a b : fval) {struct a} : bool :=
  match a, b with
  | VUnset, VUnset => true
  | VWrap x, VWrap y => wv_eqb x y
  | VScalar x, VScalar y => sv_eqb x y
  | VLeafList x, VLeafList y => leqb wv_eqb x y
  | VUnion x, VUnion y => leqb (leqb (fun p q => Nat.eqb (fst p) (fst q) && sv_eqb (snd p) (snd q))) x y
  | VMsg x, VMsg y =>
      (fix go (x y : list fval) {struct x} : bool :=
         match x, y with
         | [], [] => true
         | p :: x', q :: y' => fv_eqv p q && go x' y'
         | _, _ => false
         end) x y
  | VList x, VList y =>
      Nat.eqb (length x) (length y) &&
      (fix all (x : list (list (option sval) * option (list fval))) : bool :=
         match x with
         | [] => true
         | (ks, mem) :: x' =>
             existsb (fun e =>
                 leqb osv_eqb ks (fst e) &&
                 match mem, snd e with
                 | None, None => true
                 | Some m, Some m' =>
                     (fix go (x y : list fval) {struct x} : bool :=
                        match x, y with
                        | [], [] => true
                        | p :: x', q :: y' => fv_eqv p q && go x' y'
                        | _, _ => false
                        end) m m'
                 | _, _ => false
                 end) y && all x'
         end) x
  | _, _ => false
  end.
Definition msg_eqv (a b : msg) : bool := fv_eqv (VMsg a) (VMsg b).

(* short constructor used by the generated case files *)
Definition E (n : str) (k : list (str * str)) : pelem := {| ename := n; ekeys := k |}.

Inductive c24case :=
| CPaths (id : nat) (ds : list fdesc) (m : msg) (paths : result pvals)
| CRound (id : nat) (fx : fixes) (ds : list fdesc) (m : msg) (pp : gpath)
         (paths : result pvals) (rt : result msg)
| CFrom (id : nat) (fx : fixes) (ds : list fdesc) (vals : pvals) (vp pp : gpath) (ig : bool)
        (out : result msg).

Definition c24case_ok (c : c24case) : bool :=
  match c with
  | CPaths _ ds m paths => reseqb (mseteqb binding_eqb) (paths_from_proto ds m) paths
  | CRound _ fx ds m pp paths rt =>
      reseqb (mseteqb binding_eqb) (paths_from_proto ds m) paths &&
      match paths with
      | Ok vals => reseqb msg_eqv (proto_from_paths fx ds vals [] pp false) rt
      | _ => true
      end &&
      (* an instance of theorem C24.c24_roundtrip_partial, evaluated on the real outcome: in the
         domain and inside the guard the implementation must have rebuilt the message *)
      (negb (nil_b pp && wf_fields [] ds && supp_msg 0 ds m && guard_msg fx false ds m) ||
       match rt with Ok m' => msg_eqv m' m | _ => false end)
  | CFrom _ fx ds vals vp pp ig out =>
      reseqb msg_eqv (proto_from_paths fx ds vals vp pp ig) out
  end.
Definition c24case_id (c : c24case) : nat :=
  match c with CPaths i _ _ _ | CRound i _ _ _ _ _ _ | CFrom i _ _ _ _ _ _ _ => i end.

Definition c24_mismatches (cs : list c24case) : list nat :=
  map c24case_id (filter (fun c => negb (c24case_ok c)) cs).
