(* Correspondence checker for the pathstr stream: the harness writes the inputs together
   with what the Go implementation returned; `mismatches` re-computes every output with the
   model and lists the ids of the cases that differ. *)
From Ygot Require Import Base.Base Path.PathString.

Fixpoint list_eqb {A} (eqb : A -> A -> bool) (a b : list A) : bool :=
  match a, b with
  | [], [] => true
  | x :: a', y :: b' => eqb x y && list_eqb eqb a' b'
  | _, _ => false
  end.
Definition result_eqb {A} (eqb : A -> A -> bool) (a b : result A) : bool :=
  match a, b with
  | Ok x, Ok y => eqb x y
  | Err, Err => true
  | Panic, Panic => true
  | _, _ => false
  end.
Definition kv_eqb (a b : str * str) : bool := str_eqb (fst a) (fst b) && str_eqb (snd a) (snd b).
Definition pelem_eqb (a b : pelem) : bool :=
  str_eqb (ename a) (ename b) && list_eqb kv_eqb (ekeys a) (ekeys b).
Definition gpath_eqb := list_eqb pelem_eqb.

Inductive pcase :=
| PPrint (id : nat) (p : gpath) (out : result str) (strs : result (list str))
| PParse (id : nat) (s : str) (out : result gpath) (slice : result (list str)).

Definition pcase_ok (c : pcase) : bool :=
  match c with
  | PPrint _ p out strs =>
      result_eqb str_eqb (path_str p) out && result_eqb (list_eqb str_eqb) (path_strs p) strs
  | PParse _ s out slice =>
      result_eqb gpath_eqb (parse_path s) out && result_eqb (list_eqb str_eqb) (parse_slice s) slice
  end.
Definition pcase_id (c : pcase) : nat := match c with PPrint i _ _ _ | PParse i _ _ _ => i end.

Definition mismatches (cs : list pcase) : list nat :=
  map pcase_id (filter (fun c => negb (pcase_ok c)) cs).
