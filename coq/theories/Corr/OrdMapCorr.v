(* Correspondence checker for the `ordmap` stream (C15).  The harness drives the generated
   ordered map of every `ordered-by user` list through a sequence of method calls and writes,
   per call, the operation (keys abstracted to indices into the key domain of the list, entry
   pointers to small ids), what the call returned, and the content of the ordered map after the
   call as seen through Keys()/Values().  `mismatches` replays the sequence with the model of
   Gen/OrderedMap.v instantiated at K := N and lists the ids of the cases that differ.

   An entry is abstracted to (key, id): key = Some i when its key fields hold the i-th key of
   the domain, None when a pointer-typed key field is nil; id names the Go pointer.
   The case terms use the monomorphic types om_e/om_o/om_r/om_d below (cheap to parse); they
   are translated to the model's polymorphic types before the comparison. *)
From Ygot Require Import Base.Base Gen.GoMap Gen.OrderedMap.

Definition om_cV := (option N * N)%type.
Definition om_keyof (v : om_cV) : option N := fst v.
Definition om_mk (k t : N) : om_cV := (Some k, t).

Definition om_op := oop N om_cV N.
Definition om_out := oout N om_cV.
(* None: the parent's field is nil; Some l: Keys() zipped with Values() *)
Definition om_dump := option (list (N * option om_cV)).

(* ---- the term language of the case files ---- *)
Inductive om_e :=
| E (k id : N)        (* non-nil entry whose key fields hold key k *)
| EN (id : N)         (* non-nil entry with a nil key field *)
| ENil.               (* nil entry pointer *)
Inductive om_o :=
| XAppend (e : om_e) | XAppendNew (k t : N) | XDelete (k : N) | XGet (k : N) | XKeys | XValues | XLen
| YMap | YAppendNew (k t : N) | YAppend (e : om_e) | YGet (k : N) | YDelete (k : N).
Inductive om_r :=
| RErr | ROk | REnt (e : om_e) | RBool (b : bool)
| RKeysNil | RKeys (l : list N) | RValsNil | RVals (l : list om_e) | RLen (n : N).
Inductive om_b :=
| B (k : N) (e : om_e)
| S (k id : N).                          (* = B k (E k id): the entry carries the key it is stored under *)
Inductive om_d :=
| DNil | D (l : list om_b)
| DSame.                                 (* the same content as after the previous call *)

Definition om_e_val (e : om_e) : option om_cV :=
  match e with E k id => Some (Some k, id) | EN id => Some (None, id) | ENil => None end.
Definition om_o_val (o : om_o) : om_op :=
  match o with
  | XAppend e => OAppend (om_e_val e) | XAppendNew k t => OAppendNew k t | XDelete k => ODelete k
  | XGet k => OGet k | XKeys => OKeys | XValues => OValues | XLen => OLen
  | YMap => PGetOrCreateMap | YAppendNew k t => PAppendNew k t | YAppend e => PAppend (om_e_val e)
  | YGet k => PGet k | YDelete k => PDelete k
  end.
Definition om_r_val (r : om_r) : om_out :=
  match r with
  | RErr => OErr | ROk => OOk | REnt e => OEntry (om_e_val e) | RBool b => OBool b
  | RKeysNil => OKeyList None | RKeys l => OKeyList (Some l)
  | RValsNil => OValList None | RVals l => OValList (Some (map om_e_val l))
  | RLen n => OLenN (N.to_nat n)
  end.
Definition om_d_val (prev : om_dump) (d : om_d) : om_dump :=
  match d with
  | DNil => None
  | D l => Some (map (fun b => match b with B k e => (k, om_e_val e) | S k id => (k, Some (Some k, id)) end) l)
  | DSame => prev
  end.

(* ---- comparison ---- *)
Definition om_opt_eqb {A} (eqb : A -> A -> bool) (a b : option A) : bool :=
  match a, b with Some x, Some y => eqb x y | None, None => true | _, _ => false end.
Fixpoint om_list_eqb {A} (eqb : A -> A -> bool) (a b : list A) : bool :=
  match a, b with
  | [], [] => true
  | x :: a', y :: b' => eqb x y && om_list_eqb eqb a' b'
  | _, _ => false
  end.
Definition om_cV_eqb (a b : om_cV) : bool := om_opt_eqb N.eqb (fst a) (fst b) && N.eqb (snd a) (snd b).

Definition om_out_eqb (a b : om_out) : bool :=
  match a, b with
  | OErr, OErr => true
  | OOk, OOk => true
  | OEntry x, OEntry y => om_opt_eqb om_cV_eqb x y
  | OBool x, OBool y => Bool.eqb x y
  | OKeyList x, OKeyList y => om_opt_eqb (om_list_eqb N.eqb) x y
  | OValList x, OValList y => om_opt_eqb (om_list_eqb (om_opt_eqb om_cV_eqb)) x y
  | OLenN x, OLenN y => Nat.eqb x y
  | _, _ => false
  end.

Definition om_dump_of (s : ostate N om_cV) : om_dump :=
  option_map (fun m => map (fun k => (k, gm_get N.eqb k (om_vmap m))) (om_keys m)) s.
Definition om_dump_eqb : om_dump -> om_dump -> bool :=
  om_opt_eqb (om_list_eqb (fun a b => N.eqb (fst a) (fst b) && om_opt_eqb om_cV_eqb (snd a) (snd b))).

Inductive om_obs := OS (op : om_o) (out : om_r) (dump : om_d).
Inductive om_case := OCase (id : nat) (steps : list om_obs).

Definition om_step := ostep N om_cV N N.eqb om_keyof om_mk.

Fixpoint om_check (s : ostate N om_cV) (prev : om_dump) (steps : list om_obs) : bool :=
  match steps with
  | [] => true
  | OS op out dump :: r =>
      let (s', o) := om_step s (om_o_val op) in
      let d := om_d_val prev dump in
      om_out_eqb o (om_r_val out) && om_dump_eqb (om_dump_of s') d && om_check s' d r
  end.

Definition om_case_ok (c : om_case) : bool := match c with OCase _ steps => om_check None None steps end.
Definition om_case_id (c : om_case) : nat := match c with OCase i _ => i end.

Definition mismatches (cs : list om_case) : list nat :=
  map om_case_id (filter (fun c => negb (om_case_ok c)) cs).
