(* Checker addition for the stream gnmirt: on every generated tree that the guard gn_treeb_ord
   of Tree/GnmiRtOrd.v accepts (ordered lists in the OpenConfig shape included), the model's
   TogNMINotifications must succeed and the model's UnmarshalNotifications of the result into an
   empty root must give back the tree (the conclusion of C02.c02_roundtrip_ordered, evaluated);
   a case where the guard holds and the conclusion fails is reported like a mismatch.
   gord_stats counts the accepted trees and those among them with an atomic notification. *)
From Ygot Require Import Tree.Tree Tree.Codec Tree.TreeOps Tree.Unmarshal Tree.RoundTrip Tree.KeyCodec Tree.Leaves
  Tree.Notif Tree.Node Tree.SetReq Path.PathRel Corr.TreeCorr Corr.GnmiCorr.
From Ygot Require Import Tree.KeyCodecProofs Tree.NodeStepProofs Tree.GnmiRt Tree.GnmiRtOrd.

Section Check.
  Variable sch : schema.
  Variable env : enum_env.
  Variable fo : float_oracle.
  Variable ko : key_oracle.

  Definition gord_guard (c : gcase) : bool :=
    match c with
    | GNotifs _ pfx t _ => wf_envb env && gn_treeb_ord env fo ko sch t && prefix_okb pfx
    | _ => false
    end.

  Definition gord_concl (c : gcase) : bool :=
    match c with
    | GNotifs _ pfx t _ =>
        match to_notifs env ko pfx sch t with
        | Ok ns =>
            let '(t', r) := unmarshal_notifs env fo ko sch rt_sropts (TCont []) (map (strip_notif pfx) ns) in
            sr_out_eqb r SROk && tree_eqb t' t
        | _ => false
        end
    | _ => true
    end.

  Definition gord_ok (c : gcase) : bool := if gord_guard c then gord_concl c else true.

  Definition gord_has_atomic (c : gcase) : bool :=
    match c with
    | GNotifs _ pfx t _ => match to_notifs env ko pfx sch t with Ok ns => existsb n_atomic ns | _ => false end
    | _ => false
    end.

  (* (trees inside the guard, of which with an ordered list) *)
  Definition gord_stats (cs : list gcase) : N * N :=
    (N.of_nat (length (filter gord_guard cs)),
     N.of_nat (length (filter (fun c => gord_guard c && gord_has_atomic c) cs))).

  (* the correspondence mismatches, then the cases that contradict the theorem *)
  Definition gmismatches_ord (cs : list gcase) : list N :=
    gmismatches sch env fo ko cs ++ map gcase_id (filter (fun c => negb (gord_ok c)) cs).
End Check.
