(* Correspondence checker for the tree-layer streams (jsonrt, ...). The harness defines
   `sch`, `env`, `fo` in the header of every case file (regenerated from the generated Go
   package on every run by the schema translator) and lists cases with observed outputs. *)
From Ygot Require Import Tree.Tree Tree.Codec Tree.Render Tree.TreeOps Tree.Unmarshal.

Definition result_eqb {A} (eqb : A -> A -> bool) (a b : result A) : bool :=
  match a, b with
  | Ok x, Ok y => eqb x y
  | Err, Err => true
  | Panic, Panic => true
  | _, _ => false
  end.

Fixpoint tree_eqb (a b : tree) {struct a} : bool :=
  match a, b with
  | TLeaf v, TLeaf w => scalar_eqb v w
  | TLeafList vs, TLeafList ws => list_eqb scalar_eqb vs ws
  | TCont fs, TCont gs =>
      (fix go (x y : list (str * tree)) : bool :=
         match x, y with
         | [], [] => true
         | (n, t) :: x', (m, u) :: y' => str_eqb n m && tree_eqb t u && go x' y'
         | _, _ => false
         end) fs gs
  | TList es, TList fs =>
      (fix go (x y : list (list scalar * tree)) : bool :=
         match x, y with
         | [], [] => true
         | (k, t) :: x', (l, u) :: y' => keys_eqb k l && tree_eqb t u && go x' y'
         | _, _ => false
         end) es fs
  | TUnkeyed es, TUnkeyed fs =>
      (fix go (x y : list tree) : bool :=
         match x, y with
         | [], [] => true
         | t :: x', u :: y' => tree_eqb t u && go x' y'
         | _, _ => false
         end) es fs
  | _, _ => false
  end.

(* model JSON vs implementation JSON; a model array tagged JSET_TAG is compared as a set *)
Fixpoint json_match (m i : json) {struct m} : bool :=
  match m, i with
  | JNull, JNull => true
  | JBool x, JBool y => Bool.eqb x y
  | JNum a e, JNum a' e' => (a =? a')%Z && (e =? e')%Z
  | JStr s, JStr s' => str_eqb s s'
  | JArr (JStr tag :: ms), JArr is_ =>
      if str_eqb tag JSET_TAG then
        Nat.eqb (length ms) (length is_) &&
        (fix all (x : list json) : bool :=
           match x with
           | [] => true
           | p :: x' => existsb (json_match p) is_ && all x'
           end) ms
      else
        match is_ with
        | q :: is' => (match q with JStr t' => str_eqb tag t' | _ => false end) &&
            (fix go (x y : list json) : bool :=
               match x, y with
               | [], [] => true
               | p :: x', q :: y' => json_match p q && go x' y'
               | _, _ => false
               end) ms is'
        | [] => false
        end
  | JArr ms, JArr is_ =>
      (fix go (x y : list json) : bool :=
         match x, y with
         | [], [] => true
         | p :: x', q :: y' => json_match p q && go x' y'
         | _, _ => false
         end) ms is_
  | JObj mm, JObj im =>
      (fix go (x y : list (str * json)) : bool :=
         match x, y with
         | [], [] => true
         | (k, p) :: x', (k', q) :: y' => str_eqb k k' && json_match p q && go x' y'
         | _, _ => false
         end) mm im
  | _, _ => false
  end.

Inductive tcase :=
| JRender (id : nat) (cfg : jcfg) (t : tree) (out : result json)
| JUnmarshal (id : nat) (o : uopts) (cur : tree) (j : json) (out : result tree).

Section Check.
  Variable sch : schema.
  Variable env : enum_env.
  Variable fo : float_oracle.

  Definition tcase_ok (c : tcase) : bool :=
    match c with
    | JRender _ cfg t out =>
        match render env fo cfg sch t, out with
        | Ok m, Ok i => json_match m i
        | Err, Err => true
        | Panic, Panic => true
        | _, _ => false
        end
    | JUnmarshal _ o cur j out => result_eqb tree_eqb (unmarshal env fo o sch cur j) out
    end.
  Definition tcase_id (c : tcase) : nat := match c with JRender i _ _ _ | JUnmarshal i _ _ _ _ => i end.
  Definition tmismatches (cs : list tcase) : list nat :=
    map tcase_id (filter (fun c => negb (tcase_ok c)) cs).
End Check.
