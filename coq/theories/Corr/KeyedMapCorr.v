(* Correspondence checker for the `keyedmap` stream (C34).  The harness drives the generated
   New/GetOrCreate/Get/Append/Delete/Rename helpers of every keyed list through a sequence of
   calls and writes, per call, the operation (keys abstracted to indices into the key domain
   of the list, entry pointers to small ids), what the call returned, and the content of the Go
   map after the call (sorted by key index).  `mismatches` replays the sequence with the model
   of Gen/KeyedMap.v instantiated at K := N and lists the ids of the cases that differ.

   An entry is abstracted to (key, id): key = Some i when its key fields hold the i-th key of
   the domain, None when a pointer-typed key field is nil; id names the Go pointer.
   The case terms use the monomorphic types km_e/km_o/km_r/km_d below (cheap to parse); they
   are translated to the model's polymorphic types before the comparison. *)
From Ygot Require Import Base.Base Gen.GoMap Gen.KeyedMap.

Definition km_cV := (option N * N)%type.
Definition km_keyof (v : km_cV) : option N := fst v.
Definition km_setkey (k : N) (v : km_cV) : km_cV := (Some k, snd v).
Definition km_mk (k t : N) : km_cV := (Some k, t).

Definition km_op := kop N km_cV N.
Definition km_out := kout km_cV.
(* None: the field is a nil map; Some l: the bindings sorted by key index *)
Definition km_dump := option (list (N * km_cV)).

(* ---- the term language of the case files ---- *)
Inductive km_e :=
| E (k id : N)        (* entry whose key fields hold key k *)
| EN (id : N).        (* entry with a nil key field *)
Inductive km_o :=
| XNew (k t : N) | XGoc (k t : N) | XGet (k : N) | XApp (e : km_e) | XAppNil
| XDel (k : N) | XRen (o n : N) | XMap.
Inductive km_r := ROk | RErr | RPanic | REnt (e : km_e).      (* ROk: nil error / nil entry *)
Inductive km_b :=
| B (k : N) (e : km_e)
| S (k id : N).                          (* = B k (E k id): the entry carries the key it is stored under *)
Inductive km_d :=
| DNil | D (l : list km_b)
| DSame.                                 (* the same content as after the previous call *)

Definition km_e_val (e : km_e) : km_cV := match e with E k id => (Some k, id) | EN id => (None, id) end.
Definition km_o_val (o : km_o) : km_op :=
  match o with
  | XNew k t => KNew k t | XGoc k t => KGetOrCreate k t | XGet k => KGet k
  | XApp e => KAppend (Some (km_e_val e)) | XAppNil => KAppend None
  | XDel k => KDelete k | XRen o n => KRename o n | XMap => KGetOrCreateMap
  end.
Definition km_r_val (r : km_r) : km_out :=
  match r with ROk => Ok None | RErr => Err | RPanic => Panic | REnt e => Ok (Some (km_e_val e)) end.
Definition km_d_val (prev : km_dump) (d : km_d) : km_dump :=
  match d with
  | DNil => None
  | D l => Some (map (fun b => match b with B k e => (k, km_e_val e) | S k id => (k, (Some k, id)) end) l)
  | DSame => prev
  end.

(* ---- comparison ---- *)
Definition km_opt_eqb {A} (eqb : A -> A -> bool) (a b : option A) : bool :=
  match a, b with Some x, Some y => eqb x y | None, None => true | _, _ => false end.
Fixpoint km_list_eqb {A} (eqb : A -> A -> bool) (a b : list A) : bool :=
  match a, b with
  | [], [] => true
  | x :: a', y :: b' => eqb x y && km_list_eqb eqb a' b'
  | _, _ => false
  end.
Definition km_cV_eqb (a b : km_cV) : bool := km_opt_eqb N.eqb (fst a) (fst b) && N.eqb (snd a) (snd b).
Definition km_out_eqb (a b : km_out) : bool :=
  match a, b with
  | Ok x, Ok y => km_opt_eqb km_cV_eqb x y
  | Err, Err => true
  | Panic, Panic => true
  | _, _ => false
  end.

Fixpoint km_insert (b : N * km_cV) (l : list (N * km_cV)) : list (N * km_cV) :=
  match l with
  | [] => [b]
  | c :: t => if N.leb (fst b) (fst c) then b :: l else c :: km_insert b t
  end.
Definition km_sort (l : list (N * km_cV)) : list (N * km_cV) := fold_right km_insert [] l.

Definition km_dump_of (s : kstate N km_cV) : km_dump := option_map km_sort s.
Definition km_dump_eqb : km_dump -> km_dump -> bool :=
  km_opt_eqb (km_list_eqb (fun a b => N.eqb (fst a) (fst b) && km_cV_eqb (snd a) (snd b))).

Inductive km_obs := KS (op : km_o) (out : km_r) (dump : km_d).
Inductive km_case := KCase (id : nat) (steps : list km_obs).

Definition km_step := kstep N km_cV N N.eqb km_keyof km_setkey km_mk.

Fixpoint km_check (s : kstate N km_cV) (prev : km_dump) (steps : list km_obs) : bool :=
  match steps with
  | [] => true
  | KS op out dump :: r =>
      let (s', o) := km_step s (km_o_val op) in
      let d := km_d_val prev dump in
      km_out_eqb o (km_r_val out) && km_dump_eqb (km_dump_of s') d && km_check s' d r
  end.

Definition km_case_ok (c : km_case) : bool := match c with KCase _ steps => km_check None None steps end.
Definition km_case_id (c : km_case) : nat := match c with KCase i _ => i end.

Definition mismatches (cs : list km_case) : list nat :=
  map km_case_id (filter (fun c => negb (km_case_ok c)) cs).
