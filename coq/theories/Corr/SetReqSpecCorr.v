(* SetReqSpecCorr.v — the declarative gNMI Set spec (Tree/SetReqSpec.v) evaluated on the case
   files of the gNMI streams (nodeops: GSet / GDel, setreq and setreqkeys: GSetReq).  This is a
   TEST of the two premises of C13.c13_refines_scalar_schema (c13_delete_premise,
   c13_set_premise) and of its conclusion on generated inputs, not a proof of them: for every
   case inside the guards, the leaves of the tree after the (model) operation are compared with
   spec_delete / spec_update / spec_set of the leaves before, and the invariant is re-checked.
   (The model's outputs are tied to the implementation by GnmiCorr.gmismatches on the same cases.)

   In a case file:  Definition S := Eval vm_compute in spec_tally sch env fo ko cases.
   expect the last component (violations) to be []. *)
From Ygot Require Import Tree.Tree Tree.Codec Tree.TreeOps Tree.Unmarshal Tree.KeyCodec Tree.Leaves
  Tree.Notif Tree.Node Tree.SetReq Tree.GnmiStatements Tree.SetReqSpec Path.PathRel Corr.TreeCorr Corr.GnmiCorr.

Definition lval_eqb (a b : lval) : bool :=
  match a, b with
  | LV x, LV y => scalar_eqb x y
  | LVs x, LVs y => list_eqb scalar_eqb x y
  | _, _ => false
  end.
Definition pv_eqb (a b : dpath * lval) : bool := dpath_eqb (fst a) (fst b) && lval_eqb (snd a) (snd b).
(* set equality of leaf maps (lm_equiv, as a boolean) *)
Definition lm_eqb (a b : lmap) : bool :=
  forallb (fun x => existsb (pv_eqb x) b) a && forallb (fun y => existsb (fun x => pv_eqb x y) a) b.

Inductive spec_verdict :=
| SVOk                 (* inside the guards, operation OK, leaves as the spec says *)
| SVNotOk              (* the operation did not succeed / options outside the statement *)
| SVGuard              (* target or payload outside the guards *)
| SVInv                (* the tree before is not tree_ok, or `leaves` fails on it *)
| SVBad (why : N).     (* 1: invariant lost, 2: leaves differ from the spec, 3: `leaves` fails afterwards *)

Section Check.
  Variable sch : schema.
  Variable env : enum_env.
  Variable fo : float_oracle.
  Variable ko : key_oracle.

  Definition sc_sem : path_sem := schema_sem env fo ko sch.
  Definition sc_leaves (t : tree) : result lmap := leaves env ko false sch t [].
  Definition sc_inv (t : tree) : bool := tree_ok env fo ko loose_guard sch t.

  Definition sc_compare (t t' : tree) (f : lmap -> lmap) : spec_verdict :=
    match sc_leaves t with
    | Ok m =>
        if negb (sc_inv t') then SVBad 1
        else match sc_leaves t' with
             | Ok m' => if lm_eqb m' (f m) then SVOk else SVBad 2
             | _ => SVBad 3
             end
    | _ => SVInv
    end.

  Definition sc_req_guardb (r : sreq) : bool :=
    let pre := sr_prefix r in
    forallb (fun p => delete_guardb env fo ko sch (jelems pre p)) (sr_deletes r) &&
    forallb (fun u => delete_guardb env fo ko sch (jelems pre (fst u)) &&
                      update_guardb env fo ko sch (jelems pre (fst u)) (snd u)) (sr_replaces r) &&
    forallb (fun u => update_guardb env fo ko sch (jelems pre (fst u)) (snd u)) (sr_updates r).

  Definition spec_check (c : gcase) : spec_verdict :=
    match c with
    | GSet _ o t p v _ _ =>
        if s_shadow o || negb (s_init o) || s_tol_json o then SVNotOk else
        if negb (sc_inv t) then SVInv else
        if negb (update_guardb env fo ko sch p v) then SVGuard else
        match set_node_st env fo ko o v sch t p with
        | (t', Ok _) => sc_compare t t' (fun m => spec_update sc_sem m p v)
        | _ => SVNotOk
        end
    | GDel _ sh t p _ _ =>
        if sh then SVNotOk else
        if negb (sc_inv t) then SVInv else
        if negb (delete_guardb env fo ko sch p) then SVGuard else
        match delete_node_st env fo ko sh sch t p with
        | (t', Ok _) => sc_compare t t' (fun m => spec_delete sc_sem m p)
        | _ => SVNotOk
        end
    | GSetReq _ o t r _ _ =>
        if so_shadow o then SVNotOk else
        if negb (sc_inv t) then SVInv else
        if negb (sc_req_guardb r) then SVGuard else
        match unmarshal_setrequest env fo ko sch o t r with
        | (t', SROk) => sc_compare t t' (fun m => spec_set sc_sem m r)
        | _ => SVNotOk
        end
    | _ => SVNotOk
    end.

  (* (checked and as the spec says, not OK, outside the guards, tree not tree_ok, violations) *)
  Definition spec_tally (cs : list gcase) : N * N * N * N * list (N * spec_verdict) :=
    let vs := map (fun c => (gcase_id c, spec_check c)) cs in
    let cnt (f : spec_verdict -> bool) := N.of_nat (length (filter (fun v => f (snd v)) vs)) in
    (cnt (fun v => match v with SVOk => true | _ => false end),
     cnt (fun v => match v with SVNotOk => true | _ => false end),
     cnt (fun v => match v with SVGuard => true | _ => false end),
     cnt (fun v => match v with SVInv => true | _ => false end),
     filter (fun v => match snd v with SVBad _ => true | _ => false end) vs).

  Definition spec_mismatches (cs : list gcase) : list N :=
    map gcase_id (filter (fun c => match spec_check c with SVBad _ => true | _ => false end) cs).
End Check.
