(* Correspondence checker for the protowf stream (C28). The harness writes
   - HashCase: bytes and what hash/fnv's New32 returned for them;
   - TagCase: the bytes that protogen hashed (a schema path, a oneof member path, a base+identity
     name, or a random string) and the number protogen.fieldTag returned for them;
   - MsgCase / EnumCase: a top-level message / enum parsed from the generated .proto text together
     with the verdict of the Go well-formedness oracle on the same parsed descriptor;
   - ScopeCase: the symbols declared at the top level of one generated file and whether the Go
     oracle found them pairwise distinct.
   `mismatches` re-computes every output with the model and lists the ids of the cases that differ. *)
From Ygot Require Import Base.Base Gen.FieldTag Gen.ProtoWF.

Inductive c28case :=
| HashCase (id : N) (bs : bytes) (h : N)
| TagCase (id : N) (bs : bytes) (tag : N)
| MsgCase (id : N) (m : pmsg) (wf : bool)
| EnumCase (id : N) (e : penum) (wf : bool)
| ScopeCase (id : N) (names : list str) (nodup : bool).

Definition c28case_ok (c : c28case) : bool :=
  match c with
  | HashCase _ bs h => fnv1_32 bs =? h
  | TagCase _ bs tag =>
      match field_tag default_fuel bs with Some v => (v =? tag) && tag_value_okb v | None => false end
  | MsgCase _ m wf => Bool.eqb (msg_wf_b m) wf
  | EnumCase _ e wf => Bool.eqb (enum_wf_b e) wf
  | ScopeCase _ names nodup => Bool.eqb (str_nodupb names) nodup
  end.
Definition c28case_id (c : c28case) : N :=
  match c with HashCase i _ _ | TagCase i _ _ | MsgCase i _ _ | EnumCase i _ _ | ScopeCase i _ _ => i end.

(* ids are N (not nat): a thorough run numbers tens of thousands of cases *)
Definition mismatches (cs : list c28case) : list N :=
  map c28case_id (filter (fun c => negb (c28case_ok c)) cs).
