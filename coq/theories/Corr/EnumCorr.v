(* Correspondence checker for the enum stream (C17).  The harness defines `env` (the ΛEnum
   tables of one generated package, or the distinct tables of the flag matrix) in the header of
   every case file and lists inputs with the outputs the real ygot functions produced. *)
From Ygot Require Import Tree.Tree Tree.Codec Scalar.EnumTable.

Definition result_eqb {A} (eqb : A -> A -> bool) (a b : result A) : bool :=
  match a, b with
  | Ok x, Ok y => eqb x y
  | Err, Err => true
  | Panic, Panic => true
  | _, _ => false
  end.
Definition option_eqb {A} (eqb : A -> A -> bool) (a b : option A) : bool :=
  match a, b with
  | Some x, Some y => eqb x y
  | None, None => true
  | _, _ => false
  end.
Definition enumval_eqb (a b : enumval) : bool :=
  (ev_num a =? ev_num b)%Z && str_eqb (ev_name a) (ev_name b) && str_eqb (ev_mod a) (ev_mod b).

Inductive ecase :=
(* ygot.EnumName, EnumLogString (= the generated String method; None = out-of-range text),
   KeyValueAsString, EncodeTypedValue's string_val *)
| EName (id : nat) (ty : str) (n : Z) (name : result str) (logs : result (option str))
        (key : result str) (tv : result str)
(* a struct field of the enum type holding n: the member in ConstructIETFJSON's output
   (PrependModuleNameIdentityref = pmi) and the update of TogNMINotifications *)
| ELeaf (id : nat) (ty : str) (n : Z) (pmi : bool) (json gnmi : result (option str))
(* a union field holding the enum value (wrapper = the package uses wrapper unions) *)
| EUnion (id : nat) (wrapper : bool) (ty : str) (n : Z) (pmi : bool) (json gnmi : result (option str))
(* a leaf-list of the enum type *)
| ESlice (id : nat) (ty : str) (ns : list Z) (pmi : bool) (json gnmi : result (list str))
(* ytypes.StringToType on the enum type (castToEnumValue) *)
| ECast (id : nat) (ty : str) (s : str) (out : result Z)
(* the generated Unmarshal of {"leaf": s} into a field of the enum type *)
| EUnmarshal (id : nat) (ty : str) (s : str) (out : result Z)
(* the YANG statement the table was generated from, read independently of the generator *)
| EGenEnum (id : nat) (ty : str) (vals : list (str * Z))
| EGenIdentity (id : nat) (ty : str) (ids : list (str * str)).

Section Check.
  Variable env : enum_env.

  Definition unmarshal_enum (ty : str) (s : str) : result Z :=
    match dec_json env (mk_float_oracle [] []) (YEnum ty) (JStr s) with
    | Ok (VEnum _ n) => Ok n
    | Ok _ => Err
    | Err => Err
    | Panic => Panic
    end.

  Definition ecase_ok (c : ecase) : bool :=
    match c with
    | EName _ ty n name logs key tv =>
        result_eqb str_eqb (enum_name env ty n) name &&
        result_eqb (option_eqb str_eqb) (Ok (enum_log_string env ty n)) logs &&
        result_eqb str_eqb (enum_elem env false ty n) key &&
        result_eqb str_eqb (enum_name env ty n) tv
    | ELeaf _ ty n pmi json gnmi =>
        result_eqb (option_eqb str_eqb) (enum_leaf env pmi ty n) json &&
        result_eqb (option_eqb str_eqb) (enum_leaf env false ty n) gnmi
    | EUnion _ wrapper ty n pmi json gnmi =>
        result_eqb (option_eqb str_eqb) (enum_leaf env pmi ty n) json &&
        result_eqb (option_eqb str_eqb) (enum_union_gnmi wrapper env ty n) gnmi
    | ESlice _ ty ns pmi json gnmi =>
        result_eqb (list_eqb str_eqb) (enum_slice env pmi ty ns) json &&
        result_eqb (list_eqb str_eqb) (enum_slice env false ty ns) gnmi
    | ECast _ ty s out => result_eqb Z.eqb (enum_parse (enum_table env ty) s) out
    | EUnmarshal _ ty s out => result_eqb Z.eqb (unmarshal_enum ty s) out
    | EGenEnum _ ty vals => list_eqb enumval_eqb (gen_enum_table vals) (enum_table env ty)
    | EGenIdentity _ ty ids => list_eqb enumval_eqb (gen_identity_table ids) (enum_table env ty)
    end.
  Definition ecase_id (c : ecase) : nat :=
    match c with
    | EName i _ _ _ _ _ _ | ELeaf i _ _ _ _ _ | EUnion i _ _ _ _ _ _ | ESlice i _ _ _ _ _
    | ECast i _ _ _ | EUnmarshal i _ _ _ | EGenEnum i _ _ | EGenIdentity i _ _ => i
    end.
  Definition emismatches (cs : list ecase) : list nat :=
    map ecase_id (filter (fun c => negb (ecase_ok c)) cs).
End Check.
