(* Correspondence checker for the cache rounds of the `race` stream (C21).
   The driver empties ytypes' regexp cache, optionally warms it with some patterns, starts K
   goroutines that call the real compilePattern for their pattern lists at the same time, and
   writes down what every goroutine was handed and the key set of the cache afterwards.
   `cmismatches` runs the model of Conc/Cache.v under ONE schedule (round robin until every
   thread has finished) and lists the rounds whose observation differs.  By
   CacheProofs.cache_results / cache_complete the outcome of the model does not depend on the
   schedule, so one schedule predicts all of them — including the one the Go scheduler chose.
   Patterns are numbered; a compiled regexp is identified with the number of its pattern;
   `table` is regexp.Compile as a finite map (patterns not listed do not compile). *)
From Ygot Require Import Base.Base Conc.Cache.

Inductive ccase :=
| CC (id : N) (table : list (key * rx)) (warm : list (key * rx)) (progs : list (list key))
     (results : list (list (key * option rx))) (final_keys : list key).

Definition table_compile (table : list (key * rx)) (k : key) : option rx := lookup k table.

Fixpoint round_robin (n rounds : nat) : list nat :=
  match rounds with O => [] | S r => seq 0 n ++ round_robin n r end.

Definition finishedb (t : thread) : bool :=
  match t_pc t, t_todo t with PIdle, [] => true | _, _ => false end.

Definition opt_eqb (a b : option rx) : bool :=
  match a, b with Some x, Some y => N.eqb x y | None, None => true | _, _ => false end.
Fixpoint res_eqb (a b : list (key * option rx)) : bool :=
  match a, b with
  | [], [] => true
  | (k, r) :: a', (k', r') :: b' => N.eqb k k' && opt_eqb r r' && res_eqb a' b'
  | _, _ => false
  end.
Fixpoint all_res_eqb (ts : list thread) (obs : list (list (key * option rx))) : bool :=
  match ts, obs with
  | [], [] => true
  | t :: ts', o :: obs' => res_eqb (t_res t) o && all_res_eqb ts' obs'
  | _, _ => false
  end.

Definition memN (k : key) (l : list key) : bool := existsb (N.eqb k) l.
Definition same_keys (a b : list key) : bool :=
  forallb (fun k => memN k b) a && forallb (fun k => memN k a) b.

Definition ccase_ok (c : ccase) : bool :=
  match c with
  | CC _ table warm progs results final_keys =>
      let n := length progs in
      (* every round of the round robin makes at least one thread advance (CacheProofs.cache_progress)
         and a call takes 8 steps: 8 * (number of calls) rounds are enough *)
      let steps := (8 * (fold_right (fun p acc => length p + acc) 0 progs) + 8)%nat in
      let fin := run (table_compile table) (round_robin n steps) (init warm progs) in
      forallb finishedb (c_threads fin) &&
      all_res_eqb (c_threads fin) results &&
      same_keys (map fst (s_cache (c_shared fin))) final_keys
  end.
Definition ccase_id (c : ccase) : N := match c with CC i _ _ _ _ _ => i end.
Definition cmismatches (cs : list ccase) : list N :=
  map ccase_id (filter (fun c => negb (ccase_ok c)) cs).
