(* Correspondence checkers for the streams validate (C07), leafref (C30), defaults (C33) and
   prunecf (C32).  The harness defines `sch`, `env`, `fo` (and the side tables of a stream) in the
   header of every case file, as well as `fx : vfix` / `lrfix : bool`: which of the proposed
   repairs of ytypes it found in the code under test (probed on every run). *)
From Ygot Require Import Tree.Tree Tree.Codec Tree.TreeOps Tree.Validate Tree.Defaults Tree.ConfigFalse Tree.Leafref Corr.TreeCorr.

(* ---------- validate ---------- *)

(* fault: a fault of the C07 statement was injected; cls: its class (None = unmutated tree);
   obs: the classes of the errors the generated Validate returned *)
Inductive vcase :=
| VCheck (id : nat) (fault : bool) (cls : option str) (t : tree) (obs : list verr).

Definition verr_subset (a b : list verr) : bool := forallb (fun x => existsb (verr_eqb x) b) a.
Definition verr_seteq (a b : list verr) : bool := verr_subset a b && verr_subset b a.

Section VCheck.
  Variable fx : vfix.
  Variable sch : schema.
  Variable env : enum_env.
  Variable fo : float_oracle.
  (* the model returns the same error classes, and the declarative validity is exactly
     "no fault was injected" *)
  Definition vcase_ok (c : vcase) : bool :=
    match c with
    | VCheck _ fault _ t obs =>
        verr_seteq (validate fx env fo sch t) obs && Bool.eqb (validb env true sch t) (negb fault)
    end.
  Definition vcase_id (c : vcase) : nat := match c with VCheck i _ _ _ _ => i end.
  Definition vmismatches (cs : list vcase) : list nat := map vcase_id (filter (fun c => negb (vcase_ok c)) cs).
End VCheck.

(* ---------- defaults ---------- *)

(* t: tree before root.PopulateDefaults(), out: tree after; vb / va: Validate(IgnoreMissingData)
   returned nil before / after *)
Inductive dcase :=
| DPop (id : nat) (t out : tree) (vb va : bool).

Section DCheck.
  Variable fx : vfix.
  Variable sch : schema.
  Variable env : enum_env.
  Variable fo : float_oracle.
  Definition dcase_ok (c : dcase) : bool :=
    match c with
    | DPop _ t out vb va =>
        tree_eqb (populate_defaults env fo sch t) out &&
        Bool.eqb (nil_b (validate fx env fo sch t)) vb && Bool.eqb (nil_b (validate fx env fo sch out)) va
    end.
  Definition dcase_id (c : dcase) : nat := match c with DPop i _ _ _ _ => i end.
  Definition dmismatches (cs : list dcase) : list nat := map dcase_id (filter (fun c => negb (dcase_ok c)) cs).
End DCheck.

(* ---------- prunecf ---------- *)

Inductive pcase :=
| PPrune (id : nat) (t : tree) (out : result tree)
| PPruneAt (id : nat) (cs' : cside) (t : tree) (out : result tree).   (* a struct inside the tree, with the side table of its own type *)

Section PCheck.
  Variable cs : cside.
  Definition pcase_ok (c : pcase) : bool :=
    match c with
    | PPrune _ t out => result_eqb tree_eqb (Ok (prune_config_false cs t)) out
    | PPruneAt _ cs' t out => result_eqb tree_eqb (Ok (prune_config_false cs' t)) out
    end.
  Definition pcase_id (c : pcase) : nat := match c with PPrune i _ _ => i | PPruneAt i _ _ _ => i end.
  Definition pmismatches (l : list pcase) : list nat := map pcase_id (filter (fun c => negb (pcase_ok c)) l).
End PCheck.

(* ---------- leafref ---------- *)

(* obs: Validate (called as `mode` says) reported a leafref error *)
Inductive lcase :=
| LCheck (id : nat) (mode : lrmode) (t : tree) (obs : bool).

Section LCheck.
  Variable lrfix : bool.
  Variable sch : schema.
  Variable lrt : lrtab.
  Definition lcase_ok (c : lcase) : bool :=
    match c with
    | LCheck _ mode t obs =>
        let sfs0 := sfields sch in
        let fs0 := fields_of t in
        Bool.eqb (negb (nil_b (validate_leafrefs lrfix lrt sfs0 fs0 mode))) obs &&
        match mode with
        | LrNil =>     (* the denotation agrees with the real code as well *)
            Bool.eqb (forallb (fun x => satisfied sfs0 fs0 (fst (fst x)) (snd (fst x)) (snd x)) (all_lr_leaves lrt fs0)) (negb obs)
        | _ => true
        end
    end.
  Definition lcase_id (c : lcase) : nat := match c with LCheck i _ _ _ => i end.
  Definition lmismatches (l : list lcase) : list nat := map lcase_id (filter (fun c => negb (lcase_ok c)) l).
End LCheck.
