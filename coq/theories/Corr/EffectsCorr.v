(* Correspondence checker for the `purity` stream (C11, and the sequential half of C21).
   The driver snapshots every argument of a real API call before and after it and writes down
   the set of cells whose snapshot differs (`changed`), whether the key set of the global regexp
   cache differs (`gchanged`), and for SetNode the TypedValue as it is after the call.
   `pmismatches` lists the cases where the effect model of the code as it is now (impl_now)
   predicts anything else:
     - outside the API's destination cells the predicted change set must be EQUAL to the
       observed one (a superset is a mismatch as much as a subset);
     - the regexp cache may only change where the model says a call may store into it;
     - the TypedValue after SetNode must be the one the model of the gNMI scalar decoder yields. *)
From Ygot Require Import Base.Base Heap.Effects.
(* case ids are binary numbers (N): thorough runs have tens of thousands of cases *)

Inductive pcase :=
| PC (id : N) (c : call) (changed : list cell) (gchanged : list gcell)
| PCSet (id : N) (c : call) (tv_after : tvalue) (changed : list cell) (gchanged : list gcell).

Definition gsubset (a b : list gcell) : bool :=
  match a, b with
  | [], _ => true
  | _ :: _, _ :: _ => true      (* gcell has one constructor *)
  | _ :: _, [] => false
  end.

Definition effects_ok (v : variant) (c : call) (changed : list cell) (gchanged : list gcell) : bool :=
  same_cells (changes v c) (minus_cells changed (dest c)) && gsubset gchanged (global_writes c).

Definition pcase_ok_in (v : variant) (pc : pcase) : bool :=
  match pc with
  | PC _ c changed g =>
      match c with
      | KSetNode _ _ _ _ _ => false          (* SetNode cases must carry the TypedValue *)
      | _ => effects_ok v c changed g
      end
  | PCSet _ c tv_after changed g =>
      match c with
      | KSetNode reached tol ll ks tv =>
          tvalue_eqb (setnode_tv v reached tol ll ks tv) tv_after && effects_ok v c changed g
      | _ => false
      end
  end.
(* The four repairs are committed in /repo (fix: commits 00196036, 9baec878, 0db3ce65, e5434427): the code
   under test is the variant impl_fixed; impl_now documents the pre-repair behaviour. *)
Definition pcase_ok := pcase_ok_in impl_fixed.
Definition pcase_id (pc : pcase) : N := match pc with PC i _ _ _ | PCSet i _ _ _ _ => i end.

Definition pmismatches (cs : list pcase) : list N :=
  map pcase_id (filter (fun c => negb (pcase_ok c)) cs).
