(* Correspondence checker for the `diff` stream.  The harness defines `sch`, `env` and the
   `%g` table `kft` (fmt.Sprintf("%g") of every float of the run) in the header of each case
   file and lists pairs of trees with, for every way ygot.Diff / ygot.DiffWithAtomic was called
   on them, the observed notification contents.  `dmismatches` recomputes each of them with
   Tree/Diff.v.  Update and delete sets are compared after sorting both sides with the same
   function (Go fills them in map order); atomic groups are sorted by prefix and first path,
   their contents are compared as sequences. *)
From Ygot Require Import Tree.Tree Tree.Codec Tree.Diff.

Fixpoint tval_eqb (a b : tval) {struct a} : bool :=
  match a, b with
  | TVString s, TVString s' => str_eqb s s'
  | TVInt z, TVInt z' => (z =? z')%Z
  | TVUint z, TVUint z' => (z =? z')%Z
  | TVBool x, TVBool y => Bool.eqb x y
  | TVBytes x, TVBytes y => list_eqb N.eqb x y
  | TVDouble x, TVDouble y => x =? y
  | TVFloat x, TVFloat y => x =? y
  | TVDecimal d p, TVDecimal d' p' => (d =? d')%Z && (p =? p')
  | TVLeafList l, TVLeafList l' =>
      (fix go (x y : list tval) : bool :=
         match x, y with
         | [], [] => true
         | p :: x', q :: y' => tval_eqb p q && go x' y'
         | _, _ => false
         end) l l'
  | TVAscii s, TVAscii s' => str_eqb s s'
  | TVNil, TVNil => true
  | _, _ => false
  end.

Section Sort.
  Context {A : Type}.
  Variable key : A -> str.
  Fixpoint ins_by (x : A) (l : list A) : list A :=
    match l with
    | [] => [x]
    | y :: t => match str_cmp (key x) (key y) with Gt => y :: ins_by x t | _ => x :: l end
    end.
  Definition sort_by (l : list A) : list A := fold_right ins_by [] l.
End Sort.

Definition upd_eqb (a b : str * tval) : bool := str_eqb (fst a) (fst b) && tval_eqb (snd a) (snd b).
Definition group_key (g : str * list (str * tval)) : str :=
  fst g ++ 0 :: match snd g with [] => [] | u :: _ => fst u end.
Definition group_eqb (a b : str * list (str * tval)) : bool :=
  str_eqb (fst a) (fst b) && list_eqb upd_eqb (snd a) (snd b).

Definition enotifs_eqb (m i : enotifs) : bool :=
  list_eqb str_eqb (sort_by (fun s => s) (en_deletes m)) (sort_by (fun s => s) (en_deletes i)) &&
  list_eqb upd_eqb (sort_by fst (en_updates m)) (sort_by fst (en_updates i)) &&
  list_eqb group_eqb (sort_by group_key (en_atomic m)) (sort_by group_key (en_atomic i)).

Definition dresult_eqb (m i : result enotifs) : bool :=
  match m, i with
  | Ok x, Ok y => enotifs_eqb x y
  | Err, Err => true
  | Panic, Panic => true
  | _, _ => false
  end.

(* one call: withAtomic, the options, what came back *)
Record drun := { r_atomic : bool; r_opts : dopts; r_out : result enotifs }.
Inductive dcase := DPair (id : nat) (wu : bool) (a b : tree) (runs : list drun).

Definition kf_of (t : list (N * str)) (b : N) : str :=
  match find (fun p => fst p =? b) t with Some p => snd p | None => [] end.

Section Check.
  Variable sch : schema.
  Variable env : enum_env.
  Variable kft : list (N * str).

  Definition drun_ok (wu : bool) (a b : tree) (r : drun) : bool :=
    dresult_eqb (df_diff env (kf_of kft) wu (r_atomic r) (o_ignore_add (r_opts r)) (o_single (r_opts r)) (o_shadow (r_opts r)) sch a b) (r_out r).
  Definition dcase_ok (c : dcase) : bool :=
    match c with DPair _ wu a b runs => forallb (drun_ok wu a b) runs end.
  Definition dcase_id (c : dcase) : nat := match c with DPair i _ _ _ _ => i end.
  Definition dmismatches (cs : list dcase) : list nat :=
    map dcase_id (filter (fun c => negb (dcase_ok c)) cs).

  (* Evaluation of the C03 statement on the model for one pair (development aid and
     non-vacuity evidence; not part of the verdict): do the guards of c03_apply_partial hold,
     and does applying the model's diff to L a give L b. *)
  Definition dguards (wu atomic : bool) (o : dopts) (a b : tree) : bool :=
    let La := df_L env (kf_of kft) wu atomic (o_single o) (o_shadow o) sch a in
    let Lb := df_L env (kf_of kft) wu atomic (o_single o) (o_shadow o) sch b in
    df_no_zero_union env (kf_of kft) wu atomic (o_single o) (o_shadow o) sch a &&
    df_no_zero_union env (kf_of kft) wu atomic (o_single o) (o_shadow o) sch b &&
    df_lm_wfb La && df_lm_wfb Lb && df_lm_nodupb La && df_lm_nodupb Lb && df_isolatedb La Lb.
  Definition lm_equivb (m1 m2 : leafmap) : bool :=
    forallb (fun e => match lm_get (fst e) m2 with Some v => lval_eqb (snd e) v | None => false end) m1 &&
    forallb (fun e => match lm_get (fst e) m1 with Some v => lval_eqb (snd e) v | None => false end) m2.
  Definition dapply_ok (wu atomic : bool) (o : dopts) (a b : tree) : bool :=
    match df_diff_core env (kf_of kft) wu atomic (o_ignore_add o) (o_single o) (o_shadow o) sch a b with
    | Ok d => lm_equivb (apply_diff (df_L env (kf_of kft) wu atomic (o_single o) (o_shadow o) sch a) d)
                        (df_L env (kf_of kft) wu atomic (o_single o) (o_shadow o) sch b)
    | _ => true
    end.
End Check.
