(* Correspondence checker for the streams merge, alias and prune (C04, C05, C14): every case
   carries the inputs given to the real ygot function and what it returned; the model is
   re-computed and compared.  The header of a case file defines sch, env, fo. *)
From Ygot Require Export Tree.Tree Tree.TreeOps Tree.Merge Tree.Prune Heap.Located Heap.Copy.
From Ygot Require Import Corr.TreeCorr.

(* ---------- located trees up to the names of the cells that are not in a given set ---------- *)

(* every cell outside L becomes the anonymous private cell 0 *)
Definition labs_loc (L : list loc) (p : loc) : loc := if loc_mem p L then p else 0.
Fixpoint labs (L : list loc) (l : ltree) : ltree :=
  match l with
  | LVal v => LVal v
  | LPtr p v => LPtr (labs_loc L p) v
  | LBin u p bs => LBin u (if nil_b bs then 0 else labs_loc L p) bs   (* a zero-length slice owns no cell *)
  | LWrap p i => LWrap (labs_loc L p) (labs L i)
  | LLeafList p es => LLeafList (if nil_b es then 0 else labs_loc L p) (map (labs L) es)
  | LCont p fs => LCont (labs_loc L p) (map (fun nf => (fst nf, labs L (snd nf))) fs)
  | LMap p es => LMap (labs_loc L p) (map (fun ke => (map (labs L) (fst ke), labs L (snd ke))) es)
  | LOMap p pk pm es => LOMap (labs_loc L p) (labs_loc L pk) (labs_loc L pm) (map (fun ke => (fst ke, labs L (snd ke))) es)
  | LUnk p es => LUnk (if nil_b es then 0 else labs_loc L p) (map (labs L) es)
  end.

Section Sort.
  Context {A : Type}.
  Variable leb : A -> A -> bool.
  Fixpoint ins_sorted (x : A) (l : list A) : list A :=
    match l with
    | [] => [x]
    | y :: r => if leb x y then x :: l else y :: ins_sorted x r
    end.
  Definition isort (l : list A) : list A := fold_right ins_sorted [] l.
End Sort.

Definition str_leb (a b : str) : bool := match str_cmp a b with Gt => false | _ => true end.
Definition keys_leb (a b : list scalar) : bool := match keys_cmp a b with Gt => false | _ => true end.

(* canonical order: struct fields by name, map entries by key *)
Fixpoint lnorm (l : ltree) : ltree :=
  match l with
  | LWrap p i => LWrap p (lnorm i)
  | LLeafList p es => LLeafList p (map lnorm es)
  | LCont p fs => LCont p (isort (fun a b => str_leb (fst a) (fst b)) (map (fun nf => (fst nf, lnorm (snd nf))) fs))
  | LMap p es => LMap p (isort (fun a b => keys_leb (map lscalar (fst a)) (map lscalar (fst b)))
                               (map (fun ke => (map lnorm (fst ke), lnorm (snd ke))) es))
  | LOMap p pk pm es => LOMap p pk pm (map (fun ke => (fst ke, lnorm (snd ke))) es)
  | LUnk p es => LUnk p (map lnorm es)
  | _ => l
  end.

Section Leqb.
  Context {A : Type}.
  Variable eqb : A -> A -> bool.
  Fixpoint leqb (a b : list A) : bool :=
    match a, b with
    | [], [] => true
    | x :: a', y :: b' => eqb x y && leqb a' b'
    | _, _ => false
    end.
End Leqb.

Fixpoint ltree_eqb (a b : ltree) {struct a} : bool :=
  match a, b with
  | LVal v, LVal w => scalar_eqb v w
  | LPtr p v, LPtr q w => N.eqb p q && scalar_eqb v w
  | LBin u p bs, LBin u' q cs => Bool.eqb u u' && N.eqb p q && list_eqb N.eqb bs cs
  | LWrap p i, LWrap q j => N.eqb p q && ltree_eqb i j
  | LLeafList p es, LLeafList q fs => N.eqb p q && leqb ltree_eqb es fs
  | LCont p fs, LCont q gs =>
      N.eqb p q && leqb (fun x y => str_eqb (fst x) (fst y) && ltree_eqb (snd x) (snd y)) fs gs
  | LMap p es, LMap q fs =>
      N.eqb p q && leqb (fun x y => leqb ltree_eqb (fst x) (fst y) && ltree_eqb (snd x) (snd y)) es fs
  | LOMap p pk pm es, LOMap q qk qm fs =>
      N.eqb p q && N.eqb pk qk && N.eqb pm qm &&
      leqb (fun x y => keys_eqb (fst x) (fst y) && ltree_eqb (snd x) (snd y)) es fs
  | LUnk p es, LUnk q fs => N.eqb p q && leqb ltree_eqb es fs
  | _, _ => false
  end.

Fixpoint nodup_locb (l : list loc) : bool :=
  match l with
  | [] => true
  | p :: r => negb (loc_mem p r) && nodup_locb r
  end.

(* the observed result c is built from the cells of L exactly where the model result m is, and
   its other cells are pairwise distinct *)
Definition lsame_sharing (L : list loc) (m c : ltree) : bool :=
  ltree_eqb (lnorm (labs L m)) (lnorm (labs L c)) &&
  nodup_locb (filter (fun p => negb (loc_mem p L)) (locs c)).

(* ---------- looking up the Go representation of a leaf by its Go field path ---------- *)
Fixpoint mg_schema_at (s : schema) (path : list str) : option schema :=
  match path with
  | [] => Some s
  | n :: rest =>
      match find (fun fs => str_eqb (f_go (fst fs)) n) (sfields s) with
      | Some (_, ss) => mg_schema_at ss rest
      | None => None
      end
  end.
Definition mg_repr_eqb (a b : mg_repr) : bool :=
  match a, b with
  | RPtr, RPtr | RBin, RBin | REnum, REnum | REmpty, REmpty | RUnion, RUnion => true
  | _, _ => false
  end.

(* ---------- comparing a model tree with an observed tree ----------
   The harness sorts the entries of a Go map by the text of their keys; two different keys with
   the same text (uint8 6 and an enum with value 6 in a union key) come in either order.  Keyed
   unordered lists are therefore compared as sets, everything else in order. *)
Section MatchFields.
  Variable rec : schema -> list (str * tree) -> list (str * tree) -> bool.
  Definition mg_match_field (ss : schema) (m i : tree) : bool :=
    match ss, m, i with
    | SCont _, TCont a, TCont b => rec ss a b
    | SList false _ _ _ _, TList a, TList b =>
        Nat.eqb (length a) (length b) &&
        forallb (fun ke => existsb (fun ke' => keys_eqb (fst ke) (fst ke') && rec ss (fields_of (snd ke)) (fields_of (snd ke'))) b) a
    | SList true _ _ _ _, TList a, TList b =>
        leqb (fun ke ke' => keys_eqb (fst ke) (fst ke') && rec ss (fields_of (snd ke)) (fields_of (snd ke'))) a b
    | SUnkeyed _, TUnkeyed a, TUnkeyed b => leqb (fun x y => rec ss (fields_of x) (fields_of y)) a b
    | _, _, _ => tree_eqb m i
    end.
  Fixpoint mg_match_fields (l : list (finfo * schema)) (a b : list (str * tree)) : bool :=
    match l with
    | [] => true
    | (fi, ss) :: rest =>
        match field_get (f_go fi) a, field_get (f_go fi) b with
        | None, None => true
        | Some x, Some y => mg_match_field ss x y
        | _, _ => false
        end && mg_match_fields rest a b
    end.
End MatchFields.
Fixpoint mg_match_struct (s : schema) (a b : list (str * tree)) {struct s} : bool :=
  match s with
  | SCont sfs | SList _ _ _ _ sfs | SUnkeyed sfs =>
      Nat.eqb (length a) (length b) && mg_match_fields mg_match_struct sfs a b
  | _ => true
  end.
Definition mg_tree_match (s : schema) (m i : tree) : bool := mg_match_struct s (fields_of m) (fields_of i).
Definition mg_res_match (s : schema) (m i : result tree) : bool :=
  match m, i with
  | Ok x, Ok y => mg_tree_match s x y
  | Err, Err | Panic, Panic => true
  | _, _ => false
  end.

Inductive mgcase :=
| MgMerge (id : nat) (ow em : bool) (a b : tree) (out : result tree)   (* MergeStructs(a, b, opts) *)
| MgCopy (id : nat) (t : tree) (out : result tree)                     (* DeepCopy(t) *)
| MgPrune (id : nat) (t : tree) (out : result tree)                    (* PruneEmptyBranches(t); Panic = it panicked *)
| MgBuild (id : nat) (t : tree) (out : tree)                           (* BuildEmptyTree(t) *)
| MgRepr (id : nat) (path : list str) (r : mg_repr)                    (* Go kind of the leaf field at this Go path *)
| MgWf (id : nat)                                                      (* the schema of the package is well-formed (hypothesis of the theorems) *)
| MgAliasCopy (id : nat) (l c : ltree)                                 (* c = DeepCopy(l), cells of l keep their names *)
| MgAliasMerge (id : nat) (ow em : bool) (a b c : ltree).              (* c = MergeStructs(a, b, opts) *)

Section Check.
  Variable sch : schema.

  Definition mgcase_ok (c : mgcase) : bool :=
    match c with
    | MgMerge _ ow em a b out =>
        (* the inputs have the shape the theorems assume *)
        mg_conforms sch (fields_of a) && mg_conforms sch (fields_of b) &&
        mg_res_match sch (merge {| mo_overwrite := ow; mo_empty_maps := em |} sch a b) out
    | MgCopy _ t out => mg_res_match sch (deep_copy sch t) out
    | MgPrune _ t out => mg_conforms sch (fields_of t) && mg_res_match sch (prune sch t) out
    | MgBuild _ t out => mg_tree_match sch (build_empty sch t) out
    | MgRepr _ path r =>
        match mg_schema_at sch path with
        | Some (SLeaf t _) => mg_repr_eqb (mg_repr_of t) r
        | _ => false
        end
    | MgWf _ => mg_wf_schema sch
    | MgAliasCopy _ l c =>
        match deep_copy_l l with
        | Ok m => lsame_sharing (locs l) m c
        | _ => false
        end
    | MgAliasMerge _ ow em a b c =>
        match merge_l {| mo_overwrite := ow; mo_empty_maps := em |} a b with
        | Ok m => lsame_sharing (locs a ++ locs b) m c
        | _ => false
        end
    end.
  Definition mgcase_id (c : mgcase) : nat :=
    match c with
    | MgMerge i _ _ _ _ _ | MgCopy i _ _ | MgPrune i _ _ | MgBuild i _ _ | MgRepr i _ _ | MgWf i
    | MgAliasCopy i _ _ | MgAliasMerge i _ _ _ _ _ => i
    end.
End Check.

(* env and fo are part of every tree-layer case file header; these streams do not need them *)
Definition mgmismatches (sch : schema) (env : enum_env) (fo : float_oracle) (cs : list mgcase) : list nat :=
  map mgcase_id (filter (fun c => negb (mgcase_ok sch c)) cs).
