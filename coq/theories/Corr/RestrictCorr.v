(* Correspondence checker for the `restrict` and `regex` streams (property C06): the harness
   writes inputs together with what the Go implementation returned; `mismatches` re-computes
   every output with the model and lists the ids of the cases that differ. *)
From Ygot Require Import Base.Base Scalar.Number Scalar.Regex Scalar.FixRegexp Scalar.Restrict.

Fixpoint c06_list_eqb {A} (eqb : A -> A -> bool) (a b : list A) : bool :=
  match a, b with
  | [], [] => true
  | x :: a', y :: b' => eqb x y && c06_list_eqb eqb a' b'
  | _, _ => false
  end.
Definition c06_res_eqb (a b : result unit) : bool :=
  match a, b with
  | Ok _, Ok _ => true
  | Err, Err => true
  | Panic, Panic => true
  | _, _ => false
  end.
Definition number_eqb (a b : number) : bool :=
  (nval a =? nval b) && (nfd a =? nfd b) && Bool.eqb (nneg a) (nneg b).

Inductive rcase :=
(* yang.Number: a.Less(b), a.Equal(b) *)
| RLess (id : nat) (a b : number) (lt eq : bool)
(* yang.FromInt / yang.FromUint *)
| RFromInt (id : nat) (z : Z) (n : number)
| RFromUint (id : nat) (u : N) (n : number)
(* ytypes.Validate{Int,Uint,Decimal,Binary,String}Restrictions; for Decimal, v is what
   yang.FromFloat returned for the float64 under test *)
| RInt (id : nat) (rs : list yrange) (z : Z) (out : result unit)
| RUint (id : nat) (rs : list yrange) (u : N) (out : result unit)
| RDec (id : nat) (rs : list yrange) (v : number) (out : result unit)
| RBin (id : nat) (ls : list yrange) (bytes : list N) (out : result unit)
| RStr (id : nat) (t : ytype_r) (s : str) (out : result unit)
(* util.SanitizedPattern *)
| RSan (id : nat) (pats posix : list str) (out : list str) (isposix : bool)
(* regexp.Compile (px = false) / regexp.CompilePOSIX (px = true) of a string: does it compile,
   and if so, MatchString on s *)
| RMatch (id : nat) (px : bool) (p : str) (s : str) (compiles matched : bool).

Definition rcase_ok (c : rcase) : bool :=
  match c with
  | RLess _ a b lt eq => Bool.eqb (less a b) lt && Bool.eqb (equal a b) eq
  | RFromInt _ z n => number_eqb (from_int z) n
  | RFromUint _ u n => number_eqb (from_uint u) n
  | RInt _ rs z out => c06_res_eqb (validate_int (only_range rs) z) out
  | RUint _ rs u out => c06_res_eqb (validate_uint (only_range rs) u) out
  | RDec _ rs v out => c06_res_eqb (validate_decimal (only_range rs) v) out
  | RBin _ ls bytes out => c06_res_eqb (validate_binary (only_length ls) bytes) out
  | RStr _ t s out => c06_res_eqb (validate_string t s) out
  | RSan _ pats posix out isposix =>
      let sp := sanitized_pattern pats posix in
      c06_list_eqb str_eqb (fst sp) out && Bool.eqb (snd sp) isposix
  | RMatch _ px p s compiles matched =>
      match parse_re px p with
      | POk r => compiles && Bool.eqb (search_b r s) matched
      | PErr => negb compiles
      | PUnsup => false            (* the generators stay inside the modelled subset *)
      end
  end.

Definition rcase_id (c : rcase) : nat :=
  match c with
  | RLess i _ _ _ _ | RFromInt i _ _ | RFromUint i _ _ | RInt i _ _ _ | RUint i _ _ _
  | RDec i _ _ _ | RBin i _ _ _ | RStr i _ _ _ | RSan i _ _ _ _ | RMatch i _ _ _ _ _ => i
  end.

Definition mismatches (cs : list rcase) : list nat :=
  map rcase_id (filter (fun c => negb (rcase_ok c)) cs).
