(* WfCorr.v — checks that the inputs the harness feeds to the jsonrt stream satisfy the
   hypotheses of property C01 (Properties/C01.v): the schema of the generated package is
   well formed, the enum tables are, the marshalling options are, and every generated tree is
   a schema-conforming tree.  Also re-computes the round trip itself with the model. *)
From Ygot Require Import Tree.Tree Tree.Codec Tree.CodecProofs Tree.Render Tree.TreeOps Tree.Unmarshal.
From Ygot Require Import Tree.RoundTrip Corr.TreeCorr.

Section WfCheck.
  Variable sch : schema.
  Variable env : enum_env.
  Variable fo : float_oracle.

  Definition schema_wf_ok : bool := wf_schemab sch.
  Definition env_wf_ok : bool := wf_envb env.

  (* ids of the trees that are NOT schema-conforming *)
  Definition wf_mismatches (cases : list (nat * tree)) : list nat :=
    map fst (filter (fun c => negb (wf_treeb env fo sch (snd c))) cases).

  (* ids of the option records that are NOT well formed *)
  Definition cfg_mismatches (cases : list (nat * jcfg)) : list nat :=
    map fst (filter (fun c => negb (wf_cfgb env (snd c))) cases).

  (* the conclusion of c01_roundtrip evaluated on the model: ids where a rendered tree does not
     come back (empty for all well-formed inputs, by the theorem) *)
  Definition c01_holds (cfg : jcfg) (t : tree) : bool :=
    match render env fo cfg sch t with
    | Ok j => result_eqb tree_eqb
                (unmarshal env fo {| o_ignore_extra := false; o_prefer_shadow := c_shadow cfg |}
                           sch (TCont []) (erase_sets j))
                (Ok t)
    | _ => false
    end.
  Definition c01_mismatches (cases : list (nat * jcfg * tree)) : list nat :=
    map (fun c => fst (fst c)) (filter (fun c => negb (c01_holds (snd (fst c)) (snd c))) cases).

  (* the same three checks over the case list of the jsonrt stream: the trees that the
     implementation rendered without error *)
  Definition rendered (cs : list tcase) : list (nat * jcfg * tree) :=
    flat_map (fun c => match c with JRender id cfg t (Ok _) => [(id, cfg, t)] | _ => [] end) cs.
  Definition wf_case_mismatches (cs : list tcase) : list nat :=
    wf_mismatches (map (fun c => (fst (fst c), snd c)) (rendered cs)).
  Definition cfg_case_mismatches (cs : list tcase) : list nat :=
    cfg_mismatches (map (fun c => (fst (fst c), snd (fst c))) (rendered cs)).
  Definition c01_case_mismatches (cs : list tcase) : list nat := c01_mismatches (rendered cs).
End WfCheck.
