(* Correspondence checker for the pathrel stream. *)
From Ygot Require Import Base.Base Path.PathString Path.PathRel Corr.PathStringCorr.

Definition gp_eqb (a b : gp) : bool :=
  str_eqb (origin a) (origin b) && str_eqb (target a) (target b) && gpath_eqb (elems a) (elems b).

(* key lists are compared as maps: both sides are given sorted by the harness *)
Inductive rcase :=
| RCompare (id : nat) (a b : gp) (out : rel)
| RQuery (id : nat) (p q : gp) (out : bool)
| RPrefix (id : nat) (p : gp) (pre : list str) (out : bool)
| RElemPrefix (id : nat) (p pre : gp) (out : bool)
| RTrim (id : nat) (p pre : gp) (out : gp)
| RJoin (id : nat) (pre suf : gp) (out : result gp)
| RFind (id : nat) (ps : list (list pelem)) (out : list pelem)
| RElemEq (id : nat) (a b : pelem) (out : bool).

Definition rcase_ok (c : rcase) : bool :=
  match c with
  | RCompare _ a b out => rel_eqb (compare_paths a b) out
  | RQuery _ p q out => Bool.eqb (matches_query p q) out
  | RPrefix _ p pre out => Bool.eqb (matches_prefix p pre) out
  | RElemPrefix _ p pre out => Bool.eqb (matches_elem_prefix p pre) out
  | RTrim _ p pre out => gp_eqb (trim_elem_prefix p pre) out
  | RJoin _ pre suf out => result_eqb gp_eqb (join_paths pre suf) out
  | RFind _ ps out => gpath_eqb (find_prefix ps) out
  | RElemEq _ a b out => Bool.eqb (elems_equal a b) out
  end.
Definition rcase_id (c : rcase) : nat :=
  match c with
  | RCompare i _ _ _ | RQuery i _ _ _ | RPrefix i _ _ _ | RElemPrefix i _ _ _
  | RTrim i _ _ _ | RJoin i _ _ _ | RFind i _ _ | RElemEq i _ _ _ => i
  end.
Definition rmismatches (cs : list rcase) : list nat :=
  map rcase_id (filter (fun c => negb (rcase_ok c)) cs).
