(* GnmiDiffProofs.v — proofs about the gnmidiff model (Diffs/GnmiDiff.v). *)
From Ygot Require Import Base.Base Path.PathString Tree.Tree Diffs.GnmiDiff.
From Coq Require Import Sorting.Sorted Permutation.
Open Scope N_scope.

(* ================================================================ strings *)

Lemma gd_str_eqb_eq a b : str_eqb a b = true <-> a = b.
Proof.
  revert b; induction a as [|x a IH]; intros [|y b]; simpl; split; intros H; try discriminate; auto.
  - apply andb_true_iff in H as [H1 H2]. apply N.eqb_eq in H1. apply IH in H2. congruence.
  - inversion H; subst. rewrite N.eqb_refl. simpl. apply IH. reflexivity.
Qed.
Lemma gd_str_eqb_refl a : str_eqb a a = true.
Proof. apply gd_str_eqb_eq. reflexivity. Qed.
Lemma gd_str_eqb_neq a b : str_eqb a b = false <-> a <> b.
Proof.
  split; intros H.
  - intros E. apply gd_str_eqb_eq in E. congruence.
  - destruct (str_eqb a b) eqn:E; auto. apply gd_str_eqb_eq in E. contradiction.
Qed.
Lemma gd_str_eqb_sym a b : str_eqb a b = str_eqb b a.
Proof.
  destruct (str_eqb a b) eqn:E; symmetry.
  - apply gd_str_eqb_eq in E. subst. apply gd_str_eqb_refl.
  - apply gd_str_eqb_neq. apply gd_str_eqb_neq in E. congruence.
Qed.

Lemma gd_str_cmp_eq a b : str_cmp a b = Eq <-> a = b.
Proof.
  revert b; induction a as [|x a IH]; intros [|y b]; simpl; split; intros H; try discriminate; auto.
  - destruct (x ?= y) eqn:C; try discriminate. apply N.compare_eq in C. apply IH in H. congruence.
  - inversion H; subst. rewrite N.compare_refl. apply IH. reflexivity.
Qed.
Lemma gd_str_cmp_opp a b : str_cmp b a = CompOpp (str_cmp a b).
Proof.
  revert b; induction a as [|x a IH]; intros [|y b]; simpl; auto.
  rewrite (N.compare_antisym x y). destruct (x ?= y); simpl; auto.
Qed.
Lemma gd_str_cmp_refl a : str_cmp a a = Eq.
Proof. apply gd_str_cmp_eq. reflexivity. Qed.

Definition slt (a b : str) : Prop := str_cmp a b = Lt.

Lemma slt_trans a b c : slt a b -> slt b c -> slt a c.
Proof.
  unfold slt. revert b c; induction a as [|x a IH]; intros [|y b] [|z c]; simpl; intros H1 H2; try discriminate; auto.
  destruct (x ?= y) eqn:C1; try discriminate.
  - apply N.compare_eq in C1. subst y. destruct (x ?= z) eqn:C2; try discriminate; auto. eapply IH; eauto.
  - destruct (y ?= z) eqn:C2; try discriminate.
    + apply N.compare_eq in C2. subst z. rewrite C1. reflexivity.
    + apply N.compare_lt_iff in C1, C2. pose proof (N.lt_trans _ _ _ C1 C2) as H. apply N.compare_lt_iff in H. rewrite H. reflexivity.
Qed.
Lemma slt_irrefl a : ~ slt a a.
Proof. unfold slt. rewrite gd_str_cmp_refl. discriminate. Qed.
Lemma slt_neq a b : slt a b -> a <> b.
Proof. intros H E. subst. eapply slt_irrefl; eauto. Qed.
Lemma slt_asym a b : slt a b -> ~ slt b a.
Proof. intros H1 H2. eapply slt_irrefl. eapply slt_trans; eauto. Qed.
Lemma str_ltb_slt a b : str_ltb a b = true <-> slt a b.
Proof. unfold str_ltb, slt. destruct (str_cmp a b); split; intros; auto; discriminate. Qed.
Lemma slt_total a b : slt a b \/ a = b \/ slt b a.
Proof.
  unfold slt. destruct (str_cmp a b) eqn:C; auto.
  - right; left. apply gd_str_cmp_eq; auto.
  - right; right. rewrite gd_str_cmp_opp, C. reflexivity.
Qed.

(* ================================================================ sorted association lists *)

Section AL.
Context {V : Type}.
Implicit Types (l : list (str * V)).

Definition klt (a b : str * V) : Prop := slt (fst a) (fst b).
Definition Srt l : Prop := StronglySorted klt l.

Lemma find_insert k k' (v : V) l :
  al_find k (al_insert k' v l) = if str_eqb k k' then Some v else al_find k l.
Proof.
  induction l as [|[k1 v1] l IH]; simpl.
  - reflexivity.
  - destruct (str_cmp k' k1) eqn:C; simpl.
    + apply gd_str_cmp_eq in C. subst k1. destruct (str_eqb k k'); reflexivity.
    + reflexivity.
    + rewrite IH. destruct (str_eqb k k') eqn:E; auto.
      apply gd_str_eqb_eq in E. subst k'. destruct (str_eqb k k1) eqn:E1; auto.
      apply gd_str_eqb_eq in E1. subst k1. rewrite gd_str_cmp_refl in C. discriminate.
Qed.

Lemma find_lt_none k l : Forall (fun kv => slt k (fst kv)) l -> al_find k l = None.
Proof.
  induction 1 as [|[k1 v1] l H _ IH]; simpl; auto.
  simpl in H. destruct (str_eqb k k1) eqn:E; auto.
  apply gd_str_eqb_eq in E. subst. exfalso. eapply slt_irrefl; eauto.
Qed.

Lemma srt_insert k (v : V) l : Srt l -> Srt (al_insert k v l).
Proof.
  unfold Srt. induction 1 as [|[k1 v1] l Hs IH Hf]; simpl.
  - repeat constructor.
  - destruct (str_cmp k k1) eqn:C.
    + apply gd_str_cmp_eq in C. subst. constructor; auto.
    + constructor. { constructor; auto. }
      constructor; [exact C|]. eapply Forall_impl; [|exact Hf]. intros a Ha. unfold klt in *; simpl in *. eapply slt_trans; eauto.
    + constructor; auto.
      assert (G : slt k1 k) by (unfold slt; rewrite gd_str_cmp_opp, C; reflexivity).
      clear IH Hs. induction l as [|[k2 v2] l IH2]; simpl.
      * repeat constructor. exact G.
      * inversion Hf; subst. destruct (str_cmp k k2); constructor; auto; try (constructor; auto).
Qed.

Lemma find_remove k k' l :
  al_find k (gd_al_remove k' l) = if str_eqb k k' then None else al_find k l.
Proof.
  induction l as [|[k1 v1] l IH]; simpl.
  - destruct (str_eqb k k'); reflexivity.
  - destruct (str_eqb k' k1) eqn:E1.
    + rewrite IH. apply gd_str_eqb_eq in E1. subst k1. destruct (str_eqb k k'); reflexivity.
    + simpl. rewrite IH. destruct (str_eqb k k') eqn:E; auto.
      apply gd_str_eqb_eq in E. subst k'. rewrite E1. reflexivity.
Qed.

Lemma remove_forall P k l : Forall P l -> Forall P (gd_al_remove k l).
Proof.
  induction 1 as [|[k1 v1] l H _ IH]; simpl; auto. destruct (str_eqb k k1); auto.
Qed.

Lemma srt_remove k l : Srt l -> Srt (gd_al_remove k l).
Proof.
  unfold Srt. induction 1 as [|[k1 v1] l Hs IH Hf]; simpl; [constructor|].
  destruct (str_eqb k k1); auto. constructor; auto. apply remove_forall. exact Hf.
Qed.

Lemma srt_find_head k (v : V) l : Srt ((k, v) :: l) -> al_find k l = None.
Proof. intros H. inversion H; subst. apply find_lt_none. exact H3. Qed.

Lemma srt_ext l1 l2 : Srt l1 -> Srt l2 -> (forall k, al_find k l1 = al_find k l2) -> l1 = l2.
Proof.
  intros H1. revert l2. induction H1 as [|[k1 v1] l1 Hs1 IH Hf1]; intros l2 H2 E.
  - destruct l2 as [|[k2 v2] l2]; auto. specialize (E k2). simpl in E. rewrite gd_str_eqb_refl in E. discriminate.
  - destruct l2 as [|[k2 v2] l2].
    + specialize (E k1). simpl in E. rewrite gd_str_eqb_refl in E. discriminate.
    + inversion H2 as [|? ? Hs2 Hf2]; subst.
      assert (K : k1 = k2).
      { destruct (slt_total k1 k2) as [L|[L|L]]; auto; exfalso.
        - pose proof (E k1) as E1. simpl in E1. rewrite gd_str_eqb_refl in E1.
          destruct (str_eqb k1 k2) eqn:Q. { apply gd_str_eqb_eq in Q. subst. eapply slt_irrefl; eauto. }
          rewrite find_lt_none in E1; [discriminate|].
          eapply Forall_impl; [|exact Hf2]. intros a Ha. unfold klt in Ha. simpl in *. eapply slt_trans; eauto.
        - pose proof (E k2) as E1. simpl in E1. rewrite gd_str_eqb_refl in E1.
          destruct (str_eqb k2 k1) eqn:Q. { apply gd_str_eqb_eq in Q. subst. eapply slt_irrefl; eauto. }
          rewrite find_lt_none in E1; [discriminate|].
          eapply Forall_impl; [|exact Hf1]. intros a Ha. unfold klt in Ha. simpl in *. eapply slt_trans; eauto. }
      subst k2. pose proof (E k1) as E1. simpl in E1. rewrite gd_str_eqb_refl in E1. inversion E1; subst v2.
      f_equal. apply IH; auto. intros k. specialize (E k). simpl in E.
      destruct (str_eqb k k1) eqn:Q; auto. apply gd_str_eqb_eq in Q. subst k.
      rewrite (find_lt_none k1 l1), (find_lt_none k1 l2); auto.
Qed.

Lemma srt_in_find k (v : V) l : Srt l -> In (k, v) l -> al_find k l = Some v.
Proof.
  unfold Srt. induction 1 as [|[k1 v1] l Hs IH Hf]; simpl; intros HI; [contradiction|].
  destruct HI as [HI|HI].
  - inversion HI; subst. rewrite gd_str_eqb_refl. reflexivity.
  - destruct (str_eqb k k1) eqn:E.
    + apply gd_str_eqb_eq in E. subst k1. rewrite Forall_forall in Hf. apply Hf in HI. unfold klt in HI. simpl in HI.
      exfalso. eapply slt_irrefl; eauto.
    + apply IH. exact HI.
Qed.
Lemma find_in k (v : V) l : al_find k l = Some v -> In (k, v) l.
Proof.
  induction l as [|[k1 v1] l IH]; simpl; [discriminate|].
  destruct (str_eqb k k1) eqn:E; intros H.
  - apply gd_str_eqb_eq in E. inversion H; subst. left; reflexivity.
  - right; auto.
Qed.
Lemma find_none_notin k l : al_find k l = None -> ~ In k (map fst l).
Proof.
  induction l as [|[k1 v1] l IH]; simpl; auto.
  destruct (str_eqb k k1) eqn:E; [discriminate|]. intros H [G|G]; [|apply IH; auto].
  subst. rewrite gd_str_eqb_refl in E. discriminate.
Qed.
Lemma notin_find_none k l : ~ In k (map fst l) -> al_find k l = None.
Proof.
  induction l as [|[k1 v1] l IH]; simpl; auto. intros H.
  destruct (str_eqb k k1) eqn:E. { apply gd_str_eqb_eq in E. subst. exfalso. auto. }
  apply IH. auto.
Qed.

Lemma srt_nodup l : Srt l -> NoDup (map fst l).
Proof.
  unfold Srt. induction 1 as [|[k1 v1] l Hs IH Hf]; simpl; constructor; auto.
  intros HI. apply in_map_iff in HI as [[k2 v2] [E HI]]. simpl in E. subst k2.
  rewrite Forall_forall in Hf. apply Hf in HI. unfold klt in HI. simpl in HI. eapply slt_irrefl; eauto.
Qed.

Lemma ssorted_srt l : ssorted_keysb l = true <-> Srt l.
Proof.
  unfold Srt. induction l as [|[k v] l IH]; simpl.
  - split; auto. constructor.
  - rewrite andb_true_iff, forallb_forall, IH. split.
    + intros [H1 H2]. constructor; auto. apply Forall_forall. intros a Ha. apply H1 in Ha. apply str_ltb_slt. exact Ha.
    + intros H. inversion H; subst. split; auto. intros a Ha. rewrite Forall_forall in H3. apply str_ltb_slt. apply (H3 a Ha).
Qed.

(* inserting a binding that is already there changes nothing *)
Lemma insert_same k (v : V) l : Srt l -> al_find k l = Some v -> al_insert k v l = l.
Proof.
  intros S F. apply srt_ext; auto. { apply srt_insert; auto. }
  intros k0. rewrite find_insert. destruct (str_eqb k0 k) eqn:E; auto.
  apply gd_str_eqb_eq in E. subst. auto.
Qed.
Lemma remove_absent k l : al_find k l = None -> gd_al_remove k l = l.
Proof.
  induction l as [|[k1 v1] l IH]; simpl; auto.
  destruct (str_eqb k k1); [discriminate|]. intros H. f_equal. auto.
Qed.

Lemma al_of_list_fold_srt (ws : list (str * V)) l : Srt l -> Srt (fold_left (fun acc kv => al_insert (fst kv) (snd kv) acc) ws l).
Proof. revert l; induction ws as [|[k v] ws IH]; simpl; intros l H; auto. apply IH. apply srt_insert; auto. Qed.
Lemma al_of_list_srt (ws : list (str * V)) : Srt (gd_al_of_list ws).
Proof. apply al_of_list_fold_srt. constructor. Qed.

End AL.

(* sub-sequences that keep the keys: filter / the mismatch list *)
Section FlatMap.
Context {V W : Type}.
Variable g : str * V -> list (str * W).
Hypothesis g_shape : forall kv, g kv = [] \/ exists w, g kv = [(fst kv, w)].

Lemma flat_map_forall (P : str -> Prop) (l : list (str * V)) :
  Forall (fun kv => P (fst kv)) l -> Forall (fun kv => P (fst kv)) (flat_map g l).
Proof.
  induction 1 as [|a l H _ IH]; simpl; auto.
  destruct (g_shape a) as [E|[w E]]; rewrite E; simpl; auto.
Qed.
Lemma flat_map_srt (l : list (str * V)) : Srt l -> Srt (flat_map g l).
Proof.
  unfold Srt. induction 1 as [|a l Hs IH Hf]; simpl; [constructor|].
  destruct (g_shape a) as [E|[w E]]; rewrite E; simpl; auto.
  constructor; auto. apply (flat_map_forall (fun k => slt (fst a) k)). exact Hf.
Qed.
Lemma flat_map_find k (l : list (str * V)) : Srt l ->
  al_find k (flat_map g l) =
  match al_find k l with
  | Some v => match g (k, v) with [] => None | (_, w) :: _ => Some w end
  | None => None
  end.
Proof.
  unfold Srt. induction 1 as [|[k1 v1] l Hs IH Hf]; simpl; auto.
  destruct (str_eqb k k1) eqn:E.
  - apply gd_str_eqb_eq in E. subst k1.
    destruct (g_shape (k, v1)) as [G|[w G]]; rewrite G; simpl.
    + rewrite find_lt_none; auto. apply (flat_map_forall (fun x => slt k x)). exact Hf.
    + rewrite gd_str_eqb_refl. reflexivity.
  - destruct (g_shape (k1, v1)) as [G|[w G]]; rewrite G; simpl; auto. rewrite E. exact IH.
Qed.
End FlatMap.

Lemma filter_as_flat_map {V} (f : str * V -> bool) (l : list (str * V)) :
  filter f l = flat_map (fun kv => if f kv then [kv] else []) l.
Proof. induction l as [|a l IH]; simpl; auto. destruct (f a); simpl; rewrite IH; reflexivity. Qed.

Lemma filter_srt {V} (f : str * V -> bool) (l : list (str * V)) : Srt l -> Srt (filter f l).
Proof.
  intros H. rewrite filter_as_flat_map. apply flat_map_srt; auto.
  intros kv. destruct (f kv); [right; exists (snd kv); destruct kv; reflexivity | left; reflexivity].
Qed.
Lemma filter_find {V} (f : str * V -> bool) k (l : list (str * V)) : Srt l ->
  al_find k (filter f l) = match al_find k l with Some v => if f (k, v) then Some v else None | None => None end.
Proof.
  intros H. rewrite filter_as_flat_map, flat_map_find; auto.
  - destruct (al_find k l); auto. destruct (f (k, v)); reflexivity.
  - intros kv. destruct (f kv); [right; exists (snd kv); destruct kv; reflexivity | left; reflexivity].
Qed.

(* ================================================================ JSON equality *)

Section JsonInd.
Variable P : json -> Prop.
Hypothesis Hnull : P JNull.
Hypothesis Hbool : forall b, P (JBool b).
Hypothesis Hnum : forall m e, P (JNum m e).
Hypothesis Hstr : forall s, P (JStr s).
Hypothesis Harr : forall l, Forall P l -> P (JArr l).
Hypothesis Hobj : forall m, Forall (fun kv => P (snd kv)) m -> P (JObj m).
Fixpoint gd_json_ind (j : json) : P j :=
  match j with
  | JNull => Hnull
  | JBool b => Hbool b
  | JNum m e => Hnum m e
  | JStr s => Hstr s
  | JArr l => Harr l ((fix go (l : list json) : Forall P l :=
                         match l with [] => Forall_nil _ | x :: t => Forall_cons _ (gd_json_ind x) (go t) end) l)
  | JObj m => Hobj m ((fix go (m : list (str * json)) : Forall (fun kv => P (snd kv)) m :=
                         match m with [] => Forall_nil _ | x :: t => Forall_cons _ (gd_json_ind (snd x)) (go t) end) m)
  end.
End JsonInd.

Lemma gd_json_eqb_eq a b : gd_json_eqb a b = true <-> a = b.
Proof.
  revert b. induction a as [|x|m e|s|l H|m H] using gd_json_ind; intros j2; destruct j2 as [|y|m2 e2|s2|l2|m2];
    simpl; split; intros E; try discriminate; auto.
  - apply Bool.eqb_prop in E. congruence.
  - inversion E; subst. apply Bool.eqb_reflx.
  - apply andb_true_iff in E as [E1 E2]. apply Z.eqb_eq in E1, E2. congruence.
  - inversion E; subst. rewrite !Z.eqb_refl. reflexivity.
  - apply gd_str_eqb_eq in E. congruence.
  - inversion E; subst. apply gd_str_eqb_refl.
  - f_equal. revert l2 E. induction H as [|x l Hx _ IH]; intros [|y l2] E; try discriminate; auto.
    apply andb_true_iff in E as [E1 E2]. apply Hx in E1. apply IH in E2. congruence.
  - inversion E; subst. clear E. induction H as [|x l Hx _ IH]; auto.
    apply andb_true_iff. split; auto. apply Hx. reflexivity.
  - f_equal. revert m2 E. induction H as [|[k x] m Hx _ IH]; intros [|[k' y] m2] E; try discriminate; auto.
    apply andb_true_iff in E as [E12 E3]. apply andb_true_iff in E12 as [E1 E2].
    apply gd_str_eqb_eq in E1. simpl in Hx. apply Hx in E2. apply IH in E3. congruence.
  - inversion E; subst. clear E. induction H as [|[k x] m Hx _ IH]; auto.
    rewrite gd_str_eqb_refl. simpl. apply andb_true_iff. split; auto. simpl in Hx. apply Hx. reflexivity.
Qed.
Lemma gd_json_eqb_refl a : gd_json_eqb a a = true.
Proof. apply gd_json_eqb_eq. reflexivity. Qed.
Lemma gd_json_eqb_sym a b : gd_json_eqb a b = gd_json_eqb b a.
Proof.
  destruct (gd_json_eqb a b) eqn:E; symmetry.
  - apply gd_json_eqb_eq in E. subst. apply gd_json_eqb_refl.
  - destruct (gd_json_eqb b a) eqn:E2; auto. apply gd_json_eqb_eq in E2. subst. rewrite gd_json_eqb_refl in E. discriminate.
Qed.

(* ================================================================ diff_intent: reflexivity and swap *)

Lemma filter_none {A} (f : A -> bool) l : (forall x, In x l -> f x = false) -> filter f l = [].
Proof. induction l as [|a l IH]; simpl; intros H; auto. rewrite (H a) by auto. apply IH. intros; apply H; auto. Qed.
Lemma filter_all {A} (f : A -> bool) l : (forall x, In x l -> f x = true) -> filter f l = l.
Proof. induction l as [|a l IH]; simpl; intros H; auto. rewrite (H a) by auto. f_equal. apply IH. intros; apply H; auto. Qed.
Lemma flat_map_none {A B} (f : A -> list B) l : (forall x, In x l -> f x = []) -> flat_map f l = [].
Proof. induction l as [|a l IH]; simpl; intros H; auto. rewrite (H a) by auto. apply IH. intros; apply H; auto. Qed.

Lemma srt_all_none {V} (l : list (str * V)) : (forall k, al_find k l = None) -> l = [].
Proof. destruct l as [|[k v] l]; auto. intros H. specialize (H k). simpl in H. rewrite gd_str_eqb_refl in H. discriminate. Qed.

Lemma gd_in_find {V} k (l : list (str * V)) : gd_in k l = match al_find k l with Some _ => true | None => false end.
Proof. reflexivity. Qed.

Lemma only_self {V} (l : list (str * V)) : Srt l -> gd_only l l = [].
Proof.
  intros S. apply filter_none. intros [k v] HI. simpl. unfold gd_in. rewrite (srt_in_find k v l S HI). reflexivity.
Qed.
Lemma common_self l : Srt l -> gd_common l l = l.
Proof.
  intros S. apply filter_all. intros [k v] HI. simpl. rewrite (srt_in_find k v l S HI). apply gd_json_eqb_refl.
Qed.
Lemma mism_self l : Srt l -> gd_mism l l = [].
Proof.
  intros S. apply flat_map_none. intros [k v] HI. simpl. rewrite (srt_in_find k v l S HI), gd_json_eqb_refl. reflexivity.
Qed.

Definition gd_wf (i : intent) : Prop := Srt (i_del i) /\ Srt (i_upd i).
Definition gd_wfb (i : intent) : bool := ssorted_keysb (i_del i) && ssorted_keysb (i_upd i).
Lemma gd_wfb_wf i : gd_wfb i = true <-> gd_wf i.
Proof. unfold gd_wfb, gd_wf. rewrite andb_true_iff, !ssorted_srt. tauto. Qed.

Theorem diff_refl i : gd_wf i ->
  diff_intent i i = {| d_mdel := []; d_edel := []; d_cdel := map fst (i_del i);
                       d_mupd := []; d_eupd := []; d_cupd := i_upd i; d_mism := [] |}.
Proof.
  intros [Sd Su]. unfold diff_intent. rewrite !only_self, common_self, mism_self by auto. simpl. f_equal.
  f_equal. apply filter_all. intros [k v] HI. simpl. unfold gd_in. rewrite (srt_in_find k v _ Sd HI). reflexivity.
Qed.

Definition gd_mism_g (b : list (str * json)) (kv : str * json) : list (str * (json * json)) :=
  match al_find (fst kv) b with
  | Some vb => if gd_json_eqb (snd kv) vb then [] else [(fst kv, (snd kv, vb))]
  | None => []
  end.
Lemma gd_mism_g_shape b kv : gd_mism_g b kv = [] \/ exists w, gd_mism_g b kv = [(fst kv, w)].
Proof. unfold gd_mism_g. destruct (al_find (fst kv) b); auto. destruct (gd_json_eqb (snd kv) j); eauto. Qed.
Lemma mism_srt a b : Srt a -> Srt (gd_mism a b).
Proof. intros S. apply (flat_map_srt (gd_mism_g b)); auto. apply gd_mism_g_shape. Qed.
Lemma mism_find k a b : Srt a ->
  al_find k (gd_mism a b) =
  match al_find k a, al_find k b with
  | Some va, Some vb => if gd_json_eqb va vb then None else Some (va, vb)
  | _, _ => None
  end.
Proof.
  intros S. unfold gd_mism. rewrite (flat_map_find (gd_mism_g b)); auto using gd_mism_g_shape.
  destruct (al_find k a) as [va|]; auto. unfold gd_mism_g. simpl.
  destruct (al_find k b) as [vb|]; auto. destruct (gd_json_eqb va vb); auto.
Qed.
Lemma common_find k a b : Srt a ->
  al_find k (gd_common a b) =
  match al_find k a, al_find k b with
  | Some va, Some vb => if gd_json_eqb va vb then Some va else None
  | _, _ => None
  end.
Proof.
  intros S. unfold gd_common. rewrite filter_find; auto. simpl.
  destruct (al_find k a) as [va|]; auto. destruct (al_find k b) as [vb|]; auto.
Qed.
Lemma only_find {V W} k (a : list (str * V)) (b : list (str * W)) : Srt a ->
  al_find k (gd_only a b) = match al_find k b with Some _ => None | None => al_find k a end.
Proof.
  intros S. unfold gd_only. rewrite filter_find; auto. simpl. unfold gd_in.
  destruct (al_find k a); destruct (al_find k b); reflexivity.
Qed.
Lemma both_find {V W} k (a : list (str * V)) (b : list (str * W)) : Srt a ->
  al_find k (filter (fun kv => gd_in (fst kv) b) a) = match al_find k b with Some _ => al_find k a | None => None end.
Proof.
  intros S. rewrite filter_find; auto. simpl. unfold gd_in.
  destruct (al_find k a); destruct (al_find k b); reflexivity.
Qed.

Definition gd_swap_mm (x : str * (json * json)) : str * (json * json) := (fst x, (snd (snd x), fst (snd x))).

Lemma map_keys_srt {V W} (f : str * V -> str * W) (l : list (str * V)) :
  (forall x, fst (f x) = fst x) -> Srt l -> Srt (map f l).
Proof.
  intros Hf. unfold Srt. induction 1 as [|a l Hs IH Hfa]; simpl; constructor; auto.
  apply Forall_forall. intros y Hy. apply in_map_iff in Hy as [x [E Hx]]. subst y.
  rewrite Forall_forall in Hfa. specialize (Hfa x Hx). unfold klt in *. rewrite !Hf. exact Hfa.
Qed.
Lemma map_keys_find {V W} (f : str * V -> str * W) k (l : list (str * V)) :
  (forall x, fst (f x) = fst x) ->
  al_find k (map f l) = match al_find k l with Some v => Some (snd (f (k, v))) | None => None end.
Proof.
  intros Hf. induction l as [|[k1 v1] l IH]; simpl; auto.
  pose proof (Hf (k1, v1)) as E. destruct (f (k1, v1)) as [k2 w] eqn:F. simpl in E. subst k2.
  destruct (str_eqb k k1) eqn:Q; auto. apply gd_str_eqb_eq in Q. subst. rewrite F. reflexivity.
Qed.

Theorem diff_swap a b : gd_wf a -> gd_wf b ->
  diff_intent b a =
  let d := diff_intent a b in
  {| d_mdel := d_edel d; d_edel := d_mdel d; d_cdel := d_cdel d;
     d_mupd := d_eupd d; d_eupd := d_mupd d; d_cupd := d_cupd d;
     d_mism := map gd_swap_mm (d_mism d) |}.
Proof.
  intros [Sda Sua] [Sdb Sub]. unfold diff_intent. simpl. f_equal.
  - f_equal. apply srt_ext; auto using filter_srt. intros k. rewrite !both_find by auto.
    destruct (al_find k (i_del a)) as [[]|]; destruct (al_find k (i_del b)) as [[]|]; reflexivity.
  - apply srt_ext; auto using filter_srt. { unfold gd_common. apply filter_srt; auto. } { unfold gd_common. apply filter_srt; auto. }
    intros k. rewrite !common_find by auto.
    destruct (al_find k (i_upd a)) as [va|]; destruct (al_find k (i_upd b)) as [vb|]; auto.
    rewrite (gd_json_eqb_sym vb va). destruct (gd_json_eqb va vb) eqn:E; auto. apply gd_json_eqb_eq in E. congruence.
  - apply srt_ext.
    + apply mism_srt; auto.
    + apply map_keys_srt; [reflexivity|]. apply mism_srt; auto.
    + intros k. rewrite map_keys_find by reflexivity. rewrite !mism_find by auto.
      destruct (al_find k (i_upd a)) as [va|]; destruct (al_find k (i_upd b)) as [vb|]; auto.
      rewrite (gd_json_eqb_sym vb va). destruct (gd_json_eqb va vb); reflexivity.
Qed.

(* ================================================================ DiffSetRequestToNotifications on intents *)

Theorem notifs_exact si : Srt (i_upd si) ->
  diff_intent_notifs si (i_upd si) =
  {| sd_missing := []; sd_extra := []; sd_common := i_upd si; sd_mism := [] |}.
Proof.
  intros S. unfold diff_intent_notifs. rewrite !only_self, common_self, mism_self by auto. reflexivity.
Qed.

Theorem notifs_remove si p v : Srt (i_upd si) -> al_find p (i_upd si) = Some v ->
  diff_intent_notifs si (gd_al_remove p (i_upd si)) =
  {| sd_missing := [(p, v)]; sd_extra := []; sd_common := gd_al_remove p (i_upd si); sd_mism := [] |}.
Proof.
  intros S F. unfold diff_intent_notifs. f_equal.
  - apply srt_ext. { apply filter_srt; auto. } { repeat constructor. }
    intros k. rewrite only_find, find_remove by auto. simpl.
    destruct (str_eqb k p) eqn:E. { apply gd_str_eqb_eq in E. subst. exact F. }
    destruct (al_find k (i_upd si)); reflexivity.
  - replace (gd_only (gd_al_remove p (i_upd si)) (i_upd si)) with (@nil (str * json)); [reflexivity|].
    symmetry. apply srt_all_none. intros k. rewrite only_find by (apply srt_remove; auto). rewrite find_remove.
    destruct (al_find k (i_upd si)); auto. destruct (str_eqb k p); reflexivity.
  - apply srt_ext. { apply filter_srt; auto. } { apply srt_remove; auto. }
    intros k. rewrite common_find, find_remove by auto.
    destruct (str_eqb k p) eqn:E.
    + destruct (al_find k (i_upd si)); reflexivity.
    + destruct (al_find k (i_upd si)) as [va|]; auto. rewrite gd_json_eqb_refl. reflexivity.
  - apply srt_all_none. intros k. rewrite mism_find, find_remove by auto.
    destruct (al_find k (i_upd si)) as [va|]; auto. destruct (str_eqb k p); auto. rewrite gd_json_eqb_refl. reflexivity.
Qed.

Theorem notifs_change si p v v' : Srt (i_upd si) -> al_find p (i_upd si) = Some v -> v <> v' ->
  diff_intent_notifs si (al_insert p v' (i_upd si)) =
  {| sd_missing := []; sd_extra := []; sd_common := gd_al_remove p (i_upd si); sd_mism := [(p, (v, v'))] |}.
Proof.
  intros S F NE. unfold diff_intent_notifs. f_equal.
  - apply srt_all_none. intros k. rewrite only_find, find_insert by auto.
    destruct (str_eqb k p) eqn:E; auto. destruct (al_find k (i_upd si)); reflexivity.
  - replace (gd_only (al_insert p v' (i_upd si)) (i_upd si)) with (@nil (str * json)); [reflexivity|].
    symmetry. apply srt_all_none. intros k. rewrite only_find by (apply srt_insert; auto). rewrite find_insert.
    destruct (str_eqb k p) eqn:E. { apply gd_str_eqb_eq in E. subst. rewrite F. reflexivity. }
    destruct (al_find k (i_upd si)); reflexivity.
  - apply srt_ext. { apply filter_srt; auto. } { apply srt_remove; auto. }
    intros k. rewrite common_find, find_insert, find_remove by auto.
    destruct (str_eqb k p) eqn:E.
    + apply gd_str_eqb_eq in E. subst. rewrite F. destruct (gd_json_eqb v v') eqn:Q; auto. apply gd_json_eqb_eq in Q. contradiction.
    + destruct (al_find k (i_upd si)) as [va|]; auto. rewrite gd_json_eqb_refl. reflexivity.
  - apply srt_ext. { apply mism_srt; auto. } { repeat constructor. }
    intros k. rewrite mism_find, find_insert by auto. simpl.
    destruct (str_eqb k p) eqn:E.
    + apply gd_str_eqb_eq in E. subst. rewrite F. destruct (gd_json_eqb v v') eqn:Q; auto. apply gd_json_eqb_eq in Q. contradiction.
    + destruct (al_find k (i_upd si)) as [va|]; auto. rewrite gd_json_eqb_refl. reflexivity.
Qed.

Theorem notifs_add si p v' : Srt (i_upd si) -> al_find p (i_upd si) = None ->
  diff_intent_notifs si (al_insert p v' (i_upd si)) =
  {| sd_missing := [];
     sd_extra := if gd_under_deleted (i_del si) p then [(p, v')] else [];
     sd_common := i_upd si; sd_mism := [] |}.
Proof.
  intros S F. unfold diff_intent_notifs.
  assert (O : gd_only (al_insert p v' (i_upd si)) (i_upd si) = [(p, v')]).
  { apply srt_ext. { apply filter_srt. apply srt_insert; auto. } { repeat constructor. }
    intros k. rewrite only_find by (apply srt_insert; auto). rewrite find_insert. simpl.
    destruct (str_eqb k p) eqn:E. { apply gd_str_eqb_eq in E. subst. rewrite F. reflexivity. }
    destruct (al_find k (i_upd si)); reflexivity. }
  rewrite O. simpl. f_equal.
  - apply srt_all_none. intros k. rewrite only_find, find_insert by auto.
    destruct (str_eqb k p) eqn:E; auto. destruct (al_find k (i_upd si)); reflexivity.
  - apply srt_ext; auto. { apply filter_srt; auto. }
    intros k. rewrite common_find, find_insert by auto.
    destruct (str_eqb k p) eqn:E. { apply gd_str_eqb_eq in E. subst. rewrite F. reflexivity. }
    destruct (al_find k (i_upd si)) as [va|]; auto. rewrite gd_json_eqb_refl. reflexivity.
  - apply srt_all_none. intros k. rewrite mism_find, find_insert by auto.
    destruct (str_eqb k p) eqn:E. { apply gd_str_eqb_eq in E. subst. rewrite F. reflexivity. }
    destruct (al_find k (i_upd si)) as [va|]; auto. rewrite gd_json_eqb_refl. reflexivity.
Qed.

(* ================================================================ the intent machine *)

Lemma bind_ok {A B} (r : result A) (f : A -> result B) b : bind r f = Ok b <-> exists a, r = Ok a /\ f a = Ok b.
Proof. destruct r as [x| |]; simpl; split; intros H; try discriminate; eauto; destruct H as [y [H1 H2]]; try discriminate. inversion H1; subst; auto. Qed.

Lemma mapM_ok_app {A B} (f : A -> result B) l1 l2 r :
  mapM f (l1 ++ l2) = Ok r <-> exists r1 r2, mapM f l1 = Ok r1 /\ mapM f l2 = Ok r2 /\ r = r1 ++ r2.
Proof.
  revert r. induction l1 as [|x l1 IH]; simpl; intros r.
  - split. { intros H. exists [], r. auto. } intros [r1 [r2 [H1 [H2 H3]]]]. inversion H1; subst. exact H2.
  - rewrite bind_ok. split.
    + intros [y [Hy H]]. apply bind_ok in H as [ys [Hys H]]. inversion H; subst. apply IH in Hys as [r1 [r2 [H1 [H2 H3]]]].
      exists (y :: r1), r2. rewrite Hy, H1. simpl. subst. auto.
    + intros [r1 [r2 [H1 [H2 H3]]]]. apply bind_ok in H1 as [y [Hy H1]]. apply bind_ok in H1 as [ys [Hys H1]]. inversion H1; subst.
      exists y. split; auto. apply bind_ok. exists (ys ++ r2). split; auto. apply IH. eauto.
Qed.

Section Machine.
Variable cfg : gd_cfg.
Variable fo : gd_oracle.

Inductive gd_op := OMark (k : str) | OPop (k : str) (c : gd_contrib).

Definition gd_apply (prio : bool) (it : intent) (path : str) (c : gd_contrib) : result intent :=
  match c with
  | CLeaf v =>
      bind (gd_write_update cfg true (i_upd it) path v) (fun u =>
        Ok {| i_del := gd_al_remove path (i_del it); i_upd := u |})
  | CSub ws =>
      bind (gd_write_all cfg prio true (i_upd it) (map (fun kv => (path ++ fst kv, snd kv)) ws)) (fun u =>
        Ok {| i_del := i_del it; i_upd := u |})
  end.

Lemma populate_apply prio it path tv :
  gd_populate cfg fo prio true it path tv =
  if last_rune path =? SLASH then Err else bind (gd_classify cfg fo tv) (fun c => gd_apply prio it path c).
Proof. unfold gd_populate, gd_apply. destruct (last_rune path =? SLASH); reflexivity. Qed.

Definition run_op (prio : bool) (s : gd_st) (o : gd_op) : result gd_st :=
  match o with
  | OMark k => gd_mark s k
  | OPop k c => bind (gd_apply prio (s_int s) k c) (fun it => Ok {| s_int := it; s_tk := s_tk s |})
  end.
Fixpoint run_ops (prio : bool) (s : gd_st) (ops : list gd_op) : result gd_st :=
  match ops with
  | [] => Ok s
  | o :: t => bind (run_op prio s o) (fun s' => run_ops prio s' t)
  end.

Lemma run_ops_app prio s a b : run_ops prio s (a ++ b) = bind (run_ops prio s a) (fun s1 => run_ops prio s1 b).
Proof. revert s; induction a as [|o a IH]; simpl; intros s; auto. destruct (run_op prio s o); simpl; auto. Qed.

(* resolution of one update / replace: everything that does not depend on the state *)
Definition res_upd (fp : gpath -> result str) (u : gpath * tval) : result (str * gd_contrib) :=
  bind (fp (fst u)) (fun path =>
    if last_rune path =? SLASH then Err else bind (gd_classify cfg fo (snd u)) (fun c => Ok (path, c))).

Definition ops_marks (ks : list str) : list gd_op := map OMark ks.
Definition ops_reps (gs : list (str * gd_contrib)) : list gd_op :=
  flat_map (fun g => [OMark (fst g); OPop (fst g) (snd g)]) gs.
Definition ops_pops (gs : list (str * gd_contrib)) : list gd_op := map (fun g => OPop (fst g) (snd g)) gs.

Lemma do_dels_ok fp prio s ds s' :
  gd_do_dels fp s ds = Ok s' <-> exists ks, mapM fp ds = Ok ks /\ run_ops prio s (ops_marks ks) = Ok s'.
Proof.
  revert s. induction ds as [|d ds IH]; simpl; intros s.
  - split. { intros H. exists []. auto. } intros [ks [H1 H2]]. inversion H1; subst. exact H2.
  - rewrite bind_ok. split.
    + intros [path [Hp H]]. apply bind_ok in H as [s1 [Hm H]]. apply IH in H as [ks [H1 H2]].
      exists (path :: ks). rewrite Hp, H1. simpl. rewrite Hm. simpl. auto.
    + intros [ks [H1 H2]]. apply bind_ok in H1 as [path [Hp H1]]. apply bind_ok in H1 as [ks' [Hks H1]]. inversion H1; subst.
      simpl in H2. apply bind_ok in H2 as [s1 [Hm H2]]. exists path. split; auto. apply bind_ok. exists s1. split; auto. apply IH. eauto.
Qed.

Lemma do_reps_ok fp prio s rs s' :
  gd_do_reps cfg fo prio fp s rs = Ok s' <-> exists gs, mapM (res_upd fp) rs = Ok gs /\ run_ops prio s (ops_reps gs) = Ok s'.
Proof.
  revert s. induction rs as [|[p tv] rs IH]; simpl; intros s.
  - split. { intros H. exists []. auto. } intros [gs [H1 H2]]. inversion H1; subst. exact H2.
  - split.
    + intros H. apply bind_ok in H as [path [Hp H]]. apply bind_ok in H as [s1 [Hm H]].
      apply bind_ok in H as [it [Hpop H]]. apply IH in H as [gs [H1 H2]].
      rewrite populate_apply in Hpop. destruct (last_rune path =? SLASH) eqn:SL; [discriminate|].
      apply bind_ok in Hpop as [c [Hc Ha]].
      exists ((path, c) :: gs). unfold res_upd at 1. simpl. rewrite Hp. simpl. rewrite SL, Hc. simpl. rewrite H1. simpl.
      split; auto. rewrite Hm. simpl. assert (E : s_tk s1 = s_tk s1) by reflexivity.
      unfold gd_mark in Hm. destruct (al_find path (i_del (s_int s))); [discriminate|]. inversion Hm; subst. simpl in *.
      rewrite Ha. simpl. exact H2.
    + intros [gs [H1 H2]]. apply bind_ok in H1 as [g [Hg H1]]. apply bind_ok in H1 as [gs' [Hgs H1]]. inversion H1; subst.
      unfold res_upd in Hg. simpl in Hg. apply bind_ok in Hg as [path [Hp Hg]].
      destruct (last_rune path =? SLASH) eqn:SL; [discriminate|]. apply bind_ok in Hg as [c [Hc Hg]]. inversion Hg; subst.
      simpl in H2. apply bind_ok in H2 as [s1 [Hm H2]]. apply bind_ok in H2 as [s2 [Ha H2]].
      apply bind_ok in Ha as [it [Ha E]]. inversion E; subst.
      apply bind_ok. exists path. split; auto. apply bind_ok. exists s1. split; auto.
      apply bind_ok. exists it. split. { rewrite populate_apply, SL, Hc. simpl. exact Ha. }
      apply IH. eauto.
Qed.

Lemma do_upds_ok fp prio it tk us it' :
  gd_do_upds cfg fo prio fp true it us = Ok it' <->
  exists gs, mapM (res_upd fp) us = Ok gs /\
             run_ops prio {| s_int := it; s_tk := tk |} (ops_pops gs) = Ok {| s_int := it'; s_tk := tk |}.
Proof.
  revert it. induction us as [|[p tv] us IH]; simpl; intros it.
  - split. { intros H. inversion H; subst. exists []. auto. } intros [gs [H1 H2]]. inversion H1; subst. simpl in H2. inversion H2; auto.
  - split.
    + intros H. apply bind_ok in H as [path [Hp H]]. apply bind_ok in H as [it1 [Hpop H]]. apply IH in H as [gs [H1 H2]].
      rewrite populate_apply in Hpop. destruct (last_rune path =? SLASH) eqn:SL; [discriminate|].
      apply bind_ok in Hpop as [c [Hc Ha]].
      exists ((path, c) :: gs). unfold res_upd at 1. simpl. rewrite Hp. simpl. rewrite SL, Hc. simpl. rewrite H1. simpl.
      split; auto. rewrite Ha. simpl. exact H2.
    + intros [gs [H1 H2]]. apply bind_ok in H1 as [g [Hg H1]]. apply bind_ok in H1 as [gs' [Hgs H1]]. inversion H1; subst.
      unfold res_upd in Hg. simpl in Hg. apply bind_ok in Hg as [path [Hp Hg]].
      destruct (last_rune path =? SLASH) eqn:SL; [discriminate|]. apply bind_ok in Hg as [c [Hc Hg]]. inversion Hg; subst.
      simpl in H2. apply bind_ok in H2 as [s2 [Ha H2]]. apply bind_ok in Ha as [it1 [Ha E]]. inversion E; subst. simpl in *.
      apply bind_ok. exists path. split; auto. apply bind_ok. exists it1. split. { rewrite populate_apply, SL, Hc. simpl. exact Ha. }
      apply IH. eauto.
Qed.

Definition gd_st0 : gd_st := {| s_int := {| i_del := []; i_upd := [] |}; s_tk := [] |}.

(* a successful minimalSetRequestIntent, as one run of the machine *)
Lemma minimal_intent_ok prio r i :
  gd_minimal_intent_p cfg fo prio r = Ok i <->
  exists pre ks rg ug s2 s3,
    path_str (sr_prefix r) = Ok pre /\
    mapM (gd_full_path pre) (sr_del r) = Ok ks /\
    mapM (res_upd (gd_full_path pre)) (sr_rep r) = Ok rg /\
    mapM (res_upd (gd_full_path pre)) (sr_upd r) = Ok ug /\
    run_ops prio gd_st0 (ops_marks ks ++ ops_reps rg) = Ok s2 /\
    gd_prefix_conflict (s_tk s2) = false /\
    run_ops prio s2 (ops_pops ug) = Ok s3 /\
    gd_prefix_conflict (map fst (i_upd (s_int s3))) = false /\
    i = s_int s3.
Proof.
  unfold gd_minimal_intent_p, gd_process. split.
  - intros H. apply bind_ok in H as [pre [Hpre H]]. apply bind_ok in H as [s1 [Hd H]]. apply bind_ok in H as [s2 [Hr H]].
    destruct (gd_prefix_conflict (s_tk s2)) eqn:C1; [discriminate|]. apply bind_ok in H as [it [Hu H]].
    destruct (gd_prefix_conflict (map fst (i_upd it))) eqn:C2; [discriminate|]. inversion H; subst.
    apply (do_dels_ok _ prio) in Hd as [ks [Hk Hd]]. apply do_reps_ok in Hr as [rg [Hrg Hr]].
    apply (do_upds_ok _ _ _ (s_tk s2)) in Hu as [ug [Hug Hu]].
    exists pre, ks, rg, ug, s2, {| s_int := i; s_tk := s_tk s2 |}. repeat split; auto.
    + rewrite run_ops_app. unfold gd_st0. rewrite Hd. simpl. exact Hr.
    + destruct s2; exact Hu.
  - intros [pre [ks [rg [ug [s2 [s3 [Hpre [Hk [Hrg [Hug [H12 [C1 [H3 [C2 E]]]]]]]]]]]]]]. subst i.
    rewrite run_ops_app in H12. apply bind_ok in H12 as [s1 [Hd Hr]].
    apply bind_ok. exists pre. split; auto. apply bind_ok. exists s1. split. { apply (do_dels_ok _ prio). eauto. }
    apply bind_ok. exists s2. split. { apply do_reps_ok. eauto. }
    rewrite C1. apply bind_ok. exists (s_int s3). split.
    + apply (do_upds_ok _ _ _ (s_tk s2)). exists ug. split; auto.
      assert (T : s_tk s3 = s_tk s2).
      { clear -H3. revert s2 H3. unfold ops_pops. induction ug as [|g ug IH]; simpl; intros s2 H3. { inversion H3; auto. }
        apply bind_ok in H3 as [s' [H H3]]. apply bind_ok in H as [it [_ E]]. inversion E; subst. apply IH in H3. exact H3. }
      destruct s2 as [i2 t2], s3 as [i3 t3]. simpl in *. subst. exact H3.
    + rewrite C2. reflexivity.
Qed.

End Machine.

(* ================================================================ what a successful run computes *)

Section Sem.
Variable cfg : gd_cfg.

Definition op_writes (o : gd_op) : list (str * json) :=
  match o with
  | OPop k (CLeaf v) => [(k, v)]
  | OPop k (CSub ws) => map (fun kv => (k ++ fst kv, snd kv)) ws
  | OMark _ => []
  end.
Definition all_writes (ops : list gd_op) : list (str * json) := flat_map op_writes ops.
Definition op_wf (o : gd_op) : Prop := match o with OPop _ (CSub ws) => NoDup (map fst ws) | _ => True end.
Definition del_step (k : str) (b : bool) (o : gd_op) : bool :=
  match o with
  | OMark k' => if str_eqb k k' then true else b
  | OPop k' (CLeaf _) => if str_eqb k k' then false else b
  | OPop _ (CSub _) => b
  end.
Definition del_sem (ops : list gd_op) (k : str) (b : bool) : bool := fold_left (del_step k) ops b.
Definition op_marks (o : gd_op) : list str := match o with OMark k => [k] | _ => [] end.

Definition ins_all (ws m : list (str * json)) : list (str * json) :=
  fold_left (fun acc kv => al_insert (fst kv) (snd kv) acc) ws m.

Lemma write_check_ok m k v :
  gd_write_check cfg true m k v = WOk -> al_find k m = None \/ al_find k m = Some v.
Proof.
  unfold gd_write_check. simpl. destruct (al_find k m) as [pv|]; auto.
  destruct (negb (cfg_deep_equal cfg) && gd_is_arr v && gd_is_arr pv); [discriminate|].
  destruct (gd_json_eqb v pv) eqn:E; [|discriminate]. apply gd_json_eqb_eq in E. subst. auto.
Qed.

Lemma write_all_ok prio m ws m' :
  gd_write_all cfg prio true m ws = Ok m' ->
  (forall kv, In kv ws -> gd_write_check cfg true m (fst kv) (snd kv) = WOk) /\ m' = ins_all ws m.
Proof.
  unfold gd_write_all. set (sts := map (fun kv => gd_write_check cfg true m (fst kv) (snd kv)) ws).
  destruct (existsb gd_is_err sts) eqn:E.
  - destruct (existsb gd_is_panic sts && (prio || negb true)); discriminate.
  - destruct (existsb gd_is_panic sts) eqn:P; simpl.
    + rewrite orb_true_r. discriminate.
    + intros H. inversion H; subst. split; auto. intros kv HI.
      assert (HS : In (gd_write_check cfg true m (fst kv) (snd kv)) sts) by (unfold sts; apply in_map_iff; eauto).
      destruct (gd_write_check cfg true m (fst kv) (snd kv)) eqn:W; auto.
      * assert (X : existsb gd_is_err sts = true) by (apply existsb_exists; eexists; split; eauto). congruence.
      * assert (X : existsb gd_is_panic sts = true) by (apply existsb_exists; eexists; split; eauto). congruence.
Qed.

Lemma ins_all_notin k ws m : ~ In k (map fst ws) -> al_find k (ins_all ws m) = al_find k m.
Proof.
  revert m. induction ws as [|[k1 v1] ws IH]; simpl; intros m H; auto.
  unfold ins_all in *. simpl. rewrite IH by tauto. rewrite find_insert.
  destruct (str_eqb k k1) eqn:E; auto. apply gd_str_eqb_eq in E. subst. tauto.
Qed.
Lemma ins_all_in k v ws m : NoDup (map fst ws) -> In (k, v) ws -> al_find k (ins_all ws m) = Some v.
Proof.
  revert m. induction ws as [|[k1 v1] ws IH]; simpl; intros m ND HI; [contradiction|].
  inversion ND; subst. unfold ins_all in *. simpl. destruct HI as [HI|HI].
  - inversion HI; subst. fold (ins_all ws (al_insert k v m)). rewrite ins_all_notin by auto. rewrite find_insert, gd_str_eqb_refl. reflexivity.
  - apply IH; auto.
Qed.
Lemma ins_all_srt ws m : Srt m -> Srt (ins_all ws m).
Proof. apply al_of_list_fold_srt. Qed.

Definition st_upd (s : gd_st) := i_upd (s_int s).
Definition st_del (s : gd_st) := i_del (s_int s).

Definition sem_rel (s : gd_st) (ops : list gd_op) (s' : gd_st) : Prop :=
  Srt (st_upd s') /\ Srt (st_del s') /\
  (forall k v, al_find k (st_upd s) = Some v -> al_find k (st_upd s') = Some v) /\
  (forall k v, In (k, v) (all_writes ops) -> al_find k (st_upd s') = Some v) /\
  (forall k, ~ In k (map fst (all_writes ops)) -> al_find k (st_upd s') = al_find k (st_upd s)) /\
  (forall k, gd_in k (st_del s') = del_sem ops k (gd_in k (st_del s))) /\
  s_tk s' = rev (flat_map op_marks ops) ++ s_tk s.

Lemma app_keys_nodup (k : str) (ws : list (str * json)) :
  NoDup (map fst ws) -> NoDup (map fst (map (fun kv => (k ++ fst kv, snd kv)) ws)).
Proof.
  rewrite map_map. simpl. induction ws as [|[k1 v1] ws IH]; simpl; intros H; constructor; inversion H; subst; auto.
  intros HI. apply in_map_iff in HI as [[k2 v2] [E HI]]. simpl in E. apply app_inv_head in E. subst k2.
  apply H2. apply in_map_iff. exists (k1, v2). auto.
Qed.

Lemma step_sem prio s o s' :
  run_op cfg prio s o = Ok s' -> op_wf o -> Srt (st_upd s) -> Srt (st_del s) -> sem_rel s [o] s'.
Proof.
  unfold sem_rel, st_upd, st_del, all_writes, del_sem. simpl. rewrite app_nil_r.
  destruct o as [k|k [v|ws]]; simpl; intros H WF Su Sd.
  - unfold gd_mark in H. destruct (al_find k (i_del (s_int s))) eqn:F; [discriminate|]. inversion H; subst. simpl.
    repeat split; auto; try (apply srt_insert; auto; fail); try (intros ? ? []; fail).
    intros k0. unfold gd_in. rewrite find_insert. destruct (str_eqb k0 k); reflexivity.
  - apply bind_ok in H as [it [H E]]. inversion E; subst. simpl. apply bind_ok in H as [u [H E2]]. inversion E2; subst. simpl.
    unfold gd_write_update in H. destruct (gd_write_check cfg true (i_upd (s_int s)) k v) eqn:W; try discriminate. inversion H; subst.
    apply write_check_ok in W.
    repeat split; auto.
    + apply srt_insert; auto.
    + apply srt_remove; auto.
    + intros k0 v0 F. rewrite find_insert. destruct (str_eqb k0 k) eqn:Q; auto. apply gd_str_eqb_eq in Q. subst.
      destruct W as [W|W]; congruence.
    + intros k0 v0 [HI|[]]. inversion HI; subst. rewrite find_insert, gd_str_eqb_refl. reflexivity.
    + intros k0 HN. rewrite find_insert. destruct (str_eqb k0 k) eqn:Q; auto. apply gd_str_eqb_eq in Q. subst. exfalso. apply HN. left; reflexivity.
    + intros k0. unfold gd_in. rewrite find_remove. destruct (str_eqb k0 k); reflexivity.
  - apply bind_ok in H as [it [H E]]. inversion E; subst. simpl. apply bind_ok in H as [u [H E2]]. inversion E2; subst. simpl.
    apply write_all_ok in H as [HC HE]. subst u. pose proof (app_keys_nodup k ws WF) as ND.
    repeat split; auto.
    + apply ins_all_srt; auto.
    + intros k0 v0 F. destruct (in_dec (list_eq_dec N.eq_dec) k0 (map fst (map (fun kv => (k ++ fst kv, snd kv)) ws))) as [HI|HN].
      * apply in_map_iff in HI as [[k1 v1] [Q HI]]. simpl in Q. subst k1. rewrite (ins_all_in k0 v1) by auto.
        specialize (HC _ HI). simpl in HC. apply write_check_ok in HC. destruct HC; congruence.
      * rewrite ins_all_notin by auto. exact F.
    + intros k0 v0 HI. apply ins_all_in; auto.
    + intros k0 HN. apply ins_all_notin; auto.
Qed.

Lemma run_ops_sem prio ops : forall s s',
  run_ops cfg prio s ops = Ok s' -> Forall op_wf ops -> Srt (st_upd s) -> Srt (st_del s) -> sem_rel s ops s'.
Proof.
  induction ops as [|o ops IH]; simpl; intros s s' H WF Su Sd.
  - inversion H; subst. unfold sem_rel. simpl. repeat split; auto. intros k v [].
  - apply bind_ok in H as [s1 [H1 H2]]. inversion WF; subst.
    destruct (step_sem prio s o s1 H1 H3 Su Sd) as [A1 [A2 [A3 [A4 [A5 [A6 A7]]]]]].
    destruct (IH s1 s' H2 H4 A1 A2) as [B1 [B2 [B3 [B4 [B5 [B6 B7]]]]]].
    unfold all_writes in *. simpl in *. rewrite app_nil_r in *.
    unfold sem_rel, all_writes. simpl. repeat split; auto.
    + intros k v HI. apply in_app_or in HI as [HI|HI]; auto.
    + intros k HN. rewrite B5, A5; auto; intros X; apply HN; rewrite map_app; apply in_or_app; auto.
    + intros k. rewrite B6, A6. reflexivity.
    + rewrite B7, A7. rewrite rev_app_distr, <- app_assoc. reflexivity.
Qed.

Lemma unit_find_in (l : list (str * unit)) k : al_find k l = if gd_in k l then Some tt else None.
Proof. unfold gd_in. destruct (al_find k l) as [[]|]; reflexivity. Qed.

(* Two successful runs from the same state that perform the same set of leaf writes and treat
   every delete marker alike end in the same intent. *)
Theorem runs_agree prio1 prio2 s opsA opsB sa sb :
  run_ops cfg prio1 s opsA = Ok sa -> run_ops cfg prio2 s opsB = Ok sb ->
  Forall op_wf opsA -> Forall op_wf opsB -> Srt (st_upd s) -> Srt (st_del s) ->
  (forall kv, In kv (all_writes opsA) <-> In kv (all_writes opsB)) ->
  (forall k, del_sem opsA k (gd_in k (st_del s)) = del_sem opsB k (gd_in k (st_del s))) ->
  s_int sa = s_int sb.
Proof.
  intros HA HB WA WB Su Sd HW HD.
  destruct (run_ops_sem _ _ _ _ HA WA Su Sd) as [A1 [A2 [A3 [A4 [A5 [A6 A7]]]]]].
  destruct (run_ops_sem _ _ _ _ HB WB Su Sd) as [B1 [B2 [B3 [B4 [B5 [B6 B7]]]]]].
  assert (EU : st_upd sa = st_upd sb).
  { apply srt_ext; auto. intros k.
    destruct (in_dec (list_eq_dec N.eq_dec) k (map fst (all_writes opsA))) as [HI|HN].
    - apply in_map_iff in HI as [[k1 v1] [E HI]]. simpl in E. subst k1. rewrite (A4 _ _ HI). apply HW in HI. rewrite (B4 _ _ HI). reflexivity.
    - rewrite A5 by auto. rewrite B5; auto. intros HI. apply HN. apply in_map_iff in HI as [[k1 v1] [E HI]]. simpl in E. subst k1.
      apply HW in HI. apply in_map_iff. exists (k, v1). auto. }
  assert (ED : st_del sa = st_del sb).
  { apply srt_ext; auto. intros k. rewrite !unit_find_in, A6, B6, HD. reflexivity. }
  unfold st_upd, st_del in *. destruct (s_int sa), (s_int sb). simpl in *. congruence.
Qed.

End Sem.

(* ================================================================ rewrites of a SetRequest *)

Lemma mapM_perm {A B} (f : A -> result B) l l' : Permutation l l' ->
  forall r, mapM f l = Ok r -> exists r', mapM f l' = Ok r' /\ Permutation r r'.
Proof.
  induction 1; intros r Hr.
  - exists r. auto.
  - simpl in *. apply bind_ok in Hr as [y [Hy Hr]]. apply bind_ok in Hr as [ys [Hys Hr]]. inversion Hr; subst.
    destruct (IHPermutation _ Hys) as [r' [H1 H2]]. exists (y :: r'). rewrite Hy, H1. simpl. auto.
  - simpl in *. apply bind_ok in Hr as [a [Ha Hr]]. apply bind_ok in Hr as [r1 [Hr1 Hr]]. inversion Hr; subst.
    apply bind_ok in Hr1 as [b [Hb Hr1]]. apply bind_ok in Hr1 as [r2 [Hr2 Hr1]]. inversion Hr1; subst.
    exists (b :: a :: r2). rewrite Hb, Ha, Hr2. simpl. split; auto. constructor.
  - destruct (IHPermutation1 _ Hr) as [r1 [H1 P1]]. destruct (IHPermutation2 _ H1) as [r2 [H2 P2]].
    exists r2. split; auto. eapply perm_trans; eauto.
Qed.

Lemma mapM_in {A B} (f : A -> result B) l r x : mapM f l = Ok r -> In x l -> exists y, f x = Ok y /\ In y r.
Proof.
  revert r. induction l as [|a l IH]; simpl; intros r H HI; [contradiction|].
  apply bind_ok in H as [y [Hy H]]. apply bind_ok in H as [ys [Hys H]]. inversion H; subst.
  destruct HI as [HI|HI]. { subst. exists y. split; auto. left; auto. }
  destruct (IH _ Hys HI) as [z [Hz HI2]]. exists z. split; auto. right; auto.
Qed.

Lemma mapM_cons_ok {A B} (f : A -> result B) x l r :
  mapM f (x :: l) = Ok r <-> exists y ys, f x = Ok y /\ mapM f l = Ok ys /\ r = y :: ys.
Proof.
  simpl. rewrite bind_ok. split.
  - intros [y [Hy H]]. apply bind_ok in H as [ys [Hys H]]. inversion H; subst. eauto.
  - intros [y [ys [Hy [Hys E]]]]. subst. exists y. split; auto. rewrite Hys. reflexivity.
Qed.

Section Rewrites.
Variable cfg : gd_cfg.
Variable fo : gd_oracle.

Lemma classify_wf tv ws : gd_classify cfg fo tv = Ok (CSub ws) -> NoDup (map fst ws).
Proof.
  unfold gd_classify. destruct tv; simpl; try (intros H; apply bind_ok in H as [v [_ H]]; discriminate); try discriminate.
  intros H. apply bind_ok in H as [ups [Hf H]]. unfold gd_flatten_json in Hf. apply bind_ok in Hf as [fl [_ Hf]]. inversion Hf; subst.
  assert (S : Srt (gd_al_of_list fl)) by apply al_of_list_srt.
  destruct (gd_al_of_list fl) as [|[k v] [|x t]] eqn:E.
  - inversion H; subst. constructor.
  - destruct (nil_b k); inversion H; subst. apply srt_nodup. exact S.
  - inversion H; subst. apply srt_nodup. exact S.
Qed.

Lemma res_wf fp us gs : mapM (res_upd cfg fo fp) us = Ok gs -> Forall (fun g => op_wf (OPop (fst g) (snd g))) gs.
Proof.
  revert gs. induction us as [|u us IH]; intros gs H.
  - inversion H; subst. constructor.
  - apply mapM_cons_ok in H as [g [gs' [Hg [Hgs E]]]]. subst. constructor; auto.
    unfold res_upd in Hg. apply bind_ok in Hg as [path [_ Hg]]. destruct (last_rune path =? SLASH); [discriminate|].
    apply bind_ok in Hg as [c [Hc Hg]]. inversion Hg; subst. simpl. destruct c as [v|ws]; simpl; auto. eapply classify_wf; eauto.
Qed.

Lemma wf_marks ks : Forall op_wf (ops_marks ks).
Proof. unfold ops_marks. apply Forall_forall. intros o HI. apply in_map_iff in HI as [k [E _]]. subst. exact I. Qed.
Lemma wf_pops gs : Forall (fun g => op_wf (OPop (fst g) (snd g))) gs -> Forall op_wf (ops_pops gs).
Proof. unfold ops_pops. induction 1; simpl; constructor; auto. Qed.
Lemma wf_reps gs : Forall (fun g => op_wf (OPop (fst g) (snd g))) gs -> Forall op_wf (ops_reps gs).
Proof. unfold ops_reps. induction 1; simpl; repeat constructor; auto. Qed.

(* one machine run for a successful request *)
Lemma minimal_intent_run prio r i :
  gd_minimal_intent_p cfg fo prio r = Ok i ->
  exists pre ks rg ug s3,
    path_str (sr_prefix r) = Ok pre /\
    mapM (gd_full_path pre) (sr_del r) = Ok ks /\
    mapM (res_upd cfg fo (gd_full_path pre)) (sr_rep r) = Ok rg /\
    mapM (res_upd cfg fo (gd_full_path pre)) (sr_upd r) = Ok ug /\
    run_ops cfg prio gd_st0 ((ops_marks ks ++ ops_reps rg) ++ ops_pops ug) = Ok s3 /\
    Forall op_wf ((ops_marks ks ++ ops_reps rg) ++ ops_pops ug) /\
    i = s_int s3.
Proof.
  intros H. apply minimal_intent_ok in H as [pre [ks [rg [ug [s2 [s3 [H1 [H2 [H3 [H4 [H5 [_ [H7 [_ H9]]]]]]]]]]]]]].
  exists pre, ks, rg, ug, s3. repeat split; auto.
  - rewrite run_ops_app, H5. simpl. exact H7.
  - apply Forall_app. split; [apply Forall_app; split|].
    + apply wf_marks. + apply wf_reps. eapply res_wf; eauto. + apply wf_pops. eapply res_wf; eauto.
Qed.

Lemma st0_srt : Srt (st_upd gd_st0) /\ Srt (st_del gd_st0).
Proof. split; constructor. Qed.

Lemma all_writes_app a b : all_writes (a ++ b) = all_writes a ++ all_writes b.
Proof. unfold all_writes. apply flat_map_app. Qed.
Lemma del_sem_app a b k x : del_sem (a ++ b) k x = del_sem b k (del_sem a k x).
Proof. unfold del_sem. apply fold_left_app. Qed.

Definition is_leaf_at (k : str) (g : str * gd_contrib) : bool :=
  match snd g with CLeaf _ => str_eqb k (fst g) | CSub _ => false end.
Lemma del_sem_pops gs k b : del_sem (ops_pops gs) k b = if existsb (is_leaf_at k) gs then false else b.
Proof.
  revert b. induction gs as [|[k1 [v|ws]] gs IH]; simpl; intros b; auto.
  unfold del_sem in *. simpl. rewrite IH. unfold is_leaf_at at 2. simpl. destruct (str_eqb k k1); simpl; auto.
    destruct (existsb (is_leaf_at k) gs); reflexivity.
Qed.
Lemma all_writes_pops_perm g g' : Permutation g g' -> Permutation (all_writes (ops_pops g)) (all_writes (ops_pops g')).
Proof.
  unfold all_writes, ops_pops. induction 1; simpl; auto.
  - apply Permutation_app_head. exact IHPermutation.
  - rewrite !app_assoc. apply Permutation_app_tail. apply Permutation_app_comm.
  - eapply perm_trans; eauto.
Qed.
Lemma existsb_perm {A} (f : A -> bool) l l' : Permutation l l' -> existsb f l = existsb f l'.
Proof.
  intros P. destruct (existsb f l) eqn:E; symmetry.
  - apply existsb_exists in E as [x [HI Hx]]. apply existsb_exists. exists x. split; auto. eapply Permutation_in; eauto.
  - destruct (existsb f l') eqn:E'; auto. apply existsb_exists in E' as [x [HI Hx]].
    assert (existsb f l = true) by (apply existsb_exists; exists x; split; auto; eapply Permutation_in; [apply Permutation_sym|]; eauto). congruence.
Qed.

Lemma ok_inj {A} (a b : A) : Ok a = Ok b -> a = b.
Proof. intros H; inversion H; auto. Qed.

(* ---- reordered updates ---- *)
Theorem reorder_updates prio1 prio2 pre ds rs us us' i i' : Permutation us us' ->
  gd_minimal_intent_p cfg fo prio1 {| sr_prefix := pre; sr_del := ds; sr_rep := rs; sr_upd := us |} = Ok i ->
  gd_minimal_intent_p cfg fo prio2 {| sr_prefix := pre; sr_del := ds; sr_rep := rs; sr_upd := us' |} = Ok i' ->
  i = i'.
Proof.
  intros P H1 H2.
  apply minimal_intent_run in H1 as [p1 [ks [rg [ug [s3 [A1 [A2 [A3 [A4 [A5 [A6 A7]]]]]]]]]]].
  apply minimal_intent_run in H2 as [p2 [ks' [rg' [ug' [s3' [B1 [B2 [B3 [B4 [B5 [B6 B7]]]]]]]]]]].
  simpl in *. rewrite A1 in B1. apply ok_inj in B1. subst p2. rewrite A2 in B2. apply ok_inj in B2. subst ks'.
  rewrite A3 in B3. apply ok_inj in B3. subst rg'.
  destruct (mapM_perm _ _ _ P _ A4) as [ug2 [C1 C2]]. rewrite B4 in C1. apply ok_inj in C1. subst ug2.
  subst i i'. destruct st0_srt as [Su Sd].
  eapply runs_agree; eauto.
  - intros kv. rewrite !all_writes_app. rewrite !in_app_iff.
    assert (X : In kv (all_writes (ops_pops ug)) <-> In kv (all_writes (ops_pops ug'))).
    { split; apply Permutation_in; [|apply Permutation_sym]; apply all_writes_pops_perm; auto. }
    tauto.
  - intros k. rewrite !del_sem_app, !del_sem_pops. rewrite (existsb_perm _ _ _ C2). reflexivity.
Qed.

(* ---- a duplicated update: when both requests are accepted, they mean the same ---- *)
Theorem dup_update_agree prio1 prio2 pre ds rs l1 l2 u i i' : In u (l1 ++ l2) ->
  gd_minimal_intent_p cfg fo prio1 {| sr_prefix := pre; sr_del := ds; sr_rep := rs; sr_upd := l1 ++ l2 |} = Ok i ->
  gd_minimal_intent_p cfg fo prio2 {| sr_prefix := pre; sr_del := ds; sr_rep := rs; sr_upd := l1 ++ u :: l2 |} = Ok i' ->
  i = i'.
Proof.
  intros HI H1 H2.
  apply minimal_intent_run in H1 as [p1 [ks [rg [ug [s3 [A1 [A2 [A3 [A4 [A5 [A6 A7]]]]]]]]]]].
  apply minimal_intent_run in H2 as [p2 [ks' [rg' [ug' [s3' [B1 [B2 [B3 [B4 [B5 [B6 B7]]]]]]]]]]].
  simpl in *. rewrite A1 in B1. apply ok_inj in B1. subst p2. rewrite A2 in B2. apply ok_inj in B2. subst ks'.
  rewrite A3 in B3. apply ok_inj in B3. subst rg'.
  apply mapM_ok_app in A4 as [g1 [g2 [G1 [G2 E]]]]. subst ug.
  apply mapM_ok_app in B4 as [g1' [g2' [G1' [G2' E]]]]. subst ug'.
  apply mapM_cons_ok in G2' as [g [g2'' [Gu [G2'' E]]]]. subst g2'.
  rewrite G1 in G1'. apply ok_inj in G1'. subst g1'. rewrite G2 in G2''. apply ok_inj in G2''. subst g2''.
  assert (GI : In g (g1 ++ g2)).
  { assert (M : mapM (res_upd cfg fo (gd_full_path p1)) (l1 ++ l2) = Ok (g1 ++ g2)) by (apply mapM_ok_app; eauto).
    destruct (mapM_in _ _ _ _ M HI) as [y [Hy HIy]]. rewrite Gu in Hy. apply ok_inj in Hy. subst. exact HIy. }
  subst i i'. destruct st0_srt as [Su Sd].
  eapply runs_agree; eauto.
  - intros kv. rewrite !all_writes_app, !in_app_iff. unfold ops_pops. rewrite !map_app. simpl. rewrite !all_writes_app. simpl.
    unfold all_writes at 4. simpl. rewrite !in_app_iff.
    assert (X : In kv (op_writes (OPop (fst g) (snd g))) -> In kv (all_writes (map (fun g0 => OPop (fst g0) (snd g0)) g1)) \/ In kv (all_writes (map (fun g0 => OPop (fst g0) (snd g0)) g2))).
    { intros Hk. apply in_app_or in GI. destruct GI as [GI|GI]; [left|right]; unfold all_writes; apply in_flat_map;
      exists (OPop (fst g) (snd g)); split; auto; apply in_map_iff; exists g; auto. }
    fold (all_writes (map (fun g0 => OPop (fst g0) (snd g0)) g2)). tauto.
  - intros k. rewrite !del_sem_app, !del_sem_pops. f_equal. rewrite !existsb_app. simpl.
    destruct (is_leaf_at k g) eqn:L; simpl; auto.
    assert (X : existsb (is_leaf_at k) (g1 ++ g2) = true) by (apply existsb_exists; eauto).
    rewrite existsb_app in X. rewrite X. rewrite orb_true_r. reflexivity.
Qed.
End Rewrites.

Section Rewrites2.
Variable cfg : gd_cfg.
Variable fo : gd_oracle.

(* ---- successful runs do not depend on the schedule; their result is well formed ---- *)
Lemma write_all_ok_iff prio m ws m' :
  gd_write_all cfg prio true m ws = Ok m' <->
  (forall kv, In kv ws -> gd_write_check cfg true m (fst kv) (snd kv) = WOk) /\ m' = ins_all ws m.
Proof.
  split. { apply write_all_ok. }
  intros [HC HE]. subst. unfold gd_write_all.
  set (sts := map (fun kv => gd_write_check cfg true m (fst kv) (snd kv)) ws).
  assert (A : forall s, In s sts -> s = WOk).
  { intros s HI. unfold sts in HI. apply in_map_iff in HI as [kv [E HI]]. subst. auto. }
  assert (E1 : existsb gd_is_err sts = false).
  { destruct (existsb gd_is_err sts) eqn:E; auto. apply existsb_exists in E as [s [HI Hs]]. rewrite (A s HI) in Hs. discriminate. }
  assert (E2 : existsb gd_is_panic sts = false).
  { destruct (existsb gd_is_panic sts) eqn:E; auto. apply existsb_exists in E as [s [HI Hs]]. rewrite (A s HI) in Hs. discriminate. }
  rewrite E1, E2. reflexivity.
Qed.

Lemma apply_prio p1 p2 it k c it' : gd_apply cfg p1 it k c = Ok it' -> gd_apply cfg p2 it k c = Ok it'.
Proof.
  destruct c as [v|ws]; simpl; auto. intros H. apply bind_ok in H as [u [H E]]. apply write_all_ok_iff in H.
  apply bind_ok. exists u. split; auto. apply write_all_ok_iff. exact H.
Qed.
Lemma run_ops_prio p1 p2 ops : forall s s', run_ops cfg p1 s ops = Ok s' -> run_ops cfg p2 s ops = Ok s'.
Proof.
  induction ops as [|o ops IH]; simpl; intros s s' H; auto.
  apply bind_ok in H as [s1 [H1 H2]]. apply bind_ok. exists s1. split; auto.
  destruct o as [k|k c]; simpl in *; auto. apply bind_ok in H1 as [it [H1 E]]. apply bind_ok. exists it. split; auto. eapply apply_prio; eauto.
Qed.
Theorem minimal_intent_prio p1 p2 r i :
  gd_minimal_intent_p cfg fo p1 r = Ok i -> gd_minimal_intent_p cfg fo p2 r = Ok i.
Proof.
  intros H. apply minimal_intent_ok in H as [pre [ks [rg [ug [s2 [s3 [H1 [H2 [H3 [H4 [H5 [H6 [H7 [H8 H9]]]]]]]]]]]]]].
  apply minimal_intent_ok. exists pre, ks, rg, ug, s2, s3. repeat split; auto; eapply run_ops_prio; eauto.
Qed.

Theorem minimal_intent_wf prio r i : gd_minimal_intent_p cfg fo prio r = Ok i -> gd_wf i.
Proof.
  intros H. apply minimal_intent_run in H as [pre [ks [rg [ug [s3 [_ [_ [_ [_ [A5 [A6 A7]]]]]]]]]]]. subst i.
  destruct st0_srt as [Su Sd]. destruct (run_ops_sem _ _ _ _ _ A5 A6 Su Sd) as [B1 [B2 _]]. split; assumption.
Qed.

(* ---- an update repeated immediately ---- *)
Definition contrib_no_arr (c : gd_contrib) : bool :=
  match c with
  | CLeaf v => negb (gd_is_arr v)
  | CSub ws => forallb (fun kv => negb (gd_is_arr (snd kv))) ws
  end.
(* the repaired comparison never panics; the current one is safe for values that are not arrays *)
Definition dup_safe (tv : tval) : Prop :=
  cfg_deep_equal cfg = true \/ forall c, gd_classify cfg fo tv = Ok c -> contrib_no_arr c = true.

Lemma write_check_same m k v : al_find k m = Some v -> (cfg_deep_equal cfg = true \/ gd_is_arr v = false) ->
  gd_write_check cfg true m k v = WOk.
Proof.
  intros F G. unfold gd_write_check. simpl. rewrite F, gd_json_eqb_refl.
  destruct G as [G|G]; rewrite G; simpl; auto. rewrite andb_false_r. reflexivity.
Qed.

Lemma ins_all_same ws m : Srt m -> (forall kv, In kv ws -> al_find (fst kv) m = Some (snd kv)) -> ins_all ws m = m.
Proof.
  revert m. induction ws as [|[k v] ws IH]; simpl; intros m S H; auto.
  unfold ins_all in *. simpl. rewrite (insert_same k v m S (H (k, v) (or_introl eq_refl))). apply IH; auto.
Qed.

Lemma apply_idem p1 p2 it k c it1 :
  gd_apply cfg p1 it k c = Ok it1 -> op_wf (OPop k c) -> Srt (i_upd it) -> Srt (i_del it) ->
  (cfg_deep_equal cfg = true \/ contrib_no_arr c = true) ->
  gd_apply cfg p2 it1 k c = Ok it1.
Proof.
  intros H WF Su Sd G. destruct c as [v|ws]; simpl in *.
  - apply bind_ok in H as [u [H E]]. inversion E; subst. simpl.
    unfold gd_write_update in H. destruct (gd_write_check cfg true (i_upd it) k v) eqn:W; try discriminate. inversion H; subst.
    unfold gd_write_update. rewrite write_check_same.
    + simpl. rewrite insert_same; [| apply srt_insert; auto | rewrite find_insert, gd_str_eqb_refl; reflexivity].
      rewrite (remove_absent k (gd_al_remove k (i_del it))); auto. rewrite find_remove, gd_str_eqb_refl. reflexivity.
    + rewrite find_insert, gd_str_eqb_refl. reflexivity.
    + destruct G as [G|G]; auto. right. destruct (gd_is_arr v); auto; discriminate.
  - apply bind_ok in H as [u [H E]]. inversion E; subst. simpl. apply write_all_ok in H as [HC HE]. subst u.
    pose proof (app_keys_nodup k ws WF) as ND.
    apply bind_ok. exists (ins_all (map (fun kv => (k ++ fst kv, snd kv)) ws) (i_upd it)). split.
    + apply write_all_ok_iff. split.
      * intros [k0 v0] HI. simpl. apply write_check_same. { apply ins_all_in; auto. }
        destruct G as [G|G]; auto. right. rewrite forallb_forall in G.
        apply in_map_iff in HI as [[k1 v1] [E1 HI]]. inversion E1; subst. specialize (G _ HI). simpl in G.
        destruct (gd_is_arr v0); auto; discriminate.
      * symmetry. apply ins_all_same. { apply ins_all_srt; auto. }
        intros [k0 v0] HI. simpl. apply ins_all_in; auto.
    + reflexivity.
Qed.

Lemma run_pops_tk prio gs : forall s s', run_ops cfg prio s (ops_pops gs) = Ok s' -> s_tk s' = s_tk s.
Proof.
  induction gs as [|g gs IH]; simpl; intros s s' H. { inversion H; auto. }
  apply bind_ok in H as [s1 [H1 H2]]. apply bind_ok in H1 as [it [_ E]]. inversion E; subst. apply IH in H2. exact H2.
Qed.

Theorem dup_adjacent_ok prio pre ds rs l1 u l2 i : dup_safe (snd u) ->
  gd_minimal_intent_p cfg fo prio {| sr_prefix := pre; sr_del := ds; sr_rep := rs; sr_upd := l1 ++ u :: l2 |} = Ok i ->
  gd_minimal_intent_p cfg fo prio {| sr_prefix := pre; sr_del := ds; sr_rep := rs; sr_upd := l1 ++ u :: u :: l2 |} = Ok i.
Proof.
  intros G H. apply minimal_intent_ok in H as [p1 [ks [rg [ug [s2 [s3 [H1 [H2 [H3 [H4 [H5 [H6 [H7 [H8 H9]]]]]]]]]]]]]]. simpl in *.
  apply mapM_ok_app in H4 as [g1 [g2 [G1 [G2 E]]]]. subst ug.
  apply mapM_cons_ok in G2 as [g [g2' [Gu [G2 E]]]]. subst g2.
  apply minimal_intent_ok. exists p1, ks, rg, (g1 ++ g :: g :: g2'), s2, s3. simpl. repeat split; auto.
  - apply mapM_ok_app. exists g1, (g :: g :: g2'). repeat split; auto. apply mapM_cons_ok. exists g, (g :: g2'). repeat split; auto.
    apply mapM_cons_ok. eauto.
  - (* the run *)
    assert (W1 : Forall (fun x => op_wf (OPop (fst x) (snd x))) g1) by (eapply res_wf; eauto).
    assert (Wg : op_wf (OPop (fst g) (snd g))).
    { assert (M : mapM (res_upd cfg fo (gd_full_path p1)) [u] = Ok [g]) by (simpl; rewrite Gu; reflexivity).
      apply res_wf in M. inversion M; auto. }
    assert (S2 : Srt (st_upd s2) /\ Srt (st_del s2)).
    { destruct st0_srt as [Su Sd].
      assert (WF : Forall op_wf (ops_marks ks ++ ops_reps rg)).
      { apply Forall_app. split; [apply wf_marks | apply wf_reps; eapply res_wf; eauto]. }
      destruct (run_ops_sem _ _ _ _ _ H5 WF Su Sd) as [B1 [B2 _]]. auto. }
    unfold ops_pops in *. rewrite map_app in *. simpl in *. rewrite run_ops_app in *.
    apply bind_ok in H7 as [sa [Ha H7]]. simpl in H7. apply bind_ok in H7 as [sb [Hb H7]].
    apply bind_ok. exists sa. split; auto. simpl. apply bind_ok. exists sb. split; auto.
    apply bind_ok. exists sb. split; auto.
    apply bind_ok in Hb as [itb [Hb E]]. inversion E; subst. simpl.
    destruct S2 as [Su2 Sd2].
    destruct (run_ops_sem _ _ _ _ _ Ha (wf_pops _ W1) Su2 Sd2) as [B1 [B2 _]].
    apply bind_ok. exists itb. split; auto.
    eapply apply_idem; eauto.
    destruct G as [G|G]; auto. right. apply G.
    unfold res_upd in Gu. apply bind_ok in Gu as [path [_ Gu]]. destruct (last_rune path =? SLASH); [discriminate|].
    apply bind_ok in Gu as [c [Hc Gu]]. inversion Gu; subst. exact Hc.
Qed.
End Rewrites2.

Section Rewrites3.
Variable cfg : gd_cfg.
Variable fo : gd_oracle.

Lemma ops_reps_app a b : ops_reps (a ++ b) = ops_reps a ++ ops_reps b.
Proof. unfold ops_reps. apply flat_map_app. Qed.

Lemma del_sem_no_mark ops k : (forall o, In o ops -> o <> OMark k) -> del_sem ops k false = false.
Proof.
  unfold del_sem. induction ops as [|o ops IH]; simpl; intros H; auto.
  assert (E : del_step k false o = false).
  { destruct o as [k'|k' [v|ws]]; simpl; auto.
    - destruct (str_eqb k k') eqn:Q; auto. apply gd_str_eqb_eq in Q. subst. exfalso. apply (H (OMark k')); auto.
    - destruct (str_eqb k k'); auto. }
  rewrite E. apply IH. intros o' HI. apply H. auto.
Qed.

(* ---- a leaf replace versus the same leaf as an update ---- *)
Theorem leaf_replace_vs_update prio1 prio2 pre ds r1 p tv r2 us i i' v :
  gd_classify cfg fo tv = Ok (CLeaf v) ->
  (forall ps q tv', path_str pre = Ok ps -> In (q, tv') r2 -> gd_full_path ps q <> gd_full_path ps p) ->
  gd_minimal_intent_p cfg fo prio1 {| sr_prefix := pre; sr_del := ds; sr_rep := r1 ++ (p, tv) :: r2; sr_upd := us |} = Ok i ->
  gd_minimal_intent_p cfg fo prio2 {| sr_prefix := pre; sr_del := ds; sr_rep := r1 ++ r2; sr_upd := (p, tv) :: us |} = Ok i' ->
  i = i'.
Proof.
  intros HC HG H1 H2.
  apply minimal_intent_run in H1 as [p1 [ks [rg [ug [s3 [A1 [A2 [A3 [A4 [A5 [A6 A7]]]]]]]]]]].
  apply minimal_intent_run in H2 as [p2 [ks' [rg' [ug' [s3' [B1 [B2 [B3 [B4 [B5 [B6 B7]]]]]]]]]]].
  simpl in *. rewrite A1 in B1. apply ok_inj in B1. subst p2. rewrite A2 in B2. apply ok_inj in B2. subst ks'.
  apply mapM_ok_app in A3 as [g1 [g2 [G1 [G2 E]]]]. subst rg.
  apply mapM_cons_ok in G2 as [g [g2' [Gu [G2 E]]]]. subst g2.
  apply mapM_ok_app in B3 as [g1' [g2'' [G1' [G2' E]]]]. subst rg'.
  rewrite G1 in G1'. apply ok_inj in G1'. subst g1'. rewrite G2 in G2'. apply ok_inj in G2'. subst g2''.
  apply mapM_cons_ok in B4 as [g' [ug'' [Gu' [B4 E]]]]. subst ug'.
  rewrite Gu in Gu'. apply ok_inj in Gu'. subst g'. rewrite A4 in B4. apply ok_inj in B4. subst ug''.
  (* g = (path, CLeaf v) *)
  assert (GP : exists path, gd_full_path p1 p = Ok path /\ g = (path, CLeaf v)).
  { unfold res_upd in Gu. simpl in Gu. apply bind_ok in Gu as [path [Hp Gu]]. destruct (last_rune path =? SLASH); [discriminate|].
    rewrite HC in Gu. simpl in Gu. inversion Gu; subst. eauto. }
  destruct GP as [path [Hp Eg]]. subst g.
  subst i i'. destruct st0_srt as [Su Sd].
  eapply runs_agree; eauto.
  - intros kv. rewrite !all_writes_app, !ops_reps_app, !all_writes_app.
    change (ops_reps ((path, CLeaf v) :: g2')) with ([OMark path; OPop path (CLeaf v)] ++ ops_reps g2').
    change (ops_pops ((path, CLeaf v) :: ug)) with ([OPop path (CLeaf v)] ++ ops_pops ug).
    rewrite !all_writes_app.
    change (all_writes [OMark path; OPop path (CLeaf v)]) with [(path, v)].
    change (all_writes [OPop path (CLeaf v)]) with [(path, v)].
    rewrite !in_app_iff. tauto.
  - intros k. rewrite !del_sem_app, !ops_reps_app, !del_sem_app.
    change (ops_reps ((path, CLeaf v) :: g2')) with ([OMark path; OPop path (CLeaf v)] ++ ops_reps g2').
    change (ops_pops ((path, CLeaf v) :: ug)) with ([OPop path (CLeaf v)] ++ ops_pops ug).
    rewrite !del_sem_app.
    set (b1 := del_sem (ops_reps g1) k (del_sem (ops_marks ks) k (gd_in k (st_del gd_st0)))).
    change (del_sem [OMark path; OPop path (CLeaf v)] k b1) with
      (if str_eqb k path then false else if str_eqb k path then true else b1).
    set (b2 := del_sem (ops_reps g2') k b1).
    change (del_sem [OPop path (CLeaf v)] k b2) with (if str_eqb k path then false else b2).
    unfold b2.
    destruct (str_eqb k path) eqn:Q; auto.
    apply gd_str_eqb_eq in Q. subst k. rewrite (del_sem_no_mark (ops_reps g2') path); [reflexivity|].
    intros o HI E. subst o. unfold ops_reps in HI. apply in_flat_map in HI as [g' [HI HO]].
    simpl in HO. destruct HO as [HO|[HO|[]]]; [|discriminate]. inversion HO as [HP].
    (* g' comes from some (q, tv') in r2 *)
    assert (X : exists q tv', In (q, tv') r2 /\ gd_full_path p1 q = Ok (fst g')).
    { clear -G2 HI. revert g2' G2 HI. induction r2 as [|[q tv'] r2 IH]; intros g2' G2 HI.
      - inversion G2; subst. contradiction.
      - apply mapM_cons_ok in G2 as [y [ys [Hy [Hys E]]]]. subst. destruct HI as [HI|HI].
        + subst y. exists q, tv'. split; [left; auto|]. unfold res_upd in Hy. simpl in Hy. apply bind_ok in Hy as [pa [Hpa Hy]].
          destruct (last_rune pa =? SLASH); [discriminate|]. apply bind_ok in Hy as [c [_ Hy]]. inversion Hy; subst. exact Hpa.
        + destruct (IH _ Hys HI) as [q' [tv'' [I1 I2]]]. exists q', tv''. split; auto. right; auto. }
    destruct X as [q [tv' [I1 I2]]]. apply (HG p1 q tv' A1 I1). rewrite I2, Hp, HP. reflexivity.
Qed.
End Rewrites3.

(* ================================================================ prefix splits *)

Definition gd_S (es : list str) : str := flat_map (fun s => SLASH :: s) es.
Definition sane_strs (es : list str) : bool :=
  forallb (fun s => negb (nil_b s) && negb (last_rune s =? SLASH)) es.
(* every element prints, to a non-empty string that does not end in '/' (true of YANG names) *)
Definition sane_path (p : gpath) : bool :=
  match path_strs p with Ok es => sane_strs es | _ => false end.

Lemma join_S es : es <> [] -> SLASH :: join_with SLASH es = gd_S es.
Proof.
  induction es as [|x es IH]; [congruence|]. intros _. destruct es as [|y es].
  - simpl. rewrite app_nil_r. reflexivity.
  - change (join_with SLASH (x :: y :: es)) with (x ++ SLASH :: join_with SLASH (y :: es)).
    rewrite IH by discriminate. simpl. reflexivity.
Qed.
Lemma gd_S_app a b : gd_S (a ++ b) = gd_S a ++ gd_S b.
Proof. apply flat_map_app. Qed.

Lemma last_rune_app a b : b <> [] -> last_rune (a ++ b) = last_rune b.
Proof.
  unfold last_rune. intros H. induction a as [|x a IH]; simpl; auto.
  destruct (a ++ b) eqn:E; auto. apply app_eq_nil in E as [_ E]. contradiction.
Qed.
Lemma trim_app a b : b <> [] -> gd_trim_slash (a ++ b) = a ++ gd_trim_slash b.
Proof.
  intros H. unfold gd_trim_slash. rewrite last_rune_app by auto. destruct (last_rune b =? SLASH); auto.
  apply removelast_app. exact H.
Qed.
Lemma trim_sane s : s <> [] -> (last_rune s =? SLASH) = false -> gd_trim_slash (SLASH :: s) = SLASH :: s.
Proof.
  intros H1 H2. change (SLASH :: s) with ([SLASH] ++ s). rewrite trim_app by auto. unfold gd_trim_slash. rewrite H2. reflexivity.
Qed.

Lemma trim_S es : sane_strs es = true -> gd_trim_slash (SLASH :: join_with SLASH es) = gd_S es.
Proof.
  intros H. destruct es as [|x es]. { reflexivity. }
  rewrite join_S by discriminate. revert x H. induction es as [|y es IH]; intros x H.
  - simpl in *. rewrite andb_true_r in H. apply andb_true_iff in H as [H1 H2]. rewrite app_nil_r.
    apply trim_sane. { destruct x; [discriminate|congruence]. } destruct (last_rune x =? SLASH); auto; discriminate.
  - change (gd_S (x :: y :: es)) with ((SLASH :: x) ++ gd_S (y :: es)).
    simpl in H. apply andb_true_iff in H as [H1 H2].
    rewrite trim_app by (simpl; discriminate). rewrite IH; auto.
Qed.

Lemma trim_join_app eq ep : sane_strs eq = true ->
  gd_trim_slash (SLASH :: join_with SLASH (eq ++ ep)) = gd_S eq ++ gd_trim_slash (SLASH :: join_with SLASH ep).
Proof.
  intros H. destruct ep as [|x ep].
  - rewrite app_nil_r. rewrite trim_S by auto. simpl. rewrite app_nil_r. reflexivity.
  - destruct eq as [|y eq]. { reflexivity. }
    rewrite join_S by discriminate. rewrite (join_S (x :: ep)) by discriminate. rewrite gd_S_app.
    apply trim_app. simpl. discriminate.
Qed.

Lemma mapM_app_l {A B} (f : A -> result B) l1 l2 r1 :
  mapM f l1 = Ok r1 -> mapM f (l1 ++ l2) = bind (mapM f l2) (fun r2 => Ok (r1 ++ r2)).
Proof.
  revert r1. induction l1 as [|x l1 IH]; simpl; intros r1 H.
  - inversion H; subst. destruct (mapM f l2); reflexivity.
  - apply bind_ok in H as [y [Hy H]]. apply bind_ok in H as [ys [Hys H]]. inversion H; subst.
    rewrite Hy. simpl. rewrite (IH _ Hys). destruct (mapM f l2); reflexivity.
Qed.

Lemma sane_path_strs p : sane_path p = true -> exists es, path_strs p = Ok es /\ sane_strs es = true.
Proof. unfold sane_path. destruct (path_strs p); try discriminate. eauto. Qed.

(* the full path of q ++ p under prefix pre is the full path of p under prefix pre ++ q *)
Lemma full_path_split pre q s1 s0 : sane_path pre = true -> sane_path q = true ->
  path_str (pre ++ q) = Ok s1 -> path_str pre = Ok s0 ->
  forall p, gd_full_path s1 p = gd_full_path s0 (q ++ p).
Proof.
  intros Hpre Hq H1 H0 p.
  apply sane_path_strs in Hpre as [epre [Epre Spre]]. apply sane_path_strs in Hq as [eq [Eq Sq]].
  unfold path_str, path_strs in *. rewrite Epre in H0. simpl in H0. inversion H0; subst s0.
  rewrite (mapM_app_l _ _ _ _ Epre), Eq in H1. simpl in H1. inversion H1; subst s1.
  unfold gd_full_path, path_str, path_strs. rewrite (mapM_app_l _ _ _ _ Eq).
  destruct (mapM elem_str p) as [ep| |]; simpl; auto.
  rewrite trim_join_app by auto. rewrite (trim_S epre) by auto. rewrite (trim_S eq) by auto.
  rewrite (trim_join_app eq ep) by auto. rewrite app_assoc. reflexivity.
Qed.

Section PrefixSplit.
Variable cfg : gd_cfg.
Variable fo : gd_oracle.

Definition map_paths (f : gpath -> gpath) (us : list (gpath * tval)) : list (gpath * tval) :=
  map (fun u => (f (fst u), snd u)) us.

Lemma process_map prio fp1 fp2 (f : gpath -> gpath) : (forall p, fp1 p = fp2 (f p)) ->
  forall ds rs us, gd_process cfg fo prio fp1 ds rs us = gd_process cfg fo prio fp2 (map f ds) (map_paths f rs) (map_paths f us).
Proof.
  intros HF ds rs us. unfold gd_process.
  assert (D : forall s, gd_do_dels fp1 s ds = gd_do_dels fp2 s (map f ds)).
  { induction ds as [|d ds IH]; simpl; intros s; auto. rewrite HF. destruct (fp2 (f d)); simpl; auto.
    destruct (gd_mark s a); simpl; auto. }
  assert (R : forall s, gd_do_reps cfg fo prio fp1 s rs = gd_do_reps cfg fo prio fp2 s (map_paths f rs)).
  { induction rs as [|[p tv] rs IH]; simpl; intros s; auto. rewrite HF. destruct (fp2 (f p)); simpl; auto.
    destruct (gd_mark s a); simpl; auto. destruct (gd_populate cfg fo prio true (s_int a0) a tv); simpl; auto. }
  assert (U : forall it, gd_do_upds cfg fo prio fp1 true it us = gd_do_upds cfg fo prio fp2 true it (map_paths f us)).
  { induction us as [|[p tv] us IH]; simpl; intros it; auto. rewrite HF. destruct (fp2 (f p)); simpl; auto.
    destruct (gd_populate cfg fo prio true it a tv); simpl; auto. }
  rewrite D. destruct (gd_do_dels fp2 _ (map f ds)); simpl; auto.
  rewrite R. destruct (gd_do_reps cfg fo prio fp2 a (map_paths f rs)); simpl; auto.
  destruct (gd_prefix_conflict (s_tk a0)); auto. rewrite U. reflexivity.
Qed.

(* moving the common elements q between the prefix and the element paths *)
Theorem prefix_split prio pre q ds rs us : sane_path pre = true -> sane_path q = true ->
  gd_minimal_intent_p cfg fo prio {| sr_prefix := pre ++ q; sr_del := ds; sr_rep := rs; sr_upd := us |} =
  gd_minimal_intent_p cfg fo prio {| sr_prefix := pre; sr_del := map (app q) ds; sr_rep := map_paths (app q) rs; sr_upd := map_paths (app q) us |}.
Proof.
  intros Hpre Hq. unfold gd_minimal_intent_p. simpl.
  destruct (sane_path_strs _ Hpre) as [epre [Epre _]]. destruct (sane_path_strs _ Hq) as [eq [Eq _]].
  assert (P0 : path_str pre = Ok (SLASH :: join_with SLASH epre)).
  { unfold path_str, path_strs in *. rewrite Epre. reflexivity. }
  assert (P1 : path_str (pre ++ q) = Ok (SLASH :: join_with SLASH (epre ++ eq))).
  { unfold path_str, path_strs in *. rewrite (mapM_app_l _ _ _ _ Epre), Eq. reflexivity. }
  rewrite P0, P1. simpl. apply process_map. apply (full_path_split pre q); auto.
Qed.
End PrefixSplit.

(* ================================================================ one JSON update versus its leaves *)

Lemma insert_in {V} k (v : V) l kv : In kv (al_insert k v l) -> kv = (k, v) \/ In kv l.
Proof.
  induction l as [|[k1 v1] l IH]; simpl; intros H.
  - destruct H as [H|[]]; auto.
  - destruct (str_cmp k k1); simpl in H.
    + destruct H as [H|H]; auto.
    + destruct H as [H|H]; auto.
    + destruct H as [H|H]; auto. apply IH in H. tauto.
Qed.
Lemma ins_all_in_any ws m kv : In kv (ins_all ws m) -> In kv ws \/ In kv m.
Proof.
  revert m. induction ws as [|[k v] ws IH]; simpl; intros m H; auto.
  unfold ins_all in *. simpl in H. apply IH in H as [H|H]; auto. apply insert_in in H as [H|H]; auto.
Qed.
Lemma al_of_list_in (l : list (str * json)) kv : In kv (gd_al_of_list l) -> In kv l.
Proof. intros H. apply (ins_all_in_any l []) in H as [H|[]]. exact H. Qed.
Lemma ins_all_has ws m k : In k (map fst ws) -> exists v, al_find k (ins_all ws m) = Some v /\ In (k, v) ws.
Proof.
  revert m. induction ws as [|[k1 v1] ws IH]; simpl; intros m H; [contradiction|].
  unfold ins_all in *. simpl.
  destruct (in_dec (list_eq_dec N.eq_dec) k (map fst ws)) as [HI|HN].
  - destruct (IH (al_insert k1 v1 m) HI) as [v [F I]]. exists v. auto.
  - destruct H as [H|H]; [|contradiction]. subst k1. exists v1. split; auto.
    fold (ins_all ws (al_insert k v1 m)). rewrite ins_all_notin by auto. rewrite find_insert, gd_str_eqb_refl. reflexivity.
Qed.

Section JsonLeaves.
Variable cfg : gd_cfg.
Variable fo : gd_oracle.

(* a leaf update (relative path, TypedValue) that spells the flattened entry (sub-path, value) *)
Definition leaf_matches (kv : str * json) (l : gpath * tval) : Prop :=
  (exists es, path_strs (fst l) = Ok es /\ sane_strs es = true /\ gd_S es = fst kv) /\
  gd_proto_leaf_to_json fo (snd l) = Ok (snd kv).

Lemma full_path_app ps p P q es : sane_path p = true -> gd_full_path ps p = Ok P ->
  path_strs q = Ok es -> sane_strs es = true -> gd_full_path ps (p ++ q) = Ok (P ++ gd_S es).
Proof.
  intros Hp HP Eq Sq. apply sane_path_strs in Hp as [ep [Ep Sp]].
  unfold gd_full_path, path_str, path_strs in *. rewrite Ep in HP. simpl in HP. inversion HP; subst P.
  rewrite (mapM_app_l _ _ _ _ Ep), Eq. simpl. rewrite trim_join_app by auto. rewrite (trim_S es), (trim_S ep) by auto.
  rewrite app_assoc. reflexivity.
Qed.

Lemma classify_scalar tv v : gd_proto_leaf_to_json fo tv = Ok v -> gd_classify cfg fo tv = Ok (CLeaf v).
Proof. intros H. destruct tv; simpl in *; try discriminate; try (rewrite H; reflexivity); try (inversion H; subst; reflexivity). Qed.

Lemma leaves_resolve ps p P fl LV LG : sane_path p = true -> gd_full_path ps p = Ok P ->
  Forall2 leaf_matches fl LV ->
  mapM (res_upd cfg fo (gd_full_path ps)) (map (fun l => (p ++ fst l, snd l)) LV) = Ok LG ->
  LG = map (fun kv => (P ++ fst kv, CLeaf (snd kv))) fl.
Proof.
  intros Hp HP F. revert LG. induction F as [|[k v] [q tv] fl LV [[es [E1 [E2 E3]]] Hv] F IH]; simpl; intros LG H.
  - inversion H; subst. reflexivity.
  - apply bind_ok in H as [g [Hg H]]. apply bind_ok in H as [gs [Hgs H]]. inversion H; subst. simpl in *. f_equal; auto.
    unfold res_upd in Hg. simpl in Hg. rewrite (full_path_app ps p P q es Hp HP E1 E2) in Hg. simpl in Hg.
    destruct (last_rune (P ++ gd_S es) =? SLASH); [discriminate|]. rewrite (classify_scalar _ _ Hv) in Hg. simpl in Hg.
    inversion Hg; subst. reflexivity.
Qed.

Definition W (P : str) (l : list (str * json)) : list (str * json) := map (fun kv => (P ++ fst kv, snd kv)) l.

Lemma classify_json_writes j fl c P : gd_flat cfg fo j [] = Ok fl -> gd_classify cfg fo (TVJsonIetf j) = Ok c ->
  op_writes (OPop P c) = W P (gd_al_of_list fl) /\
  (forall k0, is_leaf_at k0 (P, c) = true -> k0 = P /\ In [] (map fst fl)).
Proof.
  intros HF HC. unfold gd_classify, gd_flatten_json in HC. rewrite HF in HC. simpl in HC.
  destruct (gd_al_of_list fl) as [|[k v] [|x t]] eqn:E.
  - inversion HC; subst. split; auto. intros k0 H. discriminate.
  - destruct (nil_b k) eqn:NK.
    + destruct k; [|discriminate]. inversion HC; subst. unfold W. simpl. rewrite app_nil_r. split; auto.
      intros k0 H. unfold is_leaf_at in H. simpl in H. apply gd_str_eqb_eq in H. split; auto.
      assert (I : In ([], v) (gd_al_of_list fl)) by (rewrite E; left; auto). apply al_of_list_in in I.
      apply in_map_iff. exists ([], v). auto.
    + inversion HC; subst. split; auto. intros k0 H. discriminate.
  - inversion HC; subst. split; auto. intros k0 H. discriminate.
Qed.

Lemma all_writes_leaf_pops P fl :
  all_writes (ops_pops (map (fun kv => (P ++ fst kv, CLeaf (snd kv))) fl)) = W P fl.
Proof. unfold all_writes, ops_pops, W. induction fl as [|[k v] fl IH]; simpl; auto. f_equal. exact IH. Qed.

Lemma ops_pops_app a b : ops_pops (a ++ b) = ops_pops a ++ ops_pops b.
Proof. unfold ops_pops. apply map_app. Qed.

Theorem json_vs_leaves prio1 prio2 pre ds rs l1 p j l2 fl LV i i' :
  sane_path p = true ->
  gd_flat cfg fo j [] = Ok fl ->
  Forall2 leaf_matches fl LV ->
  (forall ps P ks rg, path_str pre = Ok ps -> gd_full_path ps p = Ok P ->
     mapM (gd_full_path ps) ds = Ok ks -> mapM (res_upd cfg fo (gd_full_path ps)) rs = Ok rg ->
     forall kv, In kv fl -> ~ In (P ++ fst kv) (ks ++ map fst rg)) ->
  gd_minimal_intent_p cfg fo prio1 {| sr_prefix := pre; sr_del := ds; sr_rep := rs; sr_upd := l1 ++ (p, TVJsonIetf j) :: l2 |} = Ok i ->
  gd_minimal_intent_p cfg fo prio2 {| sr_prefix := pre; sr_del := ds; sr_rep := rs;
                                      sr_upd := l1 ++ map (fun l => (p ++ fst l, snd l)) LV ++ l2 |} = Ok i' ->
  i = i'.
Proof.
  intros Hp HF HM HG H1 H2.
  apply minimal_intent_run in H1 as [p1 [ks [rg [ug [s3 [A1 [A2 [A3 [A4 [A5 [A6 A7]]]]]]]]]]].
  apply minimal_intent_run in H2 as [p2 [ks' [rg' [ug' [s3' [B1 [B2 [B3 [B4 [B5 [B6 B7]]]]]]]]]]].
  simpl in *. rewrite A1 in B1. apply ok_inj in B1. subst p2. rewrite A2 in B2. apply ok_inj in B2. subst ks'.
  rewrite A3 in B3. apply ok_inj in B3. subst rg'.
  apply mapM_ok_app in A4 as [g1 [g2 [G1 [G2 E]]]]. subst ug.
  apply mapM_cons_ok in G2 as [gJ [g2' [GJ [G2 E]]]]. subst g2.
  apply mapM_ok_app in B4 as [g1' [gr [G1' [Gr E]]]]. subst ug'.
  apply mapM_ok_app in Gr as [LG [g2'' [GL [G2' E]]]]. subst gr.
  rewrite G1 in G1'. apply ok_inj in G1'. subst g1'. rewrite G2 in G2'. apply ok_inj in G2'. subst g2''.
  assert (GP : exists P c, gd_full_path p1 p = Ok P /\ gd_classify cfg fo (TVJsonIetf j) = Ok c /\ gJ = (P, c)).
  { unfold res_upd in GJ. simpl in GJ. apply bind_ok in GJ as [P [HP GJ]]. destruct (last_rune P =? SLASH); [discriminate|].
    apply bind_ok in GJ as [c [Hc GJ]]. inversion GJ; subst. eauto. }
  destruct GP as [P [c [HP [HC Eg]]]]. subst gJ.
  pose proof (leaves_resolve _ _ _ _ _ _ Hp HP HM GL) as EL. subst LG.
  destruct (classify_json_writes _ _ _ P HF HC) as [WJ LJ].
  specialize (HG p1 P ks rg A1 HP A2 A3).
  destruct st0_srt as [Su Sd].
  (* all writes of the leaf version agree per path: the run succeeded *)
  assert (AG : forall k v v', In (k, v) fl -> In (k, v') fl -> v = v').
  { intros k v v' I1 I2. destruct (run_ops_sem _ _ _ _ _ B5 B6 Su Sd) as [_ [_ [_ [X _]]]].
    assert (Y : forall w, In (k, w) fl -> In (P ++ k, w) (all_writes ((ops_marks ks ++ ops_reps rg) ++ ops_pops (g1 ++ map (fun kv => (P ++ fst kv, CLeaf (snd kv))) fl ++ g2')))).
    { intros w I. rewrite all_writes_app. apply in_or_app. right. rewrite !ops_pops_app, !all_writes_app. apply in_or_app. right.
      apply in_or_app. left. rewrite all_writes_leaf_pops. unfold W. apply in_map_iff. exists (k, w). auto. }
    pose proof (X _ _ (Y _ I1)) as F1. pose proof (X _ _ (Y _ I2)) as F2. congruence. }
  assert (WS : forall kv, In kv (gd_al_of_list fl) <-> In kv fl).
  { intros [k v]. split. { apply al_of_list_in. }
    intros I. assert (IK : In k (map fst fl)) by (apply in_map_iff; exists (k, v); auto).
    destruct (ins_all_has fl [] k IK) as [v' [F I']]. rewrite (AG k v v' I I'). apply find_in. exact F. }
  subst i i'. eapply runs_agree; eauto.
  - intros kv. rewrite !all_writes_app, !ops_pops_app, !all_writes_app.
    change (ops_pops ((P, c) :: g2')) with ([OPop P c] ++ ops_pops g2'). rewrite !all_writes_app.
    change (all_writes [OPop P c]) with (op_writes (OPop P c) ++ []). rewrite app_nil_r, WJ, all_writes_leaf_pops.
    rewrite !in_app_iff.
    assert (X : In kv (W P (gd_al_of_list fl)) <-> In kv (W P fl)).
    { unfold W. rewrite !in_map_iff. split; intros [x [E I]]; exists x; split; auto; apply WS; auto. }
    tauto.
  - intros k0. rewrite !del_sem_app, !del_sem_pops. rewrite !existsb_app. simpl.
    set (b1 := del_sem (ops_reps rg) k0 (del_sem (ops_marks ks) k0 (gd_in k0 (st_del gd_st0)))).
    destruct (in_dec (list_eq_dec N.eq_dec) k0 (map (fun kv => P ++ fst kv) fl)) as [HI|HN].
    + (* one of the written leaves: never marked *)
      assert (B : b1 = false).
      { unfold b1. rewrite <- del_sem_app. apply del_sem_no_mark. intros o HO E. subst o.
        apply in_map_iff in HI as [kv [E I]]. apply (HG kv I). cbv beta in E. subst k0.
        apply in_app_or in HO as [HO|HO]; apply in_or_app.
        - left. unfold ops_marks in HO. apply in_map_iff in HO as [k [E2 I2]]. inversion E2; subst. exact I2.
        - right. unfold ops_reps in HO. apply in_flat_map in HO as [g [I2 HO]]. simpl in HO.
          destruct HO as [HO|[HO|[]]]; [|discriminate]. inversion HO as [H0]. apply in_map_iff. exists g. split; auto. }
      rewrite B. destruct (existsb (is_leaf_at k0) g1 || (is_leaf_at k0 (P, c) || existsb (is_leaf_at k0) g2'));
      destruct (existsb (is_leaf_at k0) g1 || (existsb (is_leaf_at k0) (map (fun kv => (P ++ fst kv, CLeaf (snd kv))) fl) || existsb (is_leaf_at k0) g2')); reflexivity.
    + assert (L1 : is_leaf_at k0 (P, c) = false).
      { destruct (is_leaf_at k0 (P, c)) eqn:L; auto. apply LJ in L as [E I]. subst k0. exfalso. apply HN.
        apply in_map_iff in I as [[k v] [E I]]. simpl in E. subst k. apply in_map_iff. exists ([], v). simpl. rewrite app_nil_r. auto. }
      assert (L2 : existsb (is_leaf_at k0) (map (fun kv => (P ++ fst kv, CLeaf (snd kv))) fl) = false).
      { destruct (existsb _ _) eqn:L; auto. apply existsb_exists in L as [g [I L]]. apply in_map_iff in I as [kv [E I]]. subst g.
        unfold is_leaf_at in L. simpl in L. apply gd_str_eqb_eq in L. exfalso. apply HN. apply in_map_iff. exists kv. auto. }
      rewrite L1, L2. reflexivity.
Qed.
End JsonLeaves.

(* ================================================================ flattenOCJSON versus the structured reading *)

Section Structured.
Variable cfg : gd_cfg.
Variable fo : gd_oracle.

Definition flat_members : list (str * json) -> str -> result (list (str * json)) :=
  fix members (m : list (str * json)) (path : str) {struct m} : result (list (str * json)) :=
    match m with
    | [] => Ok []
    | (n, v) :: t =>
        bind (gd_flat cfg fo v (path ++ SLASH :: gd_after_colon n)) (fun a =>
        bind (members t path) (fun b => Ok (a ++ b)))
    end.
Definition flat_elems (path : str) : list json -> result (list (str * json)) :=
  fix elems (l : list json) : result (list (str * json)) :=
    match l with
    | [] => Ok []
    | JObj m :: t =>
        bind (flat_members m (path ++ gd_key_path cfg fo m)) (fun a =>
        bind (elems t) (fun b => Ok (a ++ b)))
    | _ :: _ => Err
    end.
Lemma flat_obj m path : gd_flat cfg fo (JObj m) path = flat_members m path.
Proof. reflexivity. Qed.
Lemma flat_list m0 t path : gd_flat cfg fo (JArr (JObj m0 :: t)) path = flat_elems path (JObj m0 :: t).
Proof. reflexivity. Qed.

Definition sl_members : list (str * json) -> list pelem -> option (list (gpath * json)) :=
  fix members (m : list (str * json)) (rcur : list pelem) {struct m} : option (list (gpath * json)) :=
    match m with
    | [] => Some []
    | (n, v) :: t =>
        if gd_sane_name (gd_after_colon n) then
          match gd_sleaves fo v ({| ename := gd_after_colon n; ekeys := [] |} :: rcur), members t rcur with
          | Some a, Some b => Some (a ++ b)
          | _, _ => None
          end
        else None
    end.
Definition sl_elems (e : pelem) (rest : list pelem) : list json -> option (list (gpath * json)) :=
  fix elems (l : list json) : option (list (gpath * json)) :=
    match l with
    | [] => Some []
    | JObj m :: t =>
        if forallb (fun kv => negb (nil_b (fst kv))) (gd_scalars m) then
          match sl_members m ({| ename := ename e; ekeys := gd_path_keys fo m |} :: rest), elems t with
          | Some a, Some b => Some (a ++ b)
          | _, _ => None
          end
        else None
    | _ :: _ => None
    end.
Lemma sl_obj m rcur : gd_sleaves fo (JObj m) rcur = sl_members m rcur.
Proof. reflexivity. Qed.
Lemma sl_list m0 t e rest : gd_sleaves fo (JArr (JObj m0 :: t)) (e :: rest) =
  if negb (nil_b (ekeys e)) then None else sl_elems e rest (JObj m0 :: t).
Proof. reflexivity. Qed.

Definition elem_s (e : pelem) : str := ename e ++ flat_map kv_str (ekeys e).
Definition ok_elem (e : pelem) : Prop :=
  elem_str e = Ok (elem_s e) /\ (negb (nil_b (elem_s e)) && negb (last_rune (elem_s e) =? SLASH)) = true.
Definition strs_of (rcur : list pelem) : list str := map elem_s (rev rcur).
Definition spell (qv : gpath * json) : str * json := (gd_S (map elem_s (fst qv)), snd qv).

Lemma strs_of_cons e rcur : gd_S (strs_of (e :: rcur)) = gd_S (strs_of rcur) ++ SLASH :: elem_s e.
Proof. unfold strs_of. simpl. rewrite map_app, gd_S_app. simpl. rewrite app_nil_r. reflexivity. Qed.

Lemma map_vals_insert {A B} (f : A -> B) k v (l : list (str * A)) :
  al_insert k (f v) (map (fun kv => (fst kv, f (snd kv))) l) = map (fun kv => (fst kv, f (snd kv))) (al_insert k v l).
Proof.
  induction l as [|[k1 v1] l IH]; simpl; auto. destruct (str_cmp k k1); simpl; auto. rewrite IH. reflexivity.
Qed.
Lemma map_vals_al_of_list {A B} (f : A -> B) (l : list (str * A)) :
  gd_al_of_list (map (fun kv => (fst kv, f (snd kv))) l) = map (fun kv => (fst kv, f (snd kv))) (gd_al_of_list l).
Proof.
  unfold gd_al_of_list. change (@nil (str * B)) with (map (fun kv : str * A => (fst kv, f (snd kv))) []).
  generalize (@nil (str * A)). induction l as [|[k v] l IH]; simpl; intros acc; auto.
  rewrite map_vals_insert. apply IH.
Qed.

(* the key suffix flattenOCJSON appends = the keys of the structured element, printed by PathToString *)
Lemma key_path_spec m : forallb (fun kv => gd_key_ok cfg fo (snd kv)) (gd_scalars m) = true ->
  gd_key_path cfg fo m = flat_map kv_str (gd_path_keys fo m).
Proof.
  intros H. unfold gd_key_path, gd_key_members, gd_path_keys. fold (gd_scalars m).
  rewrite (map_vals_al_of_list (gd_key_str cfg fo)), (map_vals_al_of_list (gd_path_key_str fo)).
  assert (G : forall kv, In kv (gd_al_of_list (gd_scalars m)) -> gd_key_ok cfg fo (snd kv) = true).
  { intros kv I. apply al_of_list_in in I. rewrite forallb_forall in H. auto. }
  generalize dependent (gd_al_of_list (gd_scalars m)). intros l G.
  induction l as [|[k v] l IH]; simpl; auto.
  pose proof (G (k, v) (or_introl eq_refl)) as K. unfold gd_key_ok in K. simpl in K. apply gd_str_eqb_eq in K.
  unfold kv_str at 1. simpl. rewrite K. f_equal. f_equal. apply IH. intros kv I. apply G. right. exact I.
Qed.

Lemma path_keys_names m : forallb (fun kv => negb (nil_b (fst kv))) (gd_scalars m) = true ->
  existsb (fun kv => nil_b (fst kv)) (gd_path_keys fo m) = false.
Proof.
  intros H. destruct (existsb _ _) eqn:E; auto. apply existsb_exists in E as [[k v] [I E]]. simpl in E.
  unfold gd_path_keys in I. rewrite (map_vals_al_of_list (gd_path_key_str fo)) in I.
  apply in_map_iff in I as [[k1 v1] [E1 I]]. inversion E1; subst. apply al_of_list_in in I.
  rewrite forallb_forall in H. specialize (H _ I). simpl in H. rewrite E in H. discriminate.
Qed.

Lemma last_rune_snoc a c : last_rune (a ++ [c]) = c.
Proof. rewrite last_rune_app by discriminate. reflexivity. Qed.

Lemma flat_map_kv_last l : l <> [] -> exists a, flat_map kv_str l = a ++ [RBR].
Proof.
  induction l as [|kv l IH]; [congruence|]. intros _. destruct l as [|kv2 l].
  - simpl. rewrite app_nil_r. unfold kv_str. exists ([LBR] ++ fst kv ++ [EQC] ++ esc_val (snd kv)). rewrite <- !app_assoc. reflexivity.
  - destruct IH as [a Ha]; [discriminate|]. exists (kv_str kv ++ a). simpl in *. rewrite Ha, app_assoc. reflexivity.
Qed.

Lemma ok_elem_keys e ks : ok_elem e -> ekeys e = [] -> existsb (fun kv => nil_b (fst kv)) ks = false ->
  ok_elem {| ename := ename e; ekeys := ks |}.
Proof.
  intros [H1 H2] EK NK. unfold ok_elem, elem_s, elem_str in *. simpl. rewrite EK in *. simpl in *. rewrite app_nil_r in *.
  destruct (nil_b (ename e)) eqn:NE; [discriminate|]. rewrite NK. split; auto.
  destruct ks as [|kv ks]. { simpl. rewrite app_nil_r. rewrite NE. exact H2. }
  destruct (flat_map_kv_last (kv :: ks)) as [a Ha]; [discriminate|]. rewrite Ha, app_assoc, last_rune_snoc.
  destruct (ename e ++ a); reflexivity.
Qed.

Definition Pspec (j : json) : Prop :=
  forall rcur SL, gd_sleaves fo j rcur = Some SL -> gd_keys_ok cfg fo j = true -> Forall ok_elem rcur ->
    gd_flat cfg fo j (gd_S (strs_of rcur)) = Ok (map spell SL) /\ Forall (fun qv => Forall ok_elem (fst qv)) SL.

Lemma leaf_spec j rcur : Forall ok_elem rcur ->
  Ok [(gd_S (strs_of rcur), j)] = Ok (map spell [(rev rcur, j)]) /\ Forall (fun qv => Forall ok_elem (fst qv)) [(rev rcur, j)].
Proof.
  intros H. split. { reflexivity. } constructor; auto. simpl. apply Forall_rev. exact H.
Qed.

Lemma members_spec m : Forall (fun kv => Pspec (snd kv)) m ->
  forall rcur SL, sl_members m rcur = Some SL ->
    (fix go (m : list (str * json)) : bool := match m with [] => true | (_, x) :: t => gd_keys_ok cfg fo x && go t end) m = true ->
    Forall ok_elem rcur ->
    flat_members m (gd_S (strs_of rcur)) = Ok (map spell SL) /\ Forall (fun qv => Forall ok_elem (fst qv)) SL.
Proof.
  induction 1 as [|[n v] m Hv _ IH]; simpl; intros rcur SL HS HK HR.
  - inversion HS; subst. split; auto.
  - destruct (gd_sane_name (gd_after_colon n)) eqn:SN; [|discriminate].
    destruct (gd_sleaves fo v _) as [a|] eqn:Ea; [|discriminate]. destruct (sl_members m rcur) as [b|] eqn:Eb; [|discriminate].
    inversion HS; subst. apply andb_true_iff in HK as [K1 K2].
    set (e0 := {| ename := gd_after_colon n; ekeys := [] |}) in *.
    assert (OK0 : ok_elem e0).
    { unfold ok_elem, elem_s, elem_str, e0. simpl. rewrite app_nil_r. unfold gd_sane_name in SN. apply andb_true_iff in SN as [S1 S2].
      destruct (nil_b (gd_after_colon n)); [discriminate|]. split; auto. }
    destruct (Hv (e0 :: rcur) a Ea K1 (Forall_cons _ OK0 HR)) as [F1 G1].
    destruct (IH rcur b Eb K2 HR) as [F2 G2].
    rewrite strs_of_cons in F1. unfold e0, elem_s in F1. simpl in F1. rewrite app_nil_r in F1. simpl in Hv.
    rewrite F1. simpl. rewrite F2. simpl. rewrite map_app. split; auto. apply Forall_app. auto.
Qed.

Lemma elems_spec e rest L : Forall Pspec L -> ok_elem e -> ekeys e = [] -> Forall ok_elem rest ->
  forall SL, sl_elems e rest L = Some SL ->
    (fix go (l : list json) : bool := match l with [] => true | x :: t => gd_keys_ok cfg fo x && go t end) L = true ->
    forallb (fun x => match x with JObj m => forallb (fun kv => gd_key_ok cfg fo (snd kv)) (gd_scalars m) | _ => true end) L = true ->
    flat_elems (gd_S (strs_of (e :: rest))) L = Ok (map spell SL) /\ Forall (fun qv => Forall ok_elem (fst qv)) SL.
Proof.
  intros HP OKe EK' HRest. induction HP as [|x L Hx _ IHL]; simpl; intros SL HS K1 K2.
  - inversion HS; subst. split; auto.
  - destruct x as [|b|m1 e1|s|l1|m1]; try discriminate.
    destruct (forallb (fun kv => negb (nil_b (fst kv))) (gd_scalars m1)) eqn:NN; [|discriminate].
    destruct (sl_members m1 _) as [a|] eqn:Ea; [|discriminate]. destruct (sl_elems e rest L) as [b|] eqn:Eb; [|discriminate].
    inversion HS; subst. apply andb_true_iff in K1 as [K1a K1b]. apply andb_true_iff in K2 as [K2a K2b].
    set (e' := {| ename := ename e; ekeys := gd_path_keys fo m1 |}) in *.
    assert (OK' : ok_elem e') by (apply ok_elem_keys; auto; apply path_keys_names; auto).
    rewrite <- sl_obj in Ea. destruct (Hx (e' :: rest) a Ea K1a (Forall_cons _ OK' HRest)) as [F1 G1].
    rewrite flat_obj in F1.
    assert (PE : gd_S (strs_of (e' :: rest)) = gd_S (strs_of (e :: rest)) ++ gd_key_path cfg fo m1).
    { rewrite !strs_of_cons. unfold e', elem_s. simpl. rewrite EK'. simpl. rewrite app_nil_r.
      rewrite key_path_spec by auto. rewrite <- app_assoc. reflexivity. }
    rewrite PE in F1. rewrite F1. simpl.
    destruct (IHL b eq_refl K1b K2b) as [F2 G2]. rewrite F2. simpl. rewrite map_app. split; auto. apply Forall_app. auto.
Qed.

Lemma spec_all : forall j, Pspec j.
Proof.
  induction j as [|x|m e|s|l H|m H] using gd_json_ind; unfold Pspec; intros rcur SL HS HK HR.
  - discriminate.
  - simpl in HS. inversion HS; subst. apply leaf_spec; auto.
  - simpl in HS. inversion HS; subst. apply leaf_spec; auto.
  - simpl in HS. inversion HS; subst. apply leaf_spec; auto.
  - destruct l as [|x l]. { simpl in HS. inversion HS; subst. apply leaf_spec; auto. }
    destruct x as [|b|m e|s|l0|m0]; try (simpl in HS; inversion HS; subst; apply leaf_spec; auto; fail); try discriminate.
    (* a keyed list *)
    destruct rcur as [|e rest]; [discriminate|]. rewrite sl_list in HS. destruct (negb (nil_b (ekeys e))) eqn:EK; [discriminate|].
    rewrite flat_list. simpl in HK. apply andb_true_iff in HK as [K1 K2]. inversion HR as [|? ? OKe HRest]; subst.
    assert (EK' : ekeys e = []) by (destruct (ekeys e); [auto|discriminate]).
    apply (elems_spec e rest (JObj m0 :: l) H OKe EK' HRest SL HS); auto.
  - rewrite sl_obj in HS. rewrite flat_obj. apply (members_spec m H rcur SL HS); auto.
Qed.
End Structured.

Section StructuredTheorem.
Variable cfg : gd_cfg.
Variable fo : gd_oracle.

Lemma ok_elems_strs q : Forall (ok_elem) q -> path_strs q = Ok (map elem_s q) /\ sane_strs (map elem_s q) = true.
Proof.
  unfold path_strs. induction 1 as [|e q [H1 H2] _ [IH1 IH2]]; simpl; auto.
  rewrite H1. simpl. rewrite IH1. simpl. rewrite H2, IH2. auto.
Qed.

(* the leaf updates named by the structured reading: same relative paths, values that
   protoLeafToJSON turns into the JSON leaf values *)
Definition leaves_for (SL : list (gpath * json)) (LV : list (gpath * tval)) : Prop :=
  Forall2 (fun qv l => fst l = fst qv /\ gd_proto_leaf_to_json fo (snd l) = Ok (snd qv)) SL LV.

Theorem json_vs_leaves_struct prio1 prio2 pre ds rs l1 p j l2 SL LV i i' :
  sane_path p = true ->
  gd_sleaves fo j [] = Some SL -> gd_keys_ok cfg fo j = true -> leaves_for SL LV ->
  (forall ps P ks rg, path_str pre = Ok ps -> gd_full_path ps p = Ok P ->
     mapM (gd_full_path ps) ds = Ok ks -> mapM (res_upd cfg fo (gd_full_path ps)) rs = Ok rg ->
     forall qv, In qv SL -> ~ In (P ++ fst (spell qv)) (ks ++ map fst rg)) ->
  gd_minimal_intent_p cfg fo prio1 {| sr_prefix := pre; sr_del := ds; sr_rep := rs; sr_upd := l1 ++ (p, TVJsonIetf j) :: l2 |} = Ok i ->
  gd_minimal_intent_p cfg fo prio2 {| sr_prefix := pre; sr_del := ds; sr_rep := rs;
                                      sr_upd := l1 ++ map (fun l => (p ++ fst l, snd l)) LV ++ l2 |} = Ok i' ->
  i = i'.
Proof.
  intros Hp HS HK HL HG H1 H2.
  destruct (spec_all cfg fo j [] SL HS HK (Forall_nil _)) as [HF HO].
  change (gd_S (strs_of [])) with (@nil rune) in HF.
  eapply (json_vs_leaves cfg fo prio1 prio2 pre ds rs l1 p j l2 (map spell SL) LV); eauto.
  - clear -HL HO. induction HL as [|[q v] [q' tv] SL LV [E1 E2] _ IH]; simpl; constructor.
    + simpl in *. subst q'. inversion HO; subst. simpl in H1. destruct (ok_elems_strs q H1) as [A B].
      unfold leaf_matches. simpl. split; eauto.
    + apply IH. inversion HO; auto.
  - intros ps P ks rg X1 X2 X3 X4 kv I. apply in_map_iff in I as [qv [E I]]. subst kv. eapply HG; eauto.
Qed.
End StructuredTheorem.

Lemma key_ok_fixed fo v : gd_key_ok gd_cfg_fixed fo v = true.
Proof. unfold gd_key_ok. apply gd_str_eqb_eq. destruct v; reflexivity. Qed.

Lemma keys_ok_all cfg fo : (forall v, gd_key_ok cfg fo v = true) -> forall j, gd_keys_ok cfg fo j = true.
Proof.
  intros HK. induction j as [|x|m e|s|l H|m H] using gd_json_ind; simpl; auto.
  - apply andb_true_iff. split.
    + induction H as [|x l Hx _ IH]; auto. rewrite Hx. exact IH.
    + destruct l as [|[| | | | |m0] l]; auto. apply forallb_forall. intros x _. destruct x; auto.
      apply forallb_forall. intros kv _. apply HK.
  - induction H as [|[k x] m Hx _ IH]; auto. simpl in Hx. rewrite Hx. exact IH.
Qed.
Lemma keys_ok_fixed fo j : gd_keys_ok gd_cfg_fixed fo j = true.
Proof. apply keys_ok_all. apply key_ok_fixed. Qed.

(* ================================================================ statements used by Properties/C22.v, C23.v *)

Definition gd_swap_diff (d : gd_diff) : gd_diff :=
  {| d_mdel := d_edel d; d_edel := d_mdel d; d_cdel := d_cdel d;
     d_mupd := d_eupd d; d_eupd := d_mupd d; d_cupd := d_cupd d;
     d_mism := map gd_swap_mm (d_mism d) |}.
Definition gd_diff_clean (d : gd_diff) : bool :=
  nil_b (d_mdel d) && nil_b (d_edel d) && nil_b (d_mupd d) && nil_b (d_eupd d) && nil_b (d_mism d).

Theorem refl_request cfg fo prio r i : gd_minimal_intent_p cfg fo prio r = Ok i ->
  diff_intent i i = {| d_mdel := []; d_edel := []; d_cdel := map fst (i_del i);
                       d_mupd := []; d_eupd := []; d_cupd := i_upd i; d_mism := [] |}.
Proof. intros H. apply diff_refl. eapply minimal_intent_wf; eauto. Qed.

Theorem swap_intents a b : gd_wfb a = true -> gd_wfb b = true -> diff_intent b a = gd_swap_diff (diff_intent a b).
Proof. intros Ha Hb. apply gd_wfb_wf in Ha, Hb. apply (diff_swap a b Ha Hb). Qed.

Theorem swap_requests cfg fo prio a b d : gd_diff_set_request_p cfg fo prio a b = Ok d ->
  gd_diff_set_request_p cfg fo prio b a = Ok (gd_swap_diff d).
Proof.
  unfold gd_diff_set_request_p. intros H. apply bind_ok in H as [ia [Ha H]]. apply bind_ok in H as [ib [Hb H]]. inversion H; subst.
  rewrite Hb. simpl. rewrite Ha. simpl. f_equal. apply diff_swap; eapply minimal_intent_wf; eauto.
Qed.

(* same intent => clean diff, at the level of DiffSetRequest *)
Theorem same_intent_clean cfg fo p1 p2 a b i : gd_minimal_intent_p cfg fo p1 a = Ok i -> gd_minimal_intent_p cfg fo p2 b = Ok i ->
  gd_diff_clean (diff_intent i i) = true.
Proof. intros H _. rewrite (refl_request _ _ _ _ _ H). reflexivity. Qed.

(* single-edit classification for requests, through DiffSetRequestToNotifications' comparison *)
Definition gd_sdiff_clean (d : gd_sdiff) : bool := nil_b (sd_missing d) && nil_b (sd_extra d) && nil_b (sd_mism d).
