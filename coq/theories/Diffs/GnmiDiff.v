(* GnmiDiff.v — transcription of the schema-less part of /repo/gnmidiff:
     json.go          flattenOCJSON / flattenOCJSONAux (keepNamespace = false)
     intent.go        writeUpdate, populateUpdate (schema == nil), populateUpdateNoSchema,
                      protoLeafToJSON
     setrequest.go    prefixStr, fullPathStr, minimalSetRequestIntent, DiffSetRequest
     set_to_get.go    DiffSetRequestToNotifications
   The intent is, exactly as in Go, a pair of maps keyed by PATH STRINGS (ygot.PathToString);
   a Go map is modelled by its sorted association list (Base.al_insert).  Values are the
   interface{} values the Go code stores: bool, float64, string, []interface{} = json.
   The with-schema path of populateUpdate (SetNode ; Marshal7951 ; flattenOCJSON) is NOT
   modelled; it is covered by the implementation-side oracle only.
   Definitions only; proofs are in GnmiDiffProofs.v. *)
From Ygot Require Import Base.Base Path.PathString Tree.Tree Scalar.Dec Scalar.Base64.

Definition GD_COLON : rune := 58.
Definition GD_DOT : rune := 46.
Definition GD_LOWER_E : rune := 101.

(* ---------- what the Go runtime / strconv contribute ---------- *)

(* go_ffmt bits  = strconv.FormatFloat(f, 'f', -1, 64)         (protoLeafToJSON, DoubleVal)
   go_gfmt m e   = fmt.Sprintf("%g", f) for the float64 m*10^e  (ygot.KeyValueAsString), used only
                   where gd_g_int below does not apply (non-integers, |f| >= 2^53).
   Both are tables written by the harness; theorems quantify over them. *)
Record gd_oracle := { go_ffmt : N -> str; go_gfmt : Z -> Z -> str; go_nfmt : Z -> Z -> str }.

Definition gd_lookup_me (gm : list ((Z * Z) * str)) (m e : Z) : str :=
  match find (fun p => (fst (fst p) =? m)%Z && (snd (fst p) =? e)%Z) gm with
  | Some p => snd p | None => [] end.
(* go_nfmt m e = strconv.FormatFloat(f, 'f', -1, 64) of m*10^e: only used by the repaired code *)
Definition gd_mk_oracle (fm : list (N * str)) (gm nm : list ((Z * Z) * str)) : gd_oracle :=
  {| go_ffmt := fun b => match find (fun p => fst p =? b) fm with Some p => snd p | None => [] end;
     go_gfmt := gd_lookup_me gm;
     go_nfmt := gd_lookup_me nm |}.

(* The three places where the proposed repairs change gnmidiff (all false = the code as it is):
     cfg_escape      flattenOCJSON escapes '=' and ']' in list key values as PathToString does
     cfg_deep_equal  writeUpdate compares with reflect.DeepEqual instead of != (no panic)
     cfg_plain_num   flattenOCJSON prints a numeric key with 'f' formatting instead of %g *)
Record gd_cfg := { cfg_escape : bool; cfg_deep_equal : bool; cfg_plain_num : bool }.
Definition gd_cfg_current : gd_cfg := {| cfg_escape := false; cfg_deep_equal := false; cfg_plain_num := false |}.
Definition gd_cfg_fixed : gd_cfg := {| cfg_escape := true; cfg_deep_equal := true; cfg_plain_num := true |}.

(* float64(int64) / float64(uint64): round to nearest even on 53 bits *)
Definition gd_round53 (z : Z) : Z :=
  let a := Z.abs z in
  let l := Z.log2 a in
  if (l <? 53)%Z then z else
  let sh := (l - 52)%Z in
  let q := Z.shiftr a sh in
  let r := (a - Z.shiftl q sh)%Z in
  let half := Z.shiftl 1 (sh - 1) in
  let q' := if (r <? half)%Z then q
            else if (half <? r)%Z then (q + 1)%Z
            else if Z.even q then q else (q + 1)%Z in
  (Z.sgn z * Z.shiftl q' sh)%Z.

(* the normal form JNum m e of an integer: trailing decimal zeros moved into the exponent *)
Fixpoint gd_strip10 (fuel : nat) (m e : Z) : Z * Z :=
  match fuel with
  | O => (m, e)
  | S f => if (m =? 0)%Z then (0%Z, 0%Z)
           else if (m mod 10 =? 0)%Z then gd_strip10 f (m / 10)%Z (e + 1)%Z else (m, e)
  end.
Definition gd_jnum_of_Z (z : Z) : json :=
  let '(m, e) := gd_strip10 (S (Z.to_nat (Z.log2 (Z.abs z)))) z 0%Z in JNum m e.

(* %g with the shortest precision, for an integer-valued float below 2^53 given as m * 10^e
   (m normalised, e >= 0): the exponent form is used from 10^6 on (strconv: eprec = 6) *)
Definition gd_g_applies (m e : Z) : bool :=
  (0 <=? e)%Z && (e <? 16)%Z && (Z.abs (m * 10 ^ e) <? 9007199254740992)%Z.
Definition gd_two_digits (x : Z) : str := if (x <? 10)%Z then DZERO :: dec_of_Z x else dec_of_Z x.
Definition gd_g_int (m e : Z) : str :=
  if (m =? 0)%Z then [DZERO] else
  let D := dec_of_N (Z.abs_N m) in
  let X := (Z.of_nat (length D) + e - 1)%Z in
  let sign := if (m <? 0)%Z then [MINUS] else [] in
  if (X <? 6)%Z then sign ++ D ++ repeat DZERO (Z.to_nat e)
  else sign ++ firstn 1 D ++ (match skipn 1 D with [] => [] | r => GD_DOT :: r end)
            ++ [GD_LOWER_E; PLUS] ++ gd_two_digits X.

Definition gd_true : str := [116; 114; 117; 101].
Definition gd_false : str := [102; 97; 108; 115; 101].

(* ---------- JSON values ---------- *)

(* reflect.DeepEqual on decoded JSON (numbers are exact values in normal form) *)
Fixpoint gd_json_eqb (a b : json) {struct a} : bool :=
  match a, b with
  | JNull, JNull => true
  | JBool x, JBool y => Bool.eqb x y
  | JNum m e, JNum m' e' => (m =? m')%Z && (e =? e')%Z
  | JStr s, JStr t => str_eqb s t
  | JArr x, JArr y =>
      (fix go (x y : list json) : bool :=
         match x, y with
         | [], [] => true
         | p :: x', q :: y' => gd_json_eqb p q && go x' y'
         | _, _ => false
         end) x y
  | JObj x, JObj y =>
      (fix go (x y : list (str * json)) : bool :=
         match x, y with
         | [], [] => true
         | (k, p) :: x', (k', q) :: y' => str_eqb k k' && gd_json_eqb p q && go x' y'
         | _, _ => false
         end) x y
  | _, _ => false
  end.

Definition gd_is_scalar (j : json) : bool :=
  match j with JBool _ | JNum _ _ | JStr _ => true | _ => false end.
Definition gd_is_arr (j : json) : bool := match j with JArr _ => true | _ => false end.

(* strings.Split(name, ":") ; last part *)
Fixpoint gd_after_colon_aux (s cur : str) : str :=
  match s with
  | [] => cur
  | c :: t => if c =? GD_COLON then gd_after_colon_aux t [] else gd_after_colon_aux t (cur ++ [c])
  end.
Definition gd_after_colon (s : str) : str := gd_after_colon_aux s [].

(* ---------- json.go: flattenOCJSON ---------- *)

Definition gd_al_of_list {V} (l : list (str * V)) : list (str * V) :=
  fold_left (fun acc kv => al_insert (fst kv) (snd kv) acc) l [].

Section WithOracle.
Variable cfg : gd_cfg.
Variable fo : gd_oracle.

(* ygot.KeyValueAsString on a decoded JSON scalar (a number goes through %g) *)
Definition gd_num_str (m e : Z) : str :=
  if cfg_plain_num cfg then (if gd_g_applies m e then dec_of_Z (m * 10 ^ e) else go_nfmt fo m e)
  else (if gd_g_applies m e then gd_g_int m e else go_gfmt fo m e).
Definition gd_key_str (v : json) : str :=
  match v with
  | JStr s => s
  | JBool b => if b then gd_true else gd_false
  | JNum m e => gd_num_str m e
  | _ => []
  end.
(* the value is written into the path as it is: NOT escaped by the current code *)
Definition gd_key_esc (v : str) : str := if cfg_escape cfg then esc_val v else v.

(* "[name=value]" for every member of a list element that is a JSON scalar, names sorted;
   the member NAME is used as it is (a "module:" prefix is not removed) *)
Definition gd_key_members (m : list (str * json)) : list (str * str) :=
  gd_al_of_list (map (fun kv => (fst kv, gd_key_str (snd kv))) (filter (fun kv => gd_is_scalar (snd kv)) m)).
Definition gd_key_path (m : list (str * json)) : str :=
  flat_map (fun kv => [LBR] ++ fst kv ++ [EQC] ++ gd_key_esc (snd kv) ++ [RBR]) (gd_key_members m).

(* flattenOCJSONAux: the (path, value) writes into `leaves`, in traversal order (a later write
   to the same path wins, see gd_flatten_json).  All failures are returned errors. *)
Fixpoint gd_flat (j : json) (path : str) {struct j} : result (list (str * json)) :=
  let members :=
    fix members (m : list (str * json)) (path : str) {struct m} : result (list (str * json)) :=
      match m with
      | [] => Ok []
      | (n, v) :: t =>
          bind (gd_flat v (path ++ SLASH :: gd_after_colon n)) (fun a =>
          bind (members t path) (fun b => Ok (a ++ b)))
      end in
  match j with
  | JNull => Err
  | JBool _ | JNum _ _ | JStr _ => Ok [(path, j)]
  | JArr [] => Ok [(path, j)]
  | JArr ((x :: _) as l) =>
      match x with
      | JBool _ | JNum _ _ | JStr _ => Ok [(path, j)]
      | JArr _ => Err
      | JNull => Err
      | JObj _ =>
          (fix elems (l : list json) : result (list (str * json)) :=
             match l with
             | [] => Ok []
             | JObj m :: t =>
                 bind (members m (path ++ gd_key_path m)) (fun a =>
                 bind (elems t) (fun b => Ok (a ++ b)))
             | _ :: _ => Err
             end) l
      end
  | JObj m => members m path
  end.

(* flattenOCJSON(json, false): the resulting map *)
Definition gd_flatten_json (j : json) : result (list (str * json)) :=
  bind (gd_flat j []) (fun ws => Ok (gd_al_of_list ws)).

(* ---------- intent.go ---------- *)

(* protoLeafToJSON *)
Fixpoint gd_proto_leaf_to_json (tv : tval) : result json :=
  match tv with
  | TVString s => Ok (JStr s)
  | TVBool b => Ok (JBool b)
  | TVInt z => Ok (gd_jnum_of_Z (gd_round53 z))
  | TVUint z => Ok (gd_jnum_of_Z (gd_round53 z))
  | TVDouble bits => Ok (JStr (go_ffmt fo bits))
  | TVLeafList l =>
      bind ((fix go (l : list tval) : result (list json) :=
               match l with
               | [] => Ok []
               | x :: t => bind (gd_proto_leaf_to_json x) (fun y => bind (go t) (fun ys => Ok (y :: ys)))
               end) l) (fun ys => Ok (JArr ys))
  | TVBytes bs => Ok (JStr (b64enc bs))
  | _ => Err
  end.

Record intent := { i_del : list (str * unit); i_upd : list (str * json) }.

Fixpoint gd_al_remove {V} (k : str) (l : list (str * V)) : list (str * V) :=
  match l with
  | [] => []
  | (k', v) :: t => if str_eqb k k' then gd_al_remove k t else (k', v) :: gd_al_remove k t
  end.

(* writeUpdate: `errorOnOverwrite && ok && val != prevVal`.  Comparing two interface values that
   both hold a []interface{} is a run-time panic; values of different dynamic types are unequal. *)
Inductive gd_wstat := WOk | WErr | WPanic.
Definition gd_write_check (eoo : bool) (m : list (str * json)) (k : str) (v : json) : gd_wstat :=
  if negb eoo then WOk else
  match al_find k m with
  | None => WOk
  | Some pv => if negb (cfg_deep_equal cfg) && gd_is_arr v && gd_is_arr pv then WPanic
               else if gd_json_eqb v pv then WOk else WErr
  end.
Definition gd_write_update (eoo : bool) (m : list (str * json)) (k : str) (v : json) : result (list (str * json)) :=
  match gd_write_check eoo m k v with
  | WOk => Ok (al_insert k v m)
  | WErr => Err
  | WPanic => Panic
  end.

Definition gd_is_err (s : gd_wstat) : bool := match s with WErr => true | _ => false end.
Definition gd_is_panic (s : gd_wstat) : bool := match s with WPanic => true | _ => false end.

(* `for subpath, val := range updates { writeUpdate(path+subpath, ...) }`: the entries have distinct
   paths, so each check only depends on the map before the loop; Go stops at the first failing
   entry in map order.  When entries of both failure kinds exist the outcome depends on the
   iteration order: prio = true lets the panic win, prio = false the error (the two
   schedules bound what Go can do; successful runs do not depend on prio). *)
Definition gd_write_all (prio eoo : bool) (m : list (str * json)) (ws : list (str * json)) : result (list (str * json)) :=
  let sts := map (fun kv => gd_write_check eoo m (fst kv) (snd kv)) ws in
  if existsb gd_is_panic sts && (prio || negb (existsb gd_is_err sts)) then Panic
  else if existsb gd_is_err sts then Err
  else Ok (fold_left (fun acc kv => al_insert (fst kv) (snd kv) acc) ws m).

(* what a TypedValue contributes at `path`: a leaf value, or the flattened JSON sub-tree *)
Inductive gd_contrib := CLeaf (v : json) | CSub (ws : list (str * json)).
Definition gd_classify (tv : tval) : result gd_contrib :=
  match tv with
  | TVJsonIetf j =>
      bind (gd_flatten_json j) (fun ups =>
        match ups with
        | [(k, v)] => if nil_b k then Ok (CLeaf v) else Ok (CSub ups)
        | _ => Ok (CSub ups)
        end)
  | _ => bind (gd_proto_leaf_to_json tv) (fun v => Ok (CLeaf v))
  end.

(* populateUpdate with schema == nil  (= populateUpdateNoSchema after the trailing-"/" check) *)
Definition gd_populate (prio eoo : bool) (it : intent) (path : str) (tv : tval) : result intent :=
  if last_rune path =? SLASH then Err else
  bind (gd_classify tv) (fun c =>
    match c with
    | CLeaf v =>
        bind (gd_write_update eoo (i_upd it) path v) (fun u =>
          Ok {| i_del := gd_al_remove path (i_del it); i_upd := u |})
    | CSub ws =>
        bind (gd_write_all prio eoo (i_upd it) (map (fun kv => (path ++ fst kv, snd kv)) ws)) (fun u =>
          Ok {| i_del := i_del it; i_upd := u |})
    end).

(* ---------- setrequest.go ---------- *)

Record setreq := { sr_prefix : gpath; sr_del : list gpath;
                   sr_rep : list (gpath * tval); sr_upd : list (gpath * tval) }.

(* strings.TrimSuffix(s, "/") *)
Definition gd_trim_slash (s : str) : str := if last_rune s =? SLASH then removelast s else s.

(* fullPathStr(prefixStr(prefix), path) *)
Definition gd_full_path (pre : str) (p : gpath) : result str :=
  bind (path_str p) (fun s => Ok (gd_trim_slash pre ++ gd_trim_slash s)).

Fixpoint gd_has_prefix (p s : str) : bool :=
  match p, s with
  | [], _ => true
  | c :: p', d :: s' => (c =? d) && gd_has_prefix p' s'
  | _ :: _, [] => false
  end.

(* `for _, path := range t.Keys() { t.PrefixSearch(path + "/") }` over the set of keys *)
Definition gd_prefix_conflict (keys : list str) : bool :=
  existsb (fun p => existsb (fun k => gd_has_prefix (p ++ [SLASH]) k) keys) keys.

(* state of minimalSetRequestIntent: the intent and the keys added to the first trie *)
Record gd_st := { s_int : intent; s_tk : list str }.

(* the common part of a delete and of a replace *)
Definition gd_mark (s : gd_st) (path : str) : result gd_st :=
  match al_find path (i_del (s_int s)) with
  | Some _ => Err
  | None => Ok {| s_int := {| i_del := al_insert path tt (i_del (s_int s)); i_upd := i_upd (s_int s) |};
                  s_tk := path :: s_tk s |}
  end.

Section Process.
Variable prio : bool.
Variable fp : gpath -> result str.

Fixpoint gd_do_dels (s : gd_st) (ds : list gpath) : result gd_st :=
  match ds with
  | [] => Ok s
  | d :: t => bind (fp d) (fun path => bind (gd_mark s path) (fun s' => gd_do_dels s' t))
  end.

Fixpoint gd_do_reps (s : gd_st) (rs : list (gpath * tval)) : result gd_st :=
  match rs with
  | [] => Ok s
  | (p, tv) :: t =>
      bind (fp p) (fun path =>
      bind (gd_mark s path) (fun s1 =>
      bind (gd_populate prio true (s_int s1) path tv) (fun it =>
      gd_do_reps {| s_int := it; s_tk := s_tk s1 |} t)))
  end.

Fixpoint gd_do_upds (eoo : bool) (it : intent) (us : list (gpath * tval)) : result intent :=
  match us with
  | [] => Ok it
  | (p, tv) :: t =>
      bind (fp p) (fun path =>
      bind (gd_populate prio eoo it path tv) (fun it' => gd_do_upds eoo it' t))
  end.

Definition gd_process (ds : list gpath) (rs us : list (gpath * tval)) : result intent :=
  bind (gd_do_dels {| s_int := {| i_del := []; i_upd := [] |}; s_tk := [] |} ds) (fun s1 =>
  bind (gd_do_reps s1 rs) (fun s2 =>
  if gd_prefix_conflict (s_tk s2) then Err else
  bind (gd_do_upds true (s_int s2) us) (fun it =>
  if gd_prefix_conflict (map fst (i_upd it)) then Err else Ok it))).
End Process.

(* minimalSetRequestIntent(req, nil) *)
Definition gd_minimal_intent_p (prio : bool) (r : setreq) : result intent :=
  bind (path_str (sr_prefix r)) (fun pre =>
    gd_process prio (gd_full_path pre) (sr_del r) (sr_rep r) (sr_upd r)).
Definition gd_minimal_intent (r : setreq) : result intent := gd_minimal_intent_p true r.

(* ---------- DiffSetRequest ---------- *)

Record gd_diff := {
  d_mdel : list str; d_edel : list str; d_cdel : list str;
  d_mupd : list (str * json); d_eupd : list (str * json); d_cupd : list (str * json);
  d_mism : list (str * (json * json)) }.

Definition gd_in {V} (k : str) (m : list (str * V)) : bool :=
  match al_find k m with Some _ => true | None => false end.

(* A's entries whose path B also has, split by reflect.DeepEqual of the two values *)
Definition gd_common (a b : list (str * json)) : list (str * json) :=
  filter (fun kv => match al_find (fst kv) b with Some vb => gd_json_eqb (snd kv) vb | None => false end) a.
Definition gd_mism (a b : list (str * json)) : list (str * (json * json)) :=
  flat_map (fun kv => match al_find (fst kv) b with
                      | Some vb => if gd_json_eqb (snd kv) vb then [] else [(fst kv, (snd kv, vb))]
                      | None => [] end) a.
Definition gd_only {V W} (a : list (str * V)) (b : list (str * W)) : list (str * V) :=
  filter (fun kv => negb (gd_in (fst kv) b)) a.

Definition diff_intent (a b : intent) : gd_diff :=
  {| d_mdel := map fst (gd_only (i_del a) (i_del b));
     d_edel := map fst (gd_only (i_del b) (i_del a));
     d_cdel := map fst (filter (fun kv => gd_in (fst kv) (i_del b)) (i_del a));
     d_mupd := gd_only (i_upd a) (i_upd b);
     d_eupd := gd_only (i_upd b) (i_upd a);
     d_cupd := gd_common (i_upd a) (i_upd b);
     d_mism := gd_mism (i_upd a) (i_upd b) |}.

Definition gd_diff_set_request_p (prio : bool) (a b : setreq) : result gd_diff :=
  bind (gd_minimal_intent_p prio a) (fun ia =>
  bind (gd_minimal_intent_p prio b) (fun ib => Ok (diff_intent ia ib))).
Definition gd_diff_set_request := gd_diff_set_request_p true.

(* ---------- DiffSetRequestToNotifications ---------- *)

Record notif := { n_prefix : gpath; n_del : list gpath; n_upd : list (gpath * tval) }.

Record gd_sdiff := {
  sd_missing : list (str * json); sd_extra : list (str * json); sd_common : list (str * json);
  sd_mism : list (str * (json * json)) }.

(* the updates the notifications carry (errorOnOverwrite = false: a later value wins) *)
Fixpoint gd_notifs_intent (it : intent) (ns : list notif) : result intent :=
  match ns with
  | [] => Ok it
  | n :: t =>
      match n_del n with
      | _ :: _ => Err
      | [] =>
          bind (path_str (n_prefix n)) (fun pre =>
          bind (gd_do_upds true (gd_full_path pre) false it (n_upd n)) (fun it' =>
          gd_notifs_intent it' t))
      end
  end.

(* the comparison proper, on a SetRequest intent and the map of notification leaves: leaves of
   the intent are missing / mismatched / common; a remaining notification leaf is extra iff it
   lies strictly below a deleted (or replaced) path *)
Definition gd_under_deleted (dels : list (str * unit)) (p : str) : bool :=
  existsb (fun d => gd_has_prefix (fst d ++ [SLASH]) p) dels.
Definition diff_intent_notifs (si : intent) (nu : list (str * json)) : gd_sdiff :=
  {| sd_missing := gd_only (i_upd si) nu;
     sd_extra := filter (fun kv => gd_under_deleted (i_del si) (fst kv)) (gd_only nu (i_upd si));
     sd_common := gd_common (i_upd si) nu;
     sd_mism := gd_mism (i_upd si) nu |}.

Definition gd_diff_set_to_notifs_p (prio : bool) (r : setreq) (ns : list notif) : result gd_sdiff :=
  bind (gd_minimal_intent_p prio r) (fun si =>
  bind (gd_notifs_intent {| i_del := []; i_upd := [] |} ns) (fun ni =>
  Ok (diff_intent_notifs si (i_upd ni)))).
Definition gd_diff_set_to_notifs := gd_diff_set_to_notifs_p true.

End WithOracle.

(* The configuration that describes the code in /repo, against which the case files of the
   gdiff / gdiffnotifs streams are checked.  It is gd_cfg_current as long as the three proposed
   repairs are not committed; once they are, this ONE definition becomes gd_cfg_fixed (the
   theorems of Properties/C22.v are stated for every cfg or name their cfg explicitly, so they
   stay valid; c22_*_fixed then are the statements about the code, c22_*_refuted history). *)
Definition gd_cfg_repo : gd_cfg := gd_cfg_fixed.
Definition minimal_intent (fo : gd_oracle) (r : setreq) : result intent := gd_minimal_intent gd_cfg_repo fo r.
Definition diff_set_request (fo : gd_oracle) := gd_diff_set_request gd_cfg_repo fo.
Definition diff_set_to_notifs (fo : gd_oracle) := gd_diff_set_to_notifs gd_cfg_repo fo.

(* ---------- specification side: "the equivalent leaf updates" of a JSON payload ----------
   Not part of gnmidiff: the structured reading of an RFC 7951 tree that the property C22 compares
   flattenOCJSON with.  Every scalar member of a list element is read as a key (there is no schema
   here); a key value is spelt as ygot spells it in a path: strings as they are, booleans as
   true/false, integers in plain decimal. *)
Definition gd_plain_num (fo : gd_oracle) (m e : Z) : str :=
  if gd_g_applies m e then dec_of_Z (m * 10 ^ e) else go_nfmt fo m e.
Definition gd_path_key_str (fo : gd_oracle) (v : json) : str :=
  match v with
  | JStr s => s
  | JBool b => if b then gd_true else gd_false
  | JNum m e => gd_plain_num fo m e
  | _ => []
  end.
Definition gd_sane_name (s : str) : bool := negb (nil_b s) && negb (last_rune s =? SLASH).
Definition gd_scalars (m : list (str * json)) : list (str * json) := filter (fun kv => gd_is_scalar (snd kv)) m.
Definition gd_path_keys (fo : gd_oracle) (m : list (str * json)) : list (str * str) :=
  gd_al_of_list (map (fun kv => (fst kv, gd_path_key_str fo (snd kv))) (gd_scalars m)).

(* rcur: the path from the root of the payload to the current node, innermost element first *)
Fixpoint gd_sleaves (fo : gd_oracle) (j : json) (rcur : list pelem) {struct j} : option (list (gpath * json)) :=
  let members :=
    fix members (m : list (str * json)) (rcur : list pelem) {struct m} : option (list (gpath * json)) :=
      match m with
      | [] => Some []
      | (n, v) :: t =>
          if gd_sane_name (gd_after_colon n) then
            match gd_sleaves fo v ({| ename := gd_after_colon n; ekeys := [] |} :: rcur), members t rcur with
            | Some a, Some b => Some (a ++ b)
            | _, _ => None
            end
          else None
      end in
  match j with
  | JNull => None
  | JBool _ | JNum _ _ | JStr _ => Some [(rev rcur, j)]
  | JArr [] => Some [(rev rcur, j)]
  | JArr ((x :: _) as l) =>
      match x with
      | JBool _ | JNum _ _ | JStr _ => Some [(rev rcur, j)]
      | JArr _ | JNull => None
      | JObj _ =>
          match rcur with
          | [] => None
          | e :: rest =>
              if negb (nil_b (ekeys e)) then None else
              (fix elems (l : list json) : option (list (gpath * json)) :=
                 match l with
                 | [] => Some []
                 | JObj m :: t =>
                     if forallb (fun kv => negb (nil_b (fst kv))) (gd_scalars m) then
                       match members m ({| ename := ename e; ekeys := gd_path_keys fo m |} :: rest), elems t with
                       | Some a, Some b => Some (a ++ b)
                       | _, _ => None
                       end
                     else None
                 | _ :: _ => None
                 end) l
          end
      end
  | JObj m => members m rcur
  end.

(* the guard under which flattenOCJSON spells every list key as the path does *)
Definition gd_key_ok (cfg : gd_cfg) (fo : gd_oracle) (v : json) : bool :=
  str_eqb (gd_key_esc cfg (gd_key_str cfg fo v)) (esc_val (gd_path_key_str fo v)).
Fixpoint gd_keys_ok (cfg : gd_cfg) (fo : gd_oracle) (j : json) {struct j} : bool :=
  match j with
  | JArr l =>
      (fix go (l : list json) : bool := match l with [] => true | x :: t => gd_keys_ok cfg fo x && go t end) l &&
      match l with
      | JObj _ :: _ =>
          forallb (fun x => match x with JObj m => forallb (fun kv => gd_key_ok cfg fo (snd kv)) (gd_scalars m) | _ => true end) l
      | _ => true
      end
  | JObj m =>
      (fix go (m : list (str * json)) : bool := match m with [] => true | (_, x) :: t => gd_keys_ok cfg fo x && go t end) m
  | _ => true
  end.
