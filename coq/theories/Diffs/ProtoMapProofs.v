(* ProtoMapProofs.v — proofs about the model of protomap/proto.go (Diffs/ProtoMap.v):
   (A) PathsFromProto emits exactly rel_paths (the relative specification), hence every
       emitted path is a data-tree path whose schema path is an annotation;
   (B) ProtoFromPaths on any permutation of those paths rebuilds the message up to the
       order of keyed-list entries, for every combination of repairs under the matching guard. *)
From Coq Require Import Permutation.
From Ygot Require Import Base.Base Path.PathString Path.PathRel Path.PathRelProofs Scalar.Dec Diffs.ProtoMap.

(* ---------- generic ---------- *)

Lemma bind_ok {A B} (r : result A) (f : A -> result B) y :
  bind r f = Ok y -> exists x, r = Ok x /\ f x = Ok y.
Proof. destruct r; simpl; try discriminate. eauto. Qed.

Lemma mapM_ok_map {A B} (f : A -> result B) (g : A -> B) l :
  (forall x, In x l -> f x = Ok (g x)) -> mapM f l = Ok (map g l).
Proof.
  induction l as [|x l IH]; intros H; simpl; auto.
  rewrite (H x) by (now left). simpl. rewrite IH; auto. intros; apply H; now right.
Qed.

Lemma skipn_In {A} n (l : list A) x : In x (skipn n l) -> In x l.
Proof. intros H. rewrite <- (firstn_skipn n l). apply in_or_app. now right. Qed.
Lemma firstn_In {A} n (l : list A) x : In x (firstn n l) -> In x l.
Proof. intros H. rewrite <- (firstn_skipn n l). apply in_or_app. now left. Qed.

Lemma andb3 a b c : a && b && c = true -> a = true /\ b = true /\ c = true.
Proof. rewrite !andb_true_iff. tauto. Qed.

Lemma nil_b_false {A} (l : list A) : nil_b l = false <-> l <> [].
Proof. destruct l; simpl; split; congruence. Qed.
Lemma nil_b_true {A} (l : list A) : nil_b l = true <-> l = [].
Proof. destruct l; simpl; split; congruence. Qed.

(* ---------- names and prefixes ---------- *)

Lemma names_app a b : names (a ++ b) = names a ++ names b.
Proof. apply map_app. Qed.
Lemma names_length a : length (names a) = length a.
Proof. apply map_length. Qed.
Lemma names_skipn n a : names (skipn n a) = skipn n (names a).
Proof. unfold names. revert a; induction n; intros [|x a]; simpl; auto. Qed.

Lemma nprefix_refl a : nprefix a a = true.
Proof. induction a; simpl; auto. now rewrite str_eqb_refl. Qed.
Lemma nprefix_app a b : nprefix a (a ++ b) = true.
Proof. induction a; simpl; auto. now rewrite str_eqb_refl. Qed.
Lemma nprefix_iff a b : nprefix a b = true <-> exists c, b = a ++ c.
Proof.
  revert b; induction a as [|x a IH]; intros b; simpl.
  - split; [intros _; now exists b | reflexivity].
  - destruct b as [|y b]; [split; [discriminate | intros [c H]; discriminate]|].
    rewrite andb_true_iff, str_eqb_eq, IH. split.
    + intros [-> [c ->]]. eauto.
    + intros [c H]. injection H as -> ->. eauto.
Qed.
Lemma nprefix_trans a b c : nprefix a b = true -> nprefix b c = true -> nprefix a c = true.
Proof.
  rewrite !nprefix_iff. intros [x ->] [y ->]. exists (x ++ y). now rewrite app_assoc.
Qed.
Lemma app_eq_prefix {A} (a b c d : list A) : a ++ c = b ++ d ->
  (exists e, b = a ++ e) \/ (exists e, a = b ++ e).
Proof.
  revert b; induction a as [|x a IH]; intros b H.
  - left. now exists b.
  - destruct b as [|y b]; [right; now exists (x :: a)|].
    simpl in H. injection H as -> H. destruct (IH _ H) as [[e ->]|[e ->]]; [left|right]; now exists e.
Qed.
(* two prefixes of one list are comparable *)
Lemma nprefix_comparable a b c : nprefix a c = true -> nprefix b c = true -> comparable a b = true.
Proof.
  rewrite !nprefix_iff. intros [x ->] [y H]. unfold comparable. rewrite orb_true_iff, !nprefix_iff.
  apply app_eq_prefix in H. tauto.
Qed.
Lemma nprefix_length a b : nprefix a b = true -> (length a <= length b)%nat.
Proof. rewrite nprefix_iff. intros [c ->]. rewrite app_length. lia. Qed.

(* ---------- resolvedPath ---------- *)

Lemma resolved_ok base a : (length base <= length a)%nat ->
  resolved base a = Ok (base ++ skipn (length base) a).
Proof.
  intros H. unfold resolved. destruct base as [|x base]; simpl; auto.
  simpl in H. destruct (Nat.ltb_spec (length a) (S (length base))); [lia | reflexivity].
Qed.

Lemma emit_ok base anns pv : (forall a, In a anns -> (length base <= length a)%nat) ->
  emit base anns pv = Ok (prep base (map (fun a => (skipn (length base) a, pv)) anns)).
Proof.
  intros H. unfold emit, prep. rewrite map_map. apply mapM_ok_map.
  intros a Ha. rewrite resolved_ok by auto. reflexivity.
Qed.

Lemma prep_app p a b : prep p (a ++ b) = prep p a ++ prep p b.
Proof. apply map_app. Qed.
Lemma prep_prep p q l : prep p (prep q l) = prep (p ++ q) l.
Proof. unfold prep. rewrite map_map. apply map_ext. intros [x v]; simpl. now rewrite app_assoc. Qed.
Lemma prep_nil l : prep [] l = l.
Proof. unfold prep. rewrite <- (map_id l) at 2. apply map_ext. now intros [x v]. Qed.

(* ---------- induction on values ---------- *)

Definition opt_all (Q : list fval -> Prop) (o : option (list fval)) : Prop :=
  match o with Some m => Q m | None => True end.

Section FvalInd.
  Variable P : fval -> Prop.
  Hypothesis HU : P VUnset.
  Hypothesis HW : forall w, P (VWrap w).
  Hypothesis HS : forall s, P (VScalar s).
  Hypothesis HL : forall vs, P (VLeafList vs).
  Hypothesis HUn : forall es, P (VUnion es).
  Hypothesis HM : forall m, Forall P m -> P (VMsg m).
  Definition PE (e : list (option sval) * option (list fval)) : Prop := opt_all (Forall P) (snd e).
  Hypothesis HLi : forall es, Forall PE es -> P (VList es).
  Definition pe_intro ks mem (H : opt_all (Forall P) mem) : PE (ks, mem) := H.
  Fixpoint fval_ind' (v : fval) : P v :=
    match v with
    | VUnset => HU
    | VWrap w => HW w
    | VScalar s => HS s
    | VLeafList vs => HL vs
    | VUnion es => HUn es
    | VMsg m => HM m ((fix go (l : list fval) : Forall P l :=
                         match l with
                         | [] => Forall_nil _
                         | x :: t => Forall_cons _ (fval_ind' x) (go t)
                         end) m)
    | VList es =>
        HLi es ((fix goe (l : list (list (option sval) * option (list fval))) : Forall PE l :=
                   match l with
                   | [] => Forall_nil _
                   | (ks, mem) :: t =>
                       Forall_cons (ks, mem)
                         (pe_intro ks mem
                           (match mem as o return opt_all (Forall P) o with
                            | Some m => (fix go (l : list fval) : Forall P l :=
                                           match l with
                                           | [] => Forall_nil _
                                           | x :: t => Forall_cons _ (fval_ind' x) (go t)
                                           end) m
                            | None => I
                            end)) (goe t)
                   end) es)
    end.
End FvalInd.

(* ---------- zip combinators ---------- *)

Lemma zipMv_ok {C} (f : fdesc -> fval -> result (list C)) (g : fdesc -> fval -> list C)
      (Q : fdesc -> fval -> bool) ds ms :
  Forall (fun v => forall d, Q d v = true -> f d v = Ok (g d v)) ms ->
  zipand Q ds ms = true -> zipMv f ds ms = Ok (zipcat g ds ms).
Proof.
  intros H; revert ds; induction H as [|v ms Hv _ IH]; intros [|d ds]; simpl; auto.
  rewrite andb_true_iff. intros [H1 H2]. rewrite (Hv _ H1). simpl. rewrite (IH _ H2). reflexivity.
Qed.

Lemma zipcat_prep p (g : fdesc -> fval -> pvals) ds ms :
  zipcat (fun d v => prep p (g d v)) ds ms = prep p (zipcat g ds ms).
Proof.
  revert ds; induction ms as [|v ms IH]; intros [|d ds]; simpl; auto.
  now rewrite prep_app, IH.
Qed.

Lemma zipand_and (p : fdesc -> bool) (q : fdesc -> fval -> bool) ds ms :
  forallb p ds = true -> zipand q ds ms = true -> zipand (fun d v => p d && q d v) ds ms = true.
Proof.
  revert ds; induction ms as [|v ms IH]; intros [|d ds]; simpl; auto.
  rewrite !andb_true_iff. intros [A B] [C D]. rewrite A, C, IH; auto.
Qed.

Lemma zipand_imp (q q' : fdesc -> fval -> bool) ds ms :
  (forall d v, In d ds -> In v ms -> q d v = true -> q' d v = true) ->
  zipand q ds ms = true -> zipand q' ds ms = true.
Proof.
  revert ds; induction ms as [|v ms IH]; intros [|d ds] H; simpl; auto.
  rewrite !andb_true_iff. intros [A B]. split.
  - apply H; simpl; auto.
  - apply IH; auto. intros; apply H; simpl; auto.
Qed.

(* ---------- list keys: what parseListField yields ---------- *)

Lemma set_last_keys_app p s K : s <> [] -> set_last_keys (p ++ s) K = p ++ set_last_keys s K.
Proof.
  intros Hs. induction p as [|e p IH]; simpl; auto.
  rewrite IH. destruct (p ++ s) eqn:E; auto.
  apply app_eq_nil in E as [_ E]. contradiction.
Qed.
Lemma set_last_keys_length p K : length (set_last_keys p K) = length p.
Proof.
  induction p as [|e p IH]; simpl; auto. destruct p; simpl in *; auto.
Qed.
Lemma set_last_keys_names p K : names (set_last_keys p K) = names p.
Proof.
  induction p as [|e p IH]; simpl; auto. destruct p; simpl in *; auto. now rewrite IH.
Qed.

Lemma skipn_app_exact {A} (a b : list A) n : n = length a -> skipn n (a ++ b) = b.
Proof. intros ->. rewrite skipn_app, skipn_all, Nat.sub_diag. reflexivity. Qed.

Lemma ann_ok_parts P a : ann_ok P a = true ->
  keyfree a = true /\ nprefix P (names a) = true /\ (length P < length a)%nat.
Proof.
  unfold ann_ok. intros H. apply andb3 in H as (A & B & C). apply Nat.ltb_lt in C. auto.
Qed.

Lemma kd_ok_parts L kd : kd_ok L kd = true ->
  kd_oneof kd = false /\ kd_ann kd <> [] /\
  (forall a, In a (kd_ann kd) -> ann_ok L a = true /\ direct_names (rel (length L) a) = true) /\
  key_name (kd_ann kd) [] = Ok (kd_name kd).
Proof.
  unfold kd_ok, kd_name. rewrite !andb_true_iff, negb_true_iff. intros [[[A B] C] D].
  repeat split; auto.
  - now apply nil_b_false, negb_true_iff.
  - rewrite forallb_forall in C. specialize (C a H). now apply andb_prop in C.
  - rewrite forallb_forall in C. specialize (C a H). now apply andb_prop in C.
  - destruct (key_name (kd_ann kd) []); auto; discriminate.
Qed.

Lemma key_string_ok k sv : key_kind_ok k sv = true -> exists s, key_string sv = Ok s.
Proof. destruct k, sv; simpl; try discriminate; eauto. Qed.

Lemma parse_keys_ok L lp ks kvs :
  forallb (kd_ok L) ks = true -> keys_ok ks kvs = true -> length lp = length L ->
  parse_keys lp ks kvs = Ok (key_map ks kvs, prep lp (key_leaves (length lp) ks kvs)).
Proof.
  intros Hk; revert kvs; induction ks as [|kd ks IH]; intros [|[sv|] kvs]; simpl; try discriminate; auto.
  simpl in Hk. apply andb_prop in Hk as [Hkd Hks].
  rewrite andb_true_iff. intros [Hkk Hrest] Hlen.
  apply kd_ok_parts in Hkd as (_ & Hne & Hann & Hname).
  apply nil_b_false in Hne. rewrite Hne. rewrite Hname. simpl.
  destruct (key_string_ok _ _ Hkk) as [s Hs]. rewrite Hs. simpl.
  rewrite emit_ok.
  2:{ intros a Ha. destruct (Hann a Ha) as [Ha1 _]. apply ann_ok_parts in Ha1 as (_ & _ & Hl). lia. }
  simpl. rewrite (IH Hks _ Hrest Hlen). simpl. rewrite prep_app. reflexivity.
Qed.

Lemma key_leaves_long L ks kvs x : forallb (kd_ok L) ks = true ->
  In x (key_leaves (length L) ks kvs) -> exists a, fst x = skipn (length L) a /\ (length L < length a)%nat.
Proof.
  revert kvs; induction ks as [|kd ks IH]; intros kvs Hk Hin.
  - destruct kvs as [|[sv|] kvs]; simpl in Hin; contradiction.
  - simpl in Hk. apply andb_prop in Hk as [Hkd Hks].
    destruct kvs as [|[sv|] kvs]; simpl in Hin; [contradiction| |eauto].
    rewrite in_app_iff, in_map_iff in Hin. destruct Hin as [[a [<- Ha]]|H]; [|eauto].
    apply kd_ok_parts in Hkd as (_ & _ & Hann & _). destruct (Hann a Ha) as [Ha1 _].
    apply ann_ok_parts in Ha1 as (_ & _ & Hl). exists a; auto.
Qed.

Lemma concatM_resolved p lp KL : length p = length lp ->
  concatM (fun pv => bind (resolved p (fst pv)) (fun q => Ok [(q, snd pv)])) (prep lp KL) = Ok (prep p KL).
Proof.
  intros Hl. unfold concatM.
  rewrite (mapM_ok_map _ (fun pv => [(p ++ skipn (length p) (fst pv), snd pv)])).
  - simpl. f_equal. unfold prep. induction KL as [|[x v] KL IH]; simpl; auto.
    rewrite IH. rewrite Hl, skipn_app_exact by reflexivity. reflexivity.
  - intros [q v] Hin. unfold prep in Hin. apply in_map_iff in Hin as ([x w] & E & _).
    simpl in E. injection E as <- <-. simpl.
    rewrite resolved_ok; [reflexivity | rewrite app_length; lia].
Qed.

(* m[k] = v for all bindings of K in turn rebuilds K: from the empty map, and from the map
   left behind by the previous entry (same key names) *)
Lemma set_key_absent k v l : ~ In k (map fst l) -> set_key k v l = l ++ [(k, v)].
Proof.
  induction l as [|[k' v'] l IH]; simpl; auto. intros H.
  destruct (str_eqb k k') eqn:E; [apply str_eqb_eq in E; subst; tauto|]. rewrite IH; tauto.
Qed.
Lemma set_keys_fresh K l : NoDup (map fst (l ++ K)) -> set_keys K l = l ++ K.
Proof.
  unfold set_keys. revert l; induction K as [|[k v] K IH]; intros l H; simpl.
  - now rewrite app_nil_r.
  - rewrite set_key_absent.
    + rewrite IH; rewrite <- app_assoc; auto.
    + rewrite map_app in H. apply NoDup_remove_2 in H. rewrite in_app_iff in H. tauto.
Qed.
Lemma set_key_replace k v w l1 l2 : ~ In k (map fst l1) ->
  set_key k v (l1 ++ (k, w) :: l2) = l1 ++ (k, v) :: l2.
Proof.
  induction l1 as [|[k' v'] l1 IH]; simpl; intros H.
  - now rewrite str_eqb_refl.
  - destruct (str_eqb k k') eqn:E; [apply str_eqb_eq in E; subst; tauto|]. rewrite IH; tauto.
Qed.
Lemma set_keys_over K : forall l1 K', NoDup (map fst (l1 ++ K)) -> map fst K' = map fst K ->
  set_keys K (l1 ++ K') = l1 ++ K.
Proof.
  unfold set_keys. induction K as [|[k v] K IH]; intros l1 [|[k' w] K'] H E; simpl in *; try discriminate; auto.
  injection E as -> E.
  rewrite set_key_replace.
  - replace (l1 ++ (k, v) :: K') with ((l1 ++ [(k, v)]) ++ K') by now rewrite <- app_assoc.
    rewrite IH; auto; rewrite <- app_assoc; auto.
  - rewrite map_app in H. apply NoDup_remove_2 in H. rewrite in_app_iff in H. tauto.
Qed.

Lemma key_map_names L ks kvs : forallb (kd_ok L) ks = true -> keys_ok ks kvs = true ->
  map fst (key_map ks kvs) = map kd_name ks.
Proof.
  intros Hk; revert kvs; induction ks as [|kd ks IH]; intros [|[sv|] kvs]; simpl; try discriminate; auto.
  simpl in Hk. apply andb_prop in Hk as [Hkd Hks]. rewrite andb_true_iff. intros [Hkk Hrest].
  apply kd_ok_parts in Hkd as (_ & _ & _ & Hname). rewrite Hname.
  destruct (key_string_ok _ _ Hkk) as [s Hs]. rewrite Hs. simpl. f_equal. auto.
Qed.

Lemma pairwise_nodup {A} (f : A -> str) (l : list A) :
  pairwise (fun x y => negb (str_eqb (f x) (f y))) l = true -> NoDup (map f l).
Proof.
  induction l as [|x l IH]; simpl; [constructor|].
  rewrite andb_true_iff, forallb_forall. intros [H1 H2]. constructor; auto.
  rewrite in_map_iff. intros [y [E Hy]]. specialize (H1 y Hy).
  rewrite negb_true_iff, str_eqb_neq in H1. congruence.
Qed.

Lemma keyfree_last a : keyfree a = true -> match lastn a with Some e => ekeys e | None => [] end = [].
Proof.
  intros H. unfold lastn. destruct (nth_error a (length a - 1)) as [e|] eqn:E; auto.
  apply nth_error_In in E. unfold keyfree in H. rewrite forallb_forall in H.
  specialize (H e E). now apply nil_b_true in H.
Qed.

Definition entry_paths (n la : nat) (a : gpath) (ks : list kdesc) (g : list fval -> pvals)
           (e : list (option sval) * option (list fval)) : pvals :=
  let '(kvs, mem) := e in
  prep (set_last_keys (skipn n a) (key_map ks kvs))
       (key_leaves la ks kvs ++ match mem with Some m => g m | None => [] end).

Lemma pfp_entries_ok pf g base a ks L es :
  (length base < length a)%nat -> forallb (kd_ok L) ks = true -> length a = length L ->
  NoDup (map kd_name ks) ->
  Forall (fun e => keys_ok ks (fst e) = true /\
                   exists m, snd e = Some m /\
                             forall p, length p = length a -> pf p m = Ok (prep p (g m))) es ->
  forall acc, acc = [] \/ map fst acc = map kd_name ks ->
  pfp_entries pf base a ks acc es =
  Ok (prep base (flat_map (entry_paths (length base) (length a) a ks g) es)).
Proof.
  intros Hlt Hk Hla Hnd Hes. induction Hes as [|[kvs mem] es [Hko [m [Hm Hpf]]] _ IH]; intros acc Hacc.
  - reflexivity.
  - simpl in Hko, Hm. subst mem. simpl.
    rewrite (parse_keys_ok L) by auto. simpl.
    rewrite resolved_ok by lia. simpl.
    destruct (Nat.ltb_spec (length base) (length a)) as [_|]; [|lia].
    pose proof (key_map_names _ _ _ Hk Hko) as Hnames.
    assert (Hset : set_keys (key_map ks kvs) acc = key_map ks kvs).
    { destruct Hacc as [->|Hacc].
      - rewrite (set_keys_fresh _ []); simpl; auto. now rewrite Hnames.
      - apply (set_keys_over _ [] acc); simpl; [now rewrite Hnames | congruence]. }
    rewrite Hset.
    assert (Hne : skipn (length base) a <> []).
    { intros E. apply (f_equal (@length _)) in E. rewrite skipn_length in E. simpl in E. lia. }
    assert (Hnb : nil_b (base ++ skipn (length base) a) = false).
    { apply nil_b_false. intros E. apply app_eq_nil in E as [_ E]. contradiction. }
    rewrite Hnb. simpl.
    rewrite set_last_keys_app by auto.
    set (Lk := set_last_keys (skipn (length base) a) (key_map ks kvs)).
    assert (Hlp : length (base ++ Lk) = length a).
    { unfold Lk. rewrite app_length, set_last_keys_length, skipn_length. lia. }
    rewrite concatM_resolved by auto. simpl.
    rewrite Hpf by auto. simpl.
    rewrite (IH (key_map ks kvs)) by (right; auto). simpl.
    f_equal. rewrite !prep_app, !prep_prep. now rewrite <- !app_assoc.
Qed.

(* (A) PathsFromProto emits exactly the relative specification, below the base path *)
Theorem pfp_field_spec : forall v d base P,
  wf_field P d = true -> (length base <= length P)%nat -> supp_field (length P) d v = true ->
  pfp_field base d v = Ok (prep base (rel_paths (length base) d v)).
Proof.
  induction v as [|w|sv|vs|es|m IHm|es IHes] using fval_ind'; intros d base P Hwf Hlen Hs;
    try reflexivity.
  all: destruct d as [nm anns oneof k]; simpl in Hs;
    destruct oneof; [discriminate|]; simpl in Hs;
    unfold wf_field in Hwf; simpl in Hwf;
    apply andb3 in Hwf as (Hne & Hann & Hk);
    apply negb_true_iff in Hne;
    assert (Hlong : forall a, In a anns -> (length base <= length a)%nat)
      by (intros a Ha; rewrite forallb_forall in Hann; specialize (Hann a Ha);
          apply ann_ok_parts in Hann as (_ & _ & Hl); lia).
  - (* wrapper *)
    destruct k; try discriminate. simpl. rewrite Hne.
    destruct w, w0; try discriminate; simpl; now rewrite emit_ok.
  - (* enum *)
    destruct sv; try discriminate. destruct k as [|[]| | | |]; try discriminate.
    simpl. rewrite Hne. unfold enum_ok in Hs.
    destruct (enum_name t n) as [s|] eqn:E; [|now rewrite andb_false_r in Hs].
    simpl. now rewrite emit_ok.
  - (* leaf-list *)
    destruct k; try discriminate. simpl. rewrite Hne.
    destruct anns as [|a [|]]; try discriminate.
    apply andb3 in Hs as (Hk1 & Hk2 & Hk3). destruct vs as [|w0 vs]; [discriminate|].
    assert (Hall : exists l, mapM wval_pv (w0 :: vs) = Ok l).
    { clear Hk2. induction (w0 :: vs) as [|x l IH]; [now exists []|].
      simpl in Hk3. apply andb_prop in Hk3 as [Hx Hl]. destruct (IH Hl) as [r Hr].
      simpl. rewrite Hr. destruct x, w; try discriminate; simpl; eauto. }
    destruct Hall as [l Hl]. rewrite Hl. simpl.
    rewrite resolved_ok by (apply Hlong; now left). reflexivity.
  - (* union *)
    destruct k; try discriminate. simpl. rewrite Hne.
    destruct anns as [|a [|]]; try discriminate.
    apply andb_prop in Hs as [Hk1 Hk2]. destruct es as [|e0 es]; [discriminate|].
    assert (Hall : exists l, mapM (fun e => union_elem ms e None) (e0 :: es) = Ok l).
    { clear Hk1. induction (e0 :: es) as [|x l IH]; [now exists []|].
      simpl in Hk2. apply andb_prop in Hk2 as [Hx Hl]. destruct (IH Hl) as [r Hr].
      simpl. rewrite Hr.
      destruct x as [|[i sv] [|]]; try discriminate. unfold union_elem_ok, union_member_ok in Hx.
      apply andb_prop in Hx as [_ Hx].
      destruct (nth_error ms i) as [[]|] eqn:En, sv; try discriminate; simpl; eauto.
      rewrite En. unfold enum_ok in Hx. destruct (enum_name t n) as [s|]; [|now rewrite andb_false_r in Hx].
      apply andb_prop in Hx as [_ Hx]. apply andb_prop in Hx as [Hx _].
      apply negb_true_iff in Hx. rewrite Hx. simpl. eauto. }
    destruct Hall as [l Hl]. rewrite Hl. simpl.
    rewrite resolved_ok by (apply Hlong; now left). reflexivity.
  - (* container *)
    destruct k; try discriminate. simpl. rewrite Hne.
    destruct anns as [|a [|]]; try discriminate. simpl in Hs.
    rewrite !andb_true_iff in Hs. destruct Hs as [[[Hwfs _] Hz] _].
    unfold wf_fields in Hwfs. apply andb_prop in Hwfs as [Hwfs _].
    rewrite <- zipcat_prep.
    apply (zipMv_ok _ _ (fun d v => wf_field (names a) d && supp_field (length (names a)) d v)).
    + eapply Forall_impl; [|exact IHm]. intros v IH d Hq. apply andb_prop in Hq as [Hq1 Hq2].
      apply (IH d base (names a)); auto. rewrite names_length. specialize (Hlong a (or_introl eq_refl)). lia.
    + apply zipand_and; auto. now rewrite names_length.
  - (* keyed list *)
    destruct k; try discriminate. simpl. rewrite Hne.
    destruct anns as [|a [|]]; try discriminate. simpl in Hs.
    rewrite !andb_true_iff in Hs.
    destruct Hs as [[[[[[[[Hd Hwfs] Hes0] Hks0] Hkd] Hkn] _] _] Hents].
    apply Nat.eqb_eq in Hd.
    destruct es as [|e0 es]; [discriminate|].
    rewrite forallb_forall in Hann. pose proof (Hann a (or_introl eq_refl)) as Ha.
    apply ann_ok_parts in Ha as (Hkf & _ & _).
    rewrite keyfree_last by auto.
    unfold wf_fields in Hwfs. apply andb_prop in Hwfs as [Hwfs _].
    rewrite (pfp_entries_ok (fun p m => zipMv (pfp_field p) fs m) (zipcat (rel_paths (length a)) fs) base a ks (names a)).
    + reflexivity.
    + lia.
    + exact Hkd.
    + now rewrite names_length.
    + now apply pairwise_nodup.
    + rewrite forallb_forall in Hents. rewrite Forall_forall in IHes |- *.
      intros [kvs mem] Hin. specialize (Hents _ Hin). specialize (IHes _ Hin).
      simpl in Hents. apply andb_prop in Hents as [Hko Hmem]. split; auto.
      destruct mem as [m|]; [|discriminate]. exists m. split; auto.
      apply andb_prop in Hmem as [_ Hz]. intros p Hp. unfold PE, opt_all in IHes. simpl in IHes.
      rewrite <- Hp, <- zipcat_prep.
      apply (zipMv_ok _ _ (fun d v => wf_field (names a) d && supp_field (length (names a)) d v)).
      * eapply Forall_impl; [|exact IHes]. intros v IH d Hq. apply andb_prop in Hq as [Hq1 Hq2].
        apply (IH d p (names a)); auto. rewrite names_length. lia.
      * apply zipand_and; auto. now rewrite names_length.
    + now left.
Qed.

Corollary paths_from_proto_spec ds m :
  wf_fields [] ds = true -> supp_msg 0 ds m = true ->
  paths_from_proto ds m = Ok (rel_paths_msg 0 ds m).
Proof.
  intros Hwf Hs. unfold paths_from_proto, pfp_msg, rel_paths_msg.
  unfold wf_fields in Hwf. apply andb_prop in Hwf as [Hwf _].
  unfold supp_msg in Hs. apply andb_prop in Hs as [_ Hs].
  rewrite <- (prep_nil (zipcat _ ds m)), <- zipcat_prep.
  apply (zipMv_ok _ _ (fun d v => wf_field [] d && supp_field 0 d v)).
  - rewrite Forall_forall. intros v _ d Hq. apply andb_prop in Hq as [Hq1 Hq2].
    now apply (pfp_field_spec v d [] []).
  - now apply zipand_and.
Qed.

(* ================= (B) ProtoFromPaths ================= *)

(* ---------- data paths and key-free paths ---------- *)

Definition wfpath (p : gpath) : Prop := Forall nd p.

Lemma elems_prefix_refl p q : wfpath p -> elems_prefix p (p ++ q) = true.
Proof.
  induction 1 as [|e p He _ IH]; simpl; auto. now rewrite elems_equal_refl.
Qed.
Lemma elems_prefix_app p q r : wfpath p -> elems_prefix (p ++ q) (p ++ r) = elems_prefix q r.
Proof.
  induction 1 as [|e p He _ IH]; simpl; auto. now rewrite elems_equal_refl.
Qed.
Lemma elems_prefix_length q p : elems_prefix q p = true -> (length q <= length p)%nat.
Proof.
  revert p; induction q as [|e q IH]; intros [|x p]; simpl; try discriminate; try lia.
  rewrite andb_true_iff. intros [_ H]. apply IH in H. lia.
Qed.
Lemma prefix_match_app p q r : wfpath p -> prefix_match (p ++ r) (p ++ q) = elems_prefix q r.
Proof.
  intros H. unfold prefix_match. rewrite !app_length.
  destruct (Nat.ltb_spec (length p + length r) (length p + length q)).
  - destruct (elems_prefix q r) eqn:E; auto. apply elems_prefix_length in E. lia.
  - now apply elems_prefix_app.
Qed.

Lemma elems_equal_names a b : elems_equal a b = true -> ename a = ename b.
Proof. intros H. now apply elems_equal_iff in H. Qed.
Lemma elems_prefix_names q p : elems_prefix q p = true -> nprefix (names q) (names p) = true.
Proof.
  revert p; induction q as [|e q IH]; intros [|x p]; simpl; try discriminate; auto.
  rewrite andb_true_iff. intros [H1 H2]. apply elems_equal_names in H1. rewrite H1, str_eqb_refl. simpl. auto.
Qed.

(* comparing with a key-free element / path *)
Lemma elems_equal_keyfree e x : ekeys e = [] -> elems_equal e x = true -> x = e.
Proof.
  intros He H. apply elems_equal_iff in H as (H1 & H2 & _). rewrite He in H2.
  destruct x as [n k], e as [n' k']. simpl in *. subst. destruct k; [reflexivity | discriminate].
Qed.
Lemma keyfree_cons e p : keyfree (e :: p) = true <-> ekeys e = [] /\ keyfree p = true.
Proof. unfold keyfree. simpl. now rewrite andb_true_iff, nil_b_true. Qed.
Lemma elems_prefix_keyfree q p : keyfree q = true -> elems_prefix q p = true -> firstn (length q) p = q.
Proof.
  revert p; induction q as [|e q IH]; intros [|x p] Hk; simpl; try discriminate; auto.
  apply keyfree_cons in Hk as [He Hq]. rewrite andb_true_iff. intros [H1 H2].
  apply (elems_equal_keyfree _ _ He) in H1. subst x. f_equal. auto.
Qed.
Lemma elems_equal_keyfree_refl e : ekeys e = [] -> elems_equal e e = true.
Proof. intros H. apply elems_equal_refl. unfold nd. rewrite H. constructor. Qed.
Lemma elems_prefix_keyfree_refl q r : keyfree q = true -> elems_prefix q (q ++ r) = true.
Proof.
  induction q as [|e q IH]; simpl; auto. intros Hk. apply keyfree_cons in Hk as [He Hq].
  rewrite elems_equal_keyfree_refl; auto.
Qed.
Lemma path_eqb_keyfree q p : keyfree q = true -> (path_eqb q p = true <-> p = q).
Proof.
  intros Hk. unfold path_eqb. rewrite andb_true_iff, Nat.eqb_eq. split.
  - intros [Hl H]. apply elems_prefix_keyfree in H; auto. rewrite Hl, firstn_all in H. auto.
  - intros ->. split; auto. rewrite <- (app_nil_r q) at 2. now apply elems_prefix_keyfree_refl.
Qed.
Lemma keyfree_skipn n a : keyfree a = true -> keyfree (skipn n a) = true.
Proof.
  unfold keyfree. rewrite !forallb_forall. intros H x Hx. apply H. eapply skipn_In; eauto.
Qed.
Lemma keyfree_names_eq a b : keyfree a = true -> keyfree b = true -> names a = names b -> a = b.
Proof.
  revert b; induction a as [|x a IH]; intros [|y b] Ha Hb; simpl; try discriminate; auto.
  apply keyfree_cons in Ha as [Hx Ha]. apply keyfree_cons in Hb as [Hy Hb].
  intros E. injection E as E1 E2. f_equal; auto.
  destruct x, y; simpl in *; congruence.
Qed.
Lemma schema_keyfree p : keyfree (schema p) = true.
Proof. unfold keyfree, schema. rewrite forallb_forall. intros x Hx. apply in_map_iff in Hx as (e & <- & _). reflexivity. Qed.
Lemma schema_names p : names (schema p) = names p.
Proof. unfold names, schema. rewrite map_map. reflexivity. Qed.
Lemma schema_length p : length (schema p) = length p.
Proof. apply map_length. Qed.
Lemma schema_id p : keyfree p = true -> schema p = p.
Proof. intros H. apply keyfree_names_eq; auto using schema_keyfree, schema_names. Qed.
Lemma firstn_names n a : names (firstn n a) = firstn n (names a).
Proof. unfold names. symmetry. apply firstn_map. Qed.

(* an annotation of a message with schema prefix (names Ph) is matched and trimmed by schema Ph *)
Lemma ann_split Ph a : ann_ok (names Ph) a = true -> a = schema Ph ++ skipn (length Ph) a.
Proof.
  intros H. apply ann_ok_parts in H as (Hk & Hp & Hl). rewrite names_length in Hl.
  rewrite <- (firstn_skipn (length Ph) a) at 1. f_equal.
  apply keyfree_names_eq.
  - unfold keyfree in *. rewrite forallb_forall in *. intros x Hx. apply Hk. eapply firstn_In; eauto.
  - apply schema_keyfree.
  - rewrite schema_names, firstn_names. apply nprefix_iff in Hp as [c Hc]. rewrite Hc.
    rewrite <- (names_length Ph). rewrite firstn_app, firstn_all, Nat.sub_diag. simpl. now rewrite app_nil_r.
Qed.
Lemma ann_prefix_match Ph a : ann_ok (names Ph) a = true ->
  prefix_match a (schema Ph) = true /\ trim_prefix a (schema Ph) = skipn (length Ph) a.
Proof.
  intros H. pose proof (ann_split _ _ H) as E.
  assert (Hm : prefix_match a (schema Ph) = true).
  { rewrite E. rewrite <- (app_nil_r (schema Ph)) at 2.
    unfold prefix_match. rewrite !app_length. simpl.
    destruct (Nat.ltb_spec (length (schema Ph) + length (skipn (length Ph) a)) (length (schema Ph) + 0)); [lia|].
    rewrite app_nil_r. apply elems_prefix_keyfree_refl, schema_keyfree. }
  split; auto. unfold trim_prefix. rewrite Hm. now rewrite schema_length.
Qed.

(* ---------- findChildren with valPrefix = protoPrefix ---------- *)

Definition strip (n : nat) (pv : gpath * pval) : gpath * pval := (skipn n (fst pv), snd pv).
Definition under_b (q : gpath) (pv : gpath * pval) : bool := elems_prefix q (fst pv).
Definition fc (q : gpath) (vals : pvals) : pvals := map (strip (length q)) (filter (under_b q) vals).
Definition directs (vals : pvals) : pvals := filter (fun pv => is_direct (fst pv)) vals.

Lemma find_children_all Ph q vals : wfpath Ph ->
  find_children vals Ph (Ph ++ q) false false = Ok (fc q vals).
Proof.
  intros Hw. unfold fc. induction vals as [|[p v] vals IH]; simpl; auto.
  rewrite prefix_match_app by auto. unfold under_b at 1. simpl.
  destruct (elems_prefix q p); simpl; auto.
  rewrite IH. simpl. unfold strip at 2. simpl.
  rewrite app_length, skipn_app. rewrite skipn_all2 by lia. simpl.
  replace (length Ph + length q - length Ph)%nat with (length q) by lia. reflexivity.
Qed.
Lemma fc_nil vals : fc [] vals = vals.
Proof.
  unfold fc. induction vals as [|[p v] vals IH]; simpl; auto. unfold strip at 1. simpl. simpl in IH. now rewrite IH.
Qed.
Lemma find_children_direct Ph vals : wfpath Ph ->
  find_children vals Ph Ph true true = Ok (directs vals).
Proof.
  intros Hw. unfold directs. induction vals as [|[p v] vals IH]; simpl; auto.
  rewrite <- (app_nil_r Ph) at 2. rewrite prefix_match_app by auto. simpl.
  rewrite IH. simpl. rewrite skipn_app_exact by reflexivity. reflexivity.
Qed.

Lemma filter_perm {A} (f : A -> bool) l l' : Permutation l l' -> Permutation (filter f l) (filter f l').
Proof.
  induction 1; simpl; auto.
  - destruct (f x); auto.
  - destruct (f x), (f y); auto. apply perm_swap.
  - etransitivity; eauto.
Qed.
Lemma fc_perm q l l' : Permutation l l' -> Permutation (fc q l) (fc q l').
Proof. intros H. unfold fc. apply Permutation_map, filter_perm, H. Qed.
Lemma directs_perm l l' : Permutation l l' -> Permutation (directs l) (directs l').
Proof. apply filter_perm. Qed.
Lemma fc_app q l l' : fc q (l ++ l') = fc q l ++ fc q l'.
Proof. unfold fc. now rewrite filter_app, map_app. Qed.
Lemma directs_in l pv : In pv (directs l) <-> In pv l /\ is_direct (fst pv) = true.
Proof. unfold directs. apply filter_In. Qed.

(* ---------- which bindings belong to which field ---------- *)

Definition foreign (R : list (list str)) (l : pvals) : Prop :=
  forall pv r, In pv l -> In r R -> nprefix r (names (fst pv)) = false.
Definition under (R : list (list str)) (l : pvals) : Prop :=
  forall pv, In pv l -> exists r, In r R /\ nprefix r (names (fst pv)) = true.

Lemma foreign_app R l l' : foreign R (l ++ l') <-> foreign R l /\ foreign R l'.
Proof.
  unfold foreign. split.
  - intros H; split; intros pv r Hin; apply H; apply in_or_app; auto.
  - intros [H1 H2] pv r Hin. apply in_app_or in Hin as [Hin|Hin]; eauto.
Qed.
Lemma comparable_sym a b : comparable a b = comparable b a.
Proof. unfold comparable. apply orb_comm. Qed.
Lemma foreign_rels_spec R R' : foreign_rels R R' = true ->
  forall r r', In r R -> In r' R' -> comparable r r' = false.
Proof.
  unfold foreign_rels. rewrite forallb_forall. intros H r r' Hr Hr'.
  specialize (H r Hr). rewrite forallb_forall in H. specialize (H r' Hr'). now apply negb_true_iff.
Qed.
Lemma under_foreign R R' l :
  (forall r r', In r R -> In r' R' -> comparable r r' = false) -> under R' l -> foreign R l.
Proof.
  intros Hc Hu pv r Hin Hr. destruct (Hu pv Hin) as [r' [Hr' Hp]].
  destruct (nprefix r (names (fst pv))) eqn:E; auto.
  specialize (Hc r r' Hr Hr'). rewrite (nprefix_comparable _ _ _ E Hp) in Hc. discriminate.
Qed.

(* ---------- the pass over the direct children ---------- *)

Lemma fold_match (f : fval -> pval -> result fval) (Q : gpath * pval -> bool) l x : forall c0,
  (forall ch, In ch l -> Q ch = true -> forall c, f c (snd ch) = Ok x) ->
  fold_left (fun acc ch => bind acc (fun c => if Q ch then f c (snd ch) else Ok c)) l (Ok c0) =
  Ok (if existsb Q l then x else c0).
Proof.
  induction l as [|ch l IH]; intros c0 H; simpl; auto.
  destruct (Q ch) eqn:E.
  - rewrite (H ch (or_introl eq_refl) E). rewrite IH by (intros; eapply H; eauto; now right).
    simpl. now destruct (existsb Q l).
  - apply IH. intros; eapply H; eauto; now right.
Qed.

Lemma direct_pass_spec fx Ph d direct x :
  (forall a, In a (fann d) -> ann_ok (names Ph) a = true) ->
  (forall a ch, In a (fann d) -> In ch direct -> fst ch = skipn (length Ph) a ->
                forall c, set_from fx (fkindof d) c (snd ch) = Ok x) ->
  direct_pass fx Ph d direct =
  Ok (if existsb (fun a => existsb (fun ch => path_eqb (skipn (length Ph) a) (fst ch)) direct) (fann d)
      then x else VUnset).
Proof.
  intros Hann Hset. unfold direct_pass.
  destruct direct as [|ch0 dr].
  { simpl. replace (existsb _ (fann d)) with false; auto.
    clear. induction (fann d); simpl; auto. }
  simpl (nil_b _). cbv iota. remember (ch0 :: dr) as direct eqn:Ed. clear Ed ch0 dr.
  assert (Hgen : forall anns c0, incl anns (fann d) ->
    fold_left (fun acc ap => bind acc (fun c => direct_step fx Ph (fkindof d) direct c ap)) anns (Ok c0) =
    Ok (if existsb (fun a => existsb (fun ch => path_eqb (skipn (length Ph) a) (fst ch)) direct) anns
        then x else c0)).
  { induction anns as [|a anns IH]; intros c0 Hincl; simpl; auto.
    assert (Ha : In a (fann d)) by (apply Hincl; now left).
    unfold direct_step at 2.
    destruct (ann_prefix_match _ _ (Hann a Ha)) as [Hm Ht]. rewrite Hm, Ht. simpl.
    rewrite (fold_match (set_from fx (fkindof d)) (fun ch => path_eqb (skipn (length Ph) a) (fst ch)) direct x).
    - destruct (existsb (fun ch => path_eqb (skipn (length Ph) a) (fst ch)) direct).
      + rewrite IH by (intros y Hy; apply Hincl; now right). simpl.
        now destruct (existsb (fun a0 => existsb (fun ch => path_eqb (skipn (length Ph) a0) (fst ch)) direct) anns).
      + simpl. apply IH. intros y Hy; apply Hincl; now right.
    - intros ch Hch Hq c. apply (Hset a ch); auto.
      apply path_eqb_keyfree in Hq; auto. apply keyfree_skipn.
      specialize (Hann a Ha). now apply ann_ok_parts in Hann as (Hk & _). }
  exact (Hgen (fann d) VUnset (incl_refl _)).
Qed.

(* ---------- a field none of whose paths occurs in the map stays unset ---------- *)

Lemma is_direct_names p : is_direct p = direct_names (names p).
Proof. destruct p as [|x [|y [|z p]]]; reflexivity. Qed.

Lemma elems_prefix_schema y x : elems_prefix (schema y) (schema x) = nprefix (names y) (names x).
Proof.
  revert x; induction y as [|e y IH]; intros [|f x]; simpl; auto.
  fold (schema y) (schema x). rewrite IH. f_equal. unfold elems_equal. simpl. now rewrite !andb_true_r.
Qed.
Lemma prefix_match_schema x y : prefix_match (schema x) (schema y) = nprefix (names y) (names x).
Proof.
  unfold prefix_match. rewrite !schema_length, elems_prefix_schema.
  destruct (Nat.ltb_spec (length x) (length y)); auto.
  destruct (nprefix (names y) (names x)) eqn:E; auto.
  apply nprefix_length in E. rewrite !names_length in E. lia.
Qed.

Lemma ann_names Ph a : ann_ok (names Ph) a = true -> names a = names Ph ++ rel (length Ph) a.
Proof.
  intros H. rewrite (ann_split _ _ H) at 1. now rewrite names_app, schema_names.
Qed.
Lemma nprefix_app_l p a b : nprefix (p ++ a) (p ++ b) = nprefix a b.
Proof. induction p; simpl; auto. now rewrite str_eqb_refl. Qed.

(* an annotation is not matched by a keyed data path *)
Lemma elems_prefix_keyfree_l p a : keyfree a = true -> elems_prefix p a = true -> keyfree p = true.
Proof.
  revert a; induction p as [|e p IH]; intros [|x a] Ha; simpl; try discriminate; auto.
  apply keyfree_cons in Ha as [Hx Ha]. rewrite andb_true_iff. intros [H1 H2].
  apply keyfree_cons. split; eauto.
  apply elems_equal_iff in H1 as (_ & Hl & _). rewrite Hx in Hl. now destruct (ekeys e).
Qed.
Lemma trim_keyed Ph a : keyfree a = true -> keyfree Ph = false -> trim_prefix a Ph = a.
Proof.
  intros Ha HP. unfold trim_prefix, prefix_match.
  destruct (Nat.ltb (length a) (length Ph)); auto.
  destruct (elems_prefix Ph a) eqn:E; auto.
  apply elems_prefix_keyfree_l in E; auto. congruence.
Qed.

Definition embed_hyp (fx : fixes) (Ph : gpath) (d : fdesc) (vals : pvals) : Prop :=
  fx_trim fx = false -> keyfree Ph = false ->
  match d with
  | FD _ [a] false (KMsg _) => forall pv, In pv vals -> nprefix (names a) (names (fst pv)) = false
  | _ => True
  end.

Lemma fc_foreign q vals : keyfree q = true ->
  (forall pv, In pv vals -> nprefix (names q) (names (fst pv)) = false) -> fc q vals = [].
Proof.
  intros Hq H. unfold fc. induction vals as [|pv vals IH]; simpl; auto.
  unfold under_b at 1. destruct (elems_prefix q (fst pv)) eqn:E.
  - apply elems_prefix_names in E. rewrite H in E by now left. discriminate.
  - apply IH. intros; apply H; now right.
Qed.

(* the container's own prefix, as protoFromPathsInternal computes it *)
Lemma container_np fx Ph a : ann_ok (names Ph) a = true -> (fx_trim fx = true \/ keyfree Ph = true) ->
  trim_prefix a (if fx_trim fx then schema Ph else Ph) = skipn (length Ph) a.
Proof.
  intros Ha H. destruct (fx_trim fx) eqn:E.
  - now apply ann_prefix_match.
  - destruct H as [H|H]; [discriminate|]. rewrite <- (schema_id Ph) at 1 by auto. now apply ann_prefix_match.
Qed.

Lemma list_keys_foreign vals Ph a seen : ann_ok (names Ph) a = true ->
  (forall pv, In pv vals -> nprefix (rel (length Ph) a) (names (fst pv)) = false) ->
  list_keys vals Ph Ph a seen = Ok seen.
Proof.
  intros Ha H. induction vals as [|[p v] vals IH]; simpl; auto.
  rewrite prefix_match_schema, names_app, (ann_names _ _ Ha), nprefix_app_l.
  pose proof (H (p, v) (or_introl eq_refl)) as Hp. simpl in Hp. rewrite Hp. simpl.
  apply IH. intros; apply H; now right.
Qed.

Lemma wf_field_parts P d : wf_field P d = true -> foneof d = false ->
  fann d <> [] /\ (forall a, In a (fann d) -> ann_ok P a = true).
Proof.
  destruct d as [nm anns oneof k]. simpl. intros H ->. simpl in H.
  apply andb3 in H as (H1 & H2 & _). split.
  - now apply nil_b_false, negb_true_iff.
  - now rewrite forallb_forall in H2.
Qed.

Lemma ffp_unset fx d Ph vals ig :
  wfpath Ph -> wf_field (names Ph) d = true ->
  foreign (frels (length Ph) d) vals -> embed_hyp fx Ph d vals ->
  ffp_field fx vals Ph Ph ig (directs vals) d = Ok VUnset.
Proof.
  intros Hw Hwf Hfor Hemb.
  destruct (foneof d) eqn:Eo.
  { destruct d as [nm anns oneof k]. simpl in Eo. subst. reflexivity. }
  destruct (wf_field_parts _ _ Hwf Eo) as [Hne Hann].
  assert (Hfor' : forall a pv, In a (fann d) -> In pv vals -> nprefix (rel (length Ph) a) (names (fst pv)) = false).
  { intros a pv Ha Hpv. apply (Hfor pv); auto. unfold frels. rewrite Eo. now apply in_map. }
  assert (Hdp : direct_pass fx Ph d (directs vals) = Ok VUnset).
  { rewrite (direct_pass_spec fx Ph d (directs vals) VUnset); auto.
    - match goal with |- Ok (if ?c then _ else _) = _ => now destruct c end.
    - intros a ch Ha Hch E. exfalso. apply directs_in in Hch as [Hch _].
      assert (Hx : nprefix (rel (length Ph) a) (names (skipn (length Ph) a)) = false)
        by (rewrite <- E; apply Hfor'; auto).
      unfold rel in Hx. now rewrite nprefix_refl in Hx. }
  destruct d as [nm anns oneof k]. simpl in Eo, Hne, Hann, Hfor'. subst oneof.
  destruct k; simpl; apply nil_b_false in Hne; rewrite Hne; simpl in Hdp; rewrite Hdp; simpl; auto.
  - (* container *)
    unfold wf_field in Hwf. simpl in Hwf. apply andb3 in Hwf as (_ & _ & Hk).
    destruct anns as [|a [|]]; try discriminate.
    pose proof (Hann a (or_introl eq_refl)) as Ha.
    destruct (fx_trim fx) eqn:Et; [|destruct (keyfree Ph) eqn:Ek].
    + rewrite (proj2 (ann_prefix_match _ _ Ha)). rewrite find_children_all by auto.
      rewrite fc_foreign; [reflexivity | |].
      * apply keyfree_skipn. now apply ann_ok_parts in Ha.
      * intros pv Hpv. apply (Hfor' a); simpl; auto.
    + rewrite <- (schema_id Ph) at 3 by auto. rewrite (proj2 (ann_prefix_match _ _ Ha)).
      rewrite find_children_all by auto. rewrite fc_foreign; [reflexivity | |].
      * apply keyfree_skipn. now apply ann_ok_parts in Ha.
      * intros pv Hpv. apply (Hfor' a); simpl; auto.
    + rewrite trim_keyed; auto; [|now apply ann_ok_parts in Ha].
      rewrite find_children_all by auto. rewrite fc_foreign; [reflexivity | |].
      * now apply ann_ok_parts in Ha.
      * apply Hemb; auto.
  - (* keyed list *)
    unfold wf_field in Hwf. simpl in Hwf. apply andb3 in Hwf as (_ & _ & Hk).
    destruct anns as [|a [|]]; try discriminate.
    rewrite (list_keys_foreign vals Ph a []); [reflexivity | |].
    + apply Hann. now left.
    + intros pv Hpv. apply (Hfor' a); simpl; auto.
Qed.

(* ---------- a populated leaf field ---------- *)

Definition leaf_kind (k : fkind) : bool := match k with KMsg _ | KList _ _ => false | _ => true end.

Lemma wf_leaf_direct P d : wf_field P d = true -> foneof d = false -> leaf_kind (fkindof d) = true ->
  forall a, In a (fann d) -> direct_names (rel (length P) a) = true.
Proof.
  destruct d as [nm anns oneof k]. simpl. intros H -> Hk a Ha. simpl in H.
  apply andb3 in H as (_ & _ & H).
  destruct k; try discriminate; try (rewrite forallb_forall in H; now apply H);
    destruct anns as [|a0 [|]]; try discriminate; destruct Ha as [<-|[]]; auto.
Qed.

Lemma ffp_leaf fx d Ph vals others ig pv x :
  wfpath Ph -> wf_field (names Ph) d = true -> foneof d = false -> leaf_kind (fkindof d) = true ->
  Permutation vals (map (fun a => (skipn (length Ph) a, pv)) (fann d) ++ others) ->
  foreign (frels (length Ph) d) others ->
  (forall c, set_from fx (fkindof d) c pv = Ok x) ->
  ffp_field fx vals Ph Ph ig (directs vals) d = Ok x.
Proof.
  intros Hw Hwf Eo Hk Hperm Hfor Hset.
  destruct (wf_field_parts _ _ Hwf Eo) as [Hne Hann].
  pose proof (wf_leaf_direct _ _ Hwf Eo Hk) as Hdir. rewrite names_length in Hdir.
  assert (Hdp : direct_pass fx Ph d (directs vals) = Ok x).
  { rewrite (direct_pass_spec fx Ph d (directs vals) x); auto.
    - match goal with |- Ok (if ?c then _ else _) = _ => replace c with true; auto end.
      symmetry. destruct (fann d) as [|a0 anns] eqn:Ea; [contradiction|].
      apply existsb_exists. exists a0. split; [now left|].
      apply existsb_exists. exists (skipn (length Ph) a0, pv). split.
      + apply directs_in. split.
        * eapply Permutation_in; [symmetry; exact Hperm|]. apply in_or_app. left. simpl. now left.
        * simpl. rewrite is_direct_names. apply Hdir. now left.
      + simpl. apply path_eqb_keyfree; auto. apply keyfree_skipn.
        specialize (Hann a0 (or_introl eq_refl)). now apply ann_ok_parts in Hann.
    - intros a ch Ha Hch E c. apply directs_in in Hch as [Hch _].
      apply (Permutation_in _ Hperm) in Hch. apply in_app_or in Hch as [Hch|Hch].
      + apply in_map_iff in Hch as (a' & <- & _). simpl. apply Hset.
      + exfalso.
        assert (Hx : nprefix (rel (length Ph) a) (names (skipn (length Ph) a)) = false).
        { rewrite <- E. apply (Hfor ch); auto. unfold frels. rewrite Eo. now apply in_map. }
        unfold rel in Hx. now rewrite nprefix_refl in Hx. }
  destruct d as [nm anns oneof k]. simpl in *. subst oneof.
  apply nil_b_false in Hne. rewrite Hne. rewrite Hdp. simpl.
  destruct k; try discriminate; reflexivity.
Qed.

(* the values both directions exchange *)
Lemma mapM_slice_elem w vs l : leaflist_wkind w = true ->
  forallb (fun x => wkind_eqb (wval_kind x) w) vs = true ->
  mapM wval_pv vs = Ok l -> mapM (slice_elem w) l = Ok vs.
Proof.
  intros Hw. revert l; induction vs as [|v vs IH]; intros l Hk Hm; simpl in *.
  - injection Hm as <-. reflexivity.
  - apply andb_prop in Hk as [Hv Hk].
    apply bind_ok in Hm as (pv & Hpv & Hm). apply bind_ok in Hm as (l' & Hl' & Hm). injection Hm as <-.
    simpl. rewrite (IH _ Hk Hl').
    destruct v, w; try discriminate; simpl in Hpv; injection Hpv as <-; reflexivity.
Qed.

Definition sv_pv_compat (sv : sval) (pv : pval) : Prop :=
  match sv, pv with
  | SVString _, PVString _ | SVEnum _, PVString _ | SVUint64 _, PVUint64 _ | SVBool _, PVBool _ => True
  | _, _ => False
  end.
Lemma union_set_skip pre : forall ms j pv sv,
  forallb (fun k => negb (same_class k sv)) pre = true -> sv_pv_compat sv pv ->
  union_set (pre ++ ms) j pv = union_set ms (j + length pre) pv.
Proof.
  induction pre as [|k pre IH]; intros ms j pv sv Hp Hm; simpl.
  - now rewrite Nat.add_0_r.
  - simpl in Hp. apply andb_prop in Hp as [Hk Hp]. apply negb_true_iff in Hk.
    replace (j + S (length pre))%nat with (S j + length pre)%nat by lia.
    destruct sv, pv; try contradiction; destruct k; simpl in Hk; try discriminate;
      apply (IH ms (S j) _ _ Hp Hm).
Qed.

Lemma enum_ok_value t n : enum_ok t n = true ->
  exists s, enum_name t n = Some s /\ nil_b s = false /\ enum_number t s = Some n /\ (n =? 0) = false.
Proof.
  unfold enum_ok. rewrite andb_true_iff, negb_true_iff. intros [H0 H].
  destruct (enum_name t n) as [s|]; [|discriminate]. apply andb_prop in H as [Hs Hn].
  apply negb_true_iff in Hs. destruct (enum_number t s) as [n'|] eqn:En; [|discriminate].
  apply N.eqb_eq in Hn. subst. exists s. auto.
Qed.

Lemma union_roundtrip ms e : union_elem_ok ms e = true -> union_elem_unamb ms e = true ->
  exists pv, union_elem ms e None = Ok pv /\ union_set ms 0 pv = Ok e.
Proof.
  destruct e as [|[i sv] [|]]; try discriminate. simpl. intros Hok Hun.
  unfold union_member_ok in Hok. apply andb_prop in Hok as [Hz Hk]. apply negb_true_iff in Hz.
  destruct (nth_error ms i) as [k|] eqn:En; [|discriminate].
  destruct (nth_error_split _ _ En) as (pre & post & Ems & Hlen). subst i.
  rewrite Ems in Hun. rewrite firstn_app, firstn_all, Nat.sub_diag in Hun. simpl in Hun.
  rewrite app_nil_r in Hun.
  destruct k, sv; try discriminate.
  - exists (PVString s). split; auto. rewrite Ems. rewrite (union_set_skip pre _ 0 _ (SVString s)); [|auto|exact I].
    simpl. unfold mk_elem. simpl. simpl in Hz. now rewrite Hz.
  - exists (PVUint64 n). split; auto. rewrite Ems. rewrite (union_set_skip pre _ 0 _ (SVUint64 n)); [|auto|exact I].
    simpl. unfold mk_elem. simpl. simpl in Hz. now rewrite Hz.
  - exists (PVBool b). split; auto. rewrite Ems. rewrite (union_set_skip pre _ 0 _ (SVBool b)); [|auto|exact I].
    simpl. unfold mk_elem. simpl. simpl in Hz. now rewrite Hz.
  - destruct (enum_ok_value _ _ Hk) as (s & Hs1 & Hs2 & Hs3 & Hs4).
    exists (PVString s). split.
    + rewrite Hs1, Hs2. reflexivity.
    + rewrite Ems. rewrite (union_set_skip pre _ 0 _ (SVEnum n)); [|auto|exact I].
      simpl. rewrite Hs3. simpl. unfold mk_elem. simpl. now rewrite Hs4.
Qed.

Lemma mapM_union ms es l :
  forallb (union_elem_ok ms) es = true -> forallb (union_elem_unamb ms) es = true ->
  mapM (fun e => union_elem ms e None) es = Ok l -> mapM (union_set ms 0) l = Ok es.
Proof.
  revert l; induction es as [|e es IH]; intros l Hok Hun Hm; simpl in *.
  - injection Hm as <-. reflexivity.
  - apply andb_prop in Hok as [Hok1 Hok]. apply andb_prop in Hun as [Hun1 Hun].
    destruct (union_roundtrip _ _ Hok1 Hun1) as (pv & Hpv & Hset). rewrite Hpv in Hm. simpl in Hm.
    apply bind_ok in Hm as (l' & Hl' & Hm). injection Hm as <-. simpl.
    rewrite Hset. simpl. now rewrite (IH _ Hok Hun Hl').
Qed.

(* ---------- shape of the emitted paths ---------- *)

Lemma zipcat_in {C} (f : fdesc -> fval -> list C) (q : fdesc -> fval -> bool) ds ms x :
  In x (zipcat f ds ms) -> zipand q ds ms = true ->
  exists d v, In d ds /\ In v ms /\ q d v = true /\ In x (f d v).
Proof.
  revert ds; induction ms as [|v ms IH]; intros [|d ds]; simpl; try tauto.
  rewrite in_app_iff, andb_true_iff. intros [H|H] [Hq Hz].
  - exists d, v. auto.
  - destruct (IH _ H Hz) as (d' & v' & A1 & A2 & A3 & A4). exists d', v'. auto.
Qed.

Lemma supp_set_not_oneof n d v : supp_field n d v = true -> v <> VUnset -> foneof d = false.
Proof.
  destruct v; simpl; try congruence; intros H _; apply andb_prop in H as [H _]; now apply negb_true_iff.
Qed.

Lemma rel_app {A} n (x y : list A) : (n <= length x)%nat -> skipn n (x ++ y) = skipn n x ++ y.
Proof.
  intros H. rewrite skipn_app. replace (n - length x)%nat with 0%nat by lia. reflexivity.
Qed.

Lemma ann_child a a' n : ann_ok (names a) a' = true -> keyfree a = true -> (n <= length a)%nat ->
  a' = a ++ skipn (length a) a' /\ skipn (length a) a' <> [] /\ skipn n a' = skipn n a ++ skipn (length a) a'.
Proof.
  intros H Ha Hn. pose proof (ann_split a a' H) as E. rewrite (schema_id a Ha) in E.
  apply ann_ok_parts in H as (_ & _ & Hl). rewrite names_length in Hl.
  repeat split; auto.
  - intros E0. apply (f_equal (@length _)) in E0. rewrite skipn_length in E0. simpl in E0. lia.
  - rewrite E at 1. now apply rel_app.
Qed.

Lemma rel_paths_shape : forall v d n P,
  wf_field P d = true -> supp_field (length P) d v = true -> (n <= length P)%nat ->
  forall pv, In pv (rel_paths n d v) ->
  exists a r, In a (fann d) /\ names (fst pv) = rel n a ++ r /\
              (leaf_kind (fkindof d) = true -> fst pv = skipn n a) /\
              (leaf_kind (fkindof d) = false -> r <> []).
Proof.
  induction v as [|w|sv|vs|es|m IHm|es IHes] using fval_ind'; intros d n P Hwf Hs Hn pv Hin;
    try (simpl in Hin; contradiction).
  all: assert (Eo : foneof d = false) by (eapply supp_set_not_oneof; eauto; discriminate);
    destruct (wf_field_parts _ _ Hwf Eo) as [Hne Hann];
    destruct d as [nm anns oneof k]; simpl in Eo, Hne, Hann; subst oneof; simpl in Hs.
  - destruct k; try discriminate. simpl in Hin. destruct (wval_pv w); try contradiction.
    apply in_map_iff in Hin as (a0 & <- & Ha0). exists a0, []. simpl. rewrite app_nil_r. repeat split; auto. discriminate.
  - destruct sv; try discriminate. destruct k as [|[]| | | |]; try discriminate.
    simpl in Hin. destruct (enum_name t n0); try contradiction.
    apply in_map_iff in Hin as (a0 & <- & Ha0). exists a0, []. simpl. rewrite app_nil_r. repeat split; auto. discriminate.
  - destruct k; try discriminate. simpl in Hin. destruct anns as [|a [|]]; try contradiction.
    destruct (mapM wval_pv vs); try contradiction. destruct Hin as [<-|[]].
    exists a, []. simpl. rewrite app_nil_r. repeat split; auto. discriminate.
  - destruct k; try discriminate. simpl in Hin. destruct anns as [|a [|]]; try contradiction.
    destruct (mapM _ es); try contradiction. destruct Hin as [<-|[]].
    exists a, []. simpl. rewrite app_nil_r. repeat split; auto. discriminate.
  - (* container *)
    destruct k; try discriminate. destruct anns as [|a [|]]; try discriminate. simpl in Hs, Hin.
    rewrite !andb_true_iff in Hs. destruct Hs as [[[Hwfs _] Hz] _].
    unfold wf_fields in Hwfs. apply andb_prop in Hwfs as [Hwfs _].
    pose proof (Hann a (or_introl eq_refl)) as Ha. pose proof Ha as Ha'. apply ann_ok_parts in Ha' as (Hkf & _ & Hl).
    destruct (zipcat_in _ _ _ _ _ Hin Hz) as (d' & v' & Hd' & Hv' & Hq & Hpv).
    rewrite Forall_forall in IHm. rewrite forallb_forall in Hwfs.
    rewrite <- (names_length a) in Hq.
    destruct (IHm v' Hv' d' n (names a) (Hwfs d' Hd') Hq) with (pv := pv) as (a' & r & Ha'in & Hnm & _ & _); auto.
    { rewrite names_length. lia. }
    assert (Eo' : foneof d' = false).
    { eapply supp_set_not_oneof; eauto. intros ->. simpl in Hpv. contradiction. }
    destruct (wf_field_parts _ _ (Hwfs d' Hd') Eo') as [_ Hann'].
    destruct (ann_child a a' n (Hann' a' Ha'in) Hkf) as (_ & Hne' & Hsk); [lia|].
    exists a, (names (skipn (length a) a') ++ r).
    split; [now left|]. split; [|split; [simpl; discriminate|]].
    + rewrite Hnm. unfold rel. rewrite Hsk, names_app. now rewrite app_assoc.
    + intros _ E. apply app_eq_nil in E as [E _]. apply map_eq_nil in E. contradiction.
  - (* keyed list *)
    destruct k; try discriminate. destruct anns as [|a [|]]; try discriminate. simpl in Hs, Hin.
    rewrite !andb_true_iff in Hs.
    destruct Hs as [[[[[[[[Hd Hwfs] _] _] Hkd] _] _] _] Hents].
    unfold wf_fields in Hwfs. apply andb_prop in Hwfs as [Hwfs _].
    apply in_flat_map in Hin as ([kvs mem] & He & Hin).
    unfold prep in Hin. apply in_map_iff in Hin as ([y w] & <- & Hy). simpl.
    exists a, (names y). rewrite names_app, set_last_keys_names.
    split; [now left|]. split; [reflexivity|]. split; [simpl; discriminate|].
    intros _ E. apply map_eq_nil in E. subst y.
    apply in_app_or in Hy as [Hy|Hy].
    + rewrite <- (names_length a) in Hy. destruct (key_leaves_long _ _ _ _ Hkd Hy) as (ka & E & Hl).
      simpl in E. symmetry in E. apply (f_equal (@length _)) in E. rewrite skipn_length in E. simpl in E. lia.
    + rewrite forallb_forall in Hents. specialize (Hents _ He). simpl in Hents.
      apply andb_prop in Hents as [_ Hmem]. destruct mem as [m|]; [|contradiction].
      apply andb_prop in Hmem as [_ Hz].
      destruct (zipcat_in _ _ _ _ _ Hy Hz) as (d' & v' & Hd' & Hv' & Hq & Hpv).
      rewrite Forall_forall in IHes. specialize (IHes _ He). unfold PE, opt_all in IHes. simpl in IHes.
      rewrite Forall_forall in IHes. rewrite forallb_forall in Hwfs.
      rewrite <- (names_length a) in Hq, Hpv.
      destruct (IHes v' Hv' d' _ (names a) (Hwfs d' Hd') Hq (le_n _)) with (pv := ([] : gpath, w))
        as (a' & r & Ha'in & Hnm & _ & _); auto.
      assert (Eo' : foneof d' = false).
      { eapply supp_set_not_oneof; eauto. intros ->. simpl in Hpv. contradiction. }
      destruct (wf_field_parts _ _ (Hwfs d' Hd') Eo') as [_ Hann'].
      pose proof (Hann' a' Ha'in) as Hok. apply ann_ok_parts in Hok as (_ & _ & Hl).
      simpl in Hnm. symmetry in Hnm. apply app_eq_nil in Hnm as [Hnm _].
      unfold rel in Hnm. apply map_eq_nil in Hnm. apply (f_equal (@length _)) in Hnm.
      rewrite skipn_length in Hnm. simpl in Hnm. lia.
Qed.

Lemma rel_paths_under v d n P : wf_field P d = true -> supp_field (length P) d v = true ->
  (n <= length P)%nat -> under (frels n d) (rel_paths n d v).
Proof.
  intros Hwf Hs Hn pv Hin.
  destruct (rel_paths_shape v d n P Hwf Hs Hn pv Hin) as (a & r & Ha & Hnm & _).
  exists (rel n a). split.
  - unfold frels. rewrite (supp_set_not_oneof _ _ _ Hs); [now apply in_map|].
    intros ->. simpl in Hin. contradiction.
  - rewrite Hnm. apply nprefix_app.
Qed.

Lemma zipcat_ext {C} (f g : fdesc -> fval -> list C) (q : fdesc -> fval -> bool) ds ms :
  (forall d v, In d ds -> In v ms -> q d v = true -> f d v = g d v) ->
  zipand q ds ms = true -> zipcat f ds ms = zipcat g ds ms.
Proof.
  revert ds; induction ms as [|v ms IH]; intros [|d ds] H; simpl; auto.
  rewrite andb_true_iff. intros [Hq Hz]. rewrite (H d v); simpl; auto. f_equal.
  apply IH; auto. intros; apply H; simpl; auto.
Qed.

Lemma prep_flat_map {A} p (f : A -> pvals) l : prep p (flat_map f l) = flat_map (fun x => prep p (f x)) l.
Proof. induction l as [|x l IH]; simpl; auto. now rewrite prep_app, IH. Qed.

(* the same paths relative to a longer prefix *)
Lemma rel_paths_shift : forall v d n a0,
  keyfree a0 = true -> wf_field (names a0) d = true -> supp_field (length a0) d v = true ->
  (n <= length a0)%nat ->
  rel_paths n d v = prep (skipn n a0) (rel_paths (length a0) d v).
Proof.
  induction v as [|w|sv|vs|es|m IHm|es IHes] using fval_ind'; intros d n a0 Hk0 Hwf Hs Hn;
    try reflexivity.
  all: assert (Eo : foneof d = false) by (eapply supp_set_not_oneof; eauto; discriminate);
    rewrite <- (names_length a0) in Hs;
    destruct (wf_field_parts _ _ Hwf Eo) as [Hne Hann];
    assert (Hsk : forall a, In a (fann d) -> skipn n a = skipn n a0 ++ skipn (length a0) a /\ skipn (length a0) a <> [])
      by (intros a Ha; destruct (ann_child a0 a n (Hann a Ha) Hk0 Hn) as (_ & A & B); auto);
    destruct d as [nm anns oneof k]; simpl in Eo, Hne, Hann, Hsk; subst oneof; simpl in Hs.
  - simpl. destruct (wval_pv w); auto. unfold prep. rewrite map_map. apply map_ext_in.
    intros a1 Ha1. simpl. now rewrite (proj1 (Hsk a1 Ha1)).
  - simpl. destruct k; auto. destruct (sval_pv s sv); auto. unfold prep. rewrite map_map. apply map_ext_in.
    intros a1 Ha1. simpl. now rewrite (proj1 (Hsk a1 Ha1)).
  - simpl. destruct anns as [|a [|]]; auto. destruct (mapM wval_pv vs); auto. simpl.
    now rewrite (proj1 (Hsk a (or_introl eq_refl))).
  - simpl. destruct anns as [|a [|]]; auto. destruct k; auto. destruct (mapM _ es); auto. simpl.
    now rewrite (proj1 (Hsk a (or_introl eq_refl))).
  - (* container *)
    destruct k; try discriminate. destruct anns as [|a [|]]; try discriminate. simpl in Hs |- *.
    rewrite !andb_true_iff in Hs. destruct Hs as [[[Hwfs _] Hz] _].
    unfold wf_fields in Hwfs. apply andb_prop in Hwfs as [Hwfs _]. rewrite forallb_forall in Hwfs.
    pose proof (Hann a (or_introl eq_refl)) as Ha. pose proof Ha as Ha'. apply ann_ok_parts in Ha' as (Hkf & _ & Hl).
    rewrite names_length in Hl. rewrite Forall_forall in IHm.
    rewrite <- zipcat_prep.
    apply (zipcat_ext _ _ (supp_field (length a))); auto.
    intros d' v' Hd' Hv' Hq.
    rewrite (IHm v' Hv' d' n a); auto; [|lia].
    rewrite (IHm v' Hv' d' (length a0) a); auto; [|lia].
    rewrite prep_prep. now rewrite (proj1 (Hsk a (or_introl eq_refl))).
  - (* keyed list *)
    destruct k; try discriminate. destruct anns as [|a [|]]; try discriminate. simpl.
    destruct (Hsk a (or_introl eq_refl)) as [E Hne'].
    rewrite prep_flat_map. apply flat_map_ext. intros [kvs mem].
    rewrite prep_prep. now rewrite E, set_last_keys_app.
Qed.

(* ---------- the message level, given the field level ---------- *)

Definition field_ok (fx : fixes) (v : fval) : Prop :=
  forall d Ph vals others ig,
    wfpath Ph -> wf_field (names Ph) d = true -> supp_field (length Ph) d v = true ->
    guard_field fx (negb (keyfree Ph)) d v = true ->
    Permutation vals (rel_paths (length Ph) d v ++ others) ->
    foreign (frels (length Ph) d) others ->
    embed_hyp fx Ph d vals ->
    exists v', ffp_field fx vals Ph Ph ig (directs vals) d = Ok v' /\ feqv v' v.

Lemma pairwise_spec {A} (f : A -> A -> bool) l1 x l2 y :
  pairwise f (l1 ++ x :: l2) = true -> In y l2 -> f x y = true.
Proof.
  induction l1 as [|z l1 IH]; simpl; rewrite andb_true_iff; intros [H1 H2] Hy.
  - rewrite forallb_forall in H1. auto.
  - auto.
Qed.

Lemma zipcat_under n P ds ms :
  forallb (wf_field P) ds = true -> zipand (supp_field (length P)) ds ms = true -> (n <= length P)%nat ->
  forall pv, In pv (zipcat (rel_paths n) ds ms) ->
  exists d, In d ds /\ exists r, In r (frels n d) /\ nprefix r (names (fst pv)) = true.
Proof.
  intros Hwf Hz Hn pv Hin.
  destruct (zipcat_in _ _ _ _ _ Hin Hz) as (d & v & Hd & Hv & Hq & Hpv).
  rewrite forallb_forall in Hwf.
  destruct (rel_paths_under v d n P (Hwf d Hd) Hq Hn pv Hpv) as (r & Hr & Hp). eauto.
Qed.

Lemma fields_loop fx Ph vals ig extras n : n = length Ph -> wfpath Ph ->
  forall ds2 m2 PRE,
  Forall (field_ok fx) m2 -> length m2 = length ds2 ->
  forallb (wf_field (names Ph)) ds2 = true -> sep_fields n ds2 = true ->
  zipand (supp_field n) ds2 m2 = true -> zipand (guard_field fx (negb (keyfree Ph))) ds2 m2 = true ->
  Permutation vals (PRE ++ zipcat (rel_paths n) ds2 m2 ++ extras) ->
  (forall d, In d ds2 -> foreign (frels n d) PRE) ->
  (forall d, In d ds2 -> foreign (frels n d) extras) ->
  (forall d, In d ds2 -> embed_hyp fx Ph d vals) ->
  exists m2', mapMfields (ffp_field fx vals Ph Ph ig (directs vals)) ds2 = Ok m2' /\ Forall2 feqv m2' m2.
Proof.
  intros -> Hw ds2. induction ds2 as [|d ds2 IH]; intros [|v m2] PRE Hok Hlen Hwf Hsep Hs Hg Hperm Hpre Hext Hemb;
    try discriminate.
  - exists []. split; auto.
  - simpl in *. inversion Hok as [|? ? Hv Hok']; subst.
    apply andb_prop in Hwf as [Hwfd Hwf]. apply andb_prop in Hsep as [Hsepd Hsep].
    apply andb_prop in Hs as [Hsd Hs]. apply andb_prop in Hg as [Hgd Hg].
    assert (Hrest : forall d', In d' ds2 -> forall r r', In r (frels (length Ph) d) -> In r' (frels (length Ph) d') ->
                                             comparable r r' = false).
    { intros d' Hd'. rewrite forallb_forall in Hsepd. apply foreign_rels_spec. auto. }
    assert (Hfor_rest : foreign (frels (length Ph) d) (zipcat (rel_paths (length Ph)) ds2 m2)).
    { intros pv r Hpv Hr.
      destruct (zipcat_under (length Ph) (names Ph) ds2 m2) with (pv := pv) as (d' & Hd' & r' & Hr' & Hp);
        auto; try (rewrite names_length; auto).
      destruct (nprefix r (names (fst pv))) eqn:E; auto.
      rewrite <- (Hrest d' Hd' r r' Hr Hr'). symmetry. eapply nprefix_comparable; eauto. }
    assert (Hp1 : Permutation vals (rel_paths (length Ph) d v ++
                                    (PRE ++ zipcat (rel_paths (length Ph)) ds2 m2 ++ extras))).
    { etransitivity; [exact Hperm|]. rewrite !app_assoc. do 2 apply Permutation_app_tail.
      apply Permutation_app_comm. }
    assert (Hf1 : foreign (frels (length Ph) d) (PRE ++ zipcat (rel_paths (length Ph)) ds2 m2 ++ extras)).
    { apply foreign_app. split; [apply Hpre; now left|]. apply foreign_app.
      split; [exact Hfor_rest | apply Hext; now left]. }
    destruct (Hv d Ph vals _ ig Hw Hwfd Hsd Hgd Hp1 Hf1 (Hemb d (or_introl eq_refl))) as (v' & Hv' & Heq).
    assert (Hp2 : Permutation vals ((PRE ++ rel_paths (length Ph) d v) ++ zipcat (rel_paths (length Ph)) ds2 m2 ++ extras)).
    { rewrite <- !app_assoc. rewrite <- !app_assoc in Hperm. exact Hperm. }
    assert (Hf2 : forall d', In d' ds2 -> foreign (frels (length Ph) d') (PRE ++ rel_paths (length Ph) d v)).
    { intros d' Hd'. apply foreign_app. split; [apply Hpre; now right|].
      apply (under_foreign _ (frels (length Ph) d)).
      - intros r r' Hr Hr'. rewrite comparable_sym. now apply (Hrest d' Hd').
      - apply (rel_paths_under v d (length Ph) (names Ph)); auto; rewrite names_length; auto. }
    destruct (IH m2 (PRE ++ rel_paths (length Ph) d v) Hok' (eq_add_S _ _ Hlen) Hwf Hsep Hs Hg Hp2 Hf2)
      as (m2' & Hm2' & Heq'); auto.
    exists (v' :: m2'). rewrite Hv'. simpl. rewrite Hm2'. simpl. split; auto.
Qed.

Lemma supp_leaf_maps n d v : supp_field n d v = true -> v <> VUnset ->
  leaf_kind (fkindof d) = true -> maps_kind (fkindof d) = true.
Proof.
  destruct d as [nm anns oneof k]. destruct v; try congruence; simpl; intros H _ Hk;
    apply andb_prop in H as [_ H]; destruct k; try discriminate; auto.
  all: try (apply andb_prop in H as [H _]; match goal with w : wkind |- _ => now destruct w end).
  all: repeat match goal with x : sval |- _ => destruct x; try discriminate end;
       match goal with s : skind |- _ => now destruct s end.
Qed.

Lemma rel_length n a : length (rel n a) = (length a - n)%nat.
Proof. unfold rel. now rewrite names_length, skipn_length. Qed.

Lemma nonleaf_not_direct P d v a r :
  wf_field P d = true -> supp_field (length P) d v = true -> v <> VUnset ->
  leaf_kind (fkindof d) = false -> In a (fann d) -> r <> [] ->
  direct_names (rel (length P) a ++ r) = false.
Proof.
  intros Hwf Hs Hv Hk Ha Hr.
  pose proof (supp_set_not_oneof _ _ _ Hs Hv) as Eo.
  destruct (wf_field_parts _ _ Hwf Eo) as [_ Hann]. specialize (Hann a Ha).
  apply ann_ok_parts in Hann as (_ & _ & Hl).
  pose proof (rel_length (length P) a) as Hrl.
  destruct d as [nm anns oneof k]. simpl in *. subst oneof.
  destruct k; try discriminate.
  - unfold wf_field in Hwf. simpl in Hwf. apply andb3 in Hwf as (_ & _ & Hc).
    destruct anns as [|a' [|]]; try discriminate. destruct Ha as [->|[]].
    apply negb_true_iff in Hc.
    destruct (rel (length P) a) as [|x [|y l]]; simpl in *; try lia.
    + destruct r as [|z [|]]; try congruence; simpl; auto.
    + now destruct l, r.
  - destruct v as [|w|sv|vs|es|m|es]; try congruence; simpl in Hs; try discriminate;
      try (destruct sv; discriminate).
    destruct anns as [|a' [|]]; try discriminate. destruct Ha as [->|[]].
    rewrite !andb_true_iff in Hs. destruct Hs as [[[[[[[[Hd _] _] _] _] _] _] _] _].
    apply Nat.eqb_eq in Hd.
    destruct (rel (length P) a) as [|x [|y [|z l]]]; simpl in *; try lia.
    now destruct r.
Qed.

Lemma direct_mapped Ph ds m ch :
  wfpath Ph -> forallb (wf_field (names Ph)) ds = true -> zipand (supp_field (length Ph)) ds m = true ->
  In ch (zipcat (rel_paths (length Ph)) ds m) -> is_direct (fst ch) = true ->
  existsb (fun d => maps_path Ph d (fst ch)) ds = true.
Proof.
  intros Hw Hwf Hz Hin Hdir.
  destruct (zipcat_in _ _ _ _ _ Hin Hz) as (d & v & Hd & Hv & Hq & Hpv).
  rewrite forallb_forall in Hwf. pose proof (Hwf d Hd) as Hwfd.
  assert (Hne : v <> VUnset) by (intros ->; simpl in Hpv; contradiction).
  rewrite <- (names_length Ph) in Hq, Hpv.
  destruct (rel_paths_shape v d _ (names Ph) Hwfd Hq (le_n _) ch Hpv) as (a & r & Ha & Hnm & Hleaf & Hnl).
  apply existsb_exists. exists d. split; auto.
  destruct (leaf_kind (fkindof d)) eqn:Ek.
  - unfold maps_path. rewrite (supp_set_not_oneof _ _ _ Hq Hne). rewrite (supp_leaf_maps _ _ _ Hq Hne Ek). simpl.
    apply existsb_exists. exists a. split; auto.
    destruct (wf_field_parts _ _ Hwfd (supp_set_not_oneof _ _ _ Hq Hne)) as [_ Hann].
    rewrite (proj2 (ann_prefix_match _ _ (Hann a Ha))). rewrite (Hleaf eq_refl).
    rewrite names_length. apply path_eqb_keyfree; auto. apply keyfree_skipn.
    specialize (Hann a Ha). now apply ann_ok_parts in Hann.
  - exfalso. rewrite is_direct_names, Hnm in Hdir.
    rewrite (nonleaf_not_direct (names Ph) d v a r) in Hdir; auto. discriminate.
Qed.

Definition embed_ctx (fx : fixes) (Ph : gpath) (ds : list fdesc) (extras : pvals) : Prop :=
  fx_trim fx = false -> keyfree Ph = false ->
  exists xr, embed_free (length Ph) xr ds = true /\ under xr extras.

Lemma msg_ok fx ds m : Forall (field_ok fx) m ->
  forall Ph vals extras ig,
    wfpath Ph -> wf_fields (names Ph) ds = true -> supp_msg (length Ph) ds m = true ->
    guard_msg fx (negb (keyfree Ph)) ds m = true ->
    Permutation vals (rel_paths_msg (length Ph) ds m ++ extras) ->
    foreign (flat_map (frels (length Ph)) ds) extras ->
    (ig = true \/ extras = []) -> embed_ctx fx Ph ds extras ->
    exists m', ffp_msg fx ds vals Ph Ph ig = Ok m' /\ msg_equiv m' m.
Proof.
  intros Hok Ph vals extras ig Hw Hwf Hs Hg Hperm Hext Hig Hemb.
  unfold wf_fields in Hwf. apply andb_prop in Hwf as [Hwf Hsep]. rewrite names_length in Hsep.
  unfold supp_msg in Hs. apply andb_prop in Hs as [Hlen Hs]. apply Nat.eqb_eq in Hlen.
  unfold ffp_msg. rewrite find_children_direct by auto. simpl.
  destruct (fields_loop fx Ph vals ig extras (length Ph) eq_refl Hw ds m [] Hok Hlen Hwf Hsep Hs Hg)
    as (m' & Hm' & Heq).
  - exact Hperm.
  - intros d _ pv r [].
  - intros d Hd pv r Hpv Hr. apply (Hext pv r Hpv). apply in_flat_map. eauto.
  - (* embed_hyp for every field *)
    intros d Hd Et Ek. destruct (Hemb Et Ek) as (xr & Hfree & Hund).
    destruct d as [nm [|a [|]] [|] []]; try exact I.
    unfold embed_free in Hfree. rewrite forallb_forall in Hfree. specialize (Hfree _ Hd). simpl in Hfree.
    rewrite forallb_forall in Hfree.
    intros pv Hpv. destruct (nprefix (names a) (names (fst pv))) eqn:E; auto.
    apply (Permutation_in _ Hperm) in Hpv. apply in_app_or in Hpv as [Hpv|Hpv].
    + destruct (zipcat_under (length Ph) (names Ph) ds m) with (pv := pv) as (d' & Hd' & r' & Hr' & Hp);
        auto; try (rewrite names_length; auto).
      assert (Hin : In r' (xr ++ flat_map (frels (length Ph)) ds))
        by (apply in_or_app; right; apply in_flat_map; eauto).
      specialize (Hfree r' Hin). rewrite (nprefix_comparable _ _ _ E Hp) in Hfree. discriminate.
    + destruct (Hund pv Hpv) as (r' & Hr' & Hp).
      assert (Hin : In r' (xr ++ flat_map (frels (length Ph)) ds)) by (apply in_or_app; now left).
      specialize (Hfree r' Hin). rewrite (nprefix_comparable _ _ _ E Hp) in Hfree. discriminate.
  - rewrite Hm'. simpl.
    assert (Hchk : ig || forallb (fun ch => existsb (fun d => maps_path Ph d (fst ch)) ds) (directs vals) = true).
    { destruct Hig as [->| ->]; auto. apply orb_true_iff. right.
      apply forallb_forall. intros ch Hch. apply directs_in in Hch as [Hch Hdir].
      apply (Permutation_in _ Hperm) in Hch. rewrite app_nil_r in Hch.
      now apply (direct_mapped Ph ds m ch). }
    rewrite Hchk. exists m'. split; auto.
Qed.

(* ---------- the field level ---------- *)

Lemma foreign_perm R l l' : Permutation l l' -> foreign R l -> foreign R l'.
Proof. intros Hp H pv r Hin. apply H. eapply Permutation_in; [symmetry|]; eauto. Qed.

Lemma field_unset fx : field_ok fx VUnset.
Proof.
  intros d Ph vals others ig Hw Hwf _ _ Hperm Hfor Hemb. simpl in Hperm.
  exists VUnset. split; [|now constructor].
  apply ffp_unset; auto. eapply foreign_perm; [symmetry|]; eauto.
Qed.

Lemma keyfree_app a b : keyfree (a ++ b) = keyfree a && keyfree b.
Proof. unfold keyfree. apply forallb_app. Qed.

Lemma wfpath_app Ph q : wfpath Ph -> keyfree q = true -> wfpath (Ph ++ q).
Proof.
  intros Hw Hq. apply Forall_app. split; auto. apply Forall_forall. intros e He.
  unfold keyfree in Hq. rewrite forallb_forall in Hq. specialize (Hq e He). apply nil_b_true in Hq.
  unfold nd. rewrite Hq. constructor.
Qed.

Lemma fc_prep q X : keyfree q = true -> fc q (prep q X) = X.
Proof.
  intros Hq. unfold fc, prep. induction X as [|[x v] X IH]; simpl; auto.
  unfold under_b at 1. simpl. rewrite elems_prefix_keyfree_refl by auto. simpl.
  unfold strip at 1. simpl. rewrite skipn_app_exact by reflexivity. now rewrite IH.
Qed.

Lemma field_leaf_cases fx v : match v with VWrap _ | VScalar _ | VLeafList _ | VUnion _ => True | _ => False end ->
  field_ok fx v.
Proof.
  intros Hv d Ph vals others ig Hw Hwf Hs Hg Hperm Hfor Hemb.
  assert (Eo : foneof d = false) by (eapply supp_set_not_oneof; eauto; destruct v; try contradiction; discriminate).
  exists v. split; [|constructor; destruct v; auto; contradiction].
  destruct d as [nm anns oneof k]. simpl in Eo. subst oneof.
  destruct v as [|w|sv|vs|es|m|es]; try contradiction; simpl in Hs, Hg, Hperm.
  - (* wrapper *)
    destruct k; try discriminate. apply andb_prop in Hs as [Hk1 Hk2].
    assert (exists pv, wval_pv w = Ok pv /\ forall c, set_from fx (KWrap w0) c pv = Ok (VWrap w)) as (pv & Hpv & Hset).
    { destruct w, w0; try discriminate; simpl; eauto. simpl in Hg. rewrite Hg. eauto. }
    rewrite Hpv in Hperm. eapply ffp_leaf; eauto.
  - (* enumeration *)
    destruct sv; try discriminate. destruct k as [|[]| | | |]; try discriminate.
    destruct (enum_ok_value _ _ Hs) as (s & Hs1 & Hs2 & Hs3 & Hs4).
    simpl in Hperm. rewrite Hs1 in Hperm. eapply ffp_leaf; eauto.
    intros c. simpl. rewrite Hs3. simpl. unfold mk_enum. now rewrite Hs4.
  - (* leaf-list *)
    destruct k; try discriminate. apply andb3 in Hs as (Hk1 & Hk2 & Hk3).
    unfold wf_field in Hwf. simpl in Hwf. pose proof Hwf as Hwf'. apply andb3 in Hwf' as (_ & _ & Hk).
    destruct anns as [|a [|]]; try discriminate.
    assert (exists l, mapM wval_pv vs = Ok l) as [l Hl].
    { clear - Hk1 Hk3. induction vs as [|x vs IH]; [now exists []|].
      simpl in Hk3. apply andb_prop in Hk3 as [Hx Hvs]. destruct (IH Hvs) as [r Hr].
      simpl. rewrite Hr. destruct x, w; try discriminate; simpl; eauto. }
    rewrite Hl in Hperm.
    apply (ffp_leaf fx _ Ph vals others ig (PVSlice l)); auto.
    intros c. pose proof (mapM_slice_elem _ _ _ Hk1 Hk3 Hl) as Hrt. apply negb_true_iff in Hk2.
    simpl. destruct w; try discriminate; simpl; rewrite Hg, Hrt; simpl; unfold mk_leaflist; now rewrite Hk2.
  - (* leaf-list of unions *)
    destruct k; try discriminate. apply andb_prop in Hs as [Hk1 Hk2].
    unfold wf_field in Hwf. simpl in Hwf. pose proof Hwf as Hwf'. apply andb3 in Hwf' as (_ & _ & Hk).
    destruct anns as [|a [|]]; try discriminate.
    assert (exists l, mapM (fun e => union_elem ms e None) es = Ok l) as [l Hl].
    { clear - Hk2 Hg. induction es as [|e es IH]; [now exists []|].
      simpl in Hk2, Hg. apply andb_prop in Hk2 as [Hx Hes]. apply andb_prop in Hg as [Hy Hgs].
      destruct (IH Hgs Hes) as [r Hr]. destruct (union_roundtrip _ _ Hx Hy) as (pv & Hpv & _).
      simpl. rewrite Hpv, Hr. simpl. eauto. }
    rewrite Hl in Hperm.
    apply (ffp_leaf fx _ Ph vals others ig (PVSlice l)); auto.
    intros c. apply negb_true_iff in Hk1. simpl. rewrite (mapM_union _ _ _ Hk2 Hg Hl). simpl. unfold mk_union.
    now rewrite Hk1.
Qed.

(* no binding of the map equals the (schema) path of a populated container or list itself *)
Lemma nonleaf_no_match fx Ph d v vals others :
  wfpath Ph -> wf_field (names Ph) d = true -> supp_field (length Ph) d v = true -> v <> VUnset ->
  leaf_kind (fkindof d) = false ->
  Permutation vals (rel_paths (length Ph) d v ++ others) -> foreign (frels (length Ph) d) others ->
  direct_pass fx Ph d (directs vals) = Ok VUnset.
Proof.
  intros Hw Hwf Hs Hne Hk Hperm Hfor.
  pose proof (supp_set_not_oneof _ _ _ Hs Hne) as Eo.
  destruct (wf_field_parts _ _ Hwf Eo) as [_ Hann].
  rewrite (direct_pass_spec fx Ph d (directs vals) VUnset); auto.
  - match goal with |- Ok (if ?c then _ else _) = _ => now destruct c end.
  - intros a ch Ha Hch E. exfalso. apply directs_in in Hch as [Hch _].
    apply (Permutation_in _ Hperm) in Hch. apply in_app_or in Hch as [Hch|Hch].
    + rewrite <- (names_length Ph) in Hs, Hch.
      destruct (rel_paths_shape v d _ (names Ph) Hwf Hs (le_n _) ch Hch) as (a' & r & Ha' & Hnm & _ & Hnl).
      specialize (Hnl Hk).
      assert (Hlen : length (rel (length (names Ph)) a' ++ r) = length (rel (length Ph) a)).
      { rewrite <- Hnm. unfold rel. do 2 f_equal. exact E. }
      rewrite app_length, !rel_length, names_length in Hlen.
      destruct d as [nm anns oneof k]. simpl in *.
      destruct k; try discriminate; unfold wf_field in Hwf; simpl in Hwf; subst oneof; simpl in Hwf;
        apply andb3 in Hwf as (_ & _ & Hc); destruct anns as [|a0 [|]]; try discriminate;
        destruct Ha as [->|[]]; destruct Ha' as [->|[]]; destruct r; try congruence; simpl in Hlen; lia.
    + assert (Hx : nprefix (rel (length Ph) a) (names (skipn (length Ph) a)) = false).
      { assert (Hy : nprefix (rel (length Ph) a) (names (fst ch)) = false).
        { apply (Hfor ch); auto. unfold frels. rewrite Eo. now apply in_map. }
        rewrite <- Hy. do 2 f_equal. symmetry. exact E. }
      unfold rel in Hx. now rewrite nprefix_refl in Hx.
Qed.

Lemma ffp_msg_inv fx fs vals np ig m' : wfpath np -> ffp_msg fx fs vals np np ig = Ok m' ->
  mapMfields (ffp_field fx vals np np ig (directs vals)) fs = Ok m' /\
  ig || forallb (fun ch => existsb (fun d => maps_path np d (fst ch)) fs) (directs vals) = true.
Proof.
  intros Hw. unfold ffp_msg. rewrite find_children_direct by auto. simpl.
  intros H. apply bind_ok in H as (m'' & Hm & H).
  destruct (ig || forallb _ (directs vals)); [|discriminate]. injection H as <-. auto.
Qed.

Lemma field_container fx m : Forall (field_ok fx) m -> field_ok fx (VMsg m).
Proof.
  intros IHm d Ph vals others ig Hw Hwf Hs Hg Hperm Hfor Hemb.
  assert (Eo : foneof d = false) by (eapply supp_set_not_oneof; eauto; discriminate).
  pose proof (nonleaf_no_match fx Ph d (VMsg m) vals others Hw Hwf Hs) as Hdp.
  destruct (wf_field_parts _ _ Hwf Eo) as [_ Hann].
  destruct d as [nm anns oneof k]. simpl in Eo. subst oneof. simpl in Hs.
  destruct k; try discriminate. destruct anns as [|a [|]]; try discriminate.
  specialize (Hdp ltac:(discriminate) eq_refl Hperm Hfor).
  pose proof (Hann a (or_introl eq_refl)) as Ha. pose proof Ha as Ha'.
  apply ann_ok_parts in Ha' as (Hkf & _ & Hl). rewrite names_length in Hl.
  rewrite !andb_true_iff in Hs. destruct Hs as [[[Hwfs Hlen] Hz] Hdata].
  simpl in Hg. rewrite !andb_true_iff in Hg. destruct Hg as [Hg1 [Hg2 Hg3]].
  set (q := skipn (length Ph) a).
  assert (Hq : keyfree q = true) by now apply keyfree_skipn.
  assert (Hnp : trim_prefix a (if fx_trim fx then schema Ph else Ph) = q).
  { apply container_np; auto. destruct (fx_trim fx); auto. right.
    rewrite orb_false_r, negb_involutive in Hg1. exact Hg1. }
  set (X := zipcat (rel_paths (length a)) fs m).
  assert (Hown : rel_paths (length Ph) (FD nm [a] false (KMsg fs)) (VMsg m) = prep q X).
  { simpl. unfold X. rewrite <- zipcat_prep. apply (zipcat_ext _ _ (supp_field (length a))); auto.
    intros d' v' Hd' Hv' Hq'. apply rel_paths_shift; auto; [|lia].
    unfold wf_fields in Hwfs. apply andb_prop in Hwfs as [Hwfs _]. rewrite forallb_forall in Hwfs. auto. }
  assert (HX : X <> []).
  { intros E. apply negb_true_iff, nil_b_false in Hdata. apply Hdata.
    simpl. rewrite <- (prep_nil (zipcat _ fs m)).
    replace (zipcat (rel_paths 0) fs m) with (prep (skipn 0 a) X).
    - rewrite E. reflexivity.
    - unfold X. rewrite <- zipcat_prep. symmetry. apply (zipcat_ext _ _ (supp_field (length a))); auto.
      intros d' v' Hd' Hv' Hq'. apply rel_paths_shift; auto; [|lia].
      unfold wf_fields in Hwfs. apply andb_prop in Hwfs as [Hwfs _]. rewrite forallb_forall in Hwfs. auto. }
  assert (Hch : Permutation (fc q vals) (X ++ [])).
  { rewrite app_nil_r. etransitivity; [apply fc_perm; exact Hperm|].
    rewrite Hown, fc_app, fc_prep by auto. rewrite fc_foreign; auto; [now rewrite app_nil_r|].
    intros pv Hpv. apply (Hfor pv); auto. simpl. now left. }
  assert (Hwnp : wfpath (Ph ++ q)) by now apply wfpath_app.
  assert (Hnames : names (Ph ++ q) = names a).
  { rewrite names_app. symmetry. apply (ann_names Ph a Ha). }
  assert (Hlnp : length (Ph ++ q) = length a).
  { rewrite <- (names_length (Ph ++ q)), Hnames. apply names_length. }
  assert (Hkfnp : keyfree (Ph ++ q) = keyfree Ph) by (rewrite keyfree_app, Hq; apply andb_true_r).
  destruct (msg_ok fx fs m IHm (Ph ++ q) (fc q vals) [] ig) as (m' & Hm' & Heq); auto.
  - now rewrite Hnames.
  - rewrite Hlnp. unfold supp_msg. now rewrite Hlen, Hz.
  - rewrite Hkfnp. exact Hg3.
  - rewrite Hlnp. exact Hch.
  - intros pv r [].
  - intros Et Ek. exists []. rewrite Hlnp. split; [|intros pv []].
    rewrite Hkfnp in Ek. rewrite Ek in Hg2. simpl in Hg2. exact Hg2.
  - apply ffp_msg_inv in Hm' as [Hm1 Hm2]; auto.
    exists (VMsg m'). split; [|now constructor].
    simpl. simpl in Hdp. rewrite Hdp. simpl. rewrite Hnp.
    rewrite find_children_all by auto.
    assert (Hnn : nil_b (fc q vals) = false).
    { apply nil_b_false. intros E. rewrite E in Hch. apply Permutation_nil in Hch.
      rewrite app_nil_r in Hch. contradiction. }
    simpl. rewrite Hnn. rewrite find_children_direct by auto. simpl.
    rewrite Hm1. simpl. now rewrite Hm2.
Qed.

(* ---------- keyed lists ---------- *)

Lemma fc_foreign' q vals :
  (forall pv, In pv vals -> nprefix (names q) (names (fst pv)) = false) -> fc q vals = [].
Proof.
  intros H. unfold fc. induction vals as [|pv vals IH]; simpl; auto.
  unfold under_b at 1. destruct (elems_prefix q (fst pv)) eqn:E.
  - apply elems_prefix_names in E. rewrite H in E by now left. discriminate.
  - apply IH. intros; apply H; now right.
Qed.
Lemma fc_prep' q X : wfpath q -> fc q (prep q X) = X.
Proof.
  intros Hq. unfold fc, prep. induction X as [|[x v] X IH]; simpl; auto.
  unfold under_b at 1. simpl. rewrite elems_prefix_refl by auto. simpl.
  unfold strip at 1. simpl. rewrite skipn_app_exact by reflexivity. now rewrite IH.
Qed.
Lemma fc_flat_map {A} q (f : A -> pvals) l : fc q (flat_map f l) = flat_map (fun x => fc q (f x)) l.
Proof. induction l as [|x l IH]; simpl; auto. now rewrite fc_app, IH. Qed.
Lemma flat_map_all_nil {A B} (f : A -> list B) l : (forall y, In y l -> f y = []) -> flat_map f l = [].
Proof.
  induction l as [|z l IH]; intros H; simpl; auto. rewrite (H z) by now left. apply IH. intros; apply H; now right.
Qed.
Lemma flat_map_single {A B} (f : A -> list B) l x :
  NoDup l -> In x l -> (forall y, In y l -> y <> x -> f y = []) -> flat_map f l = f x.
Proof.
  induction l as [|z l IH]; intros Hnd Hin H; [contradiction|]. inversion Hnd; subst. simpl.
  destruct Hin as [->|Hin].
  - rewrite flat_map_all_nil; [apply app_nil_r|].
    intros y Hy. apply H; [now right|]. intros ->. contradiction.
  - rewrite (H z); [|now left|intros ->; contradiction]. simpl. apply IH; auto.
    intros y Hy. apply H. now right.
Qed.

(* decimal text of a uint64 key and strconv.ParseUint *)
Lemma str_to_uint_to_str u : str_to_uint (uint_to_str u) = Some u.
Proof. induction u; simpl; auto; rewrite IHu; reflexivity. Qed.
Lemma uint_to_str_nil u : uint_to_str u = [] -> u = Decimal.Nil.
Proof. destruct u; simpl; auto; discriminate. Qed.
Lemma parse_digits_dec n : parse_digits (dec_of_N n) = Some n.
Proof.
  unfold parse_digits, dec_of_N. rewrite str_to_uint_to_str. simpl. rewrite DecimalN.Unsigned.of_to.
  destruct (uint_to_str (N.to_uint n)) eqn:E; auto.
  apply uint_to_str_nil in E. destruct n; simpl in E; [discriminate|].
  now apply DecimalPos.Unsigned.to_uint_nonnil in E.
Qed.
Lemma list_key_value_rt k sv : key_kind_ok k sv = true ->
  exists s, key_string sv = Ok s /\ list_key_value k s = Ok sv.
Proof.
  destruct k, sv; simpl; try discriminate; intros H.
  - exists s. auto.
  - exists (dec_of_N n). split; auto. unfold parse_uint_range. rewrite parse_digits_dec, H.
    now rewrite N2Z.id.
Qed.

(* reflect.DeepEqual on the key maps of two entries of one list *)
Lemma keys_eqb_refl A : NoDup (map fst A) -> keys_eqb A A = true.
Proof. intros H. unfold keys_eqb. now apply elems_equal_refl. Qed.
Lemma keys_eqb_same : forall A B, map fst A = map fst B -> NoDup (map fst A) -> keys_eqb A B = true -> A = B.
Proof.
  induction A as [|[k v] A IH]; intros [|[k' w] B] Hn Hnd H; simpl in Hn; try discriminate; auto.
  injection Hn as <- Hn. inversion Hnd as [|? ? Hnotin Hnd']; subst.
  unfold keys_eqb in H. apply elems_equal_iff in H as (_ & Hl & Hf). simpl in Hl, Hf.
  pose proof (Hf k v (or_introl eq_refl)) as Hk. rewrite str_eqb_refl in Hk. injection Hk as <-.
  f_equal. apply IH; auto. unfold keys_eqb. apply elems_equal_iff. simpl. repeat split; auto.
  intros k' v' Hin. specialize (Hf k' v' (or_intror Hin)).
  destruct (str_eqb k' k) eqn:E; auto.
  apply str_eqb_eq in E. subst. exfalso. apply Hnotin. change k with (fst (k, v')). now apply in_map.
Qed.

Lemma key_name_cur anns cur s : cur <> [] -> key_name anns cur = Ok s -> s = cur.
Proof.
  revert cur; induction anns as [|p anns IH]; intros cur Hc; simpl.
  - congruence.
  - destruct (lastn p) as [e|]; [|discriminate]. destruct (nil_b (ename e)); [discriminate|].
    destruct (nil_b cur) eqn:E; [apply nil_b_true in E; contradiction|].
    destruct (str_eqb (ename e) cur); [|discriminate]. now apply IH.
Qed.
Lemma key_name_first p anns s : key_name (p :: anns) [] = Ok s -> exists e, lastn p = Some e /\ ename e = s.
Proof.
  simpl. destruct (lastn p) as [e|]; [|discriminate]. destruct (nil_b (ename e)) eqn:E; [discriminate|].
  intros H. exists e. split; auto. symmetry. eapply key_name_cur; eauto. now apply nil_b_false.
Qed.

Lemma al_find_app_skip {V} k (v : V) pre rest : ~ In k (map fst pre) ->
  al_find k (pre ++ (k, v) :: rest) = Some v.
Proof.
  induction pre as [|[k' v'] pre IH]; simpl; intros H.
  - now rewrite str_eqb_refl.
  - destruct (str_eqb k k') eqn:E; [apply str_eqb_eq in E; subst; tauto|]. apply IH. tauto.
Qed.

Lemma key_fields_rt L ks : forallb (kd_ok L) ks = true -> NoDup (map kd_name ks) ->
  forall kvs pre, keys_ok ks kvs = true -> (forall k, In k (map fst pre) -> ~ In k (map kd_name ks)) ->
  key_fields ks (pre ++ key_map ks kvs) = Ok kvs.
Proof.
  induction ks as [|kd ks IH]; intros Hk Hnd [|[sv|] kvs] pre Hko Hpre; simpl in Hko; try discriminate; auto.
  simpl in Hk. apply andb_prop in Hk as [Hkd Hks]. apply andb_prop in Hko as [Hkk Hko].
  inversion Hnd as [|? ? Hnotin Hnd']; subst.
  destruct (kd_ok_parts _ _ Hkd) as (Hone & Hne & Hann & Hname).
  destruct (list_key_value_rt _ _ Hkk) as (s & Hs & Hrt).
  simpl. rewrite Hone, Hname, Hs.
  destruct (kd_ann kd) as [|p anns] eqn:Ea; [contradiction|].
  destruct (key_name_first _ _ _ Hname) as (e & He & Hen). rewrite He, Hen.
  rewrite al_find_app_skip.
  2:{ intros Hin. apply (Hpre _ Hin). simpl. now left. }
  rewrite Hrt. simpl.
  replace (pre ++ (kd_name kd, s) :: key_map ks kvs) with ((pre ++ [(kd_name kd, s)]) ++ key_map ks kvs)
    by now rewrite <- app_assoc.
  rewrite IH; auto.
  intros k Hin. rewrite map_app, in_app_iff in Hin. destruct Hin as [Hin|[<-|[]]].
  - intros Hk. apply (Hpre _ Hin). simpl. now right.
  - exact Hnotin.
Qed.

Lemma keys_all_mapped_ok L ks kvs : forallb (kd_ok L) ks = true -> keys_ok ks kvs = true ->
  keys_all_mapped ks (key_map ks kvs) = true.
Proof.
  intros Hk Hko. unfold keys_all_mapped. apply forallb_forall. intros [k v] Hin.
  assert (Hk' : In k (map kd_name ks)).
  { rewrite <- (key_map_names L ks kvs Hk Hko). change k with (fst (k, v)). now apply in_map. }
  apply in_map_iff in Hk' as (kd & <- & Hkd). apply existsb_exists. exists kd. split; auto.
  rewrite forallb_forall in Hk. destruct (kd_ok_parts _ _ (Hk kd Hkd)) as (Hone & Hne & _ & Hname).
  unfold key_field_name. rewrite Hone. destruct (kd_ann kd) as [|p anns]; [contradiction|].
  destruct (key_name_first _ _ _ Hname) as (e & He & Hen). rewrite He. simpl. rewrite Hen. apply str_eqb_refl.
Qed.

Section ListKeys.
  Variables (Ph a : gpath) (NM : list str) (KS : list (list (str * str))).
  Hypothesis Hw : wfpath Ph.
  Hypothesis Ha : ann_ok (names Ph) a = true.
  Hypothesis Hd : length a = (length Ph + 2)%nat.
  Hypothesis HNM : NoDup NM.
  Hypothesis HNMne : NM <> [].
  Hypothesis HKS : forall K, In K KS -> map fst K = NM.

  Definition LkK (K : list (str * str)) : gpath := set_last_keys (skipn (length Ph) a) K.
  Definition kpf (K : list (str * str)) : list (str * str) * gpath := (K, Ph ++ LkK K).
  Definition entry_path (K : list (str * str)) (p : gpath) : Prop := exists y, p = LkK K ++ y.

  Lemma L_two : exists e1 e2, skipn (length Ph) a = [e1; e2] /\ ekeys e1 = [] /\ ekeys e2 = [].
  Proof.
    pose proof (skipn_length (length Ph) a) as Hl. rewrite Hd in Hl.
    replace (length Ph + 2 - length Ph)%nat with 2%nat in Hl by lia.
    destruct (skipn (length Ph) a) as [|e1 [|e2 [|]]] eqn:E; try discriminate.
    exists e1, e2. split; auto.
    assert (Hk : keyfree [e1; e2] = true).
    { rewrite <- E. apply keyfree_skipn. now apply ann_ok_parts in Ha. }
    apply keyfree_cons in Hk as [H1 Hk]. apply keyfree_cons in Hk as [H2 _]. auto.
  Qed.

  Lemma LkK_form K : exists e1 e2, skipn (length Ph) a = [e1; e2] /\
    LkK K = [e1; {| ename := ename e2; ekeys := K |}] /\ ekeys e1 = [].
  Proof.
    destruct L_two as (e1 & e2 & E & H1 & H2). exists e1, e2. unfold LkK. rewrite E. auto.
  Qed.

  Lemma LkK_names K : names (LkK K) = rel (length Ph) a.
  Proof. unfold LkK. apply set_last_keys_names. Qed.

  Lemma wfpath_LkK K : map fst K = NM -> wfpath (Ph ++ LkK K).
  Proof.
    intros HK. apply Forall_app. split; auto.
    destruct (LkK_form K) as (e1 & e2 & _ & -> & H1).
    constructor; [|constructor; [|constructor]]; unfold nd; simpl.
    - rewrite H1. constructor.
    - now rewrite HK.
  Qed.

  Lemma list_keys_step K p v t seen : map fst K = NM -> entry_path K p ->
    list_keys ((p, v) :: t) Ph Ph a seen =
    list_keys t Ph Ph a (if existsb (fun s => keys_eqb (fst s) K) seen then seen else seen ++ [kpf K]).
  Proof.
    intros HK [y ->]. simpl.
    rewrite prefix_match_schema, !names_app, (ann_names _ _ Ha), LkK_names.
    rewrite nprefix_app_l, nprefix_app. simpl.
    assert (Hnb : nil_b a = false) by (apply nil_b_false; intros ->; simpl in Hd; lia).
    rewrite Hnb.
    destruct (LkK_form K) as (e1 & e2 & E & Elk & H1).
    replace (length a - 1)%nat with (length Ph + 1)%nat by lia.
    rewrite nth_error_app2 by lia. replace (length Ph + 1 - length Ph)%nat with 1%nat by lia.
    rewrite Elk. simpl.
    assert (HKne : nil_b K = false).
    { apply nil_b_false. intros ->. simpl in HK. now symmetry in HK. }
    rewrite HKne.
    destruct (Nat.ltb_spec (length (Ph ++ e1 :: {| ename := ename e2; ekeys := K |} :: y)) (length Ph + 2)) as [Hlt|_].
    { rewrite app_length in Hlt. simpl in Hlt. lia. }
    rewrite skipn_app_exact by reflexivity. simpl. unfold kpf. rewrite Elk.
    now destruct (existsb (fun s => keys_eqb (fst s) K) seen).
  Qed.

  Lemma seen_test K seen : In K KS -> (forall x, In x seen -> exists K', In K' KS /\ x = kpf K') ->
    existsb (fun s => keys_eqb (fst s) K) seen = true <-> In (kpf K) seen.
  Proof.
    intros HK Hseen. rewrite existsb_exists. split.
    - intros (s & Hs & Heq). destruct (Hseen s Hs) as (K' & HK' & ->). simpl in Heq.
      apply keys_eqb_same in Heq; [now subst| |].
      + now rewrite (HKS _ HK), (HKS _ HK').
      + now rewrite (HKS _ HK').
    - intros Hin. exists (kpf K). split; auto. simpl. apply keys_eqb_refl. now rewrite (HKS _ HK).
  Qed.

  Lemma list_keys_spec vals : forall seen,
    (forall pv, In pv vals -> nprefix (rel (length Ph) a) (names (fst pv)) = false \/
                              exists K, In K KS /\ entry_path K (fst pv)) ->
    (forall x, In x seen -> exists K, In K KS /\ x = kpf K) -> NoDup seen ->
    exists seen', list_keys vals Ph Ph a seen = Ok seen' /\ NoDup seen' /\
      (forall x, In x seen' -> exists K, In K KS /\ x = kpf K) /\
      incl seen seen' /\
      (forall pv K, In pv vals -> In K KS -> entry_path K (fst pv) -> In (kpf K) seen') /\
      (forall x, In x seen' -> In x seen \/ exists pv K, In pv vals /\ In K KS /\ entry_path K (fst pv) /\ x = kpf K).
  Proof.
    induction vals as [|[p v] vals IH]; intros seen Hcls Hseen Hnd.
    - exists seen. simpl. repeat split; auto using incl_refl. intros pv K [].
    - destruct (Hcls (p, v) (or_introl eq_refl)) as [Hfor|(K & HK & Hent)].
      + (* a binding of another field *)
        destruct (IH seen) as (seen' & H1 & H2 & H3 & H4 & H5 & H6); auto.
        { intros; apply Hcls; now right. }
        exists seen'. split.
        { simpl. rewrite prefix_match_schema, names_app, (ann_names _ _ Ha), nprefix_app_l.
          simpl in Hfor. rewrite Hfor. simpl. exact H1. }
        repeat split; auto.
        * intros pv K' [E|Hin] HK' Hent; [|eauto].
          subst pv. simpl in *. destruct Hent as [y ->].
          rewrite names_app, LkK_names, nprefix_app in Hfor. discriminate.
        * intros x Hx. destruct (H6 x Hx) as [Hs|(pv & K' & A1 & A2 & A3 & A4)]; auto.
          right. exists pv, K'. repeat split; auto. now right.
      + simpl in Hent. rewrite (list_keys_step K p v vals seen (HKS _ HK) Hent).
        pose proof (seen_test K seen HK Hseen) as Htest.
        destruct (existsb (fun s => keys_eqb (fst s) K) seen) eqn:Et.
        * destruct (IH seen) as (seen' & H1 & H2 & H3 & H4 & H5 & H6); auto.
          { intros; apply Hcls; now right. }
          exists seen'. repeat split; auto.
          -- intros pv K' [E|Hin] HK' Hent'; [|eauto].
             subst pv. simpl in Hent'. apply H4.
             assert (EK : K' = K).
             { destruct Hent as [y ->]. destruct Hent' as [y' E].
               destruct (LkK_form K) as (e1 & e2 & _ & E1 & _). destruct (LkK_form K') as (e1' & e2' & _ & E2 & _).
               rewrite E1, E2 in E. simpl in E. injection E as _ _ EK _. auto. }
             subst K'. now apply Htest.
          -- intros x Hx. destruct (H6 x Hx) as [Hs|(pv & K' & A1 & A2 & A3 & A4)]; auto.
             right. exists pv, K'. repeat split; auto. now right.
        * assert (Hnotin : ~ In (kpf K) seen) by (intros Hin; apply Htest in Hin; discriminate).
          destruct (IH (seen ++ [kpf K])) as (seen' & H1 & H2 & H3 & H4 & H5 & H6); auto.
          { intros; apply Hcls; now right. }
          { intros x Hx. apply in_app_or in Hx as [Hx|[<-|[]]]; eauto. }
          { apply (Permutation_NoDup (Permutation_cons_append seen (kpf K))). now constructor. }
          exists seen'. repeat split; auto.
          -- intros x Hx. apply H4. apply in_or_app. now left.
          -- intros pv K' [E|Hin] HK' Hent'; [|eauto].
             subst pv. simpl in Hent'.
             assert (EK : K' = K).
             { destruct Hent as [y ->]. destruct Hent' as [y' E].
               destruct (LkK_form K) as (e1 & e2 & _ & E1 & _). destruct (LkK_form K') as (e1' & e2' & _ & E2 & _).
               rewrite E1, E2 in E. simpl in E. injection E as _ _ EK _. auto. }
             subst K'. apply H4. apply in_or_app. right. now left.
          -- intros x Hx. destruct (H6 x Hx) as [Hs|(pv & K' & A1 & A2 & A3 & A4)].
             ++ apply in_app_or in Hs as [Hs|[<-|[]]]; auto.
                right. exists (p, v), K. repeat split; auto. now left.
             ++ right. exists pv, K'. repeat split; auto. now right.
  Qed.
End ListKeys.

Lemma mapM_perm {A B} (f : A -> result B) l1 l2 : Permutation l1 l2 ->
  forall r2, mapM f l2 = Ok r2 -> exists r1, mapM f l1 = Ok r1 /\ Permutation r1 r2.
Proof.
  induction 1 as [|x l l' Hp IH|x y l|l l' l'' Hp1 IH1 Hp2 IH2]; intros r2 Hm.
  - exists []. simpl in Hm. injection Hm as <-. auto.
  - simpl in Hm. apply bind_ok in Hm as (b & Hb & Hm). apply bind_ok in Hm as (r & Hr & Hm). injection Hm as <-.
    destruct (IH _ Hr) as (r1 & Hr1 & Hp1). exists (b :: r1). simpl. rewrite Hb. simpl. rewrite Hr1. simpl. auto.
  - simpl in Hm. apply bind_ok in Hm as (b & Hb & Hm). apply bind_ok in Hm as (r & Hr & Hm). injection Hm as <-.
    apply bind_ok in Hr as (c & Hc & Hr). apply bind_ok in Hr as (r' & Hr' & Hr). injection Hr as <-.
    exists (c :: b :: r'). simpl. rewrite Hc. simpl. rewrite Hb. simpl. rewrite Hr'. simpl. split; auto. apply perm_swap.
  - destruct (IH2 _ Hm) as (r & Hr & Hpr). destruct (IH1 _ Hr) as (r1 & Hr1 & Hpr1).
    exists r1. split; auto. etransitivity; eauto.
Qed.

Lemma strs_eqb_refl a : strs_eqb a a = true.
Proof.
  unfold strs_eqb. rewrite Nat.eqb_refl. simpl. induction a; simpl; auto. now rewrite str_eqb_refl.
Qed.

Lemma pairwise_nodup_map {A B} (g : A -> A -> bool) (f : A -> B) l :
  pairwise (fun x y => negb (g x y)) l = true -> (forall x y, f x = f y -> g x y = true) -> NoDup (map f l).
Proof.
  intros Hp Hg. induction l as [|x l IH]; simpl; [constructor|].
  simpl in Hp. apply andb_prop in Hp as [H1 H2]. constructor; auto.
  rewrite in_map_iff. intros (y & E & Hy). rewrite forallb_forall in H1. specialize (H1 y Hy).
  rewrite (Hg x y) in H1; auto. discriminate.
Qed.

Lemma key_leaves_nonempty L ks kvs : ks <> [] -> forallb (kd_ok L) ks = true -> keys_ok ks kvs = true ->
  key_leaves (length L) ks kvs <> [].
Proof.
  destruct ks as [|kd ks]; [congruence|]. intros _ Hk Hko. simpl in Hk, Hko.
  destruct kvs as [|[sv|] kvs]; try discriminate. apply andb_prop in Hk as [Hkd _].
  apply kd_ok_parts in Hkd as (_ & Hne & _). simpl. destruct (kd_ann kd); [contradiction|]. discriminate.
Qed.

Lemma fc_none q vals : (forall pv, In pv vals -> elems_prefix q (fst pv) = false) -> fc q vals = [].
Proof.
  intros H. unfold fc. induction vals as [|pv vals IH]; simpl; auto.
  replace (under_b q pv) with false by (symmetry; apply (H pv); now left).
  apply IH. intros; apply H; now right.
Qed.

Lemma key_leaves_rels n ks kvs pv : In pv (key_leaves n ks kvs) -> In (names (fst pv)) (key_rels n ks).
Proof.
  revert kvs; induction ks as [|kd ks IH]; intros kvs Hin.
  - destruct kvs as [|[sv|] kvs]; simpl in Hin; contradiction.
  - unfold key_rels. simpl. apply in_or_app.
    destruct kvs as [|[sv|] kvs]; simpl in Hin; [contradiction| |right; eapply IH; eauto].
    apply in_app_or in Hin as [Hin|Hin]; [left|right; eapply IH; eauto].
    apply in_map_iff in Hin as (a & <- & Ha). simpl. apply in_map_iff. exists a. auto.
Qed.

Lemma distinct_entries ks (es : list (list (option sval) * option (list fval))) e e' :
  pairwise (fun x y => negb (strs_eqb (entry_key ks x) (entry_key ks y))) es = true ->
  In e es -> In e' es -> key_map ks (fst e) = key_map ks (fst e') -> e = e'.
Proof.
  intros Hdist He He' HKK. induction es as [|z l IHl]; [contradiction|].
  simpl in Hdist. apply andb_prop in Hdist as [H1 H2]. rewrite forallb_forall in H1.
  destruct He as [->|He], He' as [->|He']; auto.
  - specialize (H1 _ He'). unfold entry_key in H1. rewrite HKK, strs_eqb_refl in H1. discriminate.
  - specialize (H1 _ He). unfold entry_key in H1. rewrite HKK, strs_eqb_refl in H1. discriminate.
Qed.

Lemma mapM_entries {A} (body : A -> result (list (option sval) * option (list fval))) (kp : _ -> A) es :
  (forall e, In e es -> exists m', body (kp e) = Ok (fst e, Some m') /\
                                   exists m, snd e = Some m /\ Forall2 feqv m' m) ->
  exists es'', mapM body (map kp es) = Ok es'' /\ Forall2 eeqv es'' es.
Proof.
  induction es as [|e es IH]; intros H.
  - exists []. auto.
  - destruct (H e (or_introl eq_refl)) as (m' & Hb & m & Hm & Heq).
    destruct IH as (es'' & Hes & Hall); [intros; apply H; now right|].
    exists ((fst e, Some m') :: es''). simpl. rewrite Hb. simpl. rewrite Hes. simpl. split; auto.
    constructor; auto. destruct e as [kvs mem]. simpl in *. subst mem. now constructor.
Qed.

Lemma field_list fx es : Forall (PE (field_ok fx)) es -> field_ok fx (VList es).
Proof.
  intros IHes d Ph vals others ig Hw Hwf Hs Hg Hperm Hfor Hemb.
  assert (Eo : foneof d = false) by (eapply supp_set_not_oneof; eauto; discriminate).
  pose proof (nonleaf_no_match fx Ph d (VList es) vals others Hw Hwf Hs) as Hdp.
  destruct (wf_field_parts _ _ Hwf Eo) as [_ Hann].
  destruct d as [nm anns oneof k]. simpl in Eo. subst oneof. simpl in Hs.
  destruct k; try discriminate. destruct anns as [|a [|]]; try discriminate.
  specialize (Hdp ltac:(discriminate) eq_refl Hperm Hfor).
  pose proof (Hann a (or_introl eq_refl)) as Ha.
  rewrite !andb_true_iff in Hs.
  destruct Hs as [[[[[[[[Hd Hwfs] Hes0] Hks0] Hkd] Hkn] Hkfor] Hdist] Hents].
  apply Nat.eqb_eq in Hd. apply negb_true_iff, nil_b_false in Hes0. apply negb_true_iff, nil_b_false in Hks0.
  simpl in Hg. apply andb_prop in Hg as [Hg1 Hg2].
  rewrite forallb_forall in Hents, Hg2.
  set (NM := map kd_name ks).
  assert (HNM : NoDup NM) by now apply pairwise_nodup.
  assert (HNMne : NM <> []) by (unfold NM; destruct ks; [congruence | discriminate]).
  set (Kf := fun e : list (option sval) * option (list fval) => key_map ks (fst e)).
  set (KS := map Kf es).
  assert (Hent : forall e, In e es -> keys_ok ks (fst e) = true /\
            exists m, snd e = Some m /\ length m = length fs /\ zipand (supp_field (length a)) fs m = true /\
                      zipand (guard_field fx true) fs m = true).
  { intros [kvs mem] He. pose proof (Hents _ He) as H1. pose proof (Hg2 _ He) as H2. simpl in H1, H2.
    apply andb_prop in H1 as [Hko Hm]. split; auto. destruct mem as [m|]; [|discriminate].
    apply andb_prop in Hm as [Hl Hz]. apply Nat.eqb_eq in Hl. exists m. auto. }
  assert (HKS : forall K, In K KS -> map fst K = NM).
  { intros K HK. apply in_map_iff in HK as (e & <- & He). apply (key_map_names (names a)); auto. now apply Hent. }
  set (kp := fun e => kpf Ph a (Kf e)).
  set (E := entry_paths (length Ph) (length a) a ks (zipcat (rel_paths (length a)) fs)).
  assert (Hown : rel_paths (length Ph) (FD nm [a] false (KList ks fs)) (VList es) = flat_map E es) by reflexivity.
  rewrite Hown in Hperm.
  assert (HE : forall e pv, In e es -> In pv (E e) -> entry_path Ph a (Kf e) (fst pv)).
  { intros [kvs mem] pv He Hpv. unfold E, entry_paths, prep in Hpv.
    apply in_map_iff in Hpv as ([y w] & <- & _). simpl. now exists y. }
  assert (HEne : forall e, In e es -> E e <> []).
  { intros [kvs mem] He. unfold E, entry_paths, prep. destruct (Hent _ He) as [Hko _]. simpl in Hko.
    pose proof (key_leaves_nonempty (names a) ks kvs Hks0 Hkd Hko) as Hne. rewrite names_length in Hne.
    destruct (key_leaves (length a) ks kvs); [contradiction | discriminate]. }
  (* the first loop of createListField *)
  destruct (list_keys_spec Ph a NM KS Ha Hd HNM HNMne HKS vals []) as (seen' & Hlk & Hnd & Hall & _ & Hcov & _).
  { intros pv Hpv. apply (Permutation_in _ Hperm) in Hpv. apply in_app_or in Hpv as [Hpv|Hpv].
    - right. apply in_flat_map in Hpv as (e & He & Hpv). exists (Kf e). split; [now apply in_map|]. now apply (HE e).
    - left. apply (Hfor pv); auto. simpl. now left. }
  { intros x []. }
  { constructor. }
  assert (Hseen : Permutation seen' (map kp es)).
  { apply NoDup_Permutation; auto.
    - apply (pairwise_nodup_map (fun e e' => strs_eqb (entry_key ks e) (entry_key ks e'))); auto.
      intros x y Exy. unfold kp, kpf in Exy. injection Exy as Exy _. unfold entry_key. fold (Kf x) (Kf y).
      rewrite Exy. apply strs_eqb_refl.
    - intros x. split.
      + intros Hx. destruct (Hall x Hx) as (K & HK & ->). apply in_map_iff in HK as (e & <- & He).
        apply in_map_iff. exists e. auto.
      + intros Hx. apply in_map_iff in Hx as (e & <- & He).
        destruct (E e) as [|pv l] eqn:Ee; [now apply HEne in Ee|].
        apply (Hcov pv (Kf e)).
        * eapply Permutation_in; [symmetry; exact Hperm|]. apply in_or_app. left.
          apply in_flat_map. exists e. split; auto. rewrite Ee. now left.
        * now apply in_map.
        * apply (HE e); auto. rewrite Ee. now left. }
  (* one entry *)
  set (body := fun kp0 : list (str * str) * gpath =>
         bind (find_children vals Ph (snd kp0) false false) (fun ch =>
         bind (key_fields ks (fst kp0)) (fun kvs =>
         bind (find_children ch (snd kp0) (snd kp0) true true) (fun direct' =>
         bind (mapMfields (ffp_field fx ch (snd kp0) (snd kp0) true direct') fs) (fun m =>
         if keys_all_mapped ks (fst kp0) then Ok (kvs, Some m) else Err))))).
  assert (Hnodup_es : NoDup es).
  { rewrite <- (map_id es). apply (pairwise_nodup_map (fun e e' => strs_eqb (entry_key ks e) (entry_key ks e'))); auto.
    intros x y ->. apply strs_eqb_refl. }
  assert (Hbody : forall e, In e es -> exists m', body (kp e) = Ok (fst e, Some m') /\
                                       exists m, snd e = Some m /\ Forall2 feqv m' m).
  { intros e He. destruct (Hent e He) as (Hko & m & Hm & Hlm & Hzs & Hzg).
    rewrite Forall_forall in IHes. pose proof (IHes e He) as IHe. unfold PE, opt_all in IHe. rewrite Hm in IHe.
    pose proof (HKS (Kf e) (in_map Kf es e He)) as HKe.
    pose proof (wfpath_LkK Ph a NM Hw Ha Hd HNM (Kf e) HKe) as Hwl.
    set (Lk := LkK Ph a (Kf e)) in *.
    assert (Hwlk : wfpath Lk) by (apply Forall_app in Hwl; tauto).
    set (KL := key_leaves (length a) ks (fst e)).
    set (X := zipcat (rel_paths (length a)) fs m).
    assert (HEe : E e = prep Lk (KL ++ X)).
    { destruct e as [kvs mem]. simpl in Hm. subst mem. reflexivity. }
    (* the bindings below the entry *)
    assert (Hch : Permutation (fc Lk vals) (X ++ KL)).
    { etransitivity; [apply fc_perm; exact Hperm|]. rewrite fc_app.
      rewrite (fc_foreign' Lk others).
      2:{ intros pv Hpv. unfold Lk. rewrite LkK_names. apply (Hfor pv); auto. simpl. now left. }
      rewrite app_nil_r, fc_flat_map.
      rewrite (flat_map_single _ es e); auto.
      - rewrite HEe, fc_prep' by auto. apply Permutation_app_comm.
      - intros e' He' Hne. apply fc_none. intros pv Hpv.
        destruct (HE e' pv He' Hpv) as [y Ey]. destruct pv as [p0 w0]. simpl in Ey |- *. subst p0.
        destruct (LkK_form Ph a Ha Hd (Kf e)) as (e1 & e2 & _ & E1 & _).
        destruct (LkK_form Ph a Ha Hd (Kf e')) as (e1' & e2' & _ & E2 & _).
        unfold Lk. rewrite E1, E2. simpl.
        destruct (elems_equal e1 e1'); auto. simpl.
        destruct (elems_equal {| ename := ename e2; ekeys := Kf e |} {| ename := ename e2'; ekeys := Kf e' |}) eqn:Eq; auto.
        exfalso. apply Hne. symmetry. apply (distinct_entries ks es e e'); auto.
        apply keys_eqb_same.
        + fold (Kf e) (Kf e'). rewrite HKe. symmetry. apply HKS. now apply in_map.
        + fold (Kf e). now rewrite HKe.
        + unfold keys_eqb. apply elems_equal_iff in Eq as (_ & A2 & A3). apply elems_equal_iff. simpl in *. auto. }
    assert (Hnames : names (Ph ++ Lk) = names a).
    { rewrite names_app. unfold Lk. rewrite LkK_names. symmetry. apply (ann_names Ph a Ha). }
    assert (Hlen : length (Ph ++ Lk) = length a).
    { rewrite <- (names_length (Ph ++ Lk)), Hnames. apply names_length. }
    assert (Hkeyed : keyfree (Ph ++ Lk) = false).
    { rewrite keyfree_app. destruct (LkK_form Ph a Ha Hd (Kf e)) as (e1 & e2 & _ & E1 & _).
      unfold Lk. rewrite E1. unfold keyfree at 2. simpl.
      assert (HKne : nil_b (Kf e) = false).
      { apply nil_b_false. intros E0. rewrite E0 in HKe. simpl in HKe. now symmetry in HKe. }
      rewrite HKne. simpl. now rewrite andb_false_r, andb_false_r. }
    destruct (msg_ok fx fs m IHe (Ph ++ Lk) (fc Lk vals) KL true) as (m' & Hm' & Heq); auto.
    - now rewrite Hnames.
    - rewrite Hlen. unfold supp_msg. rewrite Hlm, Nat.eqb_refl. exact Hzs.
    - rewrite Hkeyed. exact Hzg.
    - rewrite Hlen. exact Hch.
    - rewrite Hlen. intros pv r Hpv Hr. apply key_leaves_rels in Hpv.
      apply in_flat_map in Hr as (d' & Hd' & Hr).
      rewrite forallb_forall in Hkfor. specialize (Hkfor d' Hd').
      pose proof (foreign_rels_spec _ _ Hkfor _ _ Hpv Hr) as Hc. unfold comparable in Hc.
      apply orb_false_iff in Hc. tauto.
    - intros Et Ek. exists (key_rels (length a) ks). rewrite Hlen. split.
      + rewrite Et in Hg1. exact Hg1.
      + intros pv Hpv. exists (names (fst pv)). split; [now apply key_leaves_rels in Hpv | apply nprefix_refl].
    - apply ffp_msg_inv in Hm' as [Hm1 _]; auto.
      exists m'. split; [|exists m; auto].
      unfold body, kp, kpf. simpl. fold Lk.
      rewrite find_children_all by auto. simpl.
      pose proof (key_fields_rt (names a) ks Hkd HNM (fst e) [] Hko) as Hkf. simpl in Hkf.
      fold (Kf e). unfold Kf at 1. rewrite Hkf by (intros k0 []). simpl.
      rewrite find_children_direct by auto. simpl. rewrite Hm1. simpl.
      unfold Kf. now rewrite (keys_all_mapped_ok (names a) ks (fst e) Hkd Hko). }
  destruct (mapM_entries body kp es Hbody) as (es'' & Hes'' & Hall'').
  destruct (mapM_perm body _ _ Hseen _ Hes'') as (es' & Hes' & Hp').
  exists (VList es'). split.
  - simpl. simpl in Hdp. rewrite Hdp. simpl. rewrite Hlk. simpl. fold body. rewrite Hes'. simpl.
    unfold mk_list. destruct es' as [|x es']; auto.
    apply Permutation_nil in Hp'. subst es''. inversion Hall''. subst. contradiction.
  - econstructor; eauto.
Qed.

Theorem field_ok_all fx : forall v, field_ok fx v.
Proof.
  induction v using fval_ind'.
  - apply field_unset.
  - now apply field_leaf_cases.
  - now apply field_leaf_cases.
  - now apply field_leaf_cases.
  - now apply field_leaf_cases.
  - now apply field_container.
  - now apply field_list.
Qed.

(* (B) ProtoFromPaths on a blank message, for ANY iteration order of the path map *)
Theorem ffp_roundtrip fx ds m vals :
  wf_fields [] ds = true -> supp_msg 0 ds m = true -> guard_msg fx false ds m = true ->
  Permutation vals (rel_paths_msg 0 ds m) ->
  exists m', proto_from_paths fx ds vals [] [] false = Ok m' /\ msg_equiv m' m.
Proof.
  intros Hwf Hs Hg Hperm. unfold proto_from_paths. simpl.
  apply (msg_ok fx ds m) with (extras := []); auto.
  - apply Forall_forall. intros v _. apply field_ok_all.
  - constructor.
  - now rewrite app_nil_r.
  - intros pv r [].
  - intros _ Ek. discriminate.
Qed.

Theorem roundtrip fx ds m :
  wf_fields [] ds = true -> supp_msg 0 ds m = true -> guard_msg fx false ds m = true ->
  exists paths, paths_from_proto ds m = Ok paths /\
    forall vals, Permutation vals paths ->
      exists m', proto_from_paths fx ds vals [] [] false = Ok m' /\ msg_equiv m' m.
Proof.
  intros Hwf Hs Hg. exists (rel_paths_msg 0 ds m). split.
  - now apply paths_from_proto_spec.
  - intros vals Hp. now apply ffp_roundtrip.
Qed.

(* ---------- every emitted path, keys stripped, is an annotation ---------- *)

Lemma schema_app a b : schema (a ++ b) = schema a ++ schema b.
Proof. apply map_app. Qed.

Lemma firstn_prefix {A} n (P x : list A) : (n <= length P)%nat -> firstn n (P ++ x) = firstn n P.
Proof.
  intros H. rewrite firstn_app. replace (n - length P)%nat with 0%nat by lia. simpl. apply app_nil_r.
Qed.

Lemma schema_ctx C n P a : ann_ok P a = true -> (n <= length P)%nat -> length C = n ->
  names C = firstn n P -> schema (C ++ skipn n a) = a.
Proof.
  intros Ha Hn Hl Hc. apply ann_ok_parts in Ha as (Hk & Hp & Hlt).
  rewrite schema_app. rewrite (schema_id (skipn n a)) by now apply keyfree_skipn.
  rewrite <- (firstn_skipn n a) at 2. f_equal.
  apply keyfree_names_eq.
  - apply schema_keyfree.
  - unfold keyfree in *. rewrite forallb_forall in *. intros x Hx. apply Hk. eapply firstn_In; eauto.
  - rewrite schema_names, Hc, firstn_names. apply nprefix_iff in Hp as [c ->]. now rewrite firstn_prefix.
Qed.

Lemma anns_of_own d a : In a (fann d) -> In a (anns_of d).
Proof. destruct d as [nm anns oneof k]. simpl. intros H. apply in_or_app. now left. Qed.

Lemma key_leaves_annotated L C ks : forallb (kd_ok L) ks = true -> length C = length L ->
  names C = firstn (length L) L ->
  forall kvs y w, In (y, w) (key_leaves (length L) ks kvs) -> In (schema (C ++ y)) (flat_map kd_ann ks).
Proof.
  intros Hkd HlC HnC. induction ks as [|kd ks IH]; intros kvs y w Hy.
  - destruct kvs as [|[sv|] kvs]; simpl in Hy; contradiction.
  - simpl in Hkd. apply andb_prop in Hkd as [Hk1 Hk2]. simpl. apply in_or_app.
    destruct kvs as [|[sv|] kvs]; simpl in Hy; [contradiction| |right; eapply IH; eauto].
    apply in_app_or in Hy as [Hy|Hy]; [left|right; eapply IH; eauto].
    apply in_map_iff in Hy as (ka & E & Hka). injection E as <- _.
    apply kd_ok_parts in Hk1 as (_ & _ & Hann & _). destruct (Hann ka Hka) as [Hok _].
    rewrite (schema_ctx C (length L) L ka); auto.
Qed.

Lemma rel_paths_annotated : forall v d n P C,
  wf_field P d = true -> supp_field (length P) d v = true -> (n <= length P)%nat ->
  length C = n -> names C = firstn n P ->
  forall pv, In pv (rel_paths n d v) -> In (schema (C ++ fst pv)) (anns_of d).
Proof.
  induction v as [|w|sv|vs|es|m IHm|es IHes] using fval_ind'; intros d n P C Hwf Hs Hn Hl Hc pv Hin;
    try (simpl in Hin; contradiction).
  all: assert (Eo : foneof d = false) by (eapply supp_set_not_oneof; eauto; discriminate);
    destruct (wf_field_parts _ _ Hwf Eo) as [Hne Hann].
  1-4: destruct (rel_paths_shape _ d n P Hwf Hs Hn pv Hin) as (a & r & Ha & _ & Hleaf & _);
    apply anns_of_own;
    assert (Hlk : leaf_kind (fkindof d) = true)
      by (destruct d as [nm anns oneof k]; simpl in Hs; destruct oneof; [discriminate|]; simpl in Hs;
          destruct k; try discriminate; try reflexivity; try (destruct sv; discriminate));
    replace (fst pv) with (skipn n a) by (symmetry; exact (Hleaf Hlk));
    rewrite (schema_ctx C n P a); auto.
  - (* container *)
    destruct d as [nm anns oneof k]. simpl in Eo, Hne, Hann. subst oneof. simpl in Hs.
    destruct k; try discriminate. destruct anns as [|a [|]]; try discriminate. simpl in Hs, Hin.
    rewrite !andb_true_iff in Hs. destruct Hs as [[[Hwfs _] Hz] _].
    unfold wf_fields in Hwfs. apply andb_prop in Hwfs as [Hwfs _]. rewrite forallb_forall in Hwfs.
    pose proof (Hann a (or_introl eq_refl)) as Ha. pose proof Ha as Ha'. apply ann_ok_parts in Ha' as (_ & Hp & Hlt).
    destruct (zipcat_in _ _ _ _ _ Hin Hz) as (d' & v' & Hd' & Hv' & Hq & Hpv).
    rewrite Forall_forall in IHm. rewrite <- (names_length a) in Hq.
    simpl. right. apply in_flat_map. exists d'. split; auto.
    apply (IHm v' Hv' d' n (names a) C); auto.
    + rewrite names_length. lia.
    + rewrite Hc. apply nprefix_iff in Hp as [c ->]. now rewrite firstn_prefix.
  - (* keyed list *)
    destruct d as [nm anns oneof k]. simpl in Eo, Hne, Hann. subst oneof. simpl in Hs.
    destruct k; try discriminate. destruct anns as [|a [|]]; try discriminate. simpl in Hs, Hin.
    rewrite !andb_true_iff in Hs.
    destruct Hs as [[[[[[[[Hd Hwfs] _] _] Hkd] _] _] _] Hents].
    apply Nat.eqb_eq in Hd.
    unfold wf_fields in Hwfs. apply andb_prop in Hwfs as [Hwfs _]. rewrite forallb_forall in Hwfs.
    pose proof (Hann a (or_introl eq_refl)) as Ha. pose proof Ha as Ha'. apply ann_ok_parts in Ha' as (_ & Hp & Hlt).
    apply in_flat_map in Hin as ([kvs mem] & He & Hin).
    unfold prep in Hin. apply in_map_iff in Hin as ([y w] & <- & Hy). simpl fst.
    set (Lk := set_last_keys (skipn n a) (key_map ks kvs)) in *.
    assert (HlC : length (C ++ Lk) = length a).
    { unfold Lk. rewrite app_length, set_last_keys_length, skipn_length. lia. }
    assert (HnC : names (C ++ Lk) = firstn (length a) (names a)).
    { rewrite names_app. unfold Lk. rewrite set_last_keys_names, names_skipn, Hc.
      rewrite <- (names_length a), firstn_all.
      apply nprefix_iff in Hp as [c Ec]. rewrite Ec. rewrite <- (firstn_prefix n P c) by auto.
      apply firstn_skipn. }
    rewrite app_assoc. simpl. right. apply in_or_app.
    apply in_app_or in Hy as [Hy|Hy].
    + left. rewrite <- (names_length a) in Hy, HlC, HnC.
      apply (key_leaves_annotated (names a) (C ++ Lk) ks Hkd HlC HnC kvs y w Hy).
    + right. rewrite forallb_forall in Hents. specialize (Hents _ He). simpl in Hents.
      apply andb_prop in Hents as [_ Hmem]. destruct mem as [m|]; [|contradiction].
      apply andb_prop in Hmem as [_ Hz].
      destruct (zipcat_in _ _ _ _ _ Hy Hz) as (d' & v' & Hd' & Hv' & Hq & Hpv).
      rewrite Forall_forall in IHes. specialize (IHes _ He). unfold PE, opt_all in IHes. simpl in IHes.
      rewrite Forall_forall in IHes. rewrite <- (names_length a) in Hq.
      apply in_flat_map. exists d'. split; auto.
      apply (IHes v' Hv' d' (length a) (names a) (C ++ Lk) (Hwfs d' Hd') Hq) with (pv := (y, w)); auto.
      now rewrite names_length.
Qed.

Theorem paths_annotated ds m paths : wf_fields [] ds = true -> supp_msg 0 ds m = true ->
  paths_from_proto ds m = Ok paths ->
  forall pv, In pv paths -> In (schema (fst pv)) (all_anns ds).
Proof.
  intros Hwf Hs Hp pv Hin. rewrite (paths_from_proto_spec ds m Hwf Hs) in Hp. injection Hp as <-.
  unfold wf_fields in Hwf. apply andb_prop in Hwf as [Hwf _]. rewrite forallb_forall in Hwf.
  unfold supp_msg in Hs. apply andb_prop in Hs as [_ Hs].
  destruct (zipcat_in _ _ _ _ _ Hin Hs) as (d & v & Hd & Hv & Hq & Hpv).
  unfold all_anns. apply in_flat_map. exists d. split; auto.
  apply (rel_paths_annotated v d 0 [] [] (Hwf d Hd) Hq (le_n _) eq_refl eq_refl pv Hpv).
Qed.
