(* ProtoMap.v — transcription of protomap/proto.go at the level of an abstract ygen protobuf
   message: PathsFromProto (pathsFromProtoInternal, parseField, parseList, parseListField,
   leaflistVals, leaflistUnionVals, resolvedPath) and ProtoFromPaths (findChildren,
   protoFromPathsInternal, createListField, listKeyAsProtoValue, makeWrapper,
   makeSimpleLeafList, makeUnionLeafList, enumValue).

   A message descriptor is a list of field descriptors (index order = declaration order, the
   order of unpopRange); a message value is the list of its field values in the same order.
   Go's dynamic value types are explicit (pval): the defects this property is about are type
   mismatches between what one direction emits and what the other accepts.
   A Go map[*gpb.Path]interface{} is a list of bindings in iteration order (pointer keys:
   equal paths may occur twice).  The key map of a PathElem is an association list without
   duplicate names; all comparisons go through look-ups (PathRel.elems_equal), so the order of
   the bindings is immaterial.
   Not modelled: gNMI TypedValue inputs of ProtoFromPaths, map fields, missing/unparsable
   schemapath annotations (the translator parses them with ygot.StringToStructuredPath, C08),
   a non-blank target message.  Definitions only; proofs are in ProtoMapProofs.v. *)
From Coq Require Import Permutation.
From Ygot Require Import Base.Base Path.PathString Path.PathRel Scalar.Dec.

(* ---------- descriptors ---------- *)

Inductive wkind := WString | WUint | WBytes | WBool | WInt | WDecimal.      (* ywrapper.*Value *)
Definition enumtbl := list (N * str).      (* enum value number -> yext.yang_name ("" = none) *)
Inductive skind := SString | SUint64 | SUint32 | SBool | SFloat | SEnum (t : enumtbl).

Record kdesc := { kd_ann : list gpath; kd_kind : skind; kd_oneof : bool }.

Inductive fkind :=
| KWrap (w : wkind)                 (* ywrapper message field *)
| KScalar (s : skind)               (* plain scalar / enum field *)
| KLeafList (w : wkind)             (* repeated wrapper, (yext.leaflist) = true *)
| KUnion (ms : list skind)          (* repeated union message, (yext.leaflistunion) = true *)
| KMsg (fs : list fdesc)            (* child message (YANG container) *)
| KList (ks : list kdesc) (fs : list fdesc)   (* repeated XKey message: key fields + member *)
with fdesc :=
| FD (name : str) (ann : list gpath) (oneof : bool) (k : fkind).

Definition fname (d : fdesc) := match d with FD n _ _ _ => n end.
Definition fann (d : fdesc) := match d with FD _ a _ _ => a end.
Definition foneof (d : fdesc) := match d with FD _ _ o _ => o end.
Definition fkindof (d : fdesc) := match d with FD _ _ _ k => k end.

(* ---------- message values ---------- *)

Inductive wval := WVString (s : str) | WVUint (n : N) | WVBytes (b : list N) | WVBool (b : bool)
                | WVInt (z : Z) | WVDecimal.
Inductive sval := SVString (s : str) | SVUint64 (n : N) | SVUint32 (n : N) | SVBool (b : bool)
                | SVFloat | SVEnum (n : N).

Inductive fval :=
| VUnset                                     (* not populated (nil message, zero scalar, empty repeated) *)
| VWrap (v : wval)
| VScalar (v : sval)                         (* populated plain scalar / enum *)
| VLeafList (vs : list wval)
| VUnion (es : list (list (nat * sval)))     (* per element: its populated members (field index, value) *)
| VMsg (m : list fval)
| VList (es : list (list (option sval) * option (list fval))).   (* key values (None = unset oneof member), member *)
Definition msg := list fval.

(* ---------- Go dynamic values ---------- *)

Inductive pval :=
| PVString (s : str) | PVUint64 (n : N) | PVUint (n : N) | PVUint32 (n : N) | PVBytes (b : list N)
| PVBool (b : bool) | PVInt64 (z : Z) | PVEnumNum (n : N) | PVFloat | PVNil
| PVSlice (l : list pval)                        (* []interface{} *)
| PVStrings (l : list str) | PVUint64s (l : list N) | PVBools (l : list bool)
| PVInt64s (l : list Z) | PVBytess (l : list (list N)).   (* []string, []uint64, []bool, []int64, [][]byte *)

Definition pvals := list (gpath * pval).

(* which repairs of proto.go are in force (all false = the code as it is) *)
Record fixes := { fx_uint : bool;       (* makeWrapper accepts uint64/uint32 for a UintValue *)
                  fx_leaflist : bool;   (* makeSimpleLeafList accepts []interface{} *)
                  fx_trim : bool }.     (* child-container prefix trimmed by schemaPath(protoPrefix) *)
Definition nofix : fixes := {| fx_uint := false; fx_leaflist := false; fx_trim := false |}.
Definition allfix : fixes := {| fx_uint := true; fx_leaflist := true; fx_trim := true |}.

(* ---------- small helpers ---------- *)

Definition lastn {A} (l : list A) : option A := nth_error l (length l - 1).
Definition schema (p : gpath) : gpath := map (fun e => {| ename := ename e; ekeys := [] |}) p.
(* util.PathMatchesPathElemPrefix, origins empty *)
Definition prefix_match (path pre : gpath) : bool :=
  if Nat.ltb (length path) (length pre) then false else elems_prefix pre path.
(* util.TrimGNMIPathElemPrefix *)
Definition trim_prefix (path pre : gpath) : gpath :=
  if prefix_match path pre then skipn (length pre) path else path.
(* proto.Equal on two paths *)
Definition path_eqb (a b : gpath) : bool := Nat.eqb (length a) (length b) && elems_prefix a b.
(* reflect.DeepEqual on two non-empty key maps *)
Definition keys_eqb (a b : list (str * str)) : bool :=
  elems_equal {| ename := []; ekeys := a |} {| ename := []; ekeys := b |}.
(* m[k] = v on a Go map *)
Fixpoint set_key (k v : str) (l : list (str * str)) : list (str * str) :=
  match l with
  | [] => [(k, v)]
  | (k', v') :: t => if str_eqb k k' then (k, v) :: t else (k', v') :: set_key k v t
  end.
Definition set_keys (ks acc : list (str * str)) : list (str * str) :=
  fold_left (fun a kv => set_key (fst kv) (snd kv) a) ks acc.
Fixpoint set_last_keys (p : gpath) (ks : list (str * str)) : gpath :=
  match p with
  | [] => []
  | [e] => [{| ename := ename e; ekeys := ks |}]
  | e :: t => e :: set_last_keys t ks
  end.

Definition enum_name (t : enumtbl) (n : N) : option str :=
  option_map snd (find (fun e => fst e =? n) t).
(* enumValue's evals map: the last value carrying the name wins *)
Definition enum_number (t : enumtbl) (s : str) : option N :=
  fold_left (fun acc e => if negb (nil_b (snd e)) && str_eqb (snd e) s then Some (fst e) else acc) t None.

Definition TRUE_S : str := [116;114;117;101].
Definition FALSE_S : str := [102;97;108;115;101].
Definition CONFIG : str := [99;111;110;102;105;103].
Definition STATE : str := [115;116;97;116;101].
Definition U64MAX : Z := 18446744073709551615%Z.

(* ================= PathsFromProto ================= *)

(* resolvedPath *)
Definition resolved (base ann : gpath) : result gpath :=
  if nil_b base then Ok ann
  else if Nat.ltb (length ann) (length base) then Panic
  else Ok (base ++ skipn (length base) ann).

Definition emit (base : gpath) (anns : list gpath) (v : pval) : result pvals :=
  mapM (fun a => bind (resolved base a) (fun p => Ok (p, v))) anns.

Definition wval_pv (v : wval) : result pval :=
  match v with
  | WVString s => Ok (PVString s) | WVUint n => Ok (PVUint64 n) | WVBytes b => Ok (PVBytes b)
  | WVBool b => Ok (PVBool b) | WVInt z => Ok (PVInt64 z) | WVDecimal => Err
  end.

(* v.Interface() of a scalar field; enums go through the yang_name annotation *)
Definition sval_pv (k : skind) (v : sval) : result pval :=
  match v with
  | SVString s => Ok (PVString s) | SVUint64 n => Ok (PVUint64 n) | SVUint32 n => Ok (PVUint32 n)
  | SVBool b => Ok (PVBool b) | SVFloat => Ok PVFloat
  | SVEnum n => match k with
                | SEnum t => match enum_name t n with Some s => Ok (PVString s) | None => Panic end
                | _ => Err
                end
  end.

(* one element of a leaf-list of unions (leaflistUnionVals, the Range callback) *)
Fixpoint union_elem (ms : list skind) (e : list (nat * sval)) (llv : option pval) : result pval :=
  match e with
  | [] => Ok (match llv with Some v => v | None => PVNil end)
  | (i, sv) :: e' =>
      match llv with
      | Some _ => Err                                   (* multiple populated fields *)
      | None =>
          match sv with
          | SVBool b => union_elem ms e' (Some (PVBool b))
          | SVString s => union_elem ms e' (Some (PVString s))
          | SVUint64 n => union_elem ms e' (Some (PVUint64 n))
          | SVEnum n =>
              match nth_error ms i with
              | Some (SEnum t) =>
                  match enum_name t n with
                  | None => Panic
                  | Some s => if nil_b s then Err else union_elem ms e' (Some (PVString s))
                  end
              | _ => Err
              end
          | SVUint32 _ | SVFloat => Err                  (* unsupported kind *)
          end
      end
  end.

(* ygot.KeyValueAsString on the Go value of a key field *)
Definition key_string (v : sval) : result str :=
  match v with
  | SVString s => Ok s
  | SVUint64 n | SVUint32 n | SVEnum n => Ok (dec_of_N n)
  | SVBool b => Ok (if b then TRUE_S else FALSE_S)
  | SVFloat => Err
  end.
(* v.Interface() of a key field *)
Definition key_pv (v : sval) : pval :=
  match v with
  | SVString s => PVString s | SVUint64 n => PVUint64 n | SVUint32 n => PVUint32 n
  | SVBool b => PVBool b | SVFloat => PVFloat | SVEnum n => PVEnumNum n
  end.

(* fieldName + the "leaf names match" loop of parseListField *)
Fixpoint key_name (anns : list gpath) (cur : str) : result str :=
  match anns with
  | [] => Ok cur
  | p :: t =>
      match lastn p with
      | None => Err
      | Some e => if nil_b (ename e) then Err
                  else if nil_b cur then key_name t (ename e)
                  else if str_eqb (ename e) cur then key_name t cur else Err
      end
  end.

(* parseListField over the key fields of one XKey message: the key map and the mapped values *)
Fixpoint parse_keys (listPath : gpath) (ks : list kdesc) (vs : list (option sval))
  : result (list (str * str) * pvals) :=
  match ks, vs with
  | kd :: ks', ov :: vs' =>
      match ov with
      | None => parse_keys listPath ks' vs'
      | Some sv =>
          if nil_b (kd_ann kd) then Err else
          bind (key_name (kd_ann kd) []) (fun kn =>
          bind (key_string sv) (fun kv =>
          bind (emit listPath (kd_ann kd) (key_pv sv)) (fun mv =>
          bind (parse_keys listPath ks' vs') (fun r =>
          Ok ((kn, kv) :: fst r, mv ++ snd r)))))
      end
  | _, _ => Ok ([], [])
  end.

Definition concatM {A B} (f : A -> result (list B)) (l : list A) : result (list B) :=
  bind (mapM f l) (fun r => Ok (concat r)).

Fixpoint zipM {A B C} (f : A -> B -> result (list C)) (a : list A) (b : list B) : result (list C) :=
  match a, b with
  | x :: a', y :: b' => bind (f x y) (fun r => bind (zipM f a' b') (fun r' => Ok (r ++ r')))
  | _, _ => Ok []
  end.

(* zip a descriptor list with a value list (recursion on the values) *)
Definition zipMv {C} (f : fdesc -> fval -> result (list C)) : list fdesc -> list fval -> result (list C) :=
  fix go (ds : list fdesc) (ms : list fval) {struct ms} : result (list C) :=
    match ds, ms with
    | d :: ds', v :: ms' => bind (f d v) (fun a => bind (go ds' ms') (fun b => Ok (a ++ b)))
    | _, _ => Ok []
    end.

(* the loop of parseList over the entries of a keyed list.  acc is the key map of listPath's
   last element: it persists across iterations because resolvedPath appends the annotation's
   PathElem pointers without cloning them.  pf = pathsFromProtoInternal on the member. *)
Definition pfp_entries (pf : gpath -> list fval -> result pvals) (base lp : gpath) (ks : list kdesc)
  : list (str * str) -> list (list (option sval) * option (list fval)) -> result pvals :=
  fix go (acc : list (str * str)) (es : list (list (option sval) * option (list fval))) {struct es}
    : result pvals :=
  match es with
  | [] => Ok []
  | (kvs, mem) :: es' =>
      bind (parse_keys lp ks kvs) (fun kr =>
      match mem with
      | None => Err                                           (* nil list member *)
      | Some m =>
          bind (resolved base lp) (fun p0 =>
          let start := if Nat.ltb (length base) (length lp) then acc
                       else match lastn p0 with Some x => ekeys x | None => [] end in
          let keys := set_keys (fst kr) start in
          if nil_b p0 && negb (nil_b (fst kr)) then Panic else
          let p := set_last_keys p0 keys in
          bind (concatM (fun pv => bind (resolved p (fst pv)) (fun q => Ok [(q, snd pv)])) (snd kr)) (fun kvals =>
          bind (pf p m) (fun mvals =>
          bind (go keys es') (fun rest =>
          Ok (kvals ++ mvals ++ rest)))))
      end)
  end.

(* parseField / parseList on one populated field *)
Fixpoint pfp_field (base : gpath) (d : fdesc) (v : fval) {struct v} : result pvals :=
  let anns := fann d in
  match v with
  | VUnset => Ok []
  | VWrap w => if nil_b anns then Err else bind (wval_pv w) (fun pv => emit base anns pv)
  | VScalar sv =>
      if nil_b anns then Err else
      match fkindof d with
      | KScalar k => bind (sval_pv k sv) (fun pv => emit base anns pv)
      | _ => Err
      end
  | VLeafList vs =>
      if nil_b anns then Err else
      match anns, vs with
      | _, [] => Ok []
      | [lp], _ => bind (mapM wval_pv vs) (fun l => bind (resolved base lp) (fun p => Ok [(p, PVSlice l)]))
      | _, _ => Err
      end
  | VUnion es =>
      if nil_b anns then Err else
      match anns, es, fkindof d with
      | _, [], _ => Ok []
      | [lp], _, KUnion ms =>
          bind (mapM (fun e => union_elem ms e None) es) (fun l =>
          bind (resolved base lp) (fun p => Ok [(p, PVSlice l)]))
      | _, _, _ => Err
      end
  | VMsg m =>
      if nil_b anns then Err else
      match anns, fkindof d with
      | [_], KMsg fs => zipMv (pfp_field base) fs m
      | _, _ => Err
      end
  | VList es =>
      if nil_b anns then Err else
      match anns, es, fkindof d with
      | _, [], _ => Ok []
      | [lp], _, KList ks fs =>
          pfp_entries (fun p m => zipMv (pfp_field p) fs m) base lp ks
                      (match lastn lp with Some e => ekeys e | None => [] end) es
      | _, _, _ => Err
      end
  end.

(* pathsFromProtoInternal *)
Definition pfp_msg (base : gpath) (ds : list fdesc) (m : msg) : result pvals := zipMv (pfp_field base) ds m.

(* PathsFromProto *)
Definition paths_from_proto (ds : list fdesc) (m : msg) : result pvals := pfp_msg [] ds m.

(* ================= ProtoFromPaths ================= *)

Definition is_direct (pp : gpath) : bool :=
  match pp with
  | [_] => true
  | [c; _] => str_eqb (ename c) CONFIG || str_eqb (ename c) STATE
  | _ => false
  end.

(* findChildren *)
Fixpoint find_children (vals : pvals) (vp pp : gpath) (directOnly must : bool) : result pvals :=
  match vals with
  | [] => Ok []
  | (p, v) :: t =>
      let abs := vp ++ p in
      if negb (prefix_match abs pp) then (if must then Err else find_children t vp pp directOnly must)
      else
        let rel := skipn (length pp) abs in
        bind (find_children t vp pp directOnly must) (fun r =>
        Ok (if directOnly then (if is_direct rel then (rel, v) :: r else r) else (rel, v) :: r))
  end.

Definition mk_enum (n : N) : fval := if n =? 0 then VUnset else VScalar (SVEnum n).
Definition mk_leaflist (l : list wval) : fval := if nil_b l then VUnset else VLeafList l.

(* enumValue (string inputs; TypedValue inputs are not modelled) *)
Definition enum_value (t : enumtbl) (v : pval) : result N :=
  match v with
  | PVString s => match enum_number t s with Some n => Ok n | None => Err end
  | _ => Err
  end.

(* makeWrapper: None = not a wrapper this function knows *)
Definition make_wrapper (fx : fixes) (w : wkind) (v : pval) : result (option wval) :=
  match w with
  | WString => match v with PVString s => Ok (Some (WVString s)) | _ => Err end
  | WUint => match v with
             | PVUint n => Ok (Some (WVUint n))
             | PVUint64 n | PVUint32 n => if fx_uint fx then Ok (Some (WVUint n)) else Err
             | _ => Err
             end
  | WBytes => match v with PVBytes b => Ok (Some (WVBytes b)) | _ => Err end
  | WBool | WInt | WDecimal => Ok None
  end.

(* one element of []interface{} for a repeated wrapper (only with the repair) *)
Definition slice_elem (w : wkind) (v : pval) : result wval :=
  match w, v with
  | WString, PVString s => Ok (WVString s)
  | WUint, PVUint64 n => Ok (WVUint n)
  | WBool, PVBool b => Ok (WVBool b)
  | WInt, PVInt64 z => Ok (WVInt z)
  | WBytes, PVBytes b => Ok (WVBytes b)
  | _, _ => Err
  end.

(* makeSimpleLeafList *)
Definition make_simple_leaf_list (fx : fixes) (w : wkind) (v : pval) : result fval :=
  match w, v with
  | WDecimal, _ => Err
  | WString, PVStrings l => Ok (mk_leaflist (map WVString l))
  | WUint, PVUint64s l => Ok (mk_leaflist (map WVUint l))
  | WBool, PVBools l => Ok (mk_leaflist (map WVBool l))
  | WInt, PVInt64s l => Ok (mk_leaflist (map WVInt l))
  | WBytes, PVBytess l => Ok (mk_leaflist (map WVBytes l))
  | _, PVSlice l => if fx_leaflist fx then bind (mapM (slice_elem w) l) (fun r => Ok (mk_leaflist r)) else Err
  | _, _ => Err
  end.

Definition sval_zero (v : sval) : bool :=
  match v with
  | SVString s => nil_b s | SVUint64 n | SVUint32 n | SVEnum n => n =? 0
  | SVBool b => negb b | SVFloat => false
  end.
Definition mk_elem (i : nat) (v : sval) : list (nat * sval) := if sval_zero v then [] else [(i, v)].

(* the unpopRange callback of makeUnionLeafList for one []interface{} element: the member
   fields are visited in index order until one takes the value *)
Fixpoint union_set (ms : list skind) (i : nat) (v : pval) : result (list (nat * sval)) :=
  match ms with
  | [] => Err                                              (* !handled *)
  | k :: ms' =>
      match v with
      | PVString s =>
          match k with
          | SString => Ok (mk_elem i (SVString s))
          | SEnum t => bind (enum_value t v) (fun n => Ok (mk_elem i (SVEnum n)))
          | _ => union_set ms' (S i) v
          end
      | PVUint64 n => match k with SUint64 => Ok (mk_elem i (SVUint64 n)) | _ => union_set ms' (S i) v end
      | PVBool b => match k with SBool => Ok (mk_elem i (SVBool b)) | _ => union_set ms' (S i) v end
      | _ => Err                                           (* unhandled type for union *)
      end
  end.

Definition mk_union (l : list (list (nat * sval))) : fval := if nil_b l then VUnset else VUnion l.

(* makeUnionLeafList *)
Definition make_union_leaf_list (ms : list skind) (v : pval) : result fval :=
  match v with
  | PVSlice l => bind (mapM (union_set ms 0) l) (fun r => Ok (mk_union r))
  | PVStrings [] | PVUint64s [] | PVBools [] | PVInt64s [] | PVBytess [] | PVBytes [] => Ok VUnset
  | _ => Err
  end.

(* the value a direct child gives to field d (the switch on fd.Kind() in protoFromPathsInternal) *)
Definition set_from (fx : fixes) (k : fkind) (cur : fval) (v : pval) : result fval :=
  match k with
  | KLeafList w => make_simple_leaf_list fx w v
  | KUnion ms => make_union_leaf_list ms v
  | KWrap w => bind (make_wrapper fx w v) (fun o => Ok (match o with Some x => VWrap x | None => cur end))
  | KMsg _ => Ok cur
  | KList _ _ => Err                                        (* makeWrapper on a repeated field *)
  | KScalar (SEnum t) => bind (enum_value t v) (fun n => Ok (mk_enum n))
  | KScalar _ => Err                                        (* unknown field kind *)
  end.

(* does a successful visit of field d mark the direct child chp as mapped? *)
Definition maps_kind (k : fkind) : bool :=
  match k with
  | KLeafList _ | KUnion _ => true
  | KWrap (WString | WUint | WBytes) => true
  | KScalar (SEnum _) => true
  | _ => false
  end.

Definition direct_step (fx : fixes) (pp : gpath) (k : fkind) (direct : pvals) (cur : fval) (ap : gpath)
  : result fval :=
  if negb (prefix_match ap (schema pp)) then Err
  else
    let tap := trim_prefix ap (schema pp) in
    fold_left (fun acc ch => bind acc (fun c =>
                 if path_eqb tap (fst ch) then set_from fx k c (snd ch) else Ok c)) direct (Ok cur).

Definition direct_pass (fx : fixes) (pp : gpath) (d : fdesc) (direct : pvals) : result fval :=
  if nil_b direct then Ok VUnset
  else fold_left (fun acc ap => bind acc (fun c => direct_step fx pp (fkindof d) direct c ap)) (fann d) (Ok VUnset).

Definition maps_path (pp : gpath) (d : fdesc) (chp : gpath) : bool :=
  negb (foneof d) && maps_kind (fkindof d) &&
  existsb (fun ap => path_eqb (trim_prefix ap (schema pp)) chp) (fann d).

(* listKeyAsProtoValue *)
Definition list_key_value (k : skind) (s : str) : result sval :=
  match k with
  | SUint64 => match parse_uint_range U64MAX s with Some z => Ok (SVUint64 (Z.to_N z)) | None => Err end
  | SString => Ok (SVString s)
  | _ => Err
  end.

(* first loop of createListField: the distinct key maps, in first-occurrence order *)
Fixpoint list_keys (vals : pvals) (vp pp fieldPath : gpath)
    (seen : list (list (str * str) * gpath)) : result (list (list (str * str) * gpath)) :=
  match vals with
  | [] => Ok seen
  | (p, _) :: t =>
      let abs := vp ++ p in
      if negb (prefix_match (schema abs) (schema fieldPath)) then list_keys t vp pp fieldPath seen
      else
        if nil_b fieldPath then Panic                        (* index -1 *)
        else
          match nth_error abs (length fieldPath - 1) with
          | None => Panic
          | Some k =>
              if nil_b (ekeys k) then Err
              else if Nat.ltb (length abs) (length pp + 2) then Panic
              else
                let keyPath := pp ++ firstn 2 (skipn (length pp) abs) in
                if existsb (fun s => keys_eqb (fst s) (ekeys k)) seen
                then list_keys t vp pp fieldPath seen
                else list_keys t vp pp fieldPath (seen ++ [(ekeys k, keyPath)])
          end
  end.

(* the non-message fields of the XKey message *)
Fixpoint key_fields (ks : list kdesc) (key : list (str * str)) : result (list (option sval)) :=
  match ks with
  | [] => Ok []
  | kd :: ks' =>
      if kd_oneof kd then bind (key_fields ks' key) (fun r => Ok (None :: r))
      else
        match kd_ann kd with
        | [] => Err
        | p :: _ =>
            match lastn p with
            | None => Panic
            | Some e =>
                match al_find (ename e) key with
                | None => Err
                | Some s =>
                    bind (list_key_value (kd_kind kd) s) (fun v =>
                    bind (key_fields ks' key) (fun r => Ok (Some v :: r)))
                end
            end
        end
  end.
Definition key_field_name (kd : kdesc) : option str :=
  if kd_oneof kd then None
  else match kd_ann kd with p :: _ => option_map ename (lastn p) | [] => None end.
Definition keys_all_mapped (ks : list kdesc) (key : list (str * str)) : bool :=
  forallb (fun kv => existsb (fun kd => match key_field_name kd with
                                        | Some n => str_eqb n (fst kv) | None => false end) ks) key.

Definition mapMfields {A} (f : fdesc -> result A) : list fdesc -> result (list A) :=
  fix go (ds : list fdesc) : result (list A) :=
    match ds with
    | [] => Ok []
    | d :: ds' => bind (f d) (fun v => bind (go ds') (fun r => Ok (v :: r)))
    end.

Definition mk_list (l : list (list (option sval) * option (list fval))) : fval :=
  if nil_b l then VUnset else VList l.

(* one field of protoFromPathsInternal (the unpopRange callback).  direct = directCh. *)
Fixpoint ffp_field (fx : fixes) (vals : pvals) (vp pp : gpath) (ig : bool) (direct : pvals) (d : fdesc)
    {struct d} : result fval :=
  if foneof d then Ok VUnset                     (* unpopRange skips the members of a oneof *)
  else if nil_b (fann d) then Err
  else
    bind (direct_pass fx pp d direct) (fun r1 =>
    match d with
    | FD _ anns _ (KMsg fs) =>
        let a0 := match anns with a :: _ => a | [] => [] end in
        let np := vp ++ trim_prefix a0 (if fx_trim fx then schema pp else pp) in
        bind (find_children vals vp np false false) (fun children =>
        if nil_b children then Ok r1
        else
          bind (find_children children np np true true) (fun direct' =>
          bind (mapMfields (ffp_field fx children np np ig direct') fs) (fun m =>
          if ig || forallb (fun ch => existsb (fun d' => maps_path np d' (fst ch)) fs) direct'
          then Ok (VMsg m) else Err)))
    | FD _ anns _ (KList ks fs) =>
        let a0 := match anns with a :: _ => a | [] => [] end in
        bind (list_keys vals vp pp a0 []) (fun keys =>
        bind (mapM (fun kp =>
                bind (find_children vals vp (snd kp) false false) (fun ch =>
                bind (key_fields ks (fst kp)) (fun kvs =>
                bind (find_children ch (snd kp) (snd kp) true true) (fun direct' =>
                bind (mapMfields (ffp_field fx ch (snd kp) (snd kp) true direct') fs) (fun m =>
                if keys_all_mapped ks (fst kp) then Ok (kvs, Some m) else Err))))) keys) (fun es =>
        Ok (mk_list es)))
    | _ => Ok r1
    end).

(* protoFromPathsInternal on a blank message with field descriptors ds *)
Definition ffp_msg (fx : fixes) (ds : list fdesc) (vals : pvals) (vp pp : gpath) (ig : bool) : result msg :=
  bind (find_children vals vp pp true true) (fun direct =>
  bind (mapMfields (ffp_field fx vals vp pp ig direct) ds) (fun m =>
  if ig || forallb (fun ch => existsb (fun d => maps_path pp d (fst ch)) ds) direct then Ok m else Err)).

(* ProtoFromPaths(blank, vals, ValuePathPrefix(vp), ProtobufMessagePrefix(pp), [IgnoreExtraPaths]) *)
Definition proto_from_paths (fx : fixes) (ds : list fdesc) (vals : pvals) (vp pp : gpath) (ig : bool)
  : result msg := ffp_msg fx ds vals (schema vp) pp ig.

(* ================= the domain of the round-trip law ================= *)

Definition names (p : gpath) : list str := map ename p.
Fixpoint nprefix (a b : list str) : bool :=
  match a, b with
  | [], _ => true
  | x :: a', y :: b' => str_eqb x y && nprefix a' b'
  | _ :: _, [] => false
  end.
Definition comparable (a b : list str) : bool := nprefix a b || nprefix b a.
Definition keyfree (p : gpath) : bool := forallb (fun e => nil_b (ekeys e)) p.
Definition is_cs (c : str) : bool := str_eqb c CONFIG || str_eqb c STATE.
Definition direct_names (r : list str) : bool :=
  match r with [_] => true | [c; _] => is_cs c | _ => false end.
Definition cs_single (r : list str) : bool := match r with [c] => is_cs c | _ => false end.

(* annotation a of a field of a message whose schema prefix is P: key-free, below P *)
Definition ann_ok (P : list str) (a : gpath) : bool :=
  keyfree a && nprefix P (names a) && Nat.ltb (length P) (length a).
Definition rel (n : nat) (a : gpath) : list str := names (skipn n a).
Definition frels (n : nat) (d : fdesc) : list (list str) := if foneof d then [] else map (rel n) (fann d).
Definition foreign_rels (R R' : list (list str)) : bool :=
  forallb (fun r => forallb (fun r' => negb (comparable r r')) R') R.
Fixpoint pairwise {A} (f : A -> A -> bool) (l : list A) : bool :=
  match l with [] => true | x :: t => forallb (f x) t && pairwise f t end.
(* no relative annotation of a field is a prefix of one of another field *)
Definition sep_fields (n : nat) (fs : list fdesc) : bool :=
  pairwise (fun d d' => foreign_rels (frels n d) (frels n d')) fs.

(* well-formed (path-compressed) fields of a message with schema prefix P: leaves are annotated
   one element, or config|state + one element, below the message; a container anywhere below
   (but not as a bare config/state); no annotation of a field is a prefix of one of a sibling.
   The descriptors of child messages are examined where they are populated (supp_field). *)
Definition wf_field (P : list str) (d : fdesc) : bool :=
  match d with
  | FD _ anns oneof k =>
      oneof ||
      (negb (nil_b anns) && forallb (ann_ok P) anns &&
       match k with
       | KWrap _ | KScalar _ => forallb (fun a => direct_names (rel (length P) a)) anns
       | KLeafList _ | KUnion _ =>
           match anns with [a] => direct_names (rel (length P) a) | _ => false end
       | KMsg _ => match anns with [a] => negb (cs_single (rel (length P) a)) | _ => false end
       | KList _ _ => match anns with [_] => true | _ => false end
       end)
  end.
Definition wf_fields (P : list str) (fs : list fdesc) : bool :=
  forallb (wf_field P) fs && sep_fields (length P) fs.

(* ---- the paths a field emits, relative to its message (specification of PathsFromProto) ---- *)

Definition prep (p : gpath) (l : pvals) : pvals := map (fun pv => (p ++ fst pv, snd pv)) l.

Fixpoint key_map (ks : list kdesc) (vs : list (option sval)) : list (str * str) :=
  match ks, vs with
  | kd :: ks', Some sv :: vs' =>
      match key_name (kd_ann kd) [], key_string sv with
      | Ok kn, Ok kv => (kn, kv) :: key_map ks' vs'
      | _, _ => key_map ks' vs'
      end
  | _ :: ks', None :: vs' => key_map ks' vs'
  | _, _ => []
  end.
Fixpoint key_leaves (n : nat) (ks : list kdesc) (vs : list (option sval)) : pvals :=
  match ks, vs with
  | kd :: ks', Some sv :: vs' => map (fun a => (skipn n a, key_pv sv)) (kd_ann kd) ++ key_leaves n ks' vs'
  | _ :: ks', None :: vs' => key_leaves n ks' vs'
  | _, _ => []
  end.

Definition zipcat {C} (f : fdesc -> fval -> list C) : list fdesc -> list fval -> list C :=
  fix go (ds : list fdesc) (ms : list fval) {struct ms} : list C :=
    match ds, ms with
    | d :: ds', v :: ms' => f d v ++ go ds' ms'
    | _, _ => []
    end.
Definition zipand (f : fdesc -> fval -> bool) : list fdesc -> list fval -> bool :=
  fix go (ds : list fdesc) (ms : list fval) {struct ms} : bool :=
    match ds, ms with
    | d :: ds', v :: ms' => f d v && go ds' ms'
    | _, _ => true
    end.

Fixpoint rel_paths (n : nat) (d : fdesc) (v : fval) {struct v} : pvals :=
  match v with
  | VUnset => []
  | VWrap w => match wval_pv w with Ok pv => map (fun a => (skipn n a, pv)) (fann d) | _ => [] end
  | VScalar sv =>
      match fkindof d with
      | KScalar k => match sval_pv k sv with Ok pv => map (fun a => (skipn n a, pv)) (fann d) | _ => [] end
      | _ => []
      end
  | VLeafList vs =>
      match fann d, mapM wval_pv vs with [a], Ok l => [(skipn n a, PVSlice l)] | _, _ => [] end
  | VUnion es =>
      match fann d, fkindof d with
      | [a], KUnion ms =>
          match mapM (fun e => union_elem ms e None) es with Ok l => [(skipn n a, PVSlice l)] | _ => [] end
      | _, _ => []
      end
  | VMsg m =>
      match fkindof d with
      | KMsg fs => zipcat (rel_paths n) fs m
      | _ => []
      end
  | VList es =>
      match fann d, fkindof d with
      | [a], KList ks fs =>
          flat_map (fun e => let '(kvs, mem) := e in
            prep (set_last_keys (skipn n a) (key_map ks kvs))
                 (key_leaves (length a) ks kvs ++
                  match mem with
                  | Some m => zipcat (rel_paths (length a)) fs m
                  | None => []
                  end)) es
      | _, _ => []
      end
  end.
Definition rel_paths_msg (n : nat) (ds : list fdesc) (m : msg) : pvals := zipcat (rel_paths n) ds m.

(* ---- supported messages (the shapes the property statement lists) ---- *)

Definition wval_kind (v : wval) : wkind :=
  match v with
  | WVString _ => WString | WVUint _ => WUint | WVBytes _ => WBytes | WVBool _ => WBool
  | WVInt _ => WInt | WVDecimal => WDecimal
  end.
Definition wkind_eqb (a b : wkind) : bool :=
  match a, b with
  | WString, WString | WUint, WUint | WBytes, WBytes | WBool, WBool | WInt, WInt | WDecimal, WDecimal => true
  | _, _ => false
  end.
Definition leaf_wkind (k : wkind) : bool := match k with WString | WUint | WBytes => true | _ => false end.
Definition leaflist_wkind (k : wkind) : bool := match k with WDecimal => false | _ => true end.

(* a named enum value whose name denotes it *)
Definition enum_ok (t : enumtbl) (n : N) : bool :=
  negb (n =? 0) &&
  match enum_name t n with
  | Some s => negb (nil_b s) && match enum_number t s with Some n' => n' =? n | None => false end
  | None => false
  end.

(* a union element: exactly one non-zero member of a kind makeUnionLeafList handles *)
Definition union_member_ok (ms : list skind) (i : nat) (sv : sval) : bool :=
  negb (sval_zero sv) &&
  match nth_error ms i, sv with
  | Some SString, SVString _ | Some SUint64, SVUint64 _ | Some SBool, SVBool _ => true
  | Some (SEnum t), SVEnum n => enum_ok t n
  | _, _ => false
  end.
Definition union_elem_ok (ms : list skind) (e : list (nat * sval)) : bool :=
  match e with [(i, sv)] => union_member_ok ms i sv | _ => false end.
(* the member kinds that take the same Go values in makeUnionLeafList *)
Definition same_class (k : skind) (sv : sval) : bool :=
  match k, sv with
  | (SString | SEnum _), (SVString _ | SVEnum _) => true
  | SUint64, SVUint64 _ => true
  | SBool, SVBool _ => true
  | _, _ => false
  end.
(* no earlier member of the union message takes the value *)
Definition union_elem_unamb (ms : list skind) (e : list (nat * sval)) : bool :=
  match e with
  | [(i, sv)] => forallb (fun k => negb (same_class k sv)) (firstn i ms)
  | _ => false
  end.

Definition key_kind_ok (k : skind) (v : sval) : bool :=
  match k, v with
  | SString, SVString _ => true
  | SUint64, SVUint64 n => (Z.of_N n <=? U64MAX)%Z          (* a uint64 *)
  | _, _ => false
  end.
Definition kd_ok (L : list str) (kd : kdesc) : bool :=
  negb (kd_oneof kd) && negb (nil_b (kd_ann kd)) &&
  forallb (fun a => ann_ok L a && direct_names (rel (length L) a)) (kd_ann kd) &&
  match key_name (kd_ann kd) [] with Ok _ => true | _ => false end.
Definition kd_name (kd : kdesc) : str := match key_name (kd_ann kd) [] with Ok s => s | _ => [] end.
Fixpoint keys_ok (ks : list kdesc) (vs : list (option sval)) : bool :=
  match ks, vs with
  | [], [] => true
  | kd :: ks', Some sv :: vs' => key_kind_ok (kd_kind kd) sv && keys_ok ks' vs'
  | _, _ => false
  end.
Definition key_rels (n : nat) (ks : list kdesc) : list (list str) := flat_map (fun kd => map (rel n) (kd_ann kd)) ks.
Definition strs_eqb (a b : list str) : bool :=
  Nat.eqb (length a) (length b) && forallb (fun p => str_eqb (fst p) (snd p)) (combine a b).
Definition entry_key (ks : list kdesc) (e : list (option sval) * option (list fval)) : list str :=
  map snd (key_map ks (fst e)).

Fixpoint supp_field (n : nat) (d : fdesc) (v : fval) {struct v} : bool :=
  match v with
  | VUnset => true
  | _ => negb (foneof d) &&
    match v, fkindof d with
    | VWrap w, KWrap k => leaf_wkind k && wkind_eqb (wval_kind w) k
    | VScalar (SVEnum x), KScalar (SEnum t) => enum_ok t x
    | VLeafList vs, KLeafList k =>
        leaflist_wkind k && negb (nil_b vs) && forallb (fun w => wkind_eqb (wval_kind w) k) vs
    | VUnion es, KUnion ms => negb (nil_b es) && forallb (union_elem_ok ms) es
    | VMsg m, KMsg fs =>
        match fann d with
        | [a] =>
            wf_fields (names a) fs &&
            Nat.eqb (length m) (length fs) &&
            zipand (supp_field (length a)) fs m &&
            negb (nil_b (rel_paths 0 d v))                      (* a set container holds data *)
        | _ => false
        end
    | VList es, KList ks fs =>
        match fann d with
        | [a] =>
            Nat.eqb (length a) (n + 2) &&                       (* path compression: container/list *)
            wf_fields (names a) fs &&
            negb (nil_b es) && negb (nil_b ks) &&
            forallb (kd_ok (names a)) ks &&
            pairwise (fun k k' => negb (str_eqb (kd_name k) (kd_name k'))) ks &&
            forallb (fun d' => foreign_rels (key_rels (length a) ks) (frels (length a) d')) fs &&
            pairwise (fun e e' => negb (strs_eqb (entry_key ks e) (entry_key ks e'))) es &&
            forallb (fun e => let '(kvs, mem) := e in
                keys_ok ks kvs &&
                match mem with
                | Some m => Nat.eqb (length m) (length fs) && zipand (supp_field (length a)) fs m
                | None => false
                end) es
        | _ => false
        end
    | _, _ => false
    end
  end.
Definition supp_msg (n : nat) (ds : list fdesc) (m : msg) : bool :=
  Nat.eqb (length m) (length ds) && zipand (supp_field n) ds m.

(* ---- what the code as it is (fx) additionally needs ---- *)

(* below a list entry and without fx_trim, the prefix of a child container is the entry's data
   path followed by the whole annotation; no path of the entry may happen to lie below it *)
Definition embed_free (n : nat) (xr : list (list str)) (ds : list fdesc) : bool :=
  forallb (fun d => match d with
                    | FD _ [a] false (KMsg _) =>
                        forallb (fun r' => negb (comparable (names a) r')) (xr ++ flat_map (frels n) ds)
                    | _ => true
                    end) ds.

Fixpoint guard_field (fx : fixes) (keyed : bool) (d : fdesc) (v : fval) {struct v} : bool :=
  match v with
  | VWrap (WVUint _) => fx_uint fx
  | VLeafList _ => fx_leaflist fx
  | VUnion es => match fkindof d with KUnion ms => forallb (union_elem_unamb ms) es | _ => false end
  | VMsg m =>
      (negb keyed || fx_trim fx) &&
      match d with
      | FD _ [a] _ (KMsg fs) =>
          (negb keyed || embed_free (length a) [] fs) && zipand (guard_field fx keyed) fs m
      | _ => false
      end
  | VList es =>
      match d with
      | FD _ [a] _ (KList ks fs) =>
          (fx_trim fx || embed_free (length a) (key_rels (length a) ks) fs) &&
          forallb (fun e => let '(_, mem) := e in
                            match mem with
                            | Some m => zipand (guard_field fx true) fs m
                            | None => false
                            end) es
      | _ => false
      end
  | _ => true
  end.
Definition guard_msg (fx : fixes) (keyed : bool) (ds : list fdesc) (m : msg) : bool :=
  zipand (guard_field fx keyed) ds m.

(* ---- equality of messages up to the order of keyed-list entries ---- *)

Inductive feqv : fval -> fval -> Prop :=
| EqvLeaf v : match v with VMsg _ | VList _ => False | _ => True end -> feqv v v
| EqvMsg m m' : Forall2 feqv m m' -> feqv (VMsg m) (VMsg m')
| EqvList es es' es'' : Permutation es es'' -> Forall2 eeqv es'' es' -> feqv (VList es) (VList es')
with eeqv : list (option sval) * option (list fval) -> list (option sval) * option (list fval) -> Prop :=
| EqvEntry ks m m' : Forall2 feqv m m' -> eeqv (ks, Some m) (ks, Some m').
Definition msg_equiv (m m' : msg) : Prop := Forall2 feqv m m'.

(* every schemapath annotation reachable from a field: its own, those of the key fields, and
   those of the fields of its child messages *)
Fixpoint anns_of (d : fdesc) : list gpath :=
  match d with
  | FD _ anns _ k =>
      anns ++ match k with
              | KMsg fs => flat_map anns_of fs
              | KList ks fs => flat_map kd_ann ks ++ flat_map anns_of fs
              | _ => []
              end
  end.
Definition all_anns (ds : list fdesc) : list gpath := flat_map anns_of ds.
