(* Base.v — strings as rune lists, the result type, small list helpers.
   Model files contain definitions only; proofs live in *Proofs.v files. *)
From Coq Require Export List NArith ZArith Bool Lia.
Export ListNotations.
Open Scope N_scope.

Definition rune := N.
Definition str := list rune.

(* Outcome of a Go call: normal result, returned error, or run-time panic. *)
Inductive result (A : Type) : Type :=
| Ok (a : A)
| Err
| Panic.
Arguments Ok {A} a.
Arguments Err {A}.
Arguments Panic {A}.

Definition bind {A B} (r : result A) (f : A -> result B) : result B :=
  match r with Ok a => f a | Err => Err | Panic => Panic end.

Fixpoint mapM {A B} (f : A -> result B) (l : list A) : result (list B) :=
  match l with
  | [] => Ok []
  | x :: xs => bind (f x) (fun y => bind (mapM f xs) (fun ys => Ok (y :: ys)))
  end.

Definition nil_b {A} (l : list A) : bool := match l with [] => true | _ => false end.

Fixpoint str_eqb (a b : str) : bool :=
  match a, b with
  | [], [] => true
  | x :: a', y :: b' => (x =? y) && str_eqb a' b'
  | _, _ => false
  end.

(* Lexicographic comparison by code point (= Go's bytewise string order on valid UTF-8). *)
Fixpoint str_cmp (a b : str) : comparison :=
  match a, b with
  | [], [] => Eq
  | [], _ :: _ => Lt
  | _ :: _, [] => Gt
  | x :: a', y :: b' =>
      match x ?= y with Eq => str_cmp a' b' | c => c end
  end.
Definition str_ltb (a b : str) : bool := match str_cmp a b with Lt => true | _ => false end.

Fixpoint join_with (sep : rune) (l : list str) : str :=
  match l with
  | [] => []
  | [x] => x
  | x :: xs => x ++ sep :: join_with sep xs
  end.

Definition last_rune (s : str) : rune := last s 0.

(* Sorted association lists keyed by strings: the model of a Go map[string]T
   whose observable content is its set of bindings. *)
Fixpoint al_insert {V} (k : str) (v : V) (l : list (str * V)) : list (str * V) :=
  match l with
  | [] => [(k, v)]
  | (k', v') :: t =>
      match str_cmp k k' with
      | Lt => (k, v) :: l
      | Eq => (k, v) :: t
      | Gt => (k', v') :: al_insert k v t
      end
  end.
Fixpoint al_find {V} (k : str) (l : list (str * V)) : option V :=
  match l with
  | [] => None
  | (k', v') :: t => if str_eqb k k' then Some v' else al_find k t
  end.

Fixpoint sorted_keysb {V} (l : list (str * V)) : bool :=
  match l with
  | [] => true
  | (k, _) :: t =>
      match t with
      | [] => true
      | (k', _) :: _ => str_ltb k k' && sorted_keysb t
      end
  end.

(* strongly sorted: every key is below all later keys (no transitivity needed in proofs) *)
Fixpoint ssorted_keysb {V} (l : list (str * V)) : bool :=
  match l with
  | [] => true
  | (k, _) :: t => forallb (fun kv => str_ltb k (fst kv)) t && ssorted_keysb t
  end.
