(* RegexParseProofs.v — parsing commutes with the wrapping that fixYangRegexp performs: if b
   compiles (Perl syntax) to r, then ^( b )$ compiles to Seq Bol (Seq (Group r) Eol).
   Method: every parsing function is stable under appending a suffix that starts with ')' and
   under raising its fuel. *)
From Ygot Require Import Base.Base Scalar.Regex Scalar.FixRegexp.
Open Scope N_scope.

(* the suffixes we append: nothing, or something starting with ')' *)
Definition okrest (rest : str) : Prop := rest = [] \/ exists t, rest = R_RPAR :: t.

Lemma span_digits_app : forall s rest, okrest rest ->
  span_digits (s ++ rest) = (fst (span_digits s), snd (span_digits s) ++ rest).
Proof.
  induction s as [|c t IH]; intros rest Hr.
  - simpl. destruct Hr as [-> | [t ->]]; reflexivity.
  - simpl. destruct (is_digit c); [ | reflexivity]. rewrite (IH rest Hr). reflexivity.
Qed.

Lemma p_int_app : forall s rest, okrest rest ->
  p_int (s ++ rest) = match p_int s with Some (n, s') => Some (n, s' ++ rest) | None => None end.
Proof.
  intros s rest Hr. unfold p_int. rewrite (span_digits_app s rest Hr). cbn [fst snd].
  destruct (fst (span_digits s)) as [|c [|d l]]; try reflexivity.
  destruct (c =? 48); reflexivity.
Qed.

Lemma rep_op_rpar : forall t, rep_op (R_RPAR :: t) = RNone.
Proof. reflexivity. Qed.

Definition rep_app (r : rep_res) (rest : str) : rep_res :=
  match r with RNone => RNone | RBad => RBad | ROp mk s1 => ROp mk (s1 ++ rest) end.

Lemma rep_op_app : forall s rest, okrest rest -> rep_op (s ++ rest) = rep_app (rep_op s) rest.
Proof.
  intros s rest Hr. destruct s as [|c t].
  - destruct Hr as [-> | [t ->]]; reflexivity.
  - cbn [app]. unfold rep_op at 1 2.
    destruct (c =? R_STAR); [reflexivity | ]. destruct (c =? R_PLUS); [reflexivity | ].
    destruct (c =? R_QUEST); [reflexivity | ]. destruct (c =? R_LBRACE); [ | reflexivity].
    rewrite (p_int_app t rest Hr). destruct (p_int t) as [[n t1] | ]; [ | reflexivity].
    destruct t1 as [|d t2].
    + (* nothing after the digits *) cbn [app]. destruct Hr as [-> | [u ->]]; reflexivity.
    + cbn [app]. destruct (d =? R_RBRACE).
      { destruct (1000 <? n); reflexivity. }
      destruct (d =? R_COMMA); [ | reflexivity].
      destruct t2 as [|e t3].
      * cbn [app]. destruct Hr as [-> | [u ->]]; [reflexivity | ].
        reflexivity.
      * cbn [app]. destruct (e =? R_RBRACE).
        { destruct (1000 <? n); reflexivity. }
        change (e :: t3 ++ rest) with ((e :: t3) ++ rest).
        rewrite (p_int_app (e :: t3) rest Hr).
        destruct (p_int (e :: t3)) as [[m t4] | ]; [ | reflexivity].
        destruct t4 as [|f t5].
        -- cbn [app]. destruct Hr as [-> | [u ->]]; reflexivity.
        -- cbn [app]. destruct (f =? R_RBRACE); [ | reflexivity].
           destruct ((1000 <? n) || (1000 <? m) || (m <? n)); reflexivity.
Qed.

Lemma okrest_head : forall rest, okrest rest ->
  forall c, c <> R_RPAR -> match rest with x :: _ => x =? c | [] => false end = false.
Proof.
  intros rest [-> | [t ->]] c Hc; [reflexivity | ]. apply N.eqb_neq. congruence.
Qed.

(* Perl syntax: one operator at most; any fuel >= 1 does *)
Lemma p_rep_app : forall f f' a s r s' rest, okrest rest ->
  p_rep (S f) false a s = POk (r, s') -> p_rep (S f') false a (s ++ rest) = POk (r, s' ++ rest).
Proof.
  intros f f' a s r s' rest Hr H. cbn [p_rep] in *. rewrite (rep_op_app s rest Hr).
  destruct (rep_op s) as [ | | mk s1]; cbn [rep_app].
  - injection H as <- <-. reflexivity.
  - discriminate.
  - assert (Hfin : forall s2, match rep_op s2 with RNone => POk (mk a, s2) | _ => PErr end = POk (r, s') ->
                  match rep_op (s2 ++ rest) with RNone => POk (mk a, s2 ++ rest) | _ => PErr end = POk (r, s' ++ rest)).
    { intros s2 H2. rewrite (rep_op_app s2 rest Hr). destruct (rep_op s2); cbn [rep_app]; try discriminate.
      injection H2 as <- <-. reflexivity. }
    destruct s1 as [|c t]; cbn [app].
    + destruct Hr as [-> | [u ->]].
      * apply (Hfin []). exact H.
      * change (R_RPAR =? R_QUEST) with false. cbv iota. apply (Hfin []). exact H.
    + destruct (c =? R_QUEST).
      * apply Hfin. exact H.
      * apply (Hfin (c :: t)). exact H.
Qed.

Lemma p_class_char_app : forall s c s' rest,
  p_class_char false s = POk (c, s') -> p_class_char false (s ++ rest) = POk (c, s' ++ rest).
Proof.
  intros s c s' rest H. destruct s as [|x t]; [discriminate | ]. cbn [app p_class_char] in *.
  destruct (x =? R_BSL).
  - destruct t as [|e t']; [discriminate | ]. cbn [app].
    destruct (p_escape false e); try discriminate. injection H as <- <-. reflexivity.
  - injection H as <- <-. reflexivity.
Qed.

Lemma p_class_char_plain : forall c t, (c =? R_BSL) = false -> p_class_char false (c :: t) = POk (c, t).
Proof. intros c t E. cbn [p_class_char]. rewrite E. reflexivity. Qed.

Lemma pbind_ok : forall {A B} (r : pres A) (f : A -> pres B) b,
  pbind r f = POk b -> exists a, r = POk a /\ f a = POk b.
Proof. intros A B [a | | ] f b H; try discriminate. exists a. split; [reflexivity | exact H]. Qed.

(* bracket expressions: stable under a suffix and under more fuel *)
Ltac use_eq t := let X := fresh "X" in pose proof t as X; cbn [app] in X; rewrite X.

Lemma p_class_items_app : forall f f' first s rs s' rest, (f <= f')%nat -> okrest rest ->
  p_class_items f false first s = POk (rs, s') ->
  p_class_items f' false first (s ++ rest) = POk (rs, s' ++ rest).
Proof.
  induction f as [|f IH]; intros f' first s rs s' rest Hf Hr H; [discriminate | ].
  destruct f' as [|f']; [lia | ]. assert (Hf' : (f <= f')%nat) by lia.
  destruct s as [|c t]; [discriminate | ].
  cbn [p_class_items app] in *. cbn [andb] in *.
  destruct ((c =? R_RBRK) && negb first).
  { injection H as <- <-. reflexivity. }
  assert (Hcolon : match t ++ rest with x :: _ => x =? R_COLON | [] => false end
                   = match t with x :: _ => x =? R_COLON | [] => false end).
  { destruct t; [apply okrest_head; [assumption | discriminate] | reflexivity]. }
  rewrite Hcolon.
  destruct ((c =? R_LBRK) && match t with x :: _ => x =? R_COLON | [] => false end); [discriminate | ].
  destruct (c =? R_BSL) eqn:Eb; cbn [andb negb] in *.
  - (* an escape *)
    destruct t as [|e t']; cbn [app].
    + (* backslash at the end: not a successful parse *)
      cbn [p_class_char] in H. rewrite Eb in H. discriminate.
    + destruct (p_escape false e) as [x | set nset | | ] eqn:Ee.
      * (* single character escape: goes through p_class_char *)
        apply pbind_ok in H as ([lo slo] & Hlo & H).
        change (c :: e :: t' ++ rest) with ((c :: e :: t') ++ rest).
        rewrite (p_class_char_app _ _ _ rest Hlo). cbn [pbind fst snd] in *.
        destruct slo as [|d [|x2 t2]]; cbn [app].
        -- apply pbind_ok in H as ([r1 s1] & H1 & H). injection H as <- <-.
           destruct Hr as [-> | [u ->]].
           ++ use_eq (IH f' false [] r1 s1 [] Hf' (or_introl eq_refl) H1). reflexivity.
           ++ cbn [app]. discriminate H1 || (destruct f; discriminate H1).
        -- apply pbind_ok in H as ([r1 s1] & H1 & H). injection H as <- <-.
           destruct Hr as [-> | [u ->]].
           ++ use_eq (IH f' false [d] r1 s1 [] Hf' (or_introl eq_refl) H1). reflexivity.
           ++ cbn [app].
              assert (Hd : (d =? R_MINUS) && negb (R_RPAR =? R_RBRK) = (d =? R_MINUS)) by (rewrite andb_true_r; reflexivity).
              rewrite Hd. destruct (d =? R_MINUS) eqn:Ed.
              ** (* "x-" then end of class text: the original parse cannot have succeeded *)
                 exfalso. destruct f; [discriminate H1 | ]. cbn [p_class_items] in H1.
                 apply N.eqb_eq in Ed. subst d. cbn in H1. destruct f; discriminate H1.
              ** use_eq (IH f' false [d] r1 s1 (R_RPAR :: u) Hf' (or_intror (ex_intro _ u eq_refl)) H1). reflexivity.
        -- destruct ((d =? R_MINUS) && negb (x2 =? R_RBRK)).
           ++ apply pbind_ok in H as ([hi shi] & Hhi & H).
              change (x2 :: t2 ++ rest) with ((x2 :: t2) ++ rest).
              rewrite (p_class_char_app _ _ _ rest Hhi). cbn [pbind fst snd] in *.
              destruct (hi <? lo); [discriminate | ].
              apply pbind_ok in H as ([r1 s1] & H1 & H). injection H as <- <-.
              use_eq (IH f' false shi r1 s1 rest Hf' Hr H1). reflexivity.
           ++ apply pbind_ok in H as ([r1 s1] & H1 & H). injection H as <- <-.
              use_eq (IH f' false (d :: x2 :: t2) r1 s1 rest Hf' Hr H1). reflexivity.
      * (* \d \w \s inside a class *)
        apply pbind_ok in H as ([r1 s1] & H1 & H). injection H as <- <-.
        use_eq (IH f' false t' r1 s1 rest Hf' Hr H1). reflexivity.
      * cbn [p_class_char] in H. rewrite Eb, Ee in H. discriminate.
      * cbn [p_class_char] in H. rewrite Eb, Ee in H. discriminate.
  - (* a plain character *)
    rewrite (p_class_char_plain c _ Eb) in H.
    change (c :: t ++ rest) with (c :: (t ++ rest)). rewrite (p_class_char_plain c _ Eb).
    cbn [pbind fst snd] in *.
    destruct t as [|d [|x2 t2]]; cbn [app].
    + apply pbind_ok in H as ([r1 s1] & H1 & H). injection H as <- <-.
      destruct f; discriminate H1.
    + apply pbind_ok in H as ([r1 s1] & H1 & H). injection H as <- <-.
      destruct Hr as [-> | [u ->]].
      * use_eq (IH f' false [d] r1 s1 [] Hf' (or_introl eq_refl) H1). reflexivity.
      * cbn [app].
        assert (Hd : (d =? R_MINUS) && negb (R_RPAR =? R_RBRK) = (d =? R_MINUS)) by (rewrite andb_true_r; reflexivity).
        rewrite Hd. destruct (d =? R_MINUS) eqn:Ed.
        -- exfalso. destruct f; [discriminate H1 | ]. cbn [p_class_items] in H1.
           apply N.eqb_eq in Ed. subst d. cbn in H1. destruct f; discriminate H1.
        -- use_eq (IH f' false [d] r1 s1 (R_RPAR :: u) Hf' (or_intror (ex_intro _ u eq_refl)) H1). reflexivity.
    + destruct ((d =? R_MINUS) && negb (x2 =? R_RBRK)).
      * apply pbind_ok in H as ([hi shi] & Hhi & H).
        change (x2 :: t2 ++ rest) with ((x2 :: t2) ++ rest).
        rewrite (p_class_char_app _ _ _ rest Hhi). cbn [pbind fst snd] in *.
        destruct (hi <? c); [discriminate | ].
        apply pbind_ok in H as ([r1 s1] & H1 & H). injection H as <- <-.
        use_eq (IH f' false shi r1 s1 rest Hf' Hr H1). reflexivity.
      * apply pbind_ok in H as ([r1 s1] & H1 & H). injection H as <- <-.
        use_eq (IH f' false (d :: x2 :: t2) r1 s1 rest Hf' Hr H1). reflexivity.
Qed.

Lemma p_class_app : forall s r s' rest, okrest rest ->
  p_class false s = POk (r, s') -> p_class false (s ++ rest) = POk (r, s' ++ rest).
Proof.
  intros s r s' rest Hr H. destruct s as [|c t].
  - discriminate H.
  - unfold p_class in *. cbn [app].
    set (neg := c =? R_CARET) in *.
    change (match c :: t with x :: _ => x =? R_CARET | [] => false end) with neg in H.
    change (match c :: t ++ rest with x :: _ => x =? R_CARET | [] => false end) with neg.
    apply pbind_ok in H as ([rs s1] & H1 & H). cbn [fst snd] in H. injection H as <- <-.
    assert (Hb : (if neg then tl (c :: t ++ rest) else c :: t ++ rest) = (if neg then tl (c :: t) else c :: t) ++ rest)
      by (destruct neg; reflexivity).
    rewrite Hb.
    rewrite (p_class_items_app (S (length (c :: t))) (S (length (c :: t ++ rest))) true _ rs s1 rest); [reflexivity | | assumption | exact H1].
    change (c :: t ++ rest) with ((c :: t) ++ rest). rewrite app_length. lia.
Qed.

(* the three mutually recursive parsing functions, Perl syntax *)
Definition stable (p : nat -> bool -> str -> pres (re * str)) (f : nat) : Prop :=
  forall f' s r s' rest, (f <= f')%nat -> okrest rest ->
    p f false s = POk (r, s') -> p f' false (s ++ rest) = POk (r, s' ++ rest).

Lemma okrest_cons : forall rest, okrest rest ->
  rest = [] \/ exists t, rest = R_RPAR :: t.
Proof. intros rest H. exact H. Qed.

Lemma parsers_stable : forall f, stable p_alt f /\ stable p_seq f /\ stable p_atom f.
Proof.
  induction f as [|f (IHalt & IHseq & IHatom)].
  - repeat split; intros f' s r s' rest Hf Hr H; discriminate H.
  - repeat split; intros f' s r s' rest Hf Hr H; (destruct f' as [|f']; [lia | ]);
      assert (Hf' : (f <= f')%nat) by lia.
    + (* p_alt *)
      cbn [p_alt] in *. apply pbind_ok in H as ([a1 s1] & H1 & H). cbn [fst snd] in H.
      rewrite (IHseq f' s a1 s1 rest Hf' Hr H1). cbn [pbind fst snd].
      destruct s1 as [|c t]; cbn [app].
      * injection H as <- <-. destruct Hr as [-> | [u ->]]; reflexivity.
      * destruct (c =? R_BAR); [ | injection H as <- <-; reflexivity].
        apply pbind_ok in H as ([a2 s2] & H2 & H). cbn [fst snd] in H. injection H as <- <-.
        rewrite (IHalt f' t a2 s2 rest Hf' Hr H2). reflexivity.
    + (* p_seq *)
      cbn [p_seq] in *. destruct s as [|c t]; cbn [app].
      * injection H as <- <-. destruct Hr as [-> | [u ->]]; reflexivity.
      * destruct ((c =? R_BAR) || (c =? R_RPAR)); [injection H as <- <-; reflexivity | ].
        apply pbind_ok in H as ([a1 s1] & H1 & H). cbn [fst snd] in H.
        apply pbind_ok in H as ([a2 s2] & H2 & H). cbn [fst snd] in H.
        apply pbind_ok in H as ([a3 s3] & H3 & H). cbn [fst snd] in H. injection H as <- <-.
        change (c :: t ++ rest) with ((c :: t) ++ rest).
        rewrite (IHatom f' (c :: t) a1 s1 rest Hf' Hr H1). cbn [pbind fst snd].
        rewrite (p_rep_app _ (length (s1 ++ rest)) a1 s1 a2 s2 rest Hr H2). cbn [pbind fst snd].
        rewrite (IHseq f' s2 a3 s3 rest Hf' Hr H3). reflexivity.
    + (* p_atom *)
      cbn [p_atom] in *. destruct s as [|c t]; [discriminate H | ]. cbn [app].
      destruct (c =? R_LPAR).
      { (* group *)
        destruct t as [|q t1]; [discriminate H | ]. cbn [app].
        assert (Hclose : forall a1 s1,
          match s1 with d :: t' => if d =? R_RPAR then POk (Group a1, t') else PErr | [] => PErr end = POk (r, s') ->
          match s1 ++ rest with d :: t' => if d =? R_RPAR then POk (Group a1, t') else PErr | [] => PErr end = POk (r, s' ++ rest)).
        { intros a1 s1 Hc. destruct s1 as [|d t']; [discriminate Hc | ]. cbn [app].
          destruct (d =? R_RPAR); [ | discriminate Hc]. injection Hc as <- <-. reflexivity. }
        destruct (q =? R_QUEST).
        - destruct t1 as [|x t2]; [discriminate H | ]. cbn [app].
          destruct (x =? R_COLON); [ | discriminate H].
          apply pbind_ok in H as ([a1 s1] & H1 & H). cbn [fst snd] in H.
          rewrite (IHalt f' t2 a1 s1 rest Hf' Hr H1). cbn [pbind fst snd]. apply Hclose. exact H.
        - apply pbind_ok in H as ([a1 s1] & H1 & H). cbn [fst snd] in H.
          change (q :: t1 ++ rest) with ((q :: t1) ++ rest).
          rewrite (IHalt f' (q :: t1) a1 s1 rest Hf' Hr H1). cbn [pbind fst snd]. apply Hclose. exact H. }
      destruct (c =? R_LBRK); [apply p_class_app; assumption | ].
      destruct (c =? R_DOT); [injection H as <- <-; reflexivity | ].
      destruct (c =? R_CARET); [injection H as <- <-; reflexivity | ].
      destruct (c =? R_DOLLAR); [injection H as <- <-; reflexivity | ].
      destruct (c =? R_BSL).
      { destruct t as [|e t']; [discriminate H | ]. cbn [app].
        destruct (p_escape false e); try discriminate H; injection H as <- <-; reflexivity. }
      change (c :: t ++ rest) with ((c :: t) ++ rest). rewrite (rep_op_app (c :: t) rest Hr).
      destruct (rep_op (c :: t)); cbn [rep_app]; try discriminate H. injection H as <- <-. reflexivity.
Qed.

Lemma p_alt_stable : forall f f' s r s' rest, (f <= f')%nat -> okrest rest ->
  p_alt f false s = POk (r, s') -> p_alt f' false (s ++ rest) = POk (r, s' ++ rest).
Proof. intros f. exact (proj1 (parsers_stable f)). Qed.

Lemma quest_first_fails : forall f t, p_alt (S (S (S f))) false (R_QUEST :: t) = PErr.
Proof. intros. reflexivity. Qed.

Lemma seq_dollar : forall f, p_seq (S (S f)) false [R_DOLLAR] = POk (Eol, []).
Proof. intros. reflexivity. Qed.

Lemma p_seq_step : forall f c t, (c =? R_BAR) || (c =? R_RPAR) = false ->
  p_seq (S f) false (c :: t) =
  pbind (p_atom f false (c :: t)) (fun r1 =>
    pbind (p_rep (S (length (snd r1))) false (fst r1) (snd r1)) (fun r2 =>
      pbind (p_seq f false (snd r2)) (fun r3 => POk (mk_seq (fst r2) (fst r3), snd r3)))).
Proof. intros f c t H. cbn [p_seq]. rewrite H. reflexivity. Qed.

Lemma atom_group : forall f0 f b r, (f0 <= f)%nat -> p_alt f0 false b = POk (r, []) ->
  (forall t, b <> R_QUEST :: t) ->
  p_atom (S f) false (R_LPAR :: b ++ [R_RPAR; R_DOLLAR]) = POk (Group r, [R_DOLLAR]).
Proof.
  intros f0 f b r Hf H Hq.
  pose proof (p_alt_stable f0 f b r [] [R_RPAR; R_DOLLAR] Hf (or_intror (ex_intro _ [R_DOLLAR] eq_refl)) H) as Hs.
  cbn [app] in Hs. cbn [p_atom]. change (R_LPAR =? R_LPAR) with true. cbv iota.
  destruct b as [|q t1].
  - cbn [app] in *. change (R_RPAR =? R_QUEST) with false. cbv iota. rewrite Hs. reflexivity.
  - cbn [app] in *. destruct (N.eqb_spec q R_QUEST) as [-> | Hne].
    + exfalso. apply (Hq t1). reflexivity.
    + rewrite Hs. reflexivity.
Qed.

Theorem parse_wrap : forall b r, parse_re false b = POk r ->
  parse_re false (wrap_str b) = POk (wrap r).
Proof.
  intros b r H. unfold parse_re in H.
  destruct (p_alt (4 * length b + 8) false b) as [[r0 [|c rem]] | | ] eqn:Hb; try discriminate H.
  injection H as ->.
  assert (Hq : forall t, b <> R_QUEST :: t).
  { intros t ->. replace (4 * length (R_QUEST :: t) + 8)%nat with (S (S (S (4 * length (R_QUEST :: t) + 5)))) in Hb by lia.
    rewrite quest_first_fails in Hb. discriminate Hb. }
  unfold parse_re, wrap_str. cbn [app].
  set (X := b ++ [R_RPAR; R_DOLLAR]).
  assert (Hlen : (4 * length (R_CARET :: R_LPAR :: X) + 8 = S (S (S (S (S (S (4 * length b + 18)))))))%nat).
  { subst X. cbn [length]. rewrite app_length. cbn [length]. lia. }
  rewrite Hlen. set (k := S (4 * length b + 18)%nat).
  (* the group *)
  assert (Hatom : p_atom (S k) false (R_LPAR :: X) = POk (Group r, [R_DOLLAR])).
  { subst X. apply (atom_group (4 * length b + 8) k b r); [subst k; lia | exact Hb | exact Hq]. }
  (* ( b ) $ *)
  assert (Hseq2 : p_seq (S (S k)) false (R_LPAR :: X) = POk (Seq (Group r) Eol, [])).
  { cbn [p_seq]. change ((R_LPAR =? R_BAR) || (R_LPAR =? R_RPAR)) with false. cbv iota.
    rewrite Hatom. cbn [pbind fst snd].
    change (p_rep (S (length [R_DOLLAR])) false (Group r) [R_DOLLAR]) with (@POk (re * str) (Group r, [R_DOLLAR])).
    cbn [pbind fst snd]. subst k. reflexivity. }
  (* ^ ( b ) $ *)
  assert (Hseq1 : p_seq (S (S (S (S k)))) false (R_CARET :: R_LPAR :: X) = POk (wrap r, [])).
  { rewrite p_seq_step by reflexivity.
    change (p_atom (S (S (S k))) false (R_CARET :: R_LPAR :: X)) with (@POk (re * str) (Bol, R_LPAR :: X)).
    cbn [pbind fst snd].
    change (p_rep (S (length (R_LPAR :: X))) false Bol (R_LPAR :: X)) with (@POk (re * str) (Bol, R_LPAR :: X)).
    cbn [pbind fst snd].
    pose proof (proj1 (proj2 (parsers_stable (S (S k)))) (S (S (S k))) (R_LPAR :: X) _ _ [] ltac:(lia) (or_introl eq_refl) Hseq2) as Hm.
    rewrite !app_nil_r in Hm. rewrite Hm. reflexivity. }
  cbn [p_alt]. rewrite Hseq1. reflexivity.
Qed.
