(* FixRegexp.v — model of util.fixYangRegexp / util.SanitizedPattern (util/yang.go): the
   rewriting of a YANG (XSD) pattern into an anchored Go regular expression.  Definitions only.

   The Go loop is `for i, ch := range pattern`: i is the BYTE offset of the rune, and the
   end-of-pattern tests compare it with len(pattern)-1, a byte length.  The model walks the
   code points and carries the byte offset explicitly (utf8_len), so that the tests are the
   ones the code performs.

   fix_cfg selects the code being modelled: cfg_now is /repo as it is; the other flags switch
   on, one by one, the repairs proposed for the defects found by property C06 (see the report
   and Properties/C06.v).  Flipping `the_cfg` is the only change needed when /repo is fixed. *)
From Ygot Require Import Base.Base Scalar.Regex.

Record fix_cfg := FixCfg {
  f_rune_end : bool;     (* end-of-pattern test is rune aware (i == offset of the last rune) *)
  f_group_alt : bool;    (* a pattern that starts with ^ and contains | gets its body grouped *)
  f_esc_dollar : bool;   (* an escaped \$ at the end is a literal, not the closing anchor *)
  f_esc_bracket : bool   (* a ^ after an escaped \[ is escaped like any other literal ^ *)
}.
Definition cfg_now : fix_cfg := FixCfg false false false false.
Definition cfg_fixed2 : fix_cfg := FixCfg true true false false.   (* the two known defects *)
Definition cfg_fixed4 : fix_cfg := FixCfg true true true true.     (* all four *)

(* THE code under verification. *)
Definition the_cfg : fix_cfg := cfg_fixed4.

Definition utf8_len (c : rune) : N :=
  if c <? 128 then 1 else if c <? 2048 then 2 else if c <? 65536 then 3 else 4.
Fixpoint byte_len (s : str) : N :=
  match s with [] => 0 | c :: t => utf8_len c + byte_len t end.

(* One iteration per rune.  total = len(pattern) in bytes, i = byte offset of ch,
   in_esc = inEscape, prev = prevChar, prev_esc = (prevChar was itself escaped; only read when
   f_esc_bracket), addp = addParens, galt = (f_group_alt and the pattern contains '|'). *)
Fixpoint fix_loop (cf : fix_cfg) (galt : bool) (total i : N) (in_esc : bool) (prev : rune)
    (prev_esc : bool) (addp : bool) (p : str) : str :=
  match p with
  | [] => []
  | ch :: t =>
      let first := i =? 0 in
      let is_last := if f_rune_end cf then nil_b t else i =? total - 1 in
      if first && (ch =? R_CARET) && galt then
        (* repaired code only: "^(" is written for the leading caret and the body is grouped *)
        [R_CARET; R_LPAR] ++ fix_loop cf galt total (i + utf8_len ch) false ch false true t
      else
        let opening := first && negb (ch =? R_CARET) in
        let addp' := addp || opening in
        let pre := if opening then [R_CARET; R_LPAR] else [] in
        let after_bracket := (prev =? R_LBRK) && (if f_esc_bracket cf then negb prev_esc else true) in
        let e :=
          if ch =? R_DOLLAR then (if negb in_esc && negb is_last then [R_BSL] else [])
          else if ch =? R_CARET then (if negb in_esc && negb after_bracket && negb first then [R_BSL] else [])
          else [] in
        let in_esc' := negb in_esc && (ch =? R_BSL) in
        let end_anchor := (ch =? R_DOLLAR) && (if f_esc_dollar cf then negb in_esc else true) in
        let c1 := if is_last && addp' && end_anchor then [R_RPAR] else [] in
        let c2 := if is_last && negb end_anchor
                  then (if addp' then [R_RPAR] else []) ++ [R_DOLLAR] else [] in
        pre ++ e ++ c1 ++ [ch] ++ c2
        ++ fix_loop cf galt total (i + utf8_len ch) in_esc' ch in_esc addp' t
  end.

(* func fixYangRegexp(pattern string) string *)
Definition fix_with (cf : fix_cfg) (p : str) : str :=
  fix_loop cf (f_group_alt cf && existsb (fun c => c =? R_BAR) p) (byte_len p) 0 false 0 false false p.
Definition fix_yang_regexp : str -> str := fix_with the_cfg.

(* func SanitizedPattern(t *yang.YangType) ([]string, bool): posix-pattern wins, verbatim *)
Definition sanitized_pattern (patterns posix : list str) : list str * bool :=
  if nil_b posix then (map fix_yang_regexp patterns, false) else (posix, true).

(* ---------- specification side ---------- *)

(* The escaping pass alone: every unescaped $ and every unescaped ^ that does not follow '['
   gets a backslash (XSD treats both as ordinary characters).  eb = f_esc_bracket: whether a
   '[' that is itself escaped still counts as "follows '['". *)
Fixpoint esc_mid (eb : bool) (in_esc : bool) (prev : rune) (prev_esc : bool) (p : str) : str :=
  match p with
  | [] => []
  | ch :: t =>
      (if ch =? R_DOLLAR then (if negb in_esc then [R_BSL] else [])
       else if ch =? R_CARET then
         (if negb in_esc && negb ((prev =? R_LBRK) && (if eb then negb prev_esc else true))
          then [R_BSL] else [])
       else [])
      ++ ch :: esc_mid eb (negb in_esc && (ch =? R_BSL)) ch in_esc t
  end.
Definition esc (cf : fix_cfg) (p : str) : str := esc_mid (f_esc_bracket cf) false 0 false p.

(* inEscape after reading p *)
Fixpoint esc_state (in_esc : bool) (p : str) : bool :=
  match p with
  | [] => in_esc
  | ch :: t => esc_state (negb in_esc && (ch =? R_BSL)) t
  end.

Definition head_is (c : rune) (p : str) : bool := match p with x :: _ => x =? c | [] => false end.
Definition last_single (p : str) : bool := utf8_len (last p 0) =? 1.
Definition last_is (c : rune) (p : str) : bool := negb (nil_b p) && (last p 0 =? c).
Definition has_bar (p : str) : bool := existsb (fun c => c =? R_BAR) p.

(* The patterns on which the code does what its comment says ("adds ^(...)$ around the
   pattern"): non-empty, not starting with ^, not ending with $, and — in the code as it is —
   last rune one byte long. *)
Definition plainb (cf : fix_cfg) (p : str) : bool :=
  negb (nil_b p) && negb (head_is R_CARET p) && (f_rune_end cf || last_single p)
  && negb (last_is R_DOLLAR p).

Definition wrap_str (body : str) : str := [R_CARET; R_LPAR] ++ body ++ [R_RPAR; R_DOLLAR].
