(* RegexProofs.v — the backtracking matcher decides the declarative semantics; Go's unanchored
   MatchString on ^( r )$ is a whole-string match; for anchor-free r that is membership in
   the regular language of r. *)
From Ygot Require Import Base.Base Scalar.Regex.
Open Scope N_scope.

Lemma last_of_app : forall w1 w2 p, last_of p (w1 ++ w2) = last_of (last_of p w1) w2.
Proof. intros. unfold last_of. apply fold_left_app. Qed.

Lemma last_of_nonempty : forall u p, u <> [] -> exists c, last_of p u = Some c.
Proof.
  induction u as [|c u IH]; intros p H; [congruence | ].
  destruct u as [|d u'].
  - exists c. reflexivity.
  - change (last_of p (c :: d :: u')) with (last_of (Some c) (d :: u')). apply IH. discriminate.
Qed.

Lemma last_of_none : forall u, last_of None u = None -> u = [].
Proof.
  intros u H. destruct u as [|c u]; [reflexivity | ].
  destruct (last_of_nonempty (c :: u) None ltac:(discriminate)) as [x Hx]. congruence.
Qed.

Lemma nil_b_true : forall (s : str), nil_b s = true -> s = [].
Proof. intros [|c s] H; [reflexivity | discriminate]. Qed.

(* what a successful run of the matcher with continuation k means *)
Definition kspec (r : re) (p : option rune) (s : str) (k : kont) : Prop :=
  exists w v, s = w ++ v /\ M r p w v /\ k (last_of p w) v = true.

Section StarLoop.
  Variable a : re.
  Hypothesis Ha : forall p s k, mt a p s k = true <-> kspec a p s k.

  Lemma star_sound : forall k fuel p s,
    star_loop (mt a) k fuel p s = true -> kspec (Star a) p s k.
  Proof.
    intros k. induction fuel as [|f IH]; intros p s H; simpl in H.
    - rewrite orb_false_r in H. exists [], s. repeat split; [constructor | exact H].
    - apply orb_prop in H as [H | H].
      + exists [], s. repeat split; [constructor | exact H].
      + apply Ha in H as (w1 & v1 & Es & Hm & Hk).
        apply andb_prop in Hk as [Hlen Hk]. apply Nat.ltb_lt in Hlen.
        apply IH in Hk as (w2 & v & Ev & Hm2 & Hk2). subst v1 s.
        exists (w1 ++ w2), v. repeat split.
        * rewrite <- ?app_assoc; reflexivity.
        * apply MStarS; try assumption. intros E; subst w1. simpl in Hlen. lia.
        * rewrite last_of_app. exact Hk2.
  Qed.

  Lemma star_complete : forall k r p w v, M r p w v -> r = Star a ->
    forall fuel, (length (w ++ v) < fuel)%nat -> k (last_of p w) v = true ->
    star_loop (mt a) k fuel p (w ++ v) = true.
  Proof.
    intros k r p w v H. induction H; intros Er fuel Hf Hk; try discriminate Er.
    - injection Er as ->. destruct fuel; simpl in *; rewrite Hk; reflexivity.
    - injection Er as ->. destruct fuel as [|f]; [lia | ].
      simpl. apply orb_true_iff. right. apply Ha.
      exists w1, (w2 ++ v). repeat split.
      + rewrite <- ?app_assoc; reflexivity.
      + assumption.
      + apply andb_true_intro. split.
        * apply Nat.ltb_lt. rewrite !app_length. destruct w1; [congruence | simpl; lia].
        * apply IHM2; [reflexivity | | ].
          -- rewrite !app_length in *. destruct w1; [congruence | simpl in Hf; lia].
          -- rewrite <- last_of_app. exact Hk.
  Qed.
End StarLoop.

Theorem mt_spec : forall r p s k, mt r p s k = true <-> kspec r p s k.
Proof.
  induction r; intros p s k; unfold kspec.
  - (* Eps *) simpl. split.
    + intros H. exists [], s. repeat split; [constructor | exact H].
    + intros (w & v & -> & Hm & Hk). inversion Hm; subst. exact Hk.
  - (* Cls *) simpl. split.
    + destruct s as [|c t]; [discriminate | ]. intros H. apply andb_prop in H as [H1 H2].
      exists [c], t. repeat split; [constructor; assumption | exact H2].
    + intros (w & v & -> & Hm & Hk). inversion Hm; subst. simpl.
      match goal with H : cls_match _ _ _ = true |- _ => rewrite H end. exact Hk.
  - (* Seq *) simpl. split.
    + intros H. apply IHr1 in H as (w1 & v1 & -> & Hm1 & H).
      apply IHr2 in H as (w2 & v & -> & Hm2 & Hk).
      exists (w1 ++ w2), v. repeat split.
      * rewrite <- ?app_assoc; reflexivity.
      * apply MSeq; assumption.
      * rewrite last_of_app. exact Hk.
    + intros (w & v & -> & Hm & Hk). inversion Hm; subst.
      apply IHr1. exists w1, (w2 ++ v). repeat split; [rewrite <- ?app_assoc; reflexivity | assumption | ].
      apply IHr2. exists w2, v. repeat split; [assumption | ]. rewrite <- last_of_app. exact Hk.
  - (* Alt *) simpl. split.
    + intros H. apply orb_prop in H as [H | H].
      * apply IHr1 in H as (w & v & -> & Hm & Hk). exists w, v. repeat split; [apply MAltL; assumption | exact Hk].
      * apply IHr2 in H as (w & v & -> & Hm & Hk). exists w, v. repeat split; [apply MAltR; assumption | exact Hk].
    + intros (w & v & -> & Hm & Hk). apply orb_true_iff. inversion Hm; subst.
      * left. apply IHr1. exists w, v. repeat split; assumption.
      * right. apply IHr2. exists w, v. repeat split; assumption.
  - (* Star *) change (mt (Star r) p s k) with (star_loop (mt r) k (S (length s)) p s). split.
    + intros H. apply (star_sound r IHr) in H. exact H.
    + intros (w & v & -> & Hm & Hk).
      apply (star_complete r IHr k (Star r) p w v Hm eq_refl); [lia | exact Hk].
  - (* Group *) simpl. split.
    + intros H. apply IHr in H as (w & v & -> & Hm & Hk). exists w, v. repeat split; [apply MGroup; assumption | exact Hk].
    + intros (w & v & -> & Hm & Hk). inversion Hm; subst. apply IHr. exists w, v. repeat split; assumption.
  - (* Bol *) simpl. split.
    + intros H. apply andb_prop in H as [H1 H2]. destruct p; [discriminate | ].
      exists [], s. repeat split; [constructor | exact H2].
    + intros (w & v & -> & Hm & Hk). inversion Hm; subst. exact Hk.
  - (* Eol *) simpl. split.
    + intros H. apply andb_prop in H as [H1 H2]. apply nil_b_true in H1. subst s.
      exists [], []. repeat split; [constructor | exact H2].
    + intros (w & v & -> & Hm & Hk). inversion Hm; subst. exact Hk.
  - (* BolL *) simpl. split.
    + intros H. apply andb_prop in H as [H1 H2].
      exists [], s. repeat split; [constructor; assumption | exact H2].
    + intros (w & v & -> & Hm & Hk). inversion Hm; subst. simpl. rewrite H. exact Hk.
  - (* EolL *) simpl. split.
    + intros H. apply andb_prop in H as [H1 H2].
      exists [], s. repeat split; [constructor; assumption | exact H2].
    + intros (w & v & -> & Hm & Hk). inversion Hm; subst. simpl. rewrite H. exact Hk.
Qed.

Theorem whole_b_spec : forall r s, whole_b r s = true <-> whole r s.
Proof.
  intros r s. unfold whole_b, whole. rewrite mt_spec. unfold kspec. split.
  - intros (w & v & -> & Hm & Hk). apply nil_b_true in Hk. subst v. rewrite app_nil_r. exact Hm.
  - intros H. exists s, []. repeat split; [symmetry; apply app_nil_r | exact H].
Qed.

Lemma search_from_spec : forall r s p,
  search_from r p s = true <-> exists u w v, s = u ++ w ++ v /\ M r (last_of p u) w v.
Proof.
  intros r. induction s as [|c t IH]; intros p; simpl.
  - rewrite orb_false_r, mt_spec. unfold kspec. split.
    + intros (w & v & E & Hm & _). exists [], w, v. split; assumption.
    + intros (u & w & v & E & Hm). destruct u; [ | discriminate E]. exists w, v. repeat split; assumption.
  - rewrite orb_true_iff, mt_spec, IH. unfold kspec. split.
    + intros [(w & v & E & Hm & _) | (u & w & v & E & Hm)].
      * exists [], w, v. split; assumption.
      * exists (c :: u), w, v. split; [simpl; congruence | exact Hm].
    + intros (u & w & v & E & Hm). destruct u as [|d u].
      * left. exists w, v. repeat split; assumption.
      * right. simpl in E. injection E as -> E. exists u, w, v. split; assumption.
Qed.

Theorem search_b_spec : forall r s, search_b r s = true <-> search r s.
Proof. intros. unfold search_b, search. apply search_from_spec. Qed.

(* Go's unanchored search on ^( r )$ is a whole-string match of r — for every r, the anchors
   inside r seeing the same text. *)
Theorem anchored_search_prop : forall r s, search (wrap r) s <-> whole r s.
Proof.
  intros r s. unfold search, whole, wrap. split.
  - intros (u & w & v & E & Hm).
    inversion Hm as [ | | a b p w1 w2 v' Hb Hrest | | | | | | | | | ]; subst.
    inversion Hb; subst.
    match goal with H : None = last_of None u |- _ => symmetry in H; apply last_of_none in H; subst u end.
    simpl in Hrest.
    inversion Hrest as [ | | a b p w3 w4 v' Hg He | | | | | | | | | ]; subst.
    inversion He; subst. inversion Hg; subst.
    simpl. rewrite !app_nil_r. simpl in *. assumption.
  - intros H. exists [], s, []. split; [simpl; symmetry; apply app_nil_r | ].
    simpl. change s with ([] ++ s). apply MSeq; [constructor | ].
    simpl. rewrite <- (app_nil_r s). apply MSeq.
    + simpl. apply MGroup. exact H.
    + constructor.
Qed.

Theorem anchored_search : forall r s, search_b (wrap r) s = whole_b r s.
Proof.
  intros r s. apply eq_true_iff_eq. rewrite search_b_spec, whole_b_spec. apply anchored_search_prop.
Qed.

(* Anchor-free expressions: matching does not depend on the context, and is membership in the
   regular language. *)
Lemma M_to_L : forall r p w v, M r p w v -> anchor_free r = true -> L r w.
Proof.
  intros r p w v H. induction H; simpl; intros Haf; try discriminate Haf;
    try (apply andb_prop in Haf as [Haf1 Haf2]).
  - constructor.
  - constructor; assumption.
  - apply LSeq; auto.
  - apply LAltL; auto.
  - apply LAltR; auto.
  - constructor.
  - apply LStarS; auto.
  - apply LGroup; auto.
Qed.

Lemma L_to_M : forall r w, L r w -> forall p v, M r p w v.
Proof.
  intros r w H. induction H; intros p v.
  - constructor.
  - constructor; assumption.
  - apply MSeq; auto.
  - apply MAltL; auto.
  - apply MAltR; auto.
  - constructor.
  - destruct w1 as [|c w1'] eqn:E.
    + simpl. apply IHL2.
    + rewrite <- E in *. apply MStarS; [subst; discriminate | apply IHL1 | apply IHL2].
  - apply MGroup; auto.
Qed.

Theorem anchor_free_lang : forall r, anchor_free r = true ->
  forall p w v, M r p w v <-> L r w.
Proof. intros r Haf p w v. split; [intros H; eapply M_to_L; eauto | intros H; apply L_to_M; assumption]. Qed.

Theorem whole_lang : forall r s, anchor_free r = true -> (whole_b r s = true <-> L r s).
Proof. intros r s Haf. rewrite whole_b_spec. unfold whole. apply anchor_free_lang. assumption. Qed.

Theorem anchored_lang : forall r s, anchor_free r = true ->
  (search_b (wrap r) s = true <-> L r s).
Proof. intros r s Haf. rewrite anchored_search. apply whole_lang. assumption. Qed.

(* Without the group, a leading ^ binds to the first alternative only: the shape that
   fixYangRegexp produces for a pattern starting with ^ is not a whole-string match. *)
Lemma ungrouped_alt_prefix : forall a b s t, anchor_free a = true -> L a s ->
  search_b (Alt (Seq Bol a) (Seq b Eol)) (s ++ t) = true.
Proof.
  intros a b s t Haf Hl. apply search_b_spec. exists [], s, t. split; [reflexivity | ].
  simpl. apply MAltL. change s with ([] ++ s). apply MSeq; [constructor | ].
  simpl. apply L_to_M. exact Hl.
Qed.
