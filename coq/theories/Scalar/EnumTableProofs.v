(* EnumTableProofs.v — the kernel of C17: on a well-formed table, value -> name -> value is the
   identity (with or without a module prefix), names are unique, UNSET is not rendered by the
   field renderers, undefined values are errors; tbl_okb_full decides well-formedness; the
   generator's numbering produces well-formed tables from well-formed YANG statements. *)
From Coq Require Import Permutation.
From Ygot Require Import Tree.Tree Tree.Codec Tree.CodecProofs Scalar.EnumTable.

(* ---------- booleans vs. declarative statements ---------- *)

Lemma no_colon_no_colonb s : no_colon s = no_colonb s.
Proof. reflexivity. Qed.

Lemma no_colon_spec s : no_colon s = true <-> ~ In COLON s.
Proof.
  unfold no_colon. rewrite forallb_forall. split.
  - intros H Hin. apply H in Hin. now rewrite N.eqb_refl in Hin.
  - intros H c Hc. apply negb_true_iff. apply N.eqb_neq. intros ->. now apply H.
Qed.

Lemma name_okb_spec s : name_okb s = true <-> s <> [] /\ ~ In COLON s.
Proof.
  unfold name_okb. rewrite andb_true_iff, no_colon_spec. split; intros [H1 H2]; split; try assumption.
  - intros ->. discriminate H1.
  - destruct s; [congruence | reflexivity].
Qed.

Lemma nums_distinctb_spec t : nums_distinctb t = true <-> NoDup (map ev_num t).
Proof.
  induction t as [|e r IH]; simpl.
  - split; [constructor | reflexivity].
  - rewrite andb_true_iff, negb_true_iff, IH. split.
    + intros [Hx Hr]. constructor; [|assumption]. intros Hin.
      apply in_map_iff in Hin as (e' & He & Hin).
      assert (existsb (fun e' => (ev_num e =? ev_num e')%Z) r = true).
      { apply existsb_exists. exists e'. split; [assumption|]. rewrite He. apply Z.eqb_refl. }
      congruence.
    + intros H. inversion H as [|? ? Hx Hr]; subst. split; [|assumption].
      destruct (existsb _ r) eqn:E; [|reflexivity]. exfalso. apply Hx.
      apply existsb_exists in E as (e' & Hin & He). apply Z.eqb_eq in He. rewrite He.
      now apply in_map.
Qed.

Lemma names_distinctb_spec t : names_distinctb t = true <-> NoDup (map ev_name t).
Proof.
  induction t as [|e r IH]; simpl.
  - split; [constructor | reflexivity].
  - rewrite andb_true_iff, negb_true_iff, IH. split.
    + intros [Hx Hr]. constructor; [|assumption]. intros Hin.
      apply in_map_iff in Hin as (e' & He & Hin).
      assert (existsb (fun e' => str_eqb (ev_name e) (ev_name e')) r = true).
      { apply existsb_exists. exists e'. split; [assumption|]. rewrite He. apply cstr_eqb_refl. }
      congruence.
    + intros H. inversion H as [|? ? Hx Hr]; subst. split; [|assumption].
      destruct (existsb _ r) eqn:E; [|reflexivity]. exfalso. apply Hx.
      apply existsb_exists in E as (e' & Hin & He). apply cstr_eqb_eq in He. rewrite He.
      now apply in_map.
Qed.

Lemma zero_freeb_spec t : zero_freeb t = true <-> ~ In 0%Z (map ev_num t).
Proof.
  unfold zero_freeb. rewrite negb_true_iff. split.
  - intros H Hin. apply in_map_iff in Hin as (e & He & Hin).
    assert (existsb (fun e => (ev_num e =? 0)%Z) t = true).
    { apply existsb_exists. exists e. split; [assumption|]. now apply Z.eqb_eq. }
    congruence.
  - intros H. destruct (existsb _ t) eqn:E; [|reflexivity]. exfalso. apply H.
    apply existsb_exists in E as (e & Hin & He). apply Z.eqb_eq in He. rewrite <- He. now apply in_map.
Qed.

Lemma names_okb_spec t : names_okb t = true <->
  Forall (fun e => ev_name e <> [] /\ ~ In COLON (ev_name e) /\ ~ In COLON (ev_mod e)) t.
Proof.
  unfold names_okb. rewrite forallb_forall, Forall_forall. split; intros H e Hin; specialize (H e Hin).
  - apply andb_true_iff in H as [H1 H2]. apply name_okb_spec in H1 as [Ha Hb].
    apply no_colon_spec in H2. auto.
  - destruct H as (Ha & Hb & Hc). apply andb_true_iff. split.
    + now apply name_okb_spec.
    + now apply no_colon_spec.
Qed.

(* the checker decides the declarative statement *)
Theorem tbl_ok_spec : forall t, tbl_okb_full t = true <-> tbl_wf t.
Proof.
  intros t. unfold tbl_okb_full, tbl_wf.
  rewrite !andb_true_iff, nums_distinctb_spec, names_distinctb_spec, zero_freeb_spec, names_okb_spec.
  tauto.
Qed.

(* ---------- bridge to the lemmas of CodecProofs ---------- *)

Lemma tbl_wf_strip t e : tbl_wf t -> In e t -> strip_mod (ev_name e) = ev_name e.
Proof.
  intros (_ & _ & _ & Hf) Hin. rewrite Forall_forall in Hf. destruct (Hf e Hin) as (_ & Hc & _).
  apply strip_mod_no_colon. rewrite <- no_colon_no_colonb. now apply no_colon_spec.
Qed.

Lemma tbl_wf_okb t : tbl_wf t -> tbl_okb t = true.
Proof.
  intros Hwf. pose proof Hwf as (_ & Hn & _ & _).
  assert (Hs : forall e, In e t -> strip_mod (ev_name e) = ev_name e) by (intros; now apply (tbl_wf_strip t)).
  clear Hwf. induction t as [|e r IH]; [reflexivity|]. simpl in *.
  inversion Hn as [|? ? Hx Hr]; subst. apply andb_true_iff. split.
  - apply negb_true_iff. destruct (existsb _ r) eqn:E; [|reflexivity]. exfalso. apply Hx.
    apply existsb_exists in E as (e' & Hin & He). apply cstr_eqb_eq in He.
    rewrite (Hs e), (Hs e') in He by auto. rewrite He. now apply in_map.
  - apply IH; auto.
Qed.

Lemma tbl_wf_nocolonb t : tbl_wf t -> tbl_nocolonb t = true.
Proof.
  intros (_ & _ & _ & Hf). unfold tbl_nocolonb. apply forallb_forall. intros e Hin.
  rewrite Forall_forall in Hf. destruct (Hf e Hin) as (_ & Hc & Hm).
  apply andb_true_iff. split; rewrite <- no_colon_no_colonb; now apply no_colon_spec.
Qed.

Lemma tbl_okb_full_okb t : tbl_okb_full t = true -> tbl_okb t = true /\ tbl_nocolonb t = true.
Proof. intros H. apply tbl_ok_spec in H. split; [now apply tbl_wf_okb | now apply tbl_wf_nocolonb]. Qed.

(* ---------- lookups ---------- *)

Lemma enum_by_num_first t e : NoDup (map ev_num t) -> In e t -> enum_by_num t (ev_num e) = Some e.
Proof.
  induction t as [|x r IH]; intros Hn Hin; [destruct Hin|]. simpl in *.
  inversion Hn as [|? ? Hx Hr]; subst. destruct Hin as [->|Hin].
  - now rewrite Z.eqb_refl.
  - destruct (ev_num x =? ev_num e)%Z eqn:E.
    + exfalso. apply Hx. apply Z.eqb_eq in E. rewrite E. now apply in_map.
    + now apply IH.
Qed.

Lemma enum_cast_In t s e : enum_cast t s = Some e -> In e t /\ strip_mod (ev_name e) = strip_mod s.
Proof.
  induction t as [|x r IH]; simpl; [discriminate|].
  destruct (str_eqb (strip_mod (ev_name x)) (strip_mod s)) eqn:E.
  - intros [= <-]. apply cstr_eqb_eq in E. auto.
  - intros H. apply IH in H as [H1 H2]. auto.
Qed.

Lemma enum_table_assoc env ty : enum_table env ty = match assoc ty env with Some t => t | None => [] end.
Proof. reflexivity. Qed.

(* for a value other than UNSET, enumFieldToString is Codec.enc_enum with set = true *)
Lemma enum_field_to_string_enc env pmi ty n : n <> 0%Z ->
  enum_field_to_string env pmi ty n = bind (enc_enum env pmi ty n) (fun s => Ok (s, true)).
Proof.
  intros Hn. unfold enum_field_to_string, enc_enum, enum_table.
  apply Z.eqb_neq in Hn. rewrite Hn. destruct (assoc ty env) as [t|]; [|reflexivity].
  destruct (enum_by_num t n); reflexivity.
Qed.

Lemma enum_elem_enc env pmi ty n : n <> 0%Z -> enum_elem env pmi ty n = enc_enum env pmi ty n.
Proof.
  intros Hn. unfold enum_elem. rewrite enum_field_to_string_enc by assumption.
  destruct (enc_enum env pmi ty n); reflexivity.
Qed.

Lemma enum_field_to_string_defined env pmi ty n e : n <> 0%Z ->
  enum_by_num (enum_table env ty) n = Some e ->
  enum_field_to_string env pmi ty n = Ok (enum_text pmi e, true).
Proof.
  intros Hn H. rewrite enum_field_to_string_enc by assumption. unfold enc_enum. now rewrite H.
Qed.

(* ---------- value -> name -> value ---------- *)

Theorem enum_parse_text : forall t n e pmi,
  tbl_okb_full t = true -> enum_by_num t n = Some e -> enum_parse t (enum_text pmi e) = Ok n.
Proof.
  intros t n e pmi Hok He. destruct (tbl_okb_full_okb t Hok) as [H1 H2].
  pose proof (enum_by_num_In _ _ _ He) as [Hin Hnum].
  destruct (tbl_nocolonb_In _ _ H2 Hin) as [Hcn Hcm].
  unfold enum_parse, enum_text.
  destruct (pmi && negb (nil_b (ev_mod e))).
  - rewrite (enum_cast_by_num_prefixed t n e He H1 Hcm Hcn). now rewrite Hnum.
  - rewrite (enum_cast_by_num t n e He H1). now rewrite Hnum.
Qed.

(* any module prefix at all is accepted and ignored (castToEnumValue strips it unchecked) *)
Theorem enum_parse_any_prefix : forall t n e m,
  tbl_okb_full t = true -> enum_by_num t n = Some e -> ~ In COLON m ->
  enum_parse t (m ++ COLON :: ev_name e) = Ok n.
Proof.
  intros t n e m Hok He Hm. destruct (tbl_okb_full_okb t Hok) as [H1 H2].
  pose proof (enum_by_num_In _ _ _ He) as [Hin Hnum].
  destruct (tbl_nocolonb_In _ _ H2 Hin) as [Hcn _].
  unfold enum_parse. rewrite (enum_cast_unique t e _ H1 Hin).
  - now rewrite Hnum.
  - rewrite strip_mod_prefixed; [now rewrite strip_mod_no_colon | | assumption].
    rewrite <- no_colon_no_colonb. now apply no_colon_spec.
Qed.

(* the round trip through the real entry points' models *)
Theorem enum_render_parse : forall env ty pmi n s,
  tbl_okb_full (enum_table env ty) = true ->
  enum_field_to_string env pmi ty n = Ok (s, true) ->
  enum_parse (enum_table env ty) s = Ok n.
Proof.
  intros env ty pmi n s Hok H. unfold enum_field_to_string in H.
  destruct (n =? 0)%Z; [discriminate|].
  unfold enum_table in *. destruct (assoc ty env) as [t|]; [|discriminate].
  destruct (enum_by_num t n) as [e|] eqn:He; [|discriminate]. injection H as <-.
  eapply enum_parse_text; eauto.
Qed.

(* name -> value -> name *)
Theorem enum_parse_render : forall t s n,
  tbl_okb_full t = true -> enum_parse t s = Ok n ->
  exists e, enum_by_num t n = Some e /\ ev_name e = strip_mod s.
Proof.
  intros t s n Hok H. unfold enum_parse in H.
  destruct (enum_cast t s) as [e|] eqn:Ec; [|discriminate]. injection H as <-.
  apply enum_cast_In in Ec as [Hin Hs]. apply tbl_ok_spec in Hok.
  exists e. split.
  - apply enum_by_num_first; [apply Hok | assumption].
  - rewrite <- Hs. symmetry. now apply (tbl_wf_strip t).
Qed.

(* distinct defined values have distinct names *)
Theorem enum_names_injective : forall t n1 n2 e1 e2,
  tbl_okb_full t = true -> enum_by_num t n1 = Some e1 -> enum_by_num t n2 = Some e2 ->
  ev_name e1 = ev_name e2 -> n1 = n2.
Proof.
  intros t n1 n2 e1 e2 Hok H1 H2 Hn.
  pose proof (enum_parse_text t n1 e1 false Hok H1) as P1.
  pose proof (enum_parse_text t n2 e2 false Hok H2) as P2.
  unfold enum_text in P1, P2. simpl in P1, P2. rewrite Hn in P1. congruence.
Qed.

(* ---------- UNSET ---------- *)

Lemma enum_field_to_string_unset env pmi ty : enum_field_to_string env pmi ty 0 = Ok ([], false).
Proof. reflexivity. Qed.

Lemma enum_leaf_unset env pmi ty : enum_leaf env pmi ty 0 = Ok None.
Proof. reflexivity. Qed.

Lemma enum_elem_unset env pmi ty : enum_elem env pmi ty 0 = Ok [].
Proof. reflexivity. Qed.

Lemma tbl_wf_zero t : tbl_okb_full t = true -> enum_by_num t 0 = None.
Proof.
  intros H. apply tbl_ok_spec in H. destruct H as (_ & _ & Hz & _).
  destruct (enum_by_num t 0) as [e|] eqn:E; [|reflexivity].
  apply enum_by_num_In in E as [Hin Hn]. exfalso. apply Hz. rewrite <- Hn. now apply in_map.
Qed.

(* a defined value is rendered by a field exactly when it is not 0 *)
Lemma enum_leaf_set env pmi ty n s : enum_leaf env pmi ty n = Ok (Some s) -> n <> 0%Z.
Proof. intros H ->. discriminate H. Qed.

(* ---------- undefined values ---------- *)

Lemma enum_field_to_string_undefined env pmi ty n : n <> 0%Z ->
  enum_by_num (enum_table env ty) n = None -> enum_field_to_string env pmi ty n = Err.
Proof.
  intros Hn H. rewrite enum_field_to_string_enc by assumption. unfold enc_enum. now rewrite H.
Qed.

Lemma enum_field_to_string_err_iff env pmi ty n :
  enum_field_to_string env pmi ty n = Err <-> n <> 0%Z /\ enum_by_num (enum_table env ty) n = None.
Proof.
  split.
  - intros H. assert (Hn : n <> 0%Z) by (intros ->; discriminate H). split; [assumption|].
    rewrite enum_field_to_string_enc in H by assumption. unfold enc_enum in H.
    destruct (enum_by_num (enum_table env ty) n); [discriminate | reflexivity].
  - intros [Hn H]. now apply enum_field_to_string_undefined.
Qed.

Lemma enum_field_to_string_no_panic env pmi ty n : enum_field_to_string env pmi ty n <> Panic.
Proof.
  unfold enum_field_to_string. destruct (n =? 0)%Z; [discriminate|].
  destruct (assoc ty env) as [t|]; [|discriminate]. destruct (enum_by_num t n); discriminate.
Qed.

(* a leaf-list with an element that fails to render fails as a whole *)
Lemma enum_slice_undefined env pmi ty pre n post :
  (forall m, In m pre -> exists s, enum_elem env pmi ty m = Ok s) ->
  enum_elem env pmi ty n = Err -> enum_slice env pmi ty (pre ++ n :: post) = Err.
Proof.
  unfold enum_slice. induction pre as [|m pre IH]; intros Hpre Hn; simpl.
  - now rewrite Hn.
  - destruct (Hpre m (or_introl eq_refl)) as [s Hs]. rewrite Hs. simpl.
    rewrite IH; [reflexivity | | assumption]. intros m' Hm'. apply Hpre. now right.
Qed.

(* ---------- the statements of Properties/C17.v ---------- *)

Theorem enum_bijection : forall env ty, tbl_okb_full (enum_table env ty) = true ->
  forall n e, enum_by_num (enum_table env ty) n = Some e -> n <> 0%Z ->
  forall pmi,
    enum_field_to_string env pmi ty n = Ok (enum_text pmi e, true) /\
    enum_parse (enum_table env ty) (enum_text pmi e) = Ok n /\
    enum_parse (enum_table env ty) (ev_name e) = Ok n /\
    enum_parse (enum_table env ty) (ev_mod e ++ COLON :: ev_name e) = Ok n.
Proof.
  intros env ty Hok n e He Hn pmi. repeat split.
  - now apply enum_field_to_string_defined.
  - now apply enum_parse_text.
  - exact (enum_parse_text _ n e false Hok He).
  - apply enum_parse_any_prefix; try assumption.
    apply tbl_ok_spec in Hok. destruct Hok as (_ & _ & _ & Hf). rewrite Forall_forall in Hf.
    destruct (enum_by_num_In _ _ _ He) as [Hin _]. now destruct (Hf e Hin) as (_ & _ & ?).
Qed.

Theorem enum_bijection_json : forall env fo pmi ty n j,
  tbl_okb_full (enum_table env ty) = true ->
  enc_scalar env fo pmi (VEnum ty n) = Ok j ->
  dec_json env fo (YEnum ty) j = Ok (VEnum ty n) /\ dec_json env fo (YIdref ty) j = Ok (VEnum ty n).
Proof.
  intros env fo pmi ty n j Hok He. destruct (tbl_okb_full_okb _ Hok) as [H1 H2].
  eapply dec_json_enum_roundtrip; [exact H1 | intros _; exact H2 | exact He].
Qed.

Theorem enum_names_unique : forall t, tbl_okb_full t = true ->
  NoDup (map ev_name t) /\
  forall n1 n2 e1 e2, enum_by_num t n1 = Some e1 -> enum_by_num t n2 = Some e2 ->
    ev_name e1 = ev_name e2 -> n1 = n2.
Proof.
  intros t Hok. split.
  - apply tbl_ok_spec in Hok. apply Hok.
  - intros. eapply enum_names_injective; eauto.
Qed.

Theorem enum_unset_not_rendered : forall env pmi ty,
  enum_field_to_string env pmi ty 0 = Ok ([], false) /\
  enum_leaf env pmi ty 0 = Ok None /\
  (forall fo, tbl_okb_full (enum_table env ty) = true ->
     enum_by_num (enum_table env ty) 0 = None /\
     enc_enum env pmi ty 0 = Err /\
     enc_scalar env fo pmi (VEnum ty 0) = Err).
Proof.
  intros env pmi ty. repeat split.
  - now apply tbl_wf_zero.
  - unfold enc_enum. now rewrite tbl_wf_zero.
  - apply enc_scalar_enum_err. now apply tbl_wf_zero.
Qed.

Theorem enum_undefined_errors : forall env fo pmi ty n,
  enum_by_num (enum_table env ty) n = None -> n <> 0%Z ->
  enum_field_to_string env pmi ty n = Err /\
  enum_leaf env pmi ty n = Err /\
  enum_elem env pmi ty n = Err /\
  enum_name env ty n = Err /\
  (forall wrapper, enum_union_gnmi wrapper env ty n = Err) /\
  (forall pre post, (forall m, In m pre -> exists s, enum_elem env pmi ty m = Ok s) ->
     enum_slice env pmi ty (pre ++ n :: post) = Err) /\
  enc_scalar env fo pmi (VEnum ty n) = Err /\
  enum_log_string env ty n = None.
Proof.
  intros env fo pmi ty n H Hn.
  assert (E : forall p, enum_field_to_string env p ty n = Err)
    by (intros p; now apply enum_field_to_string_undefined).
  repeat split.
  - apply E.
  - unfold enum_leaf. now rewrite E.
  - unfold enum_elem. now rewrite E.
  - unfold enum_name, enum_elem. now rewrite E.
  - intros [|]; unfold enum_union_gnmi, enum_union_gnmi_wrapper, enum_union_gnmi_simple, enum_leaf, enum_name, enum_elem;
      now rewrite E.
  - intros pre post Hpre. apply enum_slice_undefined; [assumption|]. unfold enum_elem. now rewrite E.
  - now apply enc_scalar_enum_err.
  - unfold enum_log_string. now rewrite H.
Qed.

Theorem table_statement_ok : forall t, tbl_okb_full t = true -> table_statement t.
Proof.
  intros t Hok. pose proof (proj1 (tbl_ok_spec t) Hok) as (Hn & Hm & _ & Hf).
  repeat split; try assumption.
  - now apply tbl_wf_zero.
  - exact (enum_parse_text t n e false Hok H).
  - apply enum_parse_any_prefix; try assumption. rewrite Forall_forall in Hf.
    destruct (enum_by_num_In _ _ _ H) as [Hin _]. now destruct (Hf e Hin) as (_ & _ & ?).
  - intros s n. now apply enum_parse_render.
Qed.

Theorem table_statement_lift : forall (ts : list (str * str * list enumval)),
  forallb (fun t => tbl_okb_full (snd t)) ts = true ->
  forall t, In t ts -> table_statement (snd t).
Proof.
  intros ts H t Hin. apply table_statement_ok. rewrite forallb_forall in H. now apply H.
Qed.

(* ---------- the generator's numbering ---------- *)

Theorem gen_enum_table_wf : forall vals, yang_enum_wf vals -> tbl_wf (gen_enum_table vals).
Proof.
  intros vals (Hn & Hv & Hm & Hf). unfold tbl_wf, gen_enum_table. repeat split.
  - rewrite map_map. simpl. rewrite <- (map_map snd (fun z => z + 1)%Z).
    apply FinFun.Injective_map_NoDup; [|assumption]. intros a b H. lia.
  - rewrite map_map. simpl. assumption.
  - rewrite map_map. simpl. intros Hin. apply in_map_iff in Hin as (p & Hp & Hin).
    apply Hm. apply in_map_iff. exists p. split; [lia | assumption].
  - apply Forall_forall. intros e Hin. apply in_map_iff in Hin as (p & <- & Hin). simpl.
    rewrite Forall_forall in Hf. destruct (Hf p Hin) as [Ha Hb]. repeat split; auto.
Qed.

Lemma ins_name_perm x l : Permutation (ins_name x l) (x :: l).
Proof.
  induction l as [|y r IH]; simpl; [reflexivity|].
  destruct (str_ltb (fst y) (fst x) || str_eqb (fst y) (fst x)).
  - rewrite IH. apply perm_swap.
  - reflexivity.
Qed.

Lemma sort_names_perm l : Permutation (sort_names l) l.
Proof.
  induction l as [|x r IH]; simpl; [reflexivity|]. rewrite ins_name_perm. now constructor.
Qed.

Lemma number_from_names k l : map ev_name (number_from k l) = map fst l.
Proof. revert k. induction l as [|[n m] r IH]; intros k; simpl; [reflexivity|]. now rewrite IH. Qed.

Lemma number_from_nums_ge k l z : In z (map ev_num (number_from k l)) -> (k <= z)%Z.
Proof.
  revert k. induction l as [|[n m] r IH]; intros k; simpl; [tauto|].
  intros [<-|H]; [lia|]. apply IH in H. lia.
Qed.

Lemma number_from_nums_nodup k l : NoDup (map ev_num (number_from k l)).
Proof.
  revert k. induction l as [|[n m] r IH]; intros k; simpl; constructor.
  - intros H. apply number_from_nums_ge in H. lia.
  - apply IH.
Qed.

Lemma number_from_In k l e : In e (number_from k l) -> In (ev_name e, ev_mod e) l.
Proof.
  revert k. induction l as [|[n m] r IH]; intros k; simpl; [tauto|].
  intros [<-|H]; [now left | right; eauto].
Qed.

Lemma last_mod_In n l d : last_mod n l d = d \/ In (last_mod n l d) (map snd l).
Proof.
  revert d. induction l as [|[n' m] r IH]; intros d; simpl; [now left|].
  destruct (IH (if str_eqb n n' then m else d)) as [H|H].
  - rewrite H. destruct (str_eqb n n'); auto.
  - auto.
Qed.

Theorem gen_identity_table_wf : forall ids, yang_identities_wf ids -> tbl_wf (gen_identity_table ids).
Proof.
  intros ids (Hn & Hf). unfold tbl_wf, gen_identity_table.
  assert (Hnames : map fst (map (fun p => (fst p, last_mod (fst p) ids (snd p))) (sort_names ids))
                   = map fst (sort_names ids)).
  { rewrite map_map. reflexivity. }
  repeat split.
  - apply number_from_nums_nodup.
  - rewrite number_from_names, Hnames.
    eapply Permutation_NoDup; [|exact Hn]. symmetry. apply Permutation_map. apply sort_names_perm.
  - intros H. apply number_from_nums_ge in H. lia.
  - apply Forall_forall. intros e Hin. apply number_from_In in Hin.
    apply in_map_iff in Hin as (p & Hp & Hin). injection Hp as Hp1 Hp2.
    apply (Permutation_in _ (sort_names_perm ids)) in Hin.
    rewrite Forall_forall in Hf. destruct (Hf p Hin) as (Ha & Hb & Hc).
    rewrite <- Hp1, <- Hp2. repeat split; try assumption.
    destruct (last_mod_In (fst p) ids (snd p)) as [H|H].
    + now rewrite H.
    + apply in_map_iff in H as (q & Hq & Hqin). rewrite <- Hq. now destruct (Hf q Hqin) as (_ & _ & ?).
Qed.

(* with distinct names the module looked up by name is the identity's own module *)
Lemma last_mod_own ids n m d : NoDup (map fst ids) -> In (n, m) ids -> last_mod n ids d = m.
Proof.
  revert d. induction ids as [|[n' m'] r IH]; intros d Hn Hin; [destruct Hin|]. simpl in *.
  inversion Hn as [|? ? Hx Hr]; subst. destruct Hin as [[= -> ->]|Hin].
  - rewrite cstr_eqb_refl. clear IH Hr.
    assert (G : forall l d', ~ In n (map fst l) -> last_mod n l d' = d').
    { induction l as [|[a b] l IHl]; intros d' Hni; simpl; [reflexivity|].
      simpl in Hni. destruct (str_eqb n a) eqn:E.
      - apply cstr_eqb_eq in E. subst a. exfalso. apply Hni. now left.
      - apply IHl. intros H. apply Hni. now right. }
    now apply G.
  - now apply IH.
Qed.

Print Assumptions tbl_ok_spec.
Print Assumptions enum_render_parse.
Print Assumptions enum_parse_render.
Print Assumptions gen_enum_table_wf.
Print Assumptions gen_identity_table_wf.
